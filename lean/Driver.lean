import Magog.Model.Time
import Magog.Model.Eval
import Magog.Model.Search
import Magog.Model.Uci     -- C17
import Magog.Model.Mirror  -- C15
import Magog.Spec.Chess
import Magog.Spec.Fen
import Magog.Abs

/-! mdrv: line-protocol driver over the Lean model and the Lean specification. Same operations and
    canonical output lines as harness/cmd/hdrv (the Go side); extra `s…` operations evaluate the
    specification (the oracle of the failing-input search). Fields are TAB-separated. -/

open Magog Magog.Model

def strBytes (s : String) : Bytes := s.toUTF8.toList.map (·.toNat)
def bytesStr (b : Bytes) : String := String.ofList (b.map fun c => Char.ofNat c)

def hexVal (c : Char) : Nat :=
  if c.isDigit then c.toNat - 48 else if 'a' ≤ c && c ≤ 'f' then c.toNat - 87 else if 'A' ≤ c && c ≤ 'F' then c.toNat - 55 else 0

def unhex : List Char → Bytes
  | a :: b :: r => (hexVal a * 16 + hexVal b) :: unhex r
  | _ => []

def pieceChar (p : Nat) : Char :=
  if p == 0 then '.' else if p == Gen.WPawn then 'P' else if p == Gen.WKnight then 'N' else if p == Gen.WBishop then 'B'
  else if p == Gen.WRook then 'R' else if p == Gen.WQueen then 'Q' else if p == Gen.WKing then 'K'
  else if p == Gen.BPawn then 'p' else if p == Gen.BKnight then 'n' else if p == Gen.BBishop then 'b'
  else if p == Gen.BRook then 'r' else if p == Gen.BQueen then 'q' else if p == Gen.BKing then 'k' else '?'

def sortedNats (l : List Nat) : String :=
  ",".intercalate ((l.toArray.qsort (· < ·)).toList.map toString)

def snapshot (p : Position) : String := Id.run do
  let mut b := ""
  let mut off := 0
  for i in [0:128] do
    let v := p.board.getD i 0
    if i &&& 0x88 != 0 then
      if v != 0 then off := off + 1
    else b := b.push (pieceChar v)
  return s!"B={b} off={off} f={p.flags} ep={p.ep} ply={p.ply} wk={p.whiteKing} bk={p.blackKing} wN={sortedNats p.whitePieces} wP={sortedNats p.whitePawns} bN={sortedNats p.blackPieces} bP={sortedNats p.blackPawns}"

def panicStr (e : Panic) : String :=
  match e with
  | .index w i => s!"panic index {w} {i}"
  | .explicit m => s!"panic explicit {m}"
  | .divZero => "panic divide by zero"
  | .nilDeref w => s!"panic nil {w}"
  | .hang w => s!"panic hang {w}"

def mvStr (m : Move) : String :=
  match moveString m with
  | .ok b => bytesStr b
  | .error _ => "??"

def mvStrEp (m : Move) : String :=
  mvStr m ++ (if m.ep != InvalidSq then "@" ++ bytesStr (sqString m.ep) else "")

def sortedStrs (l : List String) : String := ",".intercalate (l.toArray.qsort (· < ·)).toList

/-- Go `float64` king-table blend with Lean's `Float` (IEEE double, same operations in the same order) -/
def floatBlend : Blend := fun msum mid end_ =>
  let g : Float := (Float.ofNat msum) / (Float.ofNat Gen.StartingSumOfMaterial)
  let v : Float := g * Float.ofInt mid + (1.0 - g) * Float.ofInt end_
  v.toInt64.toInt

def parseFenStr (s : String) : M (Except FenError Position) := parseFen (strBytes s)

def withFen (fen : String) (k : Position → M String) : String :=
  match parseFenStr fen with
  | .error e => panicStr e
  | .ok (.error _) => "fenerr"
  | .ok (.ok p) => match k p with
    | .error e => panicStr e
    | .ok s => s

def b2i (b : Bool) : Nat := if b then 1 else 0

def placementPos (pl : String) (white : Bool) : M Position := do
  let cs := pl.toList
  let rec go (i : Nat) (cs : List Char) (p : Position) : M Position :=
    match cs with
    | [] => pure p
    | c :: r =>
      if i ≥ 64 then pure p else
      let pc := charToPiece c.toNat
      if pc == 0 then go (i + 1) r p else do
        let p ← fenPlace p ((i / 8) * 16 + i % 8) pc
        go (i + 1) r p
  let p ← go 0 cs emptyPosition
  pure { p with flags := if white then FWhiteTurn else 0 }

def attRow (p : Position) (byWhite : Bool) : M String := do
  let mut s := ""
  for i in [0:64] do
    let sq := (i / 8) * 16 + i % 8
    let a ← isUnderCheck p.board (p.side byWhite) sq
    s := s.push (if a then '1' else '0')
  return s

/-! specification side -/

def specSqName (s : Spec.Sq) : String := String.ofList [Char.ofNat (97 + Spec.fileOf s), Char.ofNat (49 + Spec.rankOf s)]
def specKindChar : Spec.Kind → Char
  | .pawn => 'p' | .knight => 'n' | .bishop => 'b' | .rook => 'r' | .queen => 'q' | .king => 'k'
def specMoveStr (m : Spec.Move) : String :=
  specSqName m.frm ++ specSqName m.to ++ (match m.promo with | some k => String.ofList [specKindChar k] | none => "")

def specManChar (m : Spec.Man) : Char :=
  match m.color with | .white => (specKindChar m.kind).toUpper | .black => specKindChar m.kind

def specBoardStr (p : Spec.Pos) : String :=
  String.ofList ((List.range 64).map fun s => match p.at s with | some m => specManChar m | none => '.')

def specSnap (p : Spec.Pos) : String :=
  let f := (if p.turn == .white then 1 else 0) + (if p.wk then 2 else 0) + (if p.wq then 4 else 0) +
           (if p.bk then 8 else 0) + (if p.bq then 16 else 0)
  let ep := match p.ep with | some e => (e / 8) * 16 + e % 8 | none => 136
  s!"B={specBoardStr p} f={f} ep={ep}"

def specAttRow (p : Spec.Pos) (by_ : Spec.Color) : String :=
  String.ofList ((List.range 64).map fun s => if Spec.attacked p.board by_ s then '1' else '0')

def specFindMove (p : Spec.Pos) (s : String) : Option Spec.Move :=
  (Spec.legalMoves p).find? fun m => specMoveStr m == s

partial def specPerft (p : Spec.Pos) (d : Nat) : Nat := Spec.paths p d

def stableSort (ms : List RMove) : List RMove := ms.mergeSort fun a b => a.ranking ≥ b.ranking

def quietEnv (lazy : Bool) : Env :=
  { blend := floatBlend, sortFn := stableSort, timeUp := fun _ => false, stopAt := fun _ => false,
    gateOpen := fun _ => false, logInterval := 1000000, lazy := lazy }

def pvStr (ms : List Move) : String := ",".intercalate (ms.map mvStr)

/-- the iteration sequence of `VerifSearch` (hdrv `search`): startAlphaBeta for d = 1..maxDepth with the
    previous best line as ordering hint, fresh killer table, no clock, no stop -/
def searchIters (lazy : Bool) (p : Position) (maxDepth : Nat) (budget : Nat := 0) : M String := do
  -- budget > 0: the clock oracle fires after that many consultations (about one per searched move), so a
  -- reference search that is too expensive ends early and is reported as ` | budget` instead of a value
  let env := if budget == 0 then quietEnv lazy else { quietEnv lazy with timeUp := fun t => t ≥ budget }
  let mut s : SS := { rows := newRows env.pvRows, killers := Killers.empty, nodes := 0, interrupted := false, tick := 0,
                      matched := 0, cand := [], rootMoves := [], firstMoveIdx := 0, out := [] }
  let mut len0 ← rowLen s 0
  let mut out := ""
  for d in [1:maxDepth+1] do
    let (score, one, l0, s') ← startAlphaBeta env 200 p d len0 s
    if budget != 0 && s'.tick ≥ budget then
      out := out ++ " | budget"
      break
    s := copyBestLine s' l0
    len0 := l0
    out := out ++ s!" | d={d} score={score} one={b2i one} pv={pvStr s.cand}"
  pure out

def eventStr : Event → String
  | .infoPv sc d n pv => s!"info score {sc} depth {d} nodes {n} pv {pvStr pv}"
  | .infoDepth d sc n pv => s!"info depth {d} score {sc} nodes {n} pv {pvStr pv}"
  | .currmove m k n => s!"info currmove {mvStr m} currmovenumber {k} nodes {n}"
  | .bestmove m => s!"bestmove {mvStr m}"
  | .infoTerminal sc => s!"info depth 0 score {sc}"
  | .bestmoveNone => "bestmove 0000"

def scoreStr (sc : Int) : String :=
  match formatScore sc with
  | .cp v => s!"cp {v}"
  | .mate v => s!"mate {v}"

/-- events as the engine prints them (score formatted by the model's `formatScore`), for exact trace comparison -/
def eventStrF : Event → String
  | .infoPv sc d n pv => s!"info score {scoreStr sc} depth {d} nodes {n} pv {pvStr pv}"
  | .infoDepth d sc n pv => s!"info depth {d} score {scoreStr sc} nodes {n} pv {pvStr pv}"
  | .currmove m k n => s!"info currmove {mvStr m} currmovenumber {k} nodes {n}"
  | .bestmove m => s!"bestmove {mvStr m}"
  | .infoTerminal sc => s!"info depth 0 score {scoreStr sc}"
  | .bestmoveNone => "bestmove 0000"

def lcg (s : Nat) : Nat := (s * 6364136223846793005 + 1442695040888963407) % 18446744073709551616

/-! ==== BEGIN C17: command interpreter (`Model.uciStep`) ==================================================
    `ucisess <hex line 1> <hex line 2> …` feeds the lines in order to `uciStep`, starting from the state of a
    fresh process; prints one TAB-separated result per line: `ok pos=[<snapshot>]|pos=nil srch= li= quit= k= ev=<event>`
    or `panic …` (the session ends there). Events: `-` none, `x:<hex>` the exact stdout text of the real
    engine, `c:<class>[:payload]` where only the class of the text is modelled. -/

def hexDigit (n : Nat) : Char := if n < 10 then Char.ofNat (48 + n) else Char.ofNat (87 + n)
def hexOf (b : Bytes) : String := String.ofList (b.flatMap fun c => [hexDigit ((c / 16) % 16), hexDigit (c % 16)])
def hexS (s : String) : String := hexOf (strBytes s)

def uciOps : EngineOps := modelOps floatBlend (fun _ => pure [])

def perftText (tactical : Bool) (es : List (Move × Nat)) : String :=
  let body := String.join (es.map fun e => s!"{mvStr e.1}: {e.2}\n")
  let total := (es.map (·.2)).sum
  body ++ (if tactical then s!"total material-changing moves: {total}\n" else s!"total: {total}\n")

def uciInfoText : String :=
  s!"id name Magog {Gen.VERSION_STRING_str}\nid author Maciej Smolczewski\noption name {Gen.currmoveLogIntervalKey_str} type spin default {Gen.currmoveLogIntervalDefault} min {Gen.currmoveLogIntervalMin} max {Gen.currmoveLogIntervalMax}\nuciok\n"

def uoutStr : UOut → String
  | .readyok => "x:" ++ hexS "readyok\n"
  | .noPositionEval => "x:" ++ hexS "No position set to evaluate\n"
  | .evalValue v => s!"c:eval:{v}"
  | .uciInfo => "x:" ++ hexS uciInfoText
  | .stopRequested => "c:stop"
  | .nilText => "x:" ++ hexS "<nil>\n"
  | .positionText _ => "c:text"
  | .fmtPanic => "c:fmtpanic"
  | .help => "c:help"
  | .invalidDepth arg => "x:" ++ hexOf (strBytes "Invalid depth:  " ++ arg ++ [10])
  | .noPositionPerft => "x:" ++ hexS "No position set to count perft from\n"
  | .perftDone t es => "x:" ++ hexS (perftText t es)
  | .invalidFen _ => "c:badfen"
  | .invalidPositionCommand _ => "c:badmoves"
  | .noPositionGo => "x:" ++ hexS "No position set to start search from\n"
  | .searchStarted ms d => s!"c:go:millis={ms} depth={d}"

def uciStateStr (st : UciState) : String :=
  let pos := match st.pos with | some p => s!"pos=[{snapshot p}]" | none => "pos=nil"
  s!"{pos} srch={b2i st.searchAllocated} li={st.logInterval} quit={b2i st.quit} k={b2i (st.killers == Killers.empty)}"

def uciSession (lines : List Bytes) : String := Id.run do
  let mut st := UciState.init
  let mut out : Array String := #[]
  for l in lines do
    match uciStep uciOps st l with
    | .error e =>
      out := out.push (panicStr e)
      break
    | .ok (st', evs) =>
      st := st'
      out := out.push s!"ok {uciStateStr st} ev={if evs.isEmpty then "-" else ",".intercalate (evs.map uoutStr)}"
  return "\t".intercalate out.toList

/-! ==== END C17 ========================================================================================= -/

def dispatch (f : List String) : String :=
  match f with
  | ["gen", fen] => withFen fen fun p => do
      let kt := Killers.empty
      let ms ← generateMoves kt p
      let ts ← generateTacticalMoves p
      let cnt ← countMoves p
      let tcnt ← countTacticalMoves p
      let chk ← isCurrentKingUnderCheck p
      pure s!"ok moves={sortedStrs (ms.map (mvStrEp ·.mov))} tact={sortedStrs (ts.map (mvStrEp ·.mov))} flags={sortedStrs (ms.map fun m => mvStr m.mov ++ ":" ++ toString (b2i m.tactical))} cnt={cnt} tcnt={tcnt} chk={b2i chk}"
  | ["snap", fen] => withFen fen fun p => pure ("ok " ++ snapshot p)
  | ["fen", hx] =>
      match parseFen (unhex hx.toList) with
      | .error e => panicStr e
      | .ok (.error _) => "fenerr"
      | .ok (.ok p) => "ok " ++ snapshot p
  | ["make", fen, mv] => withFen fen fun p => do
      let ms ← generateMoves Killers.empty p
      match ms.find? (fun m => mvStr m.mov == mv) with
      | none => pure "nomove"
      | some m =>
        let r ← makeMove p m.mov
        if !r.2 then throw (.explicit "Applying move resulted in illegal position")
        pure s!"ok {snapshot r.1} popsame=1"
  | ["makeraw", fen, a, b, c, d] => withFen fen fun p => do
      let r ← makeMove p ⟨a.toNat!, b.toNat!, c.toNat!, d.toNat!⟩
      pure s!"ok {snapshot r.1} legal={b2i r.2}"
  | "game" :: fen :: mvs => withFen fen fun p => do
      let mut p := p
      let mut out := "ok"
      for mv in mvs do
        let ms ← generateMoves Killers.empty p
        match ms.find? (fun m => mvStr m.mov == mv) with
        | none => return out ++ " nomove:" ++ mv
        | some m =>
          let r ← makeMove p m.mov
          if !r.2 then throw (.explicit "Applying move resulted in illegal position")
          p := r.1
          out := out ++ " | " ++ snapshot p
      pure out
  | ["attrow", pl, w] =>
      match (do let p ← placementPos pl true; attRow p (w == "1")) with
      | .ok s => "ok " ++ s
      | .error e => panicStr e
  | ["attfen", fen] => withFen fen fun p => do
      let w ← attRow p true
      let b ← attRow p false
      pure s!"ok {w} {b}"
  | ["eval", fen] => withFen fen fun p => do
      let full ← evaluate floatBlend p 0
      let cheap ← pieceSquareScore floatBlend p
      pure s!"ok full={full} cheap={cheap} same=1"
  | ["lazy", fen, d, a, b] => withFen fen fun p => do
      let v ← lazyEvaluate floatBlend p d.toInt! a.toInt! b.toInt!
      pure s!"ok {v}"
  | ["blend", m, a, b] => s!"ok {floatBlend m.toNat! a.toInt! b.toInt!}"
  | ["mv", hx] =>
      match parseMoveString asciiLower (unhex hx.toList) with
      | none => "err"
      | some m => s!"ok {m.frm} {m.to} {m.promo}"
  | ["mvstr", a, b, c] =>
      match moveString ⟨a.toNat!, b.toNat!, c.toNat!, InvalidSq⟩ with
      | .ok s => "ok " ++ bytesStr s
      | .error e => panicStr e
  | ["fmt", s] =>
      match formatScore s.toInt! with
      | .mate n => s!"ok mate {n}"
      | .cp n => s!"ok cp {n}"
  | ["time", side, wt, bt, wi, bi, mtg] =>
      match allot (side == "b") bt.toInt! bi.toInt! wt.toInt! wi.toInt! mtg.toInt! with
      | .ok v => s!"ok {v}"
      | .error e => panicStr e
  | ["goparams", side, hx] =>
      match goParams (side == "b") (unhex hx.toList) with
      | .ok none => "ok reject"
      | .ok (some g) => s!"ok millis={g.millis} depth={g.depth}"
      | .error e => panicStr e
  | ["perft", fen, n] => withFen fen fun p => do
      let a ← perft Killers.empty Gen.plyBufferCapacity n.toNat! 0 p
      let b ← perftTactical Killers.empty Gen.plyBufferCapacity n.toNat! 0 p
      pure s!"ok {a} {b}"
  -- ---------------- specification side (oracle) ----------------
  | ["sgen", fen] => withFen fen fun p =>
      let sp := abs p
      let ms := Spec.legalMoves sp
      let ts := ms.filter (Spec.isTactical sp)
      pure s!"ok legal={b2i (Spec.Legal sp)} moves={sortedStrs (ms.map specMoveStr)} tact={sortedStrs (ts.map specMoveStr)} cnt={ms.length} tcnt={ts.length} chk={b2i (Spec.inCheck sp.board sp.turn)}"
  | ["sattfen", fen] => withFen fen fun p =>
      let sp := abs p
      pure s!"ok {specAttRow sp .white} {specAttRow sp .black}"
  | ["sattrow", pl, w] =>
      match placementPos pl true with
      | .ok p => "ok " ++ specAttRow (abs p) (if w == "1" then .white else .black)
      | .error e => panicStr e
  | ["mirror", fen] => withFen fen fun p =>
      -- the colour-flip `Model.mirror` the C15 theorems are about; compared with the orchestrator's independent FEN mirror
      pure ("ok " ++ snapshot (mirror p))
  | "sgamegen" :: fen :: mvs => withFen fen fun p => do
      -- the rules: play the moves, then the legal moves of the position reached
      let mut sp := abs p
      for mv in mvs do
        match specFindMove sp mv with
        | none => return "ok nomove:" ++ mv
        | some m => sp := Spec.apply sp m
      let ms := Spec.legalMoves sp
      let ts := ms.filter (Spec.isTactical sp)
      pure s!"ok moves={sortedStrs (ms.map specMoveStr)} tact={sortedStrs (ts.map specMoveStr)} cnt={ms.length} tcnt={ts.length} chk={b2i (Spec.inCheck sp.board sp.turn)}"
  | "sgame" :: fen :: mvs => withFen fen fun p => do
      let mut sp := abs p
      let mut out := "ok"
      for mv in mvs do
        match specFindMove sp mv with
        | none => return out ++ " nomove:" ++ mv
        | some m =>
          sp := Spec.apply sp m
          out := out ++ " | " ++ specSnap sp
      pure out
  | ["sperft", fen, n] => withFen fen fun p =>
      pure s!"ok {Spec.paths (abs p) n.toNat!} {if n.toNat! == 0 then 0 else Spec.tacticalPaths (abs p) (n.toNat! - 1)}"
  | ["playout", seed, plies, full0, fen] => withFen fen fun p => do
      -- biased random playout of the specification; prints the FEN of every position reached
      let mut st := seed.toNat!
      let mut sp := abs p
      let mut out : Array String := #[]
      let mut ply := (full0.toNat! - 1) * 2 + (if sp.turn == .white then 0 else 1)
      for _ in [0:plies.toNat!] do
        let ms := Spec.legalMoves sp
        if ms.isEmpty then break
        st := lcg st
        let tact := ms.filter (Spec.isTactical sp)
        let castles := ms.filter (Spec.isCastle sp)
        let pool := if !castles.isEmpty && (st >>> 33) % 4 == 0 then castles
                    else if !tact.isEmpty && (st >>> 33) % 3 == 0 then tact else ms
        st := lcg st
        let m := pool[(st >>> 33) % pool.length]!
        sp := Spec.apply sp m
        ply := ply + 1
        out := out.push (specMoveStr m ++ "=" ++ Spec.toFen sp (ply / 2 + 1))
      pure ("ok " ++ ";".intercalate out.toList)
  | ["sdivide", fen, n] => withFen fen fun p =>
      let sp := abs p
      let n := n.toNat!
      let ms := Spec.legalMoves sp
      let pe := ms.map fun m => (specMoveStr m, Spec.paths (Spec.apply sp m) (n - 1))
      let te := ms.map fun m => (specMoveStr m,
        if n ≤ 1 then (if Spec.isTactical sp m then 1 else 0) else Spec.tacticalPaths (Spec.apply sp m) (n - 2))
      let fmt (es : List (String × Nat)) (dropZero : Bool) : String :=
        sortedStrs ((es.filter fun e => !dropZero || e.2 != 0).map fun e => e.1 ++ ":" ++ toString e.2) ++ "|" ++
          toString ((es.map (·.2)).sum)
      pure s!"ok perft={fmt pe false} tperft={fmt te true}"
  | ["msearch", fen, d, lz] => withFen fen fun p => do
      let r ← searchIters (lz == "1") p d.toNat!
      pure ("ok" ++ r)
  | ["msearch", fen, d, lz, b] => withFen fen fun p => do
      let r ← searchIters (lz == "1") p d.toNat! b.toNat!
      pure ("ok" ++ r)
  | ["miter", fen, d] => withFen fen fun p => do
      let env := quietEnv true
      let s ← iterDeep env 200 p d.toNat! Killers.empty (newRows env.pvRows) env.pvRows
      pure ("ok " ++ " ; ".intercalate (s.out.reverse.map eventStr))
  | ["mtrace", fen, d, iv] => withFen fen fun p => do
      -- exact trace of `go depth d` with currmoveLogInterval = iv under a silent oracle and a stable sort
      -- (engine side: VERIF_STABLE_SORT=1); mid-iteration pv lines are gated off (search shorter than 200 ms)
      let env := { quietEnv true with logInterval := iv.toInt! }
      let s ← iterDeep env 200 p d.toNat! Killers.empty (newRows env.pvRows) env.pvRows
      pure ("ok " ++ " ; ".intercalate (s.out.reverse.map eventStrF))
  | ["spv", fen, pv] => withFen fen fun p => do
      -- replay a principal variation with the specification: ok <n> | bad <index>
      let mut sp := abs p
      let mut i := 0
      let mvs := (pv.splitOn ",").filter (· != "")
      if mvs.isEmpty then return "bad empty"
      for mv in mvs do
        match specFindMove sp mv with
        | none => return s!"bad {i}"
        | some m => sp := Spec.apply sp m
        i := i + 1
      pure s!"ok {i}"
  | ["smate", fen, n] => withFen fen fun p =>
      -- shortest forced mate within n plies by the AND/OR specification: win k | lose k | none
      let sp := abs p
      let n := n.toNat!
      let w := (List.range (n + 1)).find? fun k => Spec.winsIn sp k
      let l := (List.range (n + 1)).find? fun k => Spec.losesIn sp k
      pure (match w, l with
        | some k, _ => s!"ok win {k}"
        | none, some k => s!"ok lose {k}"
        | none, none => "ok none")
  | ["smateafter", fen, mv, n] => withFen fen fun p =>
      let sp := abs p
      match specFindMove sp mv with
      | none => pure "ok illegal"
      | some m =>
        let sp := Spec.apply sp m
        let n := n.toNat!
        let w := (List.range (n + 1)).find? fun k => Spec.winsIn sp k
        let l := (List.range (n + 1)).find? fun k => Spec.losesIn sp k
        pure (match w, l with
          | some k, _ => s!"ok win {k}"
          | none, some k => s!"ok lose {k}"
          | none, none => "ok none")
  | ["sseq", fen, d] => withFen fen fun p =>
      -- all legal move sequences of length d (shorter when the game ends) from the position
      let rec go (sp : Spec.Pos) (d : Nat) (pre : List String) : List String :=
        match d with
        | 0 => [" ".intercalate pre.reverse]
        | d + 1 =>
          let ms := Spec.legalMoves sp
          if ms.isEmpty then (if pre.isEmpty then [] else [" ".intercalate pre.reverse])
          else ms.flatMap fun m => go (Spec.apply sp m) d (specMoveStr m :: pre)
      pure ("ok " ++ ";".intercalate (go (abs p) d.toNat! []))
  | ["slegal", fen] => withFen fen fun p => pure s!"ok {b2i (Spec.Legal (abs p))}"
  | "ucisess" :: hxs => uciSession (hxs.map fun h => unhex h.toList)     -- C17
  | _ => "badop"

partial def loop (h : IO.FS.Stream) (out : IO.FS.Stream) : IO Unit := do
  let line ← h.getLine
  if line.isEmpty then return ()
  let line := if line.endsWith "\n" then (line.dropEnd 1).toString else line
  out.putStrLn (dispatch (line.splitOn "\t"))
  out.flush      -- one result per op, visible at once: a slow op must not hide the results before it
  loop h out

def main : IO Unit := do
  let out ← IO.getStdout
  loop (← IO.getStdin) out
  out.flush
