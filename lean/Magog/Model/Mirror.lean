import Magog.Model.Eval

/-! The colour-flip symmetry of the engine model (property C15): ranks reversed, piece colours
    swapped, side to move swapped, castling rights swapped, en-passant square mirrored.
    Definitions only; core Lean only. -/

namespace Magog.Model
open Magog

/-- colour flip of a 0x88 square: ranks reversed (`rank r ↦ 7 - r`), file kept -/
def mirrorSq (s : Nat) : Nat := s ^^^ 0x70

/-- swap the two colour bits of a piece byte, keep the kind bits (`0 ↦ 0`) -/
def mirrorPiece (pc : Nat) : Nat :=
  (pc &&& Colorless) ||| (if pc &&& WhiteBit != 0 then BlackBit else 0)
    ||| (if pc &&& BlackBit != 0 then WhiteBit else 0)

/-- the mirrored 0x88 board: slot `mirrorSq i` holds `mirrorPiece b[i]`, all 128 slots -/
def mirrorBoard (b : Array Nat) : Array Nat :=
  ((List.range 128).map fun i => mirrorPiece (b.getD (mirrorSq i) 0)).toArray

/-- flags byte: turn bit toggled, white and black castling rights exchanged, other bits kept -/
def mirrorFlags (f : Nat) : Nat :=
  (f &&& (0xFF ^^^ (FWhiteTurn ||| FWK ||| FWQ ||| FBK ||| FBQ)))
    ||| (if f &&& FWhiteTurn == 0 then FWhiteTurn else 0)
    ||| (if f &&& FWK != 0 then FBK else 0) ||| (if f &&& FWQ != 0 then FBQ else 0)
    ||| (if f &&& FBK != 0 then FWK else 0) ||| (if f &&& FBQ != 0 then FWQ else 0)

/-- en-passant square: mirrored when it is a board square, otherwise (`InvalidSquare`) kept -/
def mirrorEp (e : Nat) : Nat := if isValid e then mirrorSq e else e

def mirrorSide (s : Side) : Side := ⟨s.pieces.map mirrorSq, s.pawns.map mirrorSq, mirrorSq s.king⟩

/-- the colour-flipped position -/
def mirror (p : Position) : Position :=
  { board := mirrorBoard p.board,
    blackPieces := p.whitePieces.map mirrorSq, whitePieces := p.blackPieces.map mirrorSq,
    blackPawns := p.whitePawns.map mirrorSq, whitePawns := p.blackPawns.map mirrorSq,
    blackKing := mirrorSq p.whiteKing, whiteKing := mirrorSq p.blackKing,
    flags := mirrorFlags p.flags, ep := mirrorEp p.ep, ply := p.ply }

def mirrorMove (m : Move) : Move := ⟨mirrorSq m.frm, mirrorSq m.to, m.promo, mirrorEp m.ep⟩

/-- a direction byte with its rank component negated (N↔S, NE↔SE, NNE↔SSE, …; E, W, 0 fixed) -/
def mirDir (d : Nat) : Nat :=
  if d == Gen.DirN then Gen.DirS else if d == Gen.DirS then Gen.DirN
  else if d == Gen.DirNE then Gen.DirSE else if d == Gen.DirSE then Gen.DirNE
  else if d == Gen.DirNW then Gen.DirSW else if d == Gen.DirSW then Gen.DirNW
  else if d == Gen.DirNNE then Gen.DirSSE else if d == Gen.DirSSE then Gen.DirNNE
  else if d == Gen.DirNNW then Gen.DirSSW else if d == Gen.DirSSW then Gen.DirNNW
  else if d == Gen.DirNEE then Gen.DirSEE else if d == Gen.DirSEE then Gen.DirNEE
  else if d == Gen.DirNWW then Gen.DirSWW else if d == Gen.DirSWW then Gen.DirNWW
  else d

end Magog.Model
