import Magog.Model.Notation

/-! Model of the time-allotment arithmetic and of `doGo`'s token parsing (uci.go), and of score
    formatting. Go `int` is 64-bit; `Int.tdiv` is Go's truncating division; division by zero panics. -/

namespace Magog.Model
open Magog

def wrap64 (x : Int) : Int := (x + 9223372036854775808) % 18446744073709551616 - 9223372036854775808

/-- Go integer division (panics on zero divisor) -/
def goDiv (a b : Int) : M Int := if b == 0 then throw .divZero else pure (wrap64 (Int.tdiv a b))

/-- `calcEndtime`: milliseconds allotted to this move -/
def allot (blackToMove : Bool) (blackLeft blackInc whiteLeft whiteInc movesToGo : Int) : M Int := do
  let left := if blackToMove then blackLeft else whiteLeft
  let inc := if blackToMove then blackInc else whiteInc
  let forMove ← if left > inc then do
                  let q ← goDiv left movesToGo
                  pure (min (wrap64 (q + inc)) left)
                else pure left
  let forMove := wrap64 (forMove - Gen.antiflagMillis)
  pure (max forMove 1)

/-- what `doGo` decides before spawning the search -/
structure GoParams where
  /-- thinking time in milliseconds (deadline − start) -/
  millis : Int
  depth : Int
  deriving Repr, DecidableEq

structure GoAcc where
  moveTime : Int := -1
  blackLeft : Int := 100000000000
  whiteLeft : Int := 100000000000
  blackInc : Int := 0
  whiteInc : Int := 0
  movesToGo : Int := Gen.ExpectedFullMovesToBePlayed
  depth : Int := Gen.MaxSearchDepth

inductive GoScan where
  | done (a : GoAcc)        -- loop finished or `break out`
  | reject                  -- `return` without starting a search

def kwMoveTime : Bytes := Gen.uMoveTime_bytes
def kwInfinite : Bytes := Gen.uInfinite_bytes
def kwWtime : Bytes := Gen.uWtime_bytes
def kwBtime : Bytes := Gen.uBtime_bytes
def kwWinc : Bytes := Gen.uWinc_bytes
def kwBinc : Bytes := Gen.uBinc_bytes
def kwMovesToGo : Bytes := Gen.uMovesToGo_bytes
def kwDepth : Bytes := Gen.uDepth_bytes

/-- the `for i, token := range tokens` loop: `tokens[i+1]` is read after every keyword (index panic when
    the keyword is the last token) -/
def goScan : List Bytes → GoAcc → M GoScan
  | [], a => pure (.done a)
  | tok :: rest, a =>
    -- the value following a keyword; empty (not a number) when the keyword comes last
    let arg : M Bytes := match rest with
      | nxt :: _ => pure nxt
      | [] => pure []
    if tok == kwMoveTime then do
      let s ← arg
      match atoi s with
      | none => pure .reject
      | some v => pure (.done { a with moveTime := v })
    else if tok == kwInfinite then pure (.done a)
    else if tok == kwWtime then do
      let s ← arg
      match atoi s with | none => pure .reject | some v => goScan rest { a with whiteLeft := v }
    else if tok == kwBtime then do
      let s ← arg
      match atoi s with | none => pure .reject | some v => goScan rest { a with blackLeft := v }
    else if tok == kwWinc then do
      let s ← arg
      match atoi s with | none => pure .reject | some v => goScan rest { a with whiteInc := v }
    else if tok == kwBinc then do
      let s ← arg
      match atoi s with | none => pure .reject | some v => goScan rest { a with blackInc := v }
    else if tok == kwMovesToGo then do
      let s ← arg
      match atoi s with
      | none => pure .reject
      | some v => if v < 1 then pure .reject else goScan rest { a with movesToGo := v }
    else if tok == kwDepth then do
      let s ← arg
      match atoi s with
      | none => pure .reject
      | some v => if v < 1 then pure .reject else goScan rest { a with depth := min v Gen.MaxSearchDepth }
    else goScan rest a

/-- `doGo` up to the point where the search goroutine is spawned; `none` = returned without searching.
    `time.Duration(ms * 1e6)` is an int64 multiplication: the millisecond value reported is the wrapped
    nanosecond count divided by 10^6 (truncating), which is what `end.Sub(start).Milliseconds()` gives. -/
def goFinish (blackToMove : Bool) (a : GoAcc) : M GoParams :=
  if a.moveTime != -1 then
    let ms := wrap64 (a.moveTime - Gen.antiflagMillis)
    pure ⟨Int.tdiv (wrap64 (ms * 1000000)) 1000000, a.depth⟩
  else do
    let ms ← allot blackToMove a.blackLeft a.blackInc a.whiteLeft a.whiteInc a.movesToGo
    pure ⟨Int.tdiv (wrap64 (1000000 * ms)) 1000000, a.depth⟩

def goTokens (blackToMove : Bool) (tokens : List Bytes) : M (Option GoParams) := do
  match (← goScan tokens {}) with
  | .reject => pure none
  | .done a => do
    let g ← goFinish blackToMove a
    pure (some g)

def goParams (blackToMove : Bool) (goCommand : Bytes) : M (Option GoParams) :=
  goTokens blackToMove (splitOn 32 goCommand)

/-! score formatting (uci.go) -/

def closeToMate (score : Int) : Bool := score.natAbs > Gen.ScoreCloseToMate

def fullMovesToMate (score : Int) : Int :=
  let sign : Int := if score < 0 then -1 else 1
  let s := if score < 0 then -score else score
  let plies := -Gen.LostScore - s
  Int.tdiv (sign * (plies + 1)) 2

def pliesToMate (score : Int) : Int := -Gen.LostScore - score.natAbs

def natToBytes (n : Nat) : Bytes := (toString n).toUTF8.toList.map (·.toNat)
def intToBytes (i : Int) : Bytes := (toString i).toUTF8.toList.map (·.toNat)

inductive ScoreText where
  | mate (n : Int)
  | cp (n : Int)
  deriving Repr, DecidableEq

def formatScore (score : Int) : ScoreText :=
  if closeToMate score then .mate (fullMovesToMate score) else .cp score

end Magog.Model
