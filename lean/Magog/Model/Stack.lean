import Magog.Model.Eval

/-! Explicit stack-machine model of `Generator` (engine/movegen.go): the position stack `posStack`, the
    index `plyIdx`, `PushMove` / `PopMove`, and the stack versions of `Perft` / `PerftTactical`; and the
    literal (in-place flag flipping) version of `LazyEvaluate` (engine/score.go).

    The functional model (`Model/MoveGen.lean`, `Model/Search.lean`, `Model/Eval.lean`) passes positions by
    value, so it cannot even express an unbalanced push/pop pair or a flag that was flipped and not flipped
    back. This file models the mutable data the Go code really works on, so that the discipline becomes a
    statement that can be proved (`Magog/Lemmas/Stack.lean`, `Magog/Props/C16.lean`). Core-only. -/

namespace Magog.Model
open Magog

/-- `Generator`: `posStack [plyBufferCapacity]Position` and `plyIdx` (the move stack is modelled by the
    by-value move lists of the functional model). `plyIdx` is a Go `int16`; it is a `Nat` here: every use
    of `popMove` below follows a successful `pushMove` (so `idx ≥ 1` and the truncated subtraction is exact);
    a `PopMove` at `plyIdx = 0` (Go: `plyIdx = -1`, the next access panics) is outside this model. -/
structure GenS where
  stack : Array Position
  idx : Nat

/-- `gen.getTopPos()` (`&gen.posStack[gen.plyIdx]`); `none` = Go index panic -/
def GenS.top (g : GenS) : Option Position := g.stack[g.idx]?

/-- `NewGenerator()` / `NewGeneratorFromFen`: a buffer of `plyBufferCapacity` positions, slot 0 = `p`.
    (Go zero-fills the other slots; their content is never read before it is written, here they hold `p`.) -/
def GenS.new (p : Position) : GenS := { stack := Array.replicate Gen.plyBufferCapacity p, idx := 0 }

/-- `Generator.PushMove` without its final `panic`: returns the legality flag of `MakeMove`.

    ```go
    gen.posStack[gen.plyIdx+1] = gen.posStack[gen.plyIdx]   // index panic at the last slot
    gen.plyIdx++
    success := gen.posStack[gen.plyIdx].MakeMove(legalMove) // in place on the new top
    ``` -/
def pushMove (g : GenS) (m : Move) : M (GenS × Bool) :=
  if g.idx + 1 ≥ g.stack.size then throw (.index "posStack" (g.idx + 1)) else
  match g.stack[g.idx]? with
  | none => throw (.index "posStack" g.idx)
  | some p =>
    -- copy slot `idx` to slot `idx+1`, increment
    let g1 : GenS := { stack := g.stack.setIfInBounds (g.idx + 1) p, idx := g.idx + 1 }
    -- `MakeMove` on the new top, in place
    match g1.stack[g1.idx]? with
    | none => throw (.index "posStack" g1.idx)
    | some q => do
      let r ← makeMove q m
      pure ({ g1 with stack := g1.stack.setIfInBounds g1.idx r.1 }, r.2)

/-- `Generator.PushMove` including `if !success { panic(…) }` -/
def pushLegal (g : GenS) (m : Move) : M GenS := do
  let (g1, ok) ← pushMove g m
  if !ok then throw (.explicit "Applying move resulted in illegal position") else pure g1

/-- `Generator.PopMove`: `gen.plyIdx--` (the slot is not cleared) -/
def popMove (g : GenS) : GenS := { g with idx := g.idx - 1 }

/-- the shape of every `PushMove(m); …; PopMove()` pair of the engine (perft, `alphaBeta`, `quiescence`, the
    root loop): run `k` on the generator with `m` pushed, pop afterwards -/
def withMove {α} (g : GenS) (m : Move) (k : GenS → M (α × GenS)) : M (α × GenS) := do
  let g1 ← pushLegal g m
  let (a, g2) ← k g1
  pure (a, popMove g2)

/-- the same bracket around the flag-returning `pushMove` (no legality panic) -/
def withMoveUnchecked {α} (g : GenS) (m : Move) (k : GenS → M (α × GenS)) : M (α × GenS) := do
  let (g1, _) ← pushMove g m
  let (a, g2) ← k g1
  pure (a, popMove g2)

/-- `for _, move := range moves { …; movesCount += f(move) }` threading the generator state -/
def sumS {α σ} (f : α → σ → M (Nat × σ)) : List α → σ → M (Nat × σ)
  | [], g => pure (0, g)
  | x :: xs, g => do
    let (a, g) ← f x g
    let (b, g) ← sumS f xs g
    pure (a + b, g)

/-- `Generator.Perft(depth)` on the stack machine: returns the count and the final generator state -/
def perftS (kt : Killers) : Nat → GenS → M (Nat × GenS)
  | 0, g => pure (1, g)
  | 1, g =>
    match g.top with
    | none => throw (.index "posStack" g.idx)
    | some p => do
      let n ← countMoves p
      pure (n, g)
  | d + 2, g =>
    match g.top with
    | none => throw (.index "posStack" g.idx)
    | some p => do
      let ms ← generateMoves kt p
      sumS (fun rm g => withMove g rm.mov (perftS kt (d + 1))) ms g

/-- `Generator.PerftTactical(depth)` on the stack machine -/
def perftTacticalS (kt : Killers) : Nat → GenS → M (Nat × GenS)
  | 0, g =>
    match g.top with
    | none => throw (.index "posStack" g.idx)
    | some p => do
      let n ← countTacticalMoves p
      pure (n, g)
  | 1, g =>
    match g.top with
    | none => throw (.index "posStack" g.idx)
    | some p => do
      let n ← countTacticalMoves p
      pure (n, g)
  | d + 2, g =>
    match g.top with
    | none => throw (.index "posStack" g.idx)
    | some p => do
      let ms ← generateMoves kt p
      sumS (fun rm g => withMove g rm.mov (perftTacticalS kt (d + 1))) ms g

/-- `LazyEvaluate(pos *Position, depth, alpha, beta)` literally: on the path that counts the opponent's
    mobility the Go code flips `pos.flags ^= FlagWhiteTurn` *in place*, counts, and flips back. The
    (possibly mutated) position is returned along with the score. -/
def lazyEvaluateInPlace (blend : Blend) (p : Position) (depth alpha beta : Int) : M (Int × Position) := do
  let mate ← isCheckMate p
  if mate then pure (Gen.LostScore + depth, p) else do
    let cheap ← pieceSquareScore blend p
    if cheap > beta + Gen.fullEvalScoreMargin || cheap < alpha - Gen.fullEvalScoreMargin then pure (cheap, p) else do
      let own ← countMoves p
      if own * Gen.MobilityScoreFactor == 0 then pure (Gen.DrawScore, p) else do
        -- `pos.flags = pos.flags ^ FlagWhiteTurn`
        let p1 : Position := { p with flags := p.flags ^^^ FWhiteTurn }
        let enemy ← countMoves p1
        -- `pos.flags = pos.flags ^ FlagWhiteTurn`
        let p2 : Position := { p1 with flags := p1.flags ^^^ FWhiteTurn }
        pure (cheap + (own * Gen.MobilityScoreFactor : Nat) - (enemy * Gen.MobilityScoreFactor : Nat), p2)

/-- `LazyEvaluate(gen.getTopPos(), …)` as the search calls it: the evaluation works on the top slot of the
    position stack in place -/
def lazyEvaluateTop (blend : Blend) (g : GenS) (depth alpha beta : Int) : M (Int × GenS) :=
  match g.top with
  | none => throw (.index "posStack" g.idx)
  | some p => do
    let (x, p') ← lazyEvaluateInPlace blend p depth alpha beta
    pure (x, { g with stack := g.stack.setIfInBounds g.idx p' })

end Magog.Model
