import Magog.Generated.Shape

/-! Model of the stop / isready / go protocol between the command thread (uci.go `ParseInputLine`) and
    the search goroutines (search.go), as a labelled transition system.

The *shape* of the handlers is regenerated from the source (extract/main.go → `Gen.stopChanCap`,
`Gen.stopNonBlocking`, `Gen.stopReadsInterrupted`, `Gen.isreadyUnconditionalNew`, `Gen.goDrainsStop`), so the
theorems are about the protocol the code implements now; the shape of the original tree is kept as
`oldShape` with its proved failure witnesses.

Granularity: every access to shared state is one step. A `Search` object has a channel (number of
queued tokens, capacity `cap`) and the `interrupted` flag; the global `search` variable points to one
object (0 = nil). A search thread is bound to the object it was spawned on. -/

namespace Magog.Model.Proto

structure Shape where
  cap : Nat                   -- capacity of Search.stop
  stopNonBlocking : Bool      -- `select { case stop <- true: default: }`
  stopReadsFlag : Bool        -- the stop handler's guard reads search.interrupted
  isreadyAlwaysNew : Bool     -- `isready` allocates a new Search unconditionally
  goDrains : Bool             -- `go` discards a queued stop before spawning
  deriving DecidableEq, Repr

def sourceShape : Shape :=
  { cap := Gen.stopChanCap.toNat, stopNonBlocking := Gen.stopNonBlocking, stopReadsFlag := Gen.stopReadsInterrupted,
    isreadyAlwaysNew := Gen.isreadyUnconditionalNew, goDrains := Gen.goDrainsStop }

/-- the protocol of the tree before the `fix:` commit for C12 -/
def oldShape : Shape :=
  { cap := 0, stopNonBlocking := false, stopReadsFlag := true, isreadyAlwaysNew := true, goDrains := false }

structure Obj where
  chan : Nat                  -- tokens queued in the channel
  interrupted : Bool
  deriving DecidableEq, Repr

inductive Phase where
  | spawned                   -- goroutine created, has not run yet
  | running                   -- past `search.interrupted = false`, polls the channel after every move
  | finishing                 -- left the last loop: will print bestmove without polling again
  | done                      -- bestmove printed
  deriving DecidableEq, Repr

structure Thread where
  obj : Nat                   -- index of its Search object
  phase : Phase
  deriving DecidableEq, Repr

inductive Cmd where
  | idle
  | blockedSend (obj : Nat)   -- command thread blocked in `search.stop <- true`
  deriving DecidableEq, Repr

structure State where
  objs : List Obj             -- object i+1 is objs[i]
  cur : Nat                   -- the global `search` (0 = nil)
  /-- the most recently spawned search thread. UCI discipline (no `go` before the previous `bestmove`)
      is a precondition of the property, so at most one search thread is alive at any time and the
      earlier ones are only counted. -/
  thr : Option Thread
  cmd : Cmd
  readyoks : Nat
  bestmoves : Nat
  gos : Nat
  deriving DecidableEq, Repr

def init : State := { objs := [], cur := 0, thr := none, cmd := .idle, readyoks := 0, bestmoves := 0, gos := 0 }

def getObj (s : State) (i : Nat) : Obj := s.objs.getD (i - 1) ⟨0, true⟩
def setObj (s : State) (i : Nat) (o : Obj) : State := { s with objs := s.objs.set (i - 1) o }

def alive (s : State) : Bool := match s.thr with | some t => t.phase != .done | none => false

/-- allocate a new Search (`NewSearch`: empty channel, interrupted = true) and point the global to it -/
def alloc (s : State) : State := { s with objs := s.objs ++ [⟨0, true⟩], cur := s.objs.length + 1 }

inductive Label where
  | isready
  | stop
  | go                        -- only enabled when no search thread is alive (UCI discipline)
  | tStart                    -- search thread: `search.interrupted = false`
  | tPoll                     -- search thread: non-blocking receive after a move
  | tLeave                    -- search thread leaves its loops (depth reached / interrupted / time up)
  | tPrint                    -- search thread prints bestmove
  deriving DecidableEq, Repr

/-- one step; `none` = label not enabled -/
def step (sh : Shape) (s : State) : Label → Option State
  | .isready =>
    if s.cmd != .idle then none else
    let s := if sh.isreadyAlwaysNew || s.cur == 0 then alloc s else s
    some { s with readyoks := s.readyoks + 1 }
  | .stop =>
    if s.cmd != .idle then none else
    if s.cur == 0 then some s else
    let o := getObj s s.cur
    if sh.stopReadsFlag && o.interrupted then some s else
    if o.chan < sh.cap then some (setObj s s.cur { o with chan := o.chan + 1 })
    else if sh.stopNonBlocking then some s      -- full: a request is already pending
    else some { s with cmd := .blockedSend s.cur }
  | .go =>
    if s.cmd != .idle then none else
    if alive s then none else
    let s := if s.cur == 0 then alloc s else s
    let o := getObj s s.cur
    let s := if sh.goDrains then setObj s s.cur { o with chan := o.chan - 1 } else s
    some { s with thr := some ⟨s.cur, .spawned⟩, gos := s.gos + 1 }
  | .tStart =>
    match s.thr with
    | some ⟨o, .spawned⟩ =>
      let s := setObj s o { getObj s o with interrupted := false }
      some { s with thr := some ⟨o, .running⟩ }
    | _ => none
  | .tPoll =>
    match s.thr with
    | some ⟨o, .running⟩ =>
      let ob := getObj s o
      if ob.interrupted then none      -- an interrupted search does not poll again: it leaves
      else if ob.chan > 0 then some (setObj s o { chan := ob.chan - 1, interrupted := true })
      else if s.cmd == .blockedSend o then
        -- rendezvous with the blocked sender (unbuffered channel)
        some { setObj s o { ob with interrupted := true } with cmd := .idle }
      else some s
    | _ => none
  | .tLeave =>
    match s.thr with
    | some ⟨o, .running⟩ => some { s with thr := some ⟨o, .finishing⟩ }
    | _ => none
  | .tPrint =>
    match s.thr with
    | some ⟨o, .finishing⟩ => some { s with thr := some ⟨o, .done⟩, bestmoves := s.bestmoves + 1 }
    | _ => none

def run (sh : Shape) : State → List Label → Option State
  | s, [] => some s
  | s, l :: ls => match step sh s l with
    | some s' => run sh s' ls
    | none => none

inductive Reach (sh : Shape) : State → Prop where
  | init : Reach sh init
  | step {s s' : State} (l : Label) : Reach sh s → step sh s l = some s' → Reach sh s'

end Magog.Model.Proto
