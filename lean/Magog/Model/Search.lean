import Magog.Model.Eval
import Magog.Model.Time

/-! Model of engine/search.go: iterative deepening, fail-hard negamax alpha-beta, quiescence, the
    triangular PV table with Go's slice semantics, killer updates, interruption.

Everything the Go code reads from the outside world is a parameter (`Env`): the clock and the stop
channel are oracles over a tick counter (one tick per consultation), the 200 ms print gate likewise,
`slices.SortFunc` is `sortFn`, the `float64` blend is `blend`.

Slices: `bestLineAtDepth[d]` is a backing array `rows[d]`; a node at depth `d` owns a *local* header for
row `d+1` whose length survives from one child to the next (`subLen`), and writes row `d` through the
header its parent handed down (`curLen` in, new length out). -/

namespace Magog.Model
open Magog

inductive Event where
  | infoPv (score : Int) (depth : Nat) (nodes : Nat) (pv : List Move)      -- printInfo: `info score … depth …`
  | infoDepth (depth : Nat) (score : Int) (nodes : Nat) (pv : List Move)   -- printInfoAfterDepth
  | currmove (mov : Move) (number : Nat) (nodes : Nat)
  | bestmove (mov : Move)
  | infoTerminal (score : Int)     -- `info depth 0 score …` for a root without legal moves
  | bestmoveNone                   -- `bestmove 0000`
  deriving Repr, DecidableEq

structure Env where
  blend : Blend
  sortFn : List RMove → List RMove
  /-- `time.Now().After(endTime)` at consultation number `tick` -/
  timeUp : Nat → Bool
  /-- a value is waiting on the stop channel at consultation number `tick` -/
  stopAt : Nat → Bool
  /-- `timeElapsed >= 200ms` at consultation number `tick` (maybePrintNewPvInfo) -/
  gateOpen : Nat → Bool
  logInterval : Int            -- currmoveLogInterval
  lazy : Bool := true          -- false: evaluate with the full window (the reference search)
  pvRows : Nat := Gen.pvRows.toNat
  stackCap : Nat := Gen.plyBufferCapacity

structure SS where
  rows : Array (Array Move)
  killers : Killers
  nodes : Nat
  interrupted : Bool
  tick : Nat
  matched : Nat                -- candidateLine.sublineLengthMatched
  cand : List Move             -- candidateLine.moves (best line of the previous iteration)
  rootMoves : List RMove       -- movStack[0]
  firstMoveIdx : Nat
  out : List Event             -- most recent first

/-- `NewSearch`: row i has length and capacity `maxLineLength - i`, zero moves -/
def newRows (n : Nat) : Array (Array Move) :=
  Array.ofFn (n := n) fun i => Array.replicate (n - i.val) Move.zero

def SS.consult (s : SS) : SS := { s with tick := s.tick + 1 }

/-- header of `search.bestLineAtDepth[d]` as stored in the struct: full length; index panic past the table -/
def rowLen (s : SS) (d : Nat) : M Nat :=
  match s.rows[d]? with
  | some r => pure r.size
  | none => throw (.index "bestLineAtDepth" d)

/-- `updateBestLine(currBestLine, betterSubline, betterMove)` for the row `d` (capacity = row size) -/
def updateBestLine (s : SS) (d : Nat) (subLen : Nat) (mv : Move) : M (SS × Nat) :=
  match s.rows[d]?, s.rows[d + 1]? with
  | some row, some sub =>
    if subLen + 1 > row.size then throw (.index "currBestLine reslice" (subLen + 1)) else
    let row := row.setIfInBounds 0 mv
    let row := (List.range subLen).foldl (fun (r : Array Move) i => r.setIfInBounds (i + 1) (sub.getD i Move.zero)) row
    pure ({ s with rows := s.rows.setIfInBounds d row }, subLen + 1)
  | _, _ => throw (.index "bestLineAtDepth" d)

def rowPrefix (s : SS) (d len : Nat) : List Move := ((s.rows.getD d #[]).toList).take len

/-- `applyPvMoveBonus`: first move (in generation order) that continues the candidate line gets the bonus -/
def applyPvBonus (cand : List Move) (matched depth : Nat) : List RMove → List RMove × Nat
  | [] => ([], matched)
  | m :: ms =>
    if depth < cand.length ∧ cand[depth]? = some m.mov ∧ depth = matched then
      ({ m with ranking := wrap16 (m.ranking + Gen.rankingBonusPvMove) } :: ms, matched + 1)
    else
      let r := applyPvBonus cand matched depth ms
      (m :: r.1, r.2)

def updateKillers (kt : Killers) (ply : Int) (mv : Move) : M Killers := do
  let k ← killerSlot kt ply
  pure (kt.setIfInBounds (killerIdx ply) (mv, k.1))

/-- the two polls after a move in the alpha-beta loops:
    `if interrupted || time.After(end) { break }` then `select { case <-stop: interrupted = true }`.
    Returns (break?, state). -/
def pollAfterMove (env : Env) (s : SS) : Bool × SS :=
  if s.interrupted then (true, s) else
  let s := s.consult
  if env.timeUp (s.tick - 1) then (true, s) else
  let s := s.consult
  if env.stopAt (s.tick - 1) then (false, { s with interrupted := true }) else (false, s)

abbrev NodeFn := Position → Nat → Nat → Int → Int → Nat → SS → M (Int × Nat × SS)
-- arguments: position, stack index, depth, alpha, beta, current length of *currBestLine; result: score, new length, state

/-- result of a move loop -/
structure LoopOut where
  score : Int
  curLen : Nat
  st : SS

/-- the move loop of `quiescence` -/
def qLoop (env : Env) (child : NodeFn) (p : Position) (idx depth : Nat) (beta : Int) :
    List RMove → Int → Nat → Nat → SS → M LoopOut
  | [], alpha, curLen, _, s => pure ⟨alpha, curLen, s⟩
  | mv :: rest, alpha, curLen, subLen, s => do
    if idx + 1 ≥ env.stackCap then throw (.index "posStack" (idx + 1)) else
    let r ← makeMove p mv.mov
    if !r.2 then throw (.explicit "Applying move resulted in illegal position") else
    let (v, subLen, s) ← child r.1 (idx + 1) (depth + 1) (-beta) (-alpha) subLen s
    let score := -v
    -- `if search.interrupted || time.Now().After(endTime) { break }`
    if s.interrupted then pure ⟨alpha, curLen, s⟩ else
    let s := s.consult
    if env.timeUp (s.tick - 1) then pure ⟨alpha, curLen, s⟩ else
    if score ≥ beta then pure ⟨beta, curLen, s⟩ else
    if score > alpha then do
      let (s, curLen) ← updateBestLine s depth subLen mv.mov
      qLoop env child p idx depth beta rest score curLen subLen s
    else qLoop env child p idx depth beta rest alpha curLen subLen s

/-- `quiescence`; `fuel` bounds the recursion (the Go code has no bound; see `C18`) -/
def quiescence (env : Env) : Nat → NodeFn
  | 0 => fun _ _ _ _ _ _ _ => throw (.hang "quiescence")
  | fuel + 1 => fun p idx depth alpha beta curLen s => do
    let subLen ← rowLen s (depth + 1)
    let s := { s with nodes := s.nodes + 1 }
    let score ← if env.lazy then lazyEvaluate env.blend p depth alpha beta else evaluate env.blend p depth
    let s ← if env.logInterval == 0 then throw .divZero
            else if Int.tmod (s.nodes : Int) env.logInterval == 0 then
              match s.rootMoves[s.firstMoveIdx]? with
              | some rm => pure { s with out := .currmove rm.mov (s.firstMoveIdx + 1) s.nodes :: s.out }
              | none => throw (.index "movStack[0]" s.firstMoveIdx)
            else pure s
    if score ≥ beta then pure (beta, curLen, s) else
    let (alpha, curLen) := if score > alpha then (score, 0) else (alpha, curLen)
    let ms ← generateTacticalMoves p
    let ms := env.sortFn ms
    let r ← qLoop env (quiescence env fuel) p idx depth beta ms alpha curLen subLen s
    pure (r.score, r.curLen, r.st)

/-- the move loop of `alphaBeta` -/
def abLoop (env : Env) (child : NodeFn) (p : Position) (idx depth : Nat) (beta : Int) :
    List RMove → Int → Nat → Nat → SS → M LoopOut
  | [], alpha, curLen, _, s => pure ⟨alpha, curLen, s⟩
  | mv :: rest, alpha, curLen, subLen, s => do
    if s.interrupted then pure ⟨alpha, curLen, s⟩ else
    if idx + 1 ≥ env.stackCap then throw (.index "posStack" (idx + 1)) else
    let r ← makeMove p mv.mov
    if !r.2 then throw (.explicit "Applying move resulted in illegal position") else
    let (v, subLen, s) ← child r.1 (idx + 1) (depth + 1) (-beta) (-alpha) subLen s
    let score := -v
    if score ≥ beta then do
      if !mv.tactical then do
        let kt ← updateKillers s.killers p.ply mv.mov
        pure ⟨beta, curLen, { s with killers := kt }⟩
      else pure ⟨beta, curLen, s⟩
    else do
      let (alpha, curLen, s) ← if score > alpha then do
                                  let (s, curLen) ← updateBestLine s depth subLen mv.mov
                                  pure (score, curLen, s)
                                else pure (alpha, curLen, s)
      let (brk, s) := pollAfterMove env s
      if brk then pure ⟨alpha, curLen, s⟩
      else abLoop env child p idx depth beta rest alpha curLen subLen s

/-- `alphaBeta`; `rem = targetDepth - depth` -/
def alphaBeta (env : Env) (qfuel : Nat) : Nat → NodeFn
  | 0 => fun p idx depth alpha beta curLen s => do
    -- `bestSubline := search.bestLineAtDepth[depth+1]` is evaluated before the depth test
    let _ ← rowLen s (depth + 1)
    quiescence env qfuel p idx depth alpha beta curLen s
  | rem + 1 => fun p idx depth alpha beta curLen s => do
    let subLen ← rowLen s (depth + 1)
    let ms ← generateMoves s.killers p
    if ms.isEmpty then do
      let v ← terminalNodeScore p depth
      pure (v, 0, { s with nodes := s.nodes + 1 })
    else do
      let (ms, matched) := applyPvBonus s.cand s.matched depth ms
      let s := { s with matched }
      let ms := env.sortFn ms
      let r ← abLoop env (alphaBeta env qfuel rem) p idx depth beta ms alpha curLen subLen s
      pure (r.score, r.curLen, r.st)

def nextMoveWins (score : Int) : Bool := score == -Gen.LostScore - 1

/-- root move loop of `startAlphaBeta` (β = +∞, never cuts) -/
def rootLoop (env : Env) (child : NodeFn) (p : Position) (target : Nat) :
    List RMove → Int → Nat → Nat → SS → M LoopOut
  | [], alpha, curLen, _, s => pure ⟨alpha, curLen, s⟩
  | mv :: rest, alpha, curLen, subLen, s => do
    if s.interrupted then pure ⟨alpha, curLen, s⟩ else
    if 1 ≥ env.stackCap then throw (.index "posStack" 1) else
    let r ← makeMove p mv.mov
    if !r.2 then throw (.explicit "Applying move resulted in illegal position") else
    let (v, subLen, s) ← child r.1 1 1 (-(Gen.InfinityScore : Int)) (-alpha) subLen s
    let score := -v
    let (alpha, curLen, s) ← if score > alpha then do
                                let (s, curLen) ← updateBestLine s 0 subLen mv.mov
                                -- maybePrintNewPvInfo(alpha, targetDepth, search.getBestLine(), …): row 0 at its
                                -- *struct* length, which is the header just resliced
                                let s := s.consult
                                let s ← if env.gateOpen (s.tick - 1) then
                                          if curLen == 0 then throw (.index "bestLine[0]" 0)
                                          else pure { s with out := .infoPv score target s.nodes (rowPrefix s 0 curLen) :: s.out }
                                        else pure s
                                pure (score, curLen, s)
                              else pure (alpha, curLen, s)
    if s.interrupted then pure ⟨alpha, curLen, s⟩ else
    let s := s.consult
    if env.timeUp (s.tick - 1) then pure ⟨alpha, curLen, s⟩ else
    if nextMoveWins score then pure ⟨alpha, curLen, s⟩ else
    let s := s.consult
    let s := if env.stopAt (s.tick - 1) then { s with interrupted := true } else s
    rootLoop env child p target rest alpha curLen subLen { s with firstMoveIdx := s.firstMoveIdx + 1 }

/-- `startAlphaBeta(posGen, targetDepth, &bestLineAtDepth[0], pvLine, …)`: returns score, oneLegalMove and
    the new length of row 0's header -/
def startAlphaBeta (env : Env) (qfuel : Nat) (p : Position) (target : Nat) (curLen : Nat) (s : SS) :
    M (Int × Bool × Nat × SS) := do
  let subLen ← rowLen s 1
  let ms ← generateMoves s.killers p
  if ms.isEmpty then do
    let v ← terminalNodeScore p 0
    pure (v, false, 0, { s with nodes := s.nodes + 1, rootMoves := [] })
  else do
    let (ms, matched) := applyPvBonus s.cand s.matched 0 ms
    let ms := env.sortFn ms
    let s := { s with matched, rootMoves := ms, firstMoveIdx := 0 }
    let r ← rootLoop env (alphaBeta env qfuel (target - 1)) p target ms (Gen.MinusInfinityScore) curLen subLen s
    pure (r.score, ms.length == 1, r.curLen, r.st)

/-- `copyBestLine(bestLine, search.bestLineAtDepth[0])` -/
def copyBestLine (s : SS) (len0 : Nat) : SS := { s with cand := rowPrefix s 0 len0, matched := 0 }

def printInfo (s : SS) (score : Int) (depth : Nat) : M SS :=
  if s.cand.isEmpty then throw (.index "bestLine[0]" 0)
  else pure { s with out := .infoPv score depth s.nodes s.cand :: s.out }

def printInfoAfterDepth (s : SS) (score : Int) (depth : Nat) : M SS :=
  if s.cand.isEmpty then throw (.index "bestLine[0]" 0)
  else pure { s with out := .infoDepth depth score s.nodes s.cand :: s.out }

/-- the `for currDepth := 2; currDepth <= maxDepth` loop -/
def deepenLoop (env : Env) (qfuel : Nat) (p : Position) (maxDepth : Nat) :
    Nat → Nat → Int → Nat → Nat → SS → M (Int × Nat × SS)
  | 0, _, best, done, _, s => pure (best, done, s)
  | n + 1, cur, best, done, len0, s =>
    if cur > maxDepth then pure (best, done, s) else do
    let (score, one, len0, s) ← startAlphaBeta env qfuel p cur len0 s
    let s := s.consult
    if env.timeUp (s.tick - 1) then pure (best, done, s) else
    if s.interrupted then pure (best, done, s) else do
    let s := copyBestLine s len0
    let s ← printInfoAfterDepth s score cur
    if pliesToMate score == cur then pure (score, cur, s) else
    if one then pure (score, cur, s) else
    deepenLoop env qfuel p maxDepth n (cur + 1) score cur len0 s

/-- `Search.StartIterativeDeepening(start, end, maxDepth)` on position `p` -/
def iterDeep (env : Env) (qfuel : Nat) (p : Position) (maxDepth : Nat) (killers : Killers)
    (rows : Array (Array Move)) (len0 : Nat) : M SS := do
  let s : SS := { rows, killers, nodes := 0, interrupted := false, tick := 0, matched := 0, cand := [],
                  rootMoves := [], firstMoveIdx := 0, out := [] }
  let (score, one, len0, s) ← startAlphaBeta env qfuel p 1 len0 s
  let s := copyBestLine s len0
  if s.cand.isEmpty then
    -- root is checkmate or stalemate
    pure { s with out := .bestmoveNone :: .infoTerminal score :: s.out }
  else
  let s := s.consult
  let (best, done, s) ←
    if !env.timeUp (s.tick - 1) && !s.interrupted && !one then
      deepenLoop env qfuel p maxDepth maxDepth 2 score 1 len0 s
    else pure (score, 1, s)
  let s ← printInfo s best done
  match s.cand with
  | m :: _ => pure { s with out := .bestmove m :: s.out }
  | [] => throw (.index "bestLine.moves[0]" 0)

end Magog.Model
