import Magog.Model.Position
import Magog.Generated.Start

/-! The engine's initial position (`NewGenerator()`), rebuilt from the run-time dump of the linked
    engine (Generated/Start.lean). Used as the concrete non-vacuity witness of the property theorems. -/

namespace Magog.Model
open Magog

/-- piece code of one character of the dumped board string (`.` = empty) -/
def startCharPiece (c : Char) : Nat :=
  if c == 'P' then Gen.WPawn else if c == 'N' then Gen.WKnight else if c == 'B' then Gen.WBishop
  else if c == 'R' then Gen.WRook else if c == 'Q' then Gen.WQueen else if c == 'K' then Gen.WKing
  else if c == 'p' then Gen.BPawn else if c == 'n' then Gen.BKnight else if c == 'b' then Gen.BBishop
  else if c == 'r' then Gen.BRook else if c == 'q' then Gen.BQueen else if c == 'k' then Gen.BKing
  else 0

/-- 64 dumped characters (a1..h8) spread over the 128-slot 0x88 board -/
def startBoard88 : List Nat :=
  let cs := Gen.startBoard.toList
  (List.range 128).map fun s =>
    if s &&& 0x88 == 0 then startCharPiece (cs.getD ((s >>> 4) * 8 + (s &&& 7)) '.') else 0

def startPosition : Position :=
  { board := startBoard88.toArray,
    blackPieces := Gen.startBlackPieces, whitePieces := Gen.startWhitePieces,
    blackPawns := Gen.startBlackPawns, whitePawns := Gen.startWhitePawns,
    blackKing := Gen.startBlackKing, whiteKing := Gen.startWhiteKing,
    flags := Gen.startFlags, ep := Gen.startEp, ply := Gen.startPly }

end Magog.Model
