import Magog.Model.Fen

/-! Model of move notation: `square.String`, `piece.String`, `Move.String` (defs.go, movegen.go) and
    `parseMoveString` (uci.go), over byte strings. -/

namespace Magog.Model
open Magog

/-- `square.String()` -/
def sqString (s : Nat) : Bytes :=
  if s &&& InvalidSq != 0 then [45, 45] else [(s &&& 0x0F) + 97, (s >>> 4) + 49]

/-- `piece.String()` for the values a `Move.promoteTo` can hold; other values panic in Go -/
def pieceString (p : Nat) : M Bytes :=
  if p == 0 then pure [45, 45]
  else if p == Pawn then pure [112]
  else if p == Knight then pure [110]
  else if p == Bishop then pure [98]
  else if p == Rook then pure [114]
  else if p == Queen then pure [113]
  else if p == King then pure [107]
  else if p == Gen.BPawn then pure [112, 112] else if p == Gen.BKnight then pure [78, 78]
  else if p == Gen.BBishop then pure [66, 66] else if p == Gen.BRook then pure [82, 82]
  else if p == Gen.BQueen then pure [81, 81] else if p == Gen.BKing then pure [75, 75]
  else if p == Gen.WPawn then pure [112, 32] else if p == Gen.WKnight then pure [78, 32]
  else if p == Gen.WBishop then pure [66, 32] else if p == Gen.WRook then pure [82, 32]
  else if p == Gen.WQueen then pure [81, 32] else if p == Gen.WKing then pure [75, 32]
  else throw (.explicit s!"Unknown piece {p}")

/-- `Move.String()` -/
def moveString (m : Move) : M Bytes :=
  if m.promo != 0 then do
    let ps ← pieceString m.promo
    pure (sqString m.frm ++ sqString m.to ++ ps)
  else pure (sqString m.frm ++ sqString m.to)

/-- ASCII lower-casing (what `strings.ToLower` does on ASCII input) -/
def asciiLower (s : Bytes) : Bytes := s.map fun c => if 65 ≤ c && c ≤ 90 then c + 32 else c

/-- `parseMoveString`; `lower` stands for `strings.ToLower` (exact on ASCII, unspecified elsewhere) -/
def parseMoveString (lower : Bytes → Bytes) (s : Bytes) : Option Move :=
  let s := lower s
  match s with
  | f0 :: r0 :: f1 :: r1 :: rest =>
    if f0 < 97 || f0 > 104 || f1 < 97 || f1 > 104 then none
    else if r0 < 49 || r0 > 56 || r1 < 49 || r1 > 56 then none
    else
      let frm := ((f0 - 97) + ((r0 - 49) <<< 4)) % 256
      let to := ((f1 - 97) + ((r1 - 49) <<< 4)) % 256
      match rest with
      | [c] =>
        let promo := if c == 110 then Knight else if c == 98 then Bishop else if c == 114 then Rook
                     else if c == 113 then Queen else 0
        some ⟨frm, to, promo, InvalidSq⟩
      | _ => some ⟨frm, to, 0, InvalidSq⟩
  | _ => none

/-- `Generator.ApplyUciMove`: reconstruct the en-passant target of a double push, then MakeMove in place;
    an illegal result is an explicit panic -/
def applyUciMove (p : Position) (m : Move) : M Position := do
  let pc ← bget p.board m.frm
  let m := if pc &&& Colorless == Pawn &&
      ((rankOf m.frm == Gen.Rank7 && rankOf m.to == Gen.Rank5) || (rankOf m.frm == Gen.Rank2 && rankOf m.to == Gen.Rank4))
    then { m with ep := ((m.frm + m.to) % 256) / 2 } else m
  let r ← makeMove p m
  if r.2 then pure r.1 else throw (.explicit "Applying uci move resulted in illegal position")

end Magog.Model
