import Magog.Model.Fen

/-! Model of main.go's read loop. Input is a finite list of lines followed by end-of-file forever;
    `scanner.Scan()` returns false at EOF and `scanner.Text()` is then the empty string. Whether the loop
    looks at Scan's result / at `engine.Quit` are *shape facts* regenerated from the source
    (`Gen.mainLoopChecksScan`, `Gen.mainLoopChecksQuit`). The command handler is a parameter: all that
    matters here is which lines set the Quit flag. -/

namespace Magog.Model

structure LoopShape where
  checksScan : Bool
  checksQuit : Bool

def sourceLoopShape : LoopShape := ⟨Gen.mainLoopChecksScan, Gen.mainLoopChecksQuit⟩

structure LoopState where
  quit : Bool
  input : List Bytes      -- lines not yet read; `[]` = at EOF
  handled : List Bytes    -- lines passed to ParseInputLine so far (most recent first)

inductive LoopStep where
  | exited (s : LoopState)
  | running (s : LoopState)

/-- one evaluation of the loop condition plus one body execution.
    `setsQuit line` = ParseInputLine sets `engine.Quit` on this line. -/
def loopStep (sh : LoopShape) (setsQuit : Bytes → Bool) (s : LoopState) : LoopStep :=
  if sh.checksQuit && s.quit then .exited s else
  match s.input with
  | [] =>
    -- Scan() = false
    if sh.checksScan then .exited s
    else .running { s with quit := s.quit || setsQuit [], handled := [] :: s.handled }
  | l :: rest => .running { quit := s.quit || setsQuit l, input := rest, handled := l :: s.handled }

/-- run at most `n` iterations -/
def loopRun (sh : LoopShape) (setsQuit : Bytes → Bool) : Nat → LoopState → LoopStep
  | 0, s => .running s
  | n + 1, s =>
    match loopStep sh setsQuit s with
    | .exited s' => .exited s'
    | .running s' => loopRun sh setsQuit n s'

def quitBytes : Bytes := [113, 117, 105, 116]

end Magog.Model
