import Magog.Model.Position

/-! Model of engine/movegen.go (pseudo-legal generators, legality filter, tactical generator,
    `countTacticalMoves`, perft) and of `countMoves` from engine/score.go. -/

namespace Magog.Model
open Magog

/-- killer table: one pair of moves per game ply (`killerMoves [][2]Move`) -/
abbrev Killers := Array (Move × Move)

def Killers.empty : Killers := Array.replicate Gen.killerMovesMaxPly (Move.zero, Move.zero)

/-- `killerSlot(ply)`: `int(uint16(ply)) % killerMovesMaxPly` -/
def killerIdx (ply : Int) : Nat := (ply % 65536).toNat % Gen.killerMovesMaxPly

/-- slot of the killer table used for game ply `ply` (Go: `killerMoves[killerSlot(ply)]`) -/
def killerSlot (kt : Killers) (ply : Int) : M (Move × Move) :=
  match kt[killerIdx ply]? with
  | some k => pure k
  | none => throw (.index "killerMoves" (killerIdx ply))

def probeKiller (kt : Killers) (mov : Move) (ply : Int) : M Int := do
  let k ← killerSlot kt ply
  if mov == k.1 then pure Gen.rankingBonusKiller1st
  else if mov == k.2 then pure Gen.rankingBonusKiller2nd
  else pure 0

def pieceToScore (p : Nat) : M Int :=
  if p == Pawn then pure Gen.MaterialPawnScore
  else if p == Knight then pure Gen.MaterialKnightScore
  else if p == Bishop then pure Gen.MaterialBishopScore
  else if p == Rook then pure Gen.MaterialRookScore
  else if p == Queen then pure Gen.MaterialQueenScore
  else if p == King then pure 0
  else throw (.explicit s!"Should not get score for this piece: {p}")

/-- everything `GetCurrentContext` returns -/
structure Ctx where
  cur : Side
  en : Side
  adv : Nat          -- pawn advance direction as a byte
  curBit : Nat
  enBit : Nat
  qOk : Bool
  kOk : Bool
  startRank : Nat
  promoRank : Nat

def Position.ctx (p : Position) : Ctx :=
  if whiteTurn p then
    { cur := p.side true, en := p.side false, adv := Gen.DirN, curBit := WhiteBit, enBit := BlackBit,
      qOk := p.flags &&& FWQ != 0, kOk := p.flags &&& FWK != 0, startRank := Gen.Rank2, promoRank := Gen.Rank8 }
  else
    { cur := p.side false, en := p.side true, adv := Gen.DirS, curBit := BlackBit, enBit := WhiteBit,
      qOk := p.flags &&& FBQ != 0, kOk := p.flags &&& FBK != 0, startRank := Gen.Rank7, promoRank := Gen.Rank1 }

def quiet (kt : Killers) (ply : Int) (mov : Move) : M RMove := do
  let r ← probeKiller kt mov ply
  pure ⟨mov, r, false⟩

def captureRM (mov : Move) (attacker attacked : Nat) : M RMove := do
  let a ← pieceToScore attacked
  let b ← pieceToScore attacker
  pure ⟨mov, a - b + Gen.rankingBonusTactical, true⟩

/-- `appendMoveOrCapture` / `appendSlidingPieceMoveOrCapture` -/
def moveOrCapture (kt : Killers) (ply : Int) (frm to attacker attacked : Nat) : M RMove :=
  if attacked == 0 then quiet kt ply ⟨frm, to, 0, InvalidSq⟩
  else captureRM ⟨frm, to, 0, InvalidSq⟩ attacker attacked

def promoRMoves (frm to : Nat) (common : Int) : List RMove :=
  [⟨⟨frm, to, Queen, InvalidSq⟩, Gen.MaterialQueenScore + common, true⟩,
   ⟨⟨frm, to, Rook, InvalidSq⟩, Gen.MaterialRookScore + common, true⟩,
   ⟨⟨frm, to, Bishop, InvalidSq⟩, Gen.MaterialBishopScore + common, true⟩,
   ⟨⟨frm, to, Knight, InvalidSq⟩, Gen.MaterialKnightScore + common, true⟩]

/-- `appendPawnPushes` -/
def pawnPushes (kt : Killers) (ply : Int) (frm to promoRank : Nat) : M (List RMove) :=
  if rankOf to == promoRank then
    pure (promoRMoves frm to ((Gen.rankingBonusTactical : Int) - Gen.MaterialPawnScore))
  else do
    let q ← quiet kt ply ⟨frm, to, 0, InvalidSq⟩
    pure [q]

/-- `appendPawnCaptures` -/
def pawnCaptures (frm to promoRank captured : Nat) : M (List RMove) := do
  let c ← pieceToScore captured
  let captureRanking : Int := c - Gen.MaterialPawnScore + Gen.rankingBonusTactical
  if rankOf to == promoRank then
    pure (promoRMoves frm to (captureRanking - Gen.MaterialPawnScore))
  else pure [⟨⟨frm, to, 0, InvalidSq⟩, captureRanking, true⟩]

/-- moves of one pawn in `generatePseudoLegalMoves` -/
def pawnGen (p : Position) (c : Ctx) (kt : Killers) (frm : Nat) : M (List RMove) := do
  -- queenside take: `to&InvalidSquare == 0 && board[to]&enemy != 0`, else-if `to == enPassSquare`
  let toQ := addb (addb frm c.adv) 0xFF
  let hitQ ← andM (isValid toQ) (do let x ← bget p.board toQ; pure (x &&& c.enBit != 0))
  let capQ ← if hitQ then do
                let x ← bget p.board toQ
                pawnCaptures frm toQ c.promoRank (x &&& Colorless)
             else if toQ == p.ep then pawnCaptures frm toQ c.promoRank Pawn
             else pure []
  -- kingside take: unguarded read of board[to]
  let toK := addb (addb frm c.adv) 1
  let x ← bget p.board toK
  let capK ← if x &&& c.enBit != 0 then pawnCaptures frm toK c.promoRank (x &&& Colorless)
             else if toK == p.ep then pawnCaptures frm toK c.promoRank Pawn
             else pure []
  -- pushes
  let to1 := addb frm c.adv
  let y ← bget p.board to1
  let pushes ← if y == 0 then do
                  let single ← pawnPushes kt p.ply frm to1 c.promoRank
                  let to2 := addb to1 c.adv
                  let dbl ← andM (rankOf frm == c.startRank) (do let z ← bget p.board to2; pure (z == 0))
                  pure (if dbl then single ++ [⟨⟨frm, to2, 0, to1⟩, 0, false⟩] else single)
               else pure []
  pure (capQ ++ capK ++ pushes)

/-- knight targets: `to valid && board[to]&cur == 0` -/
def knightGen (p : Position) (c : Ctx) (kt : Killers) (frm : Nat) : M (List RMove) :=
  flatMapM' (fun d => do
    let to := addb frm d
    let ok ← andM (isValid to) (do let x ← bget p.board to; pure (x &&& c.curBit == 0))
    if ok then do
      let x ← bget p.board to
      let a ← bget p.board frm
      let mv ← moveOrCapture kt p.ply frm to (a &&& Colorless) (x &&& Colorless)
      pure [mv]
    else pure []) knightDirs

/-- one ray of `appendSlidingPieceMoves` -/
def slideDir (board : Array Nat) (c : Ctx) (kt : Killers) (ply : Int) (frm attacker dir : Nat) :
    Nat → Nat → M (List RMove)
  | 0, _ => throw (.hang "appendSlidingPieceMoves")
  | fuel + 1, to =>
    if !isValid to then pure [] else do
      let x ← bget board to
      if x &&& c.curBit != 0 then pure [] else do
        let mv ← moveOrCapture kt ply frm to attacker (x &&& Colorless)
        if x &&& c.enBit != 0 then pure [mv] else do
          let rest ← slideDir board c kt ply frm attacker dir fuel (addb to dir)
          pure (mv :: rest)

def slideGen (p : Position) (c : Ctx) (kt : Killers) (frm : Nat) (dirs : List Nat) : M (List RMove) := do
  let a ← bget p.board frm
  flatMapM' (fun d => slideDir p.board c kt p.ply frm (a &&& Colorless) d 8 (addb frm d)) dirs

/-- the `switch piece` over the non-pawn, non-king list -/
def pieceGen (p : Position) (c : Ctx) (kt : Killers) (frm : Nat) : M (List RMove) := do
  let pc ← bget p.board frm
  if pc == Gen.WKnight || pc == Gen.BKnight then knightGen p c kt frm
  else if pc == Gen.WBishop || pc == Gen.BBishop then slideGen p c kt frm bishopDirs
  else if pc == Gen.WRook || pc == Gen.BRook then slideGen p c kt frm rookDirs
  else if pc == Gen.WQueen || pc == Gen.BQueen then slideGen p c kt frm kingDirs
  else throw (.explicit s!"Unexpected piece found: {pc} at {frm}")

def kingGen (p : Position) (c : Ctx) (kt : Killers) : M (List RMove) :=
  flatMapM' (fun d => do
    let to := addb c.cur.king d
    let ok ← andM (isValid to) (do
      let x ← bget p.board to
      andM (x &&& c.curBit == 0) (do
        let chk ← isUnderCheck p.board c.en to
        pure (!chk)))
    if ok then do
      let x ← bget p.board to
      let a ← bget p.board c.cur.king
      let mv ← moveOrCapture kt p.ply c.cur.king to (a &&& Colorless) (x &&& Colorless)
      pure [mv]
    else pure []) kingDirs

/-- Go `int8(currentKingSq)` -/
def int8 (x : Nat) : Int := if x % 256 ≥ 128 then (x % 256 : Int) - 256 else (x % 256 : Int)
/-- int8 addition with wrap-around -/
def add8 (a b : Int) : Int := (a + b + 128) % 256 - 128
/-- `square(int8)` -/
def toByte (x : Int) : Nat := (x % 256).toNat

def notAttacked (p : Position) (c : Ctx) (sq : Nat) : M Bool := do
  let chk ← isUnderCheck p.board c.en sq
  pure (!chk)

/-- the queenside castling condition, conjuncts evaluated left to right with short-circuit -/
def castleQOk (p : Position) (c : Ctx) : M Bool := do
  let k := int8 c.cur.king
  let k1 := add8 k (-1)
  let k2 := add8 k (-2)
  let k3 := add8 k (-3)
  let a ← bgetI p.board k1
  andM (a == 0) (do
    let b ← bgetI p.board k2
    andM (b == 0) (do
      let d ← bgetI p.board k3
      andM (d == 0) (do
        let s0 ← notAttacked p c c.cur.king
        andM s0 (do
          let s1 ← notAttacked p c (toByte k1)
          andM s1 (notAttacked p c (toByte k2))))))

def castleKOk (p : Position) (c : Ctx) : M Bool := do
  let k := int8 c.cur.king
  let k1 := add8 k 1
  let k2 := add8 k 2
  let a ← bgetI p.board k1
  andM (a == 0) (do
    let b ← bgetI p.board k2
    andM (b == 0) (do
      let s0 ← notAttacked p c c.cur.king
      andM s0 (do
        let s1 ← notAttacked p c (toByte k1)
        andM s1 (notAttacked p c (toByte k2)))))

def castleGen (p : Position) (c : Ctx) (kt : Killers) : M (List RMove) := do
  let q ← if c.qOk then do
            let ok ← castleQOk p c
            if ok then do
              let mv ← quiet kt p.ply ⟨c.cur.king, toByte (add8 (int8 c.cur.king) (-2)), 0, InvalidSq⟩
              pure [mv]
            else pure []
          else pure []
  let k ← if c.kOk then do
            let ok ← castleKOk p c
            if ok then do
              let mv ← quiet kt p.ply ⟨c.cur.king, toByte (add8 (int8 c.cur.king) 2), 0, InvalidSq⟩
              pure [mv]
            else pure []
          else pure []
  pure (q ++ k)

/-- `generatePseudoLegalMoves` -/
def genPseudo (kt : Killers) (p : Position) : M (List RMove) := do
  let c := p.ctx
  let a ← flatMapM' (pawnGen p c kt) c.cur.pawns
  let b ← flatMapM' (pieceGen p c kt) c.cur.pieces
  let k ← kingGen p c kt
  let cs ← castleGen p c kt
  pure (a ++ b ++ k ++ cs)

/-- `generateLegalMoves`: filter by `isLegal` -/
def generateMoves (kt : Killers) (p : Position) : M (List RMove) := do
  let ps ← genPseudo kt p
  filterM' (fun rm => isLegal p rm.mov) ps

/-! ### tactical generator -/

def pawnGenTactical (p : Position) (c : Ctx) (frm : Nat) : M (List RMove) := do
  let toQ := addb (addb frm c.adv) 0xFF
  let hitQ ← andM (isValid toQ) (do let x ← bget p.board toQ; pure (x &&& c.enBit != 0))
  let capQ ← if hitQ then do
                let x ← bget p.board toQ
                pawnCaptures frm toQ c.promoRank (x &&& Colorless)
             else if toQ == p.ep then pawnCaptures frm toQ c.promoRank Pawn
             else pure []
  let toK := addb (addb frm c.adv) 1
  let x ← bget p.board toK
  let capK ← if x &&& c.enBit != 0 then pawnCaptures frm toK c.promoRank (x &&& Colorless)
             else if toK == p.ep then pawnCaptures frm toK c.promoRank Pawn
             else pure []
  let to1 := addb frm c.adv
  let y ← bget p.board to1
  let pushes := if y == 0 && rankOf to1 == c.promoRank then
                  promoRMoves frm to1 ((Gen.rankingBonusTactical : Int) - Gen.MaterialPawnScore)
                else []
  pure (capQ ++ capK ++ pushes)

def knightGenTactical (p : Position) (c : Ctx) (frm : Nat) : M (List RMove) :=
  flatMapM' (fun d => do
    let to := addb frm d
    let ok ← andM (isValid to) (do let x ← bget p.board to; pure (x &&& c.enBit != 0))
    if ok then do
      let x ← bget p.board to
      let mv ← captureRM ⟨frm, to, 0, InvalidSq⟩ Knight (x &&& Colorless)
      pure [mv]
    else pure []) knightDirs

def slideDirTactical (board : Array Nat) (c : Ctx) (frm dir : Nat) : Nat → Nat → M (List RMove)
  | 0, _ => throw (.hang "appendSlidingPieceCaptures")
  | fuel + 1, to =>
    if !isValid to then pure [] else do
      let x ← bget board to
      if x &&& c.curBit != 0 then pure [] else
      if x &&& c.enBit != 0 then do
        let a ← bget board frm
        let mv ← captureRM ⟨frm, to, 0, InvalidSq⟩ (a &&& Colorless) (x &&& Colorless)
        pure [mv]
      else slideDirTactical board c frm dir fuel (addb to dir)

def pieceGenTactical (p : Position) (c : Ctx) (frm : Nat) : M (List RMove) := do
  let pc ← bget p.board frm
  let slide (dirs : List Nat) := flatMapM' (fun d => slideDirTactical p.board c frm d 8 (addb frm d)) dirs
  if pc == Gen.WKnight || pc == Gen.BKnight then knightGenTactical p c frm
  else if pc == Gen.WBishop || pc == Gen.BBishop then slide bishopDirs
  else if pc == Gen.WRook || pc == Gen.BRook then slide rookDirs
  else if pc == Gen.WQueen || pc == Gen.BQueen then slide kingDirs
  else throw (.explicit s!"Unexpected piece found: {pc} at {frm}")

def kingGenTactical (p : Position) (c : Ctx) : M (List RMove) :=
  flatMapM' (fun d => do
    let to := addb c.cur.king d
    let ok ← andM (isValid to) (do
      let x ← bget p.board to
      andM (x &&& c.enBit != 0) (do
        let chk ← isUnderCheck p.board c.en to
        pure (!chk)))
    if ok then do
      let x ← bget p.board to
      let mv ← captureRM ⟨c.cur.king, to, 0, InvalidSq⟩ King (x &&& Colorless)
      pure [mv]
    else pure []) kingDirs

def genPseudoTactical (p : Position) : M (List RMove) := do
  let c := p.ctx
  let a ← flatMapM' (pawnGenTactical p c) c.cur.pawns
  let b ← flatMapM' (pieceGenTactical p c) c.cur.pieces
  let k ← kingGenTactical p c
  pure (a ++ b ++ k)

def generateTacticalMoves (p : Position) : M (List RMove) := do
  let ps ← genPseudoTactical p
  filterM' (fun rm => isLegal p rm.mov) ps

/-! ### the counting paths (score.go `countMoves`, movegen.go `countTacticalMoves`) -/

def b2n (b : Bool) : Nat := if b then 1 else 0

/-- `countPawnMoves` -/
def countPawnMoves (p : Position) (frm to promoRank : Nat) : M Nat := do
  let ok ← isLegal p ⟨frm, to, 0, InvalidSq⟩
  if !ok then pure 0 else pure (if rankOf to == promoRank then 4 else 1)

def pawnCount (p : Position) (c : Ctx) (frm : Nat) : M Nat := do
  let toQ := addb (addb frm c.adv) 0xFF
  let hitQ ← andM (isValid toQ) (do
    let x ← bget p.board toQ
    pure (x &&& c.enBit != 0 || (toQ == p.ep && rankOf frm != c.startRank)))
  let nQ ← if hitQ then countPawnMoves p frm toQ c.promoRank else pure 0
  let toK := addb (addb frm c.adv) 1
  let x ← bget p.board toK
  let nK ← if x &&& c.enBit != 0 || (toK == p.ep && rankOf frm != c.startRank)
           then countPawnMoves p frm toK c.promoRank else pure 0
  let to1 := addb frm c.adv
  let y ← bget p.board to1
  let nP ← if y == 0 then do
              let single ← countPawnMoves p frm to1 c.promoRank
              let to2 := addb to1 c.adv
              let dbl ← andM (rankOf frm == c.startRank) (do let z ← bget p.board to2; pure (z == 0))
              if dbl then do
                let ok ← isLegal p ⟨frm, to2, 0, to1⟩
                pure (single + b2n ok)
              else pure single
           else pure 0
  pure (nQ + nK + nP)

def knightCount (p : Position) (c : Ctx) (frm : Nat) : M Nat :=
  sumM' (fun d => do
    let to := addb frm d
    let ok ← andM (isValid to) (do let x ← bget p.board to; pure (x &&& c.curBit == 0))
    if ok then do
      let l ← isLegal p ⟨frm, to, 0, InvalidSq⟩
      pure (b2n l)
    else pure 0) knightDirs

def slideDirCount (p : Position) (c : Ctx) (frm dir : Nat) : Nat → Nat → M Nat
  | 0, _ => throw (.hang "countSlidingPieceMoves")
  | fuel + 1, to =>
    if !isValid to then pure 0 else do
      let x ← bget p.board to
      if x &&& c.curBit != 0 then pure 0 else do
        let l ← isLegal p ⟨frm, to, 0, InvalidSq⟩
        if x &&& c.enBit != 0 then pure (b2n l) else do
          let rest ← slideDirCount p c frm dir fuel (addb to dir)
          pure (b2n l + rest)

def pieceCount (p : Position) (c : Ctx) (frm : Nat) : M Nat := do
  let pc ← bget p.board frm
  let slide (dirs : List Nat) := sumM' (fun d => slideDirCount p c frm d 8 (addb frm d)) dirs
  if pc == Gen.WKnight || pc == Gen.BKnight then knightCount p c frm
  else if pc == Gen.WBishop || pc == Gen.BBishop then slide bishopDirs
  else if pc == Gen.WRook || pc == Gen.BRook then slide rookDirs
  else if pc == Gen.WQueen || pc == Gen.BQueen then slide kingDirs
  else throw (.explicit s!"Unexpected piece found: {pc} at {frm}")

def kingCount (p : Position) (c : Ctx) : M Nat :=
  sumM' (fun d => do
    let to := addb c.cur.king d
    let ok ← andM (isValid to) (do let x ← bget p.board to; pure (x &&& c.curBit == 0))
    if ok then do
      let l ← isLegal p ⟨c.cur.king, to, 0, InvalidSq⟩
      pure (b2n l)
    else pure 0) kingDirs

/-- `Position.countMoves` -/
def countMoves (p : Position) : M Nat := do
  let c := p.ctx
  let a ← sumM' (pawnCount p c) c.cur.pawns
  let b ← sumM' (pieceCount p c) c.cur.pieces
  let k ← kingCount p c
  let q ← if c.qOk then do let ok ← castleQOk p c; pure (b2n ok) else pure 0
  let ks ← if c.kOk then do let ok ← castleKOk p c; pure (b2n ok) else pure 0
  pure (a + b + k + q + ks)

def pawnCountTactical (p : Position) (c : Ctx) (frm : Nat) : M Nat := do
  let toQ := addb (addb frm c.adv) 0xFF
  let hitQ ← andM (isValid toQ) (do
    let x ← bget p.board toQ
    pure (x &&& c.enBit != 0 || toQ == p.ep))
  let nQ ← if hitQ then countPawnMoves p frm toQ c.promoRank else pure 0
  let toK := addb (addb frm c.adv) 1
  let x ← bget p.board toK
  let nK ← if x &&& c.enBit != 0 || toK == p.ep then countPawnMoves p frm toK c.promoRank else pure 0
  let to1 := addb frm c.adv
  let y ← bget p.board to1
  let nP ← if y == 0 && rankOf to1 == c.promoRank then countPawnMoves p frm to1 c.promoRank else pure 0
  pure (nQ + nK + nP)

def knightCountTactical (p : Position) (c : Ctx) (frm : Nat) : M Nat :=
  sumM' (fun d => do
    let to := addb frm d
    let ok ← andM (isValid to) (do let x ← bget p.board to; pure (x &&& c.enBit != 0))
    if ok then do
      let l ← isLegal p ⟨frm, to, 0, InvalidSq⟩
      pure (b2n l)
    else pure 0) knightDirs

def slideDirCountTactical (p : Position) (c : Ctx) (frm dir : Nat) : Nat → Nat → M Nat
  | 0, _ => throw (.hang "countSlidingPieceTacticalMoves")
  | fuel + 1, to =>
    if !isValid to then pure 0 else do
      let x ← bget p.board to
      if x &&& c.curBit != 0 then pure 0 else
      if x &&& c.enBit != 0 then do
        let l ← isLegal p ⟨frm, to, 0, InvalidSq⟩
        pure (b2n l)
      else slideDirCountTactical p c frm dir fuel (addb to dir)

def pieceCountTactical (p : Position) (c : Ctx) (frm : Nat) : M Nat := do
  let pc ← bget p.board frm
  let slide (dirs : List Nat) := sumM' (fun d => slideDirCountTactical p c frm d 8 (addb frm d)) dirs
  if pc == Gen.WKnight || pc == Gen.BKnight then knightCountTactical p c frm
  else if pc == Gen.WBishop || pc == Gen.BBishop then slide bishopDirs
  else if pc == Gen.WRook || pc == Gen.BRook then slide rookDirs
  else if pc == Gen.WQueen || pc == Gen.BQueen then slide kingDirs
  else throw (.explicit s!"Unexpected piece found: {pc} at {frm}")

def kingCountTactical (p : Position) (c : Ctx) : M Nat :=
  sumM' (fun d => do
    let to := addb c.cur.king d
    let ok ← andM (isValid to) (do let x ← bget p.board to; pure (x &&& c.enBit != 0))
    if ok then do
      let l ← isLegal p ⟨c.cur.king, to, 0, InvalidSq⟩
      pure (b2n l)
    else pure 0) kingDirs

/-- `Position.countTacticalMoves` -/
def countTacticalMoves (p : Position) : M Nat := do
  let c := p.ctx
  let a ← sumM' (pawnCountTactical p c) c.cur.pawns
  let b ← sumM' (pieceCountTactical p c) c.cur.pieces
  let k ← kingCountTactical p c
  pure (a + b + k)

/-! ### perft (movegen.go) -/

/-- `Generator.Perft(depth)` on the position at stack index `idx` (PushMove panics at the last slot).
    Depth is a Go `int`; `perft` is only called with depth ≥ 0 (`Perftd` after the `<= 0` rejection). -/
def perft (kt : Killers) (cap : Nat) : Nat → Nat → Position → M Nat
  | 0, _, _ => pure 1
  | 1, _, p => countMoves p
  | d + 2, idx, p => do
    let ms ← generateMoves kt p
    sumM' (fun rm => do
      if idx + 1 ≥ cap then throw (.index "posStack" (idx + 1)) else do
        let r ← makeMove p rm.mov
        if !r.2 then throw (.explicit "Applying move resulted in illegal position") else
        perft kt cap (d + 1) (idx + 1) r.1) ms

/-- `Generator.PerftTactical(depth)` -/
def perftTactical (kt : Killers) (cap : Nat) : Nat → Nat → Position → M Nat
  | 0, _, p => countTacticalMoves p
  | 1, _, p => countTacticalMoves p
  | d + 2, idx, p => do
    let ms ← generateMoves kt p
    sumM' (fun rm => do
      if idx + 1 ≥ cap then throw (.index "posStack" (idx + 1)) else do
        let r ← makeMove p rm.mov
        if !r.2 then throw (.explicit "Applying move resulted in illegal position") else
        perftTactical kt cap (d + 1) (idx + 1) r.1) ms

end Magog.Model
