import Magog.Model.Position

/-! Model of engine/fen.go (`NewPositionFromFen`) over byte strings, and of the Go library functions it
    uses on ASCII input (`strings.Split`, `strings.Contains`, `strconv.Atoi`). -/

namespace Magog.Model
open Magog

abbrev Bytes := List Nat

/-- `strings.Split(s, sep)` for a one-byte separator: always at least one field -/
def splitOn (sep : Nat) : Bytes → List Bytes
  | [] => [[]]
  | c :: cs =>
    if c == sep then [] :: splitOn sep cs
    else match splitOn sep cs with
      | [] => [[c]]          -- unreachable: splitOn never returns []
      | f :: fs => (c :: f) :: fs

def isDigit (c : Nat) : Bool := 48 ≤ c && c ≤ 57

def digitsVal : Bytes → Nat → Nat
  | [], acc => acc
  | c :: cs, acc => digitsVal cs (acc * 10 + (c - 48))

/-- `strconv.Atoi` on a byte string: optional sign, at least one digit, only digits, value in int64 -/
def atoi (s : Bytes) : Option Int :=
  let (neg, ds) := match s with
    | 45 :: r => (true, r)     -- '-'
    | 43 :: r => (false, r)    -- '+'
    | _ => (false, s)
  if ds.isEmpty || !ds.all isDigit then none else
  let v : Int := digitsVal ds 0
  let v := if neg then -v else v
  if v < -9223372036854775808 || v > 9223372036854775807 then none else some v

def charToPiece (c : Nat) : Nat :=
  if c == 112 then Gen.BPawn else if c == 110 then Gen.BKnight else if c == 98 then Gen.BBishop
  else if c == 114 then Gen.BRook else if c == 113 then Gen.BQueen else if c == 107 then Gen.BKing
  else if c == 80 then Gen.WPawn else if c == 78 then Gen.WKnight else if c == 66 then Gen.WBishop
  else if c == 82 then Gen.WRook else if c == 81 then Gen.WQueen else if c == 75 then Gen.WKing
  else 0

inductive FenError where
  | nonAscii | fields | ranks | piece | files | side | ep | fullmove | fullmoveRange
  | invalid (why : String)     -- rejections added by the FEN validation
  deriving Repr, DecidableEq

/-- the empty position the loader starts from -/
def emptyPosition : Position :=
  { board := Array.replicate 128 0, blackPieces := [], whitePieces := [], blackPawns := [], whitePawns := [],
    blackKing := 0, whiteKing := 0, flags := 0, ep := InvalidSq, ply := 0 }

/-- `Position.hasRoomFor`: at most 8 pawns and 16 men per side -/
def hasRoomFor (p : Position) (pc : Nat) : Bool :=
  let s := p.side (pc &&& WhiteBit != 0)
  let k := pc &&& Colorless
  if k == King then true
  else if k == Pawn then s.pawns.length < pawnCap && s.pawns.length + s.pieces.length < pieceCap
  else s.pawns.length + s.pieces.length < pieceCap

/-- place one piece (board write, king square or list append) -/
def fenPlace (p : Position) (sq pc : Nat) : M Position := do
  let board ← bset p.board sq pc
  let p := { p with board }
  if pc == Gen.BKing then pure { p with blackKing := sq }
  else if pc == Gen.WKing then pure { p with whiteKing := sq }
  else if pc &&& WhiteBit == 0 then
    if pc == Gen.BPawn then do
      let l ← appendCap p.blackPawns pawnCap sq "pawnList"
      pure { p with blackPawns := l }
    else do
      let l ← appendCap p.blackPieces pieceCap sq "pieceList"
      pure { p with blackPieces := l }
  else
    if pc == Gen.WPawn then do
      let l ← appendCap p.whitePawns pawnCap sq "pawnList"
      pure { p with whitePawns := l }
    else do
      let l ← appendCap p.whitePieces pieceCap sq "pieceList"
      pure { p with whitePieces := l }

/-- scan of one rank string; returns the position and the final file counter (a Go byte) -/
def fenRank (r : Nat) : Bytes → Nat → Position → M (Except FenError (Position × Nat))
  | [], f, p => pure (.ok (p, f))
  | c :: cs, f, p =>
    if 49 ≤ c && c ≤ 56 then
      let f := (f + (c - 48)) % 256
      if f > Gen.H + 1 then pure (.error (.invalid "more than 8 files")) else fenRank r cs f p
    else
      if f > Gen.H then pure (.error (.invalid "more than 8 files")) else
      let sq := (r + f) % 256
      let pc := charToPiece c
      if pc == 0 then pure (.error .piece) else
      if pc &&& Colorless == Pawn && (r == Gen.Rank1 || r == Gen.Rank8) then pure (.error (.invalid "pawn on back rank")) else
      if !hasRoomFor p pc then pure (.error (.invalid "too many pieces")) else do
        let p ← fenPlace p sq pc
        fenRank r cs ((f + 1) % 256) p

def fenRanks : List Bytes → Nat → Position → M (Except FenError Position)
  | [], _, p => pure (.ok p)
  | rs :: rest, idx, p => do
    let r := (7 - idx) * 16
    match (← fenRank r rs 0 p) with
    | .error e => pure (.error e)
    | .ok (p, f) =>
      if f != Gen.H + 1 then pure (.error .files) else fenRanks rest (idx + 1) p

def containsByte (s : Bytes) (c : Nat) : Bool := s.any (· == c)

def countKings (b : Array Nat) (k : Nat) : Nat := (b.toList.filter (· == k)).length

/-- `Position.isEnPassantSquareConsistent` (board reads are index-checked like in Go) -/
def epConsistent (p : Position) : M Bool := do
  let ep := p.ep
  let here ← bget p.board ep
  if whiteTurn p then do
    let front ← bget p.board ((ep + 256 - Gen.UnitRank) % 256)
    let behind ← bget p.board ((ep + Gen.UnitRank) % 256)
    pure (rankOf ep == Gen.Rank6 && here == 0 && front == Gen.BPawn && behind == 0)
  else do
    let front ← bget p.board ((ep + Gen.UnitRank) % 256)
    let behind ← bget p.board ((ep + 256 - Gen.UnitRank) % 256)
    pure (rankOf ep == Gen.Rank3 && here == 0 && front == Gen.WPawn && behind == 0)

/-- `Position.areCastlingFlagsConsistent` -/
def castlingConsistent (p : Position) : Bool :=
  let sqAt (s : Nat) := p.board.getD s 0
  !(p.flags &&& FWK != 0 && (sqAt Gen.E1 != Gen.WKing || sqAt Gen.H1 != Gen.WRook)) &&
  !(p.flags &&& FWQ != 0 && (sqAt Gen.E1 != Gen.WKing || sqAt Gen.A1 != Gen.WRook)) &&
  !(p.flags &&& FBK != 0 && (sqAt Gen.E8 != Gen.BKing || sqAt Gen.H8 != Gen.BRook)) &&
  !(p.flags &&& FBQ != 0 && (sqAt Gen.E8 != Gen.BKing || sqAt Gen.A8 != Gen.BRook))

/-- `NewPositionFromFen` -/
def parseFen (s : Bytes) : M (Except FenError Position) := do
  if s.any (· > 127) then pure (.error .nonAscii) else
  let fields := splitOn 32 s
  if fields.length != 6 then pure (.error .fields) else
  let rankStrs := splitOn 47 (fields.getD 0 [])
  if rankStrs.length != 8 then pure (.error .ranks) else do
  match (← fenRanks rankStrs 0 emptyPosition) with
  | .error e => pure (.error e)
  | .ok p =>
    if countKings p.board Gen.WKing != 1 || countKings p.board Gen.BKing != 1 then pure (.error (.invalid "kings")) else
    let turn := fields.getD 1 []
    if turn != [119] && turn != [98] then pure (.error .side) else
    let flags := if turn == [119] then FWhiteTurn else 0
    let cs := fields.getD 2 []
    let flags := if containsByte cs 75 then flags ||| FWK else flags
    let flags := if containsByte cs 81 then flags ||| FWQ else flags
    let flags := if containsByte cs 107 then flags ||| FBK else flags
    let flags := if containsByte cs 113 then flags ||| FBQ else flags
    let eps := fields.getD 3 []
    if eps.length > 2 then pure (.error .ep) else
    let epRes : Except FenError Nat :=
      match eps with
      | [fc, rc] =>
        if fc < 97 || fc > 104 || (rc != 51 && rc != 54) then .error .ep
        else .ok ((fc - 97) + (((rc - 49) <<< 4) % 256))
      | _ => .ok InvalidSq
    match epRes with
    | .error e => pure (.error e)
    | .ok ep => do
      let p := { p with flags, ep }
      let epOk ← if ep == InvalidSq then pure true else epConsistent p
      if !epOk then pure (.error (.invalid "en passant")) else
      if !castlingConsistent p then pure (.error (.invalid "castling")) else do
      -- `isOpponentKingUnderCheck`: the side that is not to move must not be in check
      let oppInCheck ← isUnderCheck p.board (p.side (whiteTurn p)) (p.side (!whiteTurn p)).king
      if oppInCheck then pure (.error (.invalid "side not to move in check")) else
      match atoi (fields.getD 5 []) with
      | none => pure (.error .fullmove)
      | some n =>
        if n < 1 then pure (.error .fullmoveRange) else
        if n > Gen.maxFullMoveCounter then pure (.error (.invalid "full move counter too large")) else
        let ply := wrap16 ((n - 1) * 2)
        let ply := if flags &&& FWhiteTurn == 0 then wrap16 (ply + 1) else ply
        pure (.ok { p with ply })

end Magog.Model
