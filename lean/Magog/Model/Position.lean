import Magog.Model.Defs

/-! Model of engine/position.go (attack detection, MakeMove) and engine/attackLookup.go (lookup). -/

namespace Magog.Model
open Magog

/-- the tables as arrays (constant-time lookup when the model is executed); proofs go through
    `List.getElem?_toArray` to the generated lists -/
def attackTable : Array Nat := Gen.attackTable.toArray
def directionTable : Array Nat := Gen.directionTable.toArray

/-- `moveIndex(from, to)`: int16 arithmetic, no panic by itself -/
@[inline] def moveIndex (frm to : Nat) : Int := (Gen.lastValidSquare : Int) + (to : Int) - (frm : Int)

/-- `checkedBySlidingPiece`: walk from the slider towards `dest`. The Go loop has no bound; it ends at
    `dest`, at a blocker, or by an index panic when the byte walks off the 128-slot array. With a zero
    direction on an empty slot it would spin forever: `hang`. Fuel 8 is enough on the board
    (lemma `sliderWalk_fuel`). -/
def sliderWalk (board : Array Nat) (dir dest : Nat) : Nat → Nat → M Bool
  | 0, _ => throw (.hang "checkedBySlidingPiece")
  | fuel + 1, sq =>
    if sq == dest then pure true else do
      let c ← bget board sq
      if c != 0 then pure false else sliderWalk board dir dest fuel (addb sq dir)

def pieceAttacks (board : Array Nat) (dest : Nat) (a : Nat) : M Bool := do
  let i := moveIndex a dest
  let pc ← bget board a
  let attacker := pc &&& Colorless
  let t ← tget attackTable "attackTable" i
  if t &&& attacker == 0 then pure false
  else if attacker &&& Knight != 0 then pure true
  else do
    let dir ← tget directionTable "directionTable" i
    sliderWalk board dir dest 8 (addb a dir)

def pawnAttacks (pawnFlag dest : Nat) (a : Nat) : M Bool := do
  let t ← tget attackTable "attackTable" (moveIndex a dest)
  pure (t &&& pawnFlag != 0)

/-- `isUnderCheck(enemyPieces, enemyPawns, enemyKingSq, destSquare)` -/
def isUnderCheck (board : Array Nat) (enemy : Side) (dest : Nat) : M Bool := do
  let kpc ← bget board enemy.king
  let pawnFlag := if kpc &&& BlackBit == 0 then Gen.WPawnAttacks else Gen.BPawnAttacks
  let byPawn ← anyM' (pawnAttacks pawnFlag dest) enemy.pawns
  if byPawn then pure true else do
    let byPiece ← anyM' (pieceAttacks board dest) enemy.pieces
    if byPiece then pure true else do
      let t ← tget attackTable "attackTable" (moveIndex enemy.king dest)
      pure (t &&& Gen.KingAttacks != 0)

def isCurrentKingUnderCheck (p : Position) : M Bool :=
  let w := whiteTurn p
  isUnderCheck p.board (p.side (!w)) (p.side w).king

/-- `killPiece` / `killPawn`: swap-remove of the first entry equal to `sq`; explicit panic if absent -/
def kill (l : List Nat) (sq : Nat) (what : String) : M (List Nat) :=
  match l.idxOf? sq with
  | some i => pure ((l.set i (l.getLastD 0)).dropLast)
  | none => throw (.explicit s!"Didn't find square {sq} on {what}")

/-- overwrite the first entry equal to `a` by `b` (the `for … break` loops of MakeMove / moveRook) -/
def replaceFirst (l : List Nat) (a b : Nat) : List Nat :=
  match l.idxOf? a with
  | some i => l.set i b
  | none => l

/-- `appendPiece` with the fixed array's bound made explicit -/
def appendCap (l : List Nat) (cap : Nat) (sq : Nat) (what : String) : M (List Nat) :=
  if l.length < cap then pure (l ++ [sq]) else throw (.index what l.length)

structure MMState where
  board : Array Nat
  cur : Side
  en : Side
  flags : Nat

/-- first part of MakeMove: the three-way branch on the moving piece -/
def mmMover (board : Array Nat) (flags : Nat) (cur : Side) (m : Move)
    (curColor curRank curK curQ : Nat) : M (Array Nat × Nat × Side) := do
  let fromPiece ← bget board m.frm
  if fromPiece == (Pawn ||| curColor) then
    if m.promo == 0 then
      pure (board, flags, { cur with pawns := replaceFirst cur.pawns m.frm m.to })
    else
      match cur.pawns.idxOf? m.frm with
      | some i => do
        let pawns := (cur.pawns.set i (cur.pawns.getLastD 0)).dropLast
        let pieces ← appendCap cur.pieces pieceCap m.to "pieceList"
        pure (board, flags, { cur with pawns, pieces })
      | none => pure (board, flags, cur)
  else if m.frm == cur.king then
    let flags := clearBits flags (curK ||| curQ)
    let cur := { cur with king := m.to }
    if fileOf m.frm == Gen.E then
      if fileOf m.to == Gen.C then do
        let rf := (Gen.A + curRank) % 256
        let rt := (Gen.D + curRank) % 256
        let pieces := replaceFirst cur.pieces rf rt
        let board ← bset board rf 0
        let board ← bset board rt (Rook ||| curColor)
        pure (board, flags, { cur with pieces })
      else if fileOf m.to == Gen.G then do
        let rf := (Gen.H + curRank) % 256
        let rt := (Gen.F + curRank) % 256
        let pieces := replaceFirst cur.pieces rf rt
        let board ← bset board rf 0
        let board ← bset board rt (Rook ||| curColor)
        pure (board, flags, { cur with pieces })
      else pure (board, flags, cur)
    else pure (board, flags, cur)
  else
    pure (board, flags, { cur with pieces := replaceFirst cur.pieces m.frm m.to })

/-- castling-right clearing by from/to corner squares -/
def mmCorners (flags : Nat) (m : Move) (curRank enRank curK curQ enK enQ : Nat) : Nat :=
  let flags := if fileOf m.frm == Gen.A && rankOf m.frm == curRank then clearBits flags curQ else flags
  let flags := if fileOf m.frm == Gen.H && rankOf m.frm == curRank then clearBits flags curK else flags
  let flags := if fileOf m.to == Gen.A && rankOf m.to == enRank then clearBits flags enQ else flags
  let flags := if fileOf m.to == Gen.H && rankOf m.to == enRank then clearBits flags enK else flags
  flags

/-- capture on the destination square -/
def mmCapture (board : Array Nat) (en : Side) (m : Move) (enColor : Nat) : M Side := do
  let target ← bget board m.to
  if target != 0 then
    if target != (King ||| enColor) then
      if target == (Pawn ||| enColor) then do
        let pawns ← kill en.pawns m.to "enemyPawns"
        pure { en with pawns }
      else do
        let pieces ← kill en.pieces m.to "enemyPieces"
        pure { en with pieces }
    else pure en
  else pure en

/-- board update incl. en-passant removal and promotion -/
def mmBoard (board : Array Nat) (en : Side) (m : Move) (oldEp curColor : Nat) : M (Array Nat × Side) := do
  if m.promo == 0 then do
    let fp ← bget board m.frm
    let board ← bset board m.to fp
    if oldEp == m.to && fp == (Pawn ||| curColor) then do
      let killSq := (fileOf m.to + rankOf m.frm) % 256
      let pawns ← kill en.pawns killSq "enemyPawns(ep)"
      let board ← bset board killSq 0
      let board ← bset board m.frm 0
      pure (board, { en with pawns })
    else do
      let board ← bset board m.frm 0
      pure (board, en)
  else do
    let board ← bset board m.to (m.promo ||| curColor)
    let board ← bset board m.frm 0
    pure (board, en)

/-- `Position.MakeMove`: returns the new position and whether the mover's king is safe -/
def makeMove (p : Position) (m : Move) : M (Position × Bool) := do
  let white := whiteTurn p
  let curColor := if white then WhiteBit else BlackBit
  let enColor := if white then BlackBit else WhiteBit
  let curRank := if white then Gen.Rank1 else Gen.Rank8
  let enRank := if white then Gen.Rank8 else Gen.Rank1
  let curK := if white then FWK else FBK
  let curQ := if white then FWQ else FBQ
  let enK := if white then FBK else FWK
  let enQ := if white then FBQ else FWQ
  let (board, flags, cur) ← mmMover p.board p.flags (p.side white) m curColor curRank curK curQ
  let flags := mmCorners flags m curRank enRank curK curQ enK enQ
  let en ← mmCapture board (p.side (!white)) m enColor
  let (board, en) ← mmBoard board en m p.ep curColor
  let flags := flags ^^^ FWhiteTurn
  let p' : Position :=
    if white then
      { board, whitePieces := cur.pieces, whitePawns := cur.pawns, whiteKing := cur.king,
        blackPieces := en.pieces, blackPawns := en.pawns, blackKing := en.king,
        flags, ep := m.ep, ply := wrap16 (p.ply + 1) }
    else
      { board, blackPieces := cur.pieces, blackPawns := cur.pawns, blackKing := cur.king,
        whitePieces := en.pieces, whitePawns := en.pawns, whiteKing := en.king,
        flags, ep := m.ep, ply := wrap16 (p.ply + 1) }
  let chk ← isUnderCheck board en cur.king
  pure (p', !chk)

/-- `isLegal(pos, move)`: MakeMove on a copy -/
def isLegal (p : Position) (m : Move) : M Bool := do
  let r ← makeMove p m
  pure r.2

end Magog.Model
