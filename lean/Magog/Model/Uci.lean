import Magog.Model.Time
import Magog.Model.Eval
import Magog.Model.Start

/-! Model of the command interpreter engine/uci.go (`ParseInputLine`, `doPosition`, `parsePosition`,
    `doGo`, `setOption`, `doPerftDivide`, `doTacticalPerftDivide`, `doUci`, `printHelp`) over arbitrary
    byte strings (`Bytes = List Nat`), one input line = one call of `uciStep`.

* The dispatch mirrors `ParseInputLine` branch by branch IN THE SAME ORDER (`==` against the whole line,
  `strings.HasPrefix` against a prefix).
* Every Go index expression, slice expression, nil dereference and integer division of uci.go is an
  explicit check that yields `Except.error (Panic.…)` exactly where Go would panic: `tokens[k]` in
  `setOption` (`idx`), `positionCommand[:movesIdx]` / `positionCommand[movesIdx+len(uMoves):]`
  (`sliceTo` / `sliceFrom`), `posGen.ApplyUciMove` on a nil `posGen` (`.nilDeref`), the division by
  `movesToGo` in `calcEndtime` (`Model.allot` → `goDiv`). `doGo`'s token scanner and deadline arithmetic are
  the existing `Model.goParams` (Time.lean), `parseMoveString` the existing one of Notation.lean (its
  `moveStr[0..4]` reads are behind the `len(moveStr) < 4` test, rendered there as a list pattern),
  `strconv.Atoi` the existing `Model.atoi` (sign, digits only, int64 range), `strings.Split(s, " ")` the
  existing `Model.splitOn 32`, `NewGeneratorFromFen` the existing `Model.parseFen`.
* The heavy engine operations are NOT re-modelled here: they are the fields of the parameter record
  `EngineOps` (instantiated by `modelOps` below with the existing model functions, which is what the
  driver `mdrv` runs against the real code).
* Go library string functions whose behaviour on non-ASCII input depends on Unicode tables are the two
  fields of `StrEnv`: `lower` (`strings.ToLower`) and `trimSpace` (`strings.TrimSpace`). The no-panic
  theorems (Props/C17) assume NOTHING about them. The instantiation `goStrEnv` used by the driver is:
  `asciiLower` (exact on ASCII), and `trimSpace` below which is EXACT on every byte string: Go's
  `TrimSpace` removes leading and trailing *Unicode* white space — the six ASCII characters
  `\t \n \v \f \r ' '` and the UTF-8 encodings of U+0085, U+00A0, U+1680, U+2000…U+200A, U+2028, U+2029,
  U+202F, U+205F, U+3000 (`uniSpaceSeqs`); single bytes 0x85 / 0xA0 are NOT white space (invalid UTF-8
  decodes to U+FFFD). [Checked against the real code: `position<U+2000>startpos` sets the start position.]
* Globals: `posGen` ↦ `UciState.pos` (`none` = nil; only the top position matters because on the
  command thread `plyIdx` stays 0 — `ApplyUciMove` works in place and `Perftd` pops what it pushes),
  `search` ↦ `searchAllocated` (nil or not; the object's channel/flag are the protocol model, C12),
  `currmoveLogInterval` ↦ `logInterval`, `Quit` ↦ `quit`, `killerMoves` ↦ `killers`.
* Output is a list of events `UOut` (at most one per line), one constructor per `fmt.Print*` site.
  `go` ends with `searchStarted millis depth` (what `doGo` hands to the search goroutine; the search
  and the stop/isready protocol are other properties). -/

namespace Magog.Model
open Magog

/-! ### Go string library on byte strings -/

/-- `strings.HasPrefix(s, pre)` -/
def hasPrefix (s pre : Bytes) : Bool := pre.isPrefixOf s

/-- `strings.TrimPrefix(s, pre)` -/
def trimPrefix (s pre : Bytes) : Bytes := if hasPrefix s pre then s.drop pre.length else s

/-- `strings.Index(s, pat)`: index of the first occurrence, `none` = -1 -/
def indexOf (pat : Bytes) : Bytes → Option Nat
  | [] => if pat.isEmpty then some 0 else none
  | c :: cs => if pat.isPrefixOf (c :: cs) then some 0 else (indexOf pat cs).map (· + 1)

/-- `s[:hi]` (Go panics when `hi > len(s)`) -/
def sliceTo (s : Bytes) (hi : Nat) : M Bytes :=
  if hi ≤ s.length then pure (s.take hi) else throw (.index "slice upper bound" hi)

/-- `s[lo:]` (Go panics when `lo > len(s)`) -/
def sliceFrom (s : Bytes) (lo : Nat) : M Bytes :=
  if lo ≤ s.length then pure (s.drop lo) else throw (.index "slice lower bound" lo)

/-- `l[i]` (Go panics when `i ≥ len(l)`) -/
def idx {α} (what : String) (l : List α) (i : Nat) : M α :=
  match l[i]? with
  | some v => pure v
  | none => throw (.index what i)

/-- the ASCII members of `unicode.IsSpace`: `\t \n \v \f \r` and space -/
def asciiSpace (c : Nat) : Bool := c == 9 || c == 10 || c == 11 || c == 12 || c == 13 || c == 32

/-- UTF-8 encodings of the non-ASCII members of `unicode.IsSpace` -/
def uniSpaceSeqs : List Bytes :=
  [[0xC2, 0x85], [0xC2, 0xA0], [0xE1, 0x9A, 0x80],
   [0xE2, 0x80, 0x80], [0xE2, 0x80, 0x81], [0xE2, 0x80, 0x82], [0xE2, 0x80, 0x83], [0xE2, 0x80, 0x84],
   [0xE2, 0x80, 0x85], [0xE2, 0x80, 0x86], [0xE2, 0x80, 0x87], [0xE2, 0x80, 0x88], [0xE2, 0x80, 0x89],
   [0xE2, 0x80, 0x8A], [0xE2, 0x80, 0xA8], [0xE2, 0x80, 0xA9], [0xE2, 0x80, 0xAF], [0xE2, 0x81, 0x9F],
   [0xE3, 0x80, 0x80]]

/-- number of bytes of the white-space character at the front of `s` (0 = none there) -/
def spaceLen (seqs : List Bytes) (s : Bytes) : Nat :=
  match s with
  | [] => 0
  | c :: _ =>
    if asciiSpace c then 1 else
    match seqs.find? (fun q => q.isPrefixOf s) with
    | some q => q.length
    | none => 0

/-- strip white-space characters from the front (`fuel` ≥ number of characters to strip) -/
def trimFront (seqs : List Bytes) : Nat → Bytes → Bytes
  | 0, s => s
  | fuel + 1, s =>
    let n := spaceLen seqs s
    if n == 0 then s else trimFront seqs fuel (s.drop n)

/-- `strings.TrimLeftFunc(s, unicode.IsSpace)` -/
def trimLeft (s : Bytes) : Bytes := trimFront uniSpaceSeqs s.length s

/-- `strings.TrimRightFunc(s, unicode.IsSpace)`: a trailing character is white space iff the string ends
    with exactly one of the encodings (they are well-formed, so `DecodeLastRune` finds them) -/
def trimRight (s : Bytes) : Bytes := (trimFront (uniSpaceSeqs.map List.reverse) s.length s.reverse).reverse

/-- `strings.TrimSpace` on an arbitrary byte string -/
def trimSpace (s : Bytes) : Bytes := trimRight (trimLeft s)

/-- the Go library functions whose behaviour on non-ASCII input comes from Unicode tables -/
structure StrEnv where
  /-- `strings.ToLower` -/
  lower : Bytes → Bytes
  /-- `strings.TrimSpace` -/
  trimSpace : Bytes → Bytes

/-- what the driver runs: `asciiLower` is exact on ASCII input (on other input `strings.ToLower` may change
    the length, but a move string with a non-ASCII byte among its first four bytes is rejected either way
    and after four valid ASCII bytes both readings give the same move); `trimSpace` is exact everywhere -/
def goStrEnv : StrEnv := ⟨asciiLower, trimSpace⟩

/-! ### engine operations (parameters) and state -/

/-- The engine operations the interpreter calls, as parameters. -/
structure EngineOps where
  str : StrEnv
  /-- `NewPosition()` (what `NewGenerator()` puts in slot 0) -/
  startPos : Position
  /-- `Evaluate(pos, 0, true)` -/
  evalOp : Position → M Int
  /-- `Generator.Perftd(depth)`: the printed `move: subtotal` lines in order (the total is their sum) -/
  perftDivOp : Position → Nat → M (List (Move × Nat))
  /-- `Generator.PerftDivTactical(depth)` -/
  tperftDivOp : Position → Nat → M (List (Move × Nat))
  /-- `Generator.ApplyUciMove(move)` -/
  applyMove : Position → Move → M Position
  /-- `Generator.String()`; a panic inside it is recovered by package fmt -/
  tostrOp : Position → M Bytes

structure UciState where
  /-- `posGen` (`none` = nil): the top position -/
  pos : Option Position
  /-- `search != nil` -/
  searchAllocated : Bool
  /-- `currmoveLogInterval` (a divisor in the search) -/
  logInterval : Int
  /-- `Quit` -/
  quit : Bool
  /-- `killerMoves` -/
  killers : Killers

/-- the state of a freshly started process -/
def UciState.init : UciState :=
  { pos := none, searchAllocated := false, logInterval := Gen.currmoveLogIntervalDefault, quit := false,
    killers := Killers.empty }

/-- `clearKillerMoves()` -/
def UciState.clearKillers (st : UciState) : UciState := { st with killers := Killers.empty }

/-- one constructor per print site of uci.go's synchronous commands -/
inductive UOut where
  | readyok
  | noPositionEval                                   -- "No position set to evaluate"
  | evalValue (v : Int)                              -- the value printed by `eval` (after the debug line)
  | uciInfo                                          -- id name / id author / option … / uciok
  | stopRequested                                    -- non-blocking send on `search.stop`
  | nilText                                          -- `tostr` with a nil posGen: fmt prints `<nil>`
  | positionText (s : Bytes)                         -- `tostr`
  | fmtPanic                                         -- `tostr`: fmt's `%!v(PANIC=String method: …)`
  | help
  | invalidDepth (arg : Bytes)                       -- "Invalid depth:  <arg>"
  | noPositionPerft                                  -- "No position set to count perft from"
  | perftDone (tactical : Bool) (entries : List (Move × Nat))
  | invalidFen (e : FenError)                        -- "invalid FEN: …"
  | invalidPositionCommand (moveStr : Bytes)         -- "Invalid position command: …"
  | noPositionGo                                     -- "No position set to start search from"
  | searchStarted (millis : Int) (depth : Int)       -- `go search.StartIterativeDeepening(start, start+millis, depth)`

/-! literal command words of `ParseInputLine` that are not named constants in the source -/
def kwEval : Bytes := [101, 118, 97, 108]
def kwQuit : Bytes := [113, 117, 105, 116]
def kwStop : Bytes := [115, 116, 111, 112]
def kwTostr : Bytes := [116, 111, 115, 116, 114]
def kwPerft : Bytes := [112, 101, 114, 102, 116]
def kwTperft : Bytes := [116, 112, 101, 114, 102, 116]
def kwHelp : Bytes := [104, 101, 108, 112]

/-! ### `position` -/

/-- `parsePosition`: `none` = true (position replaced), `some e` = false (FEN rejected, old position kept) -/
def parsePosition (ops : EngineOps) (st : UciState) (s : Bytes) : M (UciState × Option FenError) :=
  if hasPrefix s Gen.uStartpos_bytes then pure ({ st with pos := some ops.startPos }, none)
  else
    let fen := if hasPrefix s (Gen.uFen_bytes ++ [32]) then ops.str.trimSpace (trimPrefix s Gen.uFen_bytes) else s
    do match (← parseFen fen) with
       | .error e => pure (st, some e)
       | .ok p => pure ({ st with pos := some p }, none)

/-- the `for _, moveStr := range moveStrings` loop of `doPosition` followed by `clearKillerMoves()` -/
def applyMoves (ops : EngineOps) : UciState → List Bytes → M (UciState × List UOut)
  | st, [] => pure (st.clearKillers, [])
  | st, ms :: rest =>
    match parseMoveString ops.str.lower ms with
    | none => pure (st, [.invalidPositionCommand ms])       -- `return`: killers not cleared
    | some mv =>
      match st.pos with
      | none => throw (.nilDeref "posGen")
      | some p => do
        let p' ← ops.applyMove p mv
        applyMoves ops { st with pos := some p' } rest

/-- what `doPosition` does before its move loop -/
inductive PosHead where
  | noMoves (st : UciState) (err : Option FenError)       -- no `moves` in the command
  | rejected (st : UciState) (e : FenError)               -- FEN rejected: the move list is not applied
  | moves (st : UciState) (moveStrs : List Bytes)

def positionHead (ops : EngineOps) (st : UciState) (cmd : Bytes) : M PosHead :=
  match indexOf Gen.uMoves_bytes cmd with
  | none => do
    let r ← parsePosition ops st cmd
    pure (.noMoves r.1 r.2)
  | some i => do
    let head ← sliceTo cmd i
    let r ← parsePosition ops st (ops.str.trimSpace head)
    match r.2 with
    | some e => pure (.rejected r.1 e)
    | none => do
      let tail ← sliceFrom cmd (i + Gen.uMoves_bytes.length)
      pure (.moves r.1 (splitOn 32 (ops.str.trimSpace tail)))

/-- `doPosition` -/
def doPosition (ops : EngineOps) (st : UciState) (cmd : Bytes) : M (UciState × List UOut) := do
  match (← positionHead ops st cmd) with
  | .noMoves st' err =>
    -- the result of parsePosition is ignored on this path: killers are cleared either way
    pure (st'.clearKillers, match err with | some e => [.invalidFen e] | none => [])
  | .rejected st' e => pure (st', [.invalidFen e])
  | .moves st' moveStrs => applyMoves ops st' moveStrs

/-! ### `go`, `setoption`, `perft` -/

/-- `doGo` up to the spawn of the search goroutine -/
def doGo (st : UciState) (cmd : Bytes) : M (UciState × List UOut) :=
  match st.pos with
  | none => pure (st, [.noPositionGo])
  | some p => do
    let st := { st with searchAllocated := true }
    match (← goParams (!whiteTurn p) cmd) with
    | none => pure (st, [])                                -- a `return` inside the token loop
    | some g => pure (st.clearKillers, [.searchStarted g.millis g.depth])

/-- `setOption` -/
def setOption (st : UciState) (cmd : Bytes) : M UciState := do
  let tokens := splitOn 32 cmd
  if tokens.length != 4 then pure st else
  let t0 ← idx "tokens" tokens 0
  let bad ← orM (t0 != Gen.uOptionName_bytes) (do
    let t2 ← idx "tokens" tokens 2
    pure (t2 != Gen.uOptionValue_bytes))
  if bad then pure st else
  let t1 ← idx "tokens" tokens 1
  if t1 == Gen.currmoveLogIntervalKey_bytes then do
    let t3 ← idx "tokens" tokens 3
    match atoi t3 with
    | none => pure st
    | some v =>
      if v ≥ Gen.currmoveLogIntervalMin && v ≤ Gen.currmoveLogIntervalMax then pure { st with logInterval := v }
      else pure st
  else pure st

/-- `doPerftDivide` / `doTacticalPerftDivide` -/
def doPerft (tactical : Bool) (ops : EngineOps) (st : UciState) (arg : Bytes) : M (UciState × List UOut) :=
  match atoi arg with
  | none => pure (st, [.invalidDepth arg])
  | some d =>
    if d ≤ 0 || d ≥ Gen.plyBufferCapacity then pure (st, [.invalidDepth arg]) else
    match st.pos with
    | none => pure (st, [.noPositionPerft])
    | some p => do
      let es ← (if tactical then ops.tperftDivOp p d.toNat else ops.perftDivOp p d.toNat)
      pure (st, [.perftDone tactical es])

/-! ### the dispatcher -/

/-- `ParseInputLine` -/
def uciStep (ops : EngineOps) (st : UciState) (line : Bytes) : M (UciState × List UOut) :=
  if line == Gen.uIsReady_bytes then
    pure ({ st with searchAllocated := true }, [.readyok])
  else if line == kwEval then
    match st.pos with
    | none => pure (st, [.noPositionEval])
    | some p => do
      let v ← ops.evalOp p
      pure (st, [.evalValue v])
  else if line == kwQuit then pure ({ st with quit := true }, [])
  else if hasPrefix line Gen.uPosition_bytes then
    doPosition ops st (ops.str.trimSpace (trimPrefix line Gen.uPosition_bytes))
  else if line == Gen.uUci_bytes then pure (st, [.uciInfo])
  else if hasPrefix line Gen.uGo_bytes then
    doGo st (ops.str.trimSpace (trimPrefix line Gen.uGo_bytes))
  else if line == kwStop then
    pure (st, if st.searchAllocated then [.stopRequested] else [])
  else if hasPrefix line Gen.uOptionSet_bytes then do
    let st' ← setOption st (ops.str.trimSpace (trimPrefix line Gen.uOptionSet_bytes))
    pure (st', [])
  else if line == kwTostr then
    match st.pos with
    | none => pure (st, [.nilText])
    | some p =>
      match ops.tostrOp p with
      | .ok s => pure (st, [.positionText s])
      | .error _ => pure (st, [.fmtPanic])
  else if hasPrefix line kwPerft then
    doPerft false ops st (ops.str.trimSpace (trimPrefix line kwPerft))
  else if hasPrefix line kwTperft then
    doPerft true ops st (ops.str.trimSpace (trimPrefix line kwTperft))
  else if line == kwHelp then pure (st, [.help])
  else pure (st, [])

/-- a whole session: the lines in order; collects the output of every line -/
def uciRun (ops : EngineOps) : UciState → List Bytes → M (UciState × List (List UOut))
  | st, [] => pure (st, [])
  | st, l :: ls => do
    let r ← uciStep ops st l
    let rs ← uciRun ops r.1 ls
    pure (rs.1, r.2 :: rs.2)

/-! ### instantiation with the model of the engine -/

/-- `Generator.Perftd(depth)` for `depth ≥ 1` with the generator at `plyIdx = 0`: PushMove (stack slot 1),
    `Perft(depth-1)`, PopMove for every legal move -/
def perftDivide (kt : Killers) (cap : Nat) (p : Position) (depth : Nat) : M (List (Move × Nat)) := do
  let ms ← generateMoves kt p
  ms.mapM fun rm => do
    if 1 ≥ cap then throw (.index "posStack" 1) else do
      let r ← makeMove p rm.mov
      if !r.2 then throw (.explicit "Applying move resulted in illegal position") else do
        let n ← perft kt cap (depth - 1) 1 r.1
        pure (rm.mov, n)

/-- `Generator.PerftDivTactical(depth)` for `depth ≥ 1` -/
def tperftDivide (kt : Killers) (cap : Nat) (p : Position) (depth : Nat) : M (List (Move × Nat)) := do
  if depth ≤ 1 then do
    let ts ← generateTacticalMoves p
    pure (ts.map fun rm => (rm.mov, 1))
  else do
    let ms ← generateMoves kt p
    ms.mapM fun rm => do
      if 1 ≥ cap then throw (.index "posStack" 1) else do
        let r ← makeMove p rm.mov
        if !r.2 then throw (.explicit "Applying move resulted in illegal position") else do
          let n ← perftTactical kt cap (depth - 1) 1 r.1
          pure (rm.mov, n)

/-- the engine operations as modelled elsewhere; `blend` is the float interpolation of the evaluation and
    `tostr` a renderer of `Position.String()` (irrelevant for panics: fmt recovers) -/
def modelOps (blend : Blend) (tostr : Position → M Bytes) : EngineOps :=
  { str := goStrEnv
    startPos := startPosition
    evalOp := fun p => evaluate blend p 0
    perftDivOp := fun p d => perftDivide Killers.empty Gen.plyBufferCapacity p d
    tperftDivOp := fun p d => tperftDivide Killers.empty Gen.plyBufferCapacity p d
    applyMove := applyUciMove
    tostrOp := tostr }

end Magog.Model
