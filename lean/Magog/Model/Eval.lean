import Magog.Model.MoveGen

/-! Model of engine/score.go: lazy evaluation, piece-square score, terminal scoring.

The `float64` king-table interpolation is a parameter `blend materialSum mid end` (DESIGN §3.2); the
driver instantiates it with Lean's `Float`, which is compared with Go on the complete domain every run. -/

namespace Magog.Model
open Magog

abbrev Blend := Nat → Int → Int → Int

def materialOf (k : Nat) : Nat :=
  if k == Knight then Gen.MaterialKnightScore
  else if k == Bishop then Gen.MaterialBishopScore
  else if k == Rook then Gen.MaterialRookScore
  else if k == Queen then Gen.MaterialQueenScore
  else 0

/-- `nonPawnMaterialScore` -/
def nonPawnMaterial (board : Array Nat) (pieces : List Nat) : M Nat :=
  sumM' (fun s => do let pc ← bget board s; pure (materialOf (pc &&& Colorless))) pieces

def sumMI {α} (f : α → M Int) : List α → M Int
  | [] => pure 0
  | x :: xs => do
    let a ← f x
    let b ← sumMI f xs
    pure (a + b)

/-- one side's material + piece-square sum (without the king) -/
def sidePst (board : Array Nat) (s : Side) (tN tB tR tQ tP : Array Int) : M Int := do
  let a ← sumMI (fun sq => do
    let pc ← bget board sq
    let k := pc &&& Colorless
    if k == Knight then do let v ← tgetI tN "sqTableKnights" sq; pure ((Gen.MaterialKnightScore : Int) + v)
    else if k == Bishop then do let v ← tgetI tB "sqTableBishops" sq; pure ((Gen.MaterialBishopScore : Int) + v)
    else if k == Rook then do let v ← tgetI tR "sqTableRooks" sq; pure ((Gen.MaterialRookScore : Int) + v)
    else if k == Queen then do let v ← tgetI tQ "sqTableQueens" sq; pure ((Gen.MaterialQueenScore : Int) + v)
    else pure 0) s.pieces
  let b ← sumMI (fun sq => do let v ← tgetI tP "sqTablePawns" sq; pure ((Gen.MaterialPawnScore : Int) + v)) s.pawns
  pure (a + b)

def pstKnightsWhite : Array Int := Gen.sqTableKnightsWhite.toArray
def pstBishopsWhite : Array Int := Gen.sqTableBishopsWhite.toArray
def pstRooksWhite : Array Int := Gen.sqTableRooksWhite.toArray
def pstQueensWhite : Array Int := Gen.sqTableQueensWhite.toArray
def pstPawnsWhite : Array Int := Gen.sqTablePawnsWhite.toArray
def pstKingMidWhite : Array Int := Gen.sqTableKingMidgameWhite.toArray
def pstKingEndWhite : Array Int := Gen.sqTableKingEndgameWhite.toArray
def pstKnightsBlack : Array Int := Gen.sqTableKnightsBlack.toArray
def pstBishopsBlack : Array Int := Gen.sqTableBishopsBlack.toArray
def pstRooksBlack : Array Int := Gen.sqTableRooksBlack.toArray
def pstQueensBlack : Array Int := Gen.sqTableQueensBlack.toArray
def pstPawnsBlack : Array Int := Gen.sqTablePawnsBlack.toArray
def pstKingMidBlack : Array Int := Gen.sqTableKingMidgameBlack.toArray
def pstKingEndBlack : Array Int := Gen.sqTableKingEndgameBlack.toArray

/-- `pieceSquareScore` (from the mover's point of view) -/
def pieceSquareScore (blend : Blend) (p : Position) : M Int := do
  let wm ← nonPawnMaterial p.board p.whitePieces
  let bm ← nonPawnMaterial p.board p.blackPieces
  let msum := wm + bm
  let w ← sidePst p.board (p.side true) pstKnightsWhite pstBishopsWhite pstRooksWhite
            pstQueensWhite pstPawnsWhite
  let wkm ← tgetI pstKingMidWhite "sqTableKingMidgameWhite" p.whiteKing
  let wke ← tgetI pstKingEndWhite "sqTableKingEndgameWhite" p.whiteKing
  let b ← sidePst p.board (p.side false) pstKnightsBlack pstBishopsBlack pstRooksBlack
            pstQueensBlack pstPawnsBlack
  let bkm ← tgetI pstKingMidBlack "sqTableKingMidgameBlack" p.blackKing
  let bke ← tgetI pstKingEndBlack "sqTableKingEndgameBlack" p.blackKing
  let score := (w + blend msum wkm wke) - (b + blend msum bkm bke)
  pure (if whiteTurn p then score else -score)

/-- `isCheckMate`: `isCurrentKingUnderCheck() && countMoves() == 0` -/
def isCheckMate (p : Position) : M Bool := do
  let chk ← isCurrentKingUnderCheck p
  andM chk (do let n ← countMoves p; pure (n == 0))

def flipTurn (p : Position) : Position := { p with flags := p.flags ^^^ FWhiteTurn }

/-- `LazyEvaluate(pos, depth, alpha, beta)` (the node counter is kept by the search model) -/
def lazyEvaluate (blend : Blend) (p : Position) (depth alpha beta : Int) : M Int := do
  let mate ← isCheckMate p
  if mate then pure (Gen.LostScore + depth) else do
    let cheap ← pieceSquareScore blend p
    if cheap > beta + Gen.fullEvalScoreMargin || cheap < alpha - Gen.fullEvalScoreMargin then pure cheap else do
      let own ← countMoves p
      if own * Gen.MobilityScoreFactor == 0 then pure Gen.DrawScore else do
        let enemy ← countMoves (flipTurn p)
        pure (cheap + (own * Gen.MobilityScoreFactor : Nat) - (enemy * Gen.MobilityScoreFactor : Nat))

/-- `Evaluate(pos, depth)` -/
def evaluate (blend : Blend) (p : Position) (depth : Int) : M Int :=
  lazyEvaluate blend p depth Gen.MinusInfinityScore Gen.InfinityScore

/-- `terminalNodeScore` -/
def terminalNodeScore (p : Position) (depth : Int) : M Int := do
  let chk ← isCurrentKingUnderCheck p
  pure (if chk then Gen.LostScore + depth else Gen.DrawScore)

end Magog.Model
