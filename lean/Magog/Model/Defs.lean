import Magog.Generated.Consts
import Magog.Generated.Attack
import Magog.Generated.Pst
import Magog.Generated.Start
import Magog.Generated.Shape

/-! Model of macsmol/magog: basic definitions (defs.go, position.go data layout).

Conventions (DESIGN §3.2): squares, pieces, flags, directions are `Nat` with Go's bit layout; byte
arithmetic is explicit (`addb`); every Go run-time panic (index out of range, explicit `panic`, integer
division by zero, nil dereference) is an `Except.error`; loops are structural recursion (over a list
or over explicit fuel). All constants come from `Magog.Gen` (regenerated from the Go source). -/

namespace Magog.Model
open Magog

inductive Panic where
  | index (what : String) (i : Int)
  | explicit (msg : String)
  | divZero
  | nilDeref (what : String)
  | hang (what : String)     -- a Go loop that would not terminate (or run off the array) here
  deriving Repr, DecidableEq

abbrev M := Except Panic

def BlackBit : Nat := Gen.BlackPieceBit
def WhiteBit : Nat := Gen.WhitePieceBit
def Colorless : Nat := Gen.ColorlessPiece
def Pawn : Nat := Gen.Pawn
def Knight : Nat := Gen.Knight
def Bishop : Nat := Gen.Bishop
def Rook : Nat := Gen.Rook
def Queen : Nat := Gen.Queen
def King : Nat := Gen.King

def FWhiteTurn : Nat := Gen.FlagWhiteTurn
def FWK : Nat := Gen.FlagWhiteCanCastleKside
def FWQ : Nat := Gen.FlagWhiteCanCastleQside
def FBK : Nat := Gen.FlagBlackCanCastleKside
def FBQ : Nat := Gen.FlagBlackCanCastleQside

def InvalidSq : Nat := Gen.InvalidSquare

def knightDirs : List Nat :=
  [Gen.DirNNE, Gen.DirSSW, Gen.DirNNW, Gen.DirSSE, Gen.DirNEE, Gen.DirSWW, Gen.DirNWW, Gen.DirSEE]
def bishopDirs : List Nat := [Gen.DirNE, Gen.DirSE, Gen.DirNW, Gen.DirSW]
def rookDirs : List Nat := [Gen.DirN, Gen.DirS, Gen.DirE, Gen.DirW]
def kingDirs : List Nat := Gen.kingDirections

/-- byte addition (Go: `square + square(direction)`) -/
@[inline] def addb (a b : Nat) : Nat := (a + b) % 256
@[inline] def fileOf (s : Nat) : Nat := s &&& 0x0F
@[inline] def rankOf (s : Nat) : Nat := s &&& 0xF0
@[inline] def isValid (s : Nat) : Bool := s &&& InvalidSq == 0

/-- `x &^ m` on a byte: clear the bits of `m` -/
@[inline] def clearBits (x m : Nat) : Nat := x &&& (0xFF ^^^ m)

structure Position where
  board : Array Nat          -- 128 entries (0x88 board)
  blackPieces : List Nat     -- active prefix of the Go array
  whitePieces : List Nat
  blackPawns : List Nat
  whitePawns : List Nat
  blackKing : Nat
  whiteKing : Nat
  flags : Nat
  ep : Nat
  ply : Int                  -- Go int16, wrap modelled by `wrap16`
  deriving Inhabited, Repr

structure Move where
  frm : Nat
  to : Nat
  promo : Nat := 0
  ep : Nat := Gen.InvalidSquare
  deriving DecidableEq, Inhabited, Repr

/-- Go's zero-value `Move{}` (what the killer table holds initially) -/
def Move.zero : Move := ⟨0, 0, 0, 0⟩

structure RMove where
  mov : Move
  ranking : Int
  tactical : Bool
  deriving Inhabited, Repr

def pieceCap : Nat := Gen.pieceCap
def pawnCap : Nat := Gen.pawnCap

@[inline] def bget (b : Array Nat) (i : Nat) : M Nat :=
  if h : i < b.size then pure b[i] else throw (.index "board" i)

@[inline] def bset (b : Array Nat) (i v : Nat) : M (Array Nat) :=
  if i < b.size then pure (b.setIfInBounds i v) else throw (.index "board" i)

/-- board access with a Go `int8` index expression (may be negative) -/
@[inline] def bgetI (b : Array Nat) (i : Int) : M Nat :=
  if i < 0 then throw (.index "board" i) else bget b i.toNat

@[inline] def tget (t : Array Nat) (what : String) (i : Int) : M Nat :=
  if i < 0 then throw (.index what i) else
  match t[i.toNat]? with
  | some v => pure v
  | none => throw (.index what i)

@[inline] def tgetI (t : Array Int) (what : String) (i : Nat) : M Int :=
  match t[i]? with
  | some v => pure v
  | none => throw (.index what i)

def whiteTurn (p : Position) : Bool := p.flags &&& FWhiteTurn != 0

/-- Go `int16(x)` conversion -/
def wrap16 (x : Int) : Int := (x + 32768) % 65536 - 32768

/-- Go's `a && b` / `a || b` with an effectful right operand: `b` only runs when needed -/
@[inline] def andM (a : Bool) (b : M Bool) : M Bool := if a then b else pure false
@[inline] def orM (a : Bool) (b : M Bool) : M Bool := if a then pure true else b

def anyM' {α} (f : α → M Bool) : List α → M Bool
  | [] => pure false
  | x :: xs => do
    let b ← f x
    if b then pure true else anyM' f xs

def flatMapM' {α β} (f : α → M (List β)) : List α → M (List β)
  | [] => pure []
  | x :: xs => do
    let a ← f x
    let b ← flatMapM' f xs
    pure (a ++ b)

def filterM' {α} (f : α → M Bool) : List α → M (List α)
  | [] => pure []
  | x :: xs => do
    let b ← f x
    let r ← filterM' f xs
    pure (if b then x :: r else r)

def sumM' {α} (f : α → M Nat) : List α → M Nat
  | [] => pure 0
  | x :: xs => do
    let a ← f x
    let b ← sumM' f xs
    pure (a + b)

/-- The per-side view MakeMove and the generators work with. -/
structure Side where
  pieces : List Nat
  pawns : List Nat
  king : Nat
  deriving Inhabited, Repr

def Position.side (p : Position) (white : Bool) : Side :=
  if white then ⟨p.whitePieces, p.whitePawns, p.whiteKing⟩ else ⟨p.blackPieces, p.blackPawns, p.blackKing⟩

end Magog.Model
