import Magog.Model.Fen

/-! Specification-level definitions for property C08: what a position accepted by the FEN loader
    guarantees (`FenInv`, `FenLists`), and the byte view of a string literal (`strBytes`). -/

namespace Magog.FenSpec
open Magog Magog.Model

/-- bytes (UTF-8) of a string, as the loader's input type -/
def strBytes (s : String) : Bytes := s.toUTF8.toList.map (·.toNat)

/-- codes of the white / black non-king, non-pawn men -/
def whitePieceCodes : List Nat := [Gen.WKnight, Gen.WBishop, Gen.WRook, Gen.WQueen]
def blackPieceCodes : List Nat := [Gen.BKnight, Gen.BBishop, Gen.BRook, Gen.BQueen]

/-- every listed square is a valid board square holding one of the given codes -/
def ListSound (b : Array Nat) (l : List Nat) (codes : List Nat) : Prop :=
  ∀ sq ∈ l, sq < 128 ∧ isValid sq = true ∧ ∃ pc ∈ codes, b[sq]? = some pc

/-- every square holding one of the given codes is listed -/
def ListComplete (b : Array Nat) (l : List Nat) (codes : List Nat) : Prop :=
  ∀ (sq pc : Nat), b[sq]? = some pc → pc ∈ codes → sq ∈ l

/-- en-passant square consistent with the position (the content of `epConsistent`, on checked reads) -/
def EpOk (p : Position) : Prop :=
  p.ep < 128 ∧ isValid p.ep = true ∧ p.board[p.ep]? = some 0 ∧
  if whiteTurn p then
    rankOf p.ep = Gen.Rank6 ∧ p.board[p.ep - Gen.UnitRank]? = some Gen.BPawn ∧ p.board[p.ep + Gen.UnitRank]? = some 0
  else
    rankOf p.ep = Gen.Rank3 ∧ p.board[p.ep + Gen.UnitRank]? = some Gen.WPawn ∧ p.board[p.ep - Gen.UnitRank]? = some 0

/-- What every accepted FEN guarantees about the loaded position. Board reads are the checked
    `b[i]? = some v` (no totalised default). -/
structure FenInv (p : Position) : Prop where
  size : p.board.size = 128
  wpLen : p.whitePawns.length ≤ pawnCap
  bpLen : p.blackPawns.length ≤ pawnCap
  wpcLen : p.whitePieces.length ≤ pieceCap
  bpcLen : p.blackPieces.length ≤ pieceCap
  wLen : p.whitePawns.length + p.whitePieces.length ≤ pieceCap
  bLen : p.blackPawns.length + p.blackPieces.length ≤ pieceCap
  wpSound : ListSound p.board p.whitePawns [Gen.WPawn]
  bpSound : ListSound p.board p.blackPawns [Gen.BPawn]
  wpcSound : ListSound p.board p.whitePieces whitePieceCodes
  bpcSound : ListSound p.board p.blackPieces blackPieceCodes
  wKing : p.board[p.whiteKing]? = some Gen.WKing
  bKing : p.board[p.blackKing]? = some Gen.BKing
  wKingValid : p.whiteKing < 128 ∧ isValid p.whiteKing = true
  bKingValid : p.blackKing < 128 ∧ isValid p.blackKing = true
  wKing1 : countKings p.board Gen.WKing = 1
  bKing1 : countKings p.board Gen.BKing = 1
  noBackPawn : ∀ i : Nat, (p.board[i]? = some Gen.WPawn ∨ p.board[i]? = some Gen.BPawn) →
    rankOf i ≠ Gen.Rank1 ∧ rankOf i ≠ Gen.Rank8
  offBoard : ∀ i : Nat, i < 128 → isValid i = false → p.board[i]? = some 0
  castling : castlingConsistent p = true
  ep : p.ep = InvalidSq ∨ EpOk p
  plyRange : 0 ≤ p.ply ∧ p.ply ≤ 2 * (Gen.maxFullMoveCounter : Int)
  plyParity : p.ply % 2 = if whiteTurn p then 0 else 1

/-- Converse direction: the lists are complete and duplicate-free, and the board holds nothing but
    the twelve piece codes (or 0). -/
structure FenLists (p : Position) : Prop where
  wpComplete : ListComplete p.board p.whitePawns [Gen.WPawn]
  bpComplete : ListComplete p.board p.blackPawns [Gen.BPawn]
  wpcComplete : ListComplete p.board p.whitePieces whitePieceCodes
  bpcComplete : ListComplete p.board p.blackPieces blackPieceCodes
  wpNodup : p.whitePawns.Nodup
  bpNodup : p.blackPawns.Nodup
  wpcNodup : p.whitePieces.Nodup
  bpcNodup : p.blackPieces.Nodup
  codes : ∀ (i v : Nat), p.board[i]? = some v →
    v = 0 ∨ v = Gen.WKing ∨ v = Gen.BKing ∨ v = Gen.WPawn ∨ v = Gen.BPawn ∨ v ∈ whitePieceCodes ∨ v ∈ blackPieceCodes

/-- number of board slots holding one of the given codes (generalises `countKings`) -/
def countCodes (b : Array Nat) (codes : List Nat) : Nat := (b.toList.filter (fun v => codes.contains v)).length

/-- Bool view of "the loader accepted" (for kernel-evaluated examples) -/
def accepted (r : M (Except FenError Position)) : Bool :=
  match r with
  | .ok (.ok _) => true
  | _ => false

/-- Bool view of "the loader rejected in an orderly way with error `e`" -/
def rejectedWith (r : M (Except FenError Position)) (e : FenError) : Bool :=
  match r with
  | .ok (.error e') => e' == e
  | _ => false

/-- What one rank string of the placement field denotes: the codes on files a, b, … (0 = empty);
    a digit stands for that many empty squares. -/
def expandRank : Bytes → List Nat
  | [] => []
  | c :: cs =>
    if 49 ≤ c && c ≤ 56 then List.replicate (c - 48) 0 ++ expandRank cs else charToPiece c :: expandRank cs

/-- The accepted position is the one the six FEN fields denote: the placement field puts exactly the
    denoted codes on the 64 squares (rank strings from rank 8 down to rank 1, files a to h), the side,
    castling and en-passant fields give the flags and the en-passant square, the full-move counter
    gives the ply. (The half-move clock field is ignored by the engine.) -/
def FenFaithful (s : Bytes) (p : Position) : Prop :=
  (∀ c ∈ s, c ≤ 127) ∧
  ∃ placement turn castle eps half full : Bytes,
    splitOn 32 s = [placement, turn, castle, eps, half, full] ∧
    (splitOn 47 placement).length = 8 ∧
    (∀ (idx : Nat) (row : Bytes), (splitOn 47 placement)[idx]? = some row →
      (expandRank row).length = 8 ∧
      ∀ (j v : Nat), (expandRank row)[j]? = some v → p.board[(7 - idx) * 16 + j]? = some v) ∧
    ((turn = [119] ∧ whiteTurn p = true) ∨ (turn = [98] ∧ whiteTurn p = false)) ∧
    (p.flags &&& FWK != 0) = containsByte castle 75 ∧
    (p.flags &&& FWQ != 0) = containsByte castle 81 ∧
    (p.flags &&& FBK != 0) = containsByte castle 107 ∧
    (p.flags &&& FBQ != 0) = containsByte castle 113 ∧
    p.flags < 32 ∧
    eps.length ≤ 2 ∧
    (eps.length ≠ 2 → p.ep = InvalidSq) ∧
    (∀ fc rc : Nat, eps = [fc, rc] →
      97 ≤ fc ∧ fc ≤ 104 ∧ (rc = 51 ∨ rc = 54) ∧ p.ep = (fc - 97) + (rc - 49) * 16) ∧
    ∃ n : Int, atoi full = some n ∧ 1 ≤ n ∧ n ≤ (Gen.maxFullMoveCounter : Int) ∧
      p.ply = 2 * (n - 1) + (if whiteTurn p then 0 else 1)

end Magog.FenSpec
