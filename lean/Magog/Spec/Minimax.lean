import Magog.Model.Search

/-! Specification for C04: the plain (unpruned, window-free) negamax value of the search tree the model's
    alpha-beta search walks. No move ordering, killer table, PV hint, PV buffer or node counter occurs
    here: the value is a function of the position, the remaining depth and the depth from the root only.

    Errors: the spec propagates the errors of the model's black boxes (`makeMove`, the generators, the
    evaluation) and — like the model's loops — throws when `makeMove` reports an illegal result, so that a
    `.ok` spec value means every node of the full tree was computable. -/

namespace Magog.Spec.Minimax
open Magog Magog.Model

/-- `x` brought into the window `[a, b]` -/
def clamp (x a b : Int) : Int := max a (min x b)

/-- value (for the side to move at `p`) of playing `m`: the negated value `f` of the successor -/
def childVal (f : Position → M Int) (p : Position) (m : Move) : M Int := do
  let r ← makeMove p m
  if !r.2 then throw (.explicit "Applying move resulted in illegal position") else
  let v ← f r.1
  pure (-v)

/-- running maximum of `acc` and the values `cv m` of all moves in the list (all are computed) -/
def foldMax (cv : Move → M Int) : List Move → Int → M Int
  | [], acc => pure acc
  | m :: ms, acc => do
    let v ← cv m
    foldMax cv ms (max acc v)

/-- plain negamax quiescence value: maximum of the FULL static evaluation (stand pat) and the negated
    values of all tactical successors. Same recursion structure and fuel as `Model.quiescence`. -/
def QV (blend : Blend) : Nat → Position → Nat → M Int
  | 0, _, _ => throw (.hang "quiescence")
  | f + 1, p, depth => do
    let e ← evaluate blend p depth
    let ms ← generateTacticalMoves p
    foldMax (childVal (fun q => QV blend f q (depth + 1)) p) (ms.map (·.mov)) e

/-- plain negamax value with `rem` plies of full-width search left (then quiescence):
    no legal move ⇒ mate/stalemate score at this depth; otherwise the maximum over all successors. -/
def V (blend : Blend) (qfuel : Nat) : Nat → Position → Nat → M Int
  | 0, p, depth => QV blend qfuel p depth
  | rem + 1, p, depth => do
    let ms ← generateMoves Killers.empty p
    match ms.map (·.mov) with
    | [] => terminalNodeScore p depth
    | m :: rest => do
      let v ← childVal (fun q => V blend qfuel rem q (depth + 1)) p m
      foldMax (childVal (fun q => V blend qfuel rem q (depth + 1)) p) rest v

/-- value of the root for iteration `target` (`startAlphaBeta … target`): the root is always expanded
    (even for `target = 0` the Go code searches the root's successors with `target - 1` saturating);
    equals `V blend qfuel target p 0` for `target ≥ 1` (`rootV_eq`). -/
def rootV (blend : Blend) (qfuel : Nat) (target : Nat) (p : Position) : M Int :=
  V blend qfuel ((target - 1) + 1) p 0

theorem rootV_eq (blend : Blend) (qfuel target : Nat) (p : Position) (h : 1 ≤ target) :
    rootV blend qfuel target p = V blend qfuel target p 0 := by
  unfold rootV
  have : target - 1 + 1 = target := by omega
  rw [this]

end Magog.Spec.Minimax
