import Magog.Model.MoveGen

/-! Specification for C05 (mate exactness), stated on the MODEL's own game tree: the tree whose edges are the
    moves of `Model.generateMoves` applied by `Model.makeMove`. (That this tree is the game tree of chess is
    property C01's business; the definitions below mirror `Spec.winsIn` / `Spec.losesIn` of `Spec/Chess.lean`.)

    Everything is in the model monad `M`: a panic of the generator, of `makeMove` or of the check test is
    propagated, and a generated move whose `makeMove` reports an illegal result is an explicit error (as in the
    model's search loops). The list quantifiers short-circuit like Go's `||` / `&&`. -/

namespace Magog.Spec.MateM
open Magog Magog.Model

/-- `∀`-loop with short-circuit (the `∃`-loop is `Model.anyM'`) -/
def allM' {α} (f : α → M Bool) : List α → M Bool
  | [] => pure true
  | x :: xs => do
    let b ← f x
    if b then allM' f xs else pure false

/-- `f` at the successor of `p` by the generated move `m` -/
def childM (p : Position) (m : Move) (f : Position → M Bool) : M Bool := do
  let r ← makeMove p m
  if !r.2 then throw (.explicit "Applying move resulted in illegal position") else f r.1

/-- checkmate on the model tree: no generated legal move and the king of the side to move is attacked -/
def matedM (p : Position) : M Bool := do
  let ms ← generateMoves Killers.empty p
  if ms.isEmpty then isCurrentKingUnderCheck p else pure false

/-- stalemate on the model tree: no generated legal move and the king of the side to move is not attacked -/
def stalemateM (p : Position) : M Bool := do
  let ms ← generateMoves Killers.empty p
  if ms.isEmpty then do
    let c ← isCurrentKingUnderCheck p
    pure (!c)
  else pure false

mutual
/-- the side to move can force mate in at most `n` plies (`n` odd counts its own moves) -/
def winsInM : Nat → Position → M Bool
  | 0, _ => pure false
  | n + 1, p => do
    let ms ← generateMoves Killers.empty p
    anyM' (fun rm => childM p rm.mov (losesInM n)) ms
/-- the side to move is mated within `n` plies whatever it plays (0 = is mated now) -/
def losesInM : Nat → Position → M Bool
  | 0, p => matedM p
  | n + 1, p => do
    let mt ← matedM p
    if mt then pure true else do
      let ms ← generateMoves Killers.empty p
      if ms.isEmpty then pure false
      else allM' (fun rm => childM p rm.mov (winsInM n)) ms
end

end Magog.Spec.MateM
