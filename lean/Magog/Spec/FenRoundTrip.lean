import Magog.Spec.FenInv
import Magog.Spec.Fen
import Magog.Abs

/-! Executable round-trip check of the FEN loader against the independent writer `Spec.toFen`
    (used for kernel-evaluated examples in Props/C08). -/

namespace Magog.FenSpec
open Magog Magog.Model

/-- load `s`, abstract to the specification position, write it back with the independent writer:
    the same string comes out (the half-move clock is written as 0, so `s` must have it 0) -/
def roundTrips (s : String) (fullMove : Nat) : Bool :=
  match parseFen (strBytes s) with
  | .ok (.ok p) => Spec.toFen (abs p) fullMove == s
  | _ => false

end Magog.FenSpec
