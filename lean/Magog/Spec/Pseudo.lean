import Magog.Spec.Chess

/-! The pseudo-legal layer as the engine implements it (property C01).

`Spec.pseudo` is the movement rules of chess without king safety. The engine's pseudo-legal generator
applies ONE extra test already at this layer: an ordinary king move (a king *step*, i.e. not castling)
onto a square that is attacked by the opponent *on the current board* is not generated. Such a move is
never legal (the attacker still attacks the square after the king has stepped there), so the set of legal
moves is unaffected; but the pseudo-legal list is smaller than `Spec.pseudo`. `pseudo'` is exactly that
list: `pseudo' p m = pseudo p m && !kingStepAttacked p m`. -/

namespace Magog.Spec

/-- `m` moves a king one step (not castling) onto a square attacked by the opponent on the current board -/
def kingStepAttacked (p : Pos) (m : Move) : Bool :=
  match p.at m.frm with
  | some ⟨_, .king⟩ => !isCastle p m && attacked p.board p.turn.other m.to
  | _ => false

/-- the engine's pseudo-legal layer: the movement rules, minus king steps into a currently attacked square -/
def pseudo' (p : Pos) (m : Move) : Bool := pseudo p m && !kingStepAttacked p m

theorem pseudo_of_pseudo' {p : Pos} {m : Move} (h : pseudo' p m = true) : pseudo p m = true := by
  simp only [pseudo', Bool.and_eq_true] at h
  exact h.1

end Magog.Spec
