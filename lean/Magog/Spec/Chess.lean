/-! Executable specification of the rules of chess (independent of the engine's 0x88 representation). -/
namespace Magog.Spec

inductive Color | white | black deriving DecidableEq, Repr, Inhabited
inductive Kind | pawn | knight | bishop | rook | queen | king deriving DecidableEq, Repr, Inhabited

def Color.other : Color → Color | .white => .black | .black => .white

structure Man where
  color : Color
  kind : Kind
  deriving DecidableEq, Repr, Inhabited

/-- square index = rank*8 + file, 0 = a1, 63 = h8 -/
abbrev Sq := Nat
def fileOf (s : Sq) : Nat := s % 8
def rankOf (s : Sq) : Nat := s / 8
def mkSq (f r : Nat) : Sq := r * 8 + f

structure Pos where
  board : Array (Option Man)   -- size 64
  turn : Color
  wk : Bool
  wq : Bool
  bk : Bool
  bq : Bool
  ep : Option Sq
  deriving Inhabited

def Pos.at (p : Pos) (s : Sq) : Option Man := p.board.getD s none

structure Move where
  frm : Sq
  to : Sq
  promo : Option Kind
  deriving DecidableEq, Repr, Inhabited

def adiff (a b : Nat) : Nat := if a ≥ b then a - b else b - a

/-- squares strictly between two squares on a common line (rank, file or diagonal) -/
def between (a b : Sq) : List Sq :=
  let fa := fileOf a; let ra := rankOf a; let fb := fileOf b; let rb := rankOf b
  let n := max (adiff fa fb) (adiff ra rb)
  (List.range n).tail.map fun k =>
    let f := if fb ≥ fa then fa + k * (fb - fa) / n else fa - k * (fa - fb) / n
    let r := if rb ≥ ra then ra + k * (rb - ra) / n else ra - k * (ra - rb) / n
    mkSq f r

def onLine (a b : Sq) : Bool := a != b && (fileOf a == fileOf b || rankOf a == rankOf b)
def onDiag (a b : Sq) : Bool := a != b && adiff (fileOf a) (fileOf b) == adiff (rankOf a) (rankOf b)
def clear (board : Array (Option Man)) (a b : Sq) : Bool := (between a b).all fun s => (board.getD s none).isNone

/-- does the man `m` standing on `a` attack square `b` on this board? -/
def manAttacks (board : Array (Option Man)) (m : Man) (a b : Sq) : Bool :=
  let df := adiff (fileOf a) (fileOf b); let dr := adiff (rankOf a) (rankOf b)
  match m.kind with
  | .knight => (df == 1 && dr == 2) || (df == 2 && dr == 1)
  | .king => df ≤ 1 && dr ≤ 1 && a != b
  | .rook => onLine a b && clear board a b
  | .bishop => onDiag a b && clear board a b
  | .queen => (onLine a b || onDiag a b) && clear board a b
  | .pawn => df == 1 && (match m.color with
      | .white => rankOf b == rankOf a + 1
      | .black => rankOf b + 1 == rankOf a)

def allSq : List Sq := List.range 64

def attacked (board : Array (Option Man)) (by_ : Color) (s : Sq) : Bool :=
  allSq.any fun a => match board.getD a none with
    | some m => m.color == by_ && manAttacks board m a s
    | none => false

def kingSq (board : Array (Option Man)) (c : Color) : Option Sq :=
  allSq.find? fun a => board.getD a none == some ⟨c, .king⟩

def inCheck (board : Array (Option Man)) (c : Color) : Bool :=
  match kingSq board c with
  | some k => attacked board c.other k
  | none => false

def homeRank : Color → Nat | .white => 0 | .black => 7
def pawnStart : Color → Nat | .white => 1 | .black => 6
def promoRank : Color → Nat | .white => 7 | .black => 0
def fwd (c : Color) (r : Nat) : Nat := match c with | .white => r + 1 | .black => r - 1

def canCastleK (p : Pos) : Bool := match p.turn with | .white => p.wk | .black => p.bk
def canCastleQ (p : Pos) : Bool := match p.turn with | .white => p.wq | .black => p.bq

/-- movement rules only (no king-safety), including castling preconditions -/
def pseudo (p : Pos) (m : Move) : Bool :=
  let c := p.turn
  match p.at m.frm with
  | none => false
  | some man =>
    man.color == c && m.frm < 64 && m.to < 64 &&
    (match p.at m.to with | some t => t.color != c | none => true) &&
    (match man.kind with
     | .pawn =>
        let ff := fileOf m.frm; let fr := rankOf m.frm; let tf := fileOf m.to; let tr := rankOf m.to
        let promoOk := if tr == promoRank c then
            (m.promo == some .queen || m.promo == some .rook || m.promo == some .bishop || m.promo == some .knight)
          else m.promo == none
        promoOk && fr != promoRank c &&
        ( -- single push
          (tf == ff && tr == fwd c fr && (p.at m.to).isNone) ||
          -- double push
          (tf == ff && fr == pawnStart c && tr == fwd c (fwd c fr) && (p.at m.to).isNone &&
             (p.at (mkSq ff (fwd c fr))).isNone) ||
          -- capture
          (adiff tf ff == 1 && tr == fwd c fr && (p.at m.to).isSome) ||
          -- en passant
          (adiff tf ff == 1 && tr == fwd c fr && (p.at m.to).isNone && p.ep == some m.to))
     | .king =>
        m.promo == none &&
        ( manAttacks p.board man m.frm m.to ||
          -- castling king side
          (canCastleK p && m.frm == mkSq 4 (homeRank c) && m.to == mkSq 6 (homeRank c) &&
            p.at (mkSq 7 (homeRank c)) == some ⟨c, .rook⟩ &&
            (p.at (mkSq 5 (homeRank c))).isNone && (p.at (mkSq 6 (homeRank c))).isNone &&
            !attacked p.board c.other (mkSq 4 (homeRank c)) &&
            !attacked p.board c.other (mkSq 5 (homeRank c)) &&
            !attacked p.board c.other (mkSq 6 (homeRank c))) ||
          (canCastleQ p && m.frm == mkSq 4 (homeRank c) && m.to == mkSq 2 (homeRank c) &&
            p.at (mkSq 0 (homeRank c)) == some ⟨c, .rook⟩ &&
            (p.at (mkSq 3 (homeRank c))).isNone && (p.at (mkSq 2 (homeRank c))).isNone &&
            (p.at (mkSq 1 (homeRank c))).isNone &&
            !attacked p.board c.other (mkSq 4 (homeRank c)) &&
            !attacked p.board c.other (mkSq 3 (homeRank c)) &&
            !attacked p.board c.other (mkSq 2 (homeRank c))))
     | _ => m.promo == none && manAttacks p.board man m.frm m.to)

def isCastle (p : Pos) (m : Move) : Bool :=
  match p.at m.frm with
  | some ⟨_, .king⟩ => adiff (fileOf m.frm) (fileOf m.to) == 2
  | _ => false

def isEnPassant (p : Pos) (m : Move) : Bool :=
  match p.at m.frm with
  | some ⟨_, .pawn⟩ => fileOf m.frm != fileOf m.to && (p.at m.to).isNone
  | _ => false

/-- the position after playing `m` (assumed pseudo-legal) -/
def apply (p : Pos) (m : Move) : Pos :=
  let c := p.turn
  match p.at m.frm with
  | none => p
  | some man =>
    let b0 := p.board
    let placed : Man := match m.promo with | some k => ⟨c, k⟩ | none => man
    let b1 := (b0.setIfInBounds m.frm none).setIfInBounds m.to (some placed)
    let b2 := if isEnPassant p m then b1.setIfInBounds (mkSq (fileOf m.to) (rankOf m.frm)) none else b1
    let b3 := if isCastle p m then
        if fileOf m.to == 6 then
          (b2.setIfInBounds (mkSq 7 (rankOf m.frm)) none).setIfInBounds (mkSq 5 (rankOf m.frm)) (some ⟨c, .rook⟩)
        else
          (b2.setIfInBounds (mkSq 0 (rankOf m.frm)) none).setIfInBounds (mkSq 3 (rankOf m.frm)) (some ⟨c, .rook⟩)
      else b2
    let touch (s : Sq) : Bool := m.frm == s || m.to == s
    let ep := if man.kind == .pawn && adiff (rankOf m.frm) (rankOf m.to) == 2
      then some (mkSq (fileOf m.frm) ((rankOf m.frm + rankOf m.to) / 2)) else none
    { board := b3, turn := c.other,
      wk := p.wk && !touch 4 && !touch 7,
      wq := p.wq && !touch 4 && !touch 0,
      bk := p.bk && !touch 60 && !touch 63,
      bq := p.bq && !touch 60 && !touch 56,
      ep := ep }

def legal (p : Pos) (m : Move) : Bool :=
  pseudo p m && !inCheck (apply p m).board p.turn

def promos : List (Option Kind) := [none, some .queen, some .rook, some .bishop, some .knight]

def candidates : List Move :=
  allSq.flatMap fun a => allSq.flatMap fun b => promos.map fun pr => ⟨a, b, pr⟩

def legalMoves (p : Pos) : List Move := candidates.filter (legal p)

def isCapture (p : Pos) (m : Move) : Bool := (p.at m.to).isSome || isEnPassant p m
def isTactical (p : Pos) (m : Move) : Bool := isCapture p m || m.promo.isSome

end Magog.Spec

namespace Magog.Spec

/-! Well-formedness of a chess position ("legal position" in the sense of the properties),
    game paths, and replay. -/

def countMen (p : Pos) (f : Man → Bool) : Nat :=
  allSq.countP fun s => match p.at s with | some m => f m | none => false

def pawnsOf (p : Pos) (c : Color) : Nat := countMen p fun m => m.color == c && m.kind == .pawn
def othersOf (p : Pos) (c : Color) : Nat := countMen p fun m => m.color == c && m.kind != .pawn && m.kind != .king
def kingsOf (p : Pos) (c : Color) : Nat := countMen p fun m => m.color == c && m.kind == .king

/-- One king each; side not to move not in check; no pawns on back ranks; per side at most 8 pawns and
    pawns + other men ≤ 15 (sixteen men including the king); castling rights only with king and rook at
    home; en-passant target consistent with a double push just played. -/
def Legal (p : Pos) : Bool :=
  p.board.size == 64 &&
  kingsOf p .white == 1 && kingsOf p .black == 1 &&
  !inCheck p.board p.turn.other &&
  (allSq.all fun s => match p.at s with
      | some ⟨_, .pawn⟩ => rankOf s != 0 && rankOf s != 7
      | _ => true) &&
  pawnsOf p .white ≤ 8 && pawnsOf p .black ≤ 8 &&
  pawnsOf p .white + othersOf p .white ≤ 15 && pawnsOf p .black + othersOf p .black ≤ 15 &&
  (!p.wk || (p.at 4 == some ⟨.white, .king⟩ && p.at 7 == some ⟨.white, .rook⟩)) &&
  (!p.wq || (p.at 4 == some ⟨.white, .king⟩ && p.at 0 == some ⟨.white, .rook⟩)) &&
  (!p.bk || (p.at 60 == some ⟨.black, .king⟩ && p.at 63 == some ⟨.black, .rook⟩)) &&
  (!p.bq || (p.at 60 == some ⟨.black, .king⟩ && p.at 56 == some ⟨.black, .rook⟩)) &&
  (match p.ep with
   | none => true
   | some e =>
     e < 64 &&
     (match p.turn with
      | .white => rankOf e == 5 && (p.at e).isNone && p.at (e - 8) == some ⟨.black, .pawn⟩ && (p.at (e + 8)).isNone
      | .black => rankOf e == 2 && (p.at e).isNone && p.at (e + 8) == some ⟨.white, .pawn⟩ && (p.at (e - 8)).isNone))

/-- number of legal move paths of length n -/
def paths (p : Pos) : Nat → Nat
  | 0 => 1
  | n + 1 => ((legalMoves p).map fun m => paths (apply p m) n).sum

/-- number of legal move paths of length n+1 whose last move captures or promotes -/
def tacticalPaths (p : Pos) : Nat → Nat
  | 0 => ((legalMoves p).filter (isTactical p)).length
  | n + 1 => ((legalMoves p).map fun m => tacticalPaths (apply p m) n).sum

/-- replay of a move list; `none` as soon as a move is not legal -/
def play (p : Pos) : List Move → Option Pos
  | [] => some p
  | m :: ms => if legal p m then play (apply p m) ms else none

def startPos : Pos :=
  let back : List Kind := [.rook, .knight, .bishop, .queen, .king, .bishop, .knight, .rook]
  let row (c : Color) : List (Option Man) := back.map fun k => some ⟨c, k⟩
  let pawns (c : Color) : List (Option Man) := List.replicate 8 (some ⟨c, .pawn⟩)
  let empty : List (Option Man) := List.replicate 32 none
  { board := (row .white ++ pawns .white ++ empty ++ pawns .black ++ row .black).toArray,
    turn := .white, wk := true, wq := true, bk := true, bq := true, ep := none }

/-! Forced mate (AND/OR over legal moves). -/

def isMated (p : Pos) : Bool := (legalMoves p).isEmpty && inCheck p.board p.turn
def isStalemate (p : Pos) : Bool := (legalMoves p).isEmpty && !inCheck p.board p.turn

mutual
/-- side to move can give mate in at most `n` plies (n odd counts its own moves) -/
def winsIn (p : Pos) : Nat → Bool
  | 0 => false
  | n + 1 => (legalMoves p).any fun m => losesIn (apply p m) n
/-- side to move is mated within `n` plies whatever it plays (0 = already mated) -/
def losesIn (p : Pos) : Nat → Bool
  | 0 => isMated p
  | n + 1 => isMated p || (!(legalMoves p).isEmpty && (legalMoves p).all fun m => winsIn (apply p m) n)
end

end Magog.Spec
