import Magog.Spec.Chess

/-! Independent FEN writer for specification positions (used by the generators and by the C08 round trip). -/

namespace Magog.Spec

def kindChar : Kind → Char
  | .pawn => 'p' | .knight => 'n' | .bishop => 'b' | .rook => 'r' | .queen => 'q' | .king => 'k'

def manChar (m : Man) : Char :=
  match m.color with | .white => (kindChar m.kind).toUpper | .black => kindChar m.kind

def sqName (s : Sq) : String := String.ofList [Char.ofNat (97 + fileOf s), Char.ofNat (49 + rankOf s)]

/-- one rank, files a..h, with run-length encoded gaps -/
def fenRankChars (p : Pos) (r : Nat) : List Char :=
  let rec go (f : Nat) (fuel : Nat) (gap : Nat) : List Char :=
    match fuel with
    | 0 => if gap > 0 then [Char.ofNat (48 + gap)] else []
    | fuel + 1 =>
      match p.at (mkSq f r) with
      | none => go (f + 1) fuel (gap + 1)
      | some m => (if gap > 0 then [Char.ofNat (48 + gap)] else []) ++ manChar m :: go (f + 1) fuel 0
  go 0 8 0

def toFen (p : Pos) (fullMove : Nat) : String :=
  let ranks := [7, 6, 5, 4, 3, 2, 1, 0].map fun r => String.ofList (fenRankChars p r)
  let c := (if p.wk then "K" else "") ++ (if p.wq then "Q" else "") ++ (if p.bk then "k" else "") ++ (if p.bq then "q" else "")
  let c := if c == "" then "-" else c
  let e := match p.ep with | some s => sqName s | none => "-"
  "/".intercalate ranks ++ " " ++ (if p.turn == .white then "w" else "b") ++ " " ++ c ++ " " ++ e ++ " 0 " ++ toString fullMove

end Magog.Spec
