import Magog.Spec.Fen

/-! Byte-level twin of the independent FEN writer `Spec.toFen` (Magog/Spec/Fen.lean): the same structure,
    producing the loader's input type (`List Nat`, one entry per byte) directly instead of a `String`.
    Used by the general round-trip theorem of property C08 (Magog/Props/C08RoundTrip.lean). -/

namespace Magog.Spec

/-- ASCII code of `kindChar` -/
def kindByte : Kind → Nat
  | .pawn => 112 | .knight => 110 | .bishop => 98 | .rook => 114 | .queen => 113 | .king => 107

/-- ASCII code of `manChar`: upper case (code − 32) for White -/
def manByte (m : Man) : Nat :=
  match m.color with | .white => kindByte m.kind - 32 | .black => kindByte m.kind

/-- bytes of `sqName` -/
def sqNameBytes (s : Sq) : List Nat := [97 + fileOf s, 49 + rankOf s]

/-- bytes of `fenRankChars`: one rank, files a..h, with run-length encoded gaps -/
def fenRankBytes (p : Pos) (r : Nat) : List Nat :=
  let rec go (f : Nat) (fuel : Nat) (gap : Nat) : List Nat :=
    match fuel with
    | 0 => if gap > 0 then [48 + gap] else []
    | fuel + 1 =>
      match p.at (mkSq f r) with
      | none => go (f + 1) fuel (gap + 1)
      | some m => (if gap > 0 then [48 + gap] else []) ++ manByte m :: go (f + 1) fuel 0
  go 0 8 0

/-- decimal digits of `n`, most significant first, in front of `acc` (`fuel` > number of digits) -/
def natDigitsAux : Nat → Nat → List Nat → List Nat
  | 0, _, acc => acc
  | fuel + 1, n, acc =>
    if n < 10 then (48 + n) :: acc else natDigitsAux fuel (n / 10) ((48 + n % 10) :: acc)

/-- decimal rendering of a natural number as ASCII bytes (the bytes of `toString n`) -/
def natDigits (n : Nat) : List Nat := natDigitsAux (n + 1) n []

/-- `sep.intercalate` on byte strings, for a one-byte separator -/
def joinBytes (sep : Nat) : List (List Nat) → List Nat
  | [] => []
  | [x] => x
  | x :: y :: rest => x ++ sep :: joinBytes sep (y :: rest)

/-- the castling field -/
def castleBytes (p : Pos) : List Nat :=
  let c := (if p.wk then [75] else []) ++ (if p.wq then [81] else []) ++ (if p.bk then [107] else []) ++
    (if p.bq then [113] else [])
  if c == [] then [45] else c

/-- the en-passant field -/
def epBytes (p : Pos) : List Nat :=
  match p.ep with | some s => sqNameBytes s | none => [45]

/-- bytes of `toFen p fullMove` -/
def toFenBytes (p : Pos) (fullMove : Nat) : List Nat :=
  let ranks := [7, 6, 5, 4, 3, 2, 1, 0].map fun r => fenRankBytes p r
  joinBytes 47 ranks ++ [32] ++ (if p.turn == .white then [119] else [98]) ++ [32] ++ castleBytes p ++ [32] ++
    epBytes p ++ [32, 48, 32] ++ natDigits fullMove

end Magog.Spec
