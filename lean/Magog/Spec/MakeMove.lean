import Magog.Model.MoveGen

/-! Specification-level definitions for property C02 (playing a generated move keeps the position
    well-formed): which moves `makeMove` is applied to, the "legal position" precondition, and games. -/

namespace Magog.MM
open Magog Magog.Model

/-- `m` is produced by the pseudo-legal generator on `p` (for some killer table; the killer table only
    influences the rankings) -/
def Generated (p : Position) (m : Move) : Prop :=
  ∃ kt ms, genPseudo kt p = .ok ms ∧ m ∈ ms.map (·.mov)

/-- The side NOT to move is not in check (otherwise the generator can produce a capture of the enemy
    king, which `mmCapture` does not book): the "legal position" precondition. -/
def OppSafe (p : Position) : Prop :=
  isUnderCheck p.board (p.side (whiteTurn p)) (p.side (!whiteTurn p)).king = .ok false

/-- play a list of moves in sequence (ignoring the king-safety verdicts) -/
def playM (p : Position) : List Move → M Position
  | [] => pure p
  | m :: ms => do
    let r ← makeMove p m
    playM r.1 ms

/-- every move of the list is generated at its position and accepted by `makeMove` (verdict `true`) -/
def GameOk (p : Position) : List Move → Prop
  | [] => True
  | m :: ms => Generated p m ∧ ∃ p', makeMove p m = .ok (p', true) ∧ GameOk p' ms

/-- Boolean checker for `GameOk` with a fixed killer table (for concrete games) -/
def gameOkB (kt : Killers) (p : Position) : List Move → Bool
  | [] => true
  | m :: ms =>
    match genPseudo kt p, makeMove p m with
    | .ok l, .ok (p', true) => (l.map (·.mov)).contains m && gameOkB kt p' ms
    | _, _ => false

end Magog.MM
