import Magog.Spec.Chess

/-! Coordinate ("long algebraic", UCI) notation of a move of the specification, as a byte string:
    origin square, destination square, promotion piece letter (`e2e4`, `e7e8q`). -/

namespace Magog.Spec

/-- name of a square: file letter `a`–`h` (97…104), rank digit `1`–`8` (49…56) -/
def sqText (s : Sq) : List Nat := [97 + fileOf s, 49 + rankOf s]

/-- promotion suffix: `n`, `b`, `r`, `q`; nothing without promotion -/
def promoText : Option Kind → List Nat
  | some .knight => [110]
  | some .bishop => [98]
  | some .rook => [114]
  | some .queen => [113]
  | _ => []

/-- the text of a move -/
def moveText (m : Move) : List Nat := sqText m.frm ++ sqText m.to ++ promoText m.promo

end Magog.Spec
