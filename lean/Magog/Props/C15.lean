import Magog.Model.Eval
import Magog.Model.Time

/-! Property C15 — theorems (see DESIGN §5). -/

namespace Magog.Props.C15

end Magog.Props.C15
