import Magog.Lemmas.MirrorWitness
import Magog.Lemmas.MirrorInv

/-! Property C15 — static evaluation is colour-symmetric.

A position and its colour-flipped mirror image `Model.mirror p` (`Magog/Model/Mirror.lean`: ranks
reversed, piece colours swapped, side to move swapped, castling rights swapped, en-passant square
mirrored) evaluate to the same score from the mover's point of view, for EVERY blend function and every
well-formed position (`Mir.MirrorOk`, legal or not — it does not mention the side to move, so it also
holds for the turn-flipped position on which the enemy mobility is counted).

The model's panics carry payloads that name squares (`Panic.index "board" i`, `kill`'s message), and the
mirrored direction lists are permutations of the original ones, so which panic comes first may differ:
the literal equation `evaluate blend (mirror p) d = evaluate blend p d` is FALSE for some `MirrorOk`
positions (example at the end: a pawn on its last rank). The headline statements therefore compare the
two computations through `Count.okVal` (the value, `none` on panic): same value whenever either side
returns one, and one side panics iff the other does. Whenever `p` itself does not panic the literal
equation follows (`C15_evaluate_mirror_eq`). The piece-square part and attack detection never panic
under the hypotheses and are stated as literal equations. -/

namespace Magog.Props.C15
open Magog Magog.Model Magog.Geo Magog.Count Magog.Mir Magog.Atk

/-! ### 1. kernel facts on the generated tables -/

set_option maxRecDepth 100000 in
theorem pstMirrorCheck_true : pstMirrorCheck = true := Mir.pstMirrorCheck_true

/-- **table symmetry** (on the tables regenerated from pieceSquareTables.go): every white table is the
    rank-mirrored black table, for all seven pairs and all 64 squares; all tables have 128 entries -/
theorem pst_mirror (w b : List Int) (hp : (w, b) ∈ tablePairs) (s : Nat) (hs : s ∈ sq88) :
    w.length = 128 ∧ b.length = 128 ∧ w[s]? = b[mirrorSq s]? := Mir.pst_mirror w b hp s hs

theorem mirrorSq_invol (s : Nat) (hs : s ∈ sq88) : mirrorSq (mirrorSq s) = s ∧ mirrorSq s ∈ sq88 :=
  ⟨mirrorSq_mirrorSq s, mirrorSq_mem_sq88.2 hs⟩

example : (Gen.sqTableKnightsWhite, Gen.sqTableKnightsBlack) ∈ tablePairs ∧ Gen.E4 ∈ sq88 ∧
    mirrorSq Gen.E4 = Gen.E5 := by decide

/-- **dir_mirror**: one step in a knight / bishop / rook / king direction from a board square, against
    the rank-negated direction from the mirrored square: on the board together, and then mirror images.
    (The literal `addb (mirrorSq s) (mirDir d) = mirrorSq (addb s d)` fails when the file nibble wraps,
    e.g. `s = a1`, `d = W`: both results are off the board but differ.) -/
theorem dir_mirror {s d : Nat} (hs : s ∈ sq88) (hd : d ∈ knightDirs ++ kingDirs ++ bishopDirs ++ rookDirs) :
    isValid (addb (mirrorSq s) (mirDir d)) = isValid (addb s d) ∧
    (isValid (addb s d) = true → addb (mirrorSq s) (mirDir d) = mirrorSq (addb s d)) :=
  Mir.dir_mirror hs hd

/-- the direction lists are mapped to permutations of themselves -/
theorem dirs_perm : (knightDirs.map mirDir).Perm knightDirs ∧ (bishopDirs.map mirDir).Perm bishopDirs ∧
    (rookDirs.map mirDir).Perm rookDirs ∧ (kingDirs.map mirDir).Perm kingDirs :=
  ⟨knightDirs_perm, bishopDirs_perm, rookDirs_perm, kingDirs_perm⟩

example : Gen.A1 ∈ sq88 ∧ Gen.DirNNE ∈ knightDirs ++ kingDirs ++ bishopDirs ++ rookDirs ∧
    addb (mirrorSq Gen.A1) (mirDir Gen.DirNNE) = mirrorSq Gen.B3 ∧
    addb (mirrorSq Gen.A1) (mirDir Gen.DirW) ≠ mirrorSq (addb Gen.A1 Gen.DirW) := by decide

/-- **attack_mirror**: for all 64 × 64 pairs of board squares, the attack-table entry of the mirrored pair
    has the same knight/bishop/rook/queen/king bits and the two pawn bits exchanged; the direction-table
    entry is the rank-negated direction -/
theorem attack_mirror {a t : Nat} (ha : a ∈ sq88) (ht : t ∈ sq88) :
    attackAt (mirrorSq a) (mirrorSq t) &&& 62 = attackAt a t &&& 62 ∧
    (attackAt (mirrorSq a) (mirrorSq t) &&& Gen.WPawnAttacks != 0) = (attackAt a t &&& Gen.BPawnAttacks != 0) ∧
    (attackAt (mirrorSq a) (mirrorSq t) &&& Gen.BPawnAttacks != 0) = (attackAt a t &&& Gen.WPawnAttacks != 0) ∧
    dirAt (mirrorSq a) (mirrorSq t) = mirDir (dirAt a t) := Mir.attack_mirror ha ht

example : Gen.E4 ∈ sq88 ∧ Gen.D5 ∈ sq88 ∧ attackAt Gen.E4 Gen.D5 &&& Gen.WPawnAttacks ≠ 0 ∧
    attackAt (mirrorSq Gen.E4) (mirrorSq Gen.D5) &&& Gen.BPawnAttacks ≠ 0 := by decide

/-! ### 2. attack detection -/

/-- **`isUnderCheck` is colour-symmetric** (literal equation: neither side panics differently).
    Hypotheses: 128-slot byte board; the attackers' lists name board squares; no listed officer slot
    carries the pawn bit; the slot on the attackers' king square carries exactly one colour bit (it
    selects the pawn-attack flag); the target is a board square. -/
theorem isUnderCheck_mirror {b : Array Nat} {en : Side} {dest : Nat} (hb : b.size = 128)
    (hbytes : ∀ (i x : Nat), b[i]? = some x → x < 256)
    (hpw : ∀ a ∈ en.pawns, a ∈ sq88)
    (hpc : ∀ a ∈ en.pieces, a ∈ sq88 ∧ ∀ x, b[a]? = some x → x &&& Pawn = 0)
    (hk : en.king ∈ sq88) (hkc : ∀ x, b[en.king]? = some x → oneColour x = true)
    (hd : dest ∈ sq88) :
    isUnderCheck (mirrorBoard b) (mirrorSide en) (mirrorSq dest) = isUnderCheck b en dest :=
  Mir.isUnderCheck_mirror hb hbytes hpw hpc hk hkc hd

/-- the hypotheses are satisfiable: they follow from `MirrorOk` (here: the black men of `c15Witness`
    attacking the white king's square) -/
example : isUnderCheck (mirrorBoard c15Witness.board) (mirrorSide (c15Witness.side false))
      (mirrorSq (c15Witness.side true).king)
    = isUnderCheck c15Witness.board (c15Witness.side false) (c15Witness.side true).king := by
  obtain ⟨h1, h2, h3, h4, h5, h6, h7⟩ := isUnderCheck_hyps c15Witness_ok false
  exact isUnderCheck_mirror h1 h2 h3 h4 h5 h6 h7

/-- the mover's king is in check in the mirror image iff it is in the position -/
theorem isCurrentKingUnderCheck_mirror {p : Position} (h : MirrorOk p) :
    isCurrentKingUnderCheck (mirror p) = isCurrentKingUnderCheck p :=
  Mir.isCurrentKingUnderCheck_mirror h

/-! ### 3. `makeMove` -/

/-- **`makeMove` commutes with the colour flip**: identical panic behaviour up to the payload, and the
    `.ok` results correspond (`mirrorRes (q, ok) = (mirror q, ok)`). `MoveOk p m`: the moved man is the
    mover's; a promotion piece is a bare kind (`< 64`); a king move lands on a board square; a
    castling-shaped king move does not wipe the enemy king off the rook's corner (without these the
    statement is false: the pawn-attack flag is chosen by the colour bit on the enemy king's slot). -/
theorem makeMove_mirror {p : Position} {m : Move} (h : MirrorOk p) (hm : MoveOk p m) :
    okVal (makeMove (mirror p) (mirrorMove m)) = (okVal (makeMove p m)).map mirrorRes :=
  Mir.makeMove_mirror h hm

/-- the same without `okVal`: the `.ok` results correspond -/
theorem makeMove_mirror_ok {p : Position} {m : Move} (h : MirrorOk p) (hm : MoveOk p m) (q : Position)
    (ok : Bool) (hq : makeMove p m = .ok (q, ok)) : makeMove (mirror p) (mirrorMove m) = .ok (mirror q, ok) := by
  have := Mir.makeMove_mirror h hm
  rw [hq] at this
  exact okVal_eq_some this

example : MirrorOk startPosition ∧ MoveOk startPosition ⟨Gen.E2, Gen.E4, 0, Gen.E3⟩ :=
  ⟨MirrorOk.of_inv inv_startPosition, moveOk_listed (MirrorOk.of_inv inv_startPosition) (.inl (by decide)) _ _⟩

/-- `MoveOk` cannot be dropped: in the `MirrorOk` position `c15NoOwn` (White Ke1; black Ke8, Pd2) the
    "move" a3–e8 from an empty square is judged king-safe, its mirror image in the mirrored position is
    not (kernel-evaluated) -/
example : MirrorOk c15NoOwn ∧
    (okVal (makeMove c15NoOwn ⟨Gen.A3, Gen.E8, 0, InvalidSq⟩)).map (·.2) = some true ∧
    (okVal (makeMove (mirror c15NoOwn) (mirrorMove ⟨Gen.A3, Gen.E8, 0, InvalidSq⟩))).map (·.2) = some false :=
  ⟨mirrorOk_of_B c15NoOwn_fact.1, c15NoOwn_fact.2.1, c15NoOwn_fact.2.2⟩

/-! ### 4. mobility -/

/-- **`countMoves` is colour-symmetric**: same count; panics on one side iff on the other (the mirrored
    direction lists are permutations of the original ones, sums do not depend on the order) -/
theorem countMoves_mirror {p : Position} (h : MirrorOk p) :
    okVal (countMoves (mirror p)) = okVal (countMoves p) := countMoves_okVal_mirror h

example : MirrorOk c15Witness ∧ okVal (countMoves c15Witness) = some 24 ∧
    okVal (countMoves (mirror c15Witness)) = some 24 :=
  ⟨c15Witness_ok, c15Witness_counts.1, c15Witness_counts.2.1⟩

/-! ### 5. material and piece-square tables -/

/-- **the cheap score is colour-symmetric**, literally and for every blend function (`PstOk`: 128-slot
    byte board, flags byte, lists and kings on board squares — implied by `MirrorOk`) -/
theorem pieceSquareScore_mirror (blend : Blend) {p : Position} (h : PstOk p) :
    pieceSquareScore blend (mirror p) = pieceSquareScore blend p := pieceSquareScore_mirror_pstOk blend h

theorem C15_cheap_mirror (blend : Blend) {p : Position} (h : MirrorOk p) :
    pieceSquareScore blend (mirror p) = pieceSquareScore blend p := pieceSquareScore_mirror_pstOk blend h.pstOk

example : PstOk c15Witness := c15Witness_ok.pstOk

/-! ### 6. mate test, turn flip, evaluation -/

theorem flipTurn_mirror {p : Position} (h : p.flags < 256) : mirror (flipTurn p) = flipTurn (mirror p) :=
  Mir.flipTurn_mirror h

theorem mirrorOk_flipTurn {p : Position} (h : MirrorOk p) : MirrorOk (flipTurn p) := h.flipTurn

example : c15Witness.flags < 256 ∧ MirrorOk c15Witness ∧ MirrorOk (flipTurn c15Witness) :=
  ⟨by decide, c15Witness_ok, c15Witness_ok.flipTurn⟩

theorem isCheckMate_mirror {p : Position} (h : MirrorOk p) :
    okVal (isCheckMate (mirror p)) = okVal (isCheckMate p) := isCheckMate_okVal_mirror h

/-- **lazy evaluation is colour-symmetric**: same window, same depth, every blend function -/
theorem lazyEvaluate_mirror (blend : Blend) {p : Position} (h : MirrorOk p) (depth alpha beta : Int) :
    okVal (lazyEvaluate blend (mirror p) depth alpha beta) = okVal (lazyEvaluate blend p depth alpha beta) :=
  lazyEvaluate_okVal_mirror blend h depth alpha beta

/-- non-vacuity: with the window (400, 500) the lazy shortcut is taken on both sides (−170) -/
example : MirrorOk c15Witness ∧ okVal (lazyEvaluate c15Blend c15Witness 3 400 500) = some (-170) ∧
    okVal (lazyEvaluate c15Blend (mirror c15Witness) 3 400 500) = some (-170) :=
  ⟨c15Witness_ok, c15Witness_lazy.1, c15Witness_lazy.2⟩

/-- **C15: the static evaluation is colour-symmetric**, for every blend function and every `MirrorOk`
    position: the mirror image evaluates to the same score from the mover's point of view, and panics
    iff the position does.
    (The literal `evaluate blend (mirror p) d = evaluate blend p d` is false in general — see the last
    example — because panic payloads name squares; it holds whenever `p` does not panic:
    `C15_evaluate_mirror_eq`.) -/
theorem C15_evaluate_mirror (blend : Blend) {p : Position} (h : MirrorOk p) (d : Int) :
    okVal (evaluate blend (mirror p) d) = okVal (evaluate blend p d) := evaluate_okVal_mirror blend h d

/-- the same without `okVal` -/
theorem C15_evaluate_mirror_iff (blend : Blend) {p : Position} (h : MirrorOk p) (d v : Int) :
    evaluate blend (mirror p) d = .ok v ↔ evaluate blend p d = .ok v :=
  okVal_eq_iff.1 (evaluate_okVal_mirror blend h d) v

/-- literal equation when the position evaluates without panic -/
theorem C15_evaluate_mirror_eq (blend : Blend) {p : Position} (h : MirrorOk p) (d : Int)
    (hok : ∃ v, evaluate blend p d = .ok v) : evaluate blend (mirror p) d = evaluate blend p d :=
  eq_of_okVal (evaluate_okVal_mirror blend h d) hok

theorem lazyEvaluate_mirror_eq (blend : Blend) {p : Position} (h : MirrorOk p) (depth alpha beta : Int)
    (hok : ∃ v, lazyEvaluate blend p depth alpha beta = .ok v) :
    lazyEvaluate blend (mirror p) depth alpha beta = lazyEvaluate blend p depth alpha beta :=
  eq_of_okVal (lazyEvaluate_okVal_mirror blend h depth alpha beta) hok

/-- non-vacuity on an asymmetric position (White Ke1 Ra1 Pa7 Pc2 with queenside castling right, black Kh6
    Rb8 Nf6 Pg7, White to move): `MirrorOk` holds, both sides evaluate (kernel-computed independently)
    to −190, with 24 own and 28 enemy moves -/
example : MirrorOk c15Witness ∧ okVal (evaluate c15Blend c15Witness 3) = some (-190) ∧
    okVal (evaluate c15Blend (mirror c15Witness) 3) = some (-190) ∧
    evaluate c15Blend (mirror c15Witness) 3 = evaluate c15Blend c15Witness 3 :=
  ⟨c15Witness_ok, c15Witness_eval, c15Witness_eval_mirror,
    C15_evaluate_mirror_eq c15Blend c15Witness_ok 3 ⟨-190, okVal_eq_some c15Witness_eval⟩⟩

/-! ### 7. well-formedness -/

/-- the shared position invariant implies `MirrorOk` -/
theorem mirrorOk_of_inv {p : Position} (h : Inv p) : MirrorOk p := MirrorOk.of_inv h

theorem mirror_involutive {p : Position} (h : MirrorOk p) : mirror (mirror p) = p := Mir.mirror_involutive h

/-- the colour flip preserves both notions of well-formedness -/
theorem mirrorOk_mirror {p : Position} (h : MirrorOk p) : MirrorOk (mirror p) := h.mirror

theorem inv_mirror {p : Position} (h : Inv p) : Inv (mirror p) := Mir.inv_mirror h

example : Inv (mirror startPosition) := inv_mirror inv_startPosition

/-- non-vacuity: the engine's initial position is `MirrorOk`; its mirror image is the same board and
    lists with Black to move -/
example : MirrorOk startPosition ∧ (mirror startPosition).board = startPosition.board ∧
    whiteTurn (mirror startPosition) = false ∧ mirror (mirror startPosition) = startPosition :=
  ⟨MirrorOk.of_inv inv_startPosition, mirror_start.2.2.1, mirror_start.2.2.2.1,
    Mir.mirror_involutive (MirrorOk.of_inv inv_startPosition)⟩

/-- why the headline is not a literal equation: a `MirrorOk` position with a white pawn on a8 panics in
    `countMoves` on `board[0x81]`, its mirror image (black pawn on a1) on `board[0xF1]` -/
example : MirrorOk c15BackPawn ∧ evaluate c15Blend c15BackPawn 3 = .error (.index "board" 129) ∧
    evaluate c15Blend (mirror c15BackPawn) 3 = .error (.index "board" 241) ∧
    evaluate c15Blend (mirror c15BackPawn) 3 ≠ evaluate c15Blend c15BackPawn 3 := by
  refine ⟨c15BackPawn_ok, errVal_eq c15BackPawn_err, errVal_eq c15BackPawn_err_mirror, ?_⟩
  rw [errVal_eq c15BackPawn_err, errVal_eq c15BackPawn_err_mirror]
  simp

end Magog.Props.C15
