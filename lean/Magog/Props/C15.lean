import Magog.Lemmas.Geometry
import Magog.Model.Eval

/-! Property C15 — static evaluation is colour-symmetric. -/

namespace Magog.Props.C15
open Magog Magog.Model Magog.Geo

/-- colour flip of a square: ranks reversed -/
def mirrorSq (s : Nat) : Nat := s ^^^ 0x70

def tablePairs : List (List Int × List Int) :=
  [(Gen.sqTablePawnsWhite, Gen.sqTablePawnsBlack), (Gen.sqTableKnightsWhite, Gen.sqTableKnightsBlack),
   (Gen.sqTableBishopsWhite, Gen.sqTableBishopsBlack), (Gen.sqTableRooksWhite, Gen.sqTableRooksBlack),
   (Gen.sqTableQueensWhite, Gen.sqTableQueensBlack), (Gen.sqTableKingMidgameWhite, Gen.sqTableKingMidgameBlack),
   (Gen.sqTableKingEndgameWhite, Gen.sqTableKingEndgameBlack)]

def pstMirrorCheck : Bool :=
  tablePairs.all fun (w, b) => w.length == 128 && b.length == 128 &&
    sq88.all fun s => w[s]? == b[mirrorSq s]?

set_option maxRecDepth 100000 in
theorem pstMirrorCheck_true : pstMirrorCheck = true := by decide +kernel

/-- **table symmetry** (on the tables regenerated from pieceSquareTables.go): every white table is the
    rank-mirrored black table, for all seven pairs and all 64 squares; all tables have 128 entries -/
theorem pst_mirror (w b : List Int) (hp : (w, b) ∈ tablePairs) (s : Nat) (hs : s ∈ sq88) :
    w.length = 128 ∧ b.length = 128 ∧ w[s]? = b[mirrorSq s]? := by
  have h := pstMirrorCheck_true
  simp only [pstMirrorCheck, List.all_eq_true, Bool.and_eq_true, beq_iff_eq] at h
  obtain ⟨⟨h1, h2⟩, h3⟩ := h (w, b) hp
  exact ⟨h1, h2, h3 s hs⟩

theorem mirrorSq_invol (s : Nat) (hs : s ∈ sq88) : mirrorSq (mirrorSq s) = s ∧ mirrorSq s ∈ sq88 := by
  have : ∀ s ∈ sq88, mirrorSq (mirrorSq s) = s ∧ mirrorSq s ∈ sq88 := by decide
  exact this s hs

end Magog.Props.C15
