import Magog.Lemmas.UciFrame
import Magog.Props.C17

/-! Property C16 at the command level — query commands never change the game position.

`Model.uciStep ops st line` (Magog/Model/Uci.lean) models `ParseInputLine` of engine/uci.go branch by branch over
arbitrary byte strings; `UciState.pos` is the global `posGen` (its top position; `none` = nil). The theorems below
hold for EVERY byte string `line`, every state and every record of engine operations `ops` (nothing is assumed
about `Evaluate`, `Perftd`, `PerftDivTactical`, `String`, `strings.TrimSpace`, `strings.ToLower`): the operations
receive the position by value and the interpreter stores a position in one place only, `doPosition`.

What this does and does not cover: the *interpreter* never assigns `posGen` outside `position`. That the engine
operations called by the queries (`perft`, `tperft`, `eval`, the search started by `go`) leave the position they
work on in place as they found it is the push/pop discipline of Props/C16.lean. -/

namespace Magog.Props.C16Uci
open Magog Magog.Model Magog.UciFrame Magog.FenSpec

/-- **C16, one line.** A line that is not a `position` command — `go` in all its forms, `perft`, `tperft`, `eval`,
    `tostr`, `isready`, `setoption`, `stop`, `uci`, `help`, `quit`, garbage — leaves `posGen` as it was. -/
theorem C16_queries_keep_position {ops : EngineOps} {st st' : UciState} {line : Bytes} {out : List UOut}
    (h : uciStep ops st line = .ok (st', out)) (hnp : hasPrefix line Gen.uPosition_bytes = false) :
    st'.pos = st.pos :=
  (uciStep_queryFrame hnp h).pos

/-- non-vacuity: `go depth 3`, `perft 2`, `eval`, `tostr`, `setoption …`, `stop`, `isready`, garbage bytes on the
    start position with the model's engine operations: each runs (`.ok`) and is not a `position` line -/
example (blend : Blend) (tostr : Position → M Bytes) :
    let ops := modelOps blend tostr
    let st : UciState := ⟨some startPosition, false, 1000000, false, Killers.empty⟩
    (∃ st' out, uciStep ops st (strBytes "go depth 3") = .ok (st', out) ∧
      hasPrefix (strBytes "go depth 3") Gen.uPosition_bytes = false) ∧
    (∃ st' out, uciStep ops st (strBytes "setoption name currmoveLogInterval value 5000") = .ok (st', out) ∧
      st'.logInterval = 5000 ∧
      hasPrefix (strBytes "setoption name currmoveLogInterval value 5000") Gen.uPosition_bytes = false) ∧
    (∃ st' out, uciStep ops st [255, 0, 300, 32, 9] = .ok (st', out) ∧
      hasPrefix [255, 0, 300, 32, 9] Gen.uPosition_bytes = false) := by
  intro ops st
  refine ⟨?_, ?_, ?_⟩
  · obtain ⟨r, hr⟩ : ∃ r, uciStep ops st (strBytes "go depth 3") = .ok r := by
      rw [uciStep_go (by decide +kernel)]
      obtain ⟨g, hg⟩ := UciTotal.goParams_total (!whiteTurn startPosition)
        (ops.str.trimSpace (trimPrefix (strBytes "go depth 3") Gen.uGo_bytes))
      unfold doGo
      simp only [st, hg]
      cases g <;> exact ⟨_, rfl⟩
    exact ⟨r.1, r.2, hr, by decide +kernel⟩
  · have hb : strBytes "setoption name currmoveLogInterval value 5000" =
        [115, 101, 116, 111, 112, 116, 105, 111, 110, 32, 110, 97, 109, 101, 32, 99, 117, 114, 114, 109, 111, 118, 101,
         76, 111, 103, 73, 110, 116, 101, 114, 118, 97, 108, 32, 118, 97, 108, 117, 101, 32, 53, 48, 48, 48] := by
      decide +kernel
    rw [hb]
    exact ⟨⟨some startPosition, false, 5000, false, Killers.empty⟩, [], rfl, rfl, by decide⟩
  · exact ⟨st, [], rfl, by decide⟩

/-- **C16, the only writer.** If a line changed `posGen`, it was a `position` command. -/
theorem C16_position_is_the_only_writer {ops : EngineOps} {st st' : UciState} {line : Bytes} {out : List UOut}
    (h : uciStep ops st line = .ok (st', out)) (hne : st'.pos ≠ st.pos) :
    hasPrefix line Gen.uPosition_bytes = true := by
  cases hp : hasPrefix line Gen.uPosition_bytes with
  | true => rfl
  | false => exact absurd (C16_queries_keep_position h hp) hne

/-- non-vacuity: `position startpos` in the state of a fresh process does change `posGen` -/
example (blend : Blend) (tostr : Position → M Bytes) :
    ∃ st' out, uciStep (modelOps blend tostr) UciState.init (strBytes "position startpos") = .ok (st', out) ∧
      st'.pos ≠ UciState.init.pos := by
  have hb : strBytes "position startpos" =
      [112, 111, 115, 105, 116, 105, 111, 110, 32, 115, 116, 97, 114, 116, 112, 111, 115] := by decide +kernel
  rw [hb]
  exact ⟨⟨some startPosition, false, Gen.currmoveLogIntervalDefault, false, Killers.empty⟩, [], rfl,
    fun h => by cases h⟩

/-- **C16, sessions.** Any sequence of lines none of which is a `position` command leaves `posGen` as it was
    (whatever they print, whatever else they change). -/
theorem C16_session_keeps_position {ops : EngineOps} {st st' : UciState} {lines : List Bytes}
    {outs : List (List UOut)} (h : uciRun ops st lines = .ok (st', outs))
    (hnp : ∀ l ∈ lines, hasPrefix l Gen.uPosition_bytes = false) : st'.pos = st.pos :=
  uciRun_pos lines hnp h

/-- non-vacuity: a session of queries on the start position (stub evaluation / perft so that the kernel can run
    it; the string functions and the dispatcher are the real ones) -/
example :
    let ops : EngineOps := Magog.Props.C17.demoOps
    let lines := [strBytes "isready", strBytes "go depth 3", strBytes "eval", strBytes "perft 2", strBytes "tperft 1",
      strBytes "go movetime 100", strBytes "stop", strBytes "tostr", strBytes "uci", strBytes "help", [1, 2, 3],
      strBytes "setoption name currmoveLogInterval value 5000", strBytes "go", strBytes "quit"]
    (∀ l ∈ lines, hasPrefix l Gen.uPosition_bytes = false) ∧
    ∃ r, uciRun ops ⟨some startPosition, false, 1000000, false, Killers.empty⟩ lines = .ok r ∧
      r.2.length = 14 ∧ r.1.logInterval = 5000 ∧ r.1.quit = true := by
  intro ops lines
  refine ⟨by decide +kernel, ?_⟩
  have h : (match uciRun ops ⟨some startPosition, false, 1000000, false, Killers.empty⟩ lines with
      | .ok r => decide (r.2.length = 14 ∧ r.1.logInterval = 5000 ∧ r.1.quit = true)
      | .error _ => false) = true := by decide +kernel
  cases hr : uciRun ops ⟨some startPosition, false, 1000000, false, Killers.empty⟩ lines with
  | error e => rw [hr] at h; cases h
  | ok r => rw [hr] at h; exact ⟨r, rfl, by simpa using h⟩

/-- **C16, the frame of `go`.** A line with the prefix `go` writes at most `search` (allocated) and
    `killerMoves` (cleared), exactly as `doGo` does:
    * without a position it prints `No position set to start search from` and changes nothing;
    * with a position, when the token scanner `return`s (missing / malformed value): the search object exists
      afterwards, nothing else changed, nothing is printed or started;
    * with a position, when a search is started: the search object exists, the killer table is cleared, the
      one output event is `searchStarted millis depth`.
    In every case `posGen`, `currmoveLogInterval` and `Quit` are untouched. -/
theorem C16_go_keeps_everything_but_search {ops : EngineOps} {st st' : UciState} {line : Bytes} {out : List UOut}
    (hgo : hasPrefix line Gen.uGo_bytes = true) (h : uciStep ops st line = .ok (st', out)) :
    st'.pos = st.pos ∧ st'.logInterval = st.logInterval ∧ st'.quit = st.quit ∧
    ((st.pos = none ∧ st' = st ∧ out = [.noPositionGo]) ∨
     (st.pos ≠ none ∧ st' = { st with searchAllocated := true } ∧ out = []) ∨
     (st.pos ≠ none ∧ ∃ millis depth,
        st' = { st with searchAllocated := true, killers := Killers.empty } ∧ out = [.searchStarted millis depth])) := by
  rw [uciStep_go hgo] at h
  have hf := doGo_frame h
  refine ⟨hf.pos, hf.logInterval, hf.quit, ?_⟩
  cases hf with
  | noPosition hp => exact .inl ⟨hp, rfl, rfl⟩
  | rejected p hp => exact .inr (.inl ⟨by rw [hp]; exact Option.some_ne_none p, rfl, rfl⟩)
  | started p hp m d => exact .inr (.inr ⟨by rw [hp]; exact Option.some_ne_none p, m, d, rfl, rfl⟩)

/-- non-vacuity, all three cases: `go depth 3` without a position; `go depth` (value missing) and `go depth 3`
    with the start position and a non-empty killer table -/
example (ops : EngineOps) (hts : ops.str.trimSpace = trimSpace) (k : Killers) :
    hasPrefix (strBytes "go depth 3") Gen.uGo_bytes = true ∧ hasPrefix (strBytes "go depth") Gen.uGo_bytes = true ∧
    uciStep ops ⟨none, false, 7, false, k⟩ (strBytes "go depth 3") = .ok (⟨none, false, 7, false, k⟩, [.noPositionGo]) ∧
    uciStep ops ⟨some startPosition, false, 7, false, k⟩ (strBytes "go depth") =
      .ok (⟨some startPosition, true, 7, false, k⟩, []) ∧
    ∃ millis, uciStep ops ⟨some startPosition, false, 7, false, k⟩ (strBytes "go depth 3") =
      .ok (⟨some startPosition, true, 7, false, Killers.empty⟩, [.searchStarted millis 3]) := by
  have h3 : trimSpace (trimPrefix (strBytes "go depth 3") Gen.uGo_bytes) = strBytes "depth 3" := by decide +kernel
  have h0 : trimSpace (trimPrefix (strBytes "go depth") Gen.uGo_bytes) = strBytes "depth" := by decide +kernel
  refine ⟨by decide +kernel, by decide +kernel, ?_, ?_, ?_⟩
  · rw [uciStep_go (by decide +kernel)]; rfl
  · rw [uciStep_go (by decide +kernel), hts, h0]
    have : goParams (!whiteTurn startPosition) (strBytes "depth") = .ok none := by decide +kernel
    unfold doGo
    simp only [this]
    rfl
  · rw [uciStep_go (by decide +kernel), hts, h3]
    have : (goParams (!whiteTurn startPosition) (strBytes "depth 3")).map (fun r => r.map (·.depth)) =
        .ok (some 3) := by decide +kernel
    unfold doGo
    cases hg : goParams (!whiteTurn startPosition) (strBytes "depth 3") with
    | error e => rw [hg] at this; cases this
    | ok r =>
      rw [hg] at this
      cases r with
      | none => cases this
      | some g =>
        have hd : g.depth = 3 := by
          simp only [Except.map, Option.map] at this
          injection this with this
          injection this
        exact ⟨g.millis, by rw [← hd]; simp only [hg]; rfl⟩

end Magog.Props.C16Uci
