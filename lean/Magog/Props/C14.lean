import Magog.Model.Eval
import Magog.Model.Time

/-! Property C14 — theorems (see DESIGN §5). -/

namespace Magog.Props.C14

end Magog.Props.C14
