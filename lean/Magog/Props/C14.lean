import Magog.Lemmas.RowsIndep
import Magog.Lemmas.PvWitness

/-! Property C14 — stale buffers: what earlier searches left in the PV table (`bestLineAtDepth`, kept across
    `go` commands) does not influence a search.

`Model.iterDeep` takes the table `rows` and the length `len0` of the row-0 slice header as left behind by the
previous search. `s.out` lists the output events most recent first. -/

namespace Magog.Props.C14
open Magog Magog.Model

/-- **The output of a search does not depend on the contents of the PV table it starts with**, nor on the stale
    length of the row-0 header: a run on a table `rows'` of the same shape (same number of rows, same row sizes;
    arbitrary contents) with an arbitrary `len0'` succeeds as well and prints exactly the same events; moreover
    the final states agree in every component except the table itself (same killer table, node count, stored best
    line, consultation count, …).

    For every oracle `env`, killer table, depth limit. Hypotheses as for `C10_pv_legal`: `sortFn` only permutes;
    `G d` is a family of position sets closed under generated legal moves containing the root at depth 0; static and
    terminal scores on `G d` are strictly between `−∞` and `+∞` for the depths at which the table has a row `d + 1`
    (`EvalFinite`). Without the last hypothesis the statement is false: a depth-1 node whose static evaluation is
    `≤ −∞` returns `α = −∞` without writing row 1, the root sees `+∞ > α` and copies — and prints — the stale row. -/
theorem C14_rows_indep {env : Env} {G : Nat → Position → Prop} {qfuel : Nat} {p : Position} {maxDepth : Nat}
    {killers : Killers} {rows rows' : Array (Array Move)} {len0 len0' : Nat} {s : SS}
    (hsz : rows.size = rows'.size) (hrow : ∀ i : Nat, (rows[i]?).map (·.size) = (rows'[i]?).map (·.size))
    (h : iterDeep env qfuel p maxDepth killers rows len0 = .ok s)
    (hsort : Magog.Lemmas.AlphaBeta.PermSort env) (hp : G 0 p) (hcl : GenClosed G)
    (hfin : EvalFinite env G rows.size) :
    ∃ s', iterDeep env qfuel p maxDepth killers rows' len0' = .ok s' ∧ s'.out = s.out ∧
      s' = { s with rows := s'.rows } := by
  have H : PvHyps env G rows.size := ⟨PvWitness.sortSound_of_perm hsort, hcl, hfin⟩
  obtain ⟨rw', h'⟩ := iterDeep_sim (len0' := len0') H hp h hsz hrow
  exact ⟨s.setRows rw', h', rfl, rfl⟩

open SearchExamples PvWitness in
/-- non-vacuity: Ka1 vs Kh8, `go depth 2`, once on a fresh 4-row table with header length 4 and once on a table of
    the same shape filled with junk moves and header length 3 -/
example : ∃ s, iterDeep quietEnv 1 kkPos 2 Killers.empty (newRows 4) 4 = .ok s ∧
    (newRows 4).size = junkRows.size ∧
    (∀ i : Nat, ((newRows 4)[i]?).map (·.size) = (junkRows[i]?).map (·.size)) ∧
    Magog.Lemmas.AlphaBeta.PermSort quietEnv ∧ Reach kkPos 2 0 kkPos ∧ GenClosed (Reach kkPos 2) ∧
    EvalFinite quietEnv (Reach kkPos 2) (newRows 4).size ∧
    ∃ s', iterDeep quietEnv 1 kkPos 2 Killers.empty junkRows 3 = .ok s' ∧ s'.out = s.out := by
  obtain ⟨s, _, _, _, _, _, _, hs, _, _⟩ := hasPv2_elim pvRun_ok
  obtain ⟨s', hs', ho, _⟩ := C14_rows_indep (len0' := 3) junkRows_shape.1 junkRows_shape.2 hs quietEnv_perm
    (reach_root _ _) (reach_closed _ _) kk_evalFinite
  exact ⟨s, hs, junkRows_shape.1, junkRows_shape.2, quietEnv_perm, reach_root _ _, reach_closed _ _,
    kk_evalFinite, s', hs', ho⟩

open SearchExamples PvWitness in
/-- sharpness: the hypothesis `EvalFinite` cannot be dropped. Under `hugeEnv` (a blend that makes one static
    evaluation infinite) the same search on the fresh table and on the junk table prints different lines. -/
example : ∃ s s', iterDeep hugeEnv 1 kkPos 1 Killers.empty (newRows 4) 4 = .ok s ∧
    iterDeep hugeEnv 1 kkPos 1 Killers.empty junkRows 3 = .ok s' ∧ s.out ≠ s'.out :=
  outsDiffer_elim hugeRun_differ

end Magog.Props.C14
