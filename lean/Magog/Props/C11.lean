import Magog.Model.Eval
import Magog.Model.Time

/-! Property C11 — theorems (see DESIGN §5). -/

namespace Magog.Props.C11

end Magog.Props.C11
