import Magog.Lemmas.SearchIter
import Magog.Lemmas.SearchExamples
import Magog.Lemmas.SearchLocal

/-! Property C11 — an interrupted iteration never leaks into the move played.

Partial-correctness statements about `Model.iterDeep` / `Model.deepenLoop` (hypothesis `… = .ok s`), valid for
every `env` (any oracle answers, any `sortFn`, `blend`, `logInterval`), killer table and initial `rows` / `len0`.
`s.out` lists the output events most recent first; `infoDepth d score nodes pv` is the "iteration `d` completed"
line, which `deepenLoop` prints only after the post-iteration checks (`timeUp = false`, `interrupted = false`)
passed and the root line was copied to `bestLine` (`s.cand`). -/

namespace Magog.Props.C11
open Magog Magog.Model

/-- The move played is the head of the line copied after the deepest iteration that was *accepted*:
    with `s.out = bestmove m :: infoPv best done nodes pv :: rest'`
    * (i) `1 ≤ done ≤ max 1 maxDepth`;
    * (ii) if `done ≥ 2`, the completion event `infoDepth done best nodes' pv` of iteration `done` (same score, same
      line) occurs in `rest'`, and no `infoDepth d …` with `d > done` occurs anywhere in `s.out`;
    * (iii) if `done = 1` there is no `infoDepth` event at all;
    * moreover `pv = s.cand`, and the depths of all `infoDepth` events, in chronological order, are exactly
      `2, 3, …, done` — so a later, interrupted iteration contributes no completion event (by `C10`/the frame lemma it
      contributes only `infoPv` / `currmove` lines and never changes `s.cand`). -/
theorem C11_no_leak {env : Env} {qfuel : Nat} {p : Position} {maxDepth : Nat} {killers : Killers}
    {rows : Array (Array Move)} {len0 : Nat} {s : SS} {m : Move} {best : Int} {done nodes : Nat} {pv : List Move}
    {rest' : List Event}
    (h : iterDeep env qfuel p maxDepth killers rows len0 = .ok s)
    (hout : s.out = .bestmove m :: .infoPv best done nodes pv :: rest') :
    (1 ≤ done ∧ done ≤ max 1 maxDepth) ∧
    (2 ≤ done → (∃ nodes', Event.infoDepth done best nodes' pv ∈ rest') ∧
      ∀ d sc n pv', Event.infoDepth d sc n pv' ∈ s.out → d ≤ done) ∧
    (done = 1 → ∀ d sc n pv', Event.infoDepth d sc n pv' ∉ s.out) ∧
    pv = s.cand ∧
    (depthsOf s.out).reverse = List.range' 2 (done - 1) ∧
    (∀ e ∈ rest', e.isIterEvent = true) := by
  obtain ⟨score, one, l, s1, added1, _, _, p1, hc⟩ := iterDeep_shape h
  rcases hc with ⟨_, hout', _⟩ | ⟨_, best', done', nodes', added, m', tl, hcand, hout', p2, r⟩
  · rw [hout'] at hout; cases hout
  rw [hout'] at hout
  simp only [List.cons.injEq, Event.bestmove.injEq, Event.infoPv.injEq] at hout
  obtain ⟨rfl, ⟨rfl, rfl, rfl, rfl⟩, rfl⟩ := hout
  have hd1 : depthsOf added1 = [] := depthsOf_searchInfo fun e he => (p1 e he).1
  have hdep : depthsOf s.out = depthsOf added := by
    rw [hout']
    show depthsOf ([Event.bestmove m', Event.infoPv best' done' nodes' (m' :: tl)] ++ (added ++ added1)) = _
    rw [depthsOf_append, depthsOf_append, hd1, List.append_nil]; rfl
  have hseq : (depthsOf s.out).reverse = List.range' 2 (done' - 1) := by
    rw [hdep]
    rcases r with ⟨h0, rfl, _, _⟩ | ⟨_, _, hr, _⟩
    · rw [h0]; rfl
    · exact hr
  have hbound : ∀ d sc n pv', Event.infoDepth d sc n pv' ∈ s.out → 2 ≤ d ∧ d ≤ done' := by
    intro d sc n pv' he
    have : d ∈ (depthsOf s.out).reverse := List.mem_reverse.2 (mem_depthsOf.2 ⟨sc, n, pv', he⟩)
    rw [hseq, List.mem_range'_1] at this
    omega
  have hiter : ∀ e ∈ added ++ added1, e.isIterEvent = true := by
    intro e he
    rcases List.mem_append.1 he with he | he
    · exact (p2 e he).1
    · exact isSearchInfo_isIterEvent (p1 e he).1
  refine ⟨?_, ?_, ?_, hcand.symm, hseq, hiter⟩
  · rcases r with ⟨_, rfl, _, _⟩ | ⟨h2, hmax, _, _⟩
    · exact ⟨Nat.le_refl _, Nat.le_max_left _ _⟩
    · exact ⟨by omega, Nat.le_trans hmax (Nat.le_max_right _ _)⟩
  · intro h2
    refine ⟨?_, fun d sc n pv' he => (hbound d sc n pv' he).2⟩
    rcases r with ⟨_, rfl, _, _⟩ | ⟨_, _, _, n', hmem⟩
    · omega
    · exact ⟨n', List.mem_append_left _ hmem⟩
  · intro h1 d sc n pv' he
    have := hbound d sc n pv' he
    omega

open SearchExamples in
/-- non-vacuity: Ka1 vs Kh8, `go depth 3` with the clock running out in the middle of iteration 3 (consultation
    40): the run (kernel-evaluated) succeeds and reports `done = 2 < 3`, although iteration 3 had already printed
    pv lines -/
example : ∃ s m best nodes pv rest', iterDeep timedEnv 3 kkPos 3 Killers.empty (newRows 6) 6 = .ok s ∧
    s.out = .bestmove m :: .infoPv best 2 nodes pv :: rest' := by
  obtain ⟨s, m, best, nodes, pv, rest, hs, ho, _⟩ := endsWithBest_elim timed_run3
  exact ⟨s, m, best, nodes, pv, rest, hs, ho⟩

/-- An iteration of `deepenLoop` after which the clock has run out (`env.timeUp` answers `true` at the
    post-iteration consultation, number `s1.tick`) or the interrupt flag is set is discarded: the loop returns the
    previous `(best, done)`; the stored best line is unchanged and the iteration contributed only
    `infoPv` / `currmove` events. -/
theorem C11_interrupted_iteration_discarded {env : Env} {qfuel : Nat} {p : Position} {maxDepth n cur : Nat}
    {best : Int} {done len0 : Nat} {s : SS} {score : Int} {one : Bool} {len1 : Nat} {s1 : SS}
    (hcur : cur ≤ maxDepth)
    (hsab : startAlphaBeta env qfuel p cur len0 s = .ok (score, one, len1, s1))
    (hstop : env.timeUp s1.tick = true ∨ s1.interrupted = true) :
    ∃ s', deepenLoop env qfuel p maxDepth (n + 1) cur best done len0 s = .ok (best, done, s') ∧
      s'.cand = s.cand ∧
      ∃ added, s'.out = added ++ s.out ∧ ∀ e ∈ added, e.isSearchInfo = true := by
  refine ⟨s1.consult, deepenLoop_discard hcur hsab hstop, ?_, ?_⟩
  · exact (startAlphaBeta_searchFrame hsab).cand
  · obtain ⟨added, e, hp⟩ := (startAlphaBeta_searchFrame hsab).out
    exact ⟨added, e, fun e he => (hp e he).1⟩

/-- Conversely, whatever `deepenLoop` does: if it returns a `done'` different from the `done` it was started with,
    then iteration `done'` was accepted (its completion event was printed with the returned score and the stored
    line); otherwise score and stored line are the ones it was started with. -/
theorem C11_deepenLoop_result {env : Env} {qfuel : Nat} {p : Position} {maxDepth n cur : Nat}
    {best : Int} {done len0 : Nat} {s : SS} {best' : Int} {done' : Nat} {s' : SS}
    (h : deepenLoop env qfuel p maxDepth n cur best done len0 s = .ok (best', done', s')) :
    ∃ added, s'.out = added ++ s.out ∧
      ((best' = best ∧ done' = done ∧ s'.cand = s.cand ∧ depthsOf added = []) ∨
       (cur ≤ done' ∧ done' ≤ maxDepth ∧ ∃ nodes', Event.infoDepth done' best' nodes' s'.cand ∈ added)) := by
  obtain ⟨added, e, _, _, r⟩ := deepenLoop_spec _ _ _ _ _ _ _ _ _ _ _ _ _ h
  refine ⟨added, e, ?_⟩
  rcases r with ⟨h0, hb, hd, hc⟩ | ⟨h1, h2, _, h4⟩
  · exact .inl ⟨hb, hd, hc, h0⟩
  · exact .inr ⟨h1, h2, h4⟩

open SearchExamples in
/-- non-vacuity: iteration 2 on Ka1 vs Kh8 from the fresh state with the clock running out at consultation 5
    (kernel-evaluated) satisfies the hypotheses -/
example : ∃ score one len1 s1, (2 ≤ 2) ∧
    startAlphaBeta earlyEnv 3 kkPos 2 6 freshSS = .ok (score, one, len1, s1) ∧
    (earlyEnv.timeUp s1.tick = true ∨ s1.interrupted = true) := by
  obtain ⟨score, one, len1, s1, h1, h2⟩ := stoppedIteration_elim
  exact ⟨score, one, len1, s1, Nat.le_refl _, h1, h2⟩

/-- **Oracle locality.** A successful search only depends on the oracle answers at the consultations it actually
    made: if `env'` has the same static parameters (`blend`, `sortFn`, `logInterval`, `lazy`, `stackCap`) and its
    clock, stop channel and print gate agree with `env`'s at every consultation number `t < s.tick`
    (`EnvAgree env env' 0 s.tick`), the run under `env'` coincides with the run under `env`. -/
theorem C11_oracle_locality {env env' : Env} {qfuel : Nat} {p : Position} {maxDepth : Nat} {killers : Killers}
    {rows : Array (Array Move)} {len0 : Nat} {s : SS}
    (h : iterDeep env qfuel p maxDepth killers rows len0 = .ok s) (ag : EnvAgree env env' 0 s.tick) :
    iterDeep env' qfuel p maxDepth killers rows len0 = .ok s :=
  iterDeep_local h ag

open SearchExamples in
/-- non-vacuity: `timedEnv'` answers like `timedEnv` below consultation 100 and differently afterwards; the
    kernel-evaluated run under `timedEnv` makes at most 100 consultations -/
example : ∃ s, iterDeep timedEnv 3 kkPos 3 Killers.empty (newRows 6) 6 = .ok s ∧
    EnvAgree timedEnv timedEnv' 0 s.tick := by
  obtain ⟨s, _, _, _, _, _, hs, _, hb⟩ := endsWithBest_elim timed_run3
  refine ⟨s, hs, ⟨rfl, rfl, rfl, rfl, rfl, ?_, ?_, fun _ _ _ => rfl⟩⟩
  · intro t _ ht
    have : t < 100 := by omega
    simp [timedEnv, timedEnv', exEnv, this]
  · intro t _ ht
    have : ¬ t ≥ 100 := by omega
    simp [timedEnv, timedEnv', exEnv, this]

/-- **Prefix property.** If the search with limit `maxDepth` reports `done = D` (its move `m` comes from accepted
    iteration `D`), then the search with limit `D` under the same oracle succeeds with a state `sD` that plays the same
    move `m` with the same score and line, after no more consultations (`sD.tick ≤ s.tick`). If moreover the oracle
    stayed quiet through accepted iteration `D` (no timeout, no stop request at any consultation `t < sD.tick`),
    then the run with `maxDepth = D` under the quiet oracle `env.quieted` ends in exactly the same state `sD` — in
    particular it plays the same move. -/
theorem C11_prefix {env : Env} {qfuel : Nat} {p : Position} {maxDepth : Nat} {killers : Killers}
    {rows : Array (Array Move)} {len0 : Nat} {s : SS} {m : Move} {best : Int} {D nodes : Nat} {pv : List Move}
    {rest : List Event}
    (h : iterDeep env qfuel p maxDepth killers rows len0 = .ok s)
    (hout : s.out = .bestmove m :: .infoPv best D nodes pv :: rest) :
    ∃ sD nodesD restD, iterDeep env qfuel p D killers rows len0 = .ok sD ∧
      sD.out = .bestmove m :: .infoPv best D nodesD pv :: restD ∧ sD.tick ≤ s.tick ∧
      ((∀ t, t < sD.tick → env.timeUp t = false ∧ env.stopAt t = false) →
        iterDeep env.quieted qfuel p D killers rows len0 = .ok sD) := by
  obtain ⟨sD, nodesD, restD, hD, hoD, htD⟩ := iterDeep_truncate h hout
  exact ⟨sD, nodesD, restD, hD, hoD, htD, fun hq => iterDeep_local hD (envAgree_quieted hq)⟩

/-- With a monotone clock (once run out, it stays run out) the clock half of the quietness hypothesis of
    `C11_prefix` is automatic for `D ≥ 2`: iteration `D` was accepted, so the clock had not run out at its acceptance
    check, which is the last consultation of the depth-`D` run. Only the stop channel has to be assumed empty. -/
theorem C11_prefix_monotone {env : Env} {qfuel : Nat} {p : Position} {maxDepth : Nat} {killers : Killers}
    {rows : Array (Array Move)} {len0 : Nat} {s : SS} {m : Move} {best : Int} {D nodes : Nat} {pv : List Move}
    {rest : List Event}
    (hmono : ∀ a b, a ≤ b → env.timeUp a = true → env.timeUp b = true) (hD2 : 2 ≤ D)
    (h : iterDeep env qfuel p maxDepth killers rows len0 = .ok s)
    (hout : s.out = .bestmove m :: .infoPv best D nodes pv :: rest) :
    ∃ sD nodesD restD, iterDeep env qfuel p D killers rows len0 = .ok sD ∧
      sD.out = .bestmove m :: .infoPv best D nodesD pv :: restD ∧ sD.tick ≤ s.tick ∧
      ((∀ t, t < sD.tick → env.stopAt t = false) →
        iterDeep env.quieted qfuel p D killers rows len0 = .ok sD) := by
  obtain ⟨sD, nodesD, restD, hD, hoD, htD, hq⟩ := C11_prefix h hout
  refine ⟨sD, nodesD, restD, hD, hoD, htD, fun hstop => hq fun t ht => ⟨?_, hstop t ht⟩⟩
  have hlast := iterDeep_last_check hD hoD hD2
  cases htu : env.timeUp t with
  | false => rfl
  | true =>
    have := hmono t (sD.tick - 1) (by omega) htu
    rw [hlast] at this
    cases this

open SearchExamples in
/-- non-vacuity: the run Ka1 vs Kh8, `go depth 3` under `timedEnv` (clock runs out at consultation 40, monotone)
    reports `D = 2`; the depth-2 run under `timedEnv` makes at most 40 consultations, all of them quiet -/
example : (∀ a b, a ≤ b → timedEnv.timeUp a = true → timedEnv.timeUp b = true) ∧
    (∃ s m best nodes pv rest', iterDeep timedEnv 3 kkPos 3 Killers.empty (newRows 6) 6 = .ok s ∧
      s.out = .bestmove m :: .infoPv best 2 nodes pv :: rest') ∧
    (∃ sD, iterDeep timedEnv 3 kkPos 2 Killers.empty (newRows 6) 6 = .ok sD ∧
      ∀ t, t < sD.tick → timedEnv.timeUp t = false ∧ timedEnv.stopAt t = false) := by
  refine ⟨?_, ?_, ?_⟩
  · intro a b hab ha
    simp only [timedEnv, exEnv, decide_eq_true_eq] at ha ⊢
    omega
  · obtain ⟨s, m, best, nodes, pv, rest, hs, ho, _⟩ := endsWithBest_elim timed_run3
    exact ⟨s, m, best, nodes, pv, rest, hs, ho⟩
  · obtain ⟨sD, _, _, _, _, _, hs, _, hb⟩ := endsWithBest_elim timed_run2
    refine ⟨sD, hs, fun t ht => ⟨?_, rfl⟩⟩
    have : ¬ t ≥ 40 := by omega
    simp [timedEnv, exEnv, this]

end Magog.Props.C11
