import Magog.Model.Eval
import Magog.Model.Time

/-! Property C08 — theorems (see DESIGN §5). -/

namespace Magog.Props.C08

end Magog.Props.C08
