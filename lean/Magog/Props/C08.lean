import Magog.Lemmas.FenCount
import Magog.Lemmas.FenFaithful
import Magog.Spec.FenRoundTrip

/-! Property C08 — FEN loading is total (error, not crash) and sound.

`Model.parseFen : Bytes → M (Except FenError Position)` models `NewPositionFromFen` (engine/fen.go) over
arbitrary byte strings (`Bytes = List Nat`, also values > 255). The outer `M = Except Panic` layer is a Go
run-time panic, the inner `Except FenError` the engine's orderly rejection.

* `fen_total`: for every byte string the loader returns normally (accept or reject) — no panic.
* `fen_sound`: an accepted position satisfies `FenSpec.FenInv` (board size, list caps, every listed square
  holds a man of the right colour and class, exactly one king each and the king squares point at them,
  no pawn on a back rank, off-board slots empty, castling flags consistent, en-passant square consistent,
  ply in range without int16 wrap and of the right parity).
* `fen_sound_lists`: the converse direction `FenSpec.FenLists` (lists complete and duplicate-free, only the
  twelve piece codes on the board).
* `fen_faithful`: the accepted position is the one the six input fields denote (`FenSpec.FenFaithful`).
* `fen_counts`, `fen_rejects_unrepresentable`: what cannot be represented is not accepted (board counts).
* `fen_oppSafe`: in an accepted position the side NOT to move is not in check (`MM.OppSafe`, Magog/Spec/MakeMove.lean).
  This is the loader's `isOpponentKingUnderCheck` test, added to the engine after the proofs of C17 / C18 had found
  that `4k3/8/8/8/8/8/8/4RK2 w - - 0 1` was accepted and `perft 3` on it panicked (capture of the king). The new
  `isUnderCheck` call is itself covered by `fen_total`: at that point the piece lists and the board agree, so it
  cannot panic (`FenLemmas.oppCheck_total`).
* concrete `example`s by kernel evaluation: acceptance of the start position, orderly rejections, and
  round trips against the independent writer `Spec.toFen`. The GENERAL round-trip theorem against
  `Spec.toFen` is in `Magog/Props/C08RoundTrip.lean` (`fen_roundtrip`, `fen_roundtrip_string`).

The definitions `FenInv`, `FenLists`, `FenFaithful`, `expandRank`, `strBytes`, `countCodes`, `accepted`,
`rejectedWith` are in `Magog/Spec/FenInv.lean`, `roundTrips` in `Magog/Spec/FenRoundTrip.lean`; the proofs in
`Magog/Lemmas/Fen*.lean` (FenPlace → FenInvariant → Fen → FenCount / FenFaithful). -/

namespace Magog.Props.C08
open Magog Magog.Model Magog.FenSpec Magog.FenLemmas

/-- The loader is total: on EVERY byte string it returns normally (accepts or rejects); it never panics
    (no index out of range on the board, no overflow of the fixed-size piece / pawn lists). -/
theorem fen_total : ∀ s : Bytes, ∃ r, parseFen s = .ok r := by
  intro s
  obtain ⟨r, hr, _⟩ := parseFen_spec s
  exact ⟨r, hr⟩

/-- Whatever the loader accepts satisfies the position invariant `FenInv`. -/
theorem fen_sound {s : Bytes} {p : Position} (h : parseFen s = .ok (.ok p)) : FenInv p := by
  obtain ⟨r, hr, hspec⟩ := parseFen_spec s
  rw [h] at hr
  simp only [Except.ok.injEq] at hr
  exact (hspec p hr.symm).1

/-- Converse direction: the piece lists of an accepted position are complete and duplicate-free and the
    board holds nothing but the twelve piece codes. -/
theorem fen_sound_lists {s : Bytes} {p : Position} (h : parseFen s = .ok (.ok p)) : FenLists p := by
  obtain ⟨r, hr, hspec⟩ := parseFen_spec s
  rw [h] at hr
  simp only [Except.ok.injEq] at hr
  exact (hspec p hr.symm).2.1

/-- The accepted position is the one the input denotes (`FenSpec.FenFaithful`): six fields, eight rank
    strings; the board holds on every one of the 64 squares exactly the code the placement field denotes
    (`expandRank`); side to move, the four castling flags, the en-passant square and the ply are the ones
    the other fields denote. Together with `fen_sound` (off-board slots empty) this determines the whole
    accepted position from the input. -/
theorem fen_faithful {s : Bytes} {p : Position} (h : parseFen s = .ok (.ok p)) : FenFaithful s p :=
  faithful_of_spec s p h

/-- In an accepted position the list lengths ARE the numbers of such men on the board. -/
theorem fen_counts {s : Bytes} {p : Position} (h : parseFen s = .ok (.ok p)) :
    p.whitePawns.length = countCodes p.board [Gen.WPawn] ∧
    p.blackPawns.length = countCodes p.board [Gen.BPawn] ∧
    p.whitePieces.length = countCodes p.board whitePieceCodes ∧
    p.blackPieces.length = countCodes p.board blackPieceCodes ∧
    p.whitePawns.length + p.whitePieces.length = countCodes p.board (Gen.WPawn :: whitePieceCodes) ∧
    p.blackPawns.length + p.blackPieces.length = countCodes p.board (Gen.BPawn :: blackPieceCodes) :=
  counts_of_inv (fen_sound h) (fen_sound_lists h)

/-- What the engine cannot represent is not accepted: an accepted board has exactly one king of each
    colour, at most `pawnCap` (8) pawns and at most `pieceCap` (15) non-king men of each colour — counted
    on the board, not on the lists — and no pawn on rank 1 or 8. -/
theorem fen_rejects_unrepresentable {s : Bytes} {p : Position} (h : parseFen s = .ok (.ok p)) :
    countCodes p.board [Gen.WKing] = 1 ∧ countCodes p.board [Gen.BKing] = 1 ∧
    countCodes p.board [Gen.WPawn] ≤ pawnCap ∧ countCodes p.board [Gen.BPawn] ≤ pawnCap ∧
    countCodes p.board (Gen.WPawn :: whitePieceCodes) ≤ pieceCap ∧
    countCodes p.board (Gen.BPawn :: blackPieceCodes) ≤ pieceCap ∧
    ∀ i : Nat, (p.board[i]? = some Gen.WPawn ∨ p.board[i]? = some Gen.BPawn) →
      rankOf i ≠ Gen.Rank1 ∧ rankOf i ≠ Gen.Rank8 := by
  have hI := fen_sound h
  obtain ⟨c1, c2, _, _, c5, c6⟩ := fen_counts h
  refine ⟨?_, ?_, ?_, ?_, ?_, ?_, hI.noBackPawn⟩
  · rw [← countKings_eq_countCodes]; exact hI.wKing1
  · rw [← countKings_eq_countCodes]; exact hI.bKing1
  · rw [← c1]; exact hI.wpLen
  · rw [← c2]; exact hI.bpLen
  · rw [← c5]; exact hI.wLen
  · rw [← c6]; exact hI.bLen

/-- In an accepted position the side NOT to move is not in check: the generator cannot produce the capture
    of a king. (`MM.OppSafe p` is literally the loader's test:
    `isUnderCheck p.board (p.side (whiteTurn p)) (p.side (!whiteTurn p)).king = .ok false`.) -/
theorem fen_oppSafe {s : Bytes} {p : Position} (h : parseFen s = .ok (.ok p)) : MM.OppSafe p :=
  parseFen_oppSafe h

/-! ### Non-vacuity and concrete rejections (kernel evaluation of the model) -/

/-- the defect witness (White to move, Black in check on the e-file) is now rejected in an orderly way … -/
example : parseFen (strBytes "4k3/8/8/8/8/8/8/4RK2 w - - 0 1") =
    .ok (.error (.invalid "side not to move in check")) :=
  rejectedWith_iff.1 (by decide +kernel)

/-- … while the same placement with BLACK to move (the side to move is in check — legal) is accepted, and
    `fen_oppSafe` applies to it -/
example : ∃ p, parseFen (strBytes "4k3/8/8/8/8/8/8/4RK2 b - - 0 1") = .ok (.ok p) ∧ MM.OppSafe p :=
  (accepted_iff.1 (by decide +kernel)).imp fun _ hp => ⟨hp, fen_oppSafe hp⟩

/-- `fen_oppSafe` on the start position -/
example : ∃ p, parseFen (strBytes "rnbqkbnr/pppppppp/8/8/8/8/PPPPPPPP/RNBQKBNR w KQkq - 0 1") = .ok (.ok p) ∧
    MM.OppSafe p :=
  (accepted_iff.1 (by decide +kernel)).imp fun _ hp => ⟨hp, fen_oppSafe hp⟩

/-- the standard start position is accepted -/
example : ∃ p, parseFen (strBytes "rnbqkbnr/pppppppp/8/8/8/8/PPPPPPPP/RNBQKBNR w KQkq - 0 1") = .ok (.ok p) :=
  accepted_iff.1 (by decide +kernel)

/-- a position with an en-passant square (after 1. e4) is accepted -/
example : ∃ p, parseFen (strBytes "rnbqkbnr/pppppppp/8/8/4P3/8/PPPP1PPP/RNBQKBNR b KQkq e3 0 1") = .ok (.ok p) :=
  accepted_iff.1 (by decide +kernel)

/-- the accepted start position: the hypotheses of `fen_sound` … `fen_rejects_unrepresentable` are satisfiable,
    and their conclusions are not trivially about empty lists (8 pawns, 7 pieces per side) -/
example : ∃ p, parseFen (strBytes "rnbqkbnr/pppppppp/8/8/8/8/PPPPPPPP/RNBQKBNR w KQkq - 0 1") = .ok (.ok p) ∧
    FenInv p ∧ FenLists p ∧ countCodes p.board [Gen.WPawn] = 8 ∧ countCodes p.board blackPieceCodes = 7 := by
  obtain ⟨p, hp⟩ : ∃ p, parseFen (strBytes "rnbqkbnr/pppppppp/8/8/8/8/PPPPPPPP/RNBQKBNR w KQkq - 0 1") = .ok (.ok p) :=
    accepted_iff.1 (by decide +kernel)
  refine ⟨p, hp, fen_sound hp, fen_sound_lists hp, ?_, ?_⟩
  · have hl : (match parseFen (strBytes "rnbqkbnr/pppppppp/8/8/8/8/PPPPPPPP/RNBQKBNR w KQkq - 0 1") with
        | .ok (.ok q) => q.whitePawns.length | _ => 0) = 8 := by decide +kernel
    rw [hp] at hl
    rw [← (fen_counts hp).1]; exact hl
  · have hl : (match parseFen (strBytes "rnbqkbnr/pppppppp/8/8/8/8/PPPPPPPP/RNBQKBNR w KQkq - 0 1") with
        | .ok (.ok q) => q.blackPieces.length | _ => 0) = 7 := by decide +kernel
    rw [hp] at hl
    rw [← (fen_counts hp).2.2.2.1]; exact hl

/-- `fen_faithful` on the start position: its hypothesis is satisfiable -/
example : ∃ p, FenFaithful (strBytes "rnbqkbnr/pppppppp/8/8/8/8/PPPPPPPP/RNBQKBNR w KQkq - 0 1") p :=
  (accepted_iff.1 (by decide +kernel)).imp fun _ hp => fen_faithful hp

/-! Round trip against the independent writer `Spec.toFen` (Magog/Spec/Fen.lean), through the abstraction
    `abs` — by kernel evaluation on concrete positions only.

    The general theorem (for all `Spec.Legal` positions `P`)
    `Spec.Legal P → … → ∃ p, parseFen (strBytes (Spec.toFen P n)) = .ok (.ok p) ∧ abs p = P ∧ …`
    is `Props.C08RoundTrip.fen_roundtrip_string` (Magog/Props/C08RoundTrip.lean); it builds on `fen_faithful`-level
    facts: the accepted position is determined by the input through the simple denotation `expandRank`. -/

example : roundTrips "rnbqkbnr/pppppppp/8/8/8/8/PPPPPPPP/RNBQKBNR w KQkq - 0 1" 1 = true := by decide +kernel
example : roundTrips "r3k2r/p1ppqpb1/bn2pnp1/3PN3/1p2P3/2N2Q1p/PPPBBPPP/R3K2R w KQkq - 0 1" 1 = true := by
  decide +kernel
example : roundTrips "rnbqkbnr/ppp1pppp/8/8/3pP3/8/PPPP1PPP/RNBQKBNR b KQkq e3 0 3" 3 = true := by decide +kernel
example : roundTrips "8/2p5/3p4/KP5r/1R3p1k/8/4P1P1/8 w - - 0 57" 57 = true := by decide +kernel

/-- helper for the rejection examples: an orderly rejection is not an acceptance -/
theorem not_accepted_of_rejectedWith {s : Bytes} {e : FenError} (h : rejectedWith (parseFen s) e = true) :
    ∀ p, parseFen s ≠ .ok (.ok p) := by
  intro p hp; rw [rejectedWith_iff.1 h] at hp; cases hp

/-- bytes that are not ASCII (even not bytes at all) are rejected, not a crash -/
example : parseFen [300, 47, 1000] = .ok (.error .nonAscii) := rejectedWith_iff.1 (by decide +kernel)

/-- the empty string is rejected, not a crash -/
example : parseFen [] = .ok (.error .fields) := rejectedWith_iff.1 (by decide +kernel)

/-- no white king -/
example : ∀ p, parseFen (strBytes "rnbqkbnr/pppppppp/8/8/8/8/PPPPPPPP/RNBQ1BNR w kq - 0 1") ≠ .ok (.ok p) :=
  not_accepted_of_rejectedWith (e := .invalid "kings") (by decide +kernel)

/-- two black kings -/
example : ∀ p, parseFen (strBytes "rnbqkbnr/pppppppp/8/8/8/k7/PPPPPPPP/RNBQKBNR w KQkq - 0 1") ≠ .ok (.ok p) :=
  not_accepted_of_rejectedWith (e := .invalid "kings") (by decide +kernel)

/-- a pawn on a back rank -/
example : ∀ p, parseFen (strBytes "rnbqkbnP/pppppppp/8/8/8/8/PPPPPPP1/RNBQKBNR w KQq - 0 1") ≠ .ok (.ok p) :=
  not_accepted_of_rejectedWith (e := .invalid "pawn on back rank") (by decide +kernel)

/-- nine white pawns -/
example : ∀ p, parseFen (strBytes "rnbqkbnr/pppppppp/8/8/8/P7/PPPPPPPP/RNBQKBNR w KQkq - 0 1") ≠ .ok (.ok p) :=
  not_accepted_of_rejectedWith (e := .invalid "too many pieces") (by decide +kernel)

/-- sixteen non-king white men (8 pawns, 8 pieces) -/
example : ∀ p, parseFen (strBytes "rnbqkbnr/pppppppp/8/8/8/Q7/PPPPPPPP/RNBQKBNR w KQkq - 0 1") ≠ .ok (.ok p) :=
  not_accepted_of_rejectedWith (e := .invalid "too many pieces") (by decide +kernel)

/-- a ninth file in a rank (the file counter is a Go byte) -/
example : ∀ p, parseFen (strBytes "rnbqkbnrr/pppppppp/8/8/8/8/PPPPPPPP/RNBQKBNR w KQkq - 0 1") ≠ .ok (.ok p) :=
  not_accepted_of_rejectedWith (e := .invalid "more than 8 files") (by decide +kernel)

/-- en-passant square that does not match the position -/
example : ∀ p, parseFen (strBytes "rnbqkbnr/pppppppp/8/8/8/8/PPPPPPPP/RNBQKBNR b KQkq e3 0 1") ≠ .ok (.ok p) :=
  not_accepted_of_rejectedWith (e := .invalid "en passant") (by decide +kernel)

/-- full-move counter beyond the int16-safe bound -/
example : ∀ p, parseFen (strBytes "rnbqkbnr/pppppppp/8/8/8/8/PPPPPPPP/RNBQKBNR w KQkq - 0 10000") ≠ .ok (.ok p) :=
  not_accepted_of_rejectedWith (e := .invalid "full move counter too large") (by decide +kernel)

end Magog.Props.C08
