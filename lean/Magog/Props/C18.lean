import Magog.Model.Search

/-! Property C18 — fixed capacities are never exhausted. Inequalities between the *regenerated*
    constants, and totality of the killer-table access for every ply value. -/

namespace Magog.Props.C18
open Magog Magog.Model

/-- upper bound of 2·pawns + otherPieces summed over both sides in any position the FEN loader accepts
    (≤ 8 pawns and pawns + others ≤ pieceCap per side); every capture or promotion lowers it -/
def maxTacticalDepth : Nat := 2 * (Gen.pawnCap + Gen.pieceCap)

/-- the PV table has a row for every index a search of nominal depth ≤ MaxSearchDepth can touch:
    a node at depth d reads row d+1 and the deepest node is a quiescence node at
    MaxSearchDepth + maxTacticalDepth -/
theorem pv_rows_suffice : Gen.MaxSearchDepth + maxTacticalDepth + 1 < Gen.pvRows.toNat := by decide

theorem quiescence_bound_is_source_constant : Gen.maxQuiescenceDepth = maxTacticalDepth := by decide

/-- the position stack has a slot for every ply of the deepest search -/
theorem stack_suffices : Gen.MaxSearchDepth + maxTacticalDepth + 1 < Gen.plyBufferCapacity := by decide

/-- every ply value (any `int16`, also after wrap-around) maps to a valid killer slot -/
theorem killer_index_ok (ply : Int) : killerIdx ply < Gen.killerMovesMaxPly := by
  unfold killerIdx
  exact Nat.mod_lt _ (by decide)

/-- reading the killer table never panics, for any table of the allocated size -/
theorem killerSlot_total (kt : Killers) (hk : kt.size = Gen.killerMovesMaxPly) (ply : Int) :
    ∃ k, killerSlot kt ply = .ok k := by
  unfold killerSlot
  have h := killer_index_ok ply
  have : killerIdx ply < kt.size := by omega
  rw [Array.getElem?_eq_getElem this]
  exact ⟨_, rfl⟩

/-- updating it never panics either and keeps the size -/
theorem updateKillers_total (kt : Killers) (hk : kt.size = Gen.killerMovesMaxPly) (ply : Int) (mv : Move) :
    ∃ kt', updateKillers kt ply mv = .ok kt' ∧ kt'.size = Gen.killerMovesMaxPly := by
  obtain ⟨k, hk'⟩ := killerSlot_total kt hk ply
  refine ⟨kt.setIfInBounds (killerIdx ply) (mv, k.1), ?_, by simp [hk]⟩
  simp [updateKillers, hk', bind, Except.bind, pure, Except.pure]

theorem killers_empty_size : Killers.empty.size = Gen.killerMovesMaxPly := by simp [Killers.empty]

/-- the ply counter cannot wrap: from any accepted move number (≤ maxFullMoveCounter) a game may go on
    for 12 000 more plies and a search 100 plies deeper without leaving int16 -/
theorem ply_no_wrap (n extra : Int) (hn : 1 ≤ n ∧ n ≤ Gen.maxFullMoveCounter) (he : 0 ≤ extra ∧ extra ≤ 12100) :
    wrap16 ((n - 1) * 2 + 1 + extra) = (n - 1) * 2 + 1 + extra := by
  simp only [Gen.maxFullMoveCounter] at hn
  unfold wrap16; omega

/-- `go depth N` is capped at MaxSearchDepth by the token scanner, whatever N -/
theorem depth_capped (s : Bytes) (rest : List Bytes) (a : GoAcc) (v : Int) (hs : atoi s = some v) (hv : 1 ≤ v) :
    goScan (kwDepth :: s :: rest) a = goScan (s :: rest) { a with depth := min v Gen.MaxSearchDepth } := by
  rw [goScan]
  have h1 : (kwDepth == kwMoveTime) = false := by decide
  have h2 : (kwDepth == kwInfinite) = false := by decide
  have h3 : (kwDepth == kwWtime) = false := by decide
  have h4 : (kwDepth == kwBtime) = false := by decide
  have h5 : (kwDepth == kwWinc) = false := by decide
  have h6 : (kwDepth == kwBinc) = false := by decide
  have h7 : (kwDepth == kwMovesToGo) = false := by decide
  have hlt : ¬ v < 1 := by omega
  simp only [h1, h2, h3, h4, h5, h6, h7, beq_self_eq_true, Bool.false_eq_true, ↓reduceIte, bind, Except.bind, pure,
    Except.pure, hs, hlt]

end Magog.Props.C18
