import Magog.Model.Eval
import Magog.Model.Time

/-! Property C18 — theorems (see DESIGN §5). -/

namespace Magog.Props.C18

end Magog.Props.C18
