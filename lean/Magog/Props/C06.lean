import Magog.Lemmas.CountPerft
import Magog.Lemmas.CountKing
import Magog.Model.Start

/-! Property C06 — the four hand-copied move loops of the engine (full generator
    `generateMoves`, tactical generator `generateTacticalMoves`, `countMoves`, `countTacticalMoves`) and
    the two perft drivers agree on every position on which they run without panic.

    The side conditions are the named predicates of `Magog/Lemmas/Count.lean`; each is justified there.
    Summary of which theorem needs what:

    * `tactical_is_filter`      : `CellsOk`
    * `countTactical_eq_length` : `BoardSize`, `EpRankOk`, `PawnsOk`, `CaptureOk`, `KingStepSafe`
    * `countMoves_eq_length`    : the same plus `CastleSafe`
    * `promo_legal_uniform`     : `CaptureOk`, mover is a pawn, destination ≠ en-passant square

    `KingStepSafe` and `CastleSafe` are the two places where the generator filters a move twice (an
    attack pre-test, then `isLegal`) and the counter once. `KingStepSafe` is proved here from the
    structural condition `KingsOk` (`kingStepSafe_of_kingsOk`); `CastleSafe` is a chess-geometry fact
    about attack detection that is kept as a hypothesis here and discharged from `Inv` + `OppSafe` in
    `Props/C06Spec.lean` / `Props/C01.lean` (`castleSafe_of_inv`), together with all the other side
    conditions (`C06Spec.countOk_of_inv`) and the "no panic" assumption. The others are data-structure
    well-formedness. `CellsOk` and `KingStepSafe` are shown to be necessary by counterexamples
    (`c06BadCell`, `c06AdjKings`). Witnesses for the examples: `Count.c06Witness` (1.e4 e5 2.Nf3 Nc6
    3.Bc4 Bc5 4.a4 a6 5.a5 b5: en-passant, captures and castling all available),
    `Count.c06PromoWitness` (a pawn on a7 that can push and capture to promote), and
    `Model.startPosition`. -/

namespace Magog.Props.C06
open Magog Magog.Model Magog.Count

/-! ### 1. the tactical generator is the tactical-flagged sub-list of the full generator -/

/-- The tactical generator's list is exactly (same order, same multiplicity) the sub-list of the
    full legal move list that is flagged tactical (captures incl. en passant, all promotions).
    Side condition `CellsOk p` (every board cell has a colour bit iff it has a piece kind, never both
    colour bits): the two generators classify a target as a capture by different bit tests
    (`cell &&& Colorless != 0` after `cell &&& own == 0`, against `cell &&& enemy != 0`), which
    coincide only on well-formed cells. -/
theorem tactical_is_filter {kt : Killers} {p : Position} {ms ts : List RMove} (hcells : CellsOk p)
    (hf : generateMoves kt p = .ok ms) (ht : generateTacticalMoves p = .ok ts) :
    ts.map (·.mov) = (ms.filter (·.tactical)).map (·.mov) :=
  generate_tactical_rel hcells hf ht

set_option maxRecDepth 100000 in
example : CellsOk startPosition ∧ CellsOk c06Witness := by decide +kernel

set_option maxRecDepth 100000 in
/-- both generators run on the witness; 35 legal moves, the tactical ones are a5xb6 e.p., Bxf7+, Bxb5, Nxe5 -/
example :
    okVal ((generateMoves Killers.empty c06Witness).map (·.length)) = some 35 ∧
    okVal ((generateTacticalMoves c06Witness).map (·.map (·.mov))) =
      some [⟨Gen.A5, Gen.B6, 0, InvalidSq⟩, ⟨Gen.C4, Gen.F7, 0, InvalidSq⟩, ⟨Gen.C4, Gen.B5, 0, InvalidSq⟩,
            ⟨Gen.F3, Gen.E5, 0, InvalidSq⟩] := by decide +kernel

set_option maxRecDepth 100000 in
example : okVal ((generateMoves Killers.empty startPosition).map (·.length)) = some 20 ∧
    okVal ((generateTacticalMoves startPosition).map (·.length)) = some 0 := by decide +kernel

set_option maxRecDepth 100000 in
/-- `CellsOk` cannot be dropped: on `c06BadCell` (a kind-without-colour cell) both generators run, the
    full list has one tactical-flagged move, the tactical list is empty. -/
example : ¬ CellsOk c06BadCell ∧
    okVal ((generateTacticalMoves c06BadCell).map (·.map (·.mov))) = some [] ∧
    okVal ((generateMoves Killers.empty c06BadCell).map (fun ms => (ms.filter (·.tactical)).map (·.mov))) =
      some [⟨Gen.B1, Gen.A3, 0, InvalidSq⟩] := by decide +kernel

/-! ### key lemma: the legality verdict of a pawn move does not depend on the promotion piece -/

/-- The king-safety verdict of `makeMove` for a pawn move does not depend on `m.promo` (the counters
    test legality once with `promo = 0` and multiply by 4; the generators test each promotion move).
    Side conditions: the mover on `f` is a pawn of the side to move; the destination is not the
    en-passant square (otherwise only the `promo = 0` variant removes the passed pawn); `CaptureOk p`
    (enemy piece list duplicate-free and consistent with the board, so that after the capture
    bookkeeping the destination is not an attacker square); the promotion code carries no black
    colour bit (true of Queen/Rook/Bishop/Knight; only matters if the destination is the enemy
    king's square, whose cell selects the pawn-attack table). -/
theorem promo_legal_uniform {p : Position} {f t k e : Nat} {q0 q1 : Position} {b0 b1 : Bool}
    (hcap : CaptureOk p) (hpawn : p.board[f]? = some (Pawn ||| p.ctx.curBit)) (hep : t ≠ p.ep)
    (hkb : k &&& BlackBit = 0)
    (h0 : makeMove p ⟨f, t, 0, e⟩ = .ok (q0, b0)) (h1 : makeMove p ⟨f, t, k, e⟩ = .ok (q1, b1)) :
    b0 = b1 :=
  Count.promo_legal_uniform hcap hpawn hep hkb h0 h1

set_option maxRecDepth 100000 in
/-- the hypotheses hold for the a7 pawn of `c06PromoWitness` capturing on b8 with a queen promotion;
    both `makeMove`s run (verdict: legal) -/
example : CaptureOk c06PromoWitness ∧
    c06PromoWitness.board[Gen.A7]? = some (Pawn ||| c06PromoWitness.ctx.curBit) ∧
    Gen.B8 ≠ c06PromoWitness.ep ∧ Queen &&& BlackBit = 0 ∧
    okVal ((makeMove c06PromoWitness ⟨Gen.A7, Gen.B8, 0, InvalidSq⟩).map (·.2)) = some true ∧
    okVal ((makeMove c06PromoWitness ⟨Gen.A7, Gen.B8, Queen, InvalidSq⟩).map (·.2)) = some true := by
  decide +kernel

/-! ### the generators' king-step pre-test never removes a legal move -/

/-- `KingStepSafe` (side condition of the counting theorems) follows from the structural condition
    `KingsOk`: the mover's king stands on its recorded square, that square is not in the enemy piece
    list, and the enemy king is neither on it nor adjacent to it. -/
theorem kingStepSafe_of_kingsOk {p : Position} (h : KingsOk p) : KingStepSafe p :=
  Count.kingStepSafe_of_kingsOk h

set_option maxRecDepth 100000 in
example : KingsOk startPosition ∧ KingsOk c06Witness ∧ KingsOk c06PromoWitness := by decide +kernel

/-! ### 2. `countTacticalMoves` counts the tactical generator's list -/

theorem countTactical_eq_length {p : Position} {n : Nat} {ts : List RMove} (hsz : BoardSize p)
    (hep : EpRankOk p) (hpw : PawnsOk p) (hcap : CaptureOk p) (hks : KingStepSafe p)
    (hn : countTacticalMoves p = .ok n) (ht : generateTacticalMoves p = .ok ts) : n = ts.length :=
  countTactical_length hsz hep hpw hcap hks hn ht

set_option maxRecDepth 100000 in
theorem c06Witness_tcountOk : TCountOk c06Witness where
  size := by decide +kernel
  ep := by decide +kernel
  pawns := by decide +kernel
  capture := by decide +kernel
  king := KingStepSafe.of_check (by decide +kernel)

set_option maxRecDepth 100000 in
example : BoardSize startPosition ∧ EpRankOk startPosition ∧ PawnsOk startPosition ∧
    CaptureOk startPosition := by decide +kernel

set_option maxRecDepth 100000 in
example : KingStepSafe startPosition := KingStepSafe.of_check (by decide +kernel)

set_option maxRecDepth 100000 in
/-- the en-passant square of the witness really is b6 (so `EpRankOk` is used in its non-trivial branch),
    and the counter runs and returns 4 -/
example : c06Witness.ep = Gen.B6 ∧ okVal (countTacticalMoves c06Witness) = some 4 := by decide +kernel

set_option maxRecDepth 100000 in
/-- the promotion witness: all side conditions hold, the counter says 8, the tactical generator
    lists 8 moves (2 destinations × 4 promotion pieces) -/
example : BoardSize c06PromoWitness ∧ EpRankOk c06PromoWitness ∧ PawnsOk c06PromoWitness ∧
    CaptureOk c06PromoWitness ∧ KingsOk c06PromoWitness ∧
    okVal (countTacticalMoves c06PromoWitness) = some 8 ∧
    okVal ((generateTacticalMoves c06PromoWitness).map (·.length)) = some 8 := by decide +kernel

set_option maxRecDepth 100000 in
/-- `KingStepSafe` cannot be dropped: `c06AdjKings` satisfies every other side condition (and
    `CellsOk`), all four loops run, both counters say 1 and both generators produce no move. -/
example : BoardSize c06AdjKings ∧ EpRankOk c06AdjKings ∧ PawnsOk c06AdjKings ∧ CaptureOk c06AdjKings ∧
    CellsOk c06AdjKings ∧ ¬ KingsOk c06AdjKings ∧
    okVal (countTacticalMoves c06AdjKings) = some 1 ∧ okVal (countMoves c06AdjKings) = some 1 ∧
    okVal ((generateTacticalMoves c06AdjKings).map (·.length)) = some 0 ∧
    okVal ((generateMoves Killers.empty c06AdjKings).map (·.length)) = some 0 := by decide +kernel

/-! ### 3. `countMoves` counts the full generator's list -/

theorem countMoves_eq_length {kt : Killers} {p : Position} {n : Nat} {ms : List RMove} (hsz : BoardSize p)
    (hep : EpRankOk p) (hpw : PawnsOk p) (hcap : CaptureOk p) (hks : KingStepSafe p) (hcs : CastleSafe p)
    (hf : generateMoves kt p = .ok ms) (hn : countMoves p = .ok n) : n = ms.length :=
  countMoves_length hsz hep hpw hcap hks hcs hf hn

set_option maxRecDepth 100000 in
theorem c06Witness_countOk : CountOk c06Witness where
  toTCountOk := c06Witness_tcountOk
  castle := CastleSafe.of_check (by decide +kernel)

set_option maxRecDepth 100000 in
/-- on the witness the kingside path test passes and the right is set, so `CastleSafe` is used
    non-vacuously; the counter runs and returns 35 -/
example : c06Witness.ctx.kOk = true ∧ okVal (castleKOk c06Witness c06Witness.ctx) = some true ∧
    okVal (countMoves c06Witness) = some 35 := by decide +kernel

set_option maxRecDepth 100000 in
/-- the promotion witness: 13 = 13 -/
example : CastleSafe c06PromoWitness ∧ okVal (countMoves c06PromoWitness) = some 13 ∧
    okVal ((generateMoves Killers.empty c06PromoWitness).map (·.length)) = some 13 :=
  ⟨CastleSafe.of_check (by decide +kernel), by decide +kernel, by decide +kernel⟩

set_option maxRecDepth 100000 in
example : CastleSafe startPosition ∧ okVal (countMoves startPosition) = some 20 :=
  ⟨CastleSafe.of_check (by decide +kernel), by decide +kernel⟩

/-! ### 4. perft counts paths -/

/-- `perft` at depth `d` returns the number of legal move paths of length `d` (`pathsM`), provided
    the side conditions of `countMoves_eq_length` hold on the positions where perft calls
    `countMoves`, i.e. those reached by exactly `d - 1` generated legal moves
    (`LeavesOk kt CountOk (d - 1) p`; nothing is needed for `d = 0`). -/
theorem perft_eq_paths {kt : Killers} {cap d idx : Nat} {p : Position} {n n' : Nat}
    (h : ∀ k, d = k + 1 → LeavesOk kt CountOk k p)
    (h1 : perft kt cap d idx p = .ok n) (h2 : pathsM kt d p = .ok n') : n = n' := by
  cases d with
  | zero =>
    simp only [perft, pathsM, pure_eq_ok, Except.ok.injEq] at h1 h2
    omega
  | succ k => exact perft_paths k idx p n n' (h k rfl) h1 h2

/-- the same from an invariant `G` that is closed under generated legal successors and implies the
    side conditions -/
theorem perft_eq_paths_of_invariant {kt : Killers} {cap d idx : Nat} {p : Position} {n n' : Nat}
    (G : Position → Prop) (hG : ∀ p, G p → CountOk p) (hstep : ClosedUnderMoves kt G) (hp : G p)
    (h1 : perft kt cap d idx p = .ok n) (h2 : pathsM kt d p = .ok n') : n = n' :=
  perft_eq_paths (fun k _ => leavesOk_of_closed hG hstep k p hp) h1 h2

set_option maxRecDepth 100000 in
/-- depth 1 on the witness: the hypothesis is `CountOk c06Witness`, both sides run and give 35.
    (Depth 2 evaluates to 1283 = 1283 with `#eval`, but kernel evaluation of depth 2 takes minutes
    and is not part of the build.) -/
example : (∀ k, 1 = k + 1 → LeavesOk Killers.empty CountOk k c06Witness) ∧
    okVal (perft Killers.empty 200 1 0 c06Witness) = some 35 ∧
    okVal (pathsM Killers.empty 1 c06Witness) = some 35 := by
  refine ⟨?_, by decide +kernel, by decide +kernel⟩
  intro k hk
  have : k = 0 := by omega
  subst this
  exact c06Witness_countOk

/-- `perftTactical` at depth `d` (depths 0 and 1 both mean "count the tactical moves here") returns
    the number of paths of `d - 1` legal moves followed by one tactical legal move, the leaves
    enumerated by the tactical generator (`tpathsM`). -/
theorem perftTactical_eq_paths {kt : Killers} {cap d idx : Nat} {p : Position} {n n' : Nat}
    (h : LeavesOk kt TCountOk (d - 1) p)
    (h1 : perftTactical kt cap d idx p = .ok n) (h2 : tpathsM kt (d - 1) p = .ok n') : n = n' := by
  cases d with
  | zero =>
    rw [perftTactical_zero] at h1
    exact perftTactical_paths 0 idx p n n' h h1 h2
  | succ k => exact perftTactical_paths k idx p n n' h h1 h2

/-- ... and the tactical generator's leaves are the tactical-flagged moves of the full generator
    (`tpathsF`), by `tactical_is_filter`. -/
theorem tpaths_eq_filter {kt : Killers} {d : Nat} {p : Position} {n n' : Nat}
    (h : LeavesOk kt CellsOk d p) (h1 : tpathsM kt d p = .ok n) (h2 : tpathsF kt d p = .ok n') : n = n' :=
  tpaths_filter d p n n' h h1 h2

theorem perftTactical_eq_paths_of_invariant {kt : Killers} {cap d idx : Nat} {p : Position} {n n' n'' : Nat}
    (G : Position → Prop) (hG : ∀ p, G p → TCountOk p ∧ CellsOk p) (hstep : ClosedUnderMoves kt G) (hp : G p)
    (h1 : perftTactical kt cap d idx p = .ok n) (h2 : tpathsM kt (d - 1) p = .ok n')
    (h3 : tpathsF kt (d - 1) p = .ok n'') : n = n' ∧ n' = n'' :=
  ⟨perftTactical_eq_paths (leavesOk_of_closed (fun p hp => (hG p hp).1) hstep _ p hp) h1 h2,
   tpaths_eq_filter (leavesOk_of_closed (fun p hp => (hG p hp).2) hstep _ p hp) h2 h3⟩

set_option maxRecDepth 100000 in
example : LeavesOk Killers.empty TCountOk (1 - 1) c06Witness ∧ LeavesOk Killers.empty CellsOk 0 c06Witness ∧
    okVal (perftTactical Killers.empty 200 1 0 c06Witness) = some 4 ∧
    okVal (tpathsM Killers.empty 0 c06Witness) = some 4 ∧
    okVal (tpathsF Killers.empty 0 c06Witness) = some 4 :=
  ⟨c06Witness_tcountOk, by show CellsOk c06Witness; decide +kernel, by decide +kernel, by decide +kernel,
   by decide +kernel⟩

end Magog.Props.C06
