import Magog.Model.Eval
import Magog.Model.Time

/-! Property C06 — theorems (see DESIGN §5). -/

namespace Magog.Props.C06

end Magog.Props.C06
