import Magog.Lemmas.AlphaBeta
import Magog.Lemmas.AlphaBetaWitness
import Magog.Lemmas.KillerIndep
import Magog.Props.C04Iter

/-! Property C04 — pruning is transparent: the score of the model's alpha-beta search is the plain minimax
    value (`Spec.Minimax`) of the same tree, for every move ordering (`env.sortFn`), killer table, PV hint
    (`s.cand`, `s.matched`) and PV buffers (`s.rows`, `curLen`) — see DESIGN §5.

    Hypotheses (definitions in `Lemmas/AlphaBeta.lean`):
    * `Quiet env`      the clock never runs out, no stop request arrives;
    * `PermSort env`   `env.sortFn` only reorders;
    * `KillerIndep`    the killer table does not change the *set* of generated moves (proved separately);
    * `Closed G`       the set `G` of positions is closed under `makeMove` along generated moves;
    * `LazyOn env G`   if the search evaluates lazily, `LazyGood` (|full − cheap| ≤ `Gen.fullEvalScoreMargin`)
                       holds on `G`; nothing is required for `env.lazy = false`;
    * `EvalRange blend G D` (root only) static/terminal scores at depth `1 ≤ d ≤ D` on `G` lie in the mate
                       window `[Lost + d, −(Lost + d)]` (C05's evaluation bound). -/

namespace Magog.Props.C04
open Magog Magog.Model Magog.Spec.Minimax Magog.Lemmas.AlphaBeta

/-- (a) Up to clamping into the window, the lazy evaluation is the full evaluation, wherever the lazy
    assumption holds. The margin enters only through the generated constant (inside `LazyGood`). -/
theorem lazy_clamp (blend : Blend) (p : Position) (d α β full x : Int)
    (hα : Gen.MinusInfinityScore ≤ α) (hβ : β ≤ Gen.InfinityScore) (hαβ : α ≤ β)
    (hfull : evaluate blend p d = .ok full) (hx : lazyEvaluate blend p d α β = .ok x)
    (hg : LazyGood blend p d) : clamp x α β = clamp full α β :=
  Lemmas.AlphaBeta.lazy_clamp blend p d α β full x hα hβ hαβ hfull hx hg

/-- non-vacuity: in the pawn ending `capPos` the lazy shortcut is taken (20 instead of the full 25) -/
example : Gen.MinusInfinityScore ≤ (400 : Int) ∧ (500 : Int) ≤ Gen.InfinityScore ∧ (400 : Int) ≤ 500 ∧
    evaluate demoBlend capPos 0 = .ok 25 ∧ lazyEvaluate demoBlend capPos 0 400 500 = .ok 20 ∧
    LazyGood demoBlend capPos 0 ∧ clamp 20 400 500 = clamp 25 400 500 :=
  ⟨by decide, by decide, by decide, cap_full, cap_lazy, cap_lazyGood,
   lazy_clamp demoBlend capPos 0 400 500 25 20 (by decide) (by decide) (by decide) cap_full cap_lazy cap_lazyGood⟩

/-- (b) quiescence: fail-hard result = plain negamax quiescence value, up to clamping -/
theorem quiescence_value (env : Env) (G : Position → Prop) (hq : Quiet env) (hps : PermSort env)
    (hcl : Closed G) (hlz : LazyOn env G) (fuel : Nat) (p : Position) (idx depth : Nat) (α β : Int)
    (curLen : Nat) (s : SS) (v : Int) (len : Nat) (s' : SS) (w : Int)
    (hp : G p) (hαβ : α < β) (hα : Gen.MinusInfinityScore ≤ α) (hβ : β ≤ Gen.InfinityScore)
    (hs : s.interrupted = false)
    (h : quiescence env fuel p idx depth α β curLen s = .ok (v, len, s'))
    (hw : QV env.blend fuel p depth = .ok w) :
    clamp v α β = clamp w α β ∧ s'.interrupted = false :=
  let r := quiescence_ok env hq hps G hcl hlz fuel depth p idx α β curLen s v len s' w hp hαβ hα hβ hs h hw
  ⟨r.1, r.2.1⟩

/-- non-vacuity: a 3-node quiescence search (root, exd5, Kxd5) with the full evaluation on `G = everything` -/
example : Quiet demoEnv ∧ PermSort demoEnv ∧ Closed (fun _ => True) ∧ LazyOn demoEnv (fun _ => True) ∧
    demoSS.interrupted = false ∧
    (∃ len s', quiescence demoEnv 3 capPos 0 0 (-50) 50 0 demoSS = .ok (25, len, s')) ∧
    QV demoEnv.blend 3 capPos 0 = .ok 25 := by
  refine ⟨demoEnv_quiet, demoEnv_perm, closed_true, demoEnv_lazyOn _, rfl, ?_, cap_QV⟩
  obtain ⟨⟨v, len, s'⟩, hr, he⟩ := map_ok (okIs_eq cap_quiescence)
  simp only [Prod.mk.injEq] at he
  exact ⟨len, s', by rw [hr, he.1]⟩

/-- (b) alpha-beta: fail-hard result = plain minimax value, up to clamping; for every killer table, PV hint,
    PV buffer and sort function -/
theorem alphaBeta_value (env : Env) (G : Position → Prop) (hq : Quiet env) (hps : PermSort env)
    (hki : KillerIndep) (hcl : Closed G) (hlz : LazyOn env G) (qfuel rem : Nat) (p : Position)
    (idx depth : Nat) (α β : Int) (curLen : Nat) (s : SS) (v : Int) (len : Nat) (s' : SS) (w : Int)
    (hp : G p) (hαβ : α < β) (hα : Gen.MinusInfinityScore ≤ α) (hβ : β ≤ Gen.InfinityScore)
    (hs : s.interrupted = false)
    (h : alphaBeta env qfuel rem p idx depth α β curLen s = .ok (v, len, s'))
    (hw : V env.blend qfuel rem p depth = .ok w) :
    clamp v α β = clamp w α β ∧ s'.interrupted = false :=
  let r := alphaBeta_ok env hq hps hki G hcl hlz qfuel rem depth p idx α β curLen s v len s' w hp hαβ hα hβ hs h hw
  ⟨r.1, r.2.1⟩

/-- non-vacuity (modulo `KillerIndep`, which is proved separately): a one-ply search of `kpaPos` that fails
    high after 3 of its 5 nodes and returns β = 130, while the minimax value is 135 -/
example : Quiet demoEnv ∧ PermSort demoEnv ∧ Closed (fun _ => True) ∧ LazyOn demoEnv (fun _ => True) ∧
    demoSS.interrupted = false ∧
    (∃ len s', alphaBeta demoEnv 1 1 kpaPos 0 0 100 130 0 demoSS = .ok (130, len, s')) ∧
    V demoEnv.blend 1 1 kpaPos 0 = .ok 135 ∧ clamp 130 100 130 = clamp 135 100 130 := by
  refine ⟨demoEnv_quiet, demoEnv_perm, closed_true, demoEnv_lazyOn _, rfl, ?_, kpa_V, by decide⟩
  obtain ⟨⟨v, len, s'⟩, hr, he⟩ := map_ok (okIs_eq kpa_alphaBeta)
  simp only [Prod.mk.injEq] at he
  exact ⟨len, s', by rw [hr, he.1]⟩

/-- (c) the root: `startAlphaBeta` returns exactly the root value of the iteration (no clamp: the root window
    is (−∞, +∞), and the `nextMoveWins` early exit is value-neutral because of `EvalRange`). Also covers a
    root without legal moves. -/
theorem root_value (env : Env) (G : Position → Prop) (hq : Quiet env) (hps : PermSort env)
    (hki : KillerIndep) (hcl : Closed G) (hlz : LazyOn env G) (D : Nat) (her : EvalRange env.blend G D)
    (qfuel : Nat) (p : Position) (target curLen : Nat) (s : SS) (score : Int) (one : Bool) (len : Nat)
    (s' : SS) (w : Int) (hp : G p) (hD : 1 + (target - 1) + qfuel ≤ D) (hs : s.interrupted = false)
    (h : startAlphaBeta env qfuel p target curLen s = .ok (score, one, len, s'))
    (hw : rootV env.blend qfuel target p = .ok w) :
    score = w ∧ s'.interrupted = false :=
  let r := startAlphaBeta_value env G ⟨hq, hps, hki, hcl, hlz⟩ D her qfuel p hp target hD curLen s score one
    len s' w hs h hw
  ⟨r.1, r.2.1⟩

/-- for `target ≥ 1` the root value is `V … target p 0` -/
theorem rootV_is_V (blend : Blend) (qfuel target : Nat) (p : Position) (h : 1 ≤ target) :
    rootV blend qfuel target p = V blend qfuel target p 0 := rootV_eq blend qfuel target p h

/-- non-vacuity (modulo `KillerIndep`): a mated root (fool's mate) with the lazy evaluation and a reversing
    sort; `G` is the one-point set. (A root with successors needs the evaluation bound of C05 on a closed
    set of positions, which cannot be established by evaluation.) -/
example (hki : KillerIndep) : Quiet demoEnvLazy ∧ PermSort demoEnvLazy ∧ Closed FM ∧ LazyOn demoEnvLazy FM ∧
    EvalRange demoEnvLazy.blend FM 100 ∧ FM foolsMate ∧ 1 + (2 - 1) + 3 ≤ 100 ∧ demoSS.interrupted = false ∧
    (∃ len s', startAlphaBeta demoEnvLazy 3 foolsMate 2 0 demoSS = .ok (Gen.LostScore, false, len, s')) ∧
    rootV demoEnvLazy.blend 3 2 foolsMate = .ok Gen.LostScore := by
  refine ⟨demoEnvLazy_quiet, demoEnvLazy_perm, fm_closed hki, fm_lazyOn, fm_evalRange, rfl, by decide, rfl, ?_,
    fm_rootV⟩
  obtain ⟨⟨v, one, len, s'⟩, hr, he⟩ := map_ok (okIs_eq fm_start)
  simp only [Prod.mk.injEq] at he
  exact ⟨len, s', by rw [hr, he.1, he.2]⟩

/-- (d) every `info depth d score sc` line printed by iterative deepening reports the root value of
    iteration `d`, and the final `info score best depth done` line (printInfo, just before `bestmove`)
    reports the root value of iteration `done`; a root without legal moves prints the root value as
    `info depth 0 score …`. -/
theorem C04_scores (env : Env) (G : Position → Prop) (hq : Quiet env) (hps : PermSort env)
    (hki : KillerIndep) (hcl : Closed G) (hlz : LazyOn env G) (D : Nat) (her : EvalRange env.blend G D)
    (qfuel : Nat) (p : Position) (maxDepth : Nat) (killers : Killers) (rows : Array (Array Move))
    (len0 : Nat) (s : SS) (hp : G p) (hD1 : 1 + qfuel ≤ D) (hD : maxDepth + qfuel ≤ D)
    (h : iterDeep env qfuel p maxDepth killers rows len0 = .ok s) :
    (∀ d sc nodes pv, Event.infoDepth d sc nodes pv ∈ s.out →
        ∀ w, rootV env.blend qfuel d p = .ok w → sc = w) ∧
    ((∃ m best done nodes pv rest, s.out = .bestmove m :: .infoPv best done nodes pv :: rest ∧
        ∀ w, rootV env.blend qfuel done p = .ok w → best = w) ∨
     (∃ sc rest, s.out = .bestmoveNone :: .infoTerminal sc :: rest ∧
        ∀ w, rootV env.blend qfuel 1 p = .ok w → sc = w)) := by
  obtain ⟨hg, hfin⟩ := iterDeep_ok env G ⟨hq, hps, hki, hcl, hlz⟩ D her qfuel p hp maxDepth hD1 hD killers rows
    len0 s h
  refine ⟨?_, hfin⟩
  intro d sc nodes pv hmem
  exact hg _ (List.mem_filter.mpr ⟨hmem, rfl⟩)

/-- non-vacuity (modulo `KillerIndep`): iterative deepening from the mated root -/
example (hki : KillerIndep) : Quiet demoEnvLazy ∧ PermSort demoEnvLazy ∧ Closed FM ∧ LazyOn demoEnvLazy FM ∧
    EvalRange demoEnvLazy.blend FM 100 ∧ FM foolsMate ∧ 1 + 3 ≤ 100 ∧ 5 + 3 ≤ 100 ∧
    (∃ s, iterDeep demoEnvLazy 3 foolsMate 5 Killers.empty (newRows 8) 0 = .ok s ∧
      s.out = [.bestmoveNone, .infoTerminal Gen.LostScore]) ∧
    rootV demoEnvLazy.blend 3 1 foolsMate = .ok Gen.LostScore := by
  refine ⟨demoEnvLazy_quiet, demoEnvLazy_perm, fm_closed hki, fm_lazyOn, fm_evalRange, rfl, by decide, by decide,
    ?_, fm_rootV1⟩
  obtain ⟨s, hr, he⟩ := map_ok (okIs_eq fm_iterDeep)
  exact ⟨s, hr, he⟩


/-! ### `KillerIndep` discharged, and the iteration clause

`KillerIndep` is a theorem (`Lemmas/KillerIndep.lean`: the killer table changes rankings only, never which moves are
generated), so the value theorems hold without that hypothesis. -/

theorem killerIndep : KillerIndep :=
  fun kt kt' p ms ms' h h' => Magog.Lemmas.KillerIndep.killerIndep kt kt' p ms ms' h h'

/-- `alphaBeta_value` with the killer hypothesis discharged: for every killer table, move ordering, PV hint and PV
    buffer the returned score is, up to clamping into the window, the plain minimax value `V`. -/
theorem alphaBeta_transparent (env : Env) (G : Position → Prop) (hq : Quiet env) (hps : PermSort env)
    (hcl : Closed G) (hlz : LazyOn env G) (qfuel rem : Nat) (p : Position)
    (idx depth : Nat) (α β : Int) (curLen : Nat) (s : SS) (v : Int) (len : Nat) (s' : SS) (w : Int)
    (hp : G p) (hαβ : α < β) (hα : Gen.MinusInfinityScore ≤ α) (hβ : β ≤ Gen.InfinityScore)
    (hs : s.interrupted = false)
    (h : alphaBeta env qfuel rem p idx depth α β curLen s = .ok (v, len, s'))
    (hw : V env.blend qfuel rem p depth = .ok w) :
    clamp v α β = clamp w α β ∧ s'.interrupted = false :=
  alphaBeta_value env G hq hps killerIndep hcl hlz qfuel rem p idx depth α β curLen s v len s' w hp hαβ hα hβ hs h hw

/-- `C04_scores` with the killer hypothesis discharged: every score the iterative deepening reports for a completed
    iteration `d` is the minimax value `rootV … d p` of the depth-`d` tree. -/
theorem C04_reported_scores (env : Env) (G : Position → Prop) (hq : Quiet env) (hps : PermSort env)
    (hcl : Closed G) (hlz : LazyOn env G) (D : Nat) (her : EvalRange env.blend G D)
    (qfuel : Nat) (p : Position) (maxDepth : Nat) (killers : Killers) (rows : Array (Array Move))
    (len0 : Nat) (s : SS) (hp : G p) (hD1 : 1 + qfuel ≤ D) (hD : maxDepth + qfuel ≤ D)
    (h : iterDeep env qfuel p maxDepth killers rows len0 = .ok s) :
    (∀ d sc nodes pv, Event.infoDepth d sc nodes pv ∈ s.out →
        ∀ w, rootV env.blend qfuel d p = .ok w → sc = w) ∧
    ((∃ m best done nodes pv rest, s.out = .bestmove m :: .infoPv best done nodes pv :: rest ∧
        ∀ w, rootV env.blend qfuel done p = .ok w → best = w) ∨
     (∃ sc rest, s.out = .bestmoveNone :: .infoTerminal sc :: rest ∧
        ∀ w, rootV env.blend qfuel 1 p = .ok w → sc = w)) :=
  C04_scores env G hq hps killerIndep hcl hlz D her qfuel p maxDepth killers rows len0 s hp hD1 hD h

/-- the iteration clause of C04 (proved in `Props/C04Iter.lean`): under a quiet oracle `go depth d` completes exactly
    the iterations `1 … d`, ending earlier only on a single legal root move or a mate no longer than the iteration -/
theorem C04_iterations {env : Env} {qfuel : Nat} {p : Position} {maxDepth : Nat} {killers : Killers}
    {rows : Array (Array Move)} {len0 : Nat} {s : SS} (hq : env.Quiet)
    (h : iterDeep env qfuel p maxDepth killers rows len0 = .ok s) :
    (∃ score rest, s.out = .bestmoveNone :: .infoTerminal score :: rest ∧ depthsOf s.out = []) ∨
    (∃ m best done nodes pv rest, s.out = .bestmove m :: .infoPv best done nodes pv :: rest ∧
       (depthsOf s.out).reverse = List.range' 2 (done - 1) ∧ 1 ≤ done ∧ done ≤ max 1 maxDepth ∧
       (done < maxDepth →
          (2 ≤ done ∧ pliesToMate best = done) ∨
          ∃ len sb len' sa, startAlphaBeta env qfuel p done len sb = .ok (best, true, len', sa))) :=
  C04Iter.C04_iterations hq h

end Magog.Props.C04
