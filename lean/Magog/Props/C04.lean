import Magog.Model.Eval
import Magog.Model.Time

/-! Property C04 — theorems (see DESIGN §5). -/

namespace Magog.Props.C04

end Magog.Props.C04
