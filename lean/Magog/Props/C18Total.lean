import Magog.Lemmas.Total
import Magog.Lemmas.PvWitness
import Magog.Lemmas.AlphaBetaWitness

/-! Properties C17 / C18, the engine side — on a well-formed legal position NO engine operation panics, and the
    search never exhausts a fixed capacity.

`G p := Inv p ∧ MM.OppSafe p` (`Magog/Lemmas/Total.lean`): the shared well-formedness invariant `Inv`
(`Magog/Lemmas/Inv.lean`) and "the side NOT to move is not in check". `G` holds of the start position, of EVERY
position the FEN loader accepts (`G_of_fen`, from C02.fen_inv and C08.fen_oppSafe), and is kept by every generated
move that `makeMove` accepts (`G_child`, from C02). Model panics are explicit `Except.error` values; "never panics" is
`∃ r, f x = .ok r`.

PART 1 (one position; all FULL, none `_partial`):
* `generateMoves_total`, `generateTacticalMoves_total` — the legal generators return normally and every listed move
  is generated and accepted, so the search's / perft's `panic("… illegal position")` is dead code.
* `countMoves_total`, `countMoves_flip_total`, `countTacticalMoves_total` — need ONLY `Inv`: the counters call
  `MakeMove` on moves the generator never produces (promo-0 pawn moves onto the last rank, king steps onto attacked
  squares, and — in the position with the side to move flipped, which `LazyEvaluate` counts — captures of the king,
  wrong-coloured en-passant squares); `makeMove_total_of_moveOk` covers them.
* `lazyEvaluate_total`, `evaluate_total` (every `blend`, depth, window), `isCheckMate_total`, `terminalNodeScore_total`.
* `applyUciMove_total` — the UCI string of a generated legal move re-applies (the reconstructed en-passant target is
  the generator's) and leads to a good position.
* `perft_total`, `perftTactical_total`, `perftDivide_total`, `tperftDivide_total` — within the position stack.

PART 2 (the search; all FULL): `mu_le`, `tactical_decreases` (quiescence measure), `quiescence_total`,
`alphaBeta_total`, `startAlphaBeta_total`, and the main theorem `iterDeep_total` / `iterDeep_total_newRows`:
iterative deepening to any `maxDepth ≤ MaxSearchDepth` with the allocated table (`pvRows` rows), position stack
(`plyBufferCapacity`), killer table, a non-zero `currmoveLogInterval`, a sort that does not invent moves, and
quiescence fuel `> maxQuiescenceDepth` returns normally for EVERY clock / stop / print-gate oracle and every
`blend`: no PV-table index, no stack slot, no `currmove` index, no empty line in `printInfo`, no `hang`.
No finiteness-of-evaluation hypothesis is needed.

FINDING (see `Props/C17.lean`, `Lemmas/UciFenWitness.lean`): `G` cannot be weakened to `Inv`: on the well-formed
position White Kf1 Re1, Black Ke8, WHITE to move (Black, not to move, in check) `perft 3` panics ("Unexpected piece
found"): the rook captures the king, which `MakeMove` does not book (`UciTotal.checkWitness_perft_panics`).
HISTORY: the unrepaired FEN loader ACCEPTED that position (`4k3/8/8/8/8/8/8/4RK2 w - - 0 1`), i.e. it did not
establish `OppSafe`; this was proved here, the engine was repaired (the loader now rejects a FEN with the side not
to move in check), and `G_of_fen` no longer needs `OppSafe` as a hypothesis. -/

namespace Magog.Props.C18Total
open Magog Magog.Model Magog.MM Magog.Total

/-! ## the invariant -/

theorem G_start : G startPosition := Total.G_start

/-- every position the FEN loader accepts is good (no hypothesis on the FEN any more: the loader itself rejects
    positions with the side not to move in check) -/
theorem G_of_fen {s : Bytes} {p : Position} (h : parseFen s = .ok (.ok p)) : G p :=
  Total.G_of_fen h

example : ∃ p, parseFen (FenSpec.strBytes "4k3/8/8/8/8/8/8/4RK2 b - - 0 1") = .ok (.ok p) ∧ G p :=
  (FenLemmas.accepted_iff.1 (by decide +kernel)).imp fun _ hp => ⟨hp, G_of_fen hp⟩

theorem G_child {p q : Position} {m : Move} (hg : G p) (hG : Generated p m) (h : makeMove p m = .ok (q, true)) :
    G q :=
  Total.G_child hg hG h

/-- 1.e4 from the start position leads to a good position -/
example : ∃ q, makeMove startPosition ⟨0x14, 0x34, 0, 0x24⟩ = .ok (q, true) ∧ G q := by
  obtain ⟨_, q, h, _⟩ := gameOk_of_B (kt := Killers.empty) (p := startPosition)
    (ms := [⟨0x14, 0x34, 0, 0x24⟩]) (by decide +kernel)
  exact ⟨q, h, G_child G_start Props.C02.generated_e2e4 h⟩

/-! ## Part 1 — generation, counting, evaluation, perft, UCI moves -/

/-- 1. The legal move generator never panics on a good position, and every move it lists is a generated move
    that `makeMove` accepts (verdict `true`). -/
theorem generateMoves_total {p : Position} {kt : Killers} (hg : G p) (hk : kt.size = Gen.killerMovesMaxPly) :
    ∃ ms, generateMoves kt p = .ok ms ∧
      ∀ rm ∈ ms, Generated p rm.mov ∧ ∃ q, makeMove p rm.mov = .ok (q, true) :=
  Total.generateMoves_total hg hk

example : ∃ ms, generateMoves Killers.empty startPosition = .ok ms ∧
    ∀ rm ∈ ms, Generated startPosition rm.mov ∧ ∃ q, makeMove startPosition rm.mov = .ok (q, true) :=
  generateMoves_total G_start Props.C18.killers_empty_size

/-- 2. The tactical generator likewise. -/
theorem generateTacticalMoves_total {p : Position} (hg : G p) :
    ∃ ts, generateTacticalMoves p = .ok ts ∧
      ∀ rm ∈ ts, Generated p rm.mov ∧ ∃ q, makeMove p rm.mov = .ok (q, true) :=
  Total.generateTacticalMoves_total hg

example : ∃ ts, generateTacticalMoves startPosition = .ok ts := by
  obtain ⟨ts, h, _⟩ := generateTacticalMoves_total G_start
  exact ⟨ts, h⟩

/-- 3a. `countMoves` never panics on a well-formed position (`Inv` alone: `OppSafe` is not needed). -/
theorem countMoves_total {p : Position} (hI : Inv p) : ∃ n, countMoves p = .ok n := Total.countMoves_total hI

/-- 3b. … nor on the position with the side to move flipped (what `LazyEvaluate` counts for the opponent):
    there the en-passant square has the wrong colour and the "mover" may capture the king. -/
theorem countMoves_flip_total {p : Position} (hI : Inv p) : ∃ n, countMoves (flipTurn p) = .ok n :=
  Total.countMoves_flip_total hI

/-- 3c. `countTacticalMoves` never panics on a well-formed position. -/
theorem countTacticalMoves_total {p : Position} (hI : Inv p) : ∃ n, countTacticalMoves p = .ok n :=
  Total.countTacticalMoves_total hI

example : (∃ n, countMoves startPosition = .ok n) ∧ (∃ n, countMoves (flipTurn startPosition) = .ok n) ∧
    (∃ n, countTacticalMoves startPosition = .ok n) :=
  ⟨countMoves_total inv_startPosition, countMoves_flip_total inv_startPosition,
   countTacticalMoves_total inv_startPosition⟩

/-- the lemma behind 3: `makeMove` never panics on a "simple" move of a man of the side to move to an empty
    square or onto ANY enemy man (also the king; also a pawn arriving on the last rank with `promo = 0`), on a
    position that is well-formed up to its en-passant field. -/
theorem makeMove_total_of_moveOk {p : Position} {w : Bool} {m : Move} {v t : Nat}
    (hI : InvNoEp p) (hw : whiteTurn p = w) (h : MoveOk p w m v t) : ∃ r, makeMove p m = .ok r :=
  Total.makeMove_total_of_moveOk hI hw h

/-- 3d. The evaluation never panics on a good position — every `blend`, depth and window. -/
theorem lazyEvaluate_total {p : Position} (hg : G p) (blend : Blend) (d a b : Int) :
    ∃ x, lazyEvaluate blend p d a b = .ok x :=
  Total.lazyEvaluate_total hg blend d a b

theorem evaluate_total {p : Position} (hg : G p) (blend : Blend) (d : Int) : ∃ x, evaluate blend p d = .ok x :=
  Total.evaluate_total hg blend d

theorem isCheckMate_total {p : Position} (hg : G p) : ∃ b, isCheckMate p = .ok b := Total.isCheckMate_total hg

theorem terminalNodeScore_total {p : Position} (hg : G p) (d : Int) : ∃ x, terminalNodeScore p d = .ok x :=
  Total.terminalNodeScore_total hg d

example (blend : Blend) : (∃ x, evaluate blend startPosition 0 = .ok x) ∧ (∃ b, isCheckMate startPosition = .ok b) ∧
    (∃ x, terminalNodeScore startPosition 3 = .ok x) :=
  ⟨evaluate_total G_start blend 0, isCheckMate_total G_start, terminalNodeScore_total G_start 3⟩

/-- 4. `ApplyUciMove` on the UCI string (from, to, promotion piece) of a generated legal move returns normally —
    the en-passant target it reconstructs for a double push is the generator's — and the new position is good. -/
theorem applyUciMove_total {p : Position} {m : Move} (hg : G p) (hG : Generated p m)
    (hacc : ∃ q, makeMove p m = .ok (q, true)) :
    ∃ p', applyUciMove p ⟨m.frm, m.to, m.promo, InvalidSq⟩ = .ok p' ∧ G p' :=
  Total.applyUciMove_total hg hG hacc

/-- on 1.e4: the move carries the en-passant square e3, its UCI string does not -/
example : ∃ p', applyUciMove startPosition ⟨0x14, 0x34, 0, InvalidSq⟩ = .ok p' ∧ G p' := by
  obtain ⟨_, q, h, _⟩ := gameOk_of_B (kt := Killers.empty) (p := startPosition)
    (ms := [⟨0x14, 0x34, 0, 0x24⟩]) (by decide +kernel)
  exact applyUciMove_total (m := ⟨0x14, 0x34, 0, 0x24⟩) G_start Props.C02.generated_e2e4 ⟨q, h⟩

/-- 5. perft never panics as long as the position stack has a slot for every ply (`idx + d < cap`). -/
theorem perft_total {kt : Killers} (hk : kt.size = Gen.killerMovesMaxPly) {cap d idx : Nat} {p : Position}
    (hg : G p) (h : idx + d < cap) : ∃ n, perft kt cap d idx p = .ok n :=
  Total.perft_total hk hg h

theorem perftTactical_total {kt : Killers} (hk : kt.size = Gen.killerMovesMaxPly) {cap d idx : Nat} {p : Position}
    (hg : G p) (h : idx + d < cap) : ∃ n, perftTactical kt cap d idx p = .ok n :=
  Total.perftTactical_total hk hg h

/-- `perft <d>` / `tperft <d>` of the UCI layer for every depth it admits (`0 < d < plyBufferCapacity`) -/
theorem perftDivide_total {kt : Killers} (hk : kt.size = Gen.killerMovesMaxPly) {cap d : Nat} {p : Position}
    (hg : G p) (hd0 : 0 < d) (hd : d < cap) : ∃ r, perftDivide kt cap p d = .ok r :=
  Total.perftDivide_total hk hg hd0 hd

theorem tperftDivide_total {kt : Killers} (hk : kt.size = Gen.killerMovesMaxPly) {cap d : Nat} {p : Position}
    (hg : G p) (hd0 : 0 < d) (hd : d < cap) : ∃ r, tperftDivide kt cap p d = .ok r :=
  Total.tperftDivide_total hk hg hd0 hd

example : (∃ n, perft Killers.empty Gen.plyBufferCapacity 199 0 startPosition = .ok n) ∧
    (∃ r, perftDivide Killers.empty Gen.plyBufferCapacity startPosition 199 = .ok r) ∧
    (∃ r, tperftDivide Killers.empty Gen.plyBufferCapacity startPosition 199 = .ok r) :=
  ⟨perft_total Props.C18.killers_empty_size G_start (by decide),
   perftDivide_total Props.C18.killers_empty_size G_start (by decide) (by decide),
   tperftDivide_total Props.C18.killers_empty_size G_start (by decide) (by decide)⟩

/-! ## Part 2 — the search -/

/-- the quiescence measure: 2·(pawns of both sides) + (knights, bishops, rooks, queens of both sides) is at most
    the source constant `maxQuiescenceDepth` on every well-formed position … -/
theorem mu_le {p : Position} (hI : Inv p) : TotalMeasure.mu p ≤ Gen.maxQuiescenceDepth := TotalMeasure.mu_le hI

/-- … and every move of the tactical generator (capture, en-passant capture, promotion) that `makeMove` accepts
    strictly lowers it: quiescence terminates. -/
theorem tactical_decreases {p q : Position} {ts : List RMove} {rm : RMove} (hg : G p)
    (ht : generateTacticalMoves p = .ok ts) (hrm : rm ∈ ts) (hm : makeMove p rm.mov = .ok (q, true)) :
    TotalMeasure.mu q < TotalMeasure.mu p :=
  TotalMeasure.tactical_decreases hg.1 hg.2 ht hrm hm

example : TotalMeasure.mu startPosition ≤ Gen.maxQuiescenceDepth := mu_le inv_startPosition

/-- every per-node operation of the search is total on good positions, for every environment -/
theorem searchOps (env : Env) : SearchTotal.SearchOps env G TotalMeasure.mu := Total.searchOps env

/-- `quiescence` at depth `d` / stack index `idx` returns normally when fuel, table rows and stack slots cover
    `mu p` more plies; the table keeps its shape, the returned line length fits its row. -/
theorem quiescence_total {env : Env} (hsort : SortSound env) (hlog : env.logInterval ≠ 0) {D : Nat}
    (fuel : Nat) (p : Position) (idx d : Nat) (α β : Int) (curLen : Nat) (s : SS)
    (hg : G p) (hf : TotalMeasure.mu p < fuel) (hD : d + TotalMeasure.mu p + 1 < D)
    (hst : idx + TotalMeasure.mu p < env.stackCap) (hrows : SearchTotal.RowsTri s.rows D)
    (hk : s.killers.size = Gen.killerMovesMaxPly) (hin : InRange s) (hlen : curLen ≤ D - d) :
    ∃ v len s', quiescence env fuel p idx d α β curLen s = .ok (v, len, s') ∧ SearchTotal.Post D d s len s' :=
  SearchTotal.quiescence_total (searchOps env) hsort hlog fuel p idx d α β curLen s hg hf hD hst hrows hk hin hlen

/-- `alphaBeta` with `rem` plies to go -/
theorem alphaBeta_total {env : Env} (hsort : SortSound env) (hlog : env.logInterval ≠ 0) {D qfuel : Nat}
    (hq : Gen.maxQuiescenceDepth < qfuel) (rem : Nat) (p : Position) (idx d : Nat) (α β : Int) (curLen : Nat)
    (s : SS) (hg : G p) (hD : d + rem + Gen.maxQuiescenceDepth + 1 < D)
    (hst : idx + rem + Gen.maxQuiescenceDepth < env.stackCap) (hrows : SearchTotal.RowsTri s.rows D)
    (hk : s.killers.size = Gen.killerMovesMaxPly) (hin : InRange s) (hlen : curLen ≤ D - d) :
    ∃ v len s', alphaBeta env qfuel rem p idx d α β curLen s = .ok (v, len, s') ∧ SearchTotal.Post D d s len s' :=
  SearchTotal.alphaBeta_total (searchOps env) hsort hlog hq rem p idx d α β curLen s hg hD hst hrows hk hin hlen

/-- one iteration from the root -/
theorem startAlphaBeta_total {env : Env} (hsort : SortSound env) (hlog : env.logInterval ≠ 0) {D qfuel : Nat}
    (hq : Gen.maxQuiescenceDepth < qfuel) {p : Position} (target curLen : Nat) (s : SS) (hg : G p)
    (ht : 1 ≤ target) (hD : target + Gen.maxQuiescenceDepth + 1 < D)
    (hst : target + Gen.maxQuiescenceDepth < env.stackCap) (hrows : SearchTotal.RowsTri s.rows D)
    (hk : s.killers.size = Gen.killerMovesMaxPly) :
    ∃ score one len s', startAlphaBeta env qfuel p target curLen s = .ok (score, one, len, s') ∧
      SearchTotal.RowsTri s'.rows D ∧ s'.killers.size = Gen.killerMovesMaxPly :=
  by
    obtain ⟨score, one, len, s', h, h1, h2, _⟩ :=
      SearchTotal.startAlphaBeta_total (searchOps env) hsort hlog hq target curLen s hg ht hD hst hrows hk
    exact ⟨score, one, len, s', h, h1, h2⟩

/-- **C18, main theorem.** Iterative deepening never panics: for every good position, every killer table of
    the allocated size, every triangular PV table with `pvRows` rows (row `i` with `pvRows − i` slots), a position
    stack of `plyBufferCapacity` slots, a non-zero `currmoveLogInterval`, every `maxDepth ≤ MaxSearchDepth`,
    quiescence fuel above `maxQuiescenceDepth`, a sort function that does not invent moves — and EVERY
    clock / stop-channel / print-gate oracle, every `blend`, lazy or full evaluation, any incoming line length. -/
theorem iterDeep_total {env : Env} {p : Position} (hg : G p) {kt : Killers} (hk : kt.size = Gen.killerMovesMaxPly)
    {rows : Array (Array Move)} (hrows : SearchTotal.RowsTri rows Gen.pvRows.toNat)
    (hst : env.stackCap = Gen.plyBufferCapacity) (hlog : env.logInterval ≠ 0)
    {maxDepth : Nat} (hmd : maxDepth ≤ Gen.MaxSearchDepth) {qfuel : Nat} (hq : Gen.maxQuiescenceDepth + 1 ≤ qfuel)
    (hsort : SortSound env) (len0 : Nat) :
    ∃ s, iterDeep env qfuel p maxDepth kt rows len0 = .ok s := by
  have h1 := Props.C18.pv_rows_suffice
  have h2 := Props.C18.stack_suffices
  have h3 := Props.C18.quiescence_bound_is_source_constant
  have h4 : 1 ≤ Gen.MaxSearchDepth := by decide
  exact SearchTotal.iterDeep_total (searchOps env) hsort hlog hg hk hrows (by omega) (by rw [hst]; omega) (by omega) len0

/-- the same for the table `NewSearch` allocates -/
theorem iterDeep_total_newRows {env : Env} {p : Position} (hg : G p) {kt : Killers}
    (hk : kt.size = Gen.killerMovesMaxPly) (hpv : env.pvRows = Gen.pvRows.toNat)
    (hst : env.stackCap = Gen.plyBufferCapacity) (hlog : env.logInterval ≠ 0)
    {maxDepth : Nat} (hmd : maxDepth ≤ Gen.MaxSearchDepth) {qfuel : Nat} (hq : Gen.maxQuiescenceDepth + 1 ≤ qfuel)
    (hsort : SortSound env) (len0 : Nat) :
    ∃ s, iterDeep env qfuel p maxDepth kt (newRows env.pvRows) len0 = .ok s :=
  iterDeep_total hg hk (by rw [hpv]; exact SearchTotal.rowsTri_newRows _) hst hlog hmd hq hsort len0

/-- the hypotheses are satisfiable: the start position, the empty killer table, the allocated table, full depth,
    an environment whose clock, stop channel and print gate fire at arbitrary consultations, lazy evaluation and a
    sort that really reorders (reverse) -/
example : ∃ s, iterDeep
    { Magog.Lemmas.AlphaBeta.demoEnvLazy with
        timeUp := fun n => n % 7 == 3, stopAt := fun n => n % 5 == 1, gateOpen := fun n => n % 2 == 0 }
    (Gen.maxQuiescenceDepth + 1) startPosition Gen.MaxSearchDepth Killers.empty (newRows Gen.pvRows.toNat) 0 = .ok s :=
  iterDeep_total_newRows (env := { Magog.Lemmas.AlphaBeta.demoEnvLazy with
        timeUp := fun n => n % 7 == 3, stopAt := fun n => n % 5 == 1, gateOpen := fun n => n % 2 == 0 })
    G_start Props.C18.killers_empty_size rfl rfl (by decide) (Nat.le_refl _) (Nat.le_refl _)
    (PvWitness.sortSound_of_perm (fun l => List.reverse_perm l)) 0

end Magog.Props.C18Total
