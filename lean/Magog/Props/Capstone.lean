import Magog.Lemmas.Capstone
import Magog.Props.C03
import Magog.Props.C04
import Magog.Props.C05
import Magog.Props.C10
import Magog.Props.C14
import Magog.Props.C18Total

/-! CAPSTONE — the search theorems in the terms of the RULES OF CHESS.

The per-property theorems C03 / C04 / C05 / C10 / C14 are stated on the engine model's own game tree (a move is
"legal" when `generateMoves` lists it, a forced mate is `winsInM / losesInM` over the model's generator) and carry
hypotheses about an abstract set `G` of positions (`Closed`, `GenClosed`, `EvalFinite`, `EvalRange`, `EvalBoundOn`,
`GenLink`, "the check test does not panic"). Here they are combined with C01 (the generator lists exactly the legal
moves), C02 (`makeMove` is the rules' `Spec.apply`; the invariant is kept), C06 (counters), C18 (no panic) into
statements about

    `Spec.legal`, `Spec.legalMoves`, `Spec.apply`, `Spec.play`, `Spec.isMated`, `Spec.winsIn`, `Spec.losesIn`
                                                                                (`Magog/Spec/Chess.lean`)

on the set of GOOD positions

    `Total.G p := Inv p ∧ OppSafe p`   — well-formed, and the side not to move is not in check —

which contains the start position (`Total.G_start`), EVERY position the FEN loader accepts (`Total.G_of_fen`) and is
closed under legal moves. `abs p : Spec.Pos` is the chess position an engine position denotes, `absMove m` the chess
move an engine move denotes.

Remaining hypotheses, and nothing else:
* `BlendBounded env.blend pstMaxAbs` — the recorded parameter assumption on the float king-table interpolation:
  on material sums `≤ maxMaterialSum` the blend of two table values is within `blendK · pstMaxAbs` (the engine
  does not clamp the game-phase factor, so the blend extrapolates with promoted pieces; the assumption is true of
  the exact interpolation, `Lemmas.EvalBound.blendBounded_exact`);
* `PermSort env` — the sort function only reorders;
* the allocated shapes (PV table with `Gen.pvRows` triangular rows, position stack `Gen.plyBufferCapacity`, killer
  table `Gen.killerMovesMaxPly`, `maxDepth ≤ Gen.MaxSearchDepth`, quiescence fuel `> Gen.maxQuiescenceDepth`,
  `currmoveLogInterval ≠ 0`) where "never panics" is claimed;
* for the VALUE theorems (C04, C05) in addition `Quiet env` (no time-out / stop: an interrupted iteration is
  discarded, C11) and `LazyOn env Total.G` (the lazy-evaluation margin assumption, only when `env.lazy = true`).

All theorems are FULL (none is `_partial`). Helper lemmas: `Magog/Lemmas/Capstone.lean`. -/

namespace Magog.Props.Capstone
open Magog Magog.Model Magog.Total
open Magog.Lemmas.AlphaBeta Magog.Lemmas.EvalBound Magog.Lemmas.MateValue Magog.Spec.MateM Magog.Spec.Minimax
open Magog.Capstone (noisyEnv start_has_moves start_legal_count m1_good foolsMate_good)

/-! ## 1. The hypotheses about `G`, once and for all -/

/-- `Total.G` is closed under the moves of both legal generators, in the sense used by C10 / C14 … -/
theorem G_closed : GenClosed (fun _ p => Total.G p) := Magog.Capstone.G_closed

example : Total.G startPosition := Total.G_start

/-- … and in the sense used by C04 / C05 (the verdict of `makeMove` on a listed move is always `true`). -/
theorem closed_G : Closed Total.G := Magog.Capstone.closed_G

/-- With a bounded blend every static and terminal score on a good position is strictly between `−∞` and `+∞`
    (`|score| ≤ evalB = 20 650`, or the mate score `Lost + d`), for every PV table of at most 10 000 rows (the
    engine allocates `Gen.pvRows = 88`): C10's / C14's hypothesis `EvalFinite`. -/
theorem evalFinite_of_blendBounded {env : Env} (hb : BlendBounded env.blend pstMaxAbs)
    {rows : Array (Array Move)} (hD : rows.size ≤ 10000) :
    EvalFinite env (fun _ p => Total.G p) rows.size :=
  Magog.Capstone.evalFinite_of_blendBounded hb hD

example : BlendBounded demoEnvLazy.blend pstMaxAbs ∧ (newRows Gen.pvRows.toNat).size ≤ 10000 :=
  ⟨demoBlend_bounded, by simp [newRows, Gen.pvRows]⟩

/-- C05's hypotheses `GenLink`, `EvalBoundOn`, "the check test does not panic", and C04's `EvalRange` (depth
    budget 10 000), on `Total.G`. -/
theorem genLink_G : GenLink Total.G := Magog.Capstone.genLink_G

theorem evalBoundOn_G {blend : Blend} (hb : BlendBounded blend pstMaxAbs) : EvalBoundOn blend Total.G :=
  Magog.Capstone.evalBoundOn_G hb

theorem evalRange_G {blend : Blend} (hb : BlendBounded blend pstMaxAbs) : EvalRange blend Total.G 10000 :=
  Magog.Capstone.evalRange_G hb

theorem check_total_G : ∀ p, Total.G p → ∃ c, isCurrentKingUnderCheck p = .ok c := Magog.Capstone.chk_G

example : BlendBounded demoBlend pstMaxAbs := demoBlend_bounded

/-- The specification value of C04 / C05 — the plain minimax value `rootV` of the depth-`target` tree — is DEFINED
    on every good position (no node of the full tree panics, quiescence terminates) as soon as the quiescence fuel
    exceeds the source constant `maxQuiescenceDepth`; for every blend. -/
theorem rootV_defined (blend : Blend) {qfuel : Nat} (hq : Gen.maxQuiescenceDepth < qfuel) (target : Nat)
    {p : Position} (hg : Total.G p) : ∃ w, rootV blend qfuel target p = .ok w :=
  Magog.Capstone.rootV_total blend hq target hg

example : Gen.maxQuiescenceDepth < Gen.maxQuiescenceDepth + 1 ∧ Total.G startPosition :=
  ⟨Nat.lt_succ_self _, Total.G_start⟩

/-- **Generated = legal, applied = the rules' successor.** On a good position a move listed by the full move
    generator (any killer table) or by the tactical generator and applied by `makeMove` is a legal move of the
    rules, the new position denotes exactly `Spec.apply`, and is good again. -/
theorem generated_move_is_legal {p q : Position} {m : Move} (hg : Total.G p) (h : GenFull p m ∨ GenTac p m)
    (hmk : makeMove p m = .ok (q, true)) :
    Spec.legal (abs p) (absMove m) = true ∧ abs q = Spec.apply (abs p) (absMove m) ∧ Total.G q :=
  Magog.Capstone.legal_of_gen hg h hmk

/-- instance: all 20 moves the generator lists in the start position are legal moves of the rules, and each
    successor is the rules' -/
example : ∃ ms, generateMoves Killers.empty startPosition = .ok ms ∧ ms.length = 20 ∧
    ∀ rm ∈ ms, ∃ q, makeMove startPosition rm.mov = .ok (q, true) ∧
      Spec.legal (abs startPosition) (absMove rm.mov) = true ∧
      abs q = Spec.apply (abs startPosition) (absMove rm.mov) ∧ Total.G q := by
  obtain ⟨ms, hms, hall⟩ := Total.generateMoves_total Total.G_start Props.C18.killers_empty_size
  refine ⟨ms, hms, by rw [Magog.Capstone.gen_length Total.G_start hms, start_legal_count], fun rm hrm => ?_⟩
  obtain ⟨_, q, hq⟩ := hall rm hrm
  exact ⟨q, hq, generated_move_is_legal Total.G_start (.inl ⟨_, ms, hms, List.mem_map.2 ⟨rm, hrm, rfl⟩⟩) hq⟩

/-- **A legal line of the model is a game of the rules** (`LegalLine`: every move produced by a legal generator at
    the position reached and accepted by `makeMove`). -/
theorem legalLine_is_play {p : Position} {pv : List Move} (hg : Total.G p) (h : LegalLine p pv) :
    ∃ q, Total.G q ∧ Spec.play (abs p) (pv.map absMove) = some (abs q) :=
  Magog.Capstone.play_of_legalLine pv hg h

/-- instance: a one-move line from the start position -/
example : ∃ m, LegalLine startPosition [m] ∧
    ∃ q, Total.G q ∧ Spec.play (abs startPosition) ([m].map absMove) = some (abs q) := by
  obtain ⟨ms, hms, hall⟩ := Total.generateMoves_total Total.G_start Props.C18.killers_empty_size
  have hl : ms.length = 20 := by rw [Magog.Capstone.gen_length Total.G_start hms, start_legal_count]
  cases ms with
  | nil => cases hl
  | cons rm tl =>
    obtain ⟨_, q, hq⟩ := hall rm List.mem_cons_self
    have hline : LegalLine startPosition [rm.mov] :=
      ⟨q, .inl ⟨_, _, hms, List.mem_map.2 ⟨rm, List.mem_cons_self, rfl⟩⟩, hq, trivial⟩
    exact ⟨rm.mov, hline, legalLine_is_play Total.G_start hline⟩

/-! ## 2. C03 / C10 — the move played and the lines printed, in the terms of the rules -/

/-- **C03 + C10 + C18, capstone. Every `go` on a position with a legal move is answered — without panic, for EVERY
    clock / stop / print-gate oracle — by exactly one `bestmove m`, printed last, and `m` is a LEGAL MOVE OF THE
    RULES OF CHESS.**

    For every good position `p` (`Total.G`: e.g. the start position, every position the FEN loader accepts, every
    position reached from these by legal moves) in which the rules give at least one legal move; every environment
    whose blend is bounded, whose sort only reorders and whose `currmoveLogInterval` is non-zero; the allocated
    shapes (position stack, killer table, a triangular PV table of `Gen.pvRows` rows with ARBITRARY stale contents
    and stale header length `len0` — `newRows Gen.pvRows.toNat` is one, `SearchTotal.rowsTri_newRows`); every
    `maxDepth ≤ MaxSearchDepth`; quiescence fuel above the source constant `maxQuiescenceDepth`. -/
theorem C03_bestmove_is_legal_chess_move {env : Env} {p : Position} (hg : Total.G p)
    (hmoves : Spec.legalMoves (abs p) ≠ [])
    (hb : BlendBounded env.blend pstMaxAbs) (hsort : PermSort env) (hlog : env.logInterval ≠ 0)
    (hst : env.stackCap = Gen.plyBufferCapacity)
    {kt : Killers} (hk : kt.size = Gen.killerMovesMaxPly)
    {rows : Array (Array Move)} (hrows : SearchTotal.RowsTri rows Gen.pvRows.toNat)
    {maxDepth : Nat} (hmd : maxDepth ≤ Gen.MaxSearchDepth)
    {qfuel : Nat} (hq : Gen.maxQuiescenceDepth + 1 ≤ qfuel) (len0 : Nat) :
    ∃ s, iterDeep env qfuel p maxDepth kt rows len0 = .ok s ∧
      ∃ m rest, s.out = .bestmove m :: rest ∧ Spec.legal (abs p) (absMove m) = true ∧
        s.out.countP Event.isBest = 1 := by
  have hss := PvWitness.sortSound_of_perm hsort
  obtain ⟨s, hs⟩ := Props.C18Total.iterDeep_total hg hk hrows hst hlog hmd hq hss len0
  have hsz : rows.size ≤ 10000 := by rw [hrows.1]; decide
  have hfin := Magog.Capstone.evalFinite_of_blendBounded hb hsz
  have H : PvHyps env (fun _ p => Total.G p) rows.size := ⟨hss, Magog.Capstone.G_closed, hfin⟩
  refine ⟨s, hs, ?_⟩
  obtain ⟨e, rest, hout, _, _, hcount, score, one, l, s1, hsab, hnone, _, hbest⟩ := Props.C03.C03_one_bestmove hs
  have hne : rowPrefix s1 0 l ≠ [] := by
    refine Magog.Capstone.startAlphaBeta_nonempty H hsab hg (Nat.le_refl _) rfl ?_
    intro ms hms hnil
    subst hnil
    have hms' : generateMoves kt p = .ok [] := hms
    have := (Props.C01.C01_mate_stalemate hg.1 hg.2 hk).1 hms'
    exact hmoves (List.isEmpty_iff.1 this)
  obtain ⟨m, rfl⟩ := hbest (fun he => hne (hnone.1 he))
  exact ⟨m, rest, hout, Magog.Capstone.legal_of_genFull hg
    (Props.C10.C10_bestmove_legal hs hsort hg Magog.Capstone.G_closed hfin hout).1, hcount⟩

/-- the same for the table `NewSearch` allocates -/
theorem C03_bestmove_is_legal_chess_move_newRows {env : Env} {p : Position} (hg : Total.G p)
    (hmoves : Spec.legalMoves (abs p) ≠ [])
    (hb : BlendBounded env.blend pstMaxAbs) (hsort : PermSort env) (hlog : env.logInterval ≠ 0)
    (hpv : env.pvRows = Gen.pvRows.toNat) (hst : env.stackCap = Gen.plyBufferCapacity)
    {kt : Killers} (hk : kt.size = Gen.killerMovesMaxPly)
    {maxDepth : Nat} (hmd : maxDepth ≤ Gen.MaxSearchDepth)
    {qfuel : Nat} (hq : Gen.maxQuiescenceDepth + 1 ≤ qfuel) (len0 : Nat) :
    ∃ s, iterDeep env qfuel p maxDepth kt (newRows env.pvRows) len0 = .ok s ∧
      ∃ m rest, s.out = .bestmove m :: rest ∧ Spec.legal (abs p) (absMove m) = true ∧
        s.out.countP Event.isBest = 1 :=
  C03_bestmove_is_legal_chess_move hg hmoves hb hsort hlog hst hk
    (by rw [hpv]; exact SearchTotal.rowsTri_newRows _) hmd hq len0

/-- non-vacuity, and an instance of the conclusion: from the start position, full depth, under `noisyEnv` the engine
    answers with exactly one `bestmove`, a legal chess move -/
example : ∃ s, iterDeep noisyEnv (Gen.maxQuiescenceDepth + 1) startPosition Gen.MaxSearchDepth Killers.empty
      (newRows noisyEnv.pvRows) 0 = .ok s ∧
    ∃ m rest, s.out = .bestmove m :: rest ∧ Spec.legal (abs startPosition) (absMove m) = true ∧
      s.out.countP Event.isBest = 1 :=
  C03_bestmove_is_legal_chess_move_newRows Total.G_start start_has_moves demoBlend_bounded
    (fun l => List.reverse_perm l) (by decide) rfl rfl Props.C18.killers_empty_size (Nat.le_refl _) (Nat.le_refl _) 0

/-- the same from a FEN: EVERY position the FEN loader accepts is good (`Total.G_of_fen`: C02.fen_inv and
    C08.fen_oppSafe), so `position fen … ; go` on a position with a legal move is answered by a legal chess move -/
theorem C03_bestmove_from_fen {fen : Bytes} {env : Env} {p : Position} (hfen : parseFen fen = .ok (.ok p))
    (hmoves : Spec.legalMoves (abs p) ≠ [])
    (hb : BlendBounded env.blend pstMaxAbs) (hsort : PermSort env) (hlog : env.logInterval ≠ 0)
    (hpv : env.pvRows = Gen.pvRows.toNat) (hst : env.stackCap = Gen.plyBufferCapacity)
    {kt : Killers} (hk : kt.size = Gen.killerMovesMaxPly)
    {maxDepth : Nat} (hmd : maxDepth ≤ Gen.MaxSearchDepth)
    {qfuel : Nat} (hq : Gen.maxQuiescenceDepth + 1 ≤ qfuel) (len0 : Nat) :
    ∃ s, iterDeep env qfuel p maxDepth kt (newRows env.pvRows) len0 = .ok s ∧
      ∃ m rest, s.out = .bestmove m :: rest ∧ Spec.legal (abs p) (absMove m) = true ∧
        s.out.countP Event.isBest = 1 :=
  C03_bestmove_is_legal_chess_move_newRows (Total.G_of_fen hfen) hmoves hb hsort hlog hpv hst hk hmd hq len0

set_option maxRecDepth 100000 in
/-- non-vacuity: the FEN of a king-and-pawn ending is accepted and its position has a legal move (Ke1-d1) -/
example : ∃ p, parseFen (FenSpec.strBytes "4k3/8/8/8/8/8/4P3/4K3 w - - 0 1") = .ok (.ok p) ∧
    Spec.legalMoves (abs p) ≠ [] := by
  obtain ⟨p, hp⟩ := FenLemmas.accepted_iff.1
    (show FenSpec.accepted (parseFen (FenSpec.strBytes "4k3/8/8/8/8/8/4P3/4K3 w - - 0 1")) = true by decide +kernel)
  have hl : (match parseFen (FenSpec.strBytes "4k3/8/8/8/8/8/4P3/4K3 w - - 0 1") with
      | .ok (.ok p) => Spec.legal (abs p) ⟨4, 3, none⟩ | _ => false) = true := by decide +kernel
  rw [hp] at hl
  refine ⟨p, hp, fun h => ?_⟩
  have := ((Props.C01.legalMoves_spec (abs p)).2 ⟨4, 3, none⟩).2 hl
  rw [h] at this
  cases this

/-- **C10, capstone. Every principal variation printed during a search is a game of the rules of chess from the
    searched position**: each `pv` of an `info score … pv` (`infoPv`) or `info depth … pv` (`infoDepth`) line is
    non-empty and `Spec.play (abs p) (pv.map absMove)` succeeds — every move is legal by the rules in the position
    the rules define after the moves before it — ending in (the position denoted by) a good engine position.
    For every oracle (interrupted iterations included), every killer table, every stale content and header length of
    a PV table of at most 10 000 rows; partial correctness (the run succeeds: it does under the shapes of
    `C03_bestmove_is_legal_chess_move`). -/
theorem C10_pv_is_legal_chess_line {env : Env} {p : Position} (hg : Total.G p)
    (hb : BlendBounded env.blend pstMaxAbs) (hsort : PermSort env)
    {qfuel maxDepth : Nat} {kt : Killers} {rows : Array (Array Move)} (hsz : rows.size ≤ 10000) {len0 : Nat} {s : SS}
    (h : iterDeep env qfuel p maxDepth kt rows len0 = .ok s) :
    ∀ e ∈ s.out, ∀ sc d n pv, (e = .infoPv sc d n pv ∨ e = .infoDepth d sc n pv) →
      pv ≠ [] ∧ ∃ q, Total.G q ∧ Spec.play (abs p) (pv.map absMove) = some (abs q) := by
  intro e he sc d n pv hpv
  have hfin := Magog.Capstone.evalFinite_of_blendBounded hb hsz
  have hl := (Props.C10.C10_pv_legal h hsort hg Magog.Capstone.G_closed hfin e he sc d n pv hpv).1
  refine ⟨?_, Magog.Capstone.play_of_legalLine pv hg hl⟩
  rcases hpv with rfl | rfl
  · exact (Props.C10.C10_pv_nonempty h).1 _ _ _ _ he
  · exact (Props.C10.C10_pv_nonempty h).2 _ _ _ _ he

/-- non-vacuity, and an instance of the conclusion: the run from the start position under `noisyEnv` prints (just
    before `bestmove m`) a principal variation starting with `m` that is a game of the rules -/
example : ∃ s m rest best done nodes pv, iterDeep noisyEnv (Gen.maxQuiescenceDepth + 1) startPosition
      Gen.MaxSearchDepth Killers.empty (newRows noisyEnv.pvRows) 0 = .ok s ∧
    s.out = .bestmove m :: .infoPv best done nodes pv :: rest ∧ pv.head? = some m ∧
    ∃ q, Total.G q ∧ Spec.play (abs startPosition) (pv.map absMove) = some (abs q) := by
  obtain ⟨s, hs, m, rest, hout, _, _⟩ :=
    C03_bestmove_is_legal_chess_move_newRows (env := noisyEnv) Total.G_start start_has_moves demoBlend_bounded
      (fun l => List.reverse_perm l) (by decide) rfl rfl Props.C18.killers_empty_size (Nat.le_refl _)
      (Nat.le_refl (Gen.maxQuiescenceDepth + 1)) 0
  obtain ⟨best, done, nodes, pv, rest', rfl, hhead, _, _⟩ := Props.C10.C10_bestmove hs hout
  have hmem : Event.infoPv best done nodes pv ∈ s.out := by rw [hout]; simp
  exact ⟨s, m, rest', best, done, nodes, pv, hs, hout, hhead,
    (C10_pv_is_legal_chess_line Total.G_start demoBlend_bounded (fun l => List.reverse_perm l)
      (by simp [newRows, noisyEnv, demoEnvLazy, demoEnv, Gen.pvRows]) hs _ hmem _ _ _ _ (.inl rfl)).2⟩

/-! ## 3. C05 — forced mate, in the terms of the rules -/

/-- **The forced-mate solver on the model's game tree computes the rules' forced mate**: for every good position and
    every length `n`, `winsInM n p` / `losesInM n p` (AND/OR search over `generateMoves` / `makeMove` /
    `isCurrentKingUnderCheck`, `Spec/MateM.lean`) return — without panic — exactly `Spec.winsIn (abs p) n` /
    `Spec.losesIn (abs p) n` (AND/OR over `Spec.legalMoves` / `Spec.apply` / `Spec.isMated`). No corner differs:
    `n = 0`, "mated now" and stalemate are treated alike on both sides. -/
theorem mate_solver_is_the_rules {p : Position} (hg : Total.G p) (n : Nat) :
    winsInM n p = .ok (Spec.winsIn (abs p) n) ∧ losesInM n p = .ok (Spec.losesIn (abs p) n) :=
  Magog.Capstone.mateM_spec n hg

/-- instance: `m1Pos` (White Kb6, Pc7 against Ka8, White to move) is good; the model solver says "mate in one ply,
    not in zero", hence — through the theorem — so do the rules -/
example : Total.G m1Pos ∧ Spec.winsIn (abs m1Pos) 1 = true ∧ Spec.winsIn (abs m1Pos) 0 = false := by
  have h1 := (mate_solver_is_the_rules m1_good 1).1
  have h0 := (mate_solver_is_the_rules m1_good 0).1
  rw [m1_wins1] at h1
  rw [m1_wins0] at h0
  exact ⟨m1_good, (Except.ok.inj h1).symm, (Except.ok.inj h0).symm⟩

/-- … and fool's mate: the model says "mated now", hence the rules say `Spec.losesIn … 0`, i.e. `Spec.isMated` -/
example : Total.G foolsMate ∧ Spec.losesIn (abs foolsMate) 0 = true := by
  have hg : Total.G foolsMate := foolsMate_good
  have h0 := (mate_solver_is_the_rules hg 0).2
  rw [fm_loses0] at h0
  exact ⟨hg, (Except.ok.inj h0).symm⟩

/-- **C05, capstone: a mate is found when it is forced and real when it is announced — by the rules of chess.**
    Under a quiet oracle, for every `info depth t score sc` line of a completed iteration `t ≤ maxDepth` on a good
    position (`w` = the minimax value of the depth-`t` tree, when defined):
    * `sc = w`;
    * found when forced: if by the rules the side to move is mated in exactly `n ≤ max t 1` plies whatever it plays
      (`Spec.losesIn … n`, not `… k` for `k < n`), the line says `mate −⌈n/2⌉`; if it can force mate in exactly
      `n ≤ max t 1` plies (`Spec.winsIn`), the line says `mate ⌈n/2⌉`;
    * real when announced: if the line says `mate k`, then by the rules a forced mate of exactly `n` plies exists,
      against (`k < 0` or `n = 0`) or for the side to move according to the sign, `|k| = ⌈n/2⌉`, `n ≤ max t 1 + 1`;
    * otherwise the line says `cp sc` with `|sc| ≤ evalB`.
    (`t − 1 + 1 = max t 1`.) Hypotheses left: quiet oracle, permuting sort, the lazy-evaluation assumption on good
    positions (only if `env.lazy`), bounded blend, and the depth budget `maxDepth + qfuel + 1 ≤ 79000`. -/
theorem C05_mate_found_when_forced_and_real_when_announced (env : Env)
    (hb : BlendBounded env.blend pstMaxAbs) (hq : Quiet env) (hps : PermSort env) (hlz : LazyOn env Total.G)
    (qfuel : Nat) (p : Position) (maxDepth : Nat) (killers : Killers)
    (rows : Array (Array Move)) (len0 : Nat) (s : SS) (hp : Total.G p) (hD1 : qfuel + 2 ≤ 79000)
    (hDm : maxDepth + qfuel + 1 ≤ 79000) (h : iterDeep env qfuel p maxDepth killers rows len0 = .ok s)
    (t : Nat) (sc : Int) (nodes : Nat) (pv : List Move) (hmem : Event.infoDepth t sc nodes pv ∈ s.out)
    (ht : t ≤ maxDepth) (w : Int) (hw : rootV env.blend qfuel t p = .ok w) :
    sc = w ∧
    (∀ n, n ≤ t - 1 + 1 → Spec.losesIn (abs p) n = true → (∀ k, k < n → Spec.losesIn (abs p) k = false) →
      formatScore sc = .mate (-(((n + 1) / 2 : Nat) : Int))) ∧
    (∀ n, n ≤ t - 1 + 1 → Spec.winsIn (abs p) n = true → (∀ k, k < n → Spec.winsIn (abs p) k = false) →
      formatScore sc = .mate (((n + 1) / 2 : Nat) : Int)) ∧
    (∀ k, formatScore sc = .mate k →
      (∃ n, n ≤ t - 1 + 1 + 1 ∧ sc = Gen.LostScore + n ∧ k = -(((n + 1) / 2 : Nat) : Int) ∧
        Spec.losesIn (abs p) n = true ∧ ∀ j, j < n → Spec.losesIn (abs p) j = false) ∨
      (∃ n, 1 ≤ n ∧ n ≤ t - 1 + 1 + 1 ∧ sc = -Gen.LostScore - n ∧ k = (((n + 1) / 2 : Nat) : Int) ∧
        Spec.winsIn (abs p) n = true ∧ ∀ j, j < n → Spec.winsIn (abs p) j = false)) ∧
    (closeToMate sc = false → formatScore sc = .cp sc ∧ sc.natAbs ≤ evalB) := by
  obtain ⟨h1, h2, h3, h4, h5⟩ := Props.C05.C05_reported_mate env Total.G hq hps Magog.Capstone.closed_G hlz
    (Magog.Capstone.evalBoundOn_G hb) Magog.Capstone.genLink_G Magog.Capstone.chk_G 79000 (Nat.le_refl _) qfuel p maxDepth killers
    rows len0 s hp hD1 hDm h t sc nodes pv hmem ht w hw
  have L := fun n b => Magog.Capstone.losesInM_iff hp n b
  have W := fun n b => Magog.Capstone.winsInM_iff hp n b
  refine ⟨h1, ?_, ?_, ?_, h5⟩
  · intro n hn a b
    exact h2 n hn ((L n true).2 a) (fun k hk => (L k false).2 (b k hk))
  · intro n hn a b
    exact h3 n hn ((W n true).2 a) (fun k hk => (W k false).2 (b k hk))
  · intro k hk
    rcases h4 k hk with ⟨n, hn, e1, e2, a, b⟩ | ⟨n, hn1, hn, e1, e2, a, b⟩
    · exact .inl ⟨n, hn, e1, e2, (L n true).1 a, fun j hj => (L j false).1 (b j hj)⟩
    · exact .inr ⟨n, hn1, hn, e1, e2, (W n true).1 a, fun j hj => (W j false).1 (b j hj)⟩

/-- **C05, capstone, exact form**: with the engine's quiescence fuel the minimax value is defined (`rootV_defined`),
    so no "when defined" is needed: the reported score IS `rootV … t p`, and the four mate clauses hold. -/
theorem C05_mate_exact (env : Env)
    (hb : BlendBounded env.blend pstMaxAbs) (hq : Quiet env) (hps : PermSort env) (hlz : LazyOn env Total.G)
    (qfuel : Nat) (hqf : Gen.maxQuiescenceDepth < qfuel) (p : Position) (maxDepth : Nat) (killers : Killers)
    (rows : Array (Array Move)) (len0 : Nat) (s : SS) (hp : Total.G p) (hD1 : qfuel + 2 ≤ 79000)
    (hDm : maxDepth + qfuel + 1 ≤ 79000) (h : iterDeep env qfuel p maxDepth killers rows len0 = .ok s)
    (t : Nat) (sc : Int) (nodes : Nat) (pv : List Move) (hmem : Event.infoDepth t sc nodes pv ∈ s.out)
    (ht : t ≤ maxDepth) :
    rootV env.blend qfuel t p = .ok sc ∧
    (∀ n, n ≤ t - 1 + 1 → Spec.losesIn (abs p) n = true → (∀ k, k < n → Spec.losesIn (abs p) k = false) →
      formatScore sc = .mate (-(((n + 1) / 2 : Nat) : Int))) ∧
    (∀ n, n ≤ t - 1 + 1 → Spec.winsIn (abs p) n = true → (∀ k, k < n → Spec.winsIn (abs p) k = false) →
      formatScore sc = .mate (((n + 1) / 2 : Nat) : Int)) ∧
    (∀ k, formatScore sc = .mate k →
      (∃ n, n ≤ t - 1 + 1 + 1 ∧ sc = Gen.LostScore + n ∧ k = -(((n + 1) / 2 : Nat) : Int) ∧
        Spec.losesIn (abs p) n = true ∧ ∀ j, j < n → Spec.losesIn (abs p) j = false) ∨
      (∃ n, 1 ≤ n ∧ n ≤ t - 1 + 1 + 1 ∧ sc = -Gen.LostScore - n ∧ k = (((n + 1) / 2 : Nat) : Int) ∧
        Spec.winsIn (abs p) n = true ∧ ∀ j, j < n → Spec.winsIn (abs p) j = false)) ∧
    (closeToMate sc = false → formatScore sc = .cp sc ∧ sc.natAbs ≤ evalB) := by
  obtain ⟨w, hw⟩ := rootV_defined env.blend hqf t hp
  obtain ⟨h1, h2⟩ := C05_mate_found_when_forced_and_real_when_announced env hb hq hps hlz qfuel p maxDepth killers
    rows len0 s hp hD1 hDm h t sc nodes pv hmem ht w hw
  exact ⟨by rw [h1]; exact hw, h2⟩

/-- non-vacuity (hypotheses): the full-evaluation reference environment `demoEnv` is quiet, its sort permutes, the
    lazy assumption is void for it, its blend is bounded; the start position is good; the budgets hold for the
    deepest search; and the run exists (C18) -/
example : BlendBounded demoEnv.blend pstMaxAbs ∧ Quiet demoEnv ∧ PermSort demoEnv ∧ LazyOn demoEnv Total.G ∧
    Gen.maxQuiescenceDepth < Gen.maxQuiescenceDepth + 1 ∧
    Total.G startPosition ∧ (Gen.maxQuiescenceDepth + 1) + 2 ≤ 79000 ∧
    Gen.MaxSearchDepth + (Gen.maxQuiescenceDepth + 1) + 1 ≤ 79000 ∧
    ∃ s, iterDeep demoEnv (Gen.maxQuiescenceDepth + 1) startPosition Gen.MaxSearchDepth Killers.empty
      (newRows demoEnv.pvRows) 0 = .ok s :=
  ⟨demoBlend_bounded, demoEnv_quiet, demoEnv_perm, demoEnv_lazyOn _, Nat.lt_succ_self _, Total.G_start, by decide,
   by decide,
   Props.C18Total.iterDeep_total_newRows Total.G_start Props.C18.killers_empty_size rfl rfl (by decide)
     (Nat.le_refl _) (Nat.le_refl _) (PvWitness.sortSound_of_perm demoEnv_perm) 0⟩

/-! ## 4. C04 — pruning is transparent, on good positions -/

/-- **C04, capstone**: `C04_reported_scores` with `Closed` and `EvalRange` discharged on the good positions: under a
    quiet oracle every score reported for a completed iteration `d` (each `info depth d score sc` line, the final
    `info score best depth done` line, and `info depth 0 score …` at a root without legal moves) is the plain
    minimax value of the depth-`d` tree — for every permuting sort, killer table, PV hint and stale PV table. By
    `generated_move_is_legal` / C01 that tree is the game tree of chess (edges = the legal moves of the rules,
    successor = `Spec.apply`). -/
theorem C04_reported_scores_G (env : Env) (hb : BlendBounded env.blend pstMaxAbs) (hq : Quiet env)
    (hps : PermSort env) (hlz : LazyOn env Total.G) (qfuel : Nat) (p : Position) (maxDepth : Nat)
    (killers : Killers) (rows : Array (Array Move)) (len0 : Nat) (s : SS) (hp : Total.G p)
    (hD1 : 1 + qfuel ≤ 10000) (hD : maxDepth + qfuel ≤ 10000)
    (h : iterDeep env qfuel p maxDepth killers rows len0 = .ok s) :
    (∀ d sc nodes pv, Event.infoDepth d sc nodes pv ∈ s.out →
        ∀ w, rootV env.blend qfuel d p = .ok w → sc = w) ∧
    ((∃ m best done nodes pv rest, s.out = .bestmove m :: .infoPv best done nodes pv :: rest ∧
        ∀ w, rootV env.blend qfuel done p = .ok w → best = w) ∨
     (∃ sc rest, s.out = .bestmoveNone :: .infoTerminal sc :: rest ∧
        ∀ w, rootV env.blend qfuel 1 p = .ok w → sc = w)) :=
  Props.C05.C04_reported_scores_inv env Total.G (fun _ hg => hg.1) hb hq hps Magog.Capstone.closed_G hlz qfuel p
    maxDepth killers rows len0 s hp hD1 hD h

example : BlendBounded demoEnv.blend pstMaxAbs ∧ Quiet demoEnv ∧ PermSort demoEnv ∧ LazyOn demoEnv Total.G ∧
    Total.G startPosition ∧ 1 + (Gen.maxQuiescenceDepth + 1) ≤ 10000 ∧
    Gen.MaxSearchDepth + (Gen.maxQuiescenceDepth + 1) ≤ 10000 ∧
    ∃ s, iterDeep demoEnv (Gen.maxQuiescenceDepth + 1) startPosition Gen.MaxSearchDepth Killers.empty
      (newRows demoEnv.pvRows) 0 = .ok s :=
  ⟨demoBlend_bounded, demoEnv_quiet, demoEnv_perm, demoEnv_lazyOn _, Total.G_start, by decide, by decide,
   Props.C18Total.iterDeep_total_newRows Total.G_start Props.C18.killers_empty_size rfl rfl (by decide)
     (Nat.le_refl _) (Nat.le_refl _) (PvWitness.sortSound_of_perm demoEnv_perm) 0⟩

/-- **C04, capstone, exact form.** With the engine's quiescence fuel the specification value is defined
    (`rootV_defined`), so the statement needs no "when defined": every score reported for a completed iteration `d`
    IS the minimax value `rootV … d p` of the depth-`d` game tree. -/
theorem C04_reported_scores_exact (env : Env) (hb : BlendBounded env.blend pstMaxAbs) (hq : Quiet env)
    (hps : PermSort env) (hlz : LazyOn env Total.G) (qfuel : Nat) (hqf : Gen.maxQuiescenceDepth < qfuel)
    (p : Position) (maxDepth : Nat)
    (killers : Killers) (rows : Array (Array Move)) (len0 : Nat) (s : SS) (hp : Total.G p)
    (hD1 : 1 + qfuel ≤ 10000) (hD : maxDepth + qfuel ≤ 10000)
    (h : iterDeep env qfuel p maxDepth killers rows len0 = .ok s) :
    (∀ d sc nodes pv, Event.infoDepth d sc nodes pv ∈ s.out → rootV env.blend qfuel d p = .ok sc) ∧
    ((∃ m best done nodes pv rest, s.out = .bestmove m :: .infoPv best done nodes pv :: rest ∧
        rootV env.blend qfuel done p = .ok best) ∨
     (∃ sc rest, s.out = .bestmoveNone :: .infoTerminal sc :: rest ∧ rootV env.blend qfuel 1 p = .ok sc)) := by
  obtain ⟨h1, h2⟩ := C04_reported_scores_G env hb hq hps hlz qfuel p maxDepth killers rows len0 s hp hD1 hD h
  have def_ := fun t => rootV_defined env.blend hqf t hp
  refine ⟨fun d sc nodes pv hmem => ?_, ?_⟩
  · obtain ⟨w, hw⟩ := def_ d
    rw [h1 d sc nodes pv hmem w hw]; exact hw
  · rcases h2 with ⟨m, best, done, nodes, pv, rest, ho, hv⟩ | ⟨sc, rest, ho, hv⟩
    · obtain ⟨w, hw⟩ := def_ done
      exact .inl ⟨m, best, done, nodes, pv, rest, ho, by rw [hv w hw]; exact hw⟩
    · obtain ⟨w, hw⟩ := def_ 1
      exact .inr ⟨sc, rest, ho, by rw [hv w hw]; exact hw⟩

/-- **The iteration clause of C04 in the terms of the rules**: under a quiet oracle `go depth d` on a good position
    completes exactly the iterations `1 … done`, and ends before `maxDepth` only when the accepted iteration
    reported a mate no longer than the iteration, or when the rules give exactly ONE legal move at the root. -/
theorem C04_iterations_rules {env : Env} {qfuel : Nat} {p : Position} {maxDepth : Nat} {killers : Killers}
    {rows : Array (Array Move)} {len0 : Nat} {s : SS} (hg : Total.G p) (hq : env.Quiet) (hps : PermSort env)
    (h : iterDeep env qfuel p maxDepth killers rows len0 = .ok s) :
    (∃ score rest, s.out = .bestmoveNone :: .infoTerminal score :: rest ∧ depthsOf s.out = []) ∨
    (∃ m best done nodes pv rest, s.out = .bestmove m :: .infoPv best done nodes pv :: rest ∧
       (depthsOf s.out).reverse = List.range' 2 (done - 1) ∧ 1 ≤ done ∧ done ≤ max 1 maxDepth ∧
       (done < maxDepth →
          (2 ≤ done ∧ pliesToMate best = done) ∨ (Spec.legalMoves (abs p)).length = 1)) := by
  rcases Props.C04.C04_iterations hq h with h1 | ⟨m, best, done, nodes, pv, rest, ho, hd, h1, h2, h3⟩
  · exact .inl h1
  · refine .inr ⟨m, best, done, nodes, pv, rest, ho, hd, h1, h2, fun hlt => ?_⟩
    rcases h3 hlt with h4 | ⟨len, sb, len', sa, hsab⟩
    · exact .inl h4
    · exact .inr ((Magog.Capstone.one_spec hps hg hsab).1 rfl)

/-- **An instance of the conclusions of C03, C04, C05 together** — `go depth 2` from the start position with the
    full-evaluation reference environment `demoEnv`, the allocated tables and the engine's fuel: the search returns,
    answers `bestmove m` with `m` a legal chess move, prints an `info depth 2 score sc` line (the start position
    has 20 legal moves, not one, so deepening is not cut short), `sc` IS the minimax value of the depth-2 game tree,
    and it is printed either as `cp sc` with `|sc| ≤ evalB` or as a mate score. -/
example : ∃ s m rest sc nodes pv,
    iterDeep demoEnv (Gen.maxQuiescenceDepth + 1) startPosition 2 Killers.empty (newRows demoEnv.pvRows) 0 = .ok s ∧
    s.out = .bestmove m :: rest ∧ Spec.legal (abs startPosition) (absMove m) = true ∧
    Event.infoDepth 2 sc nodes pv ∈ s.out ∧
    rootV demoEnv.blend (Gen.maxQuiescenceDepth + 1) 2 startPosition = .ok sc ∧
    ((formatScore sc = .cp sc ∧ sc.natAbs ≤ evalB) ∨ closeToMate sc = true) := by
  obtain ⟨s, hs, m, rest, hout, hleg, _⟩ :=
    C03_bestmove_is_legal_chess_move_newRows (env := demoEnv) (maxDepth := 2) Total.G_start start_has_moves
      demoBlend_bounded demoEnv_perm (by decide) rfl rfl Props.C18.killers_empty_size (by decide)
      (Nat.le_refl (Gen.maxQuiescenceDepth + 1)) 0
  have hq' : demoEnv.Quiet := fun _ => ⟨rfl, rfl⟩
  have hdone : 2 ∈ depthsOf s.out := by
    rcases C04_iterations_rules Total.G_start hq' demoEnv_perm hs with ⟨_, _, ho, _⟩ |
      ⟨m', best, done, nodes, pv, rest', _, hd, h1, h2, h3⟩
    · rw [hout] at ho; cases ho
    · have hd2 : done = 2 := by
        have h2' : done ≤ 2 := h2
        rcases Nat.lt_or_ge done 2 with hlt | hge
        · rcases h3 hlt with ⟨h4, _⟩ | h4
          · omega
          · rw [start_legal_count] at h4; cases h4
        · omega
      subst hd2
      have : 2 ∈ (depthsOf s.out).reverse := by rw [hd]; simp
      exact List.mem_reverse.1 this
  obtain ⟨sc, nodes, pv, hmem⟩ := mem_depthsOf.1 hdone
  have hv := (C04_reported_scores_exact demoEnv demoBlend_bounded demoEnv_quiet demoEnv_perm (demoEnv_lazyOn _)
    (Gen.maxQuiescenceDepth + 1) (Nat.lt_succ_self _) startPosition 2 Killers.empty _ 0 s Total.G_start
    (by decide) (by decide) hs).1 2 sc nodes pv hmem
  have h5 := (C05_mate_found_when_forced_and_real_when_announced demoEnv demoBlend_bounded demoEnv_quiet
    demoEnv_perm (demoEnv_lazyOn _) (Gen.maxQuiescenceDepth + 1) startPosition 2 Killers.empty _ 0 s Total.G_start
    (by decide) (by decide) hs 2 sc nodes pv hmem (Nat.le_refl _) sc hv).2.2.2.2
  refine ⟨s, m, rest, sc, nodes, pv, hs, hout, hleg, hmem, hv, ?_⟩
  cases hc : closeToMate sc
  · exact .inl (h5 hc)
  · exact .inr rfl

/-! ## 5. C14 — stale PV buffers do not matter, on good positions -/

/-- **C14, capstone**: `C14_rows_indep` with `GenClosed` and `EvalFinite` discharged: on a good position, with a
    bounded blend and a permuting sort, the output of a search (every oracle, killer table, depth limit) does not
    depend on the contents of the PV table it starts with (same shape, at most 10 000 rows) nor on the stale length
    of the row-0 header; the final states agree in every component except the table. -/
theorem C14_rows_indep_G {env : Env} {qfuel : Nat} {p : Position} {maxDepth : Nat}
    {killers : Killers} {rows rows' : Array (Array Move)} {len0 len0' : Nat} {s : SS}
    (hg : Total.G p) (hb : BlendBounded env.blend pstMaxAbs) (hsort : PermSort env)
    (hsz : rows.size = rows'.size) (hrow : ∀ i : Nat, (rows[i]?).map (·.size) = (rows'[i]?).map (·.size))
    (h10 : rows.size ≤ 10000)
    (h : iterDeep env qfuel p maxDepth killers rows len0 = .ok s) :
    ∃ s', iterDeep env qfuel p maxDepth killers rows' len0' = .ok s' ∧ s'.out = s.out ∧
      s' = { s with rows := s'.rows } :=
  Props.C14.C14_rows_indep hsz hrow h hsort hg Magog.Capstone.G_closed (Magog.Capstone.evalFinite_of_blendBounded hb h10)

/-- non-vacuity: the run from the start position under `noisyEnv` on the fresh table and on a table of the same
    shape filled with junk moves, with another stale header length -/
example : ∃ s s', iterDeep noisyEnv (Gen.maxQuiescenceDepth + 1) startPosition Gen.MaxSearchDepth Killers.empty
      (newRows noisyEnv.pvRows) 0 = .ok s ∧
    iterDeep noisyEnv (Gen.maxQuiescenceDepth + 1) startPosition Gen.MaxSearchDepth Killers.empty
      ((newRows noisyEnv.pvRows).map fun r => r.map fun _ => (⟨1, 2, 3, 4⟩ : Move)) 5 = .ok s' ∧
    s'.out = s.out := by
  obtain ⟨s, hs⟩ := Props.C18Total.iterDeep_total_newRows (env := noisyEnv) (maxDepth := Gen.MaxSearchDepth)
    (qfuel := Gen.maxQuiescenceDepth + 1) Total.G_start Props.C18.killers_empty_size rfl rfl (by decide)
    (Nat.le_refl _) (Nat.le_refl _) (PvWitness.sortSound_of_perm (fun l => List.reverse_perm l)) 0
  obtain ⟨s', hs', ho, _⟩ := C14_rows_indep_G (len0' := 5)
    (rows' := (newRows noisyEnv.pvRows).map fun r => r.map fun _ => (⟨1, 2, 3, 4⟩ : Move))
    Total.G_start demoBlend_bounded (fun l => List.reverse_perm l) (by simp)
    (fun i => by simp [Array.getElem?_map, Option.map_map, Function.comp_def])
    (by simp [newRows, noisyEnv, demoEnvLazy, demoEnv, Gen.pvRows]) hs
  exact ⟨s, s', hs, hs', ho⟩

end Magog.Props.Capstone
