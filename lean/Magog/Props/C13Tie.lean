import Magog.Lemmas.GoArith
import Magog.Props.C13

/-! C13 - the time allotment: the integer part of Go's `calcEndtime` (everything before the `time.Time` arithmetic; the side-to-move test is a parameter).

    Tie theorems: `Magog.Gen.Fn.*` is printed by the Go→Lean translator `harness/cmd/go2lean` from the current Go
    source on every run (T0); these theorems equate the translation with the hand-written model for **all**
    arguments, so the model's theorems about these functions hold of the code as translated. A change of the Go
    function changes the generated definition and this module is re-checked. -/

namespace Magog.Props.C13Tie
open Magog Magog.Lemmas.GoArith Magog.Gen.Fn

theorem calcEndtime_tie (bl bi wl wi mtg : Int) (b : Bool) :
    OkEq (Gen.Fn.calcEndtime_millis bl bi wl wi mtg b) (Model.allot b bl bi wl wi mtg) := by
  unfold Gen.Fn.calcEndtime_millis Model.allot Gen.Fn.goDiv Model.goDiv OkEq
  simp only [wrapS64_eq_wrap64, min_eq, max_eq, Gen.antiflagMillis]
  cases b 
  · by_cases hm : mtg = 0 <;> by_cases h : wi < wl <;> simp [hm, h, throw, throwThe, MonadExceptOf.throw, pure, Except.pure, bind, Except.bind]
  · by_cases hm : mtg = 0 <;> by_cases h : bi < bl <;> simp [hm, h, throw, throwThe, MonadExceptOf.throw, pure, Except.pure, bind, Except.bind]

/-- the property's inequalities, stated of the translated Go code: with clocks in range and a positive horizon the
    code allots between 1 ms and `max 1 (own clock - antiflagMillis)`, from the mover's own clock only -/
theorem calcEndtime_code_bounds (bl bi wl wi m : Int) (b : Bool)
    (hbl : C13.InRange bl) (hbi : C13.InRange bi) (hwl : C13.InRange wl) (hwi : C13.InRange wi) (hm : 0 < m) :
    ∃ v, Gen.Fn.calcEndtime_millis bl bi wl wi m b = .ok v ∧ 1 ≤ v ∧
      v ≤ Max.max 1 ((if b then bl else wl) - (Gen.antiflagMillis : Int)) := by
  have t := calcEndtime_tie bl bi wl wi m b
  rw [C13.allot_eq b bl bi wl wi m hbl hbi hwl hwi hm] at t
  unfold OkEq at t
  split at t
  · rename_i x y hx hy
    cases hy
    exact ⟨x, hx, by subst t; exact (C13.allot_bounds _ _ _).1, by subst t; exact (C13.allot_bounds _ _ _).2⟩
  · rename_i hx hy; cases hy
  · exact absurd t id

/-- ... and it panics exactly on a zero horizon when the division is reached -/
theorem calcEndtime_code_divzero (bl bi wl wi : Int) (h : wl > wi) :
    ∃ e, Gen.Fn.calcEndtime_millis bl bi wl wi 0 false = .error e := by
  unfold Gen.Fn.calcEndtime_millis Gen.Fn.goDiv
  simp [h, throw, throwThe, MonadExceptOf.throw, bind, Except.bind]

example : Gen.Fn.calcEndtime_millis 60000 0 60000 1000 30 false = .ok 2950 := rfl
example : Gen.Fn.calcEndtime_millis 20 0 60000 0 30 true = .ok 1 := rfl

end Magog.Props.C13Tie
