import Magog.Lemmas.LogIndep
import Magog.Lemmas.SearchExamples

/-! Property C14 (logging part) — the analysis does not depend on the option `currmoveLogInterval`.

    In the model the option is `env.logInterval`. It is read in one place only: `quiescence` prints a
    `currmove` line when `nodes % logInterval == 0` (Go integer division: a **zero** interval panics with
    `divZero`; that defect is not the subject here, hence the hypothesis `env'.logInterval ≠ 0`). The line also reads
    `movStack[0][firstMoveIdx]`, which in the model is `s.rootMoves[s.firstMoveIdx]?` with an explicit index panic.

    `C14_logInterval_indep` is proved at full strength: from a successful run under `env` we get a *successful* run
    under `env'` — the extra `currmove` lines that `env'` may print can not hit the index panic, because inside the
    root loop `firstMoveIdx` always points into `rootMoves` (`rootLoop_simL` carries the invariant
    `rootMoves = pre ++ remaining ∧ firstMoveIdx = pre.length`) and `alphaBeta` / `quiescence` never write these two
    fields (`Keep`). Method: the simulation relation `Sim s s'` (all fields equal except `out`; `out`s equal after
    dropping `currmove` events) is preserved by every function of `Model/Search.lean`
    (`Magog/Lemmas/LogIndep.lean`). -/

namespace Magog.Props.C14Log
open Magog Magog.Model

/-- **C14 (logging).** Changing `currmoveLogInterval` to another non-zero value changes nothing but `currmove`
    lines: the run still succeeds, prints the same `info … pv` lines, the same `info depth …` line (score, node
    count, principal variation) for every completed depth, the same final `bestmove`, in the same order; the node
    counter and the stored best line are the same. -/
theorem C14_logInterval_indep {env env' : Env} {qfuel : Nat} {p : Position} {maxDepth : Nat} {killers : Killers}
    {rows : Array (Array Move)} {len0 : Nat} {s : SS}
    (hnz : env'.logInterval ≠ 0) (henv : env' = { env with logInterval := env'.logInterval })
    (h : iterDeep env qfuel p maxDepth killers rows len0 = .ok s) :
    ∃ s', iterDeep env' qfuel p maxDepth killers rows len0 = .ok s' ∧
      s'.out.filter (fun e => !e.isCurrmove) = s.out.filter (fun e => !e.isCurrmove) ∧
      s'.nodes = s.nodes ∧ s'.cand = s.cand := by
  obtain ⟨s', h', sim⟩ := iterDeep_simL (logAgree_of_eq hnz henv) h
  exact ⟨s', h', sim.out, sim.nodes, sim.cand⟩

/-- the complete statement: every component of the final search state other than the output (pv table, killer
    table, node counter, interrupt flag, oracle consultation counter, stored line, root move list and index) is
    the same -/
theorem C14_logInterval_indep_state {env env' : Env} {qfuel : Nat} {p : Position} {maxDepth : Nat} {killers : Killers}
    {rows : Array (Array Move)} {len0 : Nat} {s : SS}
    (hnz : env'.logInterval ≠ 0) (henv : env' = { env with logInterval := env'.logInterval })
    (h : iterDeep env qfuel p maxDepth killers rows len0 = .ok s) :
    ∃ s', iterDeep env' qfuel p maxDepth killers rows len0 = .ok s' ∧ Sim s s' :=
  iterDeep_simL (logAgree_of_eq hnz henv) h

/-- in particular the move played and the final `info` line are literally the same -/
theorem C14_logInterval_bestmove {env env' : Env} {qfuel : Nat} {p : Position} {maxDepth : Nat} {killers : Killers}
    {rows : Array (Array Move)} {len0 : Nat} {s : SS} {m : Move} {best : Int} {D n : Nat} {pv : List Move}
    {rest : List Event}
    (hnz : env'.logInterval ≠ 0) (henv : env' = { env with logInterval := env'.logInterval })
    (h : iterDeep env qfuel p maxDepth killers rows len0 = .ok s)
    (hout : s.out = .bestmove m :: .infoPv best D n pv :: rest) :
    ∃ s' rest', iterDeep env' qfuel p maxDepth killers rows len0 = .ok s' ∧
      s'.out = .bestmove m :: .infoPv best D n pv :: rest' ∧
      rest'.filter (fun e => !e.isCurrmove) = rest.filter (fun e => !e.isCurrmove) :=
  iterDeep_sim_best (logAgree_of_eq hnz henv) h hout

/-- when both intervals are non-zero the two runs succeed or panic together -/
theorem C14_logInterval_ok_iff {env env' : Env} {qfuel : Nat} {p : Position} {maxDepth : Nat} {killers : Killers}
    {rows : Array (Array Move)} {len0 : Nat}
    (hnz : env.logInterval ≠ 0) (hnz' : env'.logInterval ≠ 0)
    (henv : env' = { env with logInterval := env'.logInterval }) :
    (∃ s, iterDeep env qfuel p maxDepth killers rows len0 = .ok s) ↔
    (∃ s', iterDeep env' qfuel p maxDepth killers rows len0 = .ok s') := by
  constructor
  · rintro ⟨s, h⟩
    obtain ⟨s', h', _⟩ := iterDeep_simL (logAgree_of_eq hnz' henv) h
    exact ⟨s', h'⟩
  · rintro ⟨s', h'⟩
    have henv' : env = { env' with logInterval := env.logInterval } := by rw [henv]
    obtain ⟨s, h, _⟩ := iterDeep_simL (logAgree_of_eq hnz henv') h'
    exact ⟨s, h⟩

open Magog.Model.SearchExamples in
/-- non-vacuity: `go depth 2` on `kkPos` (Ka1 v Kh8) with interval 7, and the same environment with interval 1 -/
example : ∃ s, ({ quietEnv with logInterval := 1 } : Env).logInterval ≠ 0 ∧
    ({ quietEnv with logInterval := 1 } : Env) =
      { quietEnv with logInterval := ({ quietEnv with logInterval := 1 } : Env).logInterval } ∧
    iterDeep quietEnv 3 kkPos 2 Killers.empty (newRows 6) 6 = .ok s := by
  obtain ⟨s, _, _, _, _, _, hs, _, _⟩ := endsWithBest_elim quiet_run2
  exact ⟨s, by decide, rfl, hs⟩

open Magog.Model.SearchExamples in
set_option maxRecDepth 100000 in
/-- … and the two runs really differ: 12 nodes each, but 1 `currmove` line (of 10 lines) with interval 7 against 12
    (of 21 lines) with interval 1; with interval 0 the run panics -/
example :
    runStats (run quietEnv kkPos 2) = some (1, 10, 12) ∧
    runStats (run { quietEnv with logInterval := 1 } kkPos 2) = some (12, 21, 12) ∧
    runStats (run { quietEnv with logInterval := 0 } kkPos 2) = none := by decide +kernel

end Magog.Props.C14Log
