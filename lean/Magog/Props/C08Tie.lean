import Magog.Lemmas.GoArith
import Magog.Props.C08

/-! C08 - the FEN letter table: Go's `charToPiece`.

    Tie theorems: `Magog.Gen.Fn.*` is printed by the Go→Lean translator `harness/cmd/go2lean` from the current Go
    source on every run (T0); these theorems equate the translation with the hand-written model for **all**
    arguments, so the model's theorems about these functions hold of the code as translated. A change of the Go
    function changes the generated definition and this module is re-checked. -/

namespace Magog.Props.C08Tie
open Magog Magog.Lemmas.GoArith Magog.Gen.Fn

theorem charToPiece_fin : ∀ c : Fin 256, Gen.Fn.charToPiece (c.val : Int) = (Model.charToPiece c.val : Int) := by
  decide +kernel

theorem charToPiece_tie (c : Nat) : Gen.Fn.charToPiece (c : Int) = (Model.charToPiece c : Int) := by
  by_cases h : c < 256
  · exact charToPiece_fin ⟨c, h⟩
  · have e1 : Gen.Fn.charToPiece (c : Int) = 0 := by
      unfold Gen.Fn.charToPiece
      simp only [beq_iff_eq]
      repeat (rw [if_neg (by omega)])
    have e2 : Model.charToPiece c = 0 := by
      unfold Model.charToPiece
      simp only [beq_iff_eq]
      repeat (rw [if_neg (by omega)])
    rw [e1, e2]; rfl

example : Gen.Fn.charToPiece 75 = 160 ∧ Gen.Fn.charToPiece 112 = 65 ∧ Gen.Fn.charToPiece 120 = 0 := by decide

end Magog.Props.C08Tie
