import Magog.Lemmas.GoArith
import Magog.Props.C08

/-! C08 - the FEN letter table, Go's `charToPiece`, and the castling-field validation `areCastlingFlagsConsistent`.

    Tie theorems: `Magog.Gen.Fn.*` is printed by the Go→Lean translator `harness/cmd/go2lean` from the current Go
    source on every run (T0); these theorems equate the translation with the hand-written model for **all**
    arguments, so the model's theorems about these functions hold of the code as translated. A change of the Go
    function changes the generated definition and this module is re-checked. -/

namespace Magog.Props.C08Tie
open Magog Magog.Lemmas.GoArith Magog.Gen.Fn

theorem charToPiece_fin : ∀ c : Fin 256, Gen.Fn.charToPiece (c.val : Int) = (Model.charToPiece c.val : Int) := by
  decide +kernel

theorem charToPiece_tie (c : Nat) : Gen.Fn.charToPiece (c : Int) = (Model.charToPiece c : Int) := by
  by_cases h : c < 256
  · exact charToPiece_fin ⟨c, h⟩
  · have e1 : Gen.Fn.charToPiece (c : Int) = 0 := by
      unfold Gen.Fn.charToPiece
      simp only [beq_iff_eq]
      repeat (rw [if_neg (by omega)])
    have e2 : Model.charToPiece c = 0 := by
      unfold Model.charToPiece
      simp only [beq_iff_eq]
      repeat (rw [if_neg (by omega)])
    rw [e1, e2]; rfl

example : Gen.Fn.charToPiece 75 = 160 ∧ Gen.Fn.charToPiece 112 = 65 ∧ Gen.Fn.charToPiece 120 = 0 := by decide

/-! `Position.areCastlingFlagsConsistent` (FEN validation): the flags byte and the six board squares it reads are
    parameters of the translation. -/

theorem band_nat (a b : Nat) : band (a : Int) (b : Int) = ((a &&& b : Nat) : Int) := by
  unfold band; simp only [Int.toNat_natCast, Int.ofNat_eq_natCast]

theorem ne_nat (a b : Nat) : (((a : Int) != (b : Int)) = (a != b)) := by
  rw [Bool.eq_iff_iff]; simp only [bne_iff_ne, ne_eq]; omega

theorem castlingConsistent_tie (p : Model.Position) :
    Gen.Fn.areCastlingFlagsConsistent p.flags (p.board.getD Gen.E1 0 : Nat) (p.board.getD Gen.H1 0 : Nat) (p.board.getD Gen.A1 0 : Nat)
      (p.board.getD Gen.E8 0 : Nat) (p.board.getD Gen.H8 0 : Nat) (p.board.getD Gen.A8 0 : Nat) = Model.castlingConsistent p := by
  unfold Gen.Fn.areCastlingFlagsConsistent Model.castlingConsistent
  simp only [Model.FWK, Model.FWQ, Model.FBK, Model.FBQ, Gen.FlagWhiteCanCastleKside, Gen.FlagWhiteCanCastleQside,
    Gen.FlagBlackCanCastleKside, Gen.FlagBlackCanCastleQside, Gen.WKing, Gen.WRook, Gen.BKing, Gen.BRook]
  have b2 : band (p.flags : Int) 2 = ((p.flags &&& 2 : Nat) : Int) := band_nat p.flags 2
  have b4 : band (p.flags : Int) 4 = ((p.flags &&& 4 : Nat) : Int) := band_nat p.flags 4
  have b8 : band (p.flags : Int) 8 = ((p.flags &&& 8 : Nat) : Int) := band_nat p.flags 8
  have b16 : band (p.flags : Int) 16 = ((p.flags &&& 16 : Nat) : Int) := band_nat p.flags 16
  have n0 : ∀ a : Nat, (((a : Int) != 0) = (a != 0)) := fun a => ne_nat a 0
  have n160 : ∀ a : Nat, (((a : Int) != 160) = (a != 160)) := fun a => ne_nat a 160
  have n136 : ∀ a : Nat, (((a : Int) != 136) = (a != 136)) := fun a => ne_nat a 136
  have n96 : ∀ a : Nat, (((a : Int) != 96) = (a != 96)) := fun a => ne_nat a 96
  have n72 : ∀ a : Nat, (((a : Int) != 72) = (a != 72)) := fun a => ne_nat a 72
  simp only [b2, b4, b8, b16, n0, n160, n136, n96, n72]
  rcases Bool.eq_false_or_eq_true (p.flags &&& 2 != 0 && (p.board.getD Gen.E1 0 != 160 || p.board.getD Gen.H1 0 != 136)) with h1 | h1 <;>
  rcases Bool.eq_false_or_eq_true (p.flags &&& 4 != 0 && (p.board.getD Gen.E1 0 != 160 || p.board.getD Gen.A1 0 != 136)) with h2 | h2 <;>
  rcases Bool.eq_false_or_eq_true (p.flags &&& 8 != 0 && (p.board.getD Gen.E8 0 != 96 || p.board.getD Gen.H8 0 != 72)) with h3 | h3 <;>
  rcases Bool.eq_false_or_eq_true (p.flags &&& 16 != 0 && (p.board.getD Gen.E8 0 != 96 || p.board.getD Gen.A8 0 != 72)) with h4 | h4 <;>
  simp only [h1, h2, h3, h4, Bool.false_eq_true, ↓reduceIte, Bool.not_true, Bool.not_false, Bool.and_self, Bool.and_false, Bool.false_and, Bool.and_true, Bool.true_and]

/-! `Position.hasRoomFor` (capacity test of the loader): the two list sizes of the piece's side are parameters of the
    translation; the selection of the side (a pointer swap in Go) is skipped and stated in `hasRoomFor_eq_decision`. -/

/-- `hasRoomFor` as a function of the piece code and the two list sizes of its side -/
def roomDecision (pc a b : Nat) : Bool :=
  let k := pc &&& Model.Colorless
  if k == Model.King then true
  else if k == Model.Pawn then a < Model.pawnCap && a + b < Model.pieceCap
  else a + b < Model.pieceCap

theorem hasRoomFor_eq_decision (p : Model.Position) (pc : Nat) :
    Model.hasRoomFor p pc = roomDecision pc (p.side (pc &&& Model.WhiteBit != 0)).pawns.length (p.side (pc &&& Model.WhiteBit != 0)).pieces.length := by
  rfl

theorem hasRoomFor_decision_tie (pc a b : Nat) (h1 : a < 1000) (h2 : b < 1000) :
    Gen.Fn.hasRoomFor_decision pc a b = roomDecision pc a b := by
  unfold Gen.Fn.hasRoomFor_decision roomDecision
  have hb : band (pc : Int) 63 = ((pc &&& 63 : Nat) : Int) := by
    unfold band; simp only [Int.toNat_natCast, Int.ofNat_eq_natCast]; rfl
  simp only [hb, Model.Colorless, Gen.ColorlessPiece, Model.King, Gen.King, Model.Pawn, Gen.Pawn, Model.pawnCap, Gen.pawnCap, Model.pieceCap, Gen.pieceCap]
  rw [wrapS64_id (by omega) (by omega)]
  have k : ∀ x y : Nat, (((x : Int) == (y : Int)) = (x == y)) := by
    intro x y; rw [Bool.eq_iff_iff]; simp only [beq_iff_eq]; omega
  have k32 : (((pc &&& 63 : Nat) : Int) == 32) = ((pc &&& 63) == 32) := k _ 32
  have k1 : (((pc &&& 63 : Nat) : Int) == 1) = ((pc &&& 63) == 1) := k _ 1
  simp only [k32, k1]
  have l1 : decide ((a:Int) < 8) = decide (a < 8) := decide_eq_decide.mpr (by omega)
  have l2 : decide ((a:Int) + (b:Int) < 15) = decide (a + b < 15) := decide_eq_decide.mpr (by omega)
  rcases Bool.eq_false_or_eq_true ((pc &&& 63) == 32) with e1 | e1 <;>
  rcases Bool.eq_false_or_eq_true ((pc &&& 63) == 1) with e2 | e2 <;>
  simp only [e1, e2, Bool.false_eq_true, ↓reduceIte, l1, l2] <;>
  first | rfl | (congr 1 <;> exact decide_eq_decide.mpr Iff.rfl) | exact decide_eq_decide.mpr Iff.rfl

example : Gen.Fn.areCastlingFlagsConsistent 3 160 136 0 0 0 0 = true ∧ Gen.Fn.areCastlingFlagsConsistent 3 160 72 0 0 0 0 = false := by decide

end Magog.Props.C08Tie
