import Magog.Model.Eval
import Magog.Model.Time

/-! Property C03 — theorems (see DESIGN §5). -/

namespace Magog.Props.C03

end Magog.Props.C03
