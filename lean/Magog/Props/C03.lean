import Magog.Lemmas.SearchIter
import Magog.Lemmas.SearchExamples

/-! Property C03 — every `go` is answered by exactly one `bestmove`, and it is the last line printed.

All statements are partial-correctness statements about the search model `Model.iterDeep` (hypothesis
`iterDeep … = .ok s`; a model panic is a different property), valid for every `env` (any oracle answers, any
`sortFn`, `blend`, `logInterval`), any killer table and any initial `rows` / `len0`.
`s.out` lists the output events most recent first. -/

namespace Magog.Props.C03
open Magog Magog.Model

/-- Exactly one event of the output of a search is a `bestmove` (`bestmove m` or `bestmove 0000`), and it is the
    last thing printed (the head of `s.out`). It is `bestmove 0000` iff the root line found by iteration 1 was empty
    (`rowPrefix s1 0 l = []` for the result `(score, one, l, s1)` of the depth-1 call of `startAlphaBeta` on the
    initial state); in that case the event printed just before it is `infoTerminal score` and everything before
    that was printed by iteration 1. -/
theorem C03_one_bestmove {env : Env} {qfuel : Nat} {p : Position} {maxDepth : Nat} {killers : Killers}
    {rows : Array (Array Move)} {len0 : Nat} {s : SS}
    (h : iterDeep env qfuel p maxDepth killers rows len0 = .ok s) :
    ∃ e rest, s.out = e :: rest ∧ e.isBest = true ∧ (∀ e' ∈ rest, e'.isBest = false) ∧
      s.out.countP Event.isBest = 1 ∧
      ∃ score one l s1,
        startAlphaBeta env qfuel p 1 len0 (initSS rows killers) = .ok (score, one, l, s1) ∧
        (e = .bestmoveNone ↔ rowPrefix s1 0 l = []) ∧
        (e = .bestmoveNone → rest = .infoTerminal score :: s1.out) ∧
        (e ≠ .bestmoveNone → ∃ m, e = .bestmove m) := by
  obtain ⟨score, one, l, s1, added1, hsab, e1, p1, hc⟩ := iterDeep_shape h
  have hb1 : ∀ e ∈ added1, e.isBest = false := fun e he =>
    isIterEvent_not_isBest (isSearchInfo_isIterEvent (p1 e he).1)
  rcases hc with ⟨hemp, hout, _⟩ | ⟨hne, best, done, nodes, added, m, tl, _, hout, p2, _⟩
  · have hrest : ∀ e' ∈ Event.infoTerminal score :: added1, e'.isBest = false := by
      intro e' he'
      rcases List.mem_cons.1 he' with rfl | he'
      · rfl
      · exact hb1 e' he'
    refine ⟨.bestmoveNone, .infoTerminal score :: added1, hout, rfl, hrest, ?_, score, one, l, s1, hsab,
      ⟨fun _ => hemp, fun _ => rfl⟩, fun _ => by rw [e1], fun hx => absurd rfl hx⟩
    rw [hout, List.countP_cons_of_pos rfl, List.countP_eq_zero.2 (by simpa using hrest)]
  · have hrest : ∀ e' ∈ Event.infoPv best done nodes (m :: tl) :: (added ++ added1), e'.isBest = false := by
      intro e' he'
      rcases List.mem_cons.1 he' with rfl | he'
      · rfl
      rcases List.mem_append.1 he' with he' | he'
      · exact isIterEvent_not_isBest (p2 e' he').1
      · exact hb1 e' he'
    refine ⟨.bestmove m, _, hout, rfl, hrest, ?_, score, one, l, s1, hsab,
      ⟨fun hx => (nomatch hx), fun hx => absurd hx hne⟩, fun hx => (nomatch hx), fun _ => ⟨m, rfl⟩⟩
    rw [hout, List.countP_cons_of_pos rfl, List.countP_eq_zero.2 (by simpa using hrest)]

open SearchExamples in
/-- non-vacuity: a concrete successful run ending in `bestmove m` (Ka1 vs Kh8, `go depth 2`) and one ending in
    `bestmove 0000` (stalemate), both evaluated in the kernel -/
example : (∃ s, iterDeep quietEnv 3 kkPos 2 Killers.empty (newRows 6) 6 = .ok s) ∧
    (∃ s rest, iterDeep quietEnv 3 stalePos 3 Killers.empty (newRows 6) 6 = .ok s ∧
      s.out = .bestmoveNone :: rest) := by
  obtain ⟨s, _, _, _, _, _, hs, _, _⟩ := endsWithBest_elim quiet_run2
  obtain ⟨s', rest, hs', ho⟩ := endsWithNone_elim stale_run
  exact ⟨⟨s, hs⟩, s', rest, hs', ho⟩

end Magog.Props.C03
