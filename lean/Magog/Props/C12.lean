import Magog.Model.Eval
import Magog.Model.Time

/-! Property C12 — theorems (see DESIGN §5). -/

namespace Magog.Props.C12

end Magog.Props.C12
