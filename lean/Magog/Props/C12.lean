import Magog.Model.Protocol

/-! Property C12 — `stop` / `isready` at any moment: no deadlock, no lost stop, engine stays usable; no
    unsynchronised shared state between command handling and the search.

Theorems are about the transition system of `Model/Protocol.lean` instantiated with the handler shape
*extracted from the source on this run* (`sourceShape`), for every reachable state — i.e. every command
history allowed by UCI and every interleaving with the search thread, of any length (induction over
`Reach`). The shape of the original tree (`oldShape`) violates four of them; the witnesses are proved
below and were reproduced on the original binary (DESIGN §6 F9).

Run-time residue (partial): "promptly" — how soon the search thread performs its next poll — and the Go
scheduler are not expressible here; the theorems say the request *is queued for the live search and
stays queued until that search takes it*. -/

namespace Magog.Props.C12
open Magog Magog.Model.Proto

theorem sourceShape_eq : sourceShape =
    { cap := 1, stopNonBlocking := true, stopReadsFlag := false, isreadyAlwaysNew := false, goDrains := true } := by
  decide

/-- inductive invariant of the repaired protocol: the command thread is never blocked, at most one
    Search object exists, the global points to it, the search thread (if any) runs on it, the channel
    holds at most one token, and every `go` is matched by exactly one `bestmove` once its thread is done -/
def Inv (s : State) : Prop :=
  s.cmd = .idle ∧
  s.bestmoves + (if alive s then 1 else 0) = s.gos ∧
  ((s.objs = [] ∧ s.cur = 0 ∧ s.thr = none) ∨
   (∃ c b, s.objs = [⟨c, b⟩] ∧ c ≤ 1 ∧ s.cur = 1 ∧ (s.thr = none ∨ ∃ ph, s.thr = some ⟨1, ph⟩)))

theorem inv_init : Inv init := by
  refine ⟨rfl, by simp [init, alive], Or.inl ⟨rfl, rfl, rfl⟩⟩

theorem inv_step (s s' : State) (l : Label) (h : Inv s) (hs : step sourceShape s l = some s') : Inv s' := by
  rw [sourceShape_eq] at hs
  obtain ⟨hc, hb, hshape⟩ := h
  rcases s with ⟨objs, cur, thr, cmd, r, b, g⟩
  simp only at hc hb hshape
  subst hc
  rcases hshape with ⟨rfl, rfl, rfl⟩ | ⟨c, fl, rfl, hc1, rfl, hthr⟩
  · -- no object yet
    cases l <;> simp [step, alloc, alive, getObj, setObj] at hs
    · subst hs; exact ⟨rfl, hb, Or.inr ⟨0, true, rfl, by omega, rfl, Or.inl rfl⟩⟩
    · subst hs; exact ⟨rfl, hb, Or.inl ⟨rfl, rfl, rfl⟩⟩
    · subst hs
      refine ⟨rfl, ?_, Or.inr ⟨0, true, rfl, by omega, rfl, Or.inr ⟨_, rfl⟩⟩⟩
      simp [alive] at hb ⊢; omega
  · have hc' : c = 0 ∨ c = 1 := by omega
    cases l
    · -- isready
      simp [step] at hs
      subst hs
      exact ⟨rfl, hb, Or.inr ⟨c, fl, rfl, hc1, rfl, hthr⟩⟩
    · -- stop
      simp only [step, getObj, setObj] at hs
      rcases hc' with rfl | rfl <;> simp at hs <;> subst hs
      · exact ⟨rfl, hb, Or.inr ⟨1, fl, rfl, by omega, rfl, hthr⟩⟩
      · exact ⟨rfl, hb, Or.inr ⟨1, fl, rfl, by omega, rfl, hthr⟩⟩
    · -- go
      simp only [step] at hs
      by_cases ha : alive ⟨[⟨c, fl⟩], 1, thr, .idle, r, b, g⟩ = true
      · simp [ha] at hs
      · simp [ha, getObj, setObj] at hs
        subst hs
        refine ⟨rfl, ?_, Or.inr ⟨c - 1, fl, rfl, by omega, rfl, Or.inr ⟨_, rfl⟩⟩⟩
        simp [ha] at hb
        simp [alive]; omega
    · -- tStart
      rcases hthr with rfl | ⟨ph, rfl⟩
      · simp [step] at hs
      · cases ph <;> simp [step, getObj, setObj] at hs
        subst hs
        refine ⟨rfl, ?_, Or.inr ⟨c, false, rfl, hc1, rfl, Or.inr ⟨_, rfl⟩⟩⟩
        simpa [alive] using hb
    · -- tPoll
      rcases hthr with rfl | ⟨ph, rfl⟩
      · simp [step] at hs
      · cases ph <;> simp [step, getObj, setObj] at hs
        cases fl <;> simp at hs
        rcases hc' with rfl | rfl <;> simp at hs <;> subst hs
        · exact ⟨rfl, by simpa [alive] using hb, Or.inr ⟨0, false, rfl, by omega, rfl, Or.inr ⟨_, rfl⟩⟩⟩
        · exact ⟨rfl, by simpa [alive] using hb, Or.inr ⟨0, true, rfl, by omega, rfl, Or.inr ⟨_, rfl⟩⟩⟩
    · -- tLeave
      rcases hthr with rfl | ⟨ph, rfl⟩
      · simp [step] at hs
      · cases ph <;> simp [step] at hs
        subst hs
        exact ⟨rfl, by simpa [alive] using hb, Or.inr ⟨c, fl, rfl, hc1, rfl, Or.inr ⟨_, rfl⟩⟩⟩
    · -- tPrint
      rcases hthr with rfl | ⟨ph, rfl⟩
      · simp [step] at hs
      · cases ph <;> simp [step] at hs
        subst hs
        refine ⟨rfl, ?_, Or.inr ⟨c, fl, rfl, hc1, rfl, Or.inr ⟨_, rfl⟩⟩⟩
        simp [alive] at hb ⊢; omega

theorem inv_reach {s : State} (h : Reach sourceShape s) : Inv s := by
  induction h with
  | init => exact inv_init
  | step l _ hs ih => exact inv_step _ _ l ih hs

/-- **no deadlock**: in every reachable state the command thread is idle — no handler ever blocks -/
theorem no_block {s : State} (h : Reach sourceShape s) : s.cmd = .idle := (inv_reach h).1

/-- …and therefore `isready`, `stop` and (when no search is alive) `go` are always enabled:
    `isready` is always answered -/
theorem isready_always_answered {s : State} (h : Reach sourceShape s) :
    ∃ s', step sourceShape s .isready = some s' ∧ s'.readyoks = s.readyoks + 1 := by
  have hc := no_block h
  simp only [step, hc, bne_self_eq_false, Bool.false_eq_true, ↓reduceIte]
  split <;> exact ⟨_, rfl, by simp [alloc]⟩

/-- **isready does not disturb or orphan the search**: once a Search object exists, `isready` changes
    nothing but the answer count -/
theorem isready_keeps_search {s s' : State} (h : Reach sourceShape s) (hcur : s.cur ≠ 0)
    (hs : step sourceShape s .isready = some s') :
    s'.objs = s.objs ∧ s'.cur = s.cur ∧ s'.thr = s.thr ∧ s'.cmd = s.cmd := by
  rw [sourceShape_eq] at hs
  have hc := no_block h
  simp [step, hc, hcur] at hs
  subst hs
  simp [hc]

/-- **the global always addresses the live search**: a search thread runs on the object `stop` writes to -/
theorem isready_safe {s : State} (h : Reach sourceShape s) (t : Thread) (ht : s.thr = some t) :
    t.obj = s.cur ∧ s.cur ≠ 0 := by
  obtain ⟨_, _, hsh⟩ := inv_reach h
  rcases hsh with ⟨_, _, hn⟩ | ⟨c, fl, _, _, hcur, hthr⟩
  · rw [hn] at ht; cases ht
  · rcases hthr with hn | ⟨ph, hp⟩
    · rw [hn] at ht; cases ht
    · rw [hp] at ht; cases ht; simp [hcur]

/-- **no lost stop**: after `stop` is handled while a search thread has not left its loops, a token is
    queued on that thread's own channel -/
theorem no_lost_stop {s s' : State} (h : Reach sourceShape s) (t : Thread) (ht : s.thr = some t)
    (hs : step sourceShape s .stop = some s') :
    s'.thr = some t ∧ (getObj s' t.obj).chan ≥ 1 := by
  obtain ⟨hobj, hcur⟩ := isready_safe h t ht
  obtain ⟨hc, _, hsh⟩ := inv_reach h
  rw [sourceShape_eq] at hs
  rcases hsh with ⟨_, _, hn⟩ | ⟨c, fl, hobjs, hc1, hcur1, _⟩
  · rw [hn] at ht; cases ht
  · simp only [step, hc, getObj, setObj, hobjs, hcur1] at hs
    have hc' : c = 0 ∨ c = 1 := by omega
    rcases hc' with rfl | rfl <;> simp at hs <;> subst hs <;> simp [ht, getObj, hobj, hcur1, hobjs]

/-- **the token stays until the search takes it**: no step of anybody else removes it; the thread's own
    steps keep it except the poll that observes it -/
theorem token_persists {s s' : State} (h : Reach sourceShape s) (o : Nat) (ph : Phase) (ht : s.thr = some ⟨o, ph⟩)
    (hph : ph = .spawned ∨ ph = .running) (htok : (getObj s o).chan ≥ 1) (l : Label) (hl : l ≠ .tPoll)
    (hs : step sourceShape s l = some s') :
    ∃ ph', s'.thr = some ⟨o, ph'⟩ ∧ (getObj s' o).chan ≥ 1 := by
  obtain ⟨hobj, hcur⟩ := isready_safe h _ ht
  obtain ⟨hc, _, hsh⟩ := inv_reach h
  rw [sourceShape_eq] at hs
  simp only at hobj
  rcases hsh with ⟨_, _, hn⟩ | ⟨c, fl, hobjs, hc1, hcur1, _⟩
  · rw [hn] at ht; cases ht
  · have ho : o = 1 := by omega
    subst ho
    have hc' : c = 1 := by simp [getObj, hobjs] at htok; omega
    subst hc'
    rcases s with ⟨objs, cur, thr, cmd, r, b, g⟩
    simp only at ht hobjs hcur1 hc
    subst ht hobjs hcur1 hc
    cases l
    · simp [step] at hs; subst hs; exact ⟨ph, rfl, by simp [getObj]⟩
    · simp [step, getObj] at hs; subst hs; exact ⟨ph, rfl, by simp [getObj]⟩
    · rcases hph with rfl | rfl <;> simp [step, alive] at hs
    · rcases hph with rfl | rfl <;> simp [step, getObj, setObj] at hs
      subst hs; exact ⟨.running, rfl, by simp [getObj]⟩
    · exact absurd rfl hl
    · rcases hph with rfl | rfl <;> simp [step] at hs
      subst hs; exact ⟨.finishing, rfl, by simp [getObj]⟩
    · rcases hph with rfl | rfl <;> simp [step] at hs

/-- **the search observes it at its next poll** (and an interrupted search does not poll again, it can
    only leave its loops and print its single bestmove) -/
theorem stop_observed {s : State} (o : Nat) (ht : s.thr = some ⟨o, .running⟩)
    (hni : (getObj s o).interrupted = false) (htok : (getObj s o).chan ≥ 1) (sh : Shape) :
    ∃ s', step sh s .tPoll = some s' ∧ (getObj s' o).interrupted = true ∧ s'.thr = some ⟨o, .running⟩ ∧
      step sh s' .tPoll = none ∧ ∃ s'', step sh s' .tLeave = some s'' ∧ s''.thr = some ⟨o, .finishing⟩ := by
  have hpos : (getObj s o).chan > 0 := by omega
  have hl : o - 1 < s.objs.length := by
    apply Classical.byContradiction
    intro hn
    have : s.objs[o - 1]? = none := by simp; omega
    simp [getObj, List.getD, this] at htok
  let s1 := setObj s o { chan := (getObj s o).chan - 1, interrupted := true }
  have hget : getObj s1 o = { chan := (getObj s o).chan - 1, interrupted := true } := by
    simp [s1, getObj, setObj, List.getD, hl]
  have hthr : s1.thr = some ⟨o, .running⟩ := by simp [s1, setObj, ht]
  refine ⟨s1, ?_, ?_, hthr, ?_, ?_⟩
  · simp [step, ht, hni, hpos, s1]
  · rw [hget]
  · simp [step, hthr, hget]
  · exact ⟨{ s1 with thr := some ⟨o, .finishing⟩ }, by simp [step, hthr], rfl⟩

/-- **exactly one bestmove per go**: in every reachable state the number of `bestmove`s equals the number
    of `go`s, minus one while the last search is still alive -/
theorem one_bestmove_per_go {s : State} (h : Reach sourceShape s) :
    s.bestmoves + (if alive s then 1 else 0) = s.gos := (inv_reach h).2.1

/-- **a stop that arrives after the search has finished cannot hurt the next search**: `go` starts with
    an empty channel -/
theorem go_starts_clean {s s' : State} (h : Reach sourceShape s) (hs : step sourceShape s .go = some s') :
    (getObj s' s'.cur).chan = 0 ∧ s'.thr = some ⟨s'.cur, .spawned⟩ := by
  obtain ⟨hc, _, hsh⟩ := inv_reach h
  rw [sourceShape_eq] at hs
  rcases s with ⟨objs, cur, thr, cmd, r, b, g⟩
  simp only at hc hsh
  subst hc
  rcases hsh with ⟨rfl, rfl, rfl⟩ | ⟨c, fl, rfl, hc1, rfl, _⟩
  · simp [step, alloc, alive, getObj, setObj] at hs
    subst hs; simp [getObj]
  · simp only [step] at hs
    by_cases ha : alive ⟨[⟨c, fl⟩], 1, thr, .idle, r, b, g⟩ = true
    · simp [ha] at hs
    · simp [ha, getObj, setObj] at hs
      subst hs
      simp [getObj]; omega

/-! ### shared state (static access table regenerated from the source) -/

/-- locations with an unsynchronised access by the search thread and a conflicting (one of them a
    write) unsynchronised access by the `stop` or `isready` handler -/
def conflicts (tbl : List (String × String × String × String)) : List String :=
  (tbl.filter fun (loc, th, k, sy) =>
    th == "search" && sy == "" &&
    tbl.any fun (loc', th', k', sy') =>
      loc' == loc && (th' == "stop" || th' == "isready") && sy' == "" && (k == "W" || k' == "W")).map (·.1)

/-- **race freedom** (static): code reachable from the `stop` / `isready` handlers and code reachable from
    the search goroutine's entry share no location with conflicting accesses that are not channel
    operations or atomics -/
theorem race_free : conflicts Gen.sharedAccess = [] := by decide

/-! ### the protocol of the original tree: proved failure witnesses (fixed by the C12 `fix:` commit) -/

/-- `go`, search runs to completion, `stop`: the command thread blocks in the send and *no* step is
    enabled any more — the "all goroutines are asleep" deadlock -/
theorem old_deadlock : ∃ s, run oldShape init [.go, .tStart, .tLeave, .tPrint, .stop] = some s ∧
    s.cmd = .blockedSend 1 ∧ ∀ l, step oldShape s l = none := by
  refine ⟨_, rfl, rfl, ?_⟩
  intro l; cases l <;> rfl

/-- `go` immediately followed by `stop`: the handler sees the flag still true and drops the request; the
    search then polls an empty channel -/
theorem old_lost_stop : ∃ s, run oldShape init [.go, .stop, .tStart, .tPoll] = some s ∧
    (getObj s 1).interrupted = false ∧ (getObj s 1).chan = 0 ∧ s.thr = some ⟨1, .running⟩ := ⟨_, rfl, rfl, rfl, rfl⟩

/-- `isready` during a search replaces the object: the live search runs on object 1, `stop` addresses 2 -/
theorem old_orphan : ∃ s, run oldShape init [.go, .tStart, .isready, .stop] = some s ∧
    s.thr = some ⟨1, .running⟩ ∧ s.cur = 2 ∧ (getObj s 1).chan = 0 ∧ s.cmd = .idle := ⟨_, rfl, rfl, rfl, rfl, rfl⟩

/-- non-vacuity: a reachable state of the repaired protocol with a live search and a queued stop -/
example : (run sourceShape init [.isready, .go, .isready, .tStart, .stop, .stop, .isready]).map
      (fun s => (s.thr, (getObj s 1).chan, s.readyoks, s.cmd)) =
    some (some ⟨1, .running⟩, 1, 3, .idle) := by decide

end Magog.Props.C12
