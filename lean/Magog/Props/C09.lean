import Magog.Lemmas.Geometry

/-! Property C09 — attack / check detection matches chess geometry. -/

namespace Magog.Props.C09
open Magog Magog.Model Magog.Geo

/-- Every entry of the engine's *initialised* attack table (regenerated from the source each run) is
    exactly the geometric relation of that piece kind, for all ordered pairs of board squares; nothing
    attacks across the board edge. -/
theorem attackTable_geometry (a t : Nat) (ha : a ∈ sq88) (ht : t ∈ sq88) :
    hasBit a t Gen.KnightAttacks = Spec.manAttacks emptyBoard ⟨.white, .knight⟩ (to64 a) (to64 t) ∧
    hasBit a t Gen.KingAttacks = Spec.manAttacks emptyBoard ⟨.white, .king⟩ (to64 a) (to64 t) ∧
    hasBit a t Gen.WPawnAttacks = Spec.manAttacks emptyBoard ⟨.white, .pawn⟩ (to64 a) (to64 t) ∧
    hasBit a t Gen.BPawnAttacks = Spec.manAttacks emptyBoard ⟨.black, .pawn⟩ (to64 a) (to64 t) ∧
    hasBit a t Gen.RookAttacks = Spec.onLine (to64 a) (to64 t) ∧
    hasBit a t Gen.BishopAttacks = Spec.onDiag (to64 a) (to64 t) ∧
    hasBit a t Gen.QueenAttacks = (Spec.onLine (to64 a) (to64 t) || Spec.onDiag (to64 a) (to64 t)) := by
  have h := pairOk_of_valid ha ht
  simp only [pairOk, Bool.and_eq_true, beq_iff_eq] at h
  obtain ⟨⟨⟨⟨⟨⟨⟨⟨_, h1⟩, h2⟩, h3⟩, h4⟩, h5⟩, h6⟩, h7⟩, _⟩ := h
  exact ⟨h1, h2, h3, h4, h5, h6, h7⟩

end Magog.Props.C09
