import Magog.Lemmas.Geometry
import Magog.Lemmas.Attack

/-! Property C09 — attack / check detection matches chess geometry. -/

namespace Magog.Props.C09
open Magog Magog.Model Magog.Geo Magog.Atk

/-- Every entry of the engine's *initialised* attack table (regenerated from the source each run) is
    exactly the geometric relation of that piece kind, for all ordered pairs of board squares; nothing
    attacks across the board edge. -/
theorem attackTable_geometry (a t : Nat) (ha : a ∈ sq88) (ht : t ∈ sq88) :
    hasBit a t Gen.KnightAttacks = Spec.manAttacks emptyBoard ⟨.white, .knight⟩ (to64 a) (to64 t) ∧
    hasBit a t Gen.KingAttacks = Spec.manAttacks emptyBoard ⟨.white, .king⟩ (to64 a) (to64 t) ∧
    hasBit a t Gen.WPawnAttacks = Spec.manAttacks emptyBoard ⟨.white, .pawn⟩ (to64 a) (to64 t) ∧
    hasBit a t Gen.BPawnAttacks = Spec.manAttacks emptyBoard ⟨.black, .pawn⟩ (to64 a) (to64 t) ∧
    hasBit a t Gen.RookAttacks = Spec.onLine (to64 a) (to64 t) ∧
    hasBit a t Gen.BishopAttacks = Spec.onDiag (to64 a) (to64 t) ∧
    hasBit a t Gen.QueenAttacks = (Spec.onLine (to64 a) (to64 t) || Spec.onDiag (to64 a) (to64 t)) := by
  have h := pairOk_of_valid ha ht
  simp only [pairOk, Bool.and_eq_true, beq_iff_eq] at h
  obtain ⟨⟨⟨⟨⟨⟨⟨⟨_, h1⟩, h2⟩, h3⟩, h4⟩, h5⟩, h6⟩, h7⟩, _⟩ := h
  exact ⟨h1, h2, h3, h4, h5, h6, h7⟩

/-- Attack detection is the rules-of-chess notion, for EVERY well-formed board and arrangement of men:
    `isUnderCheck` does not panic (no index error, no `hang`) and its answer is `Spec.attacked` — sliders
    are blocked by any man strictly in between, knights / kings / pawns are not, pawns attack in the
    direction of their colour, nothing attacks across the board edge. `BoardOk`: 128 slots, on-board slots
    hold 0 or one of the twelve piece codes. `SideOk`: the side's pawn list, piece list and king square
    describe exactly that colour's men on the board. -/
theorem C09_attacked (board : Array Nat) (enemy : Side) (white : Bool) (dest : Nat) :
    BoardOk board → SideOk board enemy white → dest < 128 → isValid dest = true →
    isUnderCheck board enemy dest
      = .ok (Spec.attacked (absBoard board) (if white then .white else .black) (to64 dest)) :=
  fun hb hs h1 h2 => isUnderCheck_eq hb hs (mem_sq88.2 ⟨h1, h2⟩)

example : BoardOk startPosition.board ∧ SideOk startPosition.board (startPosition.side false) false ∧
    (0x04 < 128 ∧ isValid 0x04 = true) :=
  ⟨boardOk_of_boardOkB (by decide +kernel), sideOk_of_sideOkB (by decide +kernel), by decide⟩

/-- a position with a blocked and an unblocked slider (white Ra1 Bf1 Ke1 Pa2, black Rh1 Ka8): the
    hypotheses hold, and through the theorem the model's answers are the rules' answers — the black rook
    h1 attacks f1 (adjacent) but not e1 (the bishop on f1 stands in between) -/
example : BoardOk blockedBoard ∧ SideOk blockedBoard blockedBlack false :=
  ⟨boardOk_of_boardOkB (by decide +kernel), sideOk_of_sideOkB (by decide +kernel)⟩

example : isUnderCheck blockedBoard blockedBlack 0x05 = .ok true := by
  rw [C09_attacked blockedBoard blockedBlack false 0x05 (boardOk_of_boardOkB (by decide +kernel))
    (sideOk_of_sideOkB (by decide +kernel)) (by decide) (by decide)]
  exact congrArg _ (by decide +kernel)

example : isUnderCheck blockedBoard blockedBlack 0x04 = .ok false := by
  rw [C09_attacked blockedBoard blockedBlack false 0x04 (boardOk_of_boardOkB (by decide +kernel))
    (sideOk_of_sideOkB (by decide +kernel)) (by decide) (by decide)]
  exact congrArg _ (by decide +kernel)

/-- `isCurrentKingUnderCheck` is the rules' "side to move is in check", for every well-formed position. -/
theorem C09_inCheck (p : Position) :
    BoardOk p.board → SideOk p.board (p.side true) true → SideOk p.board (p.side false) false →
    isCurrentKingUnderCheck p = .ok (Spec.inCheck (abs p).board (abs p).turn) := by
  intro hb hw hbl
  simp only [isCurrentKingUnderCheck, abs]
  cases whiteTurn p
  · exact inCheck_eq (w := false) hb hbl hw
  · exact inCheck_eq (w := true) hb hw hbl

example : BoardOk startPosition.board ∧ SideOk startPosition.board (startPosition.side true) true ∧
    SideOk startPosition.board (startPosition.side false) false :=
  ⟨boardOk_of_boardOkB (by decide +kernel), sideOk_of_sideOkB (by decide +kernel),
   sideOk_of_sideOkB (by decide +kernel)⟩

end Magog.Props.C09
