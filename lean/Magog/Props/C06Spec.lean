import Magog.Lemmas.LegalWitness
import Magog.Props.C06

/-! Property C06, specification-level corollaries. `Props/C06.lean` proves that the four hand-copied move
    loops and the two perft drivers agree with EACH OTHER (model-internal), under named side conditions and
    on the assumption that they run without panic. Here they are tied to the rules of chess
    (`Spec.legalMoves`, `Spec.isTactical`, `Spec.paths`, `Spec.tacticalPaths`), for every well-formed
    position (`Inv`) in which the side not to move is not in check (`OppSafe`, see `C01.oppSafe_iff`):

    * all side conditions of C06 follow from `Inv` + `OppSafe` (`countOk_of_inv`; `CastleSafe` by the
      castling-geometry argument of `Lemmas/CastleSpec.lean`);
    * none of the loops panics (`generateTacticalMoves_ok`, `countMoves_spec`, `countTactical_spec` are stated
      as `… = .ok …`; the no-panic proofs are in `Lemmas/CountNoPanic.lean`);
    * the tactical generator lists exactly the legal captures (incl. en passant) and promotions, each once;
    * `countMoves` / `countTacticalMoves` return the number of legal / legal tactical moves;
    * `perft d` returns `Spec.paths d`, `perftTactical d` returns `Spec.tacticalPaths (d - 1)` whenever they
      return (they panic by design when the position stack is exhausted, `idx + 1 ≥ cap`).

    All statements are FULL. -/

set_option autoImplicit false

namespace Magog.Props.C06Spec
open Magog Magog.Model Magog.Count Magog.MM Magog.LegalWitness

/-- Every side condition of the C06 counting theorems (`BoardSize`, `EpRankOk`, `PawnsOk`, `CaptureOk`,
    `KingStepSafe`, `CastleSafe`) and `CellsOk` hold on a well-formed position with the opponent not in
    check. -/
theorem countOk_of_inv {p : Position} (inv : Inv p) (hS : OppSafe p) : CountOk p ∧ CellsOk p ∧ KingsOk p :=
  ⟨CountInv.countOk_of_inv inv hS, CountInv.cellsOk_of_inv inv, CountInv.kingsOk_of_inv inv hS⟩

example : Inv startPosition ∧ OppSafe startPosition := ⟨inv_startPosition, Props.C02.oppSafe_start⟩

/-- The tactical generator never panics. -/
theorem generateTacticalMoves_ok {p : Position} (inv : Inv p) (hS : OppSafe p) :
    ∃ ts, generateTacticalMoves p = .ok ts :=
  CountNoPanic.generateTacticalMoves_ok inv hS

/-- **The tactical generator lists exactly the legal tactical moves** (captures incl. en passant, and all
    promotions), each exactly once: a permutation of `(Spec.legalMoves P).filter (Spec.isTactical P)`. -/
theorem tactical_exact {p : Position} {ts : List RMove} (inv : Inv p) (hS : OppSafe p)
    (h : generateTacticalMoves p = .ok ts) :
    (ts.map fun rm => absMove rm.mov).Perm
      ((Spec.legalMoves (abs p)).filter (Spec.isTactical (abs p))) :=
  LegalCount.tactical_perm inv hS h

set_option maxRecDepth 100000 in
/-- instantiated on `c06Witness` (en passant, captures and castling available): hypotheses hold, the tactical
    generator returns 4 moves, hence the rules give exactly 4 legal captures/promotions there -/
example : ∃ ts, generateTacticalMoves c06Witness = .ok ts ∧ ts.length = 4 ∧
    ((Spec.legalMoves (abs c06Witness)).filter (Spec.isTactical (abs c06Witness))).length = 4 := by
  obtain ⟨ts, h⟩ := generateTacticalMoves_ok GenExamples.inv_c06Witness oppSafe_c06Witness
  have hl : okVal ((generateTacticalMoves c06Witness).map (·.length)) = some 4 := by decide +kernel
  rw [h] at hl
  have hl' : ts.length = 4 := Option.some.inj hl
  have hp := tactical_exact GenExamples.inv_c06Witness oppSafe_c06Witness h
  exact ⟨ts, h, hl', by rw [← hp.length_eq, List.length_map, hl']⟩

/-- **`countMoves` never panics and returns the number of legal moves.** -/
theorem countMoves_spec {p : Position} (inv : Inv p) (hS : OppSafe p) :
    countMoves p = .ok (Spec.legalMoves (abs p)).length :=
  LegalCount.countMoves_spec inv hS

set_option maxRecDepth 100000 in
/-- instantiated: 20 legal moves in the start position, 35 in `c06Witness` (incl. O-O and a5xb6 e.p.) — the
    right-hand sides are obtained through the theorem from the model's count -/
example : (Spec.legalMoves (abs startPosition)).length = 20 ∧ (Spec.legalMoves (abs c06Witness)).length = 35 := by
  have h1 := countMoves_spec inv_startPosition Props.C02.oppSafe_start
  have h2 := countMoves_spec GenExamples.inv_c06Witness oppSafe_c06Witness
  have e1 : countMoves startPosition = .ok 20 := okVal_eq_some (by decide +kernel)
  have e2 : countMoves c06Witness = .ok 35 := okVal_eq_some (by decide +kernel)
  rw [e1] at h1
  rw [e2] at h2
  exact ⟨(ok_inj h1).symm, (ok_inj h2).symm⟩

/-- **`countTacticalMoves` never panics and returns the number of legal tactical moves.** -/
theorem countTactical_spec {p : Position} (inv : Inv p) (hS : OppSafe p) :
    countTacticalMoves p =
      .ok ((Spec.legalMoves (abs p)).filter (Spec.isTactical (abs p))).length :=
  LegalCount.countTactical_spec inv hS

set_option maxRecDepth 100000 in
/-- the promotion witness (White Ke1 Pa7, Black Kh6 Rb8): 8 legal tactical moves (a8 and axb8, four pieces each) -/
example : ((Spec.legalMoves (abs c06PromoWitness)).filter (Spec.isTactical (abs c06PromoWitness))).length = 8 := by
  have h := countTactical_spec Props.C02.inv_promoWitness oppSafe_c06PromoWitness
  have e : countTacticalMoves c06PromoWitness = .ok 8 := okVal_eq_some (by decide +kernel)
  rw [e] at h
  exact (ok_inj h).symm

/-- **perft counts the legal move paths of the rules**: whenever `Perft(d)` returns, it returns
    `Spec.paths (abs p) d`. -/
theorem perft_spec {p : Position} {kt : Killers} {cap d idx n : Nat} (inv : Inv p) (hS : OppSafe p)
    (h : perft kt cap d idx p = .ok n) : n = Spec.paths (abs p) d :=
  LegalCount.perft_spec inv hS h

/-- the generator-tree count `pathsM` of C06 (the intermediate of `perft_eq_paths`) is the rules' count -/
theorem pathsM_spec {p : Position} {kt : Killers} {d n : Nat} (inv : Inv p) (hS : OppSafe p)
    (h : pathsM kt d p = .ok n) : n = Spec.paths (abs p) d :=
  LegalCount.pathsM_spec d p n inv hS h

/-- instantiated (recursive branch, depths 2 and 3) on king and pawn against king (White Ka1 Pa2, Black Kh8):
    the model's perft runs and returns 12 and 69, hence the rules give 12 two-ply and 69 three-ply paths.
    (The start position gives 20 / 400 by `#eval`; kernel evaluation of depth 2 there takes minutes and is
    not part of the build.) -/
example : Inv Lemmas.AlphaBeta.kpaPos ∧ OppSafe Lemmas.AlphaBeta.kpaPos ∧
    Spec.paths (abs Lemmas.AlphaBeta.kpaPos) 2 = 12 ∧ Spec.paths (abs Lemmas.AlphaBeta.kpaPos) 3 = 69 :=
  ⟨inv_kpaPos, oppSafe_kpaPos, (perft_spec inv_kpaPos oppSafe_kpaPos kpa_perft2).symm,
   (perft_spec inv_kpaPos oppSafe_kpaPos kpa_perft3).symm⟩

set_option maxRecDepth 100000 in
/-- depth 1 on the start position: 20 -/
example : Spec.paths (abs startPosition) 1 = 20 := by
  have e : perft Killers.empty 200 1 0 startPosition = .ok 20 := okVal_eq_some (by decide +kernel)
  exact (perft_spec inv_startPosition Props.C02.oppSafe_start e).symm

/-- **`PerftTactical(d)`** (depths 0 and 1 both mean "count the tactical moves here") returns the number of
    paths of `d - 1` legal moves followed by one legal tactical move. -/
theorem perftTactical_spec {p : Position} {kt : Killers} {cap d idx n : Nat} (inv : Inv p) (hS : OppSafe p)
    (h : perftTactical kt cap d idx p = .ok n) : n = Spec.tacticalPaths (abs p) (d - 1) :=
  LegalCount.perftTactical_spec inv hS h

set_option maxRecDepth 100000 in
example : Spec.tacticalPaths (abs c06Witness) 0 = 4 := by
  have e : perftTactical Killers.empty 200 1 0 c06Witness = .ok 4 := okVal_eq_some (by decide +kernel)
  exact (perftTactical_spec GenExamples.inv_c06Witness oppSafe_c06Witness e).symm

end Magog.Props.C06Spec
