import Magog.Lemmas.Stack
import Magog.Lemmas.Count
import Magog.Model.Start

/-! Property C16 — query commands never change the game position: the `PushMove` / `PopMove` discipline and
    the in-place turn flip of `LazyEvaluate`.

    **What is modelled where.** The functional model (`Model/MoveGen.lean`, `Model/Search.lean`,
    `Model/Eval.lean`) passes positions *by value*: `perft`, `alphaBeta`, `quiescence`, the root loop and
    `lazyEvaluate` receive a `Position` and can only return results, so in that model an unbalanced push/pop or a
    flag left flipped cannot even be written down, and "the caller's position is unchanged" holds by
    construction. To make the discipline a provable statement about the data the Go code really mutates,
    `Model/Stack.lean` adds an explicit stack machine `GenS` (`posStack`, `plyIdx`) with `pushMove` / `popMove`,
    stack versions `perftS` / `perftTacticalS` of `Generator.Perft` / `PerftTactical`, and the literal,
    mutating `lazyEvaluateInPlace`.

    * (a) `push_pop`: un-making restores the previous position bit for bit (copy-make: the slot below is never
      written).
    * (b) `perftS_balanced`, `perftTacticalS_balanced`: the perft commands return the generator with the same
      `plyIdx` and the same slots `0 … plyIdx` (in particular the game position, slot `plyIdx` itself).
    * (c) `perftS_refines`, `perftTacticalS_refines` (and the converses `…_complete`): the stack machine computes
      exactly what the functional `perft` / `perftTactical` compute, so everything proved about those (C06)
      transfers to the stack machine.
    * (d) `withMove_balanced`: the generic bracket lemma. **The search model itself (`alphaBeta`, `quiescence`,
      `rootLoop`) is functional**; it has not been re-modelled on the stack. Every `PushMove … PopMove` pair of
      search.go has the shape `withMove g m k` with `k` the recursive call; (d) says that such a bracket is
      balanced whenever its body is, which by induction on the call tree gives balance of the whole search.
      C16 for `go` is therefore covered by (d) *plus* the by-value search model (whose faithfulness to the Go
      code, including the position each node sees, is checked by differential testing), not by a theorem about a
      stack-machine `alphaBeta`. `perftS_balanced` is the fully worked instance of that induction.
    * (e) `lazyEvaluateInPlace_restores`: the double flip `flags ^ FlagWhiteTurn ^ FlagWhiteTurn` is the
      identity, on every path (mate, lazy cut-off, own mobility 0 do not flip at all), and the mutating version
      computes what `lazyEvaluate` computes. -/

namespace Magog.Props.C16
open Magog Magog.Model Magog.Count

/-! ### (a) push / pop -/

/-- Un-making a move restores the previous state: the index comes back and no slot at or below the old index
    was written (the pushed position lives in slot `idx + 1`, which is left as garbage above the top). -/
theorem push_pop {g g' : GenS} {m : Move} {b : Bool} (h : pushMove g m = .ok (g', b)) :
    (popMove g').idx = g.idx ∧ ∀ i ≤ g.idx, (popMove g').stack[i]? = g.stack[i]? :=
  let hb := push_pop_balanced h
  ⟨hb.idx, hb.frame⟩

/-- in particular the position on top after the pop is the position that was on top before the push, and the
    buffer keeps its size -/
theorem push_pop_top {g g' : GenS} {m : Move} {b : Bool} (h : pushMove g m = .ok (g', b)) :
    (popMove g').top = g.top ∧ (popMove g').stack.size = g.stack.size :=
  let hb := push_pop_balanced h
  ⟨hb.top, hb.size⟩

/-- what `pushMove` does: the new top is `makeMove` of the old top, one slot higher; it panics only at the last
    slot, on an empty top, or when `makeMove` panics -/
theorem pushMove_spec {g g' : GenS} {m : Move} {b : Bool} (h : pushMove g m = .ok (g', b)) :
    g'.idx = g.idx + 1 ∧ g'.stack.size = g.stack.size ∧
      ∃ p q, g.top = some p ∧ makeMove p m = .ok (q, b) ∧ g'.top = some q :=
  ⟨pushMove_idx h, pushMove_size h, pushMove_top h⟩

/-- the e2e4 push on a fresh generator: index 1, legal, slot 0 still holds the start position's board and
    flags, slot 1 has the pawn on e4, black to move and the en-passant square e3; after the pop the index is 0
    again -/
example :
    okVal ((pushMove (GenS.new startPosition) ⟨0x14, 0x34, 0, 0x24⟩).map fun r =>
      (r.1.idx, r.2, r.1.stack.size, (popMove r.1).idx)) = some (1, true, Gen.plyBufferCapacity, 0) ∧
    okVal ((pushMove (GenS.new startPosition) ⟨0x14, 0x34, 0, 0x24⟩).map fun r =>
      r.1.stack[0]?.map fun p => (p.board[0x14]?, p.board[0x34]?, p.flags)) =
      some (some (some Gen.WPawn, some 0, Gen.startFlags)) ∧
    okVal ((pushMove (GenS.new startPosition) ⟨0x14, 0x34, 0, 0x24⟩).map fun r =>
      r.1.stack[1]?.map fun p => (p.board[0x14]?, p.board[0x34]?, p.flags &&& FWhiteTurn, p.ep)) =
      some (some (some 0, some Gen.WPawn, 0, 0x24)) := by decide +kernel

/-- `pushMove` panics on the last slot (Go: index out of range on `posStack[plyIdx+1]`) -/
example : okVal (pushMove { stack := #[startPosition], idx := 0 } ⟨0x14, 0x34, 0, 0x24⟩) = none := by
  decide +kernel

/-! ### (b) the perft commands are balanced -/

/-- `Perft` returns the generator with the same `plyIdx` and all slots `0 … plyIdx` (the game position
    included) unchanged -/
theorem perftS_balanced {kt : Killers} {d : Nat} {g g' : GenS} {n : Nat} (h : perftS kt d g = .ok (n, g')) :
    g'.idx = g.idx ∧ ∀ i ≤ g.idx, g'.stack[i]? = g.stack[i]? :=
  let hb := (perftS_spec kt d _ g n g' rfl h).1
  ⟨hb.idx, hb.frame⟩

/-- `PerftTactical` likewise -/
theorem perftTacticalS_balanced {kt : Killers} {d : Nat} {g g' : GenS} {n : Nat}
    (h : perftTacticalS kt d g = .ok (n, g')) :
    g'.idx = g.idx ∧ ∀ i ≤ g.idx, g'.stack[i]? = g.stack[i]? :=
  let hb := (perftTacticalS_spec kt d _ g n g' rfl h).1
  ⟨hb.idx, hb.frame⟩

/-- the position the command was asked about is still on top afterwards; the buffer keeps its size -/
theorem perftS_top {kt : Killers} {d : Nat} {g g' : GenS} {n : Nat} (h : perftS kt d g = .ok (n, g')) :
    g'.top = g.top ∧ g'.stack.size = g.stack.size :=
  let hb := (perftS_spec kt d _ g n g' rfl h).1
  ⟨hb.top, hb.size⟩

theorem perftTacticalS_top {kt : Killers} {d : Nat} {g g' : GenS} {n : Nat}
    (h : perftTacticalS kt d g = .ok (n, g')) : g'.top = g.top ∧ g'.stack.size = g.stack.size :=
  let hb := (perftTacticalS_spec kt d _ g n g' rfl h).1
  ⟨hb.top, hb.size⟩

/-! ### (c) the stack machine computes the functional perft -/

/-- `perftS` on a generator whose top is `p` returns what `perft` (buffer capacity = the stack's size, stack
    index = `g.idx`) returns on `p` -/
theorem perftS_refines {kt : Killers} {d : Nat} {g g' : GenS} {n : Nat} {p : Position}
    (h : perftS kt d g = .ok (n, g')) (hp : g.top = some p) : perft kt g.stack.size d g.idx p = .ok n :=
  (perftS_spec kt d _ g n g' rfl h).2 p hp

theorem perftTacticalS_refines {kt : Killers} {d : Nat} {g g' : GenS} {n : Nat} {p : Position}
    (h : perftTacticalS kt d g = .ok (n, g')) (hp : g.top = some p) :
    perftTactical kt g.stack.size d g.idx p = .ok n :=
  (perftTacticalS_spec kt d _ g n g' rfl h).2 p hp

/-- conversely the stack machine does not panic where the functional model does not -/
theorem perftS_complete {kt : Killers} {d : Nat} {g : GenS} {n : Nat} {p : Position}
    (h : perft kt g.stack.size d g.idx p = .ok n) (hp : g.top = some p) : ∃ g', perftS kt d g = .ok (n, g') :=
  Model.perftS_complete kt d _ g n p rfl hp h

theorem perftTacticalS_complete {kt : Killers} {d : Nat} {g : GenS} {n : Nat} {p : Position}
    (h : perftTactical kt g.stack.size d g.idx p = .ok n) (hp : g.top = some p) :
    ∃ g', perftTacticalS kt d g = .ok (n, g') :=
  Model.perftTacticalS_complete kt d _ g n p rfl hp h

set_option maxRecDepth 100000 in
/-- `perft 3` on the stack machine from `c16Kings` (Ka1 v Kh8): 54 leaves, index back at 0, slot 0 still holds
    the queried position (slots 1, 2 hold the garbage of the last pushed moves); `perft 1` from the start position
    on a full-size generator: 20 -/
example :
    okVal ((perftS Killers.empty 3 (GenS.new c16Kings)).map fun r =>
      (r.1, r.2.idx, r.2.stack[0]?.map fun p => (p.whiteKing, p.blackKing, p.flags))) =
      some (54, 0, some (Gen.A1, Gen.H8, Gen.FlagWhiteTurn)) ∧
    okVal ((perftS Killers.empty 1 (GenS.new startPosition)).map fun r => (r.1, r.2.idx)) = some (20, 0) := by
  decide +kernel

set_option maxRecDepth 100000 in
example : (GenS.new c16Kings).top.map (·.flags) = some Gen.FlagWhiteTurn ∧
    okVal ((perftTacticalS Killers.empty 2 (GenS.new c16Kings)).map fun r => (r.1, r.2.idx)) =
      some (0, 0) := by decide +kernel

/-! ### (d) the bracket lemma -/

/-- **Bracket lemma.** Let the body `k`, whenever it is run on a generator one level above `g` (index
    `g.idx + 1`, same buffer), return at that level without having written a slot *below* it (it may rewrite its
    own top slot and everything above). Then `PushMove(m); k; PopMove()` returns a generator with `g`'s index in
    which every slot `0 … g.idx` is what it was. This is the shape of every push/pop pair in `Perft`,
    `alphaBeta`, `quiescence` and the root loop of `startAlphaBeta`. -/
theorem withMove_balanced {α} {g g' : GenS} {m : Move} {k : GenS → M (α × GenS)} {a : α}
    (hk : ∀ g1 a g2, g1.idx = g.idx + 1 → g1.stack.size = g.stack.size → k g1 = .ok (a, g2) →
      g2.idx = g1.idx ∧ g2.stack.size = g1.stack.size ∧ ∀ i < g1.idx, g2.stack[i]? = g1.stack[i]?)
    (h : withMove g m k = .ok (a, g')) :
    g'.idx = g.idx ∧ g'.stack.size = g.stack.size ∧ ∀ i ≤ g.idx, g'.stack[i]? = g.stack[i]? :=
  let hb := Model.withMove_balanced
    (fun g1 a g2 h1 h2 h3 => let r := hk g1 a g2 h1 h2 h3; ⟨r.1, r.2.1, r.2.2⟩) h
  ⟨hb.idx, hb.size, hb.frame⟩

/-- the same for the bracket around the flag-returning `pushMove` -/
theorem withMoveUnchecked_balanced {α} {g g' : GenS} {m : Move} {k : GenS → M (α × GenS)} {a : α}
    (hk : ∀ g1 a g2, g1.idx = g.idx + 1 → g1.stack.size = g.stack.size → k g1 = .ok (a, g2) →
      g2.idx = g1.idx ∧ g2.stack.size = g1.stack.size ∧ ∀ i < g1.idx, g2.stack[i]? = g1.stack[i]?)
    (h : withMoveUnchecked g m k = .ok (a, g')) :
    g'.idx = g.idx ∧ g'.stack.size = g.stack.size ∧ ∀ i ≤ g.idx, g'.stack[i]? = g.stack[i]? :=
  let hb := Model.withMoveUnchecked_balanced
    (fun g1 a g2 h1 h2 h3 => let r := hk g1 a g2 h1 h2 h3; ⟨r.1, r.2.1, r.2.2⟩) h
  ⟨hb.idx, hb.size, hb.frame⟩

/-- the hypothesis of the bracket lemma is satisfiable by a body that does mutate its own top slot: evaluate the
    pushed position in place (`lazyEvaluateTop`) -/
example (blend : Blend) (g g' : GenS) (m : Move) (x : Int)
    (h : withMove g m (fun g1 => lazyEvaluateTop blend g1 0 0 0) = .ok (x, g')) :
    g'.idx = g.idx ∧ g'.stack.size = g.stack.size ∧ ∀ i ≤ g.idx, g'.stack[i]? = g.stack[i]? :=
  withMove_balanced (fun g1 a g2 _ _ hk => by
    obtain ⟨rfl, _⟩ := lazyEvaluateTop_ok hk
    exact ⟨rfl, rfl, fun _ _ => rfl⟩) h

/-! ### (e) the in-place turn flip of `LazyEvaluate` -/

/-- the Nat fact behind it: xor-ing with the same mask twice is the identity -/
theorem xor_twice (flags mask : Nat) : flags ^^^ mask ^^^ mask = flags := xor_xor_cancel flags mask

/-- The literal `LazyEvaluate` (which flips `pos.flags ^= FlagWhiteTurn` in place around the opponent-mobility
    count and flips back) hands back exactly the position it was given, and its score is `lazyEvaluate`'s.
    Covers every return path: mate, lazy cut-off and own-mobility-0 return before any flip; the full path flips
    twice. -/
theorem lazyEvaluateInPlace_restores {blend : Blend} {p p' : Position} {d α β x : Int}
    (h : lazyEvaluateInPlace blend p d α β = .ok (x, p')) : p' = p ∧ lazyEvaluate blend p d α β = .ok x :=
  lazyEvaluateInPlace_ok h

/-- as an equation, panics included: the mutating evaluation *is* the functional one paired with the input -/
theorem lazyEvaluateInPlace_eq (blend : Blend) (p : Position) (d α β : Int) :
    lazyEvaluateInPlace blend p d α β = (do let x ← lazyEvaluate blend p d α β; pure (x, p)) :=
  Model.lazyEvaluateInPlace_eq blend p d α β

/-- evaluating the top of the position stack in place leaves the whole generator as it was -/
theorem lazyEvaluateTop_restores {blend : Blend} {g g' : GenS} {d α β x : Int}
    (h : lazyEvaluateTop blend g d α β = .ok (x, g')) :
    g' = g ∧ ∃ p, g.top = some p ∧ lazyEvaluate blend p d α β = .ok x :=
  lazyEvaluateTop_ok h

set_option maxRecDepth 100000 in
/-- `c16Kings` (Ka1 v Kh8) takes the full path (no mate, score inside the window, own mobility 3): the in-place
    run succeeds with score `0 + 3·5 − 3·5 = 0` (for a blend returning 0) and the flags come back as they were,
    although they were different in between -/
example :
    okVal ((lazyEvaluateInPlace (fun _ _ _ => 0) c16Kings 0 (-1000) 1000).map fun r =>
      (r.1 == 0, r.2.flags)) = some (true, Gen.FlagWhiteTurn) ∧
    okVal (countMoves c16Kings) = some 3 ∧
    (flipTurn c16Kings).flags ≠ c16Kings.flags := by decide +kernel

end Magog.Props.C16
