import Magog.Model.Eval
import Magog.Model.Time

/-! Property C16 — theorems (see DESIGN §5). -/

namespace Magog.Props.C16

end Magog.Props.C16
