import Magog.Lemmas.UciFrame
import Magog.Props.C17

/-! Property C03, the forms of `go` — with a position set, every form of the `go` command starts a search:
    `go depth N` (N ≥ 1), `go movetime T`, `go wtime a btime b [winc c binc d] [movestogo m]` (m ≥ 1),
    `go infinite`, bare `go`; and `go` does NOT start a search exactly when a keyword's value is missing, not a
    number, or below 1 for `movestogo` / `depth`.

The statements are about whole input lines (byte strings) handed to `Model.uciStep` (`ParseInputLine`):
`goLine [t₁, …, tₖ]` is the line `go t₁ … tₖ` (single blanks), `Gen.uGo_bytes` the bare line `go`. A numeral is ANY
byte string `s` that `strconv.Atoi` accepts (`atoi s = some v`: optional sign, digits, leading zeros allowed);
`intText v` is a particular one for every `int64` value (`atoi_intText`). The only assumption on the engine
operations: `ops.str.trimSpace` is the model of `strings.TrimSpace` (`Model.trimSpace`, exact on all byte strings).

Result of a started search: `.ok (UciState.started st, [.searchStarted millis depth])` — the search object exists, the
killer table is cleared, everything else is as before; `millis` / `depth` are what `doGo` hands to
`StartIterativeDeepening`:
* depth: `min N MaxSearchDepth`, default `MaxSearchDepth` (= 40);
* `movetime T`: `T − antiflagMillis` (for `|T| ≤ 2^42`; in general the `int64` formula of the model);
* clock: `allotPure left inc movestogo` of the side to move (Props/C13), defaults 10¹¹ ms, increment 0,
  `ExpectedFullMovesToBePlayed` (= 30) moves; no clock at all: `defaultMillis = 10¹¹ / 30 − 50`.

`GoKey`, `GoField`, `fieldTokens`, `storeAll`, `goLine`, `GoRejected`, `BadValue`: `Magog/Lemmas/UciFrame.lean`. -/

namespace Magog.Props.C03Forms
open Magog Magog.Model Magog.UciFrame Magog.FenSpec Magog.PosCmd

variable {ops : EngineOps} {st : UciState} {p : Position}

/-! ## the general form: any keyword/value fields, in any order -/

/-- **C03, `go` with any list of well-formed fields** (`wtime`, `btime`, `winc`, `binc`, `movestogo`, `depth`, in any
    order, repetitions allowed; each followed by a numeral; `movestogo` and `depth` at least 1): a search is
    started, with the deadline `goFinish` computes from the assigned values and a depth in `1 … MaxSearchDepth`. -/
theorem C03_go_fields (hts : ops.str.trimSpace = trimSpace) (hp : st.pos = some p)
    (fs : List GoField) (hfs : ∀ f ∈ fs, f.Ok) (hne : fs ≠ []) :
    ∃ g, goFinish (!whiteTurn p) (storeAll fs {}) = .ok g ∧
      uciStep ops st (goLine (fieldTokens fs)) = .ok (UciState.started st, [.searchStarted g.millis g.depth]) ∧
      g.depth = (storeAll fs {}).depth ∧ 1 ≤ g.depth ∧ g.depth ≤ Gen.MaxSearchDepth := by
  obtain ⟨g, hg, hd, h1, h2⟩ := goFinish_fields (!whiteTurn p) hfs
  refine ⟨g, hg, ?_, hd, h1, h2⟩
  have hs : goScan (fieldTokens fs) {} = .ok (.done (storeAll fs {})) := by
    have := goScan_fields fs hfs [] {}
    rw [List.append_nil] at this
    rw [this]; rfl
  refine goLine_started hts hp ?_ (fieldTokens_words fs hfs) hs hg
  cases fs with
  | nil => exact absurd rfl hne
  | cons f fs => simp [fieldTokens]

/-- … followed by `infinite` (and then by any further words, which are not looked at) -/
theorem C03_go_fields_infinite (hts : ops.str.trimSpace = trimSpace) (hp : st.pos = some p)
    (fs : List GoField) (hfs : ∀ f ∈ fs, f.Ok) (junk : List Bytes) (hj : ∀ t ∈ junk, Word t) :
    ∃ g, goFinish (!whiteTurn p) (storeAll fs {}) = .ok g ∧
      uciStep ops st (goLine (fieldTokens fs ++ kwInfinite :: junk)) =
        .ok (UciState.started st, [.searchStarted g.millis g.depth]) ∧
      g.depth = (storeAll fs {}).depth ∧ 1 ≤ g.depth ∧ g.depth ≤ Gen.MaxSearchDepth := by
  obtain ⟨g, hg, hd, h1, h2⟩ := goFinish_fields (!whiteTurn p) hfs
  refine ⟨g, hg, ?_, hd, h1, h2⟩
  have hs : goScan (fieldTokens fs ++ kwInfinite :: junk) {} = .ok (.done (storeAll fs {})) := by
    rw [goScan_fields fs hfs, goScan_infinite]
  refine goLine_started hts hp (by simp) ?_ hs hg
  intro t ht
  rcases List.mem_append.1 ht with ht | ht
  · exact fieldTokens_words fs hfs t ht
  rcases List.mem_cons.1 ht with rfl | ht
  · exact word_infinite
  · exact hj t ht

/-- … followed by `movetime T` (and then by any further words, which are not looked at): the clock values are
    ignored, the thinking time comes from `T` (`T = -1` is the engine's "not given" marker: clock mode) -/
theorem C03_go_fields_movetime (hts : ops.str.trimSpace = trimSpace) (hp : st.pos = some p)
    (fs : List GoField) (hfs : ∀ f ∈ fs, f.Ok) {s : Bytes} {T : Int} (hs : atoi s = some T)
    (junk : List Bytes) (hj : ∀ t ∈ junk, Word t) :
    ∃ g, goFinish (!whiteTurn p) { storeAll fs {} with moveTime := T } = .ok g ∧
      uciStep ops st (goLine (fieldTokens fs ++ kwMoveTime :: s :: junk)) =
        .ok (UciState.started st, [.searchStarted g.millis g.depth]) ∧
      g.depth = (storeAll fs {}).depth ∧ 1 ≤ g.depth ∧ g.depth ≤ Gen.MaxSearchDepth ∧
      (T ≠ -1 → g.millis = Int.tdiv (wrap64 (wrap64 (T - Gen.antiflagMillis) * 1000000)) 1000000) ∧
      (T ≠ -1 → C13.InRange T → g.millis = T - (Gen.antiflagMillis : Int)) := by
  have hm := storeAll_movesToGo fs hfs {} default_movesToGo
  obtain ⟨g, hg⟩ := UciTotal.goFinish_total (!whiteTurn p) { storeAll fs {} with moveTime := T }
    (by show (storeAll fs {}).movesToGo ≠ 0; omega)
  have hd : g.depth = (storeAll fs {}).depth := by have := goFinish_depth hg; exact this
  have hdd := storeAll_depth fs hfs {} default_depth
  refine ⟨g, hg, ?_, hd, by rw [hd]; exact hdd.1, by rw [hd]; exact hdd.2, ?_, ?_⟩
  · have hsc : goScan (fieldTokens fs ++ kwMoveTime :: s :: junk) {} =
        .ok (.done { storeAll fs {} with moveTime := T }) := by
      rw [goScan_fields fs hfs, goScan_movetime' s junk _ T hs]
    refine goLine_started hts hp (by simp) ?_ hsc hg
    intro t ht
    rcases List.mem_append.1 ht with ht | ht
    · exact fieldTokens_words fs hfs t ht
    rcases List.mem_cons.1 ht with rfl | ht
    · exact word_movetime
    rcases List.mem_cons.1 ht with rfl | ht
    · exact atoi_word hs
    · exact hj t ht
  · intro hne
    have h1 : (T != -1) = true := by simp [hne]
    unfold goFinish at hg
    simp only [h1, if_true] at hg
    cases hg
    rfl
  · intro hne hT
    rw [goFinish_movetime _ _ hne hT] at hg
    cases hg
    rfl

/-! ## the forms the property names -/

/-- **`go depth N`**, `N ≥ 1` (any numeral `s` for `N`): a search to depth `min N MaxSearchDepth` with the default
    thinking time -/
theorem C03_go_depth (hts : ops.str.trimSpace = trimSpace) (hp : st.pos = some p) {s : Bytes} {N : Int}
    (hs : atoi s = some N) (hN : 1 ≤ N) :
    uciStep ops st (goLine [kwDepth, s]) =
      .ok (UciState.started st, [.searchStarted defaultMillis (min N Gen.MaxSearchDepth)]) := by
  have hfs : ∀ f ∈ [(⟨.depth, s, N⟩ : GoField)], f.Ok := by
    intro f hf
    rw [List.mem_singleton.1 hf]
    exact ⟨hs, hN⟩
  obtain ⟨g, hg, h, _⟩ := C03_go_fields hts hp [⟨.depth, s, N⟩] hfs (by simp)
  have : goFinish (!whiteTurn p) (storeAll [(⟨.depth, s, N⟩ : GoField)] {}) =
      .ok ⟨defaultMillis, min N Gen.MaxSearchDepth⟩ := goFinish_default _ _
  rw [this] at hg
  cases hg
  exact h

/-- for every `N` from 1 to `2^63 − 1` there is such a line: the one with the decimal text of `N` -/
theorem C03_go_depth_every (hts : ops.str.trimSpace = trimSpace) (hp : st.pos = some p) (N : Int)
    (hN : 1 ≤ N) (hN' : N ≤ 9223372036854775807) :
    uciStep ops st (goLine [kwDepth, intText N]) =
      .ok (UciState.started st, [.searchStarted defaultMillis (min N Gen.MaxSearchDepth)]) :=
  C03_go_depth hts hp (atoi_intText (by omega) hN') hN

/-- the rendered lines are what one expects, and the theorem applies to them: `go depth 7` on the start position -/
example : goLine [kwDepth, intText 7] = strBytes "go depth 7" ∧ atoi (strBytes "007") = some 7 ∧
    defaultMillis = 3333333283 ∧
    ∀ (ops : EngineOps), ops.str.trimSpace = trimSpace → ∀ sa li q k,
      uciStep ops ⟨some startPosition, sa, li, q, k⟩ (strBytes "go depth 7") =
        .ok (⟨some startPosition, true, li, q, Killers.empty⟩, [.searchStarted 3333333283 7]) := by
  have e : goLine [kwDepth, intText 7] = strBytes "go depth 7" := by decide +kernel
  refine ⟨e, by decide +kernel, by decide +kernel, fun ops hts sa li q k => ?_⟩
  rw [← e, C03_go_depth_every hts rfl 7 (by decide) (by decide)]
  have : defaultMillis = 3333333283 := by decide +kernel
  rw [this]
  rfl

/-- **`go movetime T`** (any numeral `s` for `T`; `T ≠ -1`, the engine's "not given" marker; `|T| ≤ 2^42`): a search
    to the maximal depth with `T − antiflagMillis` milliseconds -/
theorem C03_go_movetime (hts : ops.str.trimSpace = trimSpace) (hp : st.pos = some p) {s : Bytes} {T : Int}
    (hs : atoi s = some T) (hne : T ≠ -1) (hT : C13.InRange T) :
    uciStep ops st (goLine [kwMoveTime, s]) =
      .ok (UciState.started st, [.searchStarted (T - (Gen.antiflagMillis : Int)) Gen.MaxSearchDepth]) := by
  obtain ⟨g, _, h, hd, _, _, _, hm⟩ := C03_go_fields_movetime hts hp [] (by simp) hs [] (by simp)
  rw [← hm hne hT]
  have : (Gen.MaxSearchDepth : Int) = g.depth := by rw [hd]; rfl
  rw [this]
  exact h

/-- `go movetime T` for EVERY numeral (no range condition): a search is started; the thinking time is the model's
    `int64` arithmetic (`T = -1`: as if no `movetime` was given) -/
theorem C03_go_movetime_any (hts : ops.str.trimSpace = trimSpace) (hp : st.pos = some p) {s : Bytes} {T : Int}
    (hs : atoi s = some T) :
    ∃ millis, uciStep ops st (goLine [kwMoveTime, s]) =
        .ok (UciState.started st, [.searchStarted millis Gen.MaxSearchDepth]) ∧
      (T ≠ -1 → millis = Int.tdiv (wrap64 (wrap64 (T - Gen.antiflagMillis) * 1000000)) 1000000) ∧
      (T = -1 → millis = defaultMillis) := by
  obtain ⟨g, hg, h, hd, _, _, hm, _⟩ := C03_go_fields_movetime hts hp [] (by simp) hs [] (by simp)
  have : (Gen.MaxSearchDepth : Int) = g.depth := by rw [hd]; rfl
  refine ⟨g.millis, by rw [this]; exact h, hm, ?_⟩
  rintro rfl
  have h2 := goFinish_default (!whiteTurn p) ((Gen.MaxSearchDepth : Nat) : Int)
  have : ({ storeAll [] {} with moveTime := -1 } : GoAcc) = { depth := ((Gen.MaxSearchDepth : Nat) : Int) } := rfl
  rw [this, h2] at hg
  cases hg
  rfl

example : goLine [kwMoveTime, intText 1000] = strBytes "go movetime 1000" ∧ atoi (intText 1000) = some 1000 ∧
    (1000 : Int) ≠ -1 ∧ C13.InRange 1000 := by
  refine ⟨by decide +kernel, by decide +kernel, by decide, ?_⟩
  unfold C13.InRange; omega

/-- **`go wtime a btime b [winc c binc d] [movestogo m]`**, `m ≥ 1` (numerals `wt.1` … for the values `wt.2` …; all
    values `|x| ≤ 2^42`): a search to the maximal depth; the thinking time is `allotPure` (Props/C13) of the clock and
    the increment of the side to move (`clockInc`: 0 when not given), and of `m` (`clockMtg`: default
    `ExpectedFullMovesToBePlayed`). -/
theorem C03_go_clock (hts : ops.str.trimSpace = trimSpace) (hp : st.pos = some p)
    (wt bt : Bytes × Int) (inc : Option ((Bytes × Int) × (Bytes × Int))) (mtg : Option (Bytes × Int))
    (hwt : atoi wt.1 = some wt.2) (hbt : atoi bt.1 = some bt.2)
    (hinc : ∀ wi bi, inc = some (wi, bi) → atoi wi.1 = some wi.2 ∧ atoi bi.1 = some bi.2)
    (hmtg : ∀ m, mtg = some m → atoi m.1 = some m.2 ∧ 1 ≤ m.2)
    (rwt : C13.InRange wt.2) (rbt : C13.InRange bt.2) (rinc : ∀ wi bi, inc = some (wi, bi) → C13.InRange wi.2 ∧ C13.InRange bi.2) :
    uciStep ops st (goLine (fieldTokens (clockFields wt bt inc mtg))) =
      .ok (UciState.started st, [.searchStarted
        (C13.allotPure (if whiteTurn p then wt.2 else bt.2) (clockInc (whiteTurn p) inc) (clockMtg mtg))
        Gen.MaxSearchDepth]) := by
  have hfs : ∀ f ∈ clockFields wt bt inc mtg, f.Ok := by
    intro f hf
    unfold clockFields at hf
    simp only [List.mem_append, List.mem_cons, List.not_mem_nil, or_false] at hf
    rcases hf with ((rfl | rfl) | hf) | hf
    · exact ⟨hwt, trivial⟩
    · exact ⟨hbt, trivial⟩
    · cases inc with
      | none => cases hf
      | some ib =>
        obtain ⟨wi, bi⟩ := ib
        simp only [List.mem_cons, List.not_mem_nil, or_false] at hf
        rcases hf with rfl | rfl
        · exact ⟨(hinc wi bi rfl).1, trivial⟩
        · exact ⟨(hinc wi bi rfl).2, trivial⟩
    · cases mtg with
      | none => cases hf
      | some m =>
        simp only [List.mem_cons, List.not_mem_nil, or_false] at hf
        subst hf
        exact ⟨(hmtg m rfl).1, (hmtg m rfl).2⟩
  have r0 : C13.InRange 0 := by unfold C13.InRange; omega
  -- compute the accumulated parameters for the four shapes
  have key : goFinish (!whiteTurn p) (storeAll (clockFields wt bt inc mtg) {}) = .ok ⟨
      C13.allotPure (if whiteTurn p then wt.2 else bt.2) (clockInc (whiteTurn p) inc) (clockMtg mtg),
      Gen.MaxSearchDepth⟩ := by
    cases inc with
    | none =>
      cases mtg with
      | none =>
        rw [goFinish_clock _ _ rfl rbt r0 rwt r0 (by show (0 : Int) < ((Gen.ExpectedFullMovesToBePlayed : Nat) : Int); decide)]
        cases whiteTurn p <;> rfl
      | some m =>
        rw [goFinish_clock _ _ rfl rbt r0 rwt r0 (by have := (hmtg m rfl).2; show (0 : Int) < m.2; omega)]
        cases whiteTurn p <;> rfl
    | some ib =>
      obtain ⟨wi, bi⟩ := ib
      cases mtg with
      | none =>
        rw [goFinish_clock _ _ rfl rbt (rinc wi bi rfl).2 rwt (rinc wi bi rfl).1
          (by show (0 : Int) < ((Gen.ExpectedFullMovesToBePlayed : Nat) : Int); decide)]
        cases whiteTurn p <;> rfl
      | some m =>
        rw [goFinish_clock _ _ rfl rbt (rinc wi bi rfl).2 rwt (rinc wi bi rfl).1
          (by have := (hmtg m rfl).2; show (0 : Int) < m.2; omega)]
        cases whiteTurn p <;> rfl
  obtain ⟨g, hg, h, _⟩ := C03_go_fields hts hp (clockFields wt bt inc mtg) hfs (by simp [clockFields])
  rw [h]
  rw [key] at hg
  cases hg
  rfl

/-- non-vacuity: `go wtime 60000 btime 50000 winc 1000 binc 2000 movestogo 30` on the start position (White to move):
    `60000 / 30 + 1000 − 50 = 2950` ms -/
example (ops : EngineOps) (hts : ops.str.trimSpace = trimSpace) (sa : Bool) (li : Int) (q : Bool) (k : Killers) :
    goLine (fieldTokens (clockFields (intText 60000, 60000) (intText 50000, 50000)
      (some ((intText 1000, 1000), (intText 2000, 2000))) (some (intText 30, 30)))) =
      strBytes "go wtime 60000 btime 50000 winc 1000 binc 2000 movestogo 30" ∧
    uciStep ops ⟨some startPosition, sa, li, q, k⟩
      (strBytes "go wtime 60000 btime 50000 winc 1000 binc 2000 movestogo 30") =
      .ok (⟨some startPosition, true, li, q, Killers.empty⟩, [.searchStarted 2950 40]) := by
  have e : goLine (fieldTokens (clockFields (intText 60000, 60000) (intText 50000, 50000)
      (some ((intText 1000, 1000), (intText 2000, 2000))) (some (intText 30, 30)))) =
      strBytes "go wtime 60000 btime 50000 winc 1000 binc 2000 movestogo 30" := by decide +kernel
  refine ⟨e, ?_⟩
  have rng : ∀ x : Int, 0 ≤ x → x ≤ 100000 → C13.InRange x := fun x h1 h2 => by unfold C13.InRange; omega
  rw [← e, C03_go_clock hts (p := startPosition) rfl (intText 60000, 60000) (intText 50000, 50000)
    (some ((intText 1000, 1000), (intText 2000, 2000))) (some (intText 30, 30)) (by decide +kernel) (by decide +kernel)
    (fun wi bi h => by cases h; exact ⟨by decide +kernel, by decide +kernel⟩)
    (fun m h => by cases h; exact ⟨by decide +kernel, by decide⟩)
    (rng _ (by decide) (by decide)) (rng _ (by decide) (by decide))
    (fun wi bi h => by cases h; exact ⟨rng _ (by decide) (by decide), rng _ (by decide) (by decide)⟩)]
  have : C13.allotPure (if whiteTurn startPosition then (60000 : Int) else 50000)
      (clockInc (whiteTurn startPosition) (some ((intText 1000, 1000), (intText 2000, 2000))))
      (clockMtg (some (intText 30, 30))) = 2950 := by decide +kernel
  simp only [this]
  rfl

/-- **`go infinite`**: a search to the maximal depth with the default thinking time (10¹¹ ms / 30 − 50 ms ≈ 38 days;
    the engine has no separate "infinite" mode) -/
theorem C03_go_infinite (hts : ops.str.trimSpace = trimSpace) (hp : st.pos = some p) :
    uciStep ops st (goLine [kwInfinite]) =
      .ok (UciState.started st, [.searchStarted defaultMillis Gen.MaxSearchDepth]) := by
  obtain ⟨g, hg, h, _⟩ := C03_go_fields_infinite hts hp [] (by simp) [] (by simp)
  have h2 := goFinish_default (!whiteTurn p) ((Gen.MaxSearchDepth : Nat) : Int)
  have : (storeAll [] {} : GoAcc) = { depth := ((Gen.MaxSearchDepth : Nat) : Int) } := rfl
  rw [this, h2] at hg
  cases hg
  exact h

/-- **bare `go`**: the same -/
theorem C03_go_bare (hts : ops.str.trimSpace = trimSpace) (hp : st.pos = some p) :
    uciStep ops st Gen.uGo_bytes = .ok (UciState.started st, [.searchStarted defaultMillis Gen.MaxSearchDepth]) := by
  rw [uciStep_goBare hts]
  have hs : goScan (splitOn 32 []) {} = .ok (.done {}) := by
    show goScan [[]] {} = _
    rw [goScan_empty]; rfl
  exact doGo_done hp hs (goFinish_default (!whiteTurn p) ((Gen.MaxSearchDepth : Nat) : Int))

example : goLine [kwInfinite] = strBytes "go infinite" ∧ Gen.uGo_bytes = strBytes "go" ∧
    (∀ (ops : EngineOps), ops.str.trimSpace = trimSpace → ∀ sa li q k,
      uciStep ops ⟨some startPosition, sa, li, q, k⟩ (strBytes "go infinite") =
        .ok (⟨some startPosition, true, li, q, Killers.empty⟩, [.searchStarted defaultMillis 40]) ∧
      uciStep ops ⟨some startPosition, sa, li, q, k⟩ (strBytes "go") =
        .ok (⟨some startPosition, true, li, q, Killers.empty⟩, [.searchStarted defaultMillis 40])) := by
  have e1 : goLine [kwInfinite] = strBytes "go infinite" := by decide +kernel
  have e2 : Gen.uGo_bytes = strBytes "go" := by decide +kernel
  refine ⟨e1, e2, fun ops hts sa li q k => ⟨?_, ?_⟩⟩
  · rw [← e1, C03_go_infinite hts rfl]; rfl
  · rw [← e2, C03_go_bare hts rfl]; rfl

/-! ## when no search is started -/

/-- **C03, rejection.** With a position set, a `go` line (ANY byte string with the prefix `go`) starts a search
    unless its token list is rejected, and then it changes nothing but the existence of the search object and prints
    nothing. `GoRejected toks`: at some token that the scan reaches (no `movetime` / `infinite` token before it) stands
    a value keyword (`movetime`, `wtime`, `btime`, `winc`, `binc`, `movestogo`, `depth`) whose value — the next
    token — is missing or not a number, or, for `movestogo` / `depth`, below 1 (`BadValue`). -/
theorem C03_go_started_iff {st' : UciState} {line : Bytes} {out : List UOut} (hp : st.pos = some p)
    (hgo : hasPrefix line Gen.uGo_bytes = true) (h : uciStep ops st line = .ok (st', out)) :
    let toks := splitOn 32 (ops.str.trimSpace (trimPrefix line Gen.uGo_bytes))
    (GoRejected toks ↔ ∀ millis depth, UOut.searchStarted millis depth ∉ out) ∧
    (GoRejected toks → st' = { st with searchAllocated := true } ∧ out = []) ∧
    (¬ GoRejected toks → ∃ millis depth, st' = UciState.started st ∧ out = [.searchStarted millis depth]) := by
  intro toks
  rw [uciStep_go hgo] at h
  obtain ⟨a, b⟩ := doGo_started_iff hp h
  refine ⟨⟨fun hr => ?_, fun hn => ?_⟩, a, b⟩
  · rw [(a hr).2]; simp
  · refine Classical.byContradiction fun hnr => ?_
    obtain ⟨m, d, _, ho⟩ := b hnr
    exact hn m d (by rw [ho]; exact List.mem_cons_self)

/-- a keyword in last position (value missing) is a bad value; so is a value that is not a number; so are
    `movestogo 0` and `depth 0` -/
theorem badValue_examples :
    (∀ tok ∈ valueKeywords, BadValue tok []) ∧
    (∀ tok ∈ valueKeywords, ∀ x rest, atoi x = none → BadValue tok (x :: rest)) ∧
    (∀ x rest v, atoi x = some v → v < 1 → BadValue kwMovesToGo (x :: rest) ∧ BadValue kwDepth (x :: rest)) :=
  ⟨fun tok h => ⟨h, .inl rfl⟩, fun tok h x rest hx => ⟨h, .inl hx⟩,
   fun x rest v hx hv => ⟨⟨by decide, .inr ⟨.inl rfl, v, hx, hv⟩⟩, ⟨by decide, .inr ⟨.inr rfl, v, hx, hv⟩⟩⟩⟩

/-- non-vacuity of both directions on the start position: `go depth`, `go depth 0`, `go depth x`, `go wtime`,
    `go movestogo 0 wtime 1000` are rejected (nothing printed); `go movetime 100 depth` is NOT (the scan ends at
    `movetime` before it reaches the keyword without a value) -/
example (ops : EngineOps) (hts : ops.str.trimSpace = trimSpace) (sa : Bool) (li : Int) (q : Bool) (k : Killers) :
    (∀ line ∈ [strBytes "go depth", strBytes "go depth 0", strBytes "go depth x", strBytes "go wtime",
        strBytes "go movestogo 0 wtime 1000", strBytes "go depth  3"],
      hasPrefix line Gen.uGo_bytes = true ∧ GoRejected (splitOn 32 (trimSpace (trimPrefix line Gen.uGo_bytes))) ∧
      uciStep ops ⟨some startPosition, sa, li, q, k⟩ line = .ok (⟨some startPosition, true, li, q, k⟩, [])) ∧
    ¬ GoRejected (splitOn 32 (trimSpace (trimPrefix (strBytes "go movetime 100 depth") Gen.uGo_bytes))) := by
  have rej : ∀ line, hasPrefix line Gen.uGo_bytes = true →
      (match goScan (splitOn 32 (trimSpace (trimPrefix line Gen.uGo_bytes))) {} with
        | .ok .reject => true | _ => false) = true →
      hasPrefix line Gen.uGo_bytes = true ∧ GoRejected (splitOn 32 (trimSpace (trimPrefix line Gen.uGo_bytes))) ∧
      uciStep ops ⟨some startPosition, sa, li, q, k⟩ line = .ok (⟨some startPosition, true, li, q, k⟩, []) := by
    intro line hgo hb
    have hs : goScan (splitOn 32 (trimSpace (trimPrefix line Gen.uGo_bytes))) {} = .ok .reject := by
      split at hb
      · assumption
      · cases hb
    have hr := (goScan_reject_iff _ _).1.1 hs
    refine ⟨hgo, hr, ?_⟩
    obtain ⟨r, hrun⟩ : ∃ r, uciStep ops ⟨some startPosition, sa, li, q, k⟩ line = .ok r := by
      rw [uciStep_go hgo]
      unfold doGo
      obtain ⟨x, hx⟩ := UciTotal.goParams_total (!whiteTurn startPosition) (ops.str.trimSpace (trimPrefix line Gen.uGo_bytes))
      simp only [hx]
      cases x <;> exact ⟨_, rfl⟩
    obtain ⟨s', o⟩ := r
    have := (C03_go_started_iff (p := startPosition) rfl hgo hrun).2.1 (by rw [hts]; exact hr)
    rw [hrun, this.1, this.2]
  refine ⟨?_, ?_⟩
  · intro line hl
    simp only [List.mem_cons, List.not_mem_nil, or_false] at hl
    rcases hl with rfl | rfl | rfl | rfl | rfl | rfl <;> exact rej _ (by decide +kernel) (by decide +kernel)
  · intro hr
    have h1 := (goScan_reject_iff _ {}).1.2 hr
    have h2 : (match goScan (splitOn 32 (trimSpace (trimPrefix (strBytes "go movetime 100 depth") Gen.uGo_bytes))) {} with
      | .ok (.done _) => true | _ => false) = true := by decide +kernel
    rw [h1] at h2
    cases h2

end Magog.Props.C03Forms
