import Magog.Lemmas.FenLegal
import Magog.Props.C08RoundTrip
import Magog.Props.C08
import Magog.Props.C02

/-! Property C08, converse of the round trip — "the loader accepts ONLY legal positions".

`Props/C08RoundTrip.lean` shows that every legal position of the rules specification (`Spec.Legal`,
Magog/Spec/Chess.lean) is accepted when written as FEN text, and loaded with exactly its meaning. This file
shows the other direction, for ARBITRARY input bytes (not only text produced by the writer):

* `fen_accepts_only_legal`: whatever byte string `parseFen` accepts, the abstraction `abs p` of the loaded position
  satisfies `Spec.Legal`: 64 squares, exactly one king each, side not to move not in check, no pawn on a back
  rank, at most 8 pawns and at most 15 non-king men per side, castling rights only with king and rook at home,
  en-passant target consistent with a double push just played.
  Finding (negative): NO clause of `Spec.Legal` fails for accepted positions and no extra hypothesis is needed —
  every clause is one of the loader's tests (`hasRoomFor`, king count, back-rank pawns, `castlingConsistent`,
  `epConsistent`, `isOpponentKingUnderCheck`), read through the list/board bijection of the invariant `Inv`.
* `fen_accepted_positions_exact`: hence the set of positions the loader can produce (up to the ply counter) is
  EXACTLY the set of legal positions of the specification.
* `inv_oppSafe_legal`, `inv_legal_iff_oppSafe`: the same for any model position satisfying the shared invariant
  `Inv` (so also for every position reached by generated moves, `Props.C02.history_inv`): it is `Spec.Legal` iff the
  side not to move is not in check (`MM.OppSafe`).
* `fen_accepted_ply_range`, `fen_accepted_ply_exact`, `fen_accepted_ply_range_tight`: the ply of an accepted position
  lies in `0 … 2·maxFullMoveCounter − 1` (= 19997), it is `2 (n − 1) + (0 | 1)` for a full-move number
  `1 ≤ n ≤ maxFullMoveCounter`, and every value of the range occurs.

Proofs: `Magog/Lemmas/FenLegal.lean`. -/

namespace Magog.Props.C08Legal
open Magog Magog.Model Magog.FenSpec Magog.FenLemmas Magog.FenWrite

/-- **C08, only legal positions are accepted.** Whatever byte string the loader accepts, the loaded position
    is a legal position of the rules-of-chess specification. -/
theorem fen_accepts_only_legal {s : Bytes} {p : Position} (h : parseFen s = .ok (.ok p)) :
    Spec.Legal (abs p) = true :=
  FenLegal.legal_of_inv (C02.fen_inv h) (C08.fen_oppSafe h)

/-- non-vacuity: the start position is accepted (and so legal) … -/
example : ∃ p, parseFen (strBytes "rnbqkbnr/pppppppp/8/8/8/8/PPPPPPPP/RNBQKBNR w KQkq - 0 1") = .ok (.ok p) ∧
    Spec.Legal (abs p) = true :=
  (accepted_iff.1 (by decide +kernel)).imp fun _ hp => ⟨hp, fen_accepts_only_legal hp⟩

/-- … and so is a position with an en-passant square, partial castling rights and Black to move … -/
example : ∃ p, parseFen (strBytes "rnbqkbnr/pppppppp/8/8/4P3/8/PPPP1PPP/RNBQKBNR b Kq e3 0 3") = .ok (.ok p) ∧
    Spec.Legal (abs p) = true :=
  (accepted_iff.1 (by decide +kernel)).imp fun _ hp => ⟨hp, fen_accepts_only_legal hp⟩

/-- … also when the text is not what the writer would produce (castling letters in another order and repeated,
    a half-move clock that is not a number, a signed full-move number with leading zeros): the theorem is about
    all accepted byte strings. -/
example : ∃ p, parseFen (strBytes "r3k2r/8/8/3pP3/8/8/8/R3K2R w qkQKq d6 x +007") = .ok (.ok p) ∧
    Spec.Legal (abs p) = true :=
  (accepted_iff.1 (by decide +kernel)).imp fun _ hp => ⟨hp, fen_accepts_only_legal hp⟩

/-- **C08, the accepted positions are exactly the legal ones.** -/
theorem fen_accepted_positions_exact (P : Spec.Pos) :
    (∃ s p, parseFen s = .ok (.ok p) ∧ abs p = P) ↔ Spec.Legal P = true := by
  constructor
  · rintro ⟨s, p, h, rfl⟩
    exact fen_accepts_only_legal h
  · intro hL
    obtain ⟨p, hp, ha, _⟩ := C08RoundTrip.fen_roundtrip hL (Nat.le_refl 1) (by decide)
    exact ⟨_, p, hp, ha⟩

/-- both sides of the equivalence occur: the en-passant witness is produced by the loader … -/
example : ∃ s p, parseFen s = .ok (.ok p) ∧ abs p = epWitness :=
  (fen_accepted_positions_exact epWitness).2 epWitness_legal

/-- … while no input at all makes the loader produce the start placement with an en-passant square e3
    (no pawn has just made a double step) -/
example : ¬ ∃ s p, parseFen s = .ok (.ok p) ∧ abs p = { Spec.startPos with turn := .black, ep := some 20 } := by
  rw [fen_accepted_positions_exact]
  decide +kernel

/-- **Every well-formed model position in which the side not to move is not in check is a legal position of the
    specification** — not only the loaded ones: `Inv` and `OppSafe` are preserved along every game of generated,
    accepted moves (`Props.C02.history_inv`). -/
theorem inv_oppSafe_legal {p : Position} (hI : Inv p) (hS : MM.OppSafe p) : Spec.Legal (abs p) = true :=
  FenLegal.legal_of_inv hI hS

/-- … and for a well-formed model position this is an equivalence. -/
theorem inv_legal_iff_oppSafe {p : Position} (hI : Inv p) : Spec.Legal (abs p) = true ↔ MM.OppSafe p :=
  FenLegal.legal_iff_oppSafe hI

/-- non-vacuity: the engine's initial position (built by `Model.startPosition`, not loaded from FEN) -/
example : Inv startPosition ∧ MM.OppSafe startPosition ∧ Spec.Legal (abs startPosition) = true :=
  ⟨inv_startPosition, C02.oppSafe_start, inv_oppSafe_legal inv_startPosition C02.oppSafe_start⟩

/-- The ply of an accepted position is in the range of the move counter:
    `0 ≤ ply ≤ 2 · maxFullMoveCounter − 1` (= 19997; `FenInv.plyRange` has the weaker bound `2 · maxFullMoveCounter`). -/
theorem fen_accepted_ply_range {s : Bytes} {p : Position} (h : parseFen s = .ok (.ok p)) :
    0 ≤ p.ply ∧ p.ply ≤ 2 * (Gen.maxFullMoveCounter : Int) - 1 := by
  obtain ⟨n, h1, h2, h3⟩ := FenLegal.ply_of_faithful (C08.fen_faithful h)
  rw [h3]
  cases whiteTurn p <;> simp <;> omega

/-- … more precisely it is `2 (n − 1)` (White to move) or `2 (n − 1) + 1` (Black to move) for a full-move number
    `1 ≤ n ≤ maxFullMoveCounter`. -/
theorem fen_accepted_ply_exact {s : Bytes} {p : Position} (h : parseFen s = .ok (.ok p)) :
    ∃ n : Int, 1 ≤ n ∧ n ≤ (Gen.maxFullMoveCounter : Int) ∧
      p.ply = 2 * (n - 1) + (if (abs p).turn = .white then 0 else 1) := by
  obtain ⟨n, h1, h2, h3⟩ := FenLegal.ply_of_faithful (C08.fen_faithful h)
  refine ⟨n, h1, h2, ?_⟩
  rw [h3]
  show _ = 2 * (n - 1) + (if (if whiteTurn p then Spec.Color.white else Spec.Color.black) = .white then 0 else 1)
  cases whiteTurn p <;> rfl

example : ∃ p, parseFen (strBytes "rnbqkbnr/pppppppp/8/8/4P3/8/PPPP1PPP/RNBQKBNR b Kq e3 0 3") = .ok (.ok p) ∧
    0 ≤ p.ply ∧ p.ply ≤ 2 * (Gen.maxFullMoveCounter : Int) - 1 :=
  (accepted_iff.1 (by decide +kernel)).imp fun _ hp => ⟨hp, fen_accepted_ply_range hp⟩

/-- The range of `fen_accepted_ply_range` is exact: every ply `0 … 2 · maxFullMoveCounter − 1` is the ply of some
    accepted position. -/
theorem fen_accepted_ply_range_tight (k : Nat) (hk : (k : Int) ≤ 2 * (Gen.maxFullMoveCounter : Int) - 1) :
    ∃ s p, parseFen s = .ok (.ok p) ∧ p.ply = k := by
  have hk' : k ≤ 19997 := by simp only [Gen.maxFullMoveCounter] at hk; omega
  rcases Nat.mod_two_eq_zero_or_one k with h0 | h1
  · obtain ⟨p, hp, _, hply⟩ := C08RoundTrip.fen_roundtrip (n := k / 2 + 1) startPos_legal (by omega)
      (by simp only [Gen.maxFullMoveCounter]; omega)
    refine ⟨_, p, hp, ?_⟩
    have ht : Spec.startPos.turn = .white := rfl
    rw [hply, if_pos ht]
    omega
  · obtain ⟨p, hp, _, hply⟩ := C08RoundTrip.fen_roundtrip (n := k / 2 + 1) epWitness_legal (by omega)
      (by simp only [Gen.maxFullMoveCounter]; omega)
    refine ⟨_, p, hp, ?_⟩
    have ht : ¬ epWitness.turn = .white := by decide
    rw [hply, if_neg ht]
    omega

/-- the two ends of the range, on concrete texts -/
example : (match parseFen (strBytes "rnbqkbnr/pppppppp/8/8/8/8/PPPPPPPP/RNBQKBNR w KQkq - 0 1") with
    | .ok (.ok p) => p.ply == 0 | _ => false) = true := by decide +kernel
example : (match parseFen (strBytes "rnbqkbnr/pppppppp/8/8/4P3/8/PPPP1PPP/RNBQKBNR b Kq e3 0 9999") with
    | .ok (.ok p) => p.ply == 19997 | _ => false) = true := by decide +kernel

end Magog.Props.C08Legal
