import Magog.Lemmas.GoArith
import Magog.Props.C18

/-! C18 - the killer-table slot: Go's `killerSlot`.

    Tie theorems: `Magog.Gen.Fn.*` is printed by the Go→Lean translator `harness/cmd/go2lean` from the current Go
    source on every run (T0); these theorems equate the translation with the hand-written model for **all**
    arguments, so the model's theorems about these functions hold of the code as translated. A change of the Go
    function changes the generated definition and this module is re-checked. -/

namespace Magog.Props.C18Tie
open Magog Magog.Lemmas.GoArith Magog.Gen.Fn

theorem killerSlot_tie (ply : Int) : Gen.Fn.killerSlot ply = (Model.killerIdx ply : Int) := by
  unfold Gen.Fn.killerSlot Model.killerIdx wrapU
  simp only [Gen.killerMovesMaxPly]
  have h : (0:Int) ≤ ply % 2 ^ 16 := Int.emod_nonneg _ (by decide)
  rw [Int.tmod_eq_emod_of_nonneg h]
  omega

/-- capacity, stated of the translated Go code: every ply value, negative and wrapped ones included, is mapped
    inside the killer table -/
theorem killerSlot_in_table (ply : Int) : 0 ≤ Gen.Fn.killerSlot ply ∧ Gen.Fn.killerSlot ply < (Gen.killerMovesMaxPly : Int) := by
  rw [killerSlot_tie]
  unfold Model.killerIdx
  simp only [Gen.killerMovesMaxPly]
  omega

example : Gen.Fn.killerSlot 349 = 349 ∧ Gen.Fn.killerSlot 350 = 0 ∧ Gen.Fn.killerSlot (-1) = 85 ∧ Gen.Fn.killerSlot 32767 = 217 := by decide

end Magog.Props.C18Tie
