import Magog.Lemmas.GoArith
import Magog.Props.C05

/-! C05 - mate-score arithmetic and score formatting: the Go functions `nextMoveWins`, `closeToMate`, `pliesToMate`, `fullMovesToMate`.

    Tie theorems: `Magog.Gen.Fn.*` is printed by the Go→Lean translator `harness/cmd/go2lean` from the current Go
    source on every run (T0); these theorems equate the translation with the hand-written model for **all**
    arguments, so the model's theorems about these functions hold of the code as translated. A change of the Go
    function changes the generated definition and this module is re-checked. -/

namespace Magog.Props.C05Tie
open Magog Magog.Lemmas.GoArith Magog.Gen.Fn

theorem nextMoveWins_tie (s : Int) : Gen.Fn.nextMoveWins s = Model.nextMoveWins s := by
  unfold Gen.Fn.nextMoveWins Model.nextMoveWins
  simp only [Gen.LostScore]
  rw [wrapS64_id (by decide) (by decide)]
  rfl

theorem closeToMate_tie (s : Int) (h1 : -9223372036854775808 < s) (h2 : s < 9223372036854775808) :
    Gen.Fn.closeToMate s = Model.closeToMate s := by
  unfold Gen.Fn.closeToMate Model.closeToMate
  rw [abs_eq h1 h2]
  simp only [Gen.ScoreCloseToMate]
  apply decide_eq_decide.mpr
  omega
theorem calcEndtime_tie (bl bi wl wi mtg : Int) (b : Bool) :
    OkEq (Gen.Fn.calcEndtime_millis bl bi wl wi mtg b) (Model.allot b bl bi wl wi mtg) := by
  unfold Gen.Fn.calcEndtime_millis Model.allot Gen.Fn.goDiv Model.goDiv OkEq
  simp only [wrapS64_eq_wrap64, min_eq, max_eq, Gen.antiflagMillis]
  cases b 
  · by_cases hm : mtg = 0 <;> by_cases h : wi < wl <;> simp [hm, h, throw, throwThe, MonadExceptOf.throw, pure, Except.pure, Functor.map, Except.map, bind, Except.bind]
  · by_cases hm : mtg = 0 <;> by_cases h : bi < bl <;> simp [hm, h, throw, throwThe, MonadExceptOf.throw, pure, Except.pure, Functor.map, Except.map, bind, Except.bind]

theorem pliesToMate_tie (s : Int) (h1 : -9223372036854775808 < s) (h2 : s < 9223372036854775808) :
    Gen.Fn.pliesToMate s = Model.pliesToMate s := by
  unfold Gen.Fn.pliesToMate Model.pliesToMate
  rw [abs_eq h1 h2]
  simp only [Gen.LostScore]
  rw [wrapS64_id (by omega) (by omega)]
  omega

theorem fullMovesToMate_tie (s : Int) (h1 : -4611686018427387904 < s) (h2 : s < 4611686018427387904) :
    Gen.Fn.fullMovesToMate s = Model.fullMovesToMate s := by
  unfold Gen.Fn.fullMovesToMate Model.fullMovesToMate
  simp only [Gen.LostScore, decide_eq_true_eq]
  split
  · rw [wrapS64_id (x := -s) (by omega) (by omega)]
    rw [wrapS64_id (x := 100000 - -s) (by omega) (by omega)]
    rw [wrapS64_id (x := 100000 - -s + 1) (by omega) (by omega)]
    rw [wrapS64_id (x := -1 * (100000 - -s + 1)) (by omega) (by omega)]
    rw [wrapS64_tdiv (by omega) (by omega)]
    congr 1
  · rw [wrapS64_id (x := 100000 - s) (by omega) (by omega)]
    rw [wrapS64_id (x := 100000 - s + 1) (by omega) (by omega)]
    rw [wrapS64_id (x := 1 * (100000 - s + 1)) (by omega) (by omega)]
    rw [wrapS64_tdiv (by omega) (by omega)]
    congr 1

/-- the text the model prints for a score is determined by the translated Go functions -/
theorem formatScore_tie (s : Int) (h1 : -4611686018427387904 < s) (h2 : s < 4611686018427387904) :
    Model.formatScore s = if Gen.Fn.closeToMate s then .mate (Gen.Fn.fullMovesToMate s) else .cp s := by
  unfold Model.formatScore
  rw [closeToMate_tie s (by omega) (by omega), fullMovesToMate_tie s h1 h2]

/-- Go's `abs` overflows at the least int64 (the one argument excluded above): the translated code says so -/
theorem abs_minInt64 : Gen.Fn.abs (-9223372036854775808) = -9223372036854775808 := by decide

example : Gen.Fn.fullMovesToMate 99997 = 2 ∧ Gen.Fn.fullMovesToMate (-99996) = -2 ∧ Gen.Fn.closeToMate 99997 = true
    ∧ Gen.Fn.closeToMate 20650 = false ∧ Gen.Fn.pliesToMate (-99996) = 4 ∧ Gen.Fn.nextMoveWins 99999 = true := by decide

end Magog.Props.C05Tie
