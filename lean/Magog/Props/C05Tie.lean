import Magog.Lemmas.GoArith
import Magog.Props.C05
import Magog.Model.Eval
import Magog.Lemmas.EvalDecision

/-! C05 - mate-score arithmetic and score formatting: the Go functions `nextMoveWins`, `closeToMate`, `pliesToMate`, `fullMovesToMate`.

    Tie theorems: `Magog.Gen.Fn.*` is printed by the Go→Lean translator `harness/cmd/go2lean` from the current Go
    source on every run (T0); these theorems equate the translation with the hand-written model for **all**
    arguments, so the model's theorems about these functions hold of the code as translated. A change of the Go
    function changes the generated definition and this module is re-checked. -/

namespace Magog.Props.C05Tie
open Magog Magog.Lemmas.GoArith Magog.Gen.Fn

theorem nextMoveWins_tie (s : Int) : Gen.Fn.nextMoveWins s = Model.nextMoveWins s := by
  unfold Gen.Fn.nextMoveWins Model.nextMoveWins
  simp only [Gen.LostScore]
  rw [wrapS64_id (by decide) (by decide)]
  rfl

theorem closeToMate_tie (s : Int) (h1 : -9223372036854775808 < s) (h2 : s < 9223372036854775808) :
    Gen.Fn.closeToMate s = Model.closeToMate s := by
  unfold Gen.Fn.closeToMate Model.closeToMate
  rw [abs_eq h1 h2]
  simp only [Gen.ScoreCloseToMate]
  apply decide_eq_decide.mpr
  omega
theorem pliesToMate_tie (s : Int) (h1 : -9223372036854775808 < s) (h2 : s < 9223372036854775808) :
    Gen.Fn.pliesToMate s = Model.pliesToMate s := by
  unfold Gen.Fn.pliesToMate Model.pliesToMate
  rw [abs_eq h1 h2]
  simp only [Gen.LostScore]
  rw [wrapS64_id (by omega) (by omega)]
  omega

theorem fullMovesToMate_tie (s : Int) (h1 : -4611686018427387904 < s) (h2 : s < 4611686018427387904) :
    Gen.Fn.fullMovesToMate s = Model.fullMovesToMate s := by
  unfold Gen.Fn.fullMovesToMate Model.fullMovesToMate
  simp only [Gen.LostScore, decide_eq_true_eq]
  split
  · rw [wrapS64_id (x := -s) (by omega) (by omega)]
    rw [wrapS64_id (x := 100000 - -s) (by omega) (by omega)]
    rw [wrapS64_id (x := 100000 - -s + 1) (by omega) (by omega)]
    rw [wrapS64_id (x := -1 * (100000 - -s + 1)) (by omega) (by omega)]
    rw [wrapS64_tdiv (by omega) (by omega)]
    congr 1
  · rw [wrapS64_id (x := 100000 - s) (by omega) (by omega)]
    rw [wrapS64_id (x := 100000 - s + 1) (by omega) (by omega)]
    rw [wrapS64_id (x := 1 * (100000 - s + 1)) (by omega) (by omega)]
    rw [wrapS64_tdiv (by omega) (by omega)]
    congr 1

/-- the text the model prints for a score is determined by the translated Go functions -/
theorem formatScore_tie (s : Int) (h1 : -4611686018427387904 < s) (h2 : s < 4611686018427387904) :
    Model.formatScore s = if Gen.Fn.closeToMate s then .mate (Gen.Fn.fullMovesToMate s) else .cp s := by
  unfold Model.formatScore
  rw [closeToMate_tie s (by omega) (by omega), fullMovesToMate_tie s h1 h2]

/-- Go's `abs` overflows at the least int64 (the one argument excluded above): the translated code says so -/
theorem abs_minInt64 : Gen.Fn.abs (-9223372036854775808) = -9223372036854775808 := by decide

example : Gen.Fn.fullMovesToMate 99997 = 2 ∧ Gen.Fn.fullMovesToMate (-99996) = -2 ∧ Gen.Fn.closeToMate 99997 = true
    ∧ Gen.Fn.closeToMate 20650 = false ∧ Gen.Fn.pliesToMate (-99996) = 4 ∧ Gen.Fn.nextMoveWins 99999 = true := by decide

/-- values that occur in a search: far inside int64 -/
def Small (x : Int) : Prop := -1000000000000 < x ∧ x < 1000000000000

/-- the decision structure of the lazy evaluation: given the same four sub-results (mate test, cheap score, the two
    mobility counts) the hand-written model returns what the translated Go code returns -/
theorem lazyEvaluate_tie (blend : Model.Blend) (p : Model.Position) (depth alpha beta : Int)
    (mate : Bool) (cheap : Int) (own enemy : Nat)
    (hd : Small depth) (ha : Small alpha) (hb : Small beta) (hc : Small cheap) (ho : own < 1000000) (he : enemy < 1000000)
    (h1 : Model.isCheckMate p = .ok mate)
    (h2 : mate = false → Model.pieceSquareScore blend p = .ok cheap)
    (h3 : mate = false → Model.countMoves p = .ok own)
    (h4 : mate = false → Model.countMoves (Model.flipTurn p) = .ok enemy) :
    Model.lazyEvaluate blend p depth alpha beta = .ok (Gen.Fn.LazyEvaluate_decision depth alpha beta mate cheap own enemy) := by
  unfold Small at *
  unfold Model.lazyEvaluate Gen.Fn.LazyEvaluate_decision
  simp only [h1, bind, Except.bind, pure, Except.pure]
  cases mate with
  | true =>
    simp only [↓reduceIte, Gen.LostScore]
    rw [wrapS64_id (by omega) (by omega)]
  | false =>
    simp only [h2 rfl, h3 rfl, h4 rfl, Bool.false_eq_true, ↓reduceIte, Gen.fullEvalScoreMargin, Gen.MobilityScoreFactor, Gen.DrawScore]
    rw [wrapS64_id (x := beta + 320) (by omega) (by omega), wrapS64_id (x := alpha - 320) (by omega) (by omega),
      wrapS64_id (x := (own:Int) * 5) (by omega) (by omega), wrapS64_id (x := (enemy:Int) * 5) (by omega) (by omega),
      wrapS64_id (x := (own:Int) * 5 - (enemy:Int) * 5) (by omega) (by omega),
      wrapS64_id (x := cheap + ((own:Int) * 5 - (enemy:Int) * 5)) (by omega) (by omega)]
    have c320 : ((320 : Nat) : Int) = 320 := rfl
    have c0 : ((0 : Nat) : Int) = 0 := rfl
    simp only [c320, c0]
    by_cases hcut : cheap > beta + 320 ∨ cheap < alpha - 320
    · have hb' : (decide (cheap > beta + 320) || decide (cheap < alpha - 320)) = true := by
        rcases hcut with h | h
        · simp [h]
        · simp [h]
      rw [if_pos hb', if_pos hb']
    · have hb' : ¬ ((decide (cheap > beta + 320) || decide (cheap < alpha - 320)) = true) := by
        intro h
        rw [Bool.or_eq_true, decide_eq_true_eq, decide_eq_true_eq] at h
        exact hcut h
      rw [if_neg hb', if_neg hb']
      by_cases h0 : own = 0
      · subst h0; rfl
      · have a1 : ¬ ((own * 5 == 0) = true) := by rw [beq_iff_eq]; omega
        have a2 : ¬ ((((own:Int) * 5) == 0) = true) := by rw [beq_iff_eq]; omega
        rw [if_neg a1, if_neg a2]
        congr 1
        have e1 : ((own * 5 : Nat) : Int) = (own : Int) * 5 := by omega
        have e2 : ((enemy * 5 : Nat) : Int) = (enemy : Int) * 5 := by omega
        rw [e1, e2]
        omega

/-- the translated Go decision is that function, for all values a search can produce -/
theorem LazyEvaluate_decision_eq (depth alpha beta : Int) (mate : Bool) (cheap : Int) (own enemy : Nat)
    (hd : Small depth) (ha : Small alpha) (hb : Small beta) (hc : Small cheap) (ho : own < 1000000) (he : enemy < 1000000) :
    Gen.Fn.LazyEvaluate_decision depth alpha beta mate cheap own enemy = Lemmas.lazyDecision depth alpha beta mate cheap own enemy := by
  unfold Small at *
  unfold Gen.Fn.LazyEvaluate_decision Lemmas.lazyDecision
  cases mate with
  | true =>
    simp only [↓reduceIte, Gen.LostScore]
    rw [wrapS64_id (by omega) (by omega)]
  | false =>
    simp only [Bool.false_eq_true, ↓reduceIte, Gen.fullEvalScoreMargin, Gen.MobilityScoreFactor, Gen.DrawScore]
    rw [wrapS64_id (x := beta + 320) (by omega) (by omega), wrapS64_id (x := alpha - 320) (by omega) (by omega),
      wrapS64_id (x := (own:Int) * 5) (by omega) (by omega), wrapS64_id (x := (enemy:Int) * 5) (by omega) (by omega),
      wrapS64_id (x := (own:Int) * 5 - (enemy:Int) * 5) (by omega) (by omega),
      wrapS64_id (x := cheap + ((own:Int) * 5 - (enemy:Int) * 5)) (by omega) (by omega)]
    have c320 : ((320 : Nat) : Int) = 320 := rfl
    have c0 : ((0 : Nat) : Int) = 0 := rfl
    simp only [c320, c0]
    by_cases hcut : cheap > beta + 320 ∨ cheap < alpha - 320
    · have hb' : (decide (cheap > beta + 320) || decide (cheap < alpha - 320)) = true := by
        rcases hcut with h | h
        · simp [h]
        · simp [h]
      rw [if_pos hb', if_pos hb']
    · have hb' : ¬ ((decide (cheap > beta + 320) || decide (cheap < alpha - 320)) = true) := by
        intro h
        rw [Bool.or_eq_true, decide_eq_true_eq, decide_eq_true_eq] at h
        exact hcut h
      rw [if_neg hb', if_neg hb']
      by_cases h0 : own = 0
      · subst h0; rfl
      · have a1 : ¬ ((own * 5 == 0) = true) := by rw [beq_iff_eq]; omega
        have a2 : ¬ ((((own:Int) * 5) == 0) = true) := by rw [beq_iff_eq]; omega
        rw [if_neg a1, if_neg a2]
        have e1 : ((own * 5 : Nat) : Int) = (own : Int) * 5 := by omega
        have e2 : ((enemy * 5 : Nat) : Int) = (enemy : Int) * 5 := by omega
        rw [e1, e2]
        omega

theorem terminalNodeScore_tie (p : Model.Position) (depth : Int) (hd : Small depth) (chk : Bool)
    (h : Model.isCurrentKingUnderCheck p = .ok chk) :
    Model.terminalNodeScore p depth = .ok (Gen.Fn.terminalNodeScore_decision depth chk) := by
  unfold Small at hd
  unfold Model.terminalNodeScore Gen.Fn.terminalNodeScore_decision
  simp only [h, bind, Except.bind, pure, Except.pure, Gen.LostScore, Gen.DrawScore]
  rw [wrapS64_id (by omega) (by omega)]
  cases chk <;> rfl

example : Gen.Fn.LazyEvaluate_decision 3 (-50) 50 true 0 0 0 = -99997 ∧ Gen.Fn.LazyEvaluate_decision 3 (-50) 50 false 900 20 20 = 900
    ∧ Gen.Fn.LazyEvaluate_decision 3 (-50) 50 false 10 0 5 = 0 ∧ Gen.Fn.LazyEvaluate_decision 3 (-50) 50 false 10 30 20 = 60 := by decide

end Magog.Props.C05Tie
