import Magog.Lemmas.GenPseudo
import Magog.Lemmas.GenExamples

/-! Property C01 (pseudo-legal layer) — the engine model's pseudo-legal move generator `genPseudo`
    produces exactly the moves allowed by the movement rules of chess.

Setting. `abs p : Spec.Pos` is the chess position a model position denotes, `absMove m : Spec.Move` the
chess move an engine move denotes (`Magog/AbsMove.lean`), `Inv p` the shared well-formedness invariant
(`Magog/Lemmas/Inv.lean`). The rules are `Spec.pseudo` (movement rules incl. castling preconditions, no
king safety) from `Magog/Spec/Chess.lean`.

The ONE documented difference between the engine's pseudo-legal layer and `Spec.pseudo`: `kingGen` already
drops ordinary king moves (king *steps*, i.e. not castling) onto a square that is attacked by the opponent
on the current board (it calls `isUnderCheck` on the destination). Such a move is never legal, so nothing
is lost for the legal layer, but the pseudo-legal list is a subset of `Spec.pseudo`. The exact
specification of the list is therefore (`Magog/Spec/Pseudo.lean`)

    Spec.pseudo' P m = Spec.pseudo P m && !Spec.kingStepAttacked P m
    Spec.kingStepAttacked P m = (the man on m.frm is a king) && !Spec.isCastle P m &&
                                Spec.attacked P.board P.turn.other m.to

All five statements below are FULL (all move classes: pawn pushes / double pushes / captures / en passant /
promotions, knights, sliders, king steps, castling); none is `_partial`. The killer table `kt` is
arbitrary in 2–5 (it only influences rankings, `Lemmas/KillerIndep.lean`); only "no panic" needs its
allocated size. -/

namespace Magog.Props.C01
open Magog Magog.Model Magog.GenPure Magog.GenPseudo Magog.GenExamples Magog.Count

/-- 1. Generation never panics on a well-formed position: every board index is inside the 128-slot array
    (including the unguarded king-side pawn capture read, by `Inv.noBackPawn`), no ray walk runs out of
    its fuel 8, the castling `int8` index expressions stay on the board (a set castling flag implies the
    king is on its home square, `Inv.castling`), `pieceToScore` is only asked about real pieces. -/
theorem genPseudo_ok {p : Position} (inv : Inv p) :
    ∀ kt : Killers, kt.size = Gen.killerMovesMaxPly → ∃ ms, genPseudo kt p = .ok ms := by
  intro kt hk
  obtain ⟨ms, h, _⟩ := genPseudo_genList inv hk
  exact ⟨ms, h⟩

example : Inv startPosition ∧ Killers.empty.size = Gen.killerMovesMaxPly :=
  ⟨inv_startPosition, Props.C18.killers_empty_size⟩

/-- instantiated: the start position, a middle-game position with en passant and castling available, and
    a promotion position generate without panic -/
example : (∃ ms, genPseudo Killers.empty startPosition = .ok ms) ∧
    (∃ ms, genPseudo Killers.empty c06Witness = .ok ms) ∧
    (∃ ms, genPseudo Killers.empty c06PromoWitness = .ok ms) :=
  ⟨genPseudo_ok inv_startPosition _ Props.C18.killers_empty_size,
   genPseudo_ok inv_c06Witness _ Props.C18.killers_empty_size,
   genPseudo_ok inv_c06PromoWitness _ Props.C18.killers_empty_size⟩

/-- 2. Soundness: every generated move is allowed by the movement rules (exactly: by `Spec.pseudo'`). -/
theorem genPseudo_sound {p : Position} {kt : Killers} {ms : List RMove} (inv : Inv p)
    (h : genPseudo kt p = .ok ms) : ∀ rm ∈ ms, Spec.pseudo' (abs p) (absMove rm.mov) = true := by
  intro rm hrm
  have hm := mem_view hrm
  rw [genPseudo_view_eq inv h] at hm
  exact ((genList_spec (env_of_inv inv Props.C18.killers_empty_size)).1 _ hm).1

/-- hypotheses satisfiable, conclusion not vacuous: the start position yields 20 moves, all of them allowed -/
example : ∃ ms, genPseudo Killers.empty startPosition = .ok ms ∧ ms.length = 20 ∧
    ∀ rm ∈ ms, Spec.pseudo' (abs startPosition) (absMove rm.mov) = true := by
  obtain ⟨ms, h, hl⟩ := okLen_pos (x := genPseudo Killers.empty startPosition) (by rw [start_len]; decide)
  exact ⟨ms, h, by rw [hl, start_len], genPseudo_sound inv_startPosition h⟩

/-- the documented difference is real: after 1.e4 f5 2.Qh5+ the king step Ke8-f7 satisfies `Spec.pseudo`
    but is NOT generated (f7 is attacked by the queen) -/
example : ∃ ms, genPseudo Killers.empty checkWitness = .ok ms ∧
    Spec.pseudo (abs checkWitness) ⟨60, 53, none⟩ = true ∧ ¬ ∃ rm ∈ ms, absMove rm.mov = ⟨60, 53, none⟩ := by
  obtain ⟨ms, h, _⟩ := okLen_pos (x := genPseudo Killers.empty checkWitness) (by rw [checkWitness_len]; decide)
  refine ⟨ms, h, checkWitness_kf7.1, ?_⟩
  rintro ⟨rm, hrm, he⟩
  have := genPseudo_sound inv_checkWitness h rm hrm
  rw [he, checkWitness_kf7.2.2] at this
  cases this

/-- 2'. Soundness against the plain movement rules `Spec.pseudo` (the generated list is a subset). -/
theorem genPseudo_sound_pseudo {p : Position} {kt : Killers} {ms : List RMove} (inv : Inv p)
    (h : genPseudo kt p = .ok ms) : ∀ rm ∈ ms, Spec.pseudo (abs p) (absMove rm.mov) = true :=
  fun rm hrm => Spec.pseudo_of_pseudo' (genPseudo_sound inv h rm hrm)

/-- 3. Completeness: every move allowed by the movement rules — except king steps onto a square attacked
    on the current board, which the engine drops already here — is generated. -/
theorem genPseudo_complete {p : Position} {kt : Killers} {ms : List RMove} (inv : Inv p)
    (h : genPseudo kt p = .ok ms) :
    ∀ sm : Spec.Move, Spec.pseudo (abs p) sm = true → Spec.kingStepAttacked (abs p) sm = false →
      ∃ rm ∈ ms, absMove rm.mov = sm := by
  intro sm h1 h2
  have hs : Spec.pseudo' (abs p) sm = true := by simp [Spec.pseudo', h1, h2]
  obtain ⟨y, hy, hye⟩ := (genList_spec (env_of_inv inv Props.C18.killers_empty_size)).2.1 sm hs
  rw [← genPseudo_view_eq inv h] at hy
  obtain ⟨rm, hrm, rfl⟩ := List.mem_map.1 hy
  exact ⟨rm, hrm, hye⟩

/-- instantiated: e2-e4 is generated in the start position; a5xb6 e.p. and O-O in `c06Witness`; a7xb8=N in
    `c06PromoWitness` -/
example : ∃ ms, genPseudo Killers.empty startPosition = .ok ms ∧ ∃ rm ∈ ms, absMove rm.mov = ⟨12, 28, none⟩ := by
  obtain ⟨ms, h⟩ := genPseudo_ok inv_startPosition _ Props.C18.killers_empty_size
  exact ⟨ms, h, genPseudo_complete inv_startPosition h _ start_e2e4.1 start_e2e4.2.1⟩

example : ∃ ms, genPseudo Killers.empty c06Witness = .ok ms ∧
    (∃ rm ∈ ms, absMove rm.mov = ⟨32, 41, none⟩) ∧ (∃ rm ∈ ms, absMove rm.mov = ⟨4, 6, none⟩) := by
  obtain ⟨ms, h⟩ := genPseudo_ok inv_c06Witness _ Props.C18.killers_empty_size
  exact ⟨ms, h, genPseudo_complete inv_c06Witness h _ c06Witness_moves.1 c06Witness_moves.2.1,
    genPseudo_complete inv_c06Witness h _ c06Witness_moves.2.2.2.1 c06Witness_moves.2.2.2.2.1⟩

example : ∃ ms, genPseudo Killers.empty c06PromoWitness = .ok ms ∧
    ∃ rm ∈ ms, absMove rm.mov = ⟨48, 57, some .knight⟩ := by
  obtain ⟨ms, h⟩ := genPseudo_ok inv_c06PromoWitness _ Props.C18.killers_empty_size
  exact ⟨ms, h, genPseudo_complete inv_c06PromoWitness h _ c06PromoWitness_moves.1 c06PromoWitness_moves.2.1⟩

/-- 2+3. The generated moves are exactly the moves satisfying `Spec.pseudo'`. -/
theorem genPseudo_exact {p : Position} {kt : Killers} {ms : List RMove} (inv : Inv p)
    (h : genPseudo kt p = .ok ms) (sm : Spec.Move) :
    (∃ rm ∈ ms, absMove rm.mov = sm) ↔ Spec.pseudo' (abs p) sm = true := by
  constructor
  · rintro ⟨rm, hrm, rfl⟩
    exact genPseudo_sound inv h rm hrm
  · intro hs
    simp only [Spec.pseudo', Bool.and_eq_true, Bool.not_eq_true'] at hs
    exact genPseudo_complete inv h sm hs.1 hs.2

/-- The documented difference is harmless: every LEGAL move of the rules satisfies `Spec.pseudo'` (a king
    step onto a square attacked on the current board leaves the king in check: `KingStep.kingStep_inCheck`),
    hence `Spec.legal P m = Spec.pseudo' P m && !inCheck (apply P m) …` on well-formed positions. -/
theorem legal_pseudo' {p : Position} (inv : Inv p) (sm : Spec.Move)
    (h : Spec.legal (abs p) sm = true) : Spec.pseudo' (abs p) sm = true :=
  GenPseudo.legal_pseudo' (env_of_inv inv Props.C18.killers_empty_size) h

/-- 3'. Consequently every legal move of the rules is in the generated pseudo-legal list. -/
theorem genPseudo_complete_legal {p : Position} {kt : Killers} {ms : List RMove} (inv : Inv p)
    (h : genPseudo kt p = .ok ms) :
    ∀ sm : Spec.Move, Spec.legal (abs p) sm = true → ∃ rm ∈ ms, absMove rm.mov = sm :=
  fun sm hl => (genPseudo_exact inv h sm).2 (legal_pseudo' inv sm hl)

example : ∃ ms, genPseudo Killers.empty startPosition = .ok ms ∧ ∃ rm ∈ ms, absMove rm.mov = ⟨12, 28, none⟩ := by
  obtain ⟨ms, h⟩ := genPseudo_ok inv_startPosition _ Props.C18.killers_empty_size
  exact ⟨ms, h, genPseudo_complete_legal inv_startPosition h _ start_e2e4_legal⟩

/-- 4. Each move appears once: the list of generated chess moves has no duplicates (distinct origins from
    the duplicate-free piece lists, distinct targets per origin, distinct promotion pieces). -/
theorem genPseudo_nodup {p : Position} {kt : Killers} {ms : List RMove} (inv : Inv p)
    (h : genPseudo kt p = .ok ms) : (ms.map fun rm => absMove rm.mov).Nodup := by
  have := (genList_spec (env_of_inv inv Props.C18.killers_empty_size)).2.2
  rw [← genPseudo_view_eq inv h, List.map_map] at this
  exact this

example : ∃ ms, genPseudo Killers.empty c06Witness = .ok ms ∧ ms.length = 35 ∧
    (ms.map fun rm => absMove rm.mov).Nodup := by
  obtain ⟨ms, h, hl⟩ := okLen_pos (x := genPseudo Killers.empty c06Witness) (by rw [c06Witness_len]; decide)
  exact ⟨ms, h, by rw [hl, c06Witness_len], genPseudo_nodup inv_c06Witness h⟩

/-- 5. Auxiliary fields of every generated move: the `tactical` flag is the rules' "capture (incl. en
    passant) or promotion"; the `ep` field is the skipped square (as a 0x88 square) exactly when the move
    is a pawn double push — `(Spec.apply P m).ep` is `some skipped` for a double push and `none` otherwise
    — and `InvalidSq` otherwise. -/
theorem genPseudo_aux {p : Position} {kt : Killers} {ms : List RMove} (inv : Inv p)
    (h : genPseudo kt p = .ok ms) : ∀ rm ∈ ms,
      rm.tactical = Spec.isTactical (abs p) (absMove rm.mov) ∧
      rm.mov.ep = (match (Spec.apply (abs p) (absMove rm.mov)).ep with
                   | some e => to88 e
                   | none => InvalidSq) := by
  intro rm hrm
  have hm := mem_view hrm
  rw [genPseudo_view_eq inv h] at hm
  obtain ⟨h1, h2, h3⟩ := ((genList_spec (env_of_inv inv Props.C18.killers_empty_size)).1 _ hm).2
  refine ⟨h1, ?_⟩
  simp only at h2 h3
  rw [← h3]
  rcases h2 with h2 | h2
  · rw [h2, absEp_invalid]
  · simp only [absEp, (Geo.mem_sq88.1 h2).2, if_true]
    exact (Atk.to88_to64 h2).symm

/-- instantiated: the generated e2-e4 is quiet and carries e3 as skipped square; the generated a5xb6 e.p.
    is tactical and carries `InvalidSq` -/
example : ∃ ms, genPseudo Killers.empty startPosition = .ok ms ∧
    ∃ rm ∈ ms, absMove rm.mov = ⟨12, 28, none⟩ ∧ rm.tactical = false ∧ rm.mov.ep = Gen.E3 := by
  obtain ⟨ms, h⟩ := genPseudo_ok inv_startPosition _ Props.C18.killers_empty_size
  obtain ⟨rm, hrm, he⟩ := genPseudo_complete inv_startPosition h _ start_e2e4.1 start_e2e4.2.1
  obtain ⟨a1, a2⟩ := genPseudo_aux inv_startPosition h rm hrm
  rw [he] at a1 a2
  rw [start_e2e4.2.2.2.1] at a2
  exact ⟨ms, h, rm, hrm, he, by rw [a1, start_e2e4.2.2.1], by rw [a2]; exact start_e2e4.2.2.2.2⟩

example : ∃ ms, genPseudo Killers.empty c06Witness = .ok ms ∧
    ∃ rm ∈ ms, absMove rm.mov = ⟨32, 41, none⟩ ∧ rm.tactical = true := by
  obtain ⟨ms, h⟩ := genPseudo_ok inv_c06Witness _ Props.C18.killers_empty_size
  obtain ⟨rm, hrm, he⟩ := genPseudo_complete inv_c06Witness h _ c06Witness_moves.1 c06Witness_moves.2.1
  obtain ⟨a1, _⟩ := genPseudo_aux inv_c06Witness h rm hrm
  rw [he] at a1
  exact ⟨ms, h, rm, hrm, he, by rw [a1, c06Witness_moves.2.2.1]⟩

end Magog.Props.C01
