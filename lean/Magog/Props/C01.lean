import Magog.Model.Eval
import Magog.Model.Time

/-! Property C01 — theorems (see DESIGN §5). -/

namespace Magog.Props.C01

end Magog.Props.C01
