import Magog.Lemmas.GenPseudo
import Magog.Lemmas.GenExamples
import Magog.Lemmas.LegalWitness

/-! Property C01 — "the set of moves the engine treats as playable is exactly the set of legal moves: each
    legal move appears once and nothing else".

    PART I (pseudo-legal layer, theorems 1–5 below): the engine model's pseudo-legal move generator
    `genPseudo` produces exactly the moves allowed by the movement rules of chess.
    PART II (legal layer, section "The legal layer" at the end of this file): the engine's king-safety
    verdict `isLegal` is the rules' (`isLegal_spec`), `generateMoves` never panics (`C01_generateMoves_ok`)
    and its result is a permutation of `Spec.legalMoves` (`C01_legal_exact` — THE statement of C01), mate /
    stalemate detection (`C01_mate_stalemate`, `C01_isCheckMate`, `C01_terminal`), and castling moves passing
    the engine's path test are legal (`castleSafe_of_inv`). All of Part II is FULL (no `_partial`); the
    precondition besides `Inv` is `OppSafe p` = "the side not to move is not in check" (`oppSafe_iff`), which
    every `Spec.Legal` position satisfies (`oppSafe_of_legal`) and which is necessary (C02Abs finding: with
    the opponent in check the generator emits a king capture that `MakeMove` does not book).

Setting. `abs p : Spec.Pos` is the chess position a model position denotes, `absMove m : Spec.Move` the
chess move an engine move denotes (`Magog/AbsMove.lean`), `Inv p` the shared well-formedness invariant
(`Magog/Lemmas/Inv.lean`). The rules are `Spec.pseudo` (movement rules incl. castling preconditions, no
king safety) from `Magog/Spec/Chess.lean`.

The ONE documented difference between the engine's pseudo-legal layer and `Spec.pseudo`: `kingGen` already
drops ordinary king moves (king *steps*, i.e. not castling) onto a square that is attacked by the opponent
on the current board (it calls `isUnderCheck` on the destination). Such a move is never legal, so nothing
is lost for the legal layer, but the pseudo-legal list is a subset of `Spec.pseudo`. The exact
specification of the list is therefore (`Magog/Spec/Pseudo.lean`)

    Spec.pseudo' P m = Spec.pseudo P m && !Spec.kingStepAttacked P m
    Spec.kingStepAttacked P m = (the man on m.frm is a king) && !Spec.isCastle P m &&
                                Spec.attacked P.board P.turn.other m.to

All five statements below are FULL (all move classes: pawn pushes / double pushes / captures / en passant /
promotions, knights, sliders, king steps, castling); none is `_partial`. The killer table `kt` is
arbitrary in 2–5 (it only influences rankings, `Lemmas/KillerIndep.lean`); only "no panic" needs its
allocated size. -/

namespace Magog.Props.C01
open Magog Magog.Model Magog.GenPure Magog.GenPseudo Magog.GenExamples Magog.Count

/-- 1. Generation never panics on a well-formed position: every board index is inside the 128-slot array
    (including the unguarded king-side pawn capture read, by `Inv.noBackPawn`), no ray walk runs out of
    its fuel 8, the castling `int8` index expressions stay on the board (a set castling flag implies the
    king is on its home square, `Inv.castling`), `pieceToScore` is only asked about real pieces. -/
theorem genPseudo_ok {p : Position} (inv : Inv p) :
    ∀ kt : Killers, kt.size = Gen.killerMovesMaxPly → ∃ ms, genPseudo kt p = .ok ms := by
  intro kt hk
  obtain ⟨ms, h, _⟩ := genPseudo_genList inv hk
  exact ⟨ms, h⟩

example : Inv startPosition ∧ Killers.empty.size = Gen.killerMovesMaxPly :=
  ⟨inv_startPosition, Props.C18.killers_empty_size⟩

/-- instantiated: the start position, a middle-game position with en passant and castling available, and
    a promotion position generate without panic -/
example : (∃ ms, genPseudo Killers.empty startPosition = .ok ms) ∧
    (∃ ms, genPseudo Killers.empty c06Witness = .ok ms) ∧
    (∃ ms, genPseudo Killers.empty c06PromoWitness = .ok ms) :=
  ⟨genPseudo_ok inv_startPosition _ Props.C18.killers_empty_size,
   genPseudo_ok inv_c06Witness _ Props.C18.killers_empty_size,
   genPseudo_ok inv_c06PromoWitness _ Props.C18.killers_empty_size⟩

/-- 2. Soundness: every generated move is allowed by the movement rules (exactly: by `Spec.pseudo'`). -/
theorem genPseudo_sound {p : Position} {kt : Killers} {ms : List RMove} (inv : Inv p)
    (h : genPseudo kt p = .ok ms) : ∀ rm ∈ ms, Spec.pseudo' (abs p) (absMove rm.mov) = true := by
  intro rm hrm
  have hm := mem_view hrm
  rw [genPseudo_view_eq inv h] at hm
  exact ((genList_spec (env_of_inv inv Props.C18.killers_empty_size)).1 _ hm).1

/-- hypotheses satisfiable, conclusion not vacuous: the start position yields 20 moves, all of them allowed -/
example : ∃ ms, genPseudo Killers.empty startPosition = .ok ms ∧ ms.length = 20 ∧
    ∀ rm ∈ ms, Spec.pseudo' (abs startPosition) (absMove rm.mov) = true := by
  obtain ⟨ms, h, hl⟩ := okLen_pos (x := genPseudo Killers.empty startPosition) (by rw [start_len]; decide)
  exact ⟨ms, h, by rw [hl, start_len], genPseudo_sound inv_startPosition h⟩

/-- the documented difference is real: after 1.e4 f5 2.Qh5+ the king step Ke8-f7 satisfies `Spec.pseudo`
    but is NOT generated (f7 is attacked by the queen) -/
example : ∃ ms, genPseudo Killers.empty checkWitness = .ok ms ∧
    Spec.pseudo (abs checkWitness) ⟨60, 53, none⟩ = true ∧ ¬ ∃ rm ∈ ms, absMove rm.mov = ⟨60, 53, none⟩ := by
  obtain ⟨ms, h, _⟩ := okLen_pos (x := genPseudo Killers.empty checkWitness) (by rw [checkWitness_len]; decide)
  refine ⟨ms, h, checkWitness_kf7.1, ?_⟩
  rintro ⟨rm, hrm, he⟩
  have := genPseudo_sound inv_checkWitness h rm hrm
  rw [he, checkWitness_kf7.2.2] at this
  cases this

/-- 2'. Soundness against the plain movement rules `Spec.pseudo` (the generated list is a subset). -/
theorem genPseudo_sound_pseudo {p : Position} {kt : Killers} {ms : List RMove} (inv : Inv p)
    (h : genPseudo kt p = .ok ms) : ∀ rm ∈ ms, Spec.pseudo (abs p) (absMove rm.mov) = true :=
  fun rm hrm => Spec.pseudo_of_pseudo' (genPseudo_sound inv h rm hrm)

/-- 3. Completeness: every move allowed by the movement rules — except king steps onto a square attacked
    on the current board, which the engine drops already here — is generated. -/
theorem genPseudo_complete {p : Position} {kt : Killers} {ms : List RMove} (inv : Inv p)
    (h : genPseudo kt p = .ok ms) :
    ∀ sm : Spec.Move, Spec.pseudo (abs p) sm = true → Spec.kingStepAttacked (abs p) sm = false →
      ∃ rm ∈ ms, absMove rm.mov = sm := by
  intro sm h1 h2
  have hs : Spec.pseudo' (abs p) sm = true := by simp [Spec.pseudo', h1, h2]
  obtain ⟨y, hy, hye⟩ := (genList_spec (env_of_inv inv Props.C18.killers_empty_size)).2.1 sm hs
  rw [← genPseudo_view_eq inv h] at hy
  obtain ⟨rm, hrm, rfl⟩ := List.mem_map.1 hy
  exact ⟨rm, hrm, hye⟩

/-- instantiated: e2-e4 is generated in the start position; a5xb6 e.p. and O-O in `c06Witness`; a7xb8=N in
    `c06PromoWitness` -/
example : ∃ ms, genPseudo Killers.empty startPosition = .ok ms ∧ ∃ rm ∈ ms, absMove rm.mov = ⟨12, 28, none⟩ := by
  obtain ⟨ms, h⟩ := genPseudo_ok inv_startPosition _ Props.C18.killers_empty_size
  exact ⟨ms, h, genPseudo_complete inv_startPosition h _ start_e2e4.1 start_e2e4.2.1⟩

example : ∃ ms, genPseudo Killers.empty c06Witness = .ok ms ∧
    (∃ rm ∈ ms, absMove rm.mov = ⟨32, 41, none⟩) ∧ (∃ rm ∈ ms, absMove rm.mov = ⟨4, 6, none⟩) := by
  obtain ⟨ms, h⟩ := genPseudo_ok inv_c06Witness _ Props.C18.killers_empty_size
  exact ⟨ms, h, genPseudo_complete inv_c06Witness h _ c06Witness_moves.1 c06Witness_moves.2.1,
    genPseudo_complete inv_c06Witness h _ c06Witness_moves.2.2.2.1 c06Witness_moves.2.2.2.2.1⟩

example : ∃ ms, genPseudo Killers.empty c06PromoWitness = .ok ms ∧
    ∃ rm ∈ ms, absMove rm.mov = ⟨48, 57, some .knight⟩ := by
  obtain ⟨ms, h⟩ := genPseudo_ok inv_c06PromoWitness _ Props.C18.killers_empty_size
  exact ⟨ms, h, genPseudo_complete inv_c06PromoWitness h _ c06PromoWitness_moves.1 c06PromoWitness_moves.2.1⟩

/-- 2+3. The generated moves are exactly the moves satisfying `Spec.pseudo'`. -/
theorem genPseudo_exact {p : Position} {kt : Killers} {ms : List RMove} (inv : Inv p)
    (h : genPseudo kt p = .ok ms) (sm : Spec.Move) :
    (∃ rm ∈ ms, absMove rm.mov = sm) ↔ Spec.pseudo' (abs p) sm = true := by
  constructor
  · rintro ⟨rm, hrm, rfl⟩
    exact genPseudo_sound inv h rm hrm
  · intro hs
    simp only [Spec.pseudo', Bool.and_eq_true, Bool.not_eq_true'] at hs
    exact genPseudo_complete inv h sm hs.1 hs.2

/-- The documented difference is harmless: every LEGAL move of the rules satisfies `Spec.pseudo'` (a king
    step onto a square attacked on the current board leaves the king in check: `KingStep.kingStep_inCheck`),
    hence `Spec.legal P m = Spec.pseudo' P m && !inCheck (apply P m) …` on well-formed positions. -/
theorem legal_pseudo' {p : Position} (inv : Inv p) (sm : Spec.Move)
    (h : Spec.legal (abs p) sm = true) : Spec.pseudo' (abs p) sm = true :=
  GenPseudo.legal_pseudo' (env_of_inv inv Props.C18.killers_empty_size) h

/-- 3'. Consequently every legal move of the rules is in the generated pseudo-legal list. -/
theorem genPseudo_complete_legal {p : Position} {kt : Killers} {ms : List RMove} (inv : Inv p)
    (h : genPseudo kt p = .ok ms) :
    ∀ sm : Spec.Move, Spec.legal (abs p) sm = true → ∃ rm ∈ ms, absMove rm.mov = sm :=
  fun sm hl => (genPseudo_exact inv h sm).2 (legal_pseudo' inv sm hl)

example : ∃ ms, genPseudo Killers.empty startPosition = .ok ms ∧ ∃ rm ∈ ms, absMove rm.mov = ⟨12, 28, none⟩ := by
  obtain ⟨ms, h⟩ := genPseudo_ok inv_startPosition _ Props.C18.killers_empty_size
  exact ⟨ms, h, genPseudo_complete_legal inv_startPosition h _ start_e2e4_legal⟩

/-- 4. Each move appears once: the list of generated chess moves has no duplicates (distinct origins from
    the duplicate-free piece lists, distinct targets per origin, distinct promotion pieces). -/
theorem genPseudo_nodup {p : Position} {kt : Killers} {ms : List RMove} (inv : Inv p)
    (h : genPseudo kt p = .ok ms) : (ms.map fun rm => absMove rm.mov).Nodup := by
  have := (genList_spec (env_of_inv inv Props.C18.killers_empty_size)).2.2
  rw [← genPseudo_view_eq inv h, List.map_map] at this
  exact this

example : ∃ ms, genPseudo Killers.empty c06Witness = .ok ms ∧ ms.length = 35 ∧
    (ms.map fun rm => absMove rm.mov).Nodup := by
  obtain ⟨ms, h, hl⟩ := okLen_pos (x := genPseudo Killers.empty c06Witness) (by rw [c06Witness_len]; decide)
  exact ⟨ms, h, by rw [hl, c06Witness_len], genPseudo_nodup inv_c06Witness h⟩

/-- 5. Auxiliary fields of every generated move: the `tactical` flag is the rules' "capture (incl. en
    passant) or promotion"; the `ep` field is the skipped square (as a 0x88 square) exactly when the move
    is a pawn double push — `(Spec.apply P m).ep` is `some skipped` for a double push and `none` otherwise
    — and `InvalidSq` otherwise. -/
theorem genPseudo_aux {p : Position} {kt : Killers} {ms : List RMove} (inv : Inv p)
    (h : genPseudo kt p = .ok ms) : ∀ rm ∈ ms,
      rm.tactical = Spec.isTactical (abs p) (absMove rm.mov) ∧
      rm.mov.ep = (match (Spec.apply (abs p) (absMove rm.mov)).ep with
                   | some e => to88 e
                   | none => InvalidSq) := by
  intro rm hrm
  have hm := mem_view hrm
  rw [genPseudo_view_eq inv h] at hm
  obtain ⟨h1, h2, h3⟩ := ((genList_spec (env_of_inv inv Props.C18.killers_empty_size)).1 _ hm).2
  refine ⟨h1, ?_⟩
  simp only at h2 h3
  rw [← h3]
  rcases h2 with h2 | h2
  · rw [h2, absEp_invalid]
  · simp only [absEp, (Geo.mem_sq88.1 h2).2, if_true]
    exact (Atk.to88_to64 h2).symm

/-- instantiated: the generated e2-e4 is quiet and carries e3 as skipped square; the generated a5xb6 e.p.
    is tactical and carries `InvalidSq` -/
example : ∃ ms, genPseudo Killers.empty startPosition = .ok ms ∧
    ∃ rm ∈ ms, absMove rm.mov = ⟨12, 28, none⟩ ∧ rm.tactical = false ∧ rm.mov.ep = Gen.E3 := by
  obtain ⟨ms, h⟩ := genPseudo_ok inv_startPosition _ Props.C18.killers_empty_size
  obtain ⟨rm, hrm, he⟩ := genPseudo_complete inv_startPosition h _ start_e2e4.1 start_e2e4.2.1
  obtain ⟨a1, a2⟩ := genPseudo_aux inv_startPosition h rm hrm
  rw [he] at a1 a2
  rw [start_e2e4.2.2.2.1] at a2
  exact ⟨ms, h, rm, hrm, he, by rw [a1, start_e2e4.2.2.1], by rw [a2]; exact start_e2e4.2.2.2.2⟩

example : ∃ ms, genPseudo Killers.empty c06Witness = .ok ms ∧
    ∃ rm ∈ ms, absMove rm.mov = ⟨32, 41, none⟩ ∧ rm.tactical = true := by
  obtain ⟨ms, h⟩ := genPseudo_ok inv_c06Witness _ Props.C18.killers_empty_size
  obtain ⟨rm, hrm, he⟩ := genPseudo_complete inv_c06Witness h _ c06Witness_moves.1 c06Witness_moves.2.1
  obtain ⟨a1, _⟩ := genPseudo_aux inv_c06Witness h rm hrm
  rw [he] at a1
  exact ⟨ms, h, rm, hrm, he, by rw [a1, c06Witness_moves.2.2.1]⟩

/-! ## The legal layer

`generateMoves kt p` = `genPseudo kt p` filtered by `isLegal p` (= `makeMove` on a copy, verdict "the mover's
king is not attacked afterwards"). Helper lemmas: `Magog/Lemmas/LegalMoves.lean` (verdict, filter, permutation),
`Lemmas/CastleSpec.lean` (castling geometry), `Lemmas/CountInv.lean` (side conditions of C06 from `Inv`),
`Lemmas/CountNoPanic.lean` (`countMoves` never panics), `Lemmas/LegalCount.lean` (mate / stalemate). -/

section Legal
set_option autoImplicit false
open Magog.MM Magog.LegalWitness

/-- Where the precondition `OppSafe` comes from: on a well-formed position it says exactly that the side
    NOT to move is not in check, in the sense of the rules. -/
theorem oppSafe_iff {p : Position} (inv : Inv p) :
    OppSafe p ↔ ¬ Spec.inCheck (abs p).board (abs p).turn.other = true := by
  rw [LegalMoves.oppSafe_iff inv, Bool.not_eq_true]

/-- … and every position that is a legal chess position in the sense of `Spec.Legal` satisfies it. -/
theorem oppSafe_of_legal {p : Position} (inv : Inv p) (h : Spec.Legal (abs p) = true) : OppSafe p :=
  LegalMoves.oppSafe_of_legal inv h

set_option maxRecDepth 100000 in
/-- the start position and the C06 witness are legal chess positions in the sense of `Spec.Legal` -/
example : Spec.Legal (abs startPosition) = true ∧ Spec.Legal (abs c06Witness) = true := by
  constructor <;> decide +kernel

example : Inv startPosition ∧ OppSafe startPosition ∧
    ¬ Spec.inCheck (abs startPosition).board (abs startPosition).turn.other = true :=
  ⟨inv_startPosition, Props.C02.oppSafe_start, (oppSafe_iff inv_startPosition).1 Props.C02.oppSafe_start⟩

/-- the two copies of "generated by the pseudo-legal generator" used by C02 / C02Abs are the same predicate -/
theorem generated_iff {p : Position} {m : Move} : MM.Generated p m ↔ MMAbs.Generated p m := Iff.rfl

/-- 6. **The engine's king-safety verdict is the rule's.** For every generated move of a well-formed
    position with the opponent not in check, `isLegal` (MakeMove on a copy + attack test on the NEW board
    with the mover's king) returns normally and answers exactly "after the move, by the rules
    (`Spec.apply`), the mover is not in check (`Spec.inCheck`)". -/
theorem isLegal_spec {p : Position} {m : Move} (inv : Inv p) (hS : OppSafe p) (hG : Generated p m) :
    isLegal p m = .ok (!(Spec.inCheck (Spec.apply (abs p) (absMove m)).board (abs p).turn)) :=
  LegalMoves.isLegal_spec inv hS hG

/-- instantiated: 1.e4 in the start position — hypotheses hold, the verdict is `true`, hence through the
    theorem the rules say "White is not in check after 1.e4" -/
example : Generated startPosition ⟨0x14, 0x34, 0, 0x24⟩ ∧ absMove ⟨0x14, 0x34, 0, 0x24⟩ = ⟨12, 28, none⟩ ∧
    Spec.inCheck (Spec.apply (abs startPosition) (absMove ⟨0x14, 0x34, 0, 0x24⟩)).board
      (abs startPosition).turn = false := by
  refine ⟨Props.C02.generated_e2e4, by decide, ?_⟩
  have h := isLegal_spec inv_startPosition Props.C02.oppSafe_start Props.C02.generated_e2e4
  have h' : isLegal startPosition ⟨0x14, 0x34, 0, 0x24⟩ = .ok true := okVal_eq_some (by decide +kernel)
  rw [h'] at h
  have := ok_inj h
  simpa using this.symm

/-- 7. **No panic on any legal position**: the legal-move generator returns normally. -/
theorem C01_generateMoves_ok {p : Position} {kt : Killers} (inv : Inv p) (hS : OppSafe p)
    (hk : kt.size = Gen.killerMovesMaxPly) : ∃ ms, generateMoves kt p = .ok ms :=
  LegalMoves.generateMoves_ok inv hS hk

example : ∃ ms, generateMoves Killers.empty startPosition = .ok ms :=
  C01_generateMoves_ok inv_startPosition Props.C02.oppSafe_start Props.C18.killers_empty_size

example : ∃ ms, generateMoves Killers.empty c06Witness = .ok ms :=
  C01_generateMoves_ok inv_c06Witness oppSafe_c06Witness Props.C18.killers_empty_size

/-- 8. **C01: the moves the engine treats as playable are exactly the legal moves, each exactly once.**
    The list of chess moves denoted by the result of `generateMoves` is a permutation of
    `Spec.legalMoves (abs p)` (which is duplicate-free: `LegalMoves.legalMoves_nodup`); in particular it has
    no duplicates, contains every legal move and nothing else. The killer table `kt` is arbitrary. -/
theorem C01_legal_exact {p : Position} {kt : Killers} {ms : List RMove} (inv : Inv p) (hS : OppSafe p)
    (h : generateMoves kt p = .ok ms) :
    (ms.map fun rm => absMove rm.mov).Perm (Spec.legalMoves (abs p)) :=
  LegalMoves.legal_perm inv hS h

/-- 8'. The same as membership + multiplicity: a chess move is denoted by a generated move iff it is legal,
    and no chess move is denoted twice. -/
theorem C01_legal_mem {p : Position} {kt : Killers} {ms : List RMove} (inv : Inv p) (hS : OppSafe p)
    (h : generateMoves kt p = .ok ms) :
    (∀ sm : Spec.Move, (∃ rm ∈ ms, absMove rm.mov = sm) ↔ Spec.legal (abs p) sm = true) ∧
    (ms.map fun rm => absMove rm.mov).Nodup := by
  have hp := C01_legal_exact inv hS h
  refine ⟨fun sm => ?_, hp.nodup_iff.2 (LegalMoves.legalMoves_nodup _)⟩
  rw [← LegalMoves.mem_legalMoves, ← hp.mem_iff, List.mem_map]

/-- the specification's own list of legal moves has no duplicates and contains exactly the legal moves
    (so "permutation of `Spec.legalMoves`" really means "each legal move once") -/
theorem legalMoves_spec (P : Spec.Pos) :
    (Spec.legalMoves P).Nodup ∧ ∀ sm, sm ∈ Spec.legalMoves P ↔ Spec.legal P sm = true :=
  ⟨LegalMoves.legalMoves_nodup P, fun _ => LegalMoves.mem_legalMoves⟩

/-- instantiated on the start position: the hypotheses hold, the generator returns 20 moves, hence — through
    the theorem, not by evaluating the specification — the rules of chess give exactly 20 legal first moves,
    e2-e4 among them -/
example : ∃ ms, generateMoves Killers.empty startPosition = .ok ms ∧ ms.length = 20 ∧
    (Spec.legalMoves (abs startPosition)).length = 20 ∧ Spec.legal (abs startPosition) ⟨12, 28, none⟩ = true := by
  obtain ⟨ms, h⟩ := C01_generateMoves_ok (kt := Killers.empty) inv_startPosition Props.C02.oppSafe_start
    Props.C18.killers_empty_size
  have hl : ms.length = 20 := by
    have := start_gen_len
    rw [h] at this
    exact Option.some.inj this
  have hp := C01_legal_exact inv_startPosition Props.C02.oppSafe_start h
  refine ⟨ms, h, hl, by rw [← hp.length_eq, List.length_map, hl], start_e2e4_legal⟩

/-- 9. **Mate / stalemate detection, part 1**: the generator returns the empty list exactly when the rules
    give no legal move. (`kt.size` is needed for the direction ←: with a too-short killer table the generator
    panics on the first quiet pseudo-legal move, also in a mated position.) -/
theorem C01_mate_stalemate {p : Position} {kt : Killers} (inv : Inv p) (hS : OppSafe p)
    (hk : kt.size = Gen.killerMovesMaxPly) :
    generateMoves kt p = .ok [] ↔ (Spec.legalMoves (abs p)).isEmpty = true :=
  LegalCount.generate_nil_iff inv hS hk

/-- 10. **Mate detection**: `isCheckMate` (`isCurrentKingUnderCheck() && countMoves() == 0`) never panics
    and is the rules' "side to move is checkmated". (Uses C06 `countMoves_eq_length`, all of whose side
    conditions follow from `Inv` and `OppSafe` — `CountInv.countOk_of_inv` — and `countMoves_ok`.) -/
theorem C01_isCheckMate {p : Position} (inv : Inv p) (hS : OppSafe p) :
    isCheckMate p = .ok (Spec.isMated (abs p)) :=
  LegalCount.isCheckMate_spec inv hS

/-- 11. **Terminal nodes of the search**: `isCurrentKingUnderCheck` is the rules' "side to move is in
    check"; and at a node where the generator found no move, `terminalNodeScore` is the mate score of the
    depth exactly when the rules say checkmate, the draw score exactly when they say stalemate — one of the
    two holds. -/
theorem C01_terminal {p : Position} {kt : Killers} (inv : Inv p) (hS : OppSafe p) (d : Int) :
    isCurrentKingUnderCheck p = .ok (Spec.inCheck (abs p).board (abs p).turn) ∧
    (generateMoves kt p = .ok [] →
      terminalNodeScore p d = .ok (if Spec.isMated (abs p) then Gen.LostScore + d else (Gen.DrawScore : Int)) ∧
      Spec.isStalemate (abs p) = !Spec.isMated (abs p)) := by
  refine ⟨LegalCount.inCheck_spec inv, fun h => ?_⟩
  have hp := C01_legal_exact inv hS h
  rw [List.map_nil] at hp
  have he : Spec.legalMoves (abs p) = [] := hp.nil_eq.symm
  unfold Spec.isMated Spec.isStalemate
  rw [he, LegalCount.terminalNodeScore_spec inv d]
  generalize Spec.inCheck (abs p).board (abs p).turn = c
  cases c <;> exact ⟨rfl, rfl⟩

/-- instantiated on fool's mate (1.f3 e5 2.g4 Qh4#): hypotheses hold, the engine says "mate", hence the rules
    say White is checkmated and has no legal move; the terminal score is the mate score -/
example : Inv Lemmas.AlphaBeta.foolsMate ∧ OppSafe Lemmas.AlphaBeta.foolsMate ∧
    Spec.isMated (abs Lemmas.AlphaBeta.foolsMate) = true ∧
    (Spec.legalMoves (abs Lemmas.AlphaBeta.foolsMate)).isEmpty = true ∧
    terminalNodeScore Lemmas.AlphaBeta.foolsMate 3 = .ok (Gen.LostScore + 3) := by
  have h1 := C01_isCheckMate inv_foolsMate oppSafe_foolsMate
  rw [Lemmas.AlphaBeta.fm_mate] at h1
  have hm : Spec.isMated (abs Lemmas.AlphaBeta.foolsMate) = true := (ok_inj h1).symm
  have h2 := (C01_mate_stalemate inv_foolsMate oppSafe_foolsMate Props.C18.killers_empty_size).1
    Lemmas.MateValue.fm_gen
  have h3 := ((C01_terminal (kt := Killers.empty) inv_foolsMate oppSafe_foolsMate 3).2 Lemmas.MateValue.fm_gen).1
  rw [hm] at h3
  exact ⟨inv_foolsMate, oppSafe_foolsMate, hm, h2, h3⟩

/-- instantiated on a stalemate (Black Kh8 to move, White Qf7 Kg6): the engine finds no move and no check,
    hence the rules say stalemate, not mate; the terminal score is the draw score -/
example : Inv stalematePos ∧ OppSafe stalematePos ∧ Spec.isStalemate (abs stalematePos) = true ∧
    Spec.isMated (abs stalematePos) = false ∧ terminalNodeScore stalematePos 3 = .ok (Gen.DrawScore : Int) := by
  obtain ⟨hc, ht⟩ := C01_terminal (kt := Killers.empty) inv_stalematePos oppSafe_stalematePos 3
  rw [stale_check] at hc
  have hc' := (ok_inj hc).symm
  obtain ⟨t1, t2⟩ := ht stale_gen
  have hm : Spec.isMated (abs stalematePos) = false := by
    simp only [Spec.isMated, hc', Bool.and_false]
  rw [hm] at t1 t2
  exact ⟨inv_stalematePos, oppSafe_stalematePos, t2, hm, t1⟩

/-- 12. **Castling through the engine's path test is legal** (`Count.CastleSafe`, the side condition C06
    kept as a hypothesis): if the castling right is set and `castleKOk` / `castleQOk` pass (squares between
    empty; king's square, crossed square and destination not attacked on the CURRENT board), the castling move
    passes `isLegal` (king not attacked on the NEW board). Chess geometry at the specification level
    (`CastleSpec.castle_not_inCheck`): a line to the king's destination through the vacated king square also
    runs through the rook's destination, and none runs through the vacated rook square. -/
theorem castleSafe_of_inv {p : Position} (inv : Inv p) (hS : OppSafe p) : Count.CastleSafe p :=
  LegalMoves.castleSafe_of_inv inv hS

set_option maxRecDepth 100000 in
/-- non-vacuous on `c06Witness` (1.e4 e5 2.Nf3 Nc6 3.Bc4 Bc5 4.a4 a6 5.a5 b5): the king-side right is set and
    the path test passes, so the theorem yields that O-O passes `isLegal` -/
example : c06Witness.ctx.kOk = true ∧ castleKOk c06Witness c06Witness.ctx = .ok true ∧
    isLegal c06Witness ⟨c06Witness.ctx.cur.king, castleKTo c06Witness.ctx, 0, InvalidSq⟩ = .ok true := by
  have h1 : c06Witness.ctx.kOk = true := by decide +kernel
  have h2 : castleKOk c06Witness c06Witness.ctx = .ok true := okVal_eq_some (by decide +kernel)
  exact ⟨h1, h2, (castleSafe_of_inv inv_c06Witness oppSafe_c06Witness).2 h1 h2⟩

end Legal

end Magog.Props.C01
