import Magog.Lemmas.FenWriteTail
import Magog.Lemmas.FenWriteString
import Magog.Lemmas.FenWriteWitness

/-! Property C08, first sentence — "every syntactically valid FEN describing a legal position is loaded
    with exactly its meaning": the GENERAL round trip against the independent writer, for ALL legal
    positions (`Props/C08.lean` has it on four sample positions only).

`Spec.toFenBytes : Spec.Pos → Nat → Bytes` (Magog/Spec/FenBytes.lean) is the byte-level twin of the independent
writer `Spec.toFen` (Magog/Spec/Fen.lean): same structure (ranks 8 → 1 with run-length encoded gaps, side,
castling letters, en-passant square, half-move clock `0`, full-move number in decimal), producing the loader's
input type `List Nat` directly. `Spec.Legal` (Magog/Spec/Chess.lean) is the specification's "legal position".

* `fen_roundtrip`: for every `Spec.Legal` position `P` and full-move number `1 ≤ n ≤ maxFullMoveCounter`
  the written text is ACCEPTED and the loaded position abstracts to exactly `P` (`abs p = P`: the
  placement on all 64 squares, side to move, the four castling rights, the en-passant square), with
  ply `2 (n − 1) + (0 | 1)`.
  Finding (negative): NO extra hypothesis was needed — every test of the loader (`hasRoomFor`, king count,
  pawns on back ranks, `castlingConsistent`, `epConsistent`, side-not-to-move-in-check, counter range) is
  implied by the corresponding clause of `Spec.Legal`, resp. by `1 ≤ n ≤ maxFullMoveCounter`.
* `fen_roundtrip_range_necessary`: the range condition on `n` is also necessary.
* `fen_roundtrip_unique`: `Spec.toFenBytes` is injective on legal positions (and in the move number).
* `toFen_bytes`: tie to the `String` writer, GENERAL proof: for every legal position the UTF-8 bytes of
  `Spec.toFen P n` are `Spec.toFenBytes P n` (through core's `String.toList_*`, `Nat.toDigits`, `utf8EncodeChar`
  lemmas; the text is pure ASCII). Also checked by kernel evaluation on seven positions (examples at the end).
* `fen_roundtrip_string`: hence the round trip in the form announced in `Props/C08.lean`, on
  `strBytes (Spec.toFen P n)`.

Proofs: `Magog/Lemmas/FenWriteText.lean` (splitOn / atoi / rank strings), `FenWritePlace.lean` (acceptance of
the placement scan), `FenWriteCount.lean` (the counting clauses of `Spec.Legal`), `FenWriteTail.lean`
(the remaining tests, assembly), `FenWriteString.lean` (`String` writer = byte writer), `FenWriteWitness.lean`
(witness positions). -/

namespace Magog.Props.C08RoundTrip
open Magog Magog.Model Magog.FenSpec Magog.FenWrite

/-- **General FEN round trip.** For every legal position `P` (in the sense of the rules specification) and
    every full-move number the engine can represent, the FEN text written by the independent writer is
    accepted by the loader (`parseFen … = .ok (.ok p)`: no panic, no rejection), and the loaded position `p`
    has exactly the meaning of the text: `abs p = P` (all 64 squares, side to move, the four castling rights,
    the en-passant square) and the ply the full-move number and side denote. -/
theorem fen_roundtrip {P : Spec.Pos} {n : Nat} :
    Spec.Legal P = true → 1 ≤ n → n ≤ Gen.maxFullMoveCounter →
    ∃ p, parseFen (Spec.toFenBytes P n) = .ok (.ok p) ∧ abs p = P ∧
      p.ply = 2 * ((n : Int) - 1) + (if P.turn = .white then 0 else 1) :=
  roundtrip

/-- the hypotheses are satisfiable: the start position, move 1 … -/
example : ∃ p, parseFen (Spec.toFenBytes Spec.startPos 1) = .ok (.ok p) ∧ abs p = Spec.startPos ∧ p.ply = 0 := by
  obtain ⟨p, h1, h2, h3⟩ := fen_roundtrip startPos_legal (Nat.le_refl 1) (by decide)
  exact ⟨p, h1, h2, by rw [h3]; rfl⟩

/-- … a position with an en-passant square, partial castling rights and Black to move, move 3 (ply 5) … -/
example : ∃ p, parseFen (Spec.toFenBytes epWitness 3) = .ok (.ok p) ∧ abs p = epWitness ∧ p.ply = 5 := by
  obtain ⟨p, h1, h2, h3⟩ := fen_roundtrip epWitness_legal (by decide : 1 ≤ 3) (by decide)
  exact ⟨p, h1, h2, by rw [h3]; rfl⟩

/-- … and a sparse endgame position at the largest representable move number -/
example : ∃ p, parseFen (Spec.toFenBytes sparseWitness Gen.maxFullMoveCounter) = .ok (.ok p) ∧ abs p = sparseWitness :=
  (fen_roundtrip sparseWitness_legal (by decide) (Nat.le_refl _)).imp fun _ h => ⟨h.1, h.2.1⟩

/-- the written text of the en-passant witness, for the reader -/
example : Spec.toFenBytes epWitness 3 = strBytes "rnbqkbnr/pppppppp/8/8/4P3/8/PPPP1PPP/RNBQKBNR b Kq e3 0 3" := by
  decide +kernel

/-- The range condition on the full-move number in `fen_roundtrip` is necessary: for a legal position the
    text written with move number 0 or beyond `maxFullMoveCounter` is NOT accepted. -/
theorem fen_roundtrip_range_necessary {P : Spec.Pos} {n : Nat} :
    Spec.Legal P = true → (n < 1 ∨ Gen.maxFullMoveCounter < n) →
    ∀ p, parseFen (Spec.toFenBytes P n) ≠ .ok (.ok p) :=
  range_necessary

example : ∀ p, parseFen (Spec.toFenBytes Spec.startPos 10000) ≠ .ok (.ok p) :=
  fen_roundtrip_range_necessary startPos_legal (Or.inr (by decide))

/-- **The written FEN determines the position**: two legal positions with the same text are equal (and so
    are the move numbers) — `Spec.toFenBytes` is injective on `Spec.Legal` positions. -/
theorem fen_roundtrip_unique {P Q : Spec.Pos} {n m : Nat} :
    Spec.Legal P = true → Spec.Legal Q = true → Spec.toFenBytes P n = Spec.toFenBytes Q m → P = Q ∧ n = m :=
  toFenBytes_inj

example : Spec.Legal Spec.startPos = true ∧ Spec.Legal epWitness = true ∧
    Spec.toFenBytes Spec.startPos 1 ≠ Spec.toFenBytes epWitness 1 :=
  ⟨startPos_legal, epWitness_legal, by decide +kernel⟩

/-! ### Tie between the byte writer and the `String` writer -/

/-- **The two writers agree.** For every legal position (and every move number) the loader's byte view
    (`strBytes` = UTF-8 bytes) of the text produced by the independent `String` writer `Spec.toFen` is the
    output of the byte writer `Spec.toFenBytes`. General proof, not an evaluation. -/
theorem toFen_bytes {P : Spec.Pos} (n : Nat) :
    Spec.Legal P = true → strBytes (Spec.toFen P n) = Spec.toFenBytes P n :=
  fun h => FenWrite.toFen_bytes h n

/-- **General FEN round trip, on the `String` writer** (the statement announced as missing in `Props/C08.lean`):
    the text `Spec.toFen P n` of a legal position is accepted and loaded with exactly its meaning. -/
theorem fen_roundtrip_string {P : Spec.Pos} {n : Nat} :
    Spec.Legal P = true → 1 ≤ n → n ≤ Gen.maxFullMoveCounter →
    ∃ p, parseFen (strBytes (Spec.toFen P n)) = .ok (.ok p) ∧ abs p = P ∧
      p.ply = 2 * ((n : Int) - 1) + (if P.turn = .white then 0 else 1) := by
  intro h h1 h2
  rw [toFen_bytes n h]
  exact fen_roundtrip h h1 h2

example : ∃ p, parseFen (strBytes (Spec.toFen epWitness 3)) = .ok (.ok p) ∧ abs p = epWitness ∧ p.ply = 5 := by
  obtain ⟨p, h1, h2, h3⟩ := fen_roundtrip_string epWitness_legal (by decide : 1 ≤ 3) (by decide)
  exact ⟨p, h1, h2, by rw [h3]; rfl⟩

/-! The same equation by kernel evaluation on concrete positions (independent of the general proof).
    `sameTextOn s n` loads `s`, abstracts, and checks `strBytes (Spec.toFen · n) == Spec.toFenBytes · n` on the
    result and that `Spec.toFen` gives back `s`. -/

example : strBytes (Spec.toFen Spec.startPos 1) = Spec.toFenBytes Spec.startPos 1 := by decide +kernel
example : strBytes (Spec.toFen Spec.startPos 9999) = Spec.toFenBytes Spec.startPos 9999 := by decide +kernel
example : strBytes (Spec.toFen epWitness 3) = Spec.toFenBytes epWitness 3 := by decide +kernel
example : strBytes (Spec.toFen sparseWitness 57) = Spec.toFenBytes sparseWitness 57 := by decide +kernel
example : sameTextOn "r3k2r/p1ppqpb1/bn2pnp1/3PN3/1p2P3/2N2Q1p/PPPBBPPP/R3K2R w KQkq - 0 1" 1 = true := by
  decide +kernel
example : sameTextOn "rnbqkbnr/ppp1pppp/8/8/3pP3/8/PPPP1PPP/RNBQKBNR b KQkq e3 0 3" 3 = true := by decide +kernel
example : sameTextOn "8/2p5/3p4/KP5r/1R3p1k/8/4P1P1/8 w - - 0 120" 120 = true := by decide +kernel

end Magog.Props.C08RoundTrip
