import Magog.Lemmas.Geometry
import Magog.Model.Notation
import Magog.Lemmas.Replay
import Magog.Lemmas.LegalLinkProof
import Magog.Props.C02

/-! Property C07 — move notation round-trips (all 64·64·5 moves), and `position … moves m1 … mk` sets up
    exactly the position obtained by playing the moves.

Part 1 (notation): `move_roundtrip`, `parse_short`.

Part 2 (replay). `Model.applyUciMove` models `Generator.ApplyUciMove`: the text of a move carries no
en-passant mark, so the function RECONSTRUCTS it ("a pawn goes from rank 2 to rank 4 or from rank 7 to rank 5",
colour not tested), calls `MakeMove` and panics when the verdict is "illegal". `Model.applyMoves` is the move
loop of `doPosition`, `Model.uciStep` the whole line interpreter (Magog/Model/Uci.lean).

* `applyUci_eq`, `ep_reconstruction` — for every generated move the reconstructed en-passant mark is the
  generator's own, so `ApplyUciMove` on the text form is `MakeMove` on the generated move.
* `parse_print_generated` — a generated move is printed without panic, as the coordinate notation
  `Spec.moveText` of the move of the rules it denotes, and parses back (lower or upper case) to its text form.
* `C07_replay_model` / `C07_replay_model_uci` — replaying the text forms of a game of generated, accepted
  moves (`GameOk`) through `applyUciMove` / through the `doPosition` loop yields `playM p ms`, for any length.
* `C07_replay_spec` — for every list of moves LEGAL BY THE RULES from `abs p` (`Spec.play (abs p) sms = some P'`)
  the loop run on their coordinate notations ends in a position `q` with `abs q = P'`.
* `C07_position_startpos`, `C07_position_fen` — the same for the whole input LINE
  `position startpos moves …` / `position fen <FEN> moves …` through `uciStep` (Go's `strings.Index`,
  `TrimSpace`, `Split` included), `C07_position_startpos_nomoves` for `position startpos`. The lines are
  `PosCmd.startposLine texts` / `PosCmd.fenLine f texts` (Magog/Lemmas/PositionCmd.lean): the word `position`, a
  blank, the head (`startpos` / `fen <f>`), a blank, the word `moves`, a blank, the texts joined by single blanks.
* `position_fen_moves_word_finding` — FINDING: a text the FEN loader accepts whose (ignored) half-move field
  contains the word `moves` is cut there by `doPosition` and rejected; hence the hypothesis on the FEN text.
* `Replay.LegalLink` (hypothesis of the `_spec` theorems: a legal move of the rules is denoted by a generated
  move that `makeMove` accepts) is discharged by `legalLink_holds`; the `…_unconditional` corollaries use it. -/

namespace Magog.Props.C07
open Magog Magog.Model Magog.Geo

def promoCodes : List Nat := [0, Knight, Bishop, Rook, Queen]

def upper (s : Bytes) : Bytes := s.map fun c => if 97 ≤ c && c ≤ 122 then c - 32 else c

def sqDecode (f r : Nat) : Nat := ((f - 97) + ((r - 49) <<< 4)) % 256

/-- per-square check: the printed name is a file letter a–h and a rank digit 1–8 that decode back -/
def sqNameOk (a : Nat) : Bool :=
  match sqString a with
  | [f, r] => 97 ≤ f && f ≤ 104 && 49 ≤ r && r ≤ 56 && sqDecode f r == a
  | _ => false

theorem sqNameOk_all : sq88.all sqNameOk = true := by decide +kernel

theorem sq_name (a : Nat) (ha : a ∈ sq88) :
    ∃ f r, sqString a = [f, r] ∧ 97 ≤ f ∧ f ≤ 104 ∧ 49 ≤ r ∧ r ≤ 56 ∧ sqDecode f r = a := by
  have h := List.all_eq_true.mp sqNameOk_all a ha
  unfold sqNameOk at h
  split at h
  · rename_i f r hs
    simp only [Bool.and_eq_true, decide_eq_true_eq, beq_iff_eq] at h
    exact ⟨f, r, hs, h.1.1.1.1, h.1.1.1.2, h.1.1.2, h.1.2, h.2⟩
  · simp at h

theorem lower_sq (f r : Nat) (hf : 97 ≤ f ∧ f ≤ 104) (hr : 49 ≤ r ∧ r ≤ 56) :
    asciiLower [f, r] = [f, r] ∧ asciiLower (upper [f, r]) = [f, r] := by
  have h1 : ¬ (65 ≤ f ∧ f ≤ 90) := by omega
  have h2 : ¬ (65 ≤ r ∧ r ≤ 90) := by omega
  have h3 : (97 ≤ f ∧ f ≤ 122) := by omega
  have h4 : ¬ (97 ≤ r ∧ r ≤ 122) := by omega
  have h5 : (65 ≤ f - 32 ∧ f - 32 ≤ 90) := by omega
  have h6 : f - 32 + 32 = f := by omega
  simp [asciiLower, upper, h1, h2, h3, h4, h5, h6]

theorem parse_core (f0 r0 f1 r1 : Nat) (rest : Bytes)
    (h0 : 97 ≤ f0 ∧ f0 ≤ 104) (h1 : 49 ≤ r0 ∧ r0 ≤ 56) (h2 : 97 ≤ f1 ∧ f1 ≤ 104) (h3 : 49 ≤ r1 ∧ r1 ≤ 56)
    (lower : Bytes → Bytes) (s : Bytes) (hl : lower s = f0 :: r0 :: f1 :: r1 :: rest) :
    (rest = [] → parseMoveString lower s = some ⟨sqDecode f0 r0, sqDecode f1 r1, 0, InvalidSq⟩) ∧
    (∀ c, rest = [c] → parseMoveString lower s = some ⟨sqDecode f0 r0, sqDecode f1 r1,
                 (if c == 110 then Knight else if c == 98 then Bishop else if c == 114 then Rook
                  else if c == 113 then Queen else 0), InvalidSq⟩) := by
  have a1 : ¬ f0 < 97 := by omega
  have a2 : ¬ f0 > 104 := by omega
  have a3 : ¬ f1 < 97 := by omega
  have a4 : ¬ f1 > 104 := by omega
  have b1 : ¬ r0 < 49 := by omega
  have b2 : ¬ r0 > 56 := by omega
  have b3 : ¬ r1 < 49 := by omega
  have b4 : ¬ r1 > 56 := by omega
  constructor
  · intro hr
    subst hr
    unfold parseMoveString
    simp only [hl, a1, a2, a3, a4, b1, b2, b3, b4, decide_false, Bool.or_self, Bool.false_eq_true, ↓reduceIte, sqDecode]
  · intro c hr
    subst hr
    unfold parseMoveString
    simp only [hl, a1, a2, a3, a4, b1, b2, b3, b4, decide_false, Bool.or_self, Bool.false_eq_true, ↓reduceIte, sqDecode]

theorem asciiLower_append (a b : Bytes) : asciiLower (a ++ b) = asciiLower a ++ asciiLower b := by
  simp [asciiLower]

theorem upper_append (a b : Bytes) : upper (a ++ b) = upper a ++ upper b := by simp [upper]

/-- **round trip**: every move the engine can print (any two board squares, no promotion or promotion to
    N/B/R/Q) is printed without panic and parses back to the same move, in lower case and in upper case;
    the en-passant mark is not part of the notation and comes back as "none" -/
theorem move_roundtrip (a b pr : Nat) (ha : a ∈ sq88) (hb : b ∈ sq88) (hp : pr ∈ promoCodes) :
    ∃ s, moveString ⟨a, b, pr, InvalidSq⟩ = .ok s ∧
      parseMoveString asciiLower s = some ⟨a, b, pr, InvalidSq⟩ ∧
      parseMoveString asciiLower (upper s) = some ⟨a, b, pr, InvalidSq⟩ := by
  obtain ⟨f0, r0, hs0, hf0l, hf0u, hr0l, hr0u, hd0⟩ := sq_name a ha
  obtain ⟨f1, r1, hs1, hf1l, hf1u, hr1l, hr1u, hd1⟩ := sq_name b hb
  have l0 := lower_sq f0 r0 ⟨hf0l, hf0u⟩ ⟨hr0l, hr0u⟩
  have l1 := lower_sq f1 r1 ⟨hf1l, hf1u⟩ ⟨hr1l, hr1u⟩
  have core := fun rest lower s hl =>
    parse_core f0 r0 f1 r1 rest ⟨hf0l, hf0u⟩ ⟨hr0l, hr0u⟩ ⟨hf1l, hf1u⟩ ⟨hr1l, hr1u⟩ lower s hl
  -- the promotion suffix
  have hsuf : ∃ suf : Bytes, moveString ⟨a, b, pr, InvalidSq⟩ = .ok ([f0, r0] ++ [f1, r1] ++ suf) ∧
      asciiLower suf = suf ∧ asciiLower (upper suf) = suf ∧
      ((pr = 0 ∧ suf = []) ∨ (pr = Knight ∧ suf = [110]) ∨ (pr = Bishop ∧ suf = [98]) ∨ (pr = Rook ∧ suf = [114]) ∨
       (pr = Queen ∧ suf = [113])) := by
    simp only [promoCodes, List.mem_cons, List.not_mem_nil, or_false] at hp
    rcases hp with rfl | rfl | rfl | rfl | rfl
    · exact ⟨[], by simp [moveString, hs0, hs1, pure, Except.pure], rfl, rfl, Or.inl ⟨rfl, rfl⟩⟩
    · exact ⟨[110], by simp [moveString, pieceString, hs0, hs1, Knight, Pawn, Gen.Knight, Gen.Pawn, bind, Except.bind, pure, Except.pure], by decide, by decide, by simp⟩
    · exact ⟨[98], by simp [moveString, pieceString, hs0, hs1, Knight, Pawn, Bishop, Gen.Bishop, Gen.Knight, Gen.Pawn, bind, Except.bind, pure, Except.pure], by decide, by decide, by simp⟩
    · exact ⟨[114], by simp [moveString, pieceString, hs0, hs1, Knight, Pawn, Bishop, Rook, Gen.Rook, Gen.Bishop, Gen.Knight, Gen.Pawn, bind, Except.bind, pure, Except.pure], by decide, by decide, by simp⟩
    · exact ⟨[113], by simp [moveString, pieceString, hs0, hs1, Knight, Pawn, Bishop, Rook, Queen, Gen.Queen, Gen.Rook, Gen.Bishop, Gen.Knight, Gen.Pawn, bind, Except.bind, pure, Except.pure], by decide, by decide, by simp⟩
  obtain ⟨suf, hms, hlow, hup, hcases⟩ := hsuf
  refine ⟨_, hms, ?_, ?_⟩
  · have hl : asciiLower ([f0, r0] ++ [f1, r1] ++ suf) = f0 :: r0 :: f1 :: r1 :: suf := by
      rw [asciiLower_append, asciiLower_append, l0.1, l1.1, hlow]; rfl
    have c := core suf asciiLower _ hl
    rcases hcases with ⟨rfl, rfl⟩ | ⟨rfl, rfl⟩ | ⟨rfl, rfl⟩ | ⟨rfl, rfl⟩ | ⟨rfl, rfl⟩
    · rw [c.1 rfl, hd0, hd1]
    · rw [c.2 _ rfl, hd0, hd1]; rfl
    · rw [c.2 _ rfl, hd0, hd1]; rfl
    · rw [c.2 _ rfl, hd0, hd1]; rfl
    · rw [c.2 _ rfl, hd0, hd1]; rfl
  · have hl : asciiLower (upper ([f0, r0] ++ [f1, r1] ++ suf)) = f0 :: r0 :: f1 :: r1 :: suf := by
      rw [upper_append, upper_append, asciiLower_append, asciiLower_append, l0.2, l1.2, hup]; rfl
    have c := core suf asciiLower _ hl
    rcases hcases with ⟨rfl, rfl⟩ | ⟨rfl, rfl⟩ | ⟨rfl, rfl⟩ | ⟨rfl, rfl⟩ | ⟨rfl, rfl⟩
    · rw [c.1 rfl, hd0, hd1]
    · rw [c.2 _ rfl, hd0, hd1]; rfl
    · rw [c.2 _ rfl, hd0, hd1]; rfl
    · rw [c.2 _ rfl, hd0, hd1]; rfl
    · rw [c.2 _ rfl, hd0, hd1]; rfl

/-- the parser never panics and rejects everything shorter than four bytes (any `ToLower`) -/
theorem parse_short (lower : Bytes → Bytes) (s : Bytes) (h : (lower s).length < 4) : parseMoveString lower s = none := by
  unfold parseMoveString
  match hl : lower s with
  | [] => simp
  | [_] => simp
  | [_, _] => simp
  | [_, _, _] => simp
  | _ :: _ :: _ :: _ :: _ => exfalso; simp [hl] at h; omega

/-! ## `position … moves m1 … mk` -/

open Magog.MM Magog.Replay

/-- **The en-passant mark is reconstructed exactly.** For a generated move `m` of a well-formed position,
    with `pc` the man on its origin square: `m.ep` is `(frm + to) / 2` if `ApplyUciMove`'s test fires (`pc` is a
    pawn of either colour going from rank 7 to 5 or from rank 2 to 4) and "none" otherwise. (A white pawn never
    goes 7→5 and a black one never 2→4 among generated moves; the only generated moves passing the test are
    the double pushes, whose mark is the skipped square.) -/
theorem ep_reconstruction {p : Position} {m : Move} (hI : Inv p) (hG : MM.Generated p m) :
    ∃ pc, p.board[m.frm]? = some pc ∧
      m.ep = if pc &&& Colorless == Pawn &&
                ((rankOf m.frm == Gen.Rank7 && rankOf m.to == Gen.Rank5) ||
                 (rankOf m.frm == Gen.Rank2 && rankOf m.to == Gen.Rank4))
             then ((m.frm + m.to) % 256) / 2 else InvalidSq := by
  obtain ⟨pc, hpc, hfix⟩ := uci_fix hI hG
  refine ⟨pc, hpc, ?_⟩
  have h := congrArg Move.ep hfix
  rw [← h]
  unfold fixEp uciForm needsEp
  split <;> rfl

/-- **C07, step.** `ApplyUciMove` on the text form of a generated move (origin, destination, promotion piece;
    no en-passant mark) is `MakeMove` on the generated move itself, followed by the legality panic. -/
theorem applyUci_eq {p : Position} {m : Move} (hI : Inv p) (hG : MM.Generated p m) :
    applyUciMove p ⟨m.frm, m.to, m.promo, InvalidSq⟩ = (do
      let r ← makeMove p m
      if r.2 then pure r.1 else throw (.explicit "Applying uci move resulted in illegal position")) :=
  applyUci_generated hI hG

/-- 1.e4 from the start position: the text form `e2e4` has no mark, the position reached has the en-passant
    square e3 -/
example : ∃ p', applyUciMove startPosition ⟨Gen.E2, Gen.E4, 0, InvalidSq⟩ = .ok p' ∧ p'.ep = Gen.E3 := by
  obtain ⟨p', h, _⟩ := (gameOk_of_B (kt := Killers.empty) (p := startPosition)
    (ms := [⟨Gen.E2, Gen.E4, 0, Gen.E3⟩]) (by decide +kernel)).2
  refine ⟨p', ?_, ?_⟩
  · have := applyUci_eq inv_startPosition C02.generated_e2e4
    rw [show (⟨Gen.E2, Gen.E4, 0, InvalidSq⟩ : Move) = ⟨0x14, 0x34, 0, InvalidSq⟩ from rfl, this]
    rw [show (⟨0x14, 0x34, 0, 0x24⟩ : Move) = ⟨Gen.E2, Gen.E4, 0, Gen.E3⟩ from rfl, h]
    rfl
  · obtain ⟨_, _, _, _, _, _, _, _, _, _, _, hep⟩ := MMAbs.makeMove_fields h
    exact hep

example : ∃ pc, startPosition.board[Gen.E2]? = some pc ∧
    (pc &&& Colorless == Pawn && ((rankOf Gen.E2 == Gen.Rank7 && rankOf Gen.E4 == Gen.Rank5) ||
      (rankOf Gen.E2 == Gen.Rank2 && rankOf Gen.E4 == Gen.Rank4))) = true ∧ ((Gen.E2 + Gen.E4) % 256) / 2 = Gen.E3 :=
  ⟨Gen.WPawn, by decide +kernel, by decide, by decide⟩

/-- **C07, printing a generated move.** A move generated on a well-formed position is printed without panic;
    the text is the coordinate notation of the move of the rules it denotes; read back by the parser (as
    printed or in upper case) it gives origin, destination and promotion piece of the move, without
    en-passant mark. (`Inv p` is needed: it puts the squares of the piece lists on the board.) -/
theorem parse_print_generated {p : Position} {m : Move} (hI : Inv p) (hG : MM.Generated p m) :
    ∃ s, moveString m = .ok s ∧ s = Spec.moveText (absMove m) ∧
      parseMoveString asciiLower s = some ⟨m.frm, m.to, m.promo, InvalidSq⟩ ∧
      parseMoveString asciiLower (upper s) = some ⟨m.frm, m.to, m.promo, InvalidSq⟩ := by
  obtain ⟨hf, ht, hp⟩ := generated_shape hI hG
  have hpc : m.promo ∈ promoCodes := by
    unfold promoCodes
    rcases hp with h | h | h | h | h <;> simp [h]
  obtain ⟨s, hs, h1, h2⟩ := move_roundtrip m.frm m.to m.promo hf ht hpc
  have hs' : moveString m = .ok s := hs
  refine ⟨s, hs', ?_, h1, h2⟩
  have := moveString_generated hI hG
  rw [hs'] at this
  exact Except.ok.inj this

example : ∃ s, moveString ⟨Gen.E2, Gen.E4, 0, Gen.E3⟩ = .ok s ∧ s = [101, 50, 101, 52] ∧
    parseMoveString asciiLower s = some ⟨Gen.E2, Gen.E4, 0, InvalidSq⟩ := by
  obtain ⟨s, h1, h2, h3, _⟩ := parse_print_generated inv_startPosition C02.generated_e2e4
  exact ⟨s, h1, h2.trans (by decide +kernel), h3⟩

/-- 1.e4 e5 2.Nf3 -/
def demoGame : List Move :=
  [⟨Gen.E2, Gen.E4, 0, Gen.E3⟩, ⟨Gen.E7, Gen.E5, 0, Gen.E6⟩, ⟨Gen.G1, Gen.F3, 0, InvalidSq⟩]

/-- `e2e4 e7e5 g1f3` -/
def demoTexts : List Bytes := [[101, 50, 101, 52], [101, 55, 101, 53], [103, 49, 102, 51]]

theorem demoGame_ok : GameOk startPosition demoGame := gameOk_of_B (kt := Killers.empty) (by decide +kernel)

theorem demoTexts_printed : Rel₂ (fun m s => moveString m = .ok s) demoGame demoTexts :=
  ⟨rfl, rfl, rfl, trivial⟩

/-- **C07, replay (model level).** Folding `ApplyUciMove` over the text forms of a game of generated, accepted
    moves — of any length — gives exactly the position reached by playing the moves with `MakeMove`. -/
theorem C07_replay_model {p : Position} {ms : List Move} (hI : Inv p) (hS : OppSafe p) (hG : GameOk p ms) :
    (ms.map fun m => (⟨m.frm, m.to, m.promo, InvalidSq⟩ : Move)).foldlM applyUciMove p = playM p ms :=
  replay_fold hI hS hG

example : (demoGame.map fun m => (⟨m.frm, m.to, m.promo, InvalidSq⟩ : Move)).foldlM applyUciMove startPosition
    = playM startPosition demoGame :=
  C07_replay_model inv_startPosition C02.oppSafe_start demoGame_ok

/-- **C07, replay through the `doPosition` loop.** For an interpreter whose `ApplyUciMove` is the model's and
    whose `ToLower` is ASCII lower-casing: if the strings `texts` are the printed forms of a game `ms` of
    generated, accepted moves from the current position `p`, the loop parses every string, applies it without
    panic, prints nothing and ends in the position `playM p ms` (killer table cleared). -/
theorem C07_replay_model_uci {ops : EngineOps} (hap : ops.applyMove = applyUciMove) (hlow : ops.str.lower = asciiLower)
    {p : Position} {ms : List Move} {texts : List Bytes} (st : UciState) (hp : st.pos = some p)
    (hI : Inv p) (hS : OppSafe p) (hG : GameOk p ms)
    (hprint : Rel₂ (fun m s => moveString m = .ok s) ms texts) :
    ∃ q, playM p ms = .ok q ∧ Inv q ∧ OppSafe q ∧
      applyMoves ops st texts = .ok (({ st with pos := some q } : UciState).clearKillers, []) := by
  refine applyMoves_replay hap st hp hI hS hG (Rel₂.imp_mem ?_ hprint)
  intro m hm s hs
  obtain ⟨hf, ht, hpr⟩ := gameOk_shape hI hS hG m hm
  have hpc : m.promo ∈ promoCodes := by
    unfold promoCodes
    rcases hpr with h | h | h | h | h <;> simp [h]
  obtain ⟨s', hs', h1, _⟩ := move_roundtrip m.frm m.to m.promo hf ht hpc
  have : moveString m = .ok s' := hs'
  rw [hs] at this
  rw [hlow, Except.ok.inj this]
  exact h1

example (blend : Blend) (tostr : Position → M Bytes) (st : UciState) (hp : st.pos = some startPosition) :
    ∃ q, playM startPosition demoGame = .ok q ∧ Inv q ∧ OppSafe q ∧
      applyMoves (modelOps blend tostr) st demoTexts = .ok (({ st with pos := some q } : UciState).clearKillers, []) :=
  C07_replay_model_uci rfl rfl st hp inv_startPosition C02.oppSafe_start demoGame_ok demoTexts_printed

/-- **C07, replay against the rules.** Under `LegalLink`: for every list `sms` of moves that the RULES allow
    from the position `abs p` (`Spec.play (abs p) sms = some P'`, any length) there is a game `ms` of generated,
    accepted engine moves denoting them, `playM p ms` ends in a well-formed `q` with `abs q = P'`, and the
    `doPosition` loop run on the coordinate notations `sms.map Spec.moveText` ends in that `q`. -/
theorem C07_replay_spec (hL : LegalLink) {ops : EngineOps} (hap : ops.applyMove = applyUciMove)
    (hlow : ops.str.lower = asciiLower) {p : Position} (st : UciState) (hp : st.pos = some p)
    (hI : Inv p) (hS : OppSafe p) {sms : List Spec.Move} {P' : Spec.Pos} (hplay : Spec.play (abs p) sms = some P') :
    ∃ ms q, ms.map absMove = sms ∧ GameOk p ms ∧ playM p ms = .ok q ∧ Inv q ∧ OppSafe q ∧ abs q = P' ∧
      applyMoves ops st (sms.map Spec.moveText) = .ok (({ st with pos := some q } : UciState).clearKillers, []) := by
  obtain ⟨ms, q, hmap, hgame, hplayM, hIq, hSq, habs⟩ := play_spec hL sms hI hS hplay
  have hprint : Rel₂ (fun m s => moveString m = .ok s) ms (sms.map Spec.moveText) := by
    rw [← hmap, List.map_map]
    refine Rel₂.map_right _ ?_
    intro m hm
    obtain ⟨hf, ht, hpr⟩ := gameOk_shape hI hS hgame m hm
    unfold moveString Spec.moveText absMove Function.comp
    simp only [sqString_text _ hf, sqString_text _ ht]
    rcases hpr with h | h | h | h | h <;> rw [h] <;> rfl
  obtain ⟨q', hq', _, _, hrun⟩ := C07_replay_model_uci hap hlow st hp hI hS hgame hprint
  rw [hplayM] at hq'
  cases hq'
  exact ⟨ms, q, hmap, hgame, hplayM, hIq, hSq, habs, hrun⟩

/-- `Replay.LegalLink` holds (completeness of the pseudo-legal generator for legal moves, `makeMove`'s verdict
    = "mover's king not attacked" in the terms of the rules, new board = the rules' new board). -/
theorem legalLink_holds : LegalLink := legalLink

/-- `C07_replay_spec` without hypothesis on the legality filter -/
theorem C07_replay_spec_unconditional {ops : EngineOps} (hap : ops.applyMove = applyUciMove)
    (hlow : ops.str.lower = asciiLower) {p : Position} (st : UciState) (hp : st.pos = some p)
    (hI : Inv p) (hS : OppSafe p) {sms : List Spec.Move} {P' : Spec.Pos} (hplay : Spec.play (abs p) sms = some P') :
    ∃ ms q, ms.map absMove = sms ∧ GameOk p ms ∧ playM p ms = .ok q ∧ Inv q ∧ OppSafe q ∧ abs q = P' ∧
      applyMoves ops st (sms.map Spec.moveText) = .ok (({ st with pos := some q } : UciState).clearKillers, []) :=
  C07_replay_spec legalLink_holds hap hlow st hp hI hS hplay

/-- 1.e4 e5 2.Nf3 as moves of the rules (squares 0…63) -/
def demoSpecGame : List Spec.Move := [⟨12, 28, none⟩, ⟨52, 36, none⟩, ⟨6, 21, none⟩]

theorem demoSpecGame_legal : (Spec.play Spec.startPos demoSpecGame).isSome = true := by decide +kernel

theorem demoSpecGame_text : demoSpecGame.map Spec.moveText = demoTexts := by decide +kernel

/-! ### the whole input line -/

open Magog.PosCmd (startposLine fenLine)

theorem demoLine_eq : FenSpec.strBytes "position startpos moves e2e4 e7e5 g1f3" = startposLine demoTexts := by
  decide +kernel

example : fenLine (FenSpec.strBytes "4k3/8/8/8/8/8/4P3/4K3 w - - 0 1") [[101, 50, 101, 52]]
    = FenSpec.strBytes "position fen 4k3/8/8/8/8/8/4P3/4K3 w - - 0 1 moves e2e4" := by decide +kernel

/-- the texts of a game of generated, accepted moves are blank-free ASCII words -/
theorem game_words {p : Position} {ms : List Move} (hI : Inv p) (hS : OppSafe p) (hG : GameOk p ms) :
    ∀ t ∈ (ms.map absMove).map Spec.moveText, PosCmd.Word t := by
  intro t ht
  rw [List.map_map] at ht
  obtain ⟨m, hm, rfl⟩ := List.mem_map.mp ht
  obtain ⟨hf, hto, _⟩ := gameOk_shape hI hS hG m hm
  exact moveText_word (Atk.to64_lt hf) (Atk.to64_lt hto)

/-- the common part of the two start forms: a line `position <head> moves …` whose head sets the position `p` -/
theorem position_line (hL : LegalLink) {ops : EngineOps} (hstr : ops.str = goStrEnv)
    (hap : ops.applyMove = applyUciMove) (st : UciState) (head : Bytes) (hm : 109 ∉ head) (hends : PosCmd.Ends head)
    {p : Position} (hhead : parsePosition ops st head = .ok ({ st with pos := some p }, none))
    (hI : Inv p) (hS : OppSafe p) {sms : List Spec.Move} (hne : sms ≠ []) {P' : Spec.Pos}
    (hplay : Spec.play (abs p) sms = some P') :
    ∃ q, uciStep ops st (Gen.uPosition_bytes ++ 32 :: PosCmd.posCmd head (sms.map Spec.moveText))
        = .ok (({ st with pos := some q } : UciState).clearKillers, []) ∧
      abs q = P' ∧ Inv q ∧ OppSafe q ∧ (0 ≤ p.ply → p.ply + sms.length < 32768 → q.ply = p.ply + sms.length) := by
  have hts : ops.str.trimSpace = trimSpace := by rw [hstr]; rfl
  have hlow : ops.str.lower = asciiLower := by rw [hstr]; rfl
  obtain ⟨ms, q, hmap, hgame, hplayM, hIq, hSq, habs, hrun⟩ :=
    C07_replay_spec hL hap hlow ({ st with pos := some p }) rfl hI hS hplay
  have hw : ∀ t ∈ sms.map Spec.moveText, PosCmd.Word t := hmap ▸ game_words hI hS hgame
  have hne' : sms.map Spec.moveText ≠ [] := by simpa using hne
  refine ⟨q, ?_, habs, hIq, hSq, ?_⟩
  · rw [PosCmd.uciStep_position hts st _ (PosCmd.ends_posCmd hends hne' hw),
      PosCmd.doPosition_moves hts st head _ hm hends hne' hw, hhead]
    exact hrun
  · intro h0 hlt
    have hlen : ms.length = sms.length := by rw [← hmap, List.length_map]
    rw [← hlen] at hlt ⊢
    exact playM_ply hplayM h0 hlt

/-- **C07 for `position startpos moves …`.** For every non-empty list of moves that the rules allow from the
    initial position (any length), the input line consisting of `position startpos moves` and their coordinate
    notations makes the interpreter (with the model's `ApplyUciMove`, Go's `TrimSpace`, ASCII `ToLower`) return
    normally, print nothing, and hold a well-formed position `q` that denotes exactly the position the rules
    define; its ply counter is the number of moves. -/
theorem C07_position_startpos (hL : LegalLink) {ops : EngineOps} (hstr : ops.str = goStrEnv)
    (hap : ops.applyMove = applyUciMove) (hsp : ops.startPos = startPosition) (st : UciState)
    {sms : List Spec.Move} (hne : sms ≠ []) {P' : Spec.Pos} (hplay : Spec.play Spec.startPos sms = some P') :
    ∃ q, uciStep ops st (startposLine (sms.map Spec.moveText))
        = .ok (({ st with pos := some q } : UciState).clearKillers, []) ∧
      abs q = P' ∧ Inv q ∧ OppSafe q ∧ (sms.length < 32768 → q.ply = sms.length) := by
  rw [← abs_startPosition] at hplay
  have hhead : parsePosition ops st Gen.uStartpos_bytes = .ok ({ st with pos := some startPosition }, none) := by
    rw [PosCmd.parsePosition_startpos, hsp]
  obtain ⟨q, h1, h2, h3, h4, h5⟩ := position_line hL hstr hap st Gen.uStartpos_bytes (by decide)
    PosCmd.word_startpos.ends hhead inv_startPosition C02.oppSafe_start hne hplay
  refine ⟨q, h1, h2, h3, h4, fun hlt => ?_⟩
  have hp0 : startPosition.ply = 0 := by decide +kernel
  have := h5 (by rw [hp0]; exact Int.le_refl 0) (by rw [hp0]; omega)
  rw [this, hp0]; omega

/-- **C07 for `position fen <FEN> moves …`.** `f` is a FEN text the loader accepts as `p` (then the side not
    to move is not in check, `C08.fen_oppSafe` — formerly a hypothesis here). Hypotheses on the TEXT, needed because
    `doPosition` cuts the line at the first occurrence of the word `moves` and trims blanks: `f` contains no
    letter `m` (no piece, side, castling or square letter is `m`; the half-move field, which the loader ignores,
    could contain one), and `f` starts and ends with a non-blank ASCII character (true of every accepted text,
    not derived here). Then, for every non-empty list of moves the rules allow from `abs p`, the line sets up a
    well-formed position denoting exactly the position the rules define. -/
theorem C07_position_fen (hL : LegalLink) {ops : EngineOps} (hstr : ops.str = goStrEnv)
    (hap : ops.applyMove = applyUciMove) (st : UciState) {f : Bytes} {p : Position}
    (hfen : parseFen f = .ok (.ok p)) (hm : 109 ∉ f) (hends : PosCmd.Ends f)
    {sms : List Spec.Move} (hne : sms ≠ []) {P' : Spec.Pos} (hplay : Spec.play (abs p) sms = some P') :
    ∃ q, uciStep ops st (fenLine f (sms.map Spec.moveText))
        = .ok (({ st with pos := some q } : UciState).clearKillers, []) ∧
      abs q = P' ∧ Inv q ∧ OppSafe q ∧ (p.ply + sms.length < 32768 → q.ply = p.ply + sms.length) := by
  have hts : ops.str.trimSpace = trimSpace := by rw [hstr]; rfl
  have hhead : parsePosition ops st (Gen.uFen_bytes ++ 32 :: f) = .ok ({ st with pos := some p }, none) := by
    rw [PosCmd.parsePosition_fen hts st f hends, hfen]
    rfl
  have hm' : 109 ∉ Gen.uFen_bytes ++ 32 :: f := by
    simp only [Gen.uFen_bytes, List.cons_append, List.nil_append, List.mem_cons, not_or]
    exact ⟨by decide, by decide, by decide, by decide, hm⟩
  obtain ⟨q, h1, h2, h3, h4, h5⟩ := position_line hL hstr hap st _ hm' (PosCmd.ends_fenHead hends) hhead
    (C02.fen_inv hfen) (C08.fen_oppSafe hfen) hne hplay
  refine ⟨q, h1, h2, h3, h4, fun hlt => h5 ?_ hlt⟩
  obtain ⟨_, _pl, _tu, _ca, _ep, _ha, _fu, _a1, _a2, _a3, _a4, _a5, _a6, _a7, _a8, _a9, _a10, _a11, _a12,
    n, _hat, hn1, _hn2, hply⟩ := C08.fen_faithful hfen
  rw [hply]
  split <;> omega

/-- `position startpos` (no move list) sets the start position -/
theorem C07_position_startpos_nomoves {ops : EngineOps} (hstr : ops.str = goStrEnv) (st : UciState) :
    uciStep ops st (Gen.uPosition_bytes ++ 32 :: Gen.uStartpos_bytes)
      = .ok (({ st with pos := some ops.startPos } : UciState).clearKillers, []) := by
  have hts : ops.str.trimSpace = trimSpace := by rw [hstr]; rfl
  rw [PosCmd.uciStep_position hts st _ PosCmd.word_startpos.ends]
  unfold doPosition positionHead
  rw [show indexOf Gen.uMoves_bytes Gen.uStartpos_bytes = none from by decide, PosCmd.parsePosition_startpos]
  rfl

/-- non-vacuity of `C07_position_startpos`: the line `position startpos moves e2e4 e7e5 g1f3` on the model of
    the engine, from the state of a fresh process; the position held afterwards denotes the position the
    rules define after 1.e4 e5 2.Nf3 and has ply 3 -/
example (blend : Blend) (tostr : Position → M Bytes) :
    ∃ q P', Spec.play Spec.startPos demoSpecGame = some P' ∧
      uciStep (modelOps blend tostr) UciState.init
          (FenSpec.strBytes "position startpos moves e2e4 e7e5 g1f3")
        = .ok (({ UciState.init with pos := some q } : UciState).clearKillers, []) ∧
      abs q = P' ∧ Inv q ∧ OppSafe q ∧ q.ply = 3 := by
  obtain ⟨P', hP⟩ := Option.isSome_iff_exists.mp demoSpecGame_legal
  obtain ⟨q, h1, h2, h3, h4, h5⟩ := C07_position_startpos legalLink_holds (ops := modelOps blend tostr) rfl rfl rfl
    UciState.init (sms := demoSpecGame) (by decide) hP
  refine ⟨q, P', hP, ?_, h2, h3, h4, h5 (by decide)⟩
  rw [demoSpecGame_text] at h1
  rw [demoLine_eq]
  exact h1

/-- White Ke1 Pe2, Black Ke8, White to move, move number 10 -/
def demoFen : Bytes := FenSpec.strBytes "4k3/8/8/8/8/8/4P3/4K3 w - - 0 10"

set_option maxRecDepth 100000 in
/-- non-vacuity of `C07_position_fen`: `position fen 4k3/8/8/8/8/8/4P3/4K3 w - - 0 10 moves e2e4`; all hypotheses
    hold (accepted, no letter `m`, no blank at either end, e2-e4 legal by the rules); the
    ply counter goes from 18 to 19 -/
example (blend : Blend) (tostr : Position → M Bytes) (st : UciState) :
    ∃ p q P', parseFen demoFen = .ok (.ok p) ∧ Spec.play (abs p) [⟨12, 28, none⟩] = some P' ∧
      uciStep (modelOps blend tostr) st (fenLine demoFen [[101, 50, 101, 52]])
        = .ok (({ st with pos := some q } : UciState).clearKillers, []) ∧
      abs q = P' ∧ Inv q ∧ OppSafe q ∧ q.ply = 19 := by
  have hchk : (match parseFen demoFen with
      | .ok (.ok p) =>
        (Spec.play (abs p) [⟨12, 28, none⟩]).isSome && p.ply == 18
      | _ => false) = true := by decide +kernel
  split at hchk
  · rename_i p hp
    simp only [Bool.and_eq_true, beq_iff_eq] at hchk
    obtain ⟨h2, h3⟩ := hchk
    obtain ⟨P', hP⟩ := Option.isSome_iff_exists.mp h2
    obtain ⟨q, g1, g2, g3, g4, g5⟩ := C07_position_fen legalLink_holds (ops := modelOps blend tostr) rfl rfl st hp
      (by decide +kernel) (PosCmd.ends_of_B (by decide +kernel)) (sms := [⟨12, 28, none⟩]) (by decide) hP
    refine ⟨p, q, P', hp, hP, g1, g2, g3, g4, ?_⟩
    rw [g5 (by rw [h3]; decide), h3]
    rfl
  · cases hchk

set_option maxRecDepth 100000 in
/-- **Finding.** The hypothesis "no letter `m` in the FEN text" of `C07_position_fen` cannot simply be dropped:
    the loader ignores the half-move field, so it accepts `4k3/8/8/8/8/8/4P3/4K3 w - - moves 1`; sent as
    `position fen 4k3/8/8/8/8/8/4P3/4K3 w - - moves 1`, `doPosition` cuts the line at the word `moves`, the
    remaining four fields are rejected ("invalid FEN") and no position is set. (Only texts whose ignored field
    contains the word `moves` are affected; no such text is a FEN in the sense of the standard.) -/
theorem position_fen_moves_word_finding :
    FenSpec.accepted (parseFen (FenSpec.strBytes "4k3/8/8/8/8/8/4P3/4K3 w - - moves 1")) = true ∧
    (match uciStep (modelOps (fun _ _ _ => 0) (fun _ => pure [])) UciState.init
        (FenSpec.strBytes "position fen 4k3/8/8/8/8/8/4P3/4K3 w - - moves 1") with
      | .ok (st, [.invalidFen _]) => st.pos.isNone
      | _ => false) = true := by
  constructor <;> decide +kernel

end Magog.Props.C07
