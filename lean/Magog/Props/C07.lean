import Magog.Model.Eval
import Magog.Model.Time

/-! Property C07 — theorems (see DESIGN §5). -/

namespace Magog.Props.C07

end Magog.Props.C07
