import Magog.Lemmas.Geometry
import Magog.Model.Notation

/-! Property C07 — move notation round-trips (all 64·64·5 moves); `position` replay theorems follow. -/

namespace Magog.Props.C07
open Magog Magog.Model Magog.Geo

def promoCodes : List Nat := [0, Knight, Bishop, Rook, Queen]

def upper (s : Bytes) : Bytes := s.map fun c => if 97 ≤ c && c ≤ 122 then c - 32 else c

def sqDecode (f r : Nat) : Nat := ((f - 97) + ((r - 49) <<< 4)) % 256

/-- per-square check: the printed name is a file letter a–h and a rank digit 1–8 that decode back -/
def sqNameOk (a : Nat) : Bool :=
  match sqString a with
  | [f, r] => 97 ≤ f && f ≤ 104 && 49 ≤ r && r ≤ 56 && sqDecode f r == a
  | _ => false

theorem sqNameOk_all : sq88.all sqNameOk = true := by decide +kernel

theorem sq_name (a : Nat) (ha : a ∈ sq88) :
    ∃ f r, sqString a = [f, r] ∧ 97 ≤ f ∧ f ≤ 104 ∧ 49 ≤ r ∧ r ≤ 56 ∧ sqDecode f r = a := by
  have h := List.all_eq_true.mp sqNameOk_all a ha
  unfold sqNameOk at h
  split at h
  · rename_i f r hs
    simp only [Bool.and_eq_true, decide_eq_true_eq, beq_iff_eq] at h
    exact ⟨f, r, hs, h.1.1.1.1, h.1.1.1.2, h.1.1.2, h.1.2, h.2⟩
  · simp at h

theorem lower_sq (f r : Nat) (hf : 97 ≤ f ∧ f ≤ 104) (hr : 49 ≤ r ∧ r ≤ 56) :
    asciiLower [f, r] = [f, r] ∧ asciiLower (upper [f, r]) = [f, r] := by
  have h1 : ¬ (65 ≤ f ∧ f ≤ 90) := by omega
  have h2 : ¬ (65 ≤ r ∧ r ≤ 90) := by omega
  have h3 : (97 ≤ f ∧ f ≤ 122) := by omega
  have h4 : ¬ (97 ≤ r ∧ r ≤ 122) := by omega
  have h5 : (65 ≤ f - 32 ∧ f - 32 ≤ 90) := by omega
  have h6 : f - 32 + 32 = f := by omega
  simp [asciiLower, upper, h1, h2, h3, h4, h5, h6]

theorem parse_core (f0 r0 f1 r1 : Nat) (rest : Bytes)
    (h0 : 97 ≤ f0 ∧ f0 ≤ 104) (h1 : 49 ≤ r0 ∧ r0 ≤ 56) (h2 : 97 ≤ f1 ∧ f1 ≤ 104) (h3 : 49 ≤ r1 ∧ r1 ≤ 56)
    (lower : Bytes → Bytes) (s : Bytes) (hl : lower s = f0 :: r0 :: f1 :: r1 :: rest) :
    (rest = [] → parseMoveString lower s = some ⟨sqDecode f0 r0, sqDecode f1 r1, 0, InvalidSq⟩) ∧
    (∀ c, rest = [c] → parseMoveString lower s = some ⟨sqDecode f0 r0, sqDecode f1 r1,
                 (if c == 110 then Knight else if c == 98 then Bishop else if c == 114 then Rook
                  else if c == 113 then Queen else 0), InvalidSq⟩) := by
  have a1 : ¬ f0 < 97 := by omega
  have a2 : ¬ f0 > 104 := by omega
  have a3 : ¬ f1 < 97 := by omega
  have a4 : ¬ f1 > 104 := by omega
  have b1 : ¬ r0 < 49 := by omega
  have b2 : ¬ r0 > 56 := by omega
  have b3 : ¬ r1 < 49 := by omega
  have b4 : ¬ r1 > 56 := by omega
  constructor
  · intro hr
    subst hr
    unfold parseMoveString
    simp only [hl, a1, a2, a3, a4, b1, b2, b3, b4, decide_false, Bool.or_self, Bool.false_eq_true, ↓reduceIte, sqDecode]
  · intro c hr
    subst hr
    unfold parseMoveString
    simp only [hl, a1, a2, a3, a4, b1, b2, b3, b4, decide_false, Bool.or_self, Bool.false_eq_true, ↓reduceIte, sqDecode]

theorem asciiLower_append (a b : Bytes) : asciiLower (a ++ b) = asciiLower a ++ asciiLower b := by
  simp [asciiLower]

theorem upper_append (a b : Bytes) : upper (a ++ b) = upper a ++ upper b := by simp [upper]

/-- **round trip**: every move the engine can print (any two board squares, no promotion or promotion to
    N/B/R/Q) is printed without panic and parses back to the same move, in lower case and in upper case;
    the en-passant mark is not part of the notation and comes back as "none" -/
theorem move_roundtrip (a b pr : Nat) (ha : a ∈ sq88) (hb : b ∈ sq88) (hp : pr ∈ promoCodes) :
    ∃ s, moveString ⟨a, b, pr, InvalidSq⟩ = .ok s ∧
      parseMoveString asciiLower s = some ⟨a, b, pr, InvalidSq⟩ ∧
      parseMoveString asciiLower (upper s) = some ⟨a, b, pr, InvalidSq⟩ := by
  obtain ⟨f0, r0, hs0, hf0l, hf0u, hr0l, hr0u, hd0⟩ := sq_name a ha
  obtain ⟨f1, r1, hs1, hf1l, hf1u, hr1l, hr1u, hd1⟩ := sq_name b hb
  have l0 := lower_sq f0 r0 ⟨hf0l, hf0u⟩ ⟨hr0l, hr0u⟩
  have l1 := lower_sq f1 r1 ⟨hf1l, hf1u⟩ ⟨hr1l, hr1u⟩
  have core := fun rest lower s hl =>
    parse_core f0 r0 f1 r1 rest ⟨hf0l, hf0u⟩ ⟨hr0l, hr0u⟩ ⟨hf1l, hf1u⟩ ⟨hr1l, hr1u⟩ lower s hl
  -- the promotion suffix
  have hsuf : ∃ suf : Bytes, moveString ⟨a, b, pr, InvalidSq⟩ = .ok ([f0, r0] ++ [f1, r1] ++ suf) ∧
      asciiLower suf = suf ∧ asciiLower (upper suf) = suf ∧
      ((pr = 0 ∧ suf = []) ∨ (pr = Knight ∧ suf = [110]) ∨ (pr = Bishop ∧ suf = [98]) ∨ (pr = Rook ∧ suf = [114]) ∨
       (pr = Queen ∧ suf = [113])) := by
    simp only [promoCodes, List.mem_cons, List.not_mem_nil, or_false] at hp
    rcases hp with rfl | rfl | rfl | rfl | rfl
    · exact ⟨[], by simp [moveString, hs0, hs1, pure, Except.pure], rfl, rfl, Or.inl ⟨rfl, rfl⟩⟩
    · exact ⟨[110], by simp [moveString, pieceString, hs0, hs1, Knight, Pawn, Gen.Knight, Gen.Pawn, bind, Except.bind, pure, Except.pure], by decide, by decide, by simp⟩
    · exact ⟨[98], by simp [moveString, pieceString, hs0, hs1, Knight, Pawn, Bishop, Gen.Bishop, Gen.Knight, Gen.Pawn, bind, Except.bind, pure, Except.pure], by decide, by decide, by simp⟩
    · exact ⟨[114], by simp [moveString, pieceString, hs0, hs1, Knight, Pawn, Bishop, Rook, Gen.Rook, Gen.Bishop, Gen.Knight, Gen.Pawn, bind, Except.bind, pure, Except.pure], by decide, by decide, by simp⟩
    · exact ⟨[113], by simp [moveString, pieceString, hs0, hs1, Knight, Pawn, Bishop, Rook, Queen, Gen.Queen, Gen.Rook, Gen.Bishop, Gen.Knight, Gen.Pawn, bind, Except.bind, pure, Except.pure], by decide, by decide, by simp⟩
  obtain ⟨suf, hms, hlow, hup, hcases⟩ := hsuf
  refine ⟨_, hms, ?_, ?_⟩
  · have hl : asciiLower ([f0, r0] ++ [f1, r1] ++ suf) = f0 :: r0 :: f1 :: r1 :: suf := by
      rw [asciiLower_append, asciiLower_append, l0.1, l1.1, hlow]; rfl
    have c := core suf asciiLower _ hl
    rcases hcases with ⟨rfl, rfl⟩ | ⟨rfl, rfl⟩ | ⟨rfl, rfl⟩ | ⟨rfl, rfl⟩ | ⟨rfl, rfl⟩
    · rw [c.1 rfl, hd0, hd1]
    · rw [c.2 _ rfl, hd0, hd1]; rfl
    · rw [c.2 _ rfl, hd0, hd1]; rfl
    · rw [c.2 _ rfl, hd0, hd1]; rfl
    · rw [c.2 _ rfl, hd0, hd1]; rfl
  · have hl : asciiLower (upper ([f0, r0] ++ [f1, r1] ++ suf)) = f0 :: r0 :: f1 :: r1 :: suf := by
      rw [upper_append, upper_append, asciiLower_append, asciiLower_append, l0.2, l1.2, hup]; rfl
    have c := core suf asciiLower _ hl
    rcases hcases with ⟨rfl, rfl⟩ | ⟨rfl, rfl⟩ | ⟨rfl, rfl⟩ | ⟨rfl, rfl⟩ | ⟨rfl, rfl⟩
    · rw [c.1 rfl, hd0, hd1]
    · rw [c.2 _ rfl, hd0, hd1]; rfl
    · rw [c.2 _ rfl, hd0, hd1]; rfl
    · rw [c.2 _ rfl, hd0, hd1]; rfl
    · rw [c.2 _ rfl, hd0, hd1]; rfl

/-- the parser never panics and rejects everything shorter than four bytes (any `ToLower`) -/
theorem parse_short (lower : Bytes → Bytes) (s : Bytes) (h : (lower s).length < 4) : parseMoveString lower s = none := by
  unfold parseMoveString
  match hl : lower s with
  | [] => simp
  | [_] => simp
  | [_, _] => simp
  | [_, _, _] => simp
  | _ :: _ :: _ :: _ :: _ => exfalso; simp [hl] at h; omega

end Magog.Props.C07
