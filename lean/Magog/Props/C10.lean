import Magog.Lemmas.SearchIter
import Magog.Lemmas.SearchExamples

/-! Property C10 — the move played is the first move of the last principal variation printed; printed
    principal variations are never empty.

Partial-correctness statements about `Model.iterDeep` (hypothesis `iterDeep … = .ok s`), valid for every `env`,
killer table and initial `rows` / `len0`. `s.out` lists the output events most recent first. -/

namespace Magog.Props.C10
open Magog Magog.Model

/-- `bestmove m` is immediately preceded by an `info … pv` line whose pv is non-empty, starts with `m`, and is the
    stored best line `s.cand`: "bestmove equals the first move of the last principal variation printed before it". -/
theorem C10_bestmove {env : Env} {qfuel : Nat} {p : Position} {maxDepth : Nat} {killers : Killers}
    {rows : Array (Array Move)} {len0 : Nat} {s : SS} {m : Move} {rest : List Event}
    (h : iterDeep env qfuel p maxDepth killers rows len0 = .ok s) (hout : s.out = .bestmove m :: rest) :
    ∃ best done nodes pv rest', rest = .infoPv best done nodes pv :: rest' ∧
      pv.head? = some m ∧ pv ≠ [] ∧ pv = s.cand := by
  obtain ⟨score, one, l, s1, added1, _, _, _, hc⟩ := iterDeep_shape h
  rcases hc with ⟨_, hout', _⟩ | ⟨_, best, done, nodes, added, m', tl, hcand, hout', _, _⟩
  · rw [hout'] at hout; cases hout
  · rw [hout'] at hout
    simp only [List.cons.injEq, Event.bestmove.injEq] at hout
    obtain ⟨rfl, rfl⟩ := hout
    exact ⟨best, done, nodes, m' :: tl, _, rfl, rfl, by simp, hcand.symm⟩

open SearchExamples in
/-- non-vacuity: a concrete run (Ka1 vs Kh8, `go depth 2`, kernel-evaluated) ends with `bestmove m` -/
example : ∃ s m rest, iterDeep quietEnv 3 kkPos 2 Killers.empty (newRows 6) 6 = .ok s ∧
    s.out = .bestmove m :: rest := by
  obtain ⟨s, m, _, _, _, _, hs, ho, _⟩ := endsWithBest_elim quiet_run2
  exact ⟨s, m, _, hs, ho⟩

/-- Every principal variation printed during a search — by an `info score … pv` line (`infoPv`) or by an
    `info depth … pv` line (`infoDepth`) — is non-empty (the model panics, like the Go code, when it would have to
    print an empty one). -/
theorem C10_pv_nonempty {env : Env} {qfuel : Nat} {p : Position} {maxDepth : Nat} {killers : Killers}
    {rows : Array (Array Move)} {len0 : Nat} {s : SS}
    (h : iterDeep env qfuel p maxDepth killers rows len0 = .ok s) :
    (∀ score depth nodes pv, Event.infoPv score depth nodes pv ∈ s.out → pv ≠ []) ∧
    (∀ depth score nodes pv, Event.infoDepth depth score nodes pv ∈ s.out → pv ≠ []) := by
  have key : ∀ e ∈ s.out, e.pvOk = true := by
    obtain ⟨score, one, l, s1, added1, _, _, p1, hc⟩ := iterDeep_shape h
    rcases hc with ⟨_, hout, _⟩ | ⟨_, best, done, nodes, added, m, tl, _, hout, p2, _⟩
    · intro e he
      rw [hout] at he
      rcases List.mem_cons.1 he with rfl | he
      · rfl
      rcases List.mem_cons.1 he with rfl | he
      · rfl
      · exact (p1 e he).2
    · intro e he
      rw [hout] at he
      rcases List.mem_cons.1 he with rfl | he
      · rfl
      rcases List.mem_cons.1 he with rfl | he
      · rfl
      rcases List.mem_append.1 he with he | he
      · exact (p2 e he).2
      · exact (p1 e he).2
  constructor
  · intro score depth nodes pv he hpv
    have := key _ he
    subst hpv
    simp [Event.pvOk] at this
  · intro depth score nodes pv he hpv
    have := key _ he
    subst hpv
    simp [Event.pvOk] at this

open SearchExamples in
/-- non-vacuity: the concrete run above succeeds -/
example : ∃ s, iterDeep quietEnv 3 kkPos 2 Killers.empty (newRows 6) 6 = .ok s := by
  obtain ⟨s, _, _, _, _, _, hs, _, _⟩ := endsWithBest_elim quiet_run2
  exact ⟨s, hs⟩

end Magog.Props.C10
