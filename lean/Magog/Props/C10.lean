import Magog.Model.Eval
import Magog.Model.Time

/-! Property C10 — theorems (see DESIGN §5). -/

namespace Magog.Props.C10

end Magog.Props.C10
