import Magog.Lemmas.SearchIter
import Magog.Lemmas.SearchExamples
import Magog.Lemmas.PvLegal
import Magog.Lemmas.PvWitness

/-! Property C10 — the move played is the first move of the last principal variation printed; printed
    principal variations are never empty; every printed principal variation is a legal line from the searched
    position (`C10_pv_legal`), and the move played is a generated, legal move (`C10_bestmove_legal`).

Partial-correctness statements about `Model.iterDeep` (hypothesis `iterDeep … = .ok s`), valid for every `env`,
killer table and initial `rows` / `len0`. `s.out` lists the output events most recent first. -/

namespace Magog.Props.C10
open Magog Magog.Model

/-- `bestmove m` is immediately preceded by an `info … pv` line whose pv is non-empty, starts with `m`, and is the
    stored best line `s.cand`: "bestmove equals the first move of the last principal variation printed before it". -/
theorem C10_bestmove {env : Env} {qfuel : Nat} {p : Position} {maxDepth : Nat} {killers : Killers}
    {rows : Array (Array Move)} {len0 : Nat} {s : SS} {m : Move} {rest : List Event}
    (h : iterDeep env qfuel p maxDepth killers rows len0 = .ok s) (hout : s.out = .bestmove m :: rest) :
    ∃ best done nodes pv rest', rest = .infoPv best done nodes pv :: rest' ∧
      pv.head? = some m ∧ pv ≠ [] ∧ pv = s.cand := by
  obtain ⟨score, one, l, s1, added1, _, _, _, hc⟩ := iterDeep_shape h
  rcases hc with ⟨_, hout', _⟩ | ⟨_, best, done, nodes, added, m', tl, hcand, hout', _, _⟩
  · rw [hout'] at hout; cases hout
  · rw [hout'] at hout
    simp only [List.cons.injEq, Event.bestmove.injEq] at hout
    obtain ⟨rfl, rfl⟩ := hout
    exact ⟨best, done, nodes, m' :: tl, _, rfl, rfl, by simp, hcand.symm⟩

open SearchExamples in
/-- non-vacuity: a concrete run (Ka1 vs Kh8, `go depth 2`, kernel-evaluated) ends with `bestmove m` -/
example : ∃ s m rest, iterDeep quietEnv 3 kkPos 2 Killers.empty (newRows 6) 6 = .ok s ∧
    s.out = .bestmove m :: rest := by
  obtain ⟨s, m, _, _, _, _, hs, ho, _⟩ := endsWithBest_elim quiet_run2
  exact ⟨s, m, _, hs, ho⟩

/-- Every principal variation printed during a search — by an `info score … pv` line (`infoPv`) or by an
    `info depth … pv` line (`infoDepth`) — is non-empty (the model panics, like the Go code, when it would have to
    print an empty one). -/
theorem C10_pv_nonempty {env : Env} {qfuel : Nat} {p : Position} {maxDepth : Nat} {killers : Killers}
    {rows : Array (Array Move)} {len0 : Nat} {s : SS}
    (h : iterDeep env qfuel p maxDepth killers rows len0 = .ok s) :
    (∀ score depth nodes pv, Event.infoPv score depth nodes pv ∈ s.out → pv ≠ []) ∧
    (∀ depth score nodes pv, Event.infoDepth depth score nodes pv ∈ s.out → pv ≠ []) := by
  have key : ∀ e ∈ s.out, e.pvOk = true := by
    obtain ⟨score, one, l, s1, added1, _, _, p1, hc⟩ := iterDeep_shape h
    rcases hc with ⟨_, hout, _⟩ | ⟨_, best, done, nodes, added, m, tl, _, hout, p2, _⟩
    · intro e he
      rw [hout] at he
      rcases List.mem_cons.1 he with rfl | he
      · rfl
      rcases List.mem_cons.1 he with rfl | he
      · rfl
      · exact (p1 e he).2
    · intro e he
      rw [hout] at he
      rcases List.mem_cons.1 he with rfl | he
      · rfl
      rcases List.mem_cons.1 he with rfl | he
      · rfl
      rcases List.mem_append.1 he with he | he
      · exact (p2 e he).2
      · exact (p1 e he).2
  constructor
  · intro score depth nodes pv he hpv
    have := key _ he
    subst hpv
    simp [Event.pvOk] at this
  · intro depth score nodes pv he hpv
    have := key _ he
    subst hpv
    simp [Event.pvOk] at this

open SearchExamples in
/-- non-vacuity: the concrete run above succeeds -/
example : ∃ s, iterDeep quietEnv 3 kkPos 2 Killers.empty (newRows 6) 6 = .ok s := by
  obtain ⟨s, _, _, _, _, _, hs, _, _⟩ := endsWithBest_elim quiet_run2
  exact ⟨s, hs⟩

/-- **Every principal variation printed during a search is a legal line from the searched position.**

For every oracle `env` (time-outs and stop requests at arbitrary moments: the mid-iteration lines printed by the
root loop and the lines of interrupted iterations are included), every killer table and every stale content
`rows` / stale header length `len0` of the PV table: each `pv` printed by an `info score … pv` (`infoPv`) or
`info depth … pv` (`infoDepth`) line satisfies `LegalLine p pv` — move by move it is produced by the move
generator (the tactical generator inside quiescence) at the position reached so far and applied by `makeMove`
without leaving the mover in check — and its first move comes from the full move generator at `p`.

Hypotheses: `sortFn` only permutes; `G d` is a family of sets of positions closed under generated legal moves
(`G d p → G (d+1) q`) containing the root at depth 0; and all static/terminal scores on `G d`, for the depths `d`
at which the table has a row `d + 1`, lie strictly between `−∞` and `+∞` (`EvalFinite`). The last hypothesis is
necessary: a node whose static evaluation is `≤ −∞` returns its `α = −∞` without having written its row, and the
root (whose `β = +∞`) then copies that stale row. -/
theorem C10_pv_legal {env : Env} {G : Nat → Position → Prop} {qfuel : Nat} {p : Position} {maxDepth : Nat}
    {killers : Killers} {rows : Array (Array Move)} {len0 : Nat} {s : SS}
    (h : iterDeep env qfuel p maxDepth killers rows len0 = .ok s)
    (hsort : Magog.Lemmas.AlphaBeta.PermSort env) (hp : G 0 p) (hcl : GenClosed G)
    (hfin : EvalFinite env G rows.size) :
    ∀ e ∈ s.out, ∀ sc d n pv, (e = .infoPv sc d n pv ∨ e = .infoDepth d sc n pv) →
      LegalLine p pv ∧ ∀ m rest, pv = m :: rest → ∃ kt ms, generateMoves kt p = .ok ms ∧ m ∈ ms.map (·.mov) := by
  have H : PvHyps env G rows.size := ⟨PvWitness.sortSound_of_perm hsort, hcl, hfin⟩
  obtain ⟨hall, _⟩ := iterDeep_pv H hp h
  intro e he sc d n pv hpv
  have hmem : pv ∈ pvsOf s.out := by
    rcases hpv with rfl | rfl
    · exact mem_pvsOf.2 (.inl ⟨_, _, _, he⟩)
    · exact mem_pvsOf.2 (.inr ⟨_, _, _, he⟩)
  have hr := hall pv hmem
  refine ⟨hr.legal, ?_⟩
  rintro m rest rfl
  exact hr.head

open SearchExamples PvWitness in
/-- non-vacuity: Ka1 vs Kh8, `go depth 2` on a 4-row table (kernel-evaluated): the run succeeds and prints a
    two-move `info depth 2` line; the positions within two plies of the root form a closed family on which the
    evaluation is finite -/
example : ∃ s sc n m1 m2, iterDeep quietEnv 1 kkPos 2 Killers.empty (newRows 4) 4 = .ok s ∧
    Event.infoDepth 2 sc n [m1, m2] ∈ s.out ∧
    Magog.Lemmas.AlphaBeta.PermSort quietEnv ∧ Reach kkPos 2 0 kkPos ∧ GenClosed (Reach kkPos 2) ∧
    EvalFinite quietEnv (Reach kkPos 2) (newRows 4).size ∧ LegalLine kkPos [m1, m2] := by
  obtain ⟨s, sc, n, m1, m2, _, _, hs, hm, _⟩ := hasPv2_elim pvRun_ok
  exact ⟨s, sc, n, m1, m2, hs, hm, quietEnv_perm, reach_root _ _, reach_closed _ _, kk_evalFinite,
    (C10_pv_legal hs quietEnv_perm (reach_root _ _) (reach_closed _ _) kk_evalFinite _ hm _ _ _ _ (.inr rfl)).1⟩

open SearchExamples PvWitness in
/-- sharpness: the hypothesis `EvalFinite` of `C10_pv_legal` cannot be dropped. Under `hugeEnv` (quiet oracle,
    identity sort, a blend that makes the static evaluation of the position after `Ka1-a2` infinite) the search
    of Ka1 vs Kh8 on a fresh table succeeds and prints a principal variation that is *not* a legal line: the
    depth-1 node returns `α = −∞` without writing row 1 and the root copies the whole stale row behind its move. -/
example : ∃ s sc d n pv, iterDeep hugeEnv 1 kkPos 1 Killers.empty (newRows 4) 4 = .ok s ∧
    Event.infoPv sc d n pv ∈ s.out ∧ ¬ LegalLine kkPos pv ∧ Magog.Lemmas.AlphaBeta.PermSort hugeEnv :=
  let ⟨s, sc, d, n, pv, hs, hm, hn⟩ := printsIllegal_elim hugeRun_illegal
  ⟨s, sc, d, n, pv, hs, hm, hn, fun l => List.Perm.refl l⟩

/-- **The move played is legal**: `bestmove m` names a move produced by the full move generator at the searched
    position, which `makeMove` applies without leaving the mover in check (this is also C03's "the move named is
    legal"). Same hypotheses as `C10_pv_legal`. -/
theorem C10_bestmove_legal {env : Env} {G : Nat → Position → Prop} {qfuel : Nat} {p : Position} {maxDepth : Nat}
    {killers : Killers} {rows : Array (Array Move)} {len0 : Nat} {s : SS} {m : Move} {rest : List Event}
    (h : iterDeep env qfuel p maxDepth killers rows len0 = .ok s)
    (hsort : Magog.Lemmas.AlphaBeta.PermSort env) (hp : G 0 p) (hcl : GenClosed G)
    (hfin : EvalFinite env G rows.size) (hout : s.out = .bestmove m :: rest) :
    (∃ kt ms, generateMoves kt p = .ok ms ∧ m ∈ ms.map (·.mov)) ∧ ∃ q, makeMove p m = .ok (q, true) := by
  have H : PvHyps env G rows.size := ⟨PvWitness.sortSound_of_perm hsort, hcl, hfin⟩
  obtain ⟨_, hcand⟩ := iterDeep_pv H hp h
  obtain ⟨best, done, nodes, pv, rest', _, hhead, _, rfl⟩ := C10_bestmove h hout
  cases hc : s.cand with
  | nil => rw [hc] at hhead; cases hhead
  | cons m' tl =>
    rw [hc] at hhead hcand
    simp only [List.head?_cons, Option.some.injEq] at hhead
    subst hhead
    obtain ⟨q, hg, hm, _⟩ := hcand
    exact ⟨hg, q, hm⟩

open SearchExamples PvWitness in
/-- non-vacuity: the same run ends with `bestmove m` -/
example : ∃ s m rest, iterDeep quietEnv 1 kkPos 2 Killers.empty (newRows 4) 4 = .ok s ∧
    s.out = .bestmove m :: rest ∧
    Magog.Lemmas.AlphaBeta.PermSort quietEnv ∧ Reach kkPos 2 0 kkPos ∧ GenClosed (Reach kkPos 2) ∧
    EvalFinite quietEnv (Reach kkPos 2) (newRows 4).size := by
  obtain ⟨s, _, _, _, _, m, rest, hs, _, hout⟩ := hasPv2_elim pvRun_ok
  exact ⟨s, m, rest, hs, hout, quietEnv_perm, reach_root _ _, reach_closed _ _, kk_evalFinite⟩

end Magog.Props.C10
