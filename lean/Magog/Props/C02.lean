import Magog.Lemmas.MakeMoveInv
import Magog.Lemmas.MMPly
import Magog.Props.C08

/-! Property C02 (first half) — playing a generated move keeps the engine's redundant bookkeeping
    consistent, and never panics.

`Model.makeMove : Position → Move → M (Position × Bool)` models `Position.MakeMove` (engine/position.go):
it updates the 0x88 board, the four piece lists, the two king squares, the castling flags, the
en-passant square and the ply counter, and returns whether the mover's king is safe afterwards.

Definitions (in `Magog/Spec/MakeMove.lean`, `Magog/Lemmas/Inv.lean`):
* `Inv p` — the shared well-formedness invariant: board holds only piece codes, off-board slots empty,
  lists ↔ board bijection for both colours (`Atk.SideOk`), lists duplicate-free and within capacity,
  no pawn on a back rank, flags < 32, `castlingConsistent`, en-passant square absent or `EpOk`.
* `Generated p m` — `m` is one of the moves `genPseudo` produces on `p`.
* `OppSafe p` — the side NOT to move is not in check (the "legal position" precondition: otherwise the
  generator produces a capture of the enemy king, which `MakeMove` does not book in any list).
* `playM`, `GameOk` — playing a list of moves; every move generated at its position and accepted.

Theorems:
* `fen_inv` — every position the FEN loader accepts satisfies `Inv`.
* `makeMove_ok` — no panic: `makeMove` returns normally on every generated move.
* `makeMove_inv` — an accepted (verdict `true`) generated move leads to a position satisfying `Inv` and
  `OppSafe` again; `makeMove_inv_any` — `Inv` holds after ANY generated move, and the verdict is exactly
  `OppSafe` of the new position.
* `makeMove_ply` — ply + 1 (int16 wrap), side to move flips (unconditional).
* `history_inv` — `Inv ∧ OppSafe` at every position along a game of generated, accepted moves.

Proof structure (`Magog/Lemmas/`): `MMList` (list operations) → `MMCore` (invariant split per side, the
two-square board update) → `MMFlags` (castling flags) → `MMStages` (the three stages of `makeMove`) →
`MMSimple` / `MMSpecial` (simple moves; castling and en passant) → `GenRaw` / `GenGeo` (what the generator
produces; finite geometry by kernel evaluation) → `MakeMoveInv` (`makeMove_spec`). -/

namespace Magog.Props.C02
open Magog Magog.Model Magog.MM Magog.Count

/-- Every position the FEN loader accepts is well-formed. -/
theorem fen_inv {s : Bytes} {p : Position} (h : parseFen s = .ok (.ok p)) : Inv p := by
  have hf := C08.fen_faithful h
  obtain ⟨_, _, _, _, _, _, _, _, _, _, _, _, _, _, _, hfl, _⟩ := hf
  exact inv_of_fen (C08.fen_sound h) (C08.fen_sound_lists h) hfl

/-- non-vacuity of `fen_inv`: the standard start position is accepted -/
example : ∃ p, parseFen (FenSpec.strBytes "rnbqkbnr/pppppppp/8/8/8/8/PPPPPPPP/RNBQKBNR w KQkq - 0 1") = .ok (.ok p) ∧
    Inv p :=
  (FenLemmas.accepted_iff.1 (by decide +kernel)).imp fun _ hp => ⟨hp, fen_inv hp⟩

/-- **No panic.** On a well-formed position in which the side not to move is not in check, `makeMove`
    returns normally for every generated move: the captured man is found on the list it is removed
    from, a promotion has room in the piece list, every board index is inside the array, the
    en-passant kill square holds the enemy pawn. -/
theorem makeMove_ok {p : Position} {m : Move} (hI : Inv p) (hS : OppSafe p) (hG : Generated p m) :
    ∃ r, makeMove p m = .ok r := by
  obtain ⟨p', b, h, _⟩ := makeMove_spec hI hS hG
  exact ⟨(p', b), h⟩

/-- `Inv` holds after ANY generated move (accepted or not), and the returned verdict is exactly "the
    side that just moved is not in check" (`OppSafe` of the new position). -/
theorem makeMove_inv_any {p : Position} {m : Move} {p' : Position} {b : Bool} (hI : Inv p) (hS : OppSafe p)
    (hG : Generated p m) (h : makeMove p m = .ok (p', b)) : Inv p' ∧ (b = true ↔ OppSafe p') := by
  obtain ⟨q, c, h1, h2, h3⟩ := makeMove_spec hI hS hG
  rw [h] at h1
  simp only [Except.ok.injEq, Prod.mk.injEq] at h1
  obtain ⟨rfl, rfl⟩ := h1
  exact ⟨h2, h3⟩

/-- **The bookkeeping stays consistent.** An accepted generated move leads to a well-formed position
    (lists ↔ board bijection for both colours, `Nodup`, capacities, no back-rank pawns, off-board slots
    empty, flags < 32, castling flags consistent, en-passant square absent or consistent) in which the
    side that just moved is not in check. -/
theorem makeMove_inv {p : Position} {m : Move} {p' : Position} (hI : Inv p) (hS : OppSafe p)
    (hG : Generated p m) (h : makeMove p m = .ok (p', true)) : Inv p' ∧ OppSafe p' := by
  obtain ⟨h1, h2⟩ := makeMove_inv_any hI hS hG h
  exact ⟨h1, h2.mp rfl⟩

/-- ply counter and side to move (no precondition) -/
theorem makeMove_ply {p : Position} {m : Move} {p' : Position} {b : Bool} (h : makeMove p m = .ok (p', b)) :
    p'.ply = wrap16 (p.ply + 1) ∧ whiteTurn p' = !whiteTurn p :=
  makeMove_ply_aux h

/-- **Along a whole game.** From a well-formed position with the opponent not in check, after every
    prefix of a list of moves each generated at its position and accepted, the position is again
    well-formed with the opponent not in check (and `playM` does not panic). -/
theorem history_inv {p : Position} {ms : List Move} (hI : Inv p) (hS : OppSafe p) (hG : GameOk p ms) :
    ∀ k, k ≤ ms.length → ∃ q, playM p (ms.take k) = .ok q ∧ Inv q ∧ OppSafe q :=
  history hI hS hG

/-! ### Non-vacuity (kernel evaluation of the model) -/

/-- the start position satisfies the preconditions -/
theorem oppSafe_start : OppSafe startPosition := okVal_eq_some (by decide +kernel)

/-- 1. e2-e4 (a double push setting the en-passant square e3) is generated on the start position -/
theorem generated_e2e4 : Generated startPosition ⟨0x14, 0x34, 0, 0x24⟩ := by
  have h : gameOkB Killers.empty startPosition [⟨0x14, 0x34, 0, 0x24⟩] = true := by decide +kernel
  exact (gameOk_of_B h).1

example : ∃ r, makeMove startPosition ⟨0x14, 0x34, 0, 0x24⟩ = .ok r :=
  makeMove_ok inv_startPosition oppSafe_start generated_e2e4

/-- `makeMove_inv` on 1. e4: the hypotheses are satisfiable, the resulting position has the
    en-passant square e3 and Black to move -/
example : ∃ p', makeMove startPosition ⟨0x14, 0x34, 0, 0x24⟩ = .ok (p', true) ∧ Inv p' ∧ OppSafe p' ∧
    p'.ep = 0x24 ∧ whiteTurn p' = false := by
  obtain ⟨_, p', h, _⟩ := gameOk_of_B (kt := Killers.empty) (p := startPosition)
    (ms := [⟨0x14, 0x34, 0, 0x24⟩]) (by decide +kernel)
  obtain ⟨h1, h2⟩ := makeMove_inv inv_startPosition oppSafe_start generated_e2e4 h
  refine ⟨p', h, h1, h2, ?_, ?_⟩
  · have : (match makeMove startPosition ⟨0x14, 0x34, 0, 0x24⟩ with | .ok (q, _) => q.ep | _ => 0) = 0x24 := by
      decide +kernel
    rw [h] at this; exact this
  · rw [(makeMove_ply h).2]
    decide +kernel

/-- `makeMove_ply` on 1. e4: ply 0 → 1 -/
example : ∃ p' b, makeMove startPosition ⟨0x14, 0x34, 0, 0x24⟩ = .ok (p', b) ∧ p'.ply = 1 := by
  obtain ⟨⟨p', b⟩, h⟩ := makeMove_ok inv_startPosition oppSafe_start generated_e2e4
  exact ⟨p', b, h, by rw [(makeMove_ply h).1]; decide⟩

/-- 1.e4 e5 2.Nf3 Nc6 3.Bc4 Bc5 4.O-O: double pushes, piece moves and king-side castling -/
theorem game_castle : GameOk startPosition
    [⟨Gen.E2, Gen.E4, 0, Gen.E3⟩, ⟨Gen.E7, Gen.E5, 0, Gen.E6⟩, ⟨Gen.G1, Gen.F3, 0, InvalidSq⟩,
     ⟨Gen.B8, Gen.C6, 0, InvalidSq⟩, ⟨Gen.F1, Gen.C4, 0, InvalidSq⟩, ⟨Gen.F8, Gen.C5, 0, InvalidSq⟩,
     ⟨Gen.E1, Gen.G1, 0, InvalidSq⟩] :=
  gameOk_of_B (kt := Killers.empty) (by decide +kernel)

/-- 1.a4 a6 2.a5 b5 3.axb6: an en-passant capture -/
theorem game_ep : GameOk startPosition
    [⟨Gen.A2, Gen.A4, 0, Gen.A3⟩, ⟨Gen.A7, Gen.A6, 0, InvalidSq⟩, ⟨Gen.A4, Gen.A5, 0, InvalidSq⟩,
     ⟨Gen.B7, Gen.B5, 0, Gen.B6⟩, ⟨Gen.A5, Gen.B6, 0, InvalidSq⟩] :=
  gameOk_of_B (kt := Killers.empty) (by decide +kernel)

/-- `history_inv` on the castling game: after all seven plies the position is well-formed -/
example : ∃ q, playM startPosition
    [⟨Gen.E2, Gen.E4, 0, Gen.E3⟩, ⟨Gen.E7, Gen.E5, 0, Gen.E6⟩, ⟨Gen.G1, Gen.F3, 0, InvalidSq⟩,
     ⟨Gen.B8, Gen.C6, 0, InvalidSq⟩, ⟨Gen.F1, Gen.C4, 0, InvalidSq⟩, ⟨Gen.F8, Gen.C5, 0, InvalidSq⟩,
     ⟨Gen.E1, Gen.G1, 0, InvalidSq⟩] = .ok q ∧ Inv q ∧ OppSafe q :=
  history_inv inv_startPosition oppSafe_start game_castle 7 (by decide)

/-- `history_inv` on the en-passant game -/
example : ∃ q, playM startPosition
    [⟨Gen.A2, Gen.A4, 0, Gen.A3⟩, ⟨Gen.A7, Gen.A6, 0, InvalidSq⟩, ⟨Gen.A4, Gen.A5, 0, InvalidSq⟩,
     ⟨Gen.B7, Gen.B5, 0, Gen.B6⟩, ⟨Gen.A5, Gen.B6, 0, InvalidSq⟩] = .ok q ∧ Inv q ∧ OppSafe q :=
  history_inv inv_startPosition oppSafe_start game_ep 5 (by decide)

set_option maxRecDepth 100000 in
/-- the promotion witness (White Ke1 Pa7, Black Kh6 Rb8, White to move) is well-formed -/
theorem inv_promoWitness : Inv c06PromoWitness := inv_of_invB (by decide +kernel)

set_option maxRecDepth 100000 in
theorem oppSafe_promoWitness : OppSafe c06PromoWitness := okVal_eq_some (by decide +kernel)

set_option maxRecDepth 100000 in
/-- a capturing promotion a7xb8=Q -/
theorem game_promo : GameOk c06PromoWitness [⟨Gen.A7, Gen.B8, Queen, InvalidSq⟩] :=
  gameOk_of_B (kt := Killers.empty) (by decide +kernel)

example : ∃ q, playM c06PromoWitness [⟨Gen.A7, Gen.B8, Queen, InvalidSq⟩] = .ok q ∧ Inv q ∧ OppSafe q :=
  history_inv inv_promoWitness oppSafe_promoWitness game_promo 1 (by decide)

end Magog.Props.C02
