import Magog.Model.Eval
import Magog.Model.Time

/-! Property C02 — theorems (see DESIGN §5). -/

namespace Magog.Props.C02

end Magog.Props.C02
