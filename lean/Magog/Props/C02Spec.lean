import Magog.Lemmas.Replay
import Magog.Lemmas.LegalLinkProof
import Magog.Props.C02
import Magog.Props.C18

/-! Property C02, specification level — playing a LEGAL MOVE OF THE RULES: the engine has a move for it,
    `makeMove` accepts it, the bookkeeping stays consistent, the new position is exactly the one the rules
    define, the ply counter advances by one; iterated over move lists of any length.

`Spec.legal`, `Spec.apply`, `Spec.play` are the rules (Magog/Spec/Chess.lean), `abs` / `absMove` the
abstraction of engine positions / moves, `Inv` the well-formedness invariant, `OppSafe p` "the side not to move
is not in check". `Replay.LegalLink` is the link between `Spec.legal` and the engine's generator + legality
verdict, stated as a hypothesis of the theorems (it is what `isLegal_spec` / `C01_legal_exact` provide):

    LegalLink := ∀ p, Inv p → OppSafe p → ∀ sm, Spec.legal (abs p) sm = true →
                   ∃ m, MM.Generated p m ∧ absMove m = sm ∧ ∃ p', makeMove p m = .ok (p', true)

`legalLink_holds` discharges it from lemmas already in the library (`C01.genPseudo_complete_legal`,
`makeMove_spec`, `Atk.inCheck_eq`, `MMAbs.abs_board_eq`); `verdict_spec` is the verdict half on its own.
All theorems are full (no `_partial`). -/

namespace Magog.Props.C02Spec
open Magog Magog.Model Magog.MM Magog.Replay

/-- **C02, one move of the rules.** On a well-formed position with the opponent not in check, for every move
    `sm` the rules call legal there is an engine move `m` denoting it which the generator emits and `makeMove`
    accepts (no panic, verdict `true`); the new position is well-formed, the opponent (the side that just moved)
    is not in check, it denotes exactly `Spec.apply (abs p) sm`, and the ply counter is `int16(ply + 1)`. -/
theorem C02_step_spec (hL : LegalLink) {p : Position} {sm : Spec.Move} (hI : Inv p) (hS : OppSafe p)
    (hleg : Spec.legal (abs p) sm = true) :
    ∃ m p', MM.Generated p m ∧ absMove m = sm ∧ makeMove p m = .ok (p', true) ∧ Inv p' ∧ OppSafe p' ∧
      abs p' = Spec.apply (abs p) sm ∧ p'.ply = wrap16 (p.ply + 1) :=
  step_spec hL hI hS hleg

/-- **C02, a game of the rules.** For every list `sms` of moves the rules allow in sequence from `abs p` (any
    length) there is a game `ms` of generated, accepted engine moves denoting them, and after EVERY prefix of
    `k` moves `playM` has not panicked, the position `q` is well-formed with the opponent not in check, and
    `abs q` is exactly the position the rules define after the first `k` moves. -/
theorem C02_history_spec (hL : LegalLink) {p : Position} (hI : Inv p) (hS : OppSafe p) {sms : List Spec.Move}
    {P' : Spec.Pos} (hplay : Spec.play (abs p) sms = some P') :
    ∃ ms, ms.map absMove = sms ∧ GameOk p ms ∧
      ∀ k, k ≤ sms.length → ∃ q, playM p (ms.take k) = .ok q ∧ Inv q ∧ OppSafe q ∧
        Spec.play (abs p) (sms.take k) = some (abs q) :=
  play_spec_prefix hL sms hI hS hplay

/-- the end of the game: the final position denotes `P'` -/
theorem C02_play_spec (hL : LegalLink) {p : Position} (hI : Inv p) (hS : OppSafe p) {sms : List Spec.Move}
    {P' : Spec.Pos} (hplay : Spec.play (abs p) sms = some P') :
    ∃ ms p', ms.map absMove = sms ∧ GameOk p ms ∧ playM p ms = .ok p' ∧ Inv p' ∧ OppSafe p' ∧ abs p' = P' :=
  play_spec hL sms hI hS hplay

/-- The verdict `makeMove` returns for a generated move is the rules' "the mover's king is not attacked in the
    new position" (the engine-side half of `LegalLink`). -/
theorem verdict_spec {p p' : Position} {m : Move} {b : Bool} (hI : Inv p) (hS : OppSafe p) (hG : MM.Generated p m)
    (h : makeMove p m = .ok (p', b)) :
    b = !Spec.inCheck (Spec.apply (abs p) (absMove m)).board (abs p).turn :=
  Replay.verdict_spec hI hS hG h

/-- `LegalLink` holds. -/
theorem legalLink_holds : LegalLink := legalLink

/-- `C02_step_spec` with `LegalLink` discharged -/
theorem C02_step_spec_unconditional {p : Position} {sm : Spec.Move} (hI : Inv p) (hS : OppSafe p)
    (hleg : Spec.legal (abs p) sm = true) :
    ∃ m p', MM.Generated p m ∧ absMove m = sm ∧ makeMove p m = .ok (p', true) ∧ Inv p' ∧ OppSafe p' ∧
      abs p' = Spec.apply (abs p) sm ∧ p'.ply = wrap16 (p.ply + 1) :=
  C02_step_spec legalLink_holds hI hS hleg

/-- `C02_history_spec` with `LegalLink` discharged -/
theorem C02_history_spec_unconditional {p : Position} (hI : Inv p) (hS : OppSafe p) {sms : List Spec.Move}
    {P' : Spec.Pos} (hplay : Spec.play (abs p) sms = some P') :
    ∃ ms, ms.map absMove = sms ∧ GameOk p ms ∧
      ∀ k, k ≤ sms.length → ∃ q, playM p (ms.take k) = .ok q ∧ Inv q ∧ OppSafe q ∧
        Spec.play (abs p) (sms.take k) = some (abs q) :=
  C02_history_spec legalLink_holds hI hS hplay

/-! ### non-vacuity: 1.e4 e5 2.Nf3 from the start position -/

theorem start_e2e4_legal : Spec.legal (abs startPosition) ⟨12, 28, none⟩ = true := by decide +kernel

/-- 1.e4 as a move of the rules: the engine plays it, the new position is the rules' -/
example : ∃ m p', absMove m = ⟨12, 28, none⟩ ∧ makeMove startPosition m = .ok (p', true) ∧ Inv p' ∧ OppSafe p' ∧
    abs p' = Spec.apply (abs startPosition) ⟨12, 28, none⟩ ∧ p'.ply = 1 := by
  obtain ⟨m, p', _, h1, h2, h3, h4, h5, h6⟩ :=
    C02_step_spec legalLink_holds inv_startPosition C02.oppSafe_start start_e2e4_legal
  exact ⟨m, p', h1, h2, h3, h4, h5, by rw [h6]; decide +kernel⟩

theorem start_game_legal :
    (Spec.play (abs startPosition) [⟨12, 28, none⟩, ⟨52, 36, none⟩, ⟨6, 21, none⟩]).isSome = true := by
  decide +kernel

example : ∃ ms, ms.map absMove = [⟨12, 28, none⟩, ⟨52, 36, none⟩, ⟨6, 21, none⟩] ∧ GameOk startPosition ms ∧
    ∀ k, k ≤ 3 → ∃ q, playM startPosition (ms.take k) = .ok q ∧ Inv q ∧ OppSafe q ∧
      Spec.play (abs startPosition) (([⟨12, 28, none⟩, ⟨52, 36, none⟩, ⟨6, 21, none⟩] : List Spec.Move).take k)
        = some (abs q) := by
  obtain ⟨P', hP⟩ := Option.isSome_iff_exists.mp start_game_legal
  exact C02_history_spec legalLink_holds inv_startPosition C02.oppSafe_start hP

/-- the verdict on 1.e4 -/
example : ∃ p' b, makeMove startPosition ⟨0x14, 0x34, 0, 0x24⟩ = .ok (p', b) ∧
    b = !Spec.inCheck (Spec.apply (abs startPosition) (absMove ⟨0x14, 0x34, 0, 0x24⟩)).board (abs startPosition).turn := by
  obtain ⟨⟨p', b⟩, h⟩ := C02.makeMove_ok inv_startPosition C02.oppSafe_start C02.generated_e2e4
  exact ⟨p', b, h, verdict_spec inv_startPosition C02.oppSafe_start C02.generated_e2e4 h⟩

/-! ### the ply counter -/

/-- **The ply counter is exact.** From a position the FEN loader accepts, with `n` the full-move number of the
    text (sixth field), after ANY `k` moves played with `makeMove` the ply counter is
    `2(n−1) + [Black to move] + k`, as long as this stays below 2^15 (the counter is a Go `int16`). -/
theorem ply_exact {s : Bytes} {p : Position} (h : parseFen s = .ok (.ok p)) :
    ∃ (full : Bytes) (n : Int), (splitOn 32 s)[5]? = some full ∧ atoi full = some n ∧ 1 ≤ n ∧
      n ≤ (Gen.maxFullMoveCounter : Int) ∧
      p.ply = 2 * (n - 1) + (if whiteTurn p then 0 else 1) ∧
      ∀ (ms : List Move) (q : Position), playM p ms = .ok q →
        2 * (n - 1) + (if whiteTurn p then 0 else 1) + ms.length < 32768 →
        q.ply = 2 * (n - 1) + (if whiteTurn p then 0 else 1) + ms.length := by
  obtain ⟨_, _pl, _tu, _ca, _ep, _ha, full, hsplit, _a2, _a3, _a4, _a5, _a6, _a7, _a8, _a9, _a10, _a11, _a12,
    n, hat, hn1, hn2, hply⟩ := C08.fen_faithful h
  refine ⟨full, n, by rw [hsplit]; rfl, hat, hn1, hn2, hply, ?_⟩
  intro ms q hq hlt
  rw [← hply] at hlt ⊢
  refine playM_ply hq ?_ hlt
  rw [hply]
  split <;> omega

/-- no wrap-around in practice (C18 `ply_no_wrap`): the loader accepts move numbers up to
    `maxFullMoveCounter`, so the formula holds for at least 12 100 further plies, whatever the text -/
theorem ply_exact_12100 {s : Bytes} {p : Position} (h : parseFen s = .ok (.ok p)) {ms : List Move} {q : Position}
    (hq : playM p ms = .ok q) (hk : ms.length ≤ 12100) : q.ply = p.ply + ms.length := by
  obtain ⟨full, n, _, _, hn1, hn2, hply, hall⟩ := ply_exact h
  rw [hply]
  refine hall ms q hq ?_
  have hw := C18.ply_no_wrap n (ms.length : Int) ⟨hn1, hn2⟩ ⟨by omega, by omega⟩
  simp only [Gen.maxFullMoveCounter] at hn2
  split <;> omega

/-- the spec-level game from an accepted FEN: ply after `k` legal moves of the rules. (No "side not to move is
    not in check" hypothesis any more: the repaired loader guarantees it, `C08.fen_oppSafe`.) -/
theorem ply_exact_spec (hL : LegalLink) {s : Bytes} {p : Position} (h : parseFen s = .ok (.ok p))
    {sms : List Spec.Move} {P' : Spec.Pos} (hplay : Spec.play (abs p) sms = some P') (hk : sms.length ≤ 12100) :
    ∃ ms q, ms.map absMove = sms ∧ playM p ms = .ok q ∧ abs q = P' ∧ q.ply = p.ply + sms.length := by
  obtain ⟨ms, q, hmap, _, hq, _, _, habs⟩ := play_spec hL sms (C02.fen_inv h) (C08.fen_oppSafe h) hplay
  have hlen : ms.length = sms.length := by rw [← hmap, List.length_map]
  refine ⟨ms, q, hmap, hq, habs, ?_⟩
  rw [← hlen]
  exact ply_exact_12100 h hq (hlen ▸ hk)

set_option maxRecDepth 100000 in
/-- non-vacuity: `4k3/8/8/8/8/8/4P3/4K3 b - - 0 10` (Black to move, move 10) has ply 19, and 20 after …Kd8 -/
example : ∃ p, parseFen (FenSpec.strBytes "4k3/8/8/8/8/8/4P3/4K3 b - - 0 10") = .ok (.ok p) ∧ p.ply = 19 ∧
    ∀ q, playM p [⟨Gen.E8, Gen.D8, 0, InvalidSq⟩] = .ok q → q.ply = 20 := by
  obtain ⟨p, hp⟩ := FenLemmas.accepted_iff.1
    (show FenSpec.accepted (parseFen (FenSpec.strBytes "4k3/8/8/8/8/8/4P3/4K3 b - - 0 10")) = true by decide +kernel)
  have h19 : (match parseFen (FenSpec.strBytes "4k3/8/8/8/8/8/4P3/4K3 b - - 0 10") with
      | .ok (.ok p) => p.ply == 19 | _ => false) = true := by decide +kernel
  rw [hp] at h19
  have h19' : p.ply = 19 := by simpa using h19
  refine ⟨p, hp, h19', fun q hq => ?_⟩
  rw [ply_exact_12100 hp hq (by decide), h19']
  rfl

end Magog.Props.C02Spec
