import Magog.Model.Search
import Magog.Lemmas.EvalBound
import Magog.Lemmas.MateValue
import Magog.Lemmas.MateWitness
import Magog.Props.C04

/-! Property C05 — mate and stalemate.

    1. score arithmetic and formatting (on regenerated constants);
    2. **evaluation bound**: on a well-formed position (`Inv`) and with a king-table blend that extrapolates by
       at most the factor `blendK` on the material sums a well-formed position can have (`BlendBounded`, the
       recorded parameter assumption; true of the exact interpolation the Go code approximates,
       `blendBounded_exact`) every non-mate evaluation is within `evalB`, an explicit
       number computed from the generated constants and tables, and `evalB < ScoreCloseToMate < −Lost − 200`
       (`eval_bound`, `band_order`, `C05_cp`); this discharges the hypothesis `EvalRange` of C04
       (`evalRange_of_inv`, `C04_reported_scores_inv`);
    3. **mate exactness** on the model's own game tree (`Spec/MateM.lean`: `winsInM` / `losesInM` over
       `generateMoves` / `makeMove`; the link of that tree to the rules of chess is C01's business):
       `V_mate_exact`, `V_mate_sound`, `V_mate_complete`, and for the scores the search prints
       `C05_reported_mate`.

    Hypotheses of part 3 (definitions in `Lemmas/MateValue.lean`):
    * `Closed G`            `G` is closed under `makeMove` along generated moves (C04);
    * `EvalBoundOn blend G` the conclusion of part 2 on `G` (`evalBoundOn_of_inv`);
    * `GenLink G`           on `G` the full generator runs, `countMoves` counts its list and the tactical generator
                            lists its tactical moves (the last two are C06: `genLink_of_countOk`);
    * a depth budget `D` with `Lost + D < −evalB` (resp. `D ≤ 79000` for the formatted scores). -/

namespace Magog.Props.C05
open Magog Magog.Model

/-- the mate-score band is far outside the band of `cp` scores: a mate in up to 79 000 plies is still
    recognised as a mate score, and no score within `ScoreCloseToMate` is -/
theorem score_bands : (Gen.ScoreCloseToMate : Int) + 79000 < -Gen.LostScore ∧ (0 : Int) < Gen.ScoreCloseToMate := by
  decide

/-- a score inside the evaluation band is printed as `cp` with its exact value -/
theorem format_cp (s : Int) (h : s.natAbs ≤ Gen.ScoreCloseToMate) : formatScore s = .cp s := by
  unfold formatScore closeToMate
  have : ¬ (s.natAbs > Gen.ScoreCloseToMate) := by omega
  simp [this]

/-- the side to move mates in `k` plies (k odd in play; the formula is total): `mate ⌈k/2⌉` -/
theorem format_mate_win (k : Nat) (hk : k ≤ 79000) :
    formatScore (-Gen.LostScore - (k : Int)) = .mate (((k + 1) / 2 : Nat) : Int) := by
  unfold formatScore closeToMate fullMovesToMate
  simp only [Gen.LostScore, Gen.ScoreCloseToMate]
  have h1 : (-(-100000 : Int) - (k : Int)).natAbs > 20800 := by omega
  have h2 : ¬ (-(-100000 : Int) - (k : Int) < 0) := by omega
  simp only [h1, decide_true, ↓reduceIte, h2]
  congr 1
  have : (1 : Int) * (-(-100000 : Int) - (-(-100000) - (k : Int)) + 1) = ((k + 1 : Nat) : Int) := by omega
  rw [this, Int.tdiv_eq_ediv_of_nonneg (by omega)]
  omega

/-- the side to move is mated in `k` plies (k even in play): `mate -(k/2)` rounded towards zero from
    `-(k+1)/2`, i.e. `mate -⌊(k+1)/2⌋` -/
theorem format_mate_lose (k : Nat) (hk : k ≤ 79000) :
    formatScore (Gen.LostScore + (k : Int)) = .mate (-(((k + 1) / 2 : Nat) : Int)) := by
  unfold formatScore closeToMate fullMovesToMate
  simp only [Gen.LostScore, Gen.ScoreCloseToMate]
  have h1 : ((-100000 : Int) + (k : Int)).natAbs > 20800 := by omega
  have h2 : ((-100000 : Int) + (k : Int) < 0) := by omega
  simp only [h1, decide_true, ↓reduceIte, h2]
  congr 1
  have : (-1 : Int) * (-(-100000 : Int) - -((-100000 : Int) + (k : Int)) + 1) = -((k + 1 : Nat) : Int) := by omega
  rw [this, Int.neg_tdiv, Int.tdiv_eq_ediv_of_nonneg (by omega)]
  omega

/-- `pliesToMate` recovers the distance from either sign of a mate score -/
theorem pliesToMate_eq (k : Nat) (hk : k ≤ 79000) :
    pliesToMate (-Gen.LostScore - (k : Int)) = k ∧ pliesToMate (Gen.LostScore + (k : Int)) = k := by
  unfold pliesToMate
  simp only [Gen.LostScore]
  omega

/-- the root early exit fires exactly on "the move just searched mates next ply" -/
theorem nextMoveWins_iff (s : Int) : nextMoveWins s = true ↔ s = -Gen.LostScore - 1 := by
  simp [nextMoveWins]

/-- terminal scoring: mate score at the node's depth iff in check, draw otherwise (model of
    `terminalNodeScore`; `isCurrentKingUnderCheck` is tied to the rules by C09) -/
theorem terminal_class (p : Position) (depth : Int) (chk : Bool) (h : isCurrentKingUnderCheck p = .ok chk) :
    terminalNodeScore p depth = .ok (if chk then Gen.LostScore + depth else Gen.DrawScore) := by
  simp [terminalNodeScore, h, bind, Except.bind, pure, Except.pure]

example : formatScore 99999 = .mate 1 ∧ formatScore (-99998) = .mate (-1) ∧ formatScore 99997 = .mate 2 ∧
    formatScore (-20800) = .cp (-20800) ∧ formatScore 20801 = .mate 39600 := by decide

/-! ### part 2: the evaluation bound -/

section EvalBound
open Magog.Lemmas.EvalBound Magog.Lemmas.AlphaBeta Magog.Spec.Minimax

/-- every entry of the 14 generated piece-square tables is bounded by the kernel-computed maximum `pstMaxAbs` -/
theorem pst_bound (t : List Int) (ht : t ∈ allPst) (v : Int) (hv : v ∈ t) : v.natAbs ≤ pstMaxAbs := by
  have := List.all_eq_true.mp (tableOk_of_mem ht) v hv
  simpa using this

example : Gen.sqTableKingEndgameWhite ∈ allPst ∧ (-50 : Int) ∈ Gen.sqTableKingEndgameWhite ∧ pstMaxAbs = 50 := by
  decide +kernel

/-- mobility: `countMoves` is bounded by the list lengths (13 per pawn, 64 per piece, 8 king steps, 2 castlings),
    whoever is to move; no invariant needed -/
theorem countMoves_le (p : Position) (n : Nat) (h : countMoves p = .ok n) :
    n ≤ moveBound p ∧
    moveBound p = max (13 * p.whitePawns.length + 64 * p.whitePieces.length + 10)
                      (13 * p.blackPawns.length + 64 * p.blackPieces.length + 10) :=
  ⟨Lemmas.EvalBound.countMoves_le h, rfl⟩

/-- … and by `maxMoves = 64 · pieceCap + 10` on a well-formed position, for either side to move -/
theorem countMoves_le_maxMoves (p : Position) (hp : Inv p) :
    (∀ n, countMoves p = .ok n → n ≤ maxMoves) ∧ (∀ n, countMoves (flipTurn p) = .ok n → n ≤ maxMoves) ∧
    maxMoves = 64 * Gen.pieceCap + 10 :=
  ⟨fun _ h => countMoves_le_max hp h, fun _ h => countMoves_flip_le_max hp h, rfl⟩

set_option maxRecDepth 100000 in
example : Inv startPosition ∧ countMoves startPosition = .ok 20 ∧ countMoves (flipTurn startPosition) = .ok 20 ∧
    moveBound startPosition = 562 ∧ maxMoves = 970 :=
  ⟨inv_startPosition, okIs_eq (by decide +kernel), okIs_eq (by decide +kernel), by decide +kernel, by decide⟩

/-- **evaluation bound.** On a well-formed position, with a blend that stays within `blendK` times the table
    bound on every material sum `≤ maxMaterialSum` (the engine's game-phase factor is not clamped, so the blend
    extrapolates when promoted pieces push the material sum above `StartingSumOfMaterial`), the
    piece-square score, the lazy evaluation (any window) and the full evaluation are within `evalB`, except for
    the exact mate score `Lost + depth` of a checkmated side to move. `evalB` is computed from the generated
    constants and tables:
    `pieceCap·(matMax + T) + pieceCap·T + 2·blendK·T + (64·pieceCap + 10)·MobilityScoreFactor`
    with `T = pstMaxAbs` (`evalB_eq`; 20 650 on the current constants). -/
theorem eval_bound (blend : Blend) (p : Position) (hp : Inv p) (hb : BlendBounded blend pstMaxAbs) :
    (∀ c, pieceSquareScore blend p = .ok c → c.natAbs ≤ evalB) ∧
    (∀ (d α β x : Int), lazyEvaluate blend p d α β = .ok x → x = Gen.LostScore + d ∨ x.natAbs ≤ evalB) ∧
    (∀ (d x : Int), evaluate blend p d = .ok x → x = Gen.LostScore + d ∨ x.natAbs ≤ evalB) :=
  Lemmas.EvalBound.eval_bound hp hb

/-- … and the mate score is returned exactly when `isCheckMate` holds -/
theorem eval_class (blend : Blend) (p : Position) (hp : Inv p) (hb : BlendBounded blend pstMaxAbs)
    (d α β x : Int) (h : lazyEvaluate blend p d α β = .ok x) :
    (isCheckMate p = .ok true ∧ x = Gen.LostScore + d) ∨ (isCheckMate p = .ok false ∧ x.natAbs ≤ evalB) :=
  lazyEvaluate_bound hp hb h

/-- the bands, decided on the generated constants and tables: evaluations < mate threshold < mate scores -/
theorem band_order : evalB < Gen.ScoreCloseToMate ∧ (Gen.ScoreCloseToMate : Int) < -Gen.LostScore - 200 :=
  ⟨evalB_lt, closeToMate_lt⟩

/-- non-vacuity: the start position is well-formed, the integer blend `mid` is bounded, the evaluation runs -/
example : Inv startPosition ∧ BlendBounded demoBlend pstMaxAbs ∧ evaluate demoBlend startPosition 0 = .ok 0 ∧
    evalB = 20650 ∧ maxMaterialSum = 27000 ∧ blendK = 8 :=
  ⟨inv_startPosition, Lemmas.MateValue.demoBlend_bounded, Lemmas.MateValue.start_eval, by decide +kernel,
    by decide, by decide⟩

/-- the parameter assumption is satisfiable by the real-valued interpolation the Go code approximates: the exact
    blend `⌊(msum·mid + (S − msum)·end) / S⌋` (truncated toward zero, `S = StartingSumOfMaterial`) satisfies
    `BlendBounded` for every bound, including the extrapolating range `S < msum ≤ maxMaterialSum` -/
theorem blendBounded_exact (B : Nat) : BlendBounded exactBlend B := Lemmas.EvalBound.blendBounded_exact B

/-- the material sum the blend is applied to is at most `maxMaterialSum` on a well-formed position -/
theorem materialSum_le (p : Position) (hp : Inv p) (wm bm : Nat)
    (hw : nonPawnMaterial p.board p.whitePieces = .ok wm) (hb : nonPawnMaterial p.board p.blackPieces = .ok bm) :
    wm + bm ≤ maxMaterialSum :=
  Lemmas.EvalBound.materialSum_le hp hw hb

set_option maxRecDepth 100000 in
example : Inv startPosition ∧ nonPawnMaterial startPosition.board startPosition.whitePieces = .ok 3200 ∧
    nonPawnMaterial startPosition.board startPosition.blackPieces = .ok 3200 :=
  ⟨inv_startPosition, okIs_eq (by decide +kernel), okIs_eq (by decide +kernel)⟩

/-- the exact blend takes the values the Go binary returns outside `[mid, end]` (material sums 12 800 and
    27 000 are reachable by promotions), so the evaluation theorems instantiated with it cover those positions -/
example : BlendBounded exactBlend pstMaxAbs ∧ exactBlend 12800 (-50) 50 = -150 ∧
    exactBlend 27000 50 (-50) = 371 ∧ (371 : Nat) ≤ blendK * pstMaxAbs :=
  ⟨blendBounded_exact _, by decide, by decide, by decide +kernel⟩

/-- the EARLIER form of the parameter assumption ("the blend of two values within 50 is within 50, whatever the
    material sum") is false of the exact interpolation — and of the Go binary, which returns the same two values
    -150 and 371; theorems that carried it said nothing about the engine on positions with promoted pieces -/
theorem old_blend_hypothesis_false_of_exact :
    ¬ (∀ (msum : Nat) (mid end_ : Int), mid.natAbs ≤ 50 → end_.natAbs ≤ 50 →
        (exactBlend msum mid end_).natAbs ≤ 50) :=
  Lemmas.EvalBound.old_blend_hypothesis_false_of_exact

/-- non-mate evaluations are always reported as `cp` -/
theorem C05_cp (blend : Blend) (p : Position) (hp : Inv p) (hb : BlendBounded blend pstMaxAbs) (d x : Int)
    (h : evaluate blend p d = .ok x) (hx : x ≠ Gen.LostScore + d) : formatScore x = .cp x := by
  rcases (Lemmas.EvalBound.eval_bound hp hb).2.2 d x h with h | h
  · exact absurd h hx
  · exact format_cp x (Nat.le_trans h (Nat.le_of_lt evalB_lt))

example : Inv startPosition ∧ BlendBounded demoBlend pstMaxAbs ∧ evaluate demoBlend startPosition 0 = .ok 0 ∧
    (0 : Int) ≠ Gen.LostScore + 0 :=
  ⟨inv_startPosition, Lemmas.MateValue.demoBlend_bounded, Lemmas.MateValue.start_eval, by decide⟩

/-- the evaluation bound discharges C04's hypothesis `EvalRange` on every set of well-formed positions, for all
    depth budgets `D` with `Lost + D ≤ −evalB` (on the current constants: `D ≤ 79350`) -/
theorem evalRange_of_inv (blend : Blend) (G : Position → Prop) (hG : ∀ p, G p → Inv p)
    (hb : BlendBounded blend pstMaxAbs) (D : Nat) (hD : Gen.LostScore + (D : Int) ≤ -(evalB : Int)) :
    EvalRange blend G D :=
  Lemmas.EvalBound.evalRange_of_inv hG hb D hD

/-- a generous concrete budget -/
theorem depth_10000_ok : Gen.LostScore + ((10000 : Nat) : Int) ≤ -(evalB : Int) :=
  Lemmas.EvalBound.depth_10000_ok

example : (∀ p, (fun p => p = startPosition) p → Inv p) ∧ BlendBounded demoBlend pstMaxAbs :=
  ⟨fun _ h => h ▸ inv_startPosition, Lemmas.MateValue.demoBlend_bounded⟩

/-- C04's reported-score theorem with the evaluation-range hypothesis discharged: on a closed set of well-formed
    positions, with a bounded blend, every score reported for a completed iteration is the minimax value -/
theorem C04_reported_scores_inv (env : Env) (G : Position → Prop) (hG : ∀ p, G p → Inv p)
    (hb : BlendBounded env.blend pstMaxAbs) (hq : Quiet env) (hps : PermSort env)
    (hcl : Closed G) (hlz : LazyOn env G) (qfuel : Nat) (p : Position) (maxDepth : Nat) (killers : Killers)
    (rows : Array (Array Move)) (len0 : Nat) (s : SS) (hp : G p) (hD1 : 1 + qfuel ≤ 10000)
    (hD : maxDepth + qfuel ≤ 10000) (h : iterDeep env qfuel p maxDepth killers rows len0 = .ok s) :
    (∀ d sc nodes pv, Event.infoDepth d sc nodes pv ∈ s.out →
        ∀ w, rootV env.blend qfuel d p = .ok w → sc = w) ∧
    ((∃ m best done nodes pv rest, s.out = .bestmove m :: .infoPv best done nodes pv :: rest ∧
        ∀ w, rootV env.blend qfuel done p = .ok w → best = w) ∨
     (∃ sc rest, s.out = .bestmoveNone :: .infoTerminal sc :: rest ∧
        ∀ w, rootV env.blend qfuel 1 p = .ok w → sc = w)) :=
  C04.C04_reported_scores env G hq hps hcl hlz 10000
    (Lemmas.EvalBound.evalRange_of_inv hG hb 10000 Lemmas.EvalBound.depth_10000_ok)
    qfuel p maxDepth killers rows len0 s hp hD1 hD h

end EvalBound

/-! ### part 3: mate exactness on the model's game tree -/

section Mate
open Magog.Lemmas.EvalBound Magog.Lemmas.AlphaBeta Magog.Lemmas.MateValue Magog.Spec.Minimax Magog.Spec.MateM

/-- the hypothesis `EvalBoundOn` is the conclusion of part 2 -/
theorem evalBoundOn_of_inv (blend : Blend) (G : Position → Prop) (hG : ∀ p, G p → Inv p)
    (hb : BlendBounded blend pstMaxAbs) : EvalBoundOn blend G :=
  Lemmas.MateValue.evalBoundOn_of_inv hG hb

/-- the hypothesis `GenLink` from C06's side conditions plus "the generator does not panic" -/
theorem genLink_of_countOk (G : Position → Prop)
    (hgen : ∀ p, G p → ∃ ms, generateMoves Killers.empty p = .ok ms)
    (hc : ∀ p, G p → Count.CountOk p) (hcells : ∀ p, G p → Count.CellsOk p) : GenLink G :=
  Lemmas.MateValue.genLink_of_countOk hgen hc hcells

/-- **mate exactness of the minimax value.** Let `w` be the plain minimax value of `p` at depth `depth` with `rem`
    full-width plies (then quiescence). Then
    * (range) `w` is a "mated in `n`" score `Lost + depth + n` with `n ≤ rem + 1`, or an evaluation-band score
      (`|w| ≤ evalB`), or a "mates in `n`" score `−(Lost + depth + n)` with `1 ≤ n ≤ rem + 1`;
    * (exact within the horizon) for every `n ≤ rem`: the side to move is mated within `n` plies on the model tree
      iff `w ≤ Lost + depth + n`, and it mates within `n` plies iff `w ≥ −(Lost + depth + n)` — and both
      specification functions are defined;
    * (sound one ply beyond: mates found by quiescence, i.e. a checkmated leaf or a mating capture/promotion at
      the leaf) if `w ≤ Lost + depth + rem + 1` then `losesInM (rem + 1) p` is true whenever defined, if
      `w ≥ −(Lost + depth + rem + 1)` then `winsInM (rem + 1) p` is true whenever defined (they are defined when
      the check test does not panic on `G`, `definedM`). A quiet mating move at the horizon is not seen, so
      there is no completeness at `rem + 1`. -/
theorem V_mate_exact (blend : Blend) (qfuel : Nat) (G : Position → Prop) (hcl : Closed G)
    (hev : EvalBoundOn blend G) (hl : GenLink G) (D : Nat) (hD : Gen.LostScore + (D : Int) < -(evalB : Int))
    (rem depth : Nat) (p : Position) (w : Int) (hp : G p) (hdD : depth + rem + qfuel + 1 ≤ D)
    (h : V blend qfuel rem p depth = .ok w) :
    ((∃ n, n ≤ rem + 1 ∧ w = Gen.LostScore + depth + n) ∨ w.natAbs ≤ evalB ∨
      (∃ n, 1 ≤ n ∧ n ≤ rem + 1 ∧ w = -(Gen.LostScore + depth + n))) ∧
    (∀ n, n ≤ rem → ∃ b, losesInM n p = .ok b ∧ (b = true ↔ w ≤ Gen.LostScore + depth + n)) ∧
    (∀ n, n ≤ rem → ∃ b, winsInM n p = .ok b ∧ (b = true ↔ -(Gen.LostScore + depth + n) ≤ w)) ∧
    (w ≤ Gen.LostScore + depth + (rem + 1 : Nat) → ∀ b, losesInM (rem + 1) p = .ok b → b = true) ∧
    (-(Gen.LostScore + depth + (rem + 1 : Nat)) ≤ w → ∀ b, winsInM (rem + 1) p = .ok b → b = true) :=
  let sp := V_mateSpec blend qfuel G hcl hev hl D hD rem depth p w hp hdD h
  ⟨sp.range, sp.loses, sp.wins, sp.losesNext, sp.winsNext⟩

/-- the specification functions are defined on `G` at every length when, in addition, the check test does not
    panic on `G` -/
theorem mate_spec_defined (G : Position → Prop) (hcl : Closed G) (hl : GenLink G)
    (hchk : ∀ p, G p → ∃ c, isCurrentKingUnderCheck p = .ok c) (n : Nat) (p : Position) (hp : G p) :
    (∃ b, winsInM n p = .ok b) ∧ (∃ b, losesInM n p = .ok b) :=
  definedM hcl hl.gen hchk n p hp

/-- non-vacuity of the hypotheses: the mated root (fool's mate) as a one-point closed set, value `Lost` = "mated
    in 0", and `losesInM 0` is true -/
example : Closed FM ∧ EvalBoundOn demoBlend FM ∧ GenLink FM ∧ (∀ p, FM p → ∃ c, isCurrentKingUnderCheck p = .ok c) ∧
    Gen.LostScore + ((10000 : Nat) : Int) < -(evalB : Int) ∧ FM foolsMate ∧ 0 + 2 + 3 + 1 ≤ 10000 ∧
    V demoBlend 3 2 foolsMate 0 = .ok Gen.LostScore ∧ losesInM 0 foolsMate = .ok true :=
  ⟨fm_closed killerIndep', fm_evalBoundOn, fm_genLink, fm_chk, by decide +kernel, rfl, by decide, fm_V, fm_loses0⟩

/-- an instance of the conclusion with a real mating move (kernel-evaluated): Kb6, Pc7 against Ka8, white to move.
    The position is well-formed, one full-width ply gives the value `−(Lost + 0 + 1)`, the side to move mates in
    exactly one ply on the model tree, and the score is printed as `mate 1`. -/
example : Inv m1Pos ∧ V demoBlend 2 1 m1Pos 0 = .ok (-(Gen.LostScore + (0 : Nat) + (1 : Nat))) ∧
    winsInM 1 m1Pos = .ok true ∧ winsInM 0 m1Pos = .ok false ∧
    formatScore (-(Gen.LostScore + (0 : Nat) + (1 : Nat))) = .mate 1 :=
  ⟨m1_inv, m1_V, m1_wins1, m1_wins0, by decide⟩

/-- **soundness of mate scores**: a mate-valued `V` (`closeToMate w`, i.e. `|w| > ScoreCloseToMate`) equals
    `±(Lost + depth + n)` for an `n ≤ rem + 1` such that a forced mate of exactly that length exists on the model
    tree (forced within `n` plies, not within fewer) -/
theorem V_mate_sound (blend : Blend) (qfuel : Nat) (G : Position → Prop) (hcl : Closed G)
    (hev : EvalBoundOn blend G) (hl : GenLink G) (hchk : ∀ p, G p → ∃ c, isCurrentKingUnderCheck p = .ok c)
    (D : Nat) (hD : Gen.LostScore + (D : Int) < -(Gen.ScoreCloseToMate : Int))
    (rem depth : Nat) (p : Position) (w : Int) (hp : G p) (hdD : depth + rem + qfuel + 1 ≤ D)
    (h : V blend qfuel rem p depth = .ok w) (hmate : closeToMate w = true) :
    (∃ n, n ≤ rem + 1 ∧ w = Gen.LostScore + depth + n ∧ losesInM n p = .ok true ∧
      ∀ k, k < n → losesInM k p = .ok false) ∨
    (∃ n, 1 ≤ n ∧ n ≤ rem + 1 ∧ w = -(Gen.LostScore + depth + n) ∧ winsInM n p = .ok true ∧
      ∀ k, k < n → winsInM k p = .ok false) :=
  Lemmas.MateValue.V_mate_sound blend qfuel G hcl hev hl hchk D hD rem depth p w hp hdD h hmate

example : Closed FM ∧ EvalBoundOn demoBlend FM ∧ GenLink FM ∧ (∀ p, FM p → ∃ c, isCurrentKingUnderCheck p = .ok c) ∧
    Gen.LostScore + ((10000 : Nat) : Int) < -(Gen.ScoreCloseToMate : Int) ∧ FM foolsMate ∧ 0 + 2 + 3 + 1 ≤ 10000 ∧
    V demoBlend 3 2 foolsMate 0 = .ok Gen.LostScore ∧ closeToMate Gen.LostScore = true :=
  ⟨fm_closed killerIndep', fm_evalBoundOn, fm_genLink, fm_chk, by decide, rfl, by decide, fm_V, by decide⟩

/-- **completeness within the horizon**: if `n ≤ rem` is the least length of a forced mate against (resp. for) the
    side to move on the model tree, the value is exactly `Lost + depth + n` (resp. `−(Lost + depth + n)`) -/
theorem V_mate_complete (blend : Blend) (qfuel : Nat) (G : Position → Prop) (hcl : Closed G)
    (hev : EvalBoundOn blend G) (hl : GenLink G) (D : Nat) (hD : Gen.LostScore + (D : Int) < -(evalB : Int))
    (rem depth : Nat) (p : Position) (w : Int) (hp : G p) (hdD : depth + rem + qfuel + 1 ≤ D)
    (h : V blend qfuel rem p depth = .ok w) (n : Nat) (hn : n ≤ rem) :
    (losesInM n p = .ok true → (∀ k, k < n → losesInM k p = .ok false) → w = Gen.LostScore + depth + n) ∧
    (winsInM n p = .ok true → (∀ k, k < n → winsInM k p = .ok false) → w = -(Gen.LostScore + depth + n)) :=
  Lemmas.MateValue.V_mate_complete blend qfuel G hcl hev hl D hD rem depth p w hp hdD h n hn

example : Closed FM ∧ EvalBoundOn demoBlend FM ∧ GenLink FM ∧
    Gen.LostScore + ((10000 : Nat) : Int) < -(evalB : Int) ∧ FM foolsMate ∧ 0 + 2 + 3 + 1 ≤ 10000 ∧
    V demoBlend 3 2 foolsMate 0 = .ok Gen.LostScore ∧ 0 ≤ 2 ∧ losesInM 0 foolsMate = .ok true ∧
    (∀ k, k < 0 → losesInM k foolsMate = .ok false) :=
  ⟨fm_closed killerIndep', fm_evalBoundOn, fm_genLink, by decide +kernel, rfl, by decide, fm_V, by decide, fm_loses0,
   fun _ hk => absurd hk (Nat.not_lt_zero _)⟩

/-- **reported mate scores.** For every `info depth t score sc` line of a completed iteration `t ≤ maxDepth`
    (whose spec value is defined): `sc` is the minimax value of the depth-`t` tree and
    * if the side to move is mated in exactly `n ≤ max t 1` plies on the model tree, the line says
      `mate −⌈n/2⌉`; if it mates in exactly `n ≤ max t 1` plies, the line says `mate ⌈n/2⌉` (found when forced);
    * if the line says `mate k`, a forced mate of exactly `n` plies exists on the model tree, for or against the
      side to move according to the sign, with `|k| = ⌈n/2⌉` and `n ≤ max t 1 + 1` (real when announced, exact
      distance);
    * otherwise the line says `cp sc` with `|sc| ≤ evalB`.
    (`t − 1 + 1 = max t 1`; by `C04_iterations` every printed depth is `≤ max 1 maxDepth`.) -/
theorem C05_reported_mate (env : Env) (G : Position → Prop) (hq : Quiet env) (hps : PermSort env)
    (hcl : Closed G) (hlz : LazyOn env G) (hev : EvalBoundOn env.blend G) (hl : GenLink G)
    (hchk : ∀ p, G p → ∃ c, isCurrentKingUnderCheck p = .ok c)
    (D : Nat) (hD : D ≤ 79000) (qfuel : Nat) (p : Position) (maxDepth : Nat) (killers : Killers)
    (rows : Array (Array Move)) (len0 : Nat) (s : SS) (hp : G p) (hD1 : qfuel + 2 ≤ D)
    (hDm : maxDepth + qfuel + 1 ≤ D) (h : iterDeep env qfuel p maxDepth killers rows len0 = .ok s)
    (t : Nat) (sc : Int) (nodes : Nat) (pv : List Move) (hmem : Event.infoDepth t sc nodes pv ∈ s.out)
    (ht : t ≤ maxDepth) (w : Int) (hw : rootV env.blend qfuel t p = .ok w) :
    sc = w ∧
    (∀ n, n ≤ t - 1 + 1 → losesInM n p = .ok true → (∀ k, k < n → losesInM k p = .ok false) →
      formatScore sc = .mate (-(((n + 1) / 2 : Nat) : Int))) ∧
    (∀ n, n ≤ t - 1 + 1 → winsInM n p = .ok true → (∀ k, k < n → winsInM k p = .ok false) →
      formatScore sc = .mate (((n + 1) / 2 : Nat) : Int)) ∧
    (∀ k, formatScore sc = .mate k →
      (∃ n, n ≤ t - 1 + 1 + 1 ∧ sc = Gen.LostScore + n ∧ k = -(((n + 1) / 2 : Nat) : Int) ∧
        losesInM n p = .ok true ∧ ∀ j, j < n → losesInM j p = .ok false) ∨
      (∃ n, 1 ≤ n ∧ n ≤ t - 1 + 1 + 1 ∧ sc = -Gen.LostScore - n ∧ k = (((n + 1) / 2 : Nat) : Int) ∧
        winsInM n p = .ok true ∧ ∀ j, j < n → winsInM j p = .ok false)) ∧
    (closeToMate sc = false → formatScore sc = .cp sc ∧ sc.natAbs ≤ evalB) := by
  have hlt := evalB_lt
  have hDe : Gen.LostScore + (D : Int) < -(evalB : Int) := by
    simp only [Gen.LostScore, Gen.ScoreCloseToMate] at *; omega
  have hDc : Gen.LostScore + (D : Int) < -(Gen.ScoreCloseToMate : Int) := by
    simp only [Gen.LostScore, Gen.ScoreCloseToMate] at *; omega
  have her : EvalRange env.blend G D := evalRange_of_evalBoundOn hev D (by omega)
  have hsc : sc = w :=
    (C04.C04_reported_scores env G hq hps hcl hlz D her qfuel p maxDepth killers rows len0 s hp (by omega)
      (by omega) h).1 t sc nodes pv hmem w hw
  subst hsc
  unfold rootV at hw
  have hdD : 0 + (t - 1 + 1) + qfuel + 1 ≤ D := by omega
  have hcomp := Lemmas.MateValue.V_mate_complete env.blend qfuel G hcl hev hl D hDe (t - 1 + 1) 0 p sc hp hdD hw
  refine ⟨rfl, ?_, ?_, ?_, ?_⟩
  · intro n hn h1 h2
    have := (hcomp n hn).1 h1 h2
    have hsc : sc = Gen.LostScore + (n : Int) := by push_cast at this; omega
    rw [hsc]
    exact format_mate_lose n (by omega)
  · intro n hn h1 h2
    have := (hcomp n hn).2 h1 h2
    have hsc : sc = -Gen.LostScore - (n : Int) := by push_cast at this; omega
    rw [hsc]
    exact format_mate_win n (by omega)
  · intro k hk
    have hclose : closeToMate sc = true := by
      unfold formatScore at hk
      split at hk
      · assumption
      · cases hk
    rcases Lemmas.MateValue.V_mate_sound env.blend qfuel G hcl hev hl hchk D hDc (t - 1 + 1) 0 p sc hp hdD hw hclose
      with ⟨n, hn, hwn, h1, h2⟩ | ⟨n, hn1, hn, hwn, h1, h2⟩
    · have hsc : sc = Gen.LostScore + (n : Int) := by push_cast at hwn; omega
      refine .inl ⟨n, hn, hsc, ?_, h1, h2⟩
      rw [hsc, format_mate_lose n (by omega)] at hk
      exact (ScoreText.mate.inj hk).symm
    · have hsc : sc = -Gen.LostScore - (n : Int) := by push_cast at hwn; omega
      refine .inr ⟨n, hn1, hn, hsc, ?_, h1, h2⟩
      rw [hsc, format_mate_win n (by omega)] at hk
      exact (ScoreText.mate.inj hk).symm
  · intro hnc
    have sp := V_mateSpec env.blend qfuel G hcl hev hl D hDe (t - 1 + 1) 0 p sc hp hdD hw
    have hiff := closeToMate_iff_of_range (d := 0) (rem := t - 1 + 1) hDc (by omega) sp.range
    have hb : sc.natAbs ≤ evalB := by
      by_cases hb : sc.natAbs ≤ evalB
      · exact hb
      · rw [hiff.mpr hb] at hnc; cases hnc
    refine ⟨?_, hb⟩
    unfold formatScore
    simp [hnc]

/-- non-vacuity (hypotheses): iterative deepening from the mated root with the lazy evaluation and a reversing
    sort. No `info depth` line is printed there (the root is terminal), so this instance shows the hypotheses
    to be satisfiable; the conclusion on a root with a mating move is illustrated by `m1Pos` above. -/
example : Quiet demoEnvLazy ∧ PermSort demoEnvLazy ∧ Closed FM ∧ LazyOn demoEnvLazy FM ∧
    EvalBoundOn demoEnvLazy.blend FM ∧ GenLink FM ∧ (∀ p, FM p → ∃ c, isCurrentKingUnderCheck p = .ok c) ∧
    (100 : Nat) ≤ 79000 ∧ FM foolsMate ∧ 3 + 2 ≤ 100 ∧ 5 + 3 + 1 ≤ 100 ∧
    (∃ s, iterDeep demoEnvLazy 3 foolsMate 5 Killers.empty (newRows 8) 0 = .ok s) := by
  refine ⟨demoEnvLazy_quiet, demoEnvLazy_perm, fm_closed killerIndep', fm_lazyOn, fm_evalBoundOn, fm_genLink, fm_chk,
    by decide, rfl, by decide, by decide, ?_⟩
  obtain ⟨s, hr, _⟩ := map_ok (okIs_eq fm_iterDeep)
  exact ⟨s, hr⟩

end Mate

end Magog.Props.C05
