import Magog.Model.Eval
import Magog.Model.Time

/-! Property C05 — theorems (see DESIGN §5). -/

namespace Magog.Props.C05

end Magog.Props.C05
