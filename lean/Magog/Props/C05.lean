import Magog.Model.Search

/-! Property C05 — mate and stalemate: score arithmetic and formatting (on regenerated constants). -/

namespace Magog.Props.C05
open Magog Magog.Model

/-- the mate-score band is far outside the band of `cp` scores: a mate in up to 79 000 plies is still
    recognised as a mate score, and no score within `ScoreCloseToMate` is -/
theorem score_bands : (Gen.ScoreCloseToMate : Int) + 79000 < -Gen.LostScore ∧ (0 : Int) < Gen.ScoreCloseToMate := by
  decide

/-- a score inside the evaluation band is printed as `cp` with its exact value -/
theorem format_cp (s : Int) (h : s.natAbs ≤ Gen.ScoreCloseToMate) : formatScore s = .cp s := by
  unfold formatScore closeToMate
  have : ¬ (s.natAbs > Gen.ScoreCloseToMate) := by omega
  simp [this]

/-- the side to move mates in `k` plies (k odd in play; the formula is total): `mate ⌈k/2⌉` -/
theorem format_mate_win (k : Nat) (hk : k ≤ 79000) :
    formatScore (-Gen.LostScore - (k : Int)) = .mate (((k + 1) / 2 : Nat) : Int) := by
  unfold formatScore closeToMate fullMovesToMate
  simp only [Gen.LostScore, Gen.ScoreCloseToMate]
  have h1 : (-(-100000 : Int) - (k : Int)).natAbs > 20800 := by omega
  have h2 : ¬ (-(-100000 : Int) - (k : Int) < 0) := by omega
  simp only [h1, decide_true, ↓reduceIte, h2]
  congr 1
  have : (1 : Int) * (-(-100000 : Int) - (-(-100000) - (k : Int)) + 1) = ((k + 1 : Nat) : Int) := by omega
  rw [this, Int.tdiv_eq_ediv_of_nonneg (by omega)]
  omega

/-- the side to move is mated in `k` plies (k even in play): `mate -(k/2)` rounded towards zero from
    `-(k+1)/2`, i.e. `mate -⌊(k+1)/2⌋` -/
theorem format_mate_lose (k : Nat) (hk : k ≤ 79000) :
    formatScore (Gen.LostScore + (k : Int)) = .mate (-(((k + 1) / 2 : Nat) : Int)) := by
  unfold formatScore closeToMate fullMovesToMate
  simp only [Gen.LostScore, Gen.ScoreCloseToMate]
  have h1 : ((-100000 : Int) + (k : Int)).natAbs > 20800 := by omega
  have h2 : ((-100000 : Int) + (k : Int) < 0) := by omega
  simp only [h1, decide_true, ↓reduceIte, h2]
  congr 1
  have : (-1 : Int) * (-(-100000 : Int) - -((-100000 : Int) + (k : Int)) + 1) = -((k + 1 : Nat) : Int) := by omega
  rw [this, Int.neg_tdiv, Int.tdiv_eq_ediv_of_nonneg (by omega)]
  omega

/-- `pliesToMate` recovers the distance from either sign of a mate score -/
theorem pliesToMate_eq (k : Nat) (hk : k ≤ 79000) :
    pliesToMate (-Gen.LostScore - (k : Int)) = k ∧ pliesToMate (Gen.LostScore + (k : Int)) = k := by
  unfold pliesToMate
  simp only [Gen.LostScore]
  omega

/-- the root early exit fires exactly on "the move just searched mates next ply" -/
theorem nextMoveWins_iff (s : Int) : nextMoveWins s = true ↔ s = -Gen.LostScore - 1 := by
  simp [nextMoveWins]

/-- terminal scoring: mate score at the node's depth iff in check, draw otherwise (model of
    `terminalNodeScore`; `isCurrentKingUnderCheck` is tied to the rules by C09) -/
theorem terminal_class (p : Position) (depth : Int) (chk : Bool) (h : isCurrentKingUnderCheck p = .ok chk) :
    terminalNodeScore p depth = .ok (if chk then Gen.LostScore + depth else Gen.DrawScore) := by
  simp [terminalNodeScore, h, bind, Except.bind, pure, Except.pure]

example : formatScore 99999 = .mate 1 ∧ formatScore (-99998) = .mate (-1) ∧ formatScore 99997 = .mate 2 ∧
    formatScore (-20800) = .cp (-20800) ∧ formatScore 20801 = .mate 39600 := by decide

end Magog.Props.C05
