import Magog.Lemmas.SearchIter
import Magog.Lemmas.SearchExamples
import Magog.Props.C11

/-! Property C04 (iteration part) — `go depth d` under an oracle that never reports a timeout or a stop request
    completes exactly the iterations `1 … d`, unless a single legal root move or a forced mate ends deepening early.

Partial-correctness statement about `Model.iterDeep` (hypothesis `iterDeep … = .ok s`), valid for every quiet
`env` (any `sortFn`, `blend`, `gateOpen`, `logInterval`), killer table and initial `rows` / `len0`. -/

namespace Magog.Props.C04Iter
open Magog Magog.Model

/-- Under a quiet oracle (`env.Quiet`: `timeUp n = false` and `stopAt n = false` for every consultation `n`) a
    successful search either finds no legal root move (`bestmove 0000`, no iteration-completed line at all), or
    ends with `bestmove m` preceded by `infoPv best done nodes pv`, where
    * the depths of the iteration-completed lines (`infoDepth`), in chronological order, are exactly `2, 3, …, done`
      (iteration 1 has no such line);
    * `1 ≤ done ≤ max 1 maxDepth` (`go depth 0` still runs iteration 1);
    * `done < maxDepth` only if iteration `done ≥ 2` returned a mate score with `pliesToMate best = done`, or
      iteration `done` (possibly `done = 1`) reported a single legal root move (`one = true`), i.e. some call
      `startAlphaBeta env qfuel p done _ _` of the run returned `(best, true, _, _)`.
    Hence `go depth d` (`d ≥ 1`) completes exactly iterations `1 … d` unless single move / mate found. -/
theorem C04_iterations {env : Env} {qfuel : Nat} {p : Position} {maxDepth : Nat} {killers : Killers}
    {rows : Array (Array Move)} {len0 : Nat} {s : SS} (hq : env.Quiet)
    (h : iterDeep env qfuel p maxDepth killers rows len0 = .ok s) :
    (∃ score rest, s.out = .bestmoveNone :: .infoTerminal score :: rest ∧ depthsOf s.out = []) ∨
    (∃ m best done nodes pv rest, s.out = .bestmove m :: .infoPv best done nodes pv :: rest ∧
       (depthsOf s.out).reverse = List.range' 2 (done - 1) ∧ 1 ≤ done ∧ done ≤ max 1 maxDepth ∧
       (done < maxDepth →
          (2 ≤ done ∧ pliesToMate best = done) ∨
          ∃ len sb len' sa, startAlphaBeta env qfuel p done len sb = .ok (best, true, len', sa))) := by
  obtain ⟨score, one, l, s1, added1, _, _, p1, hc⟩ := iterDeep_shape h
  rcases hc with ⟨_, hout, _⟩ | ⟨_, best, done, nodes, added, m, tl, _, hout, _, _⟩
  · refine .inl ⟨score, added1, hout, ?_⟩
    rw [hout]
    show depthsOf ([Event.bestmoveNone, Event.infoTerminal score] ++ added1) = _
    rw [depthsOf_append, depthsOf_searchInfo fun e he => (p1 e he).1]; rfl
  · obtain ⟨hrange, _, _, _, hseq, _⟩ := C11.C11_no_leak h hout
    exact .inr ⟨m, best, done, nodes, m :: tl, _, hout, hseq, hrange.1, hrange.2,
      iterDeep_quiet_stop hq h hout⟩

open SearchExamples in
/-- non-vacuity: the quiet environment `quietEnv` is quiet and the run Ka1 vs Kh8, `go depth 2`
    (kernel-evaluated) succeeds with `done = 2 = maxDepth` -/
example : quietEnv.Quiet ∧ ∃ s m best nodes pv rest,
    iterDeep quietEnv 3 kkPos 2 Killers.empty (newRows 6) 6 = .ok s ∧
    s.out = .bestmove m :: .infoPv best 2 nodes pv :: rest := by
  obtain ⟨s, m, best, nodes, pv, rest, hs, ho, _⟩ := endsWithBest_elim quiet_run2
  exact ⟨quietEnv_quiet, s, m, best, nodes, pv, rest, hs, ho⟩

end Magog.Props.C04Iter
