import Magog.Lemmas.GoArith
import Magog.Props.C09

/-! C09 - indexing of the attack / direction tables: Go's `moveIndex`, `square.getFile`, `square.getRank`.

    Tie theorems: `Magog.Gen.Fn.*` is printed by the Go→Lean translator `harness/cmd/go2lean` from the current Go
    source on every run (T0); these theorems equate the translation with the hand-written model for **all**
    arguments, so the model's theorems about these functions hold of the code as translated. A change of the Go
    function changes the generated definition and this module is re-checked. -/

namespace Magog.Props.C09Tie
open Magog Magog.Lemmas.GoArith Magog.Gen.Fn

theorem moveIndex_tie (f t : Nat) (hf : f < 256) (ht : t < 256) :
    Gen.Fn.moveIndex f t = Model.moveIndex f t := by
  unfold Gen.Fn.moveIndex Model.moveIndex
  simp only [Gen.lastValidSquare]
  rw [wrapS16_id (x := 119 + (t:Int)) (by omega) (by omega)]
  rw [wrapS16_id (by omega) (by omega)]
  omega

theorem getFile_tie : ∀ s : Fin 256, Gen.Fn.square_getFile (s.val : Int) = (Model.fileOf s.val : Int) := by
  decide +kernel

theorem getRank_tie : ∀ s : Fin 128, Gen.Fn.square_getRank (s.val : Int) = (Model.rankOf s.val : Int) := by
  decide +kernel

/-- for squares of the board the translated index (both squares at most `lastValidSquare`) stays inside the 239-entry tables -/
theorem moveIndex_in_table (f t : Nat) (hf : f ≤ 119) (ht : t ≤ 119) :
    0 ≤ Gen.Fn.moveIndex f t ∧ Gen.Fn.moveIndex f t < 239 := by
  rw [moveIndex_tie f t (by omega) (by omega)]
  unfold Model.moveIndex
  simp only [Gen.lastValidSquare]
  omega

example : Gen.Fn.moveIndex 0 119 = 238 ∧ Gen.Fn.moveIndex 119 0 = 0 ∧ Gen.Fn.square_getRank 0x77 = 0x70 ∧ Gen.Fn.square_getFile 0x77 = 7 := by decide

end Magog.Props.C09Tie
