import Magog.Lemmas.UciFrame
import Magog.Props.C14Log
import Magog.Props.Capstone
import Magog.Props.C17

/-! Property C14 at the command level — the analysis depends on the position `P` and the depth `d` only, not on
    what the engine did before.

What a search started by `go` reads, in the model: the position `posGen` (`UciState.pos`), the killer table
(`UciState.killers`), the depth limit and the deadline computed by `doGo` (the event `searchStarted millis depth`),
the PV buffers left by earlier searches (`rows`, `len0` of `Model.iterDeep`), the option `currmoveLogInterval`
(`Env.logInterval`), and the oracles (clock, stop channel, print gate: `Env`).

* `C14_position_resets`: an accepted `position` command sets the same position from every state, and clears the
  killer table.
* `C14_go_params_depend_on_position_only`: the output of a `go` line — in particular the pair `millis`, `depth`
  handed to the search — is a function of the position and the line.
* `C14_position_go_same_search`: the two together: after `position …; go …` from two arbitrary histories the
  searches are started from the same (position, empty killer table, depth, thinking time).
* `C14_analysis_function_of_position_and_depth`: from there, the stale PV buffers (C14.C14_rows_indep) and the
  logging option (C14Log.C14_logInterval_indep) do not matter either: the two searches print the same lines up to
  `currmove` lines. -/

namespace Magog.Props.C14Uci
open Magog Magog.Model Magog.UciFrame Magog.FenSpec

/-- **C14, `position` resets.** Let `l` be a `position` line that is accepted in the state `st₁` (it prints
    nothing: neither `invalid FEN` nor `Invalid position command`). Then from ANY other state `st₂` (any history:
    other position, other killer table, other option value, …) the line is accepted as well, both runs set the
    SAME position, and in both the killer table is empty afterwards. -/
theorem C14_position_resets {ops : EngineOps} {st₁ st₂ st₁' st₂' : UciState} {l : Bytes} {out₂ : List UOut}
    (hl : hasPrefix l Gen.uPosition_bytes = true)
    (h₁ : uciStep ops st₁ l = .ok (st₁', [])) (h₂ : uciStep ops st₂ l = .ok (st₂', out₂)) :
    out₂ = [] ∧ st₂'.pos = st₁'.pos ∧ (∃ p, st₁'.pos = some p) ∧
      st₁'.killers = Killers.empty ∧ st₂'.killers = Killers.empty := by
  obtain ⟨s, hs, a, b, c, d⟩ := uciStep_position_accept hl h₁ st₂
  rw [hs] at h₂
  cases h₂
  exact ⟨rfl, a, d, b, c⟩

/-- the second run need not be assumed: it succeeds because the first does -/
theorem C14_position_resets_total {ops : EngineOps} {st₁ st₁' : UciState} {l : Bytes}
    (hl : hasPrefix l Gen.uPosition_bytes = true) (h₁ : uciStep ops st₁ l = .ok (st₁', [])) (st₂ : UciState) :
    ∃ st₂', uciStep ops st₂ l = .ok (st₂', []) ∧ st₂'.pos = st₁'.pos ∧ (∃ p, st₁'.pos = some p) ∧
      st₁'.killers = Killers.empty ∧ st₂'.killers = Killers.empty := by
  obtain ⟨s, hs, a, b, c, d⟩ := uciStep_position_accept hl h₁ st₂
  exact ⟨s, hs, a, d, b, c⟩

/-- a state with a history: another position (Ka1 v Kh8), a junk killer table, another option value -/
def usedState : UciState :=
  ⟨some SearchExamples.kkPos, true, 77, false, Array.replicate 3 (⟨1, 2, 3, 4⟩, ⟨5, 6, 7, 8⟩)⟩

/-- non-vacuity: `position startpos moves e2e4 e7e5` from the state of a fresh process and from `usedState` -/
example :
    hasPrefix (strBytes "position startpos moves e2e4 e7e5") Gen.uPosition_bytes = true ∧
    (∃ st₁', uciStep C17.demoOps UciState.init (strBytes "position startpos moves e2e4 e7e5") = .ok (st₁', [])) ∧
    (∃ st₂' out₂, uciStep C17.demoOps usedState (strBytes "position startpos moves e2e4 e7e5") = .ok (st₂', out₂)) ∧
    usedState.pos ≠ UciState.init.pos ∧ usedState.killers ≠ Killers.empty := by
  have key : ∀ st : UciState, (match uciStep C17.demoOps st (strBytes "position startpos moves e2e4 e7e5") with
      | .ok r => r.2.isEmpty | .error _ => false) = true →
      ∃ st', uciStep C17.demoOps st (strBytes "position startpos moves e2e4 e7e5") = .ok (st', []) := by
    intro st h
    cases hr : uciStep C17.demoOps st (strBytes "position startpos moves e2e4 e7e5") with
    | error e => rw [hr] at h; cases h
    | ok r =>
      rw [hr] at h
      obtain ⟨s, o⟩ := r
      cases o with
      | nil => exact ⟨s, rfl⟩
      | cons _ _ => cases h
  refine ⟨by decide +kernel, key _ (by decide +kernel), ?_, (fun h => by cases h), ?_⟩
  · obtain ⟨s, hs⟩ := key usedState (by decide +kernel)
    exact ⟨s, [], hs⟩
  · intro h
    have := congrArg Array.size h
    rw [Props.C18.killers_empty_size] at this
    simp [usedState, Gen.killerMovesMaxPly] at this

/-- **C14, `go` reads the position only.** For two states with the same position (whatever their killer tables,
    search objects, option values), a `go` line prints the same: the same `searchStarted millis depth` (same
    thinking time, same depth limit), or in both nothing (rejected), or in both `No position set …`; when a search is
    started both runs start it with an EMPTY killer table; the position stays what it was. -/
theorem C14_go_params_depend_on_position_only {ops : EngineOps} {st₁ st₂ st₁' st₂' : UciState} {g : Bytes}
    {out₁ out₂ : List UOut} (hg : hasPrefix g Gen.uGo_bytes = true) (hp : st₁.pos = st₂.pos)
    (h₁ : uciStep ops st₁ g = .ok (st₁', out₁)) (h₂ : uciStep ops st₂ g = .ok (st₂', out₂)) :
    out₁ = out₂ ∧ st₁'.pos = st₁.pos ∧ st₂'.pos = st₂.pos ∧
      (∀ millis depth, UOut.searchStarted millis depth ∈ out₁ →
        st₁'.killers = Killers.empty ∧ st₂'.killers = Killers.empty) := by
  rw [uciStep_go hg] at h₁ h₂
  have hc := doGo_out_congr (ops.str.trimSpace (trimPrefix g Gen.uGo_bytes)) hp
  rw [h₁, h₂] at hc
  have ho : out₁ = out₂ := by injection hc
  subst ho
  have f₁ := doGo_frame h₁
  have f₂ := doGo_frame h₂
  refine ⟨rfl, f₁.pos, f₂.pos, ?_⟩
  intro m d hm
  cases f₁ with
  | noPosition _ => simp at hm
  | rejected _ _ => simp at hm
  | started p hp1 m1 d1 =>
    cases f₂ with
    | started _ _ _ _ => exact ⟨rfl, rfl⟩

/-- non-vacuity: `go wtime 60000 btime 60000 movestogo 30` on the start position, once in a fresh state and once with
    a junk killer table, an allocated search object and another option value: 1950 ms, depth 40 in both -/
example :
    hasPrefix (strBytes "go wtime 60000 btime 60000 movestogo 30") Gen.uGo_bytes = true ∧
    (∃ st', uciStep C17.demoOps ⟨some startPosition, false, 1000000, false, Killers.empty⟩
      (strBytes "go wtime 60000 btime 60000 movestogo 30") = .ok (st', [.searchStarted 1950 40])) ∧
    (∃ st', uciStep C17.demoOps ⟨some startPosition, true, 77, false, usedState.killers⟩
      (strBytes "go wtime 60000 btime 60000 movestogo 30") = .ok (st', [.searchStarted 1950 40])) := by
  have key : ∀ st : UciState, (match uciStep C17.demoOps st (strBytes "go wtime 60000 btime 60000 movestogo 30") with
      | .ok r => (match r.2 with | [.searchStarted m d] => m == 1950 && d == 40 | _ => false) | .error _ => false) = true →
      ∃ st', uciStep C17.demoOps st (strBytes "go wtime 60000 btime 60000 movestogo 30") =
        .ok (st', [.searchStarted 1950 40]) := by
    intro st h
    cases hr : uciStep C17.demoOps st (strBytes "go wtime 60000 btime 60000 movestogo 30") with
    | error e => rw [hr] at h; cases h
    | ok r =>
      rw [hr] at h
      obtain ⟨s, o⟩ := r
      match o, h with
      | [.searchStarted m d], h =>
        simp only [Bool.and_eq_true, beq_iff_eq] at h
        obtain ⟨rfl, rfl⟩ := h
        exact ⟨s, rfl⟩
  exact ⟨by decide +kernel, key _ (by decide +kernel), key _ (by decide +kernel)⟩

/-- **C14, `position` then `go`.** From two arbitrary states (two histories) the same accepted `position` line
    followed by the same `go` line start the same search: same position, empty killer table, same depth limit, same
    thinking time. (The second session need not be assumed to run: it does because the first does.) -/
theorem C14_position_go_same_search {ops : EngineOps} {st₁ st₁' st₁'' : UciState} {l g : Bytes} {millis depth : Int}
    (hl : hasPrefix l Gen.uPosition_bytes = true) (hg : hasPrefix g Gen.uGo_bytes = true)
    (h₁ : uciStep ops st₁ l = .ok (st₁', [])) (h₁' : uciStep ops st₁' g = .ok (st₁'', [.searchStarted millis depth]))
    (st₂ : UciState) :
    ∃ st₂' st₂'' p, uciStep ops st₂ l = .ok (st₂', []) ∧
      uciStep ops st₂' g = .ok (st₂'', [.searchStarted millis depth]) ∧
      st₁''.pos = some p ∧ st₂''.pos = some p ∧ st₁''.killers = Killers.empty ∧ st₂''.killers = Killers.empty := by
  obtain ⟨st₂', hs, hpos, ⟨p, hp⟩, _, _⟩ := C14_position_resets_total hl h₁ st₂
  -- the `go` line runs from `st₂'` as well: `doGo` is total
  obtain ⟨r, hr⟩ : ∃ r, uciStep ops st₂' g = .ok r := by
    rw [uciStep_go hg]
    unfold doGo
    cases st₂'.pos with
    | none => exact ⟨_, rfl⟩
    | some q =>
      obtain ⟨x, hx⟩ := UciTotal.goParams_total (!whiteTurn q) (ops.str.trimSpace (trimPrefix g Gen.uGo_bytes))
      simp only [hx]
      cases x <;> exact ⟨_, rfl⟩
  obtain ⟨st₂'', out₂⟩ := r
  obtain ⟨ho, p1, p2, hk⟩ := C14_go_params_depend_on_position_only hg hpos.symm h₁' hr
  subst ho
  obtain ⟨k1, k2⟩ := hk millis depth List.mem_cons_self
  exact ⟨st₂', st₂'', p, hs, hr, by rw [p1, hp], by rw [p2, hpos, hp], k1, k2⟩

/-- non-vacuity: the session `position startpos moves e2e4 e7e5`, `go depth 5` in a fresh process -/
example : ∃ st₁' st₁'' millis,
    hasPrefix (strBytes "position startpos moves e2e4 e7e5") Gen.uPosition_bytes = true ∧
    hasPrefix (strBytes "go depth 5") Gen.uGo_bytes = true ∧
    uciStep C17.demoOps UciState.init (strBytes "position startpos moves e2e4 e7e5") = .ok (st₁', []) ∧
    uciStep C17.demoOps st₁' (strBytes "go depth 5") = .ok (st₁'', [.searchStarted millis 5]) := by
  have h : (match uciRun C17.demoOps UciState.init [strBytes "position startpos moves e2e4 e7e5", strBytes "go depth 5"] with
      | .ok r => (match r.2 with | [[], [.searchStarted _ d]] => d == 5 | _ => false) | .error _ => false) = true := by
    decide +kernel
  unfold uciRun uciRun uciRun at h
  cases h1 : uciStep C17.demoOps UciState.init (strBytes "position startpos moves e2e4 e7e5") with
  | error e => rw [h1] at h; cases h
  | ok r1 =>
    rw [h1] at h
    simp only [UciTotal.ok_bind] at h
    cases h2 : uciStep C17.demoOps r1.1 (strBytes "go depth 5") with
    | error e => rw [h2] at h; cases h
    | ok r2 =>
      rw [h2] at h
      simp only [UciTotal.ok_bind, UciTotal.pure_bind'] at h
      obtain ⟨s1, o1⟩ := r1
      obtain ⟨s2, o2⟩ := r2
      match o1, o2, h with
      | [], [.searchStarted m d], h =>
        have hd : d = 5 := by simpa [pure, Except.pure] using h
        subst hd
        exact ⟨s1, s2, m, by decide +kernel, by decide +kernel, rfl, h2⟩

/-! ## the search itself -/

/-- **C14, the analysis is a function of position and depth.** Two searches started from the same position, the
    same killer table (`Killers.empty` after a `position` command, by `C14_position_resets`), the same depth limit
    and the same oracles, but
    * on PV buffers of different contents `rows` / `rows'` and different stale header lengths `len0` / `len0'`
      (same shape: the table is allocated once), and
    * under different non-zero values of the option `currmoveLogInterval`
    both succeed and print the same lines in the same order, `currmove` lines apart; node count and the stored
    best line are the same.

    Hypotheses exactly as `Capstone.C14_rows_indep_G` and `C14Log.C14_logInterval_indep` need them: `p` is a good
    position (`Total.G`: well-formed, side not to move not in check — the start position, every loaded FEN, and
    closed under legal moves), the blend is bounded, the sort permutes, the table has at most 10 000 rows, the
    second option value is not zero (the first run is assumed to succeed, so its value did not make it panic). -/
theorem C14_analysis_function_of_position_and_depth {env env' : Env} {qfuel : Nat} {p : Position} {maxDepth : Nat}
    {killers : Killers} {rows rows' : Array (Array Move)} {len0 len0' : Nat} {s : SS}
    (hg : Total.G p) (hb : Lemmas.EvalBound.BlendBounded env.blend Lemmas.EvalBound.pstMaxAbs)
    (hsort : Lemmas.AlphaBeta.PermSort env)
    (hsz : rows.size = rows'.size) (hrow : ∀ i : Nat, (rows[i]?).map (·.size) = (rows'[i]?).map (·.size))
    (h10 : rows.size ≤ 10000)
    (hnz : env'.logInterval ≠ 0) (henv : env' = { env with logInterval := env'.logInterval })
    (h : iterDeep env qfuel p maxDepth killers rows len0 = .ok s) :
    ∃ s', iterDeep env' qfuel p maxDepth killers rows' len0' = .ok s' ∧
      s'.out.filter (fun e => !e.isCurrmove) = s.out.filter (fun e => !e.isCurrmove) ∧
      s'.nodes = s.nodes ∧ s'.cand = s.cand := by
  obtain ⟨s1, h1, ho, hs1⟩ := Capstone.C14_rows_indep_G (len0' := len0') hg hb hsort hsz hrow h10 h
  obtain ⟨s2, h2, o2, n2, c2⟩ := C14Log.C14_logInterval_indep hnz henv h1
  refine ⟨s2, h2, by rw [o2, ho], ?_, ?_⟩
  · rw [n2, hs1]
  · rw [c2, hs1]

/-- the same over an abstract set `G` of positions, with the hypotheses of `C14.C14_rows_indep` undischarged -/
theorem C14_analysis_function_of_position_and_depth_abs {env env' : Env} {G : Nat → Position → Prop} {qfuel : Nat}
    {p : Position} {maxDepth : Nat} {killers : Killers} {rows rows' : Array (Array Move)} {len0 len0' : Nat} {s : SS}
    (hsz : rows.size = rows'.size) (hrow : ∀ i : Nat, (rows[i]?).map (·.size) = (rows'[i]?).map (·.size))
    (hsort : Lemmas.AlphaBeta.PermSort env) (hp : G 0 p) (hcl : GenClosed G) (hfin : EvalFinite env G rows.size)
    (hnz : env'.logInterval ≠ 0) (henv : env' = { env with logInterval := env'.logInterval })
    (h : iterDeep env qfuel p maxDepth killers rows len0 = .ok s) :
    ∃ s', iterDeep env' qfuel p maxDepth killers rows' len0' = .ok s' ∧
      s'.out.filter (fun e => !e.isCurrmove) = s.out.filter (fun e => !e.isCurrmove) ∧
      s'.nodes = s.nodes ∧ s'.cand = s.cand := by
  obtain ⟨s1, h1, ho, hs1⟩ := C14.C14_rows_indep (len0' := len0') hsz hrow h hsort hp hcl hfin
  obtain ⟨s2, h2, o2, n2, c2⟩ := C14Log.C14_logInterval_indep hnz henv h1
  refine ⟨s2, h2, by rw [o2, ho], ?_, ?_⟩
  · rw [n2, hs1]
  · rw [c2, hs1]

open Magog.Capstone (noisyEnv) in
/-- non-vacuity: the run from the start position to full depth under `noisyEnv` (clock, stop channel and print gate
    firing at arbitrary consultations) on the fresh table with the default option value, against the run on a table
    filled with junk moves, another stale header length and the option value 10 -/
example : ∃ s s', iterDeep noisyEnv (Gen.maxQuiescenceDepth + 1) startPosition Gen.MaxSearchDepth Killers.empty
      (newRows noisyEnv.pvRows) 0 = .ok s ∧
    iterDeep { noisyEnv with logInterval := 10 } (Gen.maxQuiescenceDepth + 1) startPosition Gen.MaxSearchDepth
      Killers.empty ((newRows noisyEnv.pvRows).map fun r => r.map fun _ => (⟨1, 2, 3, 4⟩ : Move)) 5 = .ok s' ∧
    s'.out.filter (fun e => !e.isCurrmove) = s.out.filter (fun e => !e.isCurrmove) := by
  obtain ⟨s, hs⟩ := Props.C18Total.iterDeep_total_newRows (env := noisyEnv) (maxDepth := Gen.MaxSearchDepth)
    (qfuel := Gen.maxQuiescenceDepth + 1) Total.G_start Props.C18.killers_empty_size rfl rfl (by decide)
    (Nat.le_refl _) (Nat.le_refl _) (PvWitness.sortSound_of_perm (fun l => List.reverse_perm l)) 0
  obtain ⟨s', hs', ho, _⟩ := C14_analysis_function_of_position_and_depth (len0' := 5)
    (env' := { noisyEnv with logInterval := 10 })
    (rows' := (newRows noisyEnv.pvRows).map fun r => r.map fun _ => (⟨1, 2, 3, 4⟩ : Move))
    Total.G_start Lemmas.MateValue.demoBlend_bounded (fun l => List.reverse_perm l) (by simp)
    (fun i => by simp [Array.getElem?_map, Option.map_map, Function.comp_def])
    (by simp [newRows, noisyEnv, Lemmas.AlphaBeta.demoEnvLazy, Lemmas.AlphaBeta.demoEnv, Gen.pvRows]) (by decide) rfl hs
  exact ⟨s, s', hs, hs', ho⟩

end Magog.Props.C14Uci
