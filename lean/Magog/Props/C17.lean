import Magog.Model.Eval
import Magog.Model.Time

/-! Property C17 — theorems (see DESIGN §5). -/

namespace Magog.Props.C17

end Magog.Props.C17
