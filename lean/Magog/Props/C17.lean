import Magog.Lemmas.UciTotal
import Magog.Lemmas.FenCount
import Magog.Lemmas.Inv
import Magog.Lemmas.Total
import Magog.Lemmas.UciFenWitness

/-! Property C17 — no input line can crash the engine: the command interpreter is total on arbitrary
    byte strings.

`Model.uciStep ops st line` (Magog/Model/Uci.lean) models `ParseInputLine` of engine/uci.go branch by branch over
`Bytes = List Nat`; every index / slice expression, nil dereference and division of uci.go is an explicit
`Except.error (Panic.…)` in the model. The heavy engine operations are the parameter record `EngineOps`; the
Unicode-table-dependent library functions `strings.ToLower` / `strings.TrimSpace` are the parameter `ops.str`
about which NOTHING is assumed. The model is tied to the real code by `uci_diff.py` (sessions of
grammar-directed and random-byte lines, model vs `hdrv ucihex`).

* `uciStep_total`: for EVERY byte string `line`, every state satisfying `StateOk`, under the UCI precondition
  `Pre` (move lists of `position … moves` are legal at their positions — nothing else), the interpreter
  returns normally and keeps `StateOk` (in particular `currmoveLogInterval ≠ 0`, the divisor of the search).
  Hypothesis `OpsTotal ops G Legal`: the engine operations return normally on positions satisfying `G`
  (discharged by C08 / C02 / C18 for the real operations, see `modelOps_total`).
* `uciStep_total_apply`: the same with legality formalised through the model (`LegalByApply`: `applyMove` is
  `.ok` along the list and keeps `G`), where `OpsTotal`'s clause about `applyMove` is void.
* `session_total`, `session_keeps_answering`: any list of lines from the state of a fresh process; afterwards
  `isready` is still answered with `readyok`.
* `goTokens_total`: `doGo`'s token scanner + deadline arithmetic on every token list.
* `position_keeps_old`: a rejected FEN keeps the old position (also when followed by a move list).
* `modelOps_opsTotal`, `uciStep_total_model`, `session_total_model`: the same for the REAL engine operations
  (`modelOps`: `evaluate`, `perftDivide`, `tperftDivide`, `applyUciMove`, `parseFen` of the model) with NO hypothesis
  about the operations left — they are total on `Total.G p := Inv p ∧ MM.OppSafe p` (Props/C18Total.lean), and `G`
  holds of the start position, of every position the FEN loader accepts (C02.fen_inv, C08.fen_oppSafe) and after
  every legal move. The precondition is the ORIGINAL `Pre` / `SessionPre` (listed moves legal) — nothing about FENs.
  HISTORY: about the unrepaired engine the opposite was proved here — `modelOps_opsTotal_false : ¬ OpsTotal
  (modelOps blend tostr) G Legal` for every `G`, `Legal`, through `fen_check_witness`: the loader accepted
  `4k3/8/8/8/8/8/8/4RK2 w - - 0 1` (side not to move in check), the loaded position was well-formed, and `perft 3`
  on it panicked — so the theorems for the real operations carried an extra precondition `PreF` ("a FEN sent to the
  engine has the side not to move not in check"). The engine was repaired (the loader rejects such a FEN); both
  negative theorems are false about the repaired model and were removed, the caveat is gone.
* regression lines of the historical crashes, evaluated: `go depth`, `go wtime`, `go movestogo 0 wtime 1000`,
  `setoption name currmoveLogInterval value 0`, `eval` without a position, `position garbage moves e2e4`,
  `perft 250`, `perft -1`. -/

namespace Magog.Props.C17
open Magog Magog.Model Magog.UciTotal Magog.FenSpec

/-! ## the `go` scanner -/

/-- `doGo`'s token loop and deadline arithmetic return normally on EVERY token list (no `tokens[i+1]`
    index panic, no division by a zero `movestogo`). -/
theorem goTokens_total (blackToMove : Bool) (tokens : List Bytes) : ∃ r, goTokens blackToMove tokens = .ok r :=
  UciTotal.goTokens_total blackToMove tokens

theorem goParams_total (blackToMove : Bool) (goCommand : Bytes) : ∃ r, goParams blackToMove goCommand = .ok r :=
  UciTotal.goParams_total blackToMove goCommand

example : goTokens true [strBytes "depth"] = .ok none := by decide +kernel
example : goTokens false [strBytes "movestogo", strBytes "0", strBytes "wtime", strBytes "1000"] = .ok none := by
  decide +kernel
example : goTokens false [strBytes "wtime", strBytes "1000", strBytes "movestogo", strBytes "1"] = .ok (some ⟨950, 40⟩) := by
  decide +kernel

/-! ## one line -/

/-- **C17, one line.** For every byte string `line`: if the engine operations are total on `G`-positions,
    the state is well-formed and the line satisfies the UCI precondition, `ParseInputLine` returns normally
    and the state stays well-formed. -/
theorem uciStep_total {ops : EngineOps} {G : Position → Prop} {Legal : Position → Move → Prop}
    (ho : OpsTotal ops G Legal) {st : UciState} (hst : StateOk G st) (line : Bytes) (hpre : Pre ops Legal st line) :
    ∃ st' out, uciStep ops st line = .ok (st', out) ∧ StateOk G st' :=
  UciTotal.uciStep_total ho hst hpre

/-- the same with legality read through the model: every listed move applies without panic and keeps `G` -/
theorem uciStep_total_apply {ops : EngineOps} {G : Position → Prop}
    (start : G ops.startPos) (fen : ∀ s p, parseFen s = .ok (.ok p) → G p)
    (eval : ∀ p, G p → ∃ v, ops.evalOp p = .ok v)
    (perft : ∀ p d, G p → 0 < d → d < Gen.plyBufferCapacity → ∃ r, ops.perftDivOp p d = .ok r)
    (tperft : ∀ p d, G p → 0 < d → d < Gen.plyBufferCapacity → ∃ r, ops.tperftDivOp p d = .ok r)
    {st : UciState} (hst : StateOk G st) (line : Bytes) (hpre : Pre ops (LegalByApply ops G) st line) :
    ∃ st' out, uciStep ops st line = .ok (st', out) ∧ StateOk G st' :=
  UciTotal.uciStep_total (opsTotal_byApply start fen eval perft tperft) hst hpre

/-- every line that is not a `position` command satisfies the precondition -/
theorem pre_of_not_position {ops : EngineOps} {Legal : Position → Move → Prop} {st : UciState} {line : Bytes}
    (h : hasPrefix line Gen.uPosition_bytes = false) : Pre ops Legal st line :=
  UciTotal.pre_of_not_position h

/-- How the real engine operations enter: the hypotheses are statements about the existing model functions
    (`evaluate`, `perftDivide` over `perft`, `applyUciMove`, `parseFen`), to be supplied by C08 / C02 / C18. -/
theorem modelOps_total {blend : Blend} {tostr : Position → M Bytes} {G : Position → Prop} {Legal : Position → Move → Prop}
    (hstart : G startPosition) (hfen : ∀ s p, parseFen s = .ok (.ok p) → G p)
    (heval : ∀ p, G p → ∃ v, evaluate blend p 0 = .ok v)
    (hperft : ∀ p d, G p → 0 < d → d < Gen.plyBufferCapacity →
      ∃ r, perftDivide Killers.empty Gen.plyBufferCapacity p d = .ok r)
    (htperft : ∀ p d, G p → 0 < d → d < Gen.plyBufferCapacity →
      ∃ r, tperftDivide Killers.empty Gen.plyBufferCapacity p d = .ok r)
    (happly : ∀ p mv, G p → Legal p mv → ∃ p', applyUciMove p mv = .ok p' ∧ G p') :
    OpsTotal (modelOps blend tostr) G Legal :=
  ⟨hstart, hfen, heval, hperft, htperft, happly⟩

/-! ## sessions -/

/-- **C17, sessions.** From the state of a freshly started process, every finite list of byte strings whose
    `position … moves` commands list legal moves is processed without panic, one output list per line, and
    the final state is well-formed. -/
theorem session_total {ops : EngineOps} {G : Position → Prop} {Legal : Position → Move → Prop}
    (ho : OpsTotal ops G Legal) (lines : List Bytes) (hpre : SessionPre ops Legal UciState.init lines) :
    ∃ st' outs, uciRun ops UciState.init lines = .ok (st', outs) ∧ StateOk G st' ∧ outs.length = lines.length :=
  uciRun_total ho lines UciState.init (stateOk_init G) hpre

/-- `isready` is answered with `readyok` in every state (and allocates the search object if there is none). -/
theorem isready_answers (ops : EngineOps) (st : UciState) :
    uciStep ops st Gen.uIsReady_bytes = .ok ({ st with searchAllocated := true }, [.readyok]) := by
  rw [uciStep, if_pos (by decide)]
  rfl

/-- after any such session the engine still answers `isready` with `readyok` -/
theorem session_keeps_answering {ops : EngineOps} {G : Position → Prop} {Legal : Position → Move → Prop}
    (ho : OpsTotal ops G Legal) (lines : List Bytes) (hpre : SessionPre ops Legal UciState.init lines) :
    ∃ st' outs st'', uciRun ops UciState.init lines = .ok (st', outs) ∧
      uciStep ops st' Gen.uIsReady_bytes = .ok (st'', [.readyok]) ∧ StateOk G st'' := by
  obtain ⟨st', outs, h, hst, _⟩ := session_total ho lines hpre
  exact ⟨st', outs, _, h, isready_answers ops st', hst.1, hst.2⟩

/-! ### the hypotheses are satisfiable: a concrete session

`demoOps`: the real string functions, start position, FEN loader and `applyUciMove` of the model; evaluation and
perft are stubs (their totality on real positions is the business of C02 / C18). `DemoG` is the shared position
invariant `Inv` (or, for loaded positions, what C08 proves about them). The session mixes legal move lists
(incl. a double push, so `applyUciMove` reconstructs the en-passant square), malformed lines, boundary numerals,
a rejected FEN followed by a move list, and random bytes. -/

def demoOps : EngineOps :=
  { str := goStrEnv, startPos := startPosition, evalOp := fun _ => pure 0, perftDivOp := fun _ _ => pure [],
    tperftDivOp := fun _ _ => pure [], applyMove := applyUciMove, tostrOp := fun _ => pure [] }

def DemoG (p : Position) : Prop := Inv p ∨ FenInv p

theorem demoOps_total : OpsTotal demoOps DemoG (LegalByApply demoOps DemoG) :=
  opsTotal_byApply (Or.inl inv_startPosition)
    (fun s p h => by
      obtain ⟨r, hr, hspec⟩ := FenLemmas.parseFen_spec s
      rw [h] at hr
      cases hr
      exact Or.inr (hspec p rfl).1)
    (fun _ _ => ⟨0, rfl⟩) (fun _ _ _ _ _ => ⟨[], rfl⟩) (fun _ _ _ _ _ => ⟨[], rfl⟩)

def demoSession : List Bytes :=
  [strBytes "eval", strBytes "go depth", strBytes "position startpos moves e2e4 e7e5",
   strBytes "go depth", strBytes "go movestogo 0 wtime 1000", strBytes "setoption name currmoveLogInterval value 0",
   strBytes "position garbage moves e2e4", strBytes "perft 250", strBytes "perft -1", strBytes "perft 2",
   strBytes "position fen r3k2r/8/8/8/8/8/8/R3K2R w KQkq - 0 1 moves e1g1", strBytes "eval",
   strBytes "position startpos moves", strBytes "position  startpos   moves  e2e4", [255, 0, 300, 32, 9],
   strBytes "tostr", strBytes "stop", strBytes "isready", strBytes "stop", strBytes "quit"]

set_option maxRecDepth 100000 in
theorem demoSession_pre : SessionPre demoOps (LegalByApply demoOps DemoG) UciState.init demoSession :=
  sessionPre_of_B (g := invB) (fun _ h => Or.inl (inv_of_invB h)) demoSession UciState.init (by decide +kernel)

example : ∃ st' outs, uciRun demoOps UciState.init demoSession = .ok (st', outs) ∧ StateOk DemoG st' ∧
    outs.length = demoSession.length :=
  session_total demoOps_total demoSession demoSession_pre

example : Pre demoOps (LegalByApply demoOps DemoG) UciState.init (strBytes "position startpos moves g1f3") :=
  pre_of_preB (g := invB) (fun _ h => Or.inl (inv_of_invB h)) (by decide +kernel)

/-- the precondition is not vacuous: a move list with an illegal move fails the Boolean test
    (here the model of `ApplyUciMove` panics, as the real code does) -/
example : preB demoOps invB UciState.init (strBytes "position startpos moves e2e4 e1e8") = false := by decide +kernel

/-! ## a rejected FEN keeps the old position -/

/-- Whenever a `position` command answers `invalid FEN: …` — with or without a move list after the FEN — the
    current position, the option value, the search object and the quit flag are what they were: in particular a
    following move list was NOT applied to the old position. -/
theorem position_keeps_old {ops : EngineOps} {st st' : UciState} {line : Bytes} {out : List UOut} {e : FenError}
    (hline : hasPrefix line Gen.uPosition_bytes = true) (h : uciStep ops st line = .ok (st', out))
    (he : UOut.invalidFen e ∈ out) :
    st'.pos = st.pos ∧ st'.logInterval = st.logInterval ∧ st'.searchAllocated = st.searchAllocated ∧ st'.quit = st.quit := by
  rw [uciStep_position' hline] at h
  exact doPosition_keeps_old h he

/-! ## regression lines (the historical crashes), for ANY engine operations and ANY state

The string functions are the ones the driver runs (`ops.str = goStrEnv`); everything else is arbitrary. -/

section regression
variable (startPos : Position) (evalOp : Position → M Int) (perftDivOp tperftDivOp : Position → Nat → M (List (Move × Nat)))
  (applyMove : Position → Move → M Position) (tostrOp : Position → M Bytes)
  (pos : Option Position) (p : Position) (sa : Bool) (li : Int) (q : Bool) (k : Killers)

local notation "OPS" => (EngineOps.mk goStrEnv startPos evalOp perftDivOp tperftDivOp applyMove tostrOp)

theorem bytes_go_depth : strBytes "go depth" = [103, 111, 32, 100, 101, 112, 116, 104] := by decide +kernel
theorem bytes_go_wtime : strBytes "go wtime" = [103, 111, 32, 119, 116, 105, 109, 101] := by decide +kernel
theorem bytes_go_mtg0 : strBytes "go movestogo 0 wtime 1000" =
    [103, 111, 32, 109, 111, 118, 101, 115, 116, 111, 103, 111, 32, 48, 32, 119, 116, 105, 109, 101, 32, 49, 48, 48, 48] := by
  decide +kernel
theorem bytes_setoption0 : strBytes "setoption name currmoveLogInterval value 0" =
    [115, 101, 116, 111, 112, 116, 105, 111, 110, 32, 110, 97, 109, 101, 32, 99, 117, 114, 114, 109, 111, 118, 101, 76,
     111, 103, 73, 110, 116, 101, 114, 118, 97, 108, 32, 118, 97, 108, 117, 101, 32, 48] := by decide +kernel
theorem bytes_perft250 : strBytes "perft 250" = [112, 101, 114, 102, 116, 32, 50, 53, 48] := by decide +kernel
theorem bytes_perftm1 : strBytes "perft -1" = [112, 101, 114, 102, 116, 32, 45, 49] := by decide +kernel
theorem bytes_eval : strBytes "eval" = kwEval := by decide +kernel

/-- `go depth` (keyword without a value; was: index out of range [1] with length 1): no search is started,
    nothing changes except that the search object now exists -/
theorem go_depth_no_value :
    uciStep OPS ⟨some p, sa, li, q, k⟩ (strBytes "go depth") = .ok (⟨some p, true, li, q, k⟩, []) := by
  rw [bytes_go_depth]; rfl

/-- `go wtime` (was: index out of range) -/
theorem go_wtime_no_value :
    uciStep OPS ⟨some p, sa, li, q, k⟩ (strBytes "go wtime") = .ok (⟨some p, true, li, q, k⟩, []) := by
  rw [bytes_go_wtime]; rfl

/-- `go movestogo 0 wtime 1000` (was: integer divide by zero in `calcEndtime`): rejected, no search -/
theorem go_movestogo_zero :
    uciStep OPS ⟨some p, sa, li, q, k⟩ (strBytes "go movestogo 0 wtime 1000") = .ok (⟨some p, true, li, q, k⟩, []) := by
  rw [bytes_go_mtg0]; rfl

/-- `go …` before any position: a message, the state is unchanged (not even a search object is allocated) -/
theorem go_no_position :
    uciStep OPS ⟨none, sa, li, q, k⟩ (strBytes "go depth") = .ok (⟨none, sa, li, q, k⟩, [.noPositionGo]) := by
  rw [bytes_go_depth]; rfl

/-- `setoption name currmoveLogInterval value 0` (was: stored, then integer divide by zero in the search):
    the state is unchanged -/
theorem setoption_zero_ignored :
    uciStep OPS ⟨pos, sa, li, q, k⟩ (strBytes "setoption name currmoveLogInterval value 0") = .ok (⟨pos, sa, li, q, k⟩, []) := by
  rw [bytes_setoption0]; rfl

/-- `eval` before any position (was: nil dereference): a message, the state is unchanged -/
theorem eval_no_position :
    uciStep OPS ⟨none, sa, li, q, k⟩ (strBytes "eval") = .ok (⟨none, sa, li, q, k⟩, [.noPositionEval]) := by
  rw [bytes_eval]; rfl

/-- `perft 250` (depth beyond the generator's position stack): refused, the state is unchanged -/
theorem perft_250_refused :
    uciStep OPS ⟨pos, sa, li, q, k⟩ (strBytes "perft 250") = .ok (⟨pos, sa, li, q, k⟩, [.invalidDepth [50, 53, 48]]) := by
  rw [bytes_perft250]; rfl

/-- `perft -1`: refused, the state is unchanged -/
theorem perft_negative_refused :
    uciStep OPS ⟨pos, sa, li, q, k⟩ (strBytes "perft -1") = .ok (⟨pos, sa, li, q, k⟩, [.invalidDepth [45, 49]]) := by
  rw [bytes_perftm1]; rfl

/-- `position garbage moves e2e4` (was: nil dereference without a position; with an old position the moves
    were applied to it): the FEN is rejected with "not 6 fields", the moves are not applied, the state —
    whatever it was — is unchanged -/
theorem position_garbage_moves (st : UciState) :
    uciStep OPS st (strBytes "position garbage moves e2e4") = .ok (st, [.invalidFen .fields]) := by
  rw [uciStep_position (by decide +kernel) (by decide +kernel) (by decide +kernel) (by decide +kernel)]
  have hcmd : goStrEnv.trimSpace (trimPrefix (strBytes "position garbage moves e2e4") Gen.uPosition_bytes) =
      strBytes "garbage moves e2e4" := by decide +kernel
  show doPosition OPS st (goStrEnv.trimSpace (trimPrefix (strBytes "position garbage moves e2e4") Gen.uPosition_bytes)) = _
  rw [hcmd]
  have htake : goStrEnv.trimSpace ((strBytes "garbage moves e2e4").take 8) = strBytes "garbage" := by decide +kernel
  exact doPosition_rejected_moves (i := 8) (by decide +kernel)
    (by show hasPrefix (goStrEnv.trimSpace _) _ = false; rw [htake]; decide +kernel)
    (by show hasPrefix (goStrEnv.trimSpace _) _ = false; rw [htake]; decide +kernel)
    (by show parseFen (goStrEnv.trimSpace _) = _; rw [htake]; exact FenLemmas.rejectedWith_iff.1 (by decide +kernel))

end regression

/-- the regression lines on the operations the driver runs (`modelOps`), from a state with the start position -/
example (blend : Blend) (tostr : Position → M Bytes) (st : UciState) :
    uciStep (modelOps blend tostr) st (strBytes "position garbage moves e2e4") = .ok (st, [.invalidFen .fields]) :=
  position_garbage_moves _ _ _ _ _ _ st

example (blend : Blend) (tostr : Position → M Bytes) :
    uciStep (modelOps blend tostr) ⟨some startPosition, false, 1000000, false, Killers.empty⟩ (strBytes "go depth") =
      .ok (⟨some startPosition, true, 1000000, false, Killers.empty⟩, []) :=
  go_depth_no_value _ _ _ _ _ _ _ _ _ _ _

/-! ## the real engine operations: no hypothesis about the operations left

`Total.G p := Inv p ∧ MM.OppSafe p` (well-formed, the side not to move is not in check). Legality of a listed move
is `LegalGen`: the move string denotes a move of the pseudo-legal generator that `makeMove` accepts. The
precondition is `Pre` / `SessionPre` as for abstract operations. Definitions: `Magog/Lemmas/UciFen.lean`.

REMOVED (proved about the UNREPAIRED engine; they led to the repair of `NewPositionFromFen` and are false now):
  `modelOps_opsTotal_false : ¬ OpsTotal (modelOps blend tostr) G Legal`   (for every `G`, `Legal`)
  `fen_check_witness : ∃ p, parseFen (strBytes "4k3/8/8/8/8/8/8/4RK2 w - - 0 1") = .ok (.ok p) ∧ Inv p ∧
      ¬ MM.OppSafe p ∧ ∃ e, perftDivide Killers.empty Gen.plyBufferCapacity p 3 = .error e`
What is left of the witness: the loader rejects it (`fen_check_witness_rejected`), and the position itself, built
directly, still shows that `Inv` alone does not make perft total (`UciTotal.checkWitness_perft_panics`). -/

/-- the former defect witness is rejected by the loader in an orderly way (see C08.fen_oppSafe) -/
theorem fen_check_witness_rejected : parseFen (strBytes "4k3/8/8/8/8/8/8/4RK2 w - - 0 1") =
    .ok (.error (.invalid "side not to move in check")) :=
  UciTotal.fenCheckWitness_rejected

/-- **The operations are total.** Every field of `OpsTotal` holds for the model of the engine — evaluation
    (C18Total.evaluate_total), both perft drivers for every admitted depth (C18Total.perftDivide_total /
    tperftDivide_total), `ApplyUciMove` on legal moves (C18Total.applyUciMove_total), the start position, and EVERY
    position the FEN loader accepts (C02.fen_inv, C08.fen_oppSafe) — for every `blend` and every renderer `tostr`. -/
theorem modelOps_opsTotal (blend : Blend) (tostr : Position → M Bytes) :
    OpsTotal (modelOps blend tostr) Total.G LegalGen :=
  Total.modelOps_opsTotal blend tostr

/-- **C17, one line, real operations.** For every byte string `line`, every well-formed state, under the UCI
    precondition `Pre` (listed moves legal at their positions — nothing else) `ParseInputLine` over the model of the
    engine returns normally and keeps the state well-formed. No operation hypotheses, no condition on FENs. -/
theorem uciStep_total_model (blend : Blend) (tostr : Position → M Bytes) {st : UciState}
    (hst : StateOk Total.G st) (line : Bytes)
    (hpre : Pre (modelOps blend tostr) LegalGen st line) :
    ∃ st' out, uciStep (modelOps blend tostr) st line = .ok (st', out) ∧ StateOk Total.G st' :=
  uciStep_total (modelOps_opsTotal blend tostr) hst line hpre

/-- lines that are not `position` commands need no precondition at all -/
theorem uciStep_total_model_of_not_position (blend : Blend) (tostr : Position → M Bytes) {st : UciState}
    (hst : StateOk Total.G st) {line : Bytes} (h : hasPrefix line Gen.uPosition_bytes = false) :
    ∃ st' out, uciStep (modelOps blend tostr) st line = .ok (st', out) ∧ StateOk Total.G st' :=
  uciStep_total_model blend tostr hst line (pre_of_not_position h)

/-- **C17, sessions, real operations.** From the state of a fresh process every finite list of byte strings
    whose `position … moves` commands list legal moves is processed without panic. -/
theorem session_total_model (blend : Blend) (tostr : Position → M Bytes) (lines : List Bytes)
    (hpre : SessionPre (modelOps blend tostr) LegalGen UciState.init lines) :
    ∃ st' outs, uciRun (modelOps blend tostr) UciState.init lines = .ok (st', outs) ∧ StateOk Total.G st' ∧
      outs.length = lines.length :=
  session_total (modelOps_opsTotal blend tostr) lines hpre

/-- a concrete session on the real operations (blend = the midgame value, empty renderer): legal move lists incl.
    double pushes and castling, a FEN with the side to move in check (legal), the former witness FEN (side NOT to
    move in check: now answered with `invalid FEN`, whatever follows it), a rejected FEN followed by moves,
    `tperft`, `eval` before any position, malformed lines, random bytes. (The Boolean test of the precondition runs
    every line in the kernel to obtain the next state; `eval` / `perft` on a real position are left out of THIS
    list only because kernel evaluation of the `Int` tables takes half a minute — they are not `position` lines and
    need no precondition, see the next example.) -/
def modelSession : List Bytes :=
  [strBytes "eval", strBytes "position startpos moves e2e4 e7e5 g1f3", strBytes "go depth",
   strBytes "position fen r3k2r/8/8/8/8/8/8/R3K2R w KQkq - 0 1 moves e1g1 e8c8", strBytes "tperft 1",
   strBytes "position garbage moves e2e4", [255, 0, 300, 32, 9],
   strBytes "position fen 4k3/8/8/8/8/8/8/4RK2 b - - 0 1",
   strBytes "position fen 4k3/8/8/8/8/8/8/4RK2 w - - 0 1 moves e1e8", strBytes "tperft 1", strBytes "isready"]

set_option maxRecDepth 100000 in
theorem modelSession_pre :
    SessionPre (modelOps (fun _ mid _ => mid) (fun _ => pure [])) LegalGen UciState.init modelSession :=
  sessionPre_of_genB (kt := Killers.empty) modelSession UciState.init (by decide +kernel)

example : ∃ st' outs, uciRun (modelOps (fun _ mid _ => mid) (fun _ => pure [])) UciState.init modelSession =
    .ok (st', outs) ∧ StateOk Total.G st' ∧ outs.length = modelSession.length :=
  session_total_model _ _ modelSession modelSession_pre

/-- `eval`, `perft 199`, `tperft 199` on the start position, for every blend: total (no kernel evaluation involved) -/
example (blend : Blend) (tostr : Position → M Bytes) (line : Bytes)
    (hl : line = strBytes "eval" ∨ line = strBytes "perft 199" ∨ line = strBytes "tperft 199") :
    ∃ st' out, uciStep (modelOps blend tostr) ⟨some startPosition, true, 1000000, false, Killers.empty⟩ line =
      .ok (st', out) := by
  have hst : StateOk Total.G ⟨some startPosition, true, 1000000, false, Killers.empty⟩ :=
    ⟨fun p h => by cases h; exact Total.G_start, by decide, by decide, by decide⟩
  have hnp : hasPrefix line Gen.uPosition_bytes = false := by
    rcases hl with rfl | rfl | rfl <;> decide +kernel
  obtain ⟨st', out, h, _⟩ := uciStep_total_model_of_not_position blend tostr hst hnp
  exact ⟨st', out, h⟩

/-- the former witness line satisfies the precondition (the former `PreF` did not hold of it; now nothing is
    asked of a FEN) and is processed without panic -/
example : ∃ st' out, uciStep (modelOps (fun _ mid _ => mid) (fun _ => pure [])) UciState.init
    (strBytes "position fen 4k3/8/8/8/8/8/8/4RK2 w - - 0 1 moves e1e8") = .ok (st', out) := by
  obtain ⟨st', out, h, _⟩ := uciStep_total_model (fun _ mid _ => mid) (fun _ => pure []) (stateOk_init _)
    (strBytes "position fen 4k3/8/8/8/8/8/8/4RK2 w - - 0 1 moves e1e8")
    (pre_of_genB (kt := Killers.empty) (by decide +kernel))
  exact ⟨st', out, h⟩

/-- the precondition is not vacuous on the real operations: a move list with an illegal move fails the Boolean test -/
example : preFB (modelOps (fun _ mid _ => mid) (fun _ => pure [])) Killers.empty (fun _ => true) UciState.init
    (strBytes "position startpos moves e2e4 e1e8") = false := by decide +kernel

end Magog.Props.C17
