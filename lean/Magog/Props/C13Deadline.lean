import Magog.Lemmas.Deadline
import Magog.Lemmas.DeadlineGhost
import Magog.Lemmas.SearchExamples

/-! Property C13, "the deadline is honoured" — once the clock says the time is up the search starts no new sibling
    at any level, evaluates at most one more line, and announces the result of the last completed depth.

**The model.** The clock is the oracle `env.timeUp : Nat → Bool` over the consultation counter `s.tick` (one tick per
consultation of any oracle). `ClockMono env`: a clock that has answered `true` answers `true` ever after.
`Late env s`: as seen from `s` the deadline has passed (every clock consultation from now on answers `true`; under
`ClockMono` this is `env.timeUp s.tick = true`). The search reads the clock in five places, each right after a callee
returned: `qLoop`, `abLoop` (`pollAfterMove`), `rootLoop` after a child, `deepenLoop` and `iterDeep` after an
iteration. `s.nodes` counts evaluated nodes; only the node functions increment it (`quiescence` on entry, BEFORE any
clock test; terminal nodes of `alphaBeta` / `startAlphaBeta`), the loops never do.

**Proved (all FULL):**
* `deadline_honoured` — the whole run: for a monotone clock and a successful `iterDeep … = .ok s`, with `n₀` the node
  count at the moment the consultation counter first reaches a tick at which the clock answers `true`:
  `s.nodes ≤ n₀ + max qfuel 1`. `n₀` is the node count of an INTERMEDIATE state of the run, which the functional model
  does not expose (its functions return final states only); it is defined by the instrumented search `iterDeepG`
  (`Magog/Lemmas/DeadlineGhost.lean`): the functions of `Model/Search.lean` copied with a ghost `g : Option Nat`
  threaded through, set by `upd` after EVERY oracle consultation (and on the initial state) to the current node count
  the first time `env.timeUp s.tick` holds. The instrumentation is proved inert: whenever the model returns `s`,
  `iterDeepG` returns the same `s` (with the ghost) — the conclusion is stated about the model's own result.
  The bound `max qfuel 1` is what the code gives, not an artefact: the loops test the clock AFTER a child returns,
  not before the next one is entered, and the stop-channel / print-gate consultations advance the same counter; so a
  subtree can be entered in a late state, and `quiescence` counts its node on entry before it looks at the clock —
  one node per level of the leftmost line down to the end of the quiescence search. In the example below the
  deadline falls at 13 nodes and the run ends with 14.
* `no_new_sibling_after_timeup_qLoop / _abLoop / _rootLoop` (generic in `child`): when the child entered for a move
  returns in a late state the loop returns — `rest`, the remaining siblings, is dead code; the result is given
  explicitly and carries the child's node count.
* `no_new_iteration_after_timeup`: when an iteration returns in a late state `deepenLoop` discards it and returns the
  result of the last completed depth.
* `late_subtree_is_one_line_*`: a subtree ENTERED in a late state costs at most `max qfuel 1` evaluated nodes — the
  first move at every level down to the leaf and the leaf's leftmost quiescence line — and then every loop on the
  way back breaks.
* `search_started_after_deadline`: the depth-1 special case. Iteration 1 has no clock test before its first root move:
  a search whose deadline has passed when it starts still searches that move (one line), starts no second
  iteration, and announces `bestmove` with the depth-1 result.
* `deadline_honoured_at_iteration_boundary`: the deepening loop entered in a late state: at most `max qfuel 1` more
  nodes, best score and completed depth unchanged. -/

namespace Magog.Props.C13Deadline
open Magog Magog.Model

/-! ## the whole run -/

/-- **C13, the deadline is honoured.** Monotone clock, a successful search `iterDeep … = .ok s`. The instrumented
    search `iterDeepG` (the same search with a ghost that records the node count `n₀` at the moment the consultation
    counter first reaches a tick at which the clock answers `true`) returns the same final state `s`, and
    * if the deadline was reached during the run (`g = some n₀`): **at most `max qfuel 1` nodes were evaluated after
      it**, `s.nodes ≤ n₀ + max qfuel 1` — whatever the position, the depth limit, the other oracles, the point of
      the search at which the deadline falls;
    * otherwise (`g = none`) the clock would still answer `false` at the end of the run. -/
theorem deadline_honoured {env : Env} (hm : ClockMono env) {qfuel : Nat} {p : Position} {maxDepth : Nat}
    {killers : Killers} {rows : Array (Array Move)} {len0 : Nat} {s : SS}
    (h : iterDeep env qfuel p maxDepth killers rows len0 = .ok s) :
    ∃ g, iterDeepG env qfuel p maxDepth killers rows len0 = .ok (s, g) ∧
      (∀ n₀, g = some n₀ → s.nodes ≤ n₀ + max qfuel 1) ∧ (g = none → env.timeUp s.tick = false) :=
  iterDeepG_spec hm h

open SearchExamples in
set_option maxRecDepth 100000 in
/-- non-vacuity, and the bound is met with one node to spare: `go depth 3` on Ka1 v Kh8 with the clock running out at
    consultation 40 (in the middle of iteration 3): 13 nodes had been evaluated when the deadline was reached, the
    run ends with 14 (`qfuel = 3`); under the quiet oracle the deadline is never reached -/
example : ClockMono timedEnv ∧ (∃ s, iterDeep timedEnv 3 kkPos 3 Killers.empty (newRows 6) 6 = .ok s) ∧
    (∃ s, iterDeepG timedEnv 3 kkPos 3 Killers.empty (newRows 6) 6 = .ok (s, some 13) ∧ s.nodes = 14) ∧
    (∃ s, iterDeepG quietEnv 3 kkPos 2 Killers.empty (newRows 6) 6 = .ok (s, none)) := by
  have hmono : ClockMono timedEnv := fun a b hab h => by
    simp only [timedEnv, exEnv, decide_eq_true_eq] at h ⊢; omega
  obtain ⟨s, _, _, _, _, _, hs, _, _⟩ := endsWithBest_elim timed_run3
  refine ⟨hmono, ⟨s, hs⟩, ?_, ?_⟩
  · have hb : (match iterDeepG timedEnv 3 kkPos 3 Killers.empty (newRows 6) 6 with
        | .ok (s, g) => s.nodes == 14 && g == some 13 | .error _ => false) = true := by decide +kernel
    cases hr : iterDeepG timedEnv 3 kkPos 3 Killers.empty (newRows 6) 6 with
    | error e => rw [hr] at hb; cases hb
    | ok r =>
      obtain ⟨s', g⟩ := r
      rw [hr] at hb
      simp only [Bool.and_eq_true, beq_iff_eq] at hb
      obtain ⟨h1, h2⟩ := hb
      subst h2
      exact ⟨s', rfl, h1⟩
  · have hb : (match iterDeepG quietEnv 3 kkPos 2 Killers.empty (newRows 6) 6 with
        | .ok (_, g) => g == none | .error _ => false) = true := by decide +kernel
    cases hr : iterDeepG quietEnv 3 kkPos 2 Killers.empty (newRows 6) 6 with
    | error e => rw [hr] at hb; cases hb
    | ok r =>
      obtain ⟨s', g⟩ := r
      rw [hr] at hb
      simp only [beq_iff_eq] at hb
      subst hb
      exact ⟨s', rfl⟩

/-! ## no new sibling -/

/-- **`qLoop`.** The child entered for `mv` returns in a late state `s1` (`hl`): the loop returns the window `alpha`
    and line length `curLen` it was entered with, in the state `s1.afterBreak` (`s1`, plus the one clock consultation
    unless the stop flag is set); the siblings `rest` are never entered. For every `child`. -/
theorem no_new_sibling_after_timeup_qLoop {env : Env} {child : NodeFn} {p : Position} {idx depth : Nat} {beta : Int}
    {mv : RMove} {rest : List RMove} {alpha : Int} {curLen subLen : Nat} {s : SS} {q : Position}
    {v : Int} {sub' : Nat} {s1 : SS}
    (hcap : ¬ idx + 1 ≥ env.stackCap) (hmk : makeMove p mv.mov = .ok (q, true))
    (hch : child q (idx + 1) (depth + 1) (-beta) (-alpha) subLen s = .ok (v, sub', s1)) (hl : Late env s1) :
    qLoop env child p idx depth beta (mv :: rest) alpha curLen subLen s = .ok ⟨alpha, curLen, s1.afterBreak⟩ ∧
      s1.afterBreak.nodes = s1.nodes ∧ Late env s1.afterBreak :=
  ⟨qLoop_no_new_sibling hcap hmk hch hl, s1.afterBreak_nodes, hl.afterBreak⟩

/-- **`abLoop`.** The child entered for `mv` returns `x` in a late state: the loop returns `abAfterChild … x` — the
    fail-hard cut-off with its killer update, or the improved window followed by the break —; the siblings `rest`
    are never entered; the state returned has the child's node count and is late. For every `child`. -/
theorem no_new_sibling_after_timeup_abLoop {env : Env} {child : NodeFn} {p : Position} {idx depth : Nat} {beta : Int}
    {mv : RMove} {rest : List RMove} {alpha : Int} {curLen subLen : Nat} {s : SS} {q : Position}
    {x : Int × Nat × SS}
    (hni : s.interrupted = false) (hcap : ¬ idx + 1 ≥ env.stackCap) (hmk : makeMove p mv.mov = .ok (q, true))
    (hch : child q (idx + 1) (depth + 1) (-beta) (-alpha) subLen s = .ok x) (hl : Late env x.2.2) :
    abLoop env child p idx depth beta (mv :: rest) alpha curLen subLen s = abAfterChild p depth beta mv alpha curLen x ∧
      ∀ r, abAfterChild p depth beta mv alpha curLen x = .ok r → r.st.nodes = x.2.2.nodes ∧ Late env r.st :=
  ⟨abLoop_no_new_sibling hni hcap hmk hch hl, fun _ hr =>
    ⟨(abAfterChild_ok hr).1, hl.mono (abAfterChild_ok hr).2.1⟩⟩

/-- **`rootLoop`.** The child entered for the root move `mv` returns `x` in a late state: the root loop updates (and,
    gate permitting, prints) the best line if the move improved it, and returns; the remaining root moves are never
    searched; the state returned has the child's node count and is late. For every `child`. -/
theorem no_new_sibling_after_timeup_rootLoop {env : Env} {child : NodeFn} {p : Position} {target : Nat}
    {mv : RMove} {rest : List RMove} {alpha : Int} {curLen subLen : Nat} {s : SS} {q : Position}
    {x : Int × Nat × SS}
    (hni : s.interrupted = false) (hcap : ¬ 1 ≥ env.stackCap) (hmk : makeMove p mv.mov = .ok (q, true))
    (hch : child q 1 1 (-(Gen.InfinityScore : Int)) (-alpha) subLen s = .ok x) (hl : Late env x.2.2) :
    rootLoop env child p target (mv :: rest) alpha curLen subLen s = rootAfterChild env target mv alpha curLen x ∧
      ∀ r, rootAfterChild env target mv alpha curLen x = .ok r → r.st.nodes = x.2.2.nodes ∧ Late env r.st :=
  ⟨rootLoop_no_new_sibling hni hcap hmk hch hl, fun _ hr =>
    ⟨(rootAfterChild_ok hr).1, hl.mono (rootAfterChild_ok hr).2.1⟩⟩

open SearchExamples in
/-- non-vacuity of the three: Ka1 v Kh8, the move Ka1–a2 followed by two siblings, a clock that is up, a child that
    returns at once (the hypotheses are satisfied; the conclusions then give the explicit results) -/
example :
    let env := exEnv (fun _ => true) (fun _ => false)
    let child : NodeFn := fun _ _ _ _ _ l s => pure (0, l, s)
    let mv : RMove := ⟨⟨0, 0x10, 0, Gen.InvalidSquare⟩, 0, false⟩
    let rest : List RMove := [⟨⟨0, 0x11, 0, Gen.InvalidSquare⟩, 0, false⟩, ⟨⟨0, 0x01, 0, Gen.InvalidSquare⟩, 0, false⟩]
    ∃ q, makeMove kkPos mv.mov = .ok (q, true) ∧ ¬ 0 + 1 ≥ env.stackCap ∧ freshSS.interrupted = false ∧
      child q 1 1 (-5) (-3) 0 freshSS = .ok (0, 0, freshSS) ∧ Late env freshSS ∧
      qLoop env child kkPos 0 0 5 (mv :: rest) 3 0 0 freshSS = .ok ⟨3, 0, freshSS.consult⟩ := by
  intro env child mv rest
  have hmk : (match makeMove kkPos mv.mov with | .ok (_, b) => b | .error _ => false) = true := by decide +kernel
  cases hm : makeMove kkPos mv.mov with
  | error e => rw [hm] at hmk; cases hmk
  | ok r =>
    obtain ⟨q, b⟩ := r
    rw [hm] at hmk
    dsimp only at hmk
    subst hmk
    have hl : Late env freshSS := fun _ _ => rfl
    refine ⟨q, rfl, by decide, rfl, rfl, hl, ?_⟩
    exact (no_new_sibling_after_timeup_qLoop (child := child) (rest := rest) (by decide) hm rfl hl).1

/-! ## no new iteration -/

/-- **`deepenLoop`.** The iteration at depth `cur` returns in a late state: it is discarded (its score and line are
    not copied, nothing is printed for it), no deeper iteration is started, the loop returns the score `best` and
    the depth `done` of the last completed iteration, and no node is evaluated after the iteration returned. -/
theorem no_new_iteration_after_timeup {env : Env} {qfuel : Nat} {p : Position} {maxDepth n cur : Nat} {best : Int}
    {done len0 : Nat} {s : SS} {x : Int × Bool × Nat × SS}
    (hcur : ¬ cur > maxDepth) (hsab : startAlphaBeta env qfuel p cur len0 s = .ok x) (hl : Late env x.2.2.2) :
    deepenLoop env qfuel p maxDepth (n + 1) cur best done len0 s = .ok (best, done, x.2.2.2.consult) ∧
      x.2.2.2.consult.nodes = x.2.2.2.nodes :=
  ⟨deepenLoop_no_new_iteration hcur hsab hl, rfl⟩

open SearchExamples in
set_option maxRecDepth 100000 in
/-- non-vacuity: iteration 2 on Ka1 v Kh8 with the clock running out at consultation 5 returns in a late state -/
example : ∃ x, ¬ 2 > 3 ∧ startAlphaBeta earlyEnv 3 kkPos 2 6 freshSS = .ok x ∧ Late earlyEnv x.2.2.2 ∧
    deepenLoop earlyEnv 3 kkPos 3 (0 + 1) 2 17 1 6 freshSS = .ok (17, 1, x.2.2.2.consult) := by
  have hb : (match startAlphaBeta earlyEnv 3 kkPos 2 6 freshSS with
      | .ok x => earlyEnv.timeUp x.2.2.2.tick | .error _ => false) = true := by decide +kernel
  have hmono : ClockMono earlyEnv := fun a b hab h => by
    simp only [earlyEnv, exEnv, decide_eq_true_eq] at h ⊢; omega
  cases hx : startAlphaBeta earlyEnv 3 kkPos 2 6 freshSS with
  | error e => rw [hx] at hb; cases hb
  | ok x =>
    rw [hx] at hb
    have hl : Late earlyEnv x.2.2.2 := late_of_timeUp hmono hb (Nat.le_refl _)
    exact ⟨x, by decide, rfl, hl, (no_new_iteration_after_timeup (by decide) hx hl).1⟩

/-! ## a subtree entered after the deadline is one line -/

/-- a quiescence node entered in a late state: itself and its first capture, recursively — at most `fuel` nodes -/
theorem late_subtree_is_one_line_quiescence {env : Env} {fuel : Nat} {p : Position} {idx depth : Nat}
    {alpha beta : Int} {curLen : Nat} {s : SS} {v : Int} {l : Nat} {s' : SS} (hl : Late env s)
    (h : quiescence env fuel p idx depth alpha beta curLen s = .ok (v, l, s')) :
    s'.nodes ≤ s.nodes + fuel ∧ Late env s' :=
  ⟨quiescence_late_nodes fuel hl h, hl.mono (quiescence_frame (tickLe_rel env) fuel _ _ _ _ _ _ _ _ _ _ h)⟩

/-- an alpha-beta node entered in a late state, whatever its remaining depth `rem`: at most `max qfuel 1` nodes -/
theorem late_subtree_is_one_line_alphaBeta {env : Env} {qfuel rem : Nat} {p : Position} {idx depth : Nat}
    {alpha beta : Int} {curLen : Nat} {s : SS} {v : Int} {l : Nat} {s' : SS} (hl : Late env s)
    (h : alphaBeta env qfuel rem p idx depth alpha beta curLen s = .ok (v, l, s')) :
    s'.nodes ≤ s.nodes + max qfuel 1 ∧ Late env s' :=
  ⟨alphaBeta_late_nodes rem hl h, hl.mono (alphaBeta_frame (tickLe_rel env) qfuel rem _ _ _ _ _ _ _ _ _ _ h)⟩

/-- an iteration entered in a late state, whatever its target depth: at most `max qfuel 1` nodes -/
theorem late_subtree_is_one_line_iteration {env : Env} {qfuel : Nat} {p : Position} {target curLen : Nat} {s : SS}
    {v : Int} {one : Bool} {l : Nat} {s' : SS} (hl : Late env s)
    (h : startAlphaBeta env qfuel p target curLen s = .ok (v, one, l, s')) :
    s'.nodes ≤ s.nodes + max qfuel 1 ∧ Late env s' :=
  ⟨startAlphaBeta_late_nodes hl h, hl.mono (startAlphaBeta_frame (tickLe_rel env) h)⟩

/-- The deepening loop entered in a late state (the deadline passed at an iteration boundary or before): at most
    `max qfuel 1` more nodes are evaluated — the one line of the iteration it still starts —, that iteration is
    discarded, and the score and depth of the last completed iteration stand. -/
theorem deadline_honoured_at_iteration_boundary {env : Env} {qfuel : Nat} {p : Position} {maxDepth n cur : Nat} {best : Int}
    {done len0 : Nat} {s : SS} {best' : Int} {done' : Nat} {s' : SS} (hl : Late env s)
    (h : deepenLoop env qfuel p maxDepth n cur best done len0 s = .ok (best', done', s')) :
    best' = best ∧ done' = done ∧ s'.nodes ≤ s.nodes + max qfuel 1 :=
  deepenLoop_late hl h

open SearchExamples in
set_option maxRecDepth 100000 in
/-- non-vacuity: the deepening loop on Ka1 v Kh8 from the fresh state with a clock that is up succeeds -/
example : Late (exEnv (fun _ => true) (fun _ => false)) freshSS ∧
    ∃ r, deepenLoop (exEnv (fun _ => true) (fun _ => false)) 3 kkPos 3 3 2 17 1 6 freshSS = .ok r := by
  refine ⟨fun _ _ => rfl, ?_⟩
  have hb : (match deepenLoop (exEnv (fun _ => true) (fun _ => false)) 3 kkPos 3 3 2 17 1 6 freshSS with
      | .ok _ => true | .error _ => false) = true := by decide +kernel
  cases hr : deepenLoop (exEnv (fun _ => true) (fun _ => false)) 3 kkPos 3 3 2 17 1 6 freshSS with
  | error e => rw [hr] at hb; cases hb
  | ok r => exact ⟨r, rfl⟩

/-! ## the depth-1 special case -/

/-- **A search started after its deadline** (monotone clock, `true` from the first consultation on — e.g. `go movetime`
    below the safety margin, where `doGo` computes a negative thinking time). Iteration 1 has no clock test before
    its first root move, so that move IS searched — one line, at most `max qfuel 1` evaluated nodes in all —; no
    other root move and no second iteration is started; the search announces `bestmove m` with the `info` line of
    depth 1 (or `bestmove 0000` when the root has no legal move). -/
theorem search_started_after_deadline {env : Env} {qfuel : Nat} {p : Position} {maxDepth : Nat} {killers : Killers}
    {rows : Array (Array Move)} {len0 : Nat} {s : SS} (hm : ClockMono env) (h0 : env.timeUp 0 = true)
    (h : iterDeep env qfuel p maxDepth killers rows len0 = .ok s) :
    s.nodes ≤ max qfuel 1 ∧
    ((∃ score rest, s.out = .bestmoveNone :: .infoTerminal score :: rest) ∨
     (∃ m best pv rest, s.out = .bestmove m :: .infoPv best 1 s.nodes pv :: rest)) :=
  iterDeep_late_start hm h0 h

open SearchExamples in
set_option maxRecDepth 100000 in
/-- non-vacuity: `go depth 3` on Ka1 v Kh8 with the clock up from the start: the run succeeds, evaluates exactly ONE
    node (against 12 for an unhurried depth-2 search, `C14Log`), and ends with `bestmove` after `info … depth 1` -/
example : ClockMono (exEnv (fun _ => true) (fun _ => false)) ∧
    (exEnv (fun _ => true) (fun _ => false)).timeUp 0 = true ∧
    ∃ s, run (exEnv (fun _ => true) (fun _ => false)) kkPos 3 = .ok s ∧ s.nodes = 1 := by
  refine ⟨fun _ _ _ _ => rfl, rfl, ?_⟩
  have hb : (match run (exEnv (fun _ => true) (fun _ => false)) kkPos 3 with
      | .ok s => s.nodes == 1 | .error _ => false) = true := by decide +kernel
  cases hr : run (exEnv (fun _ => true) (fun _ => false)) kkPos 3 with
  | error e => rw [hr] at hb; cases hb
  | ok s => rw [hr] at hb; exact ⟨s, rfl, by simpa using hb⟩

end Magog.Props.C13Deadline

namespace Magog.Props.C13Deadline

/-- **T1 tie of the clock polls.** The deadline theorems above are about a model that consults its clock oracle in
    `qLoop`, `abLoop`, `rootLoop` and the deepening loop. These four facts are extracted from the Go source on every
    run: each of `quiescence`, `alphaBeta`, `startAlphaBeta`, `StartIterativeDeepening` has a loop whose body tests
    `time.Now().After(deadline)` in an `if` that leaves the loop. If a clock poll disappears from the source the
    fact flips and this theorem (hence the property's proof module) no longer checks. -/
theorem clock_polls_present :
    Gen.clockPoll_quiescence = true ∧ Gen.clockPoll_alphaBeta = true ∧ Gen.clockPoll_startAlphaBeta = true ∧
      Gen.clockPoll_deepening = true := by decide

end Magog.Props.C13Deadline
