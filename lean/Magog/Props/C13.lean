import Magog.Model.Eval
import Magog.Model.Time

/-! Property C13 — theorems (see DESIGN §5). -/

namespace Magog.Props.C13

end Magog.Props.C13
