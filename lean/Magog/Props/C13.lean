import Magog.Model.Time

/-! Property C13 — time allotment is safe: taken from the mover's clock, bounded by the remaining time
    minus the safety margin (and at least 1 ms), monotone in remaining time and increment, antitone in
    moves-to-go; `movetime T` allots `T − margin`.

The model (`Model.allot`, `Model.goParams`) mirrors `calcEndtime` / `doGo` with Go's truncating division,
the explicit division-by-zero panic and explicit `int64` wrap-around (`wrap64`); the theorems hold on the
decidable range `|x| ≤ 2^42` ms (139 years), inside which no operation wraps. The safety margin is the
regenerated constant `Gen.antiflagMillis`. -/

namespace Magog.Props.C13
open Magog Magog.Model

/-- values a GUI can send: well inside int64 even after the ×10⁶ conversion to nanoseconds -/
def InRange (x : Int) : Prop := -4398046511104 ≤ x ∧ x ≤ 4398046511104

theorem wrap64_id {x : Int} (h1 : -9223372036854775808 ≤ x) (h2 : x < 9223372036854775808) : wrap64 x = x := by
  unfold wrap64; omega

/-- the allotment as plain integer arithmetic -/
def allotPure (left inc m : Int) : Int :=
  max ((if left > inc then min (left.tdiv m + inc) left else left) - (Gen.antiflagMillis : Int)) 1

theorem tdiv_bounds {a m : Int} (hm : 0 < m) : (0 ≤ a → 0 ≤ a.tdiv m ∧ a.tdiv m ≤ a) ∧ (a ≤ 0 → a ≤ a.tdiv m ∧ a.tdiv m ≤ 0) := by
  constructor
  · intro ha
    refine ⟨?_, Int.tdiv_le_self m ha⟩
    rw [Int.tdiv_eq_ediv_of_nonneg ha]; exact Int.ediv_nonneg ha (Int.le_of_lt hm)
  · intro ha
    have h1 : (-a).tdiv m ≤ -a := Int.tdiv_le_self m (by omega)
    have h2 : 0 ≤ (-a).tdiv m := by
      rw [Int.tdiv_eq_ediv_of_nonneg (by omega)]; exact Int.ediv_nonneg (by omega) (Int.le_of_lt hm)
    rw [Int.neg_tdiv] at h1 h2
    omega

/-- In range and with a non-zero divisor the model does not panic and computes `allotPure` of the
    mover's own clock. -/
theorem allot_eq (black : Bool) (bl bi wl wi m : Int)
    (hbl : InRange bl) (hbi : InRange bi) (hwl : InRange wl) (hwi : InRange wi) (hm : 0 < m) :
    allot black bl bi wl wi m =
      .ok (allotPure (if black then bl else wl) (if black then bi else wi) m) := by
  unfold InRange at *
  have key : ∀ left inc : Int, InRange left → InRange inc →
      (do
        let forMove ← if left > inc then do
                        let q ← goDiv left m
                        pure (min (wrap64 (q + inc)) left)
                      else (pure left : M Int)
        let forMove := wrap64 (forMove - Gen.antiflagMillis)
        pure (max forMove 1) : M Int) = .ok (allotPure left inc m) := by
    intro left inc hl hi
    unfold InRange at hl hi
    have hb := @tdiv_bounds left m hm
    have hq : -4398046511104 ≤ left.tdiv m ∧ left.tdiv m ≤ 4398046511104 := by
      rcases Int.le_total 0 left with h | h
      · have := hb.1 h; omega
      · have := hb.2 h; omega
    have hmne : (m == 0) = false := by simp; omega
    unfold allotPure goDiv
    simp only [hmne, Bool.false_eq_true, ↓reduceIte, Gen.antiflagMillis]
    by_cases hgt : left > inc
    · simp only [hgt, ↓reduceIte, bind, Except.bind, pure, Except.pure]
      rw [wrap64_id (x := left.tdiv m) (by omega) (by omega)]
      rw [wrap64_id (x := left.tdiv m + inc) (by omega) (by omega)]
      rw [wrap64_id (by omega) (by omega)]
    · simp only [hgt, ↓reduceIte, bind, Except.bind, pure, Except.pure]
      rw [wrap64_id (by omega) (by omega)]
  cases black
  · simpa [allot] using key wl wi hwl hwi
  · simpa [allot] using key bl bi hbl hbi

/-- **own clock**: the other side's clock and increment do not occur in the result -/
theorem allot_own_clock (bl bi wl wi wl' wi' bl' bi' m : Int) :
    allot true bl bi wl wi m = allot true bl bi wl' wi' m ∧
    allot false bl bi wl wi m = allot false bl' bi' wl wi m := by
  constructor <;> simp [allot]

/-- **bounds**: at least 1 ms and never beyond the remaining time minus the safety margin -/
theorem allot_bounds (left inc m : Int) :
    1 ≤ allotPure left inc m ∧ allotPure left inc m ≤ max 1 (left - (Gen.antiflagMillis : Int)) := by
  unfold allotPure
  by_cases h : left > inc <;> simp only [h, ↓reduceIte] <;> omega

/-- **monotone in the remaining time** -/
theorem allot_mono_left (l l' inc m : Int) (hm : 0 < m) (h : l ≤ l') :
    allotPure l inc m ≤ allotPure l' inc m := by
  have hq : l.tdiv m ≤ l'.tdiv m := Int.tdiv_le_tdiv hm h
  have hb := @tdiv_bounds l m hm
  have hb' := @tdiv_bounds l' m hm
  unfold allotPure
  simp only [Gen.antiflagMillis]
  by_cases h1 : l > inc <;> by_cases h2 : l' > inc <;> simp only [h1, h2, ↓reduceIte]
  · omega
  · omega
  · -- l ≤ inc < l'
    rcases Int.le_total 0 l' with hp | hn
    · have := hb'.1 hp; omega
    · have := hb'.2 hn; omega
  · omega

/-- **monotone in the increment** -/
theorem allot_mono_inc (l inc inc' m : Int) (hm : 0 < m) (h : inc ≤ inc') :
    allotPure l inc m ≤ allotPure l inc' m := by
  have hb := @tdiv_bounds l m hm
  unfold allotPure
  simp only [Gen.antiflagMillis]
  by_cases h1 : l > inc <;> by_cases h2 : l > inc' <;> simp only [h1, h2, ↓reduceIte] <;> omega

theorem tdiv_antitone_divisor {a m m' : Int} (ha : 0 ≤ a) (hm : 0 < m) (h : m ≤ m') : a.tdiv m' ≤ a.tdiv m := by
  rw [Int.tdiv_eq_ediv_of_nonneg ha, Int.tdiv_eq_ediv_of_nonneg ha]
  have hm' : 0 < m' := by omega
  rw [Int.le_ediv_iff_mul_le hm]
  have h1 : a / m' * m' ≤ a := Int.ediv_mul_le a (by omega)
  have h2 : 0 ≤ a / m' := Int.ediv_nonneg ha (by omega)
  have h3 : a / m' * m ≤ a / m' * m' := Int.mul_le_mul_of_nonneg_left h h2
  omega

/-- **antitone in moves-to-go** (`movestogo ≥ 1`): more moves to go never yields more time -/
theorem allot_anti_mtg (l inc m m' : Int) (hm : 1 ≤ m) (h : m ≤ m') :
    allotPure l inc m' ≤ allotPure l inc m := by
  unfold allotPure
  simp only [Gen.antiflagMillis]
  by_cases h1 : l > inc <;> simp only [h1, ↓reduceIte]
  · rcases Int.le_total 0 l with hp | hn
    · have := @tdiv_antitone_divisor l m m' hp (by omega) h
      omega
    · -- non-positive remaining time: both sides are the minimum 1 ms
      have a := (@tdiv_bounds l m (by omega)).2 hn
      have b := (@tdiv_bounds l m' (by omega)).2 hn
      omega
  · omega

theorem goScan_movetime (s : Bytes) (rest : List Bytes) (a : GoAcc) (T : Int) (hs : atoi s = some T) :
    goScan (kwMoveTime :: s :: rest) a = .ok (.done { a with moveTime := T }) := by
  rw [goScan]
  simp only [beq_self_eq_true, ↓reduceIte, bind, Except.bind, pure, Except.pure, hs]

/-- **movetime**: `go movetime T` (any numeral `s` with `atoi s = T`, `T ≠ -1`: −1 is the engine's
    "not given" marker) allots exactly `T − margin` milliseconds, searches to the default maximal depth,
    and ignores every token after it. -/
theorem movetime_allot (black : Bool) (s : Bytes) (rest : List Bytes) (T : Int)
    (hs : atoi s = some T) (hT : InRange T) (hne : T ≠ -1) :
    goTokens black (kwMoveTime :: s :: rest) =
      .ok (some ⟨T - (Gen.antiflagMillis : Int), (Gen.MaxSearchDepth : Int)⟩) := by
  unfold InRange at hT
  have h1 : (T != -1) = true := by simp [hne]
  unfold goTokens
  rw [goScan_movetime s rest {} T hs]
  simp only [goFinish, bind, Except.bind, pure, Except.pure, ↓reduceIte, h1]
  simp only [Gen.antiflagMillis]
  rw [wrap64_id (x := T - ((50 : Nat) : Int)) (by omega) (by omega)]
  rw [wrap64_id (by omega) (by omega)]
  rw [Int.mul_tdiv_cancel _ (by decide)]

/-- the hypotheses are satisfiable on a non-trivial clock state, and the values are what the engine prints -/
example : InRange 60000 ∧ InRange 1000 ∧
    allot false 0 0 60000 1000 30 = .ok 2950 ∧ allot true 300 10 0 0 40 = .ok 1 ∧
    goTokens false [kwMoveTime, [49, 48, 48, 48]] = .ok (some ⟨950, 40⟩) := by
  refine ⟨by unfold InRange; omega, by unfold InRange; omega, by rfl, by rfl, ?_⟩
  exact movetime_allot false [49, 48, 48, 48] [] 1000 (by rfl) (by unfold InRange; omega) (by omega)

end Magog.Props.C13
