import Magog.Model.MainLoop

/-! Property C19 — the engine terminates on `quit` and on end of input.

The theorems are about the read-loop model instantiated with the loop shape *extracted from main.go on
this run*; they are stated for every command handler (`setsQuit` arbitrary except that it recognises
`quit`), every finite input and any state of the rest of the engine — a running search does not appear
because returning from `main` ends the process (run-time residue: process teardown is the OS's). -/

namespace Magog.Props.C19
open Magog Magog.Model

theorem shape_checks : sourceLoopShape.checksScan = true ∧ sourceLoopShape.checksQuit = true := by decide

theorem step_nil (sh : LoopShape) (h : sh.checksScan = true) (setsQuit : Bytes → Bool) (s : LoopState)
    (hs : s.input = []) : loopStep sh setsQuit s = .exited s := by
  unfold loopStep
  by_cases hq : (sh.checksQuit && s.quit) = true <;> simp [hq, hs, h]

theorem step_cons (sh : LoopShape) (setsQuit : Bytes → Bool) (s : LoopState) (l : Bytes) (rest : List Bytes)
    (hs : s.input = l :: rest) :
    loopStep sh setsQuit s = .exited s ∨
    loopStep sh setsQuit s = .running { quit := s.quit || setsQuit l, input := rest, handled := l :: s.handled } := by
  unfold loopStep
  by_cases hq : (sh.checksQuit && s.quit) = true <;> simp [hq, hs]

/-- general lemma: a loop that checks Scan's result exits after at most `input.length + 1` iterations -/
theorem run_exits_of_checksScan (sh : LoopShape) (h : sh.checksScan = true) (setsQuit : Bytes → Bool) :
    ∀ (s : LoopState), ∃ s', loopRun sh setsQuit (s.input.length + 1) s = .exited s' := by
  intro s
  generalize hn : s.input.length = n
  induction n generalizing s with
  | zero =>
    have : s.input = [] := List.eq_nil_of_length_eq_zero hn
    exact ⟨s, by simp [loopRun, step_nil sh h setsQuit s this]⟩
  | succ n ih =>
    match hs : s.input with
    | [] => simp [hs] at hn
    | l :: rest =>
      have hlen : rest.length = n := by simpa [hs] using hn
      rcases step_cons sh setsQuit s l rest hs with h1 | h1
      · exact ⟨s, by simp [loopRun, h1]⟩
      · obtain ⟨s', hs'⟩ := ih { quit := s.quit || setsQuit l, input := rest, handled := l :: s.handled } hlen
        exact ⟨s', by rw [loopRun, h1]; exact hs'⟩

/-- **EOF**: for every finite input, every handler and every initial flag, the process leaves the read
    loop (and `main` returns) after finitely many iterations -/
theorem C19_terminates_on_eof (setsQuit : Bytes → Bool) (lines : List Bytes) (q : Bool) :
    ∃ n s', loopRun sourceLoopShape setsQuit n ⟨q, lines, []⟩ = .exited s' := by
  obtain ⟨s', hs'⟩ := run_exits_of_checksScan sourceLoopShape shape_checks.1 setsQuit ⟨q, lines, []⟩
  exact ⟨_, s', hs'⟩

/-- **quit**: once the flag is set no further line is handled: the loop exits at the next condition test -/
theorem C19_quit_is_prompt (setsQuit : Bytes → Bool) (s : LoopState) (hq : s.quit = true) :
    loopStep sourceLoopShape setsQuit s = .exited s := by
  simp [loopStep, shape_checks.2, hq]

/-- **quit anywhere**: with `quit` as the k-th line, exactly the lines up to and including it are handled -/
theorem C19_quit_stops_reading (setsQuit : Bytes → Bool) (hquit : setsQuit quitBytes = true)
    (pre post : List Bytes) (hpre : ∀ l ∈ pre, setsQuit l = false) :
    ∃ s', loopRun sourceLoopShape setsQuit (pre.length + 2) ⟨false, pre ++ quitBytes :: post, []⟩ = .exited s' ∧
      s'.handled = quitBytes :: pre.reverse ∧ s'.input = post := by
  suffices h : ∀ (pre : List Bytes) (hd : List Bytes), (∀ l ∈ pre, setsQuit l = false) →
      ∃ s', loopRun sourceLoopShape setsQuit (pre.length + 2) ⟨false, pre ++ quitBytes :: post, hd⟩ = .exited s' ∧
        s'.handled = quitBytes :: (pre.reverse ++ hd) ∧ s'.input = post by
    simpa using h pre [] hpre
  intro pre
  induction pre with
  | nil =>
    intro hd _
    refine ⟨⟨true, post, quitBytes :: hd⟩, ?_, by simp, rfl⟩
    simp [loopRun, loopStep, shape_checks.2, hquit]
  | cons l pre ih =>
    intro hd hp
    have hl : setsQuit l = false := hp l (by simp)
    obtain ⟨s', h1, h2, h3⟩ := ih (l :: hd) (fun x hx => hp x (by simp [hx]))
    refine ⟨s', ?_, by simpa using h2, h3⟩
    simpa [loopRun, loopStep, shape_checks.2, hl] using h1

/-- the *negation* for the loop shape the original tree had (Scan's result ignored): at EOF the loop runs
    forever, handling empty lines — the defect repaired by the `fix:` commit for C19 -/
theorem spins_if_scan_ignored (setsQuit : Bytes → Bool) (hq : setsQuit [] = false) (n : Nat) :
    ∃ s', loopRun ⟨false, true⟩ setsQuit n ⟨false, [], []⟩ = .running s' ∧ s'.handled.length = n := by
  suffices h : ∀ n (hd : List Bytes), ∃ s', loopRun ⟨false, true⟩ setsQuit n ⟨false, [], hd⟩ = .running s' ∧
      s'.handled.length = n + hd.length by simpa using h n []
  intro n
  induction n with
  | zero => intro hd; exact ⟨_, rfl, by simp⟩
  | succ n ih =>
    intro hd
    obtain ⟨s', h1, h2⟩ := ih ([] :: hd)
    refine ⟨s', ?_, by simp at h2; omega⟩
    simpa [loopRun, loopStep, hq] using h1

/-- non-vacuity: a concrete session -/
example : loopRun sourceLoopShape (· == quitBytes) 3 ⟨false, [[105], quitBytes, [120]], []⟩ =
    .exited ⟨true, [[120]], [quitBytes, [105]]⟩ := by rfl

end Magog.Props.C19
