import Magog.Model.Eval
import Magog.Model.Time

/-! Property C19 — theorems (see DESIGN §5). -/

namespace Magog.Props.C19

end Magog.Props.C19
