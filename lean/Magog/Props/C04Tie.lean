import Magog.Lemmas.GoArith
import Magog.Props.C04

/-! C04 - move ordering inputs: Go's `pieceToScore` and the capture ranking expression at its three call sites (`appendCapture`, `appendMoveOrCapture`, `appendSlidingPieceMoveOrCapture`), int16 conversions included.

    Tie theorems: `Magog.Gen.Fn.*` is printed by the Go→Lean translator `harness/cmd/go2lean` from the current Go
    source on every run (T0); these theorems equate the translation with the hand-written model for **all**
    arguments, so the model's theorems about these functions hold of the code as translated. A change of the Go
    function changes the generated definition and this module is re-checked. -/

namespace Magog.Props.C04Tie
open Magog Magog.Lemmas.GoArith Magog.Gen.Fn

theorem pieceToScore_tie (p : Nat) :
    Gen.Fn.pieceToScore (p : Int) = (Model.pieceToScore p).mapError (fun _ => "panic") := by
  by_cases h : p = 1 ∨ p = 2 ∨ p = 4 ∨ p = 8 ∨ p = 16 ∨ p = 32
  · rcases h with h|h|h|h|h|h <;> subst h <;> rfl
  · have e1 : Gen.Fn.pieceToScore (p : Int) = .error "panic" := by
      unfold Gen.Fn.pieceToScore
      simp only [beq_iff_eq]
      repeat (rw [if_neg (by omega)])
      rfl
    have e2 : ∃ m, Model.pieceToScore p = .error m := by
      unfold Model.pieceToScore
      simp only [beq_iff_eq, Model.Pawn, Model.Knight, Model.Bishop, Model.Rook, Model.Queen, Model.King,
        Gen.Pawn, Gen.Knight, Gen.Bishop, Gen.Rook, Gen.Queen, Gen.King]
      repeat (rw [if_neg (by omega)])
      exact ⟨_, rfl⟩
    obtain ⟨m, e2⟩ := e2
    rw [e1, e2]; rfl

theorem pieceToScore_range {p : Nat} {v : Int} (h : Model.pieceToScore p = .ok v) : 0 ≤ v ∧ v ≤ 900 := by
  unfold Model.pieceToScore at h
  simp only [Gen.MaterialPawnScore, Gen.MaterialKnightScore, Gen.MaterialBishopScore, Gen.MaterialRookScore, Gen.MaterialQueenScore] at h
  repeat' split at h
  all_goals first | (cases h; omega) | (cases h)

/-- the capture ranking computed at the Go call sites is the model's (`captureRM`), int16 conversions included -/
theorem captureRanking_tie (mov : Model.Move) (attacker attacked : Nat) :
    Gen.Fn.appendCapture_ranking (attacked : Int) (attacker : Int)
      = ((Model.captureRM mov attacker attacked).mapError (fun _ => "panic")).map (·.ranking) := by
  unfold Gen.Fn.appendCapture_ranking Model.captureRM
  rw [pieceToScore_tie, pieceToScore_tie]
  cases ha : Model.pieceToScore attacked with
  | error e => rfl
  | ok a =>
    cases hb : Model.pieceToScore attacker with
    | error e => rfl
    | ok b =>
      have ra := pieceToScore_range ha
      have rb := pieceToScore_range hb
      simp only [Except.mapError, bind, Except.bind, pure, Except.pure, Except.map, Gen.rankingBonusTactical]
      rw [wrapS64_id (by omega) (by omega), wrapS16_id (x := a - b) (by omega) (by omega), wrapS16_id (by omega) (by omega)]
      rfl

theorem captureRanking_sites_agree (a b : Int) :
    Gen.Fn.appendMoveOrCapture_ranking a b = Gen.Fn.appendCapture_ranking a b ∧
    Gen.Fn.appendSlidingPieceMoveOrCapture_ranking a b = Gen.Fn.appendCapture_ranking a b := ⟨rfl, rfl⟩

example : Gen.Fn.appendCapture_ranking 16 1 = .ok 9800 ∧ Gen.Fn.appendCapture_ranking 1 16 = .ok 8200 := ⟨rfl, rfl⟩

end Magog.Props.C04Tie
