import Magog.Lemmas.MakeMoveAbsWitness

/-! Property C02, second half — "the engine's position is exactly the position the rules of chess
    define": the model's `makeMove` commutes with the abstraction `abs` to the specification,
    `abs p' = Spec.apply (abs p) (absMove m)`, for every move `m` the engine's generator emits
    (`MMAbs.Generated`) on a well-formed position (`Inv`).

    Piece placement (all 64 squares), side to move and en-passant target hold unconditionally.
    The four castling rights need one more hypothesis: the move does not capture the enemy king
    (`m.to ≠ (p.side (!whiteTurn p)).king`). FINDING: without it the equation is false on a well-formed
    position (`makeMove_abs_kingCapture_counterexample`): MakeMove clears an enemy castling right only
    when the destination is that side's a- or h-file corner, so a pseudo-legal capture of a king
    standing on its home square with a right still set keeps the right, while the rules (`touch` on
    e1/e8) remove it. Such a capture exists only when the side not to move is in check, which never
    happens in a position reached by legal play; `Inv` alone does not exclude it.

    How the model's flag clearing and the rules' `touch` coincide otherwise: a set flag implies king
    and rook at home (`Inv.castling`); the origin square holds a man of the mover, the destination
    does not; so `touch` on the mover's king/rook home square can only be the origin (= the model's
    "king moves" / "from own corner" tests), and `touch` on the enemy's king/rook home square can only
    be the destination, where only the rook corner is capturable without capturing the king
    (= the model's "to enemy corner" test). With the flag unset both sides are `false`. -/

namespace Magog.Props.C02Abs
open Magog Magog.Model Magog.MMAbs

variable {p : Position} {m : Move} {p' : Position} {b : Bool}

/-- Piece placement on all 64 squares: moved man, captured man gone, en-passant victim removed, rook
    relocated on castling, promotion piece placed with the mover's colour. -/
theorem makeMove_abs_board (hi : Inv p) (hg : Generated p m) (h : makeMove p m = .ok (p', b)) :
    (abs p').board = (Spec.apply (abs p) (absMove m)).board := by
  have hcase := generated_cases hi hg
  obtain ⟨fp, tp, hc⟩ := gen_common hi hcase
  exact abs_board_eq hi hcase hc h

example : (abs (after startPosition e2e4)).board
    = (Spec.apply (abs startPosition) (absMove e2e4)).board :=
  makeMove_abs_board inv_startPosition generated_e2e4 makeMove_e2e4

/-- The side to move flips. -/
theorem makeMove_abs_turn (hi : Inv p) (hg : Generated p m) (h : makeMove p m = .ok (p', b)) :
    (abs p').turn = (Spec.apply (abs p) (absMove m)).turn := by
  obtain ⟨fp, tp, hc⟩ := gen_common hi (generated_cases hi hg)
  exact abs_turn_flip hi hc h

example : (abs (after startPosition e2e4)).turn = .black ∧
    (Spec.apply (abs startPosition) (absMove e2e4)).turn = .black := by decide +kernel

/-- The en-passant target: the skipped square after a double push, none otherwise. -/
theorem makeMove_abs_ep (hi : Inv p) (hg : Generated p m) (h : makeMove p m = .ok (p', b)) :
    (abs p').ep = (Spec.apply (abs p) (absMove m)).ep := by
  have hcase := generated_cases hi hg
  obtain ⟨fp, tp, hc⟩ := gen_common hi hcase
  exact abs_ep_eq hi hcase hc h

example : (abs (after startPosition e2e4)).ep = some 20 ∧
    (Spec.apply (abs startPosition) (absMove e2e4)).ep = some 20 := by decide +kernel

/-- The four castling rights, for a move that does not capture the enemy king. -/
theorem makeMove_abs_castling (hi : Inv p) (hg : Generated p m)
    (hk : m.to ≠ (p.side (!whiteTurn p)).king) (h : makeMove p m = .ok (p', b)) :
    (abs p').wk = (Spec.apply (abs p) (absMove m)).wk ∧ (abs p').wq = (Spec.apply (abs p) (absMove m)).wq ∧
    (abs p').bk = (Spec.apply (abs p) (absMove m)).bk ∧ (abs p').bq = (Spec.apply (abs p) (absMove m)).bq := by
  obtain ⟨fp, tp, hc⟩ := gen_common hi (generated_cases hi hg)
  exact abs_castling_eq hi hc h hk

example : e2e4.to ≠ (startPosition.side (!whiteTurn startPosition)).king := by decide +kernel

/-- The mover's own two castling rights, unconditionally (`kFlagOf`/`qFlagOf (whiteTurn p)` are the
    mover's king-side / queen-side flag bits, i.e. the fields `wk, wq` of `abs` when White moves and
    `bk, bq` when Black moves; `touch` is the specification's test on the 0..63 square). -/
theorem makeMove_abs_castling_mover (hi : Inv p) (hg : Generated p m) (h : makeMove p m = .ok (p', b)) :
    (p'.flags &&& kFlagOf (whiteTurn p) != 0) =
      ((p.flags &&& kFlagOf (whiteTurn p) != 0) && !touch m (to64 (kingHome88 (whiteTurn p))) &&
        !touch m (to64 (rookK88 (whiteTurn p)))) ∧
    (p'.flags &&& qFlagOf (whiteTurn p) != 0) =
      ((p.flags &&& qFlagOf (whiteTurn p) != 0) && !touch m (to64 (kingHome88 (whiteTurn p))) &&
        !touch m (to64 (rookQ88 (whiteTurn p)))) := by
  obtain ⟨fp, tp, hc⟩ := gen_common hi (generated_cases hi hg)
  exact ⟨flag_cur_K hi hc h, flag_cur_Q hi hc h⟩

/-- What holds with no hypothesis beyond `Inv` and `Generated` (the full statement
    `abs p' = Spec.apply (abs p) (absMove m)` fails only in the two castling rights of the side *not*
    to move, and only when the move captures that side's king — see
    `makeMove_abs_kingCapture_counterexample`): piece placement, side to move, en-passant target and the
    mover's own two castling rights. -/
theorem makeMove_abs_partial (hi : Inv p) (hg : Generated p m) (h : makeMove p m = .ok (p', b)) :
    (abs p').board = (Spec.apply (abs p) (absMove m)).board ∧
    (abs p').turn = (Spec.apply (abs p) (absMove m)).turn ∧
    (abs p').ep = (Spec.apply (abs p) (absMove m)).ep ∧
    (if whiteTurn p then
      (abs p').wk = (Spec.apply (abs p) (absMove m)).wk ∧ (abs p').wq = (Spec.apply (abs p) (absMove m)).wq
    else
      (abs p').bk = (Spec.apply (abs p) (absMove m)).bk ∧ (abs p').bq = (Spec.apply (abs p) (absMove m)).bq) := by
  obtain ⟨fp, tp, hc⟩ := gen_common hi (generated_cases hi hg)
  exact ⟨makeMove_abs_board hi hg h, makeMove_abs_turn hi hg h, makeMove_abs_ep hi hg h,
    abs_castling_mover_eq hi hc h⟩

/-- non-vacuity, on the king-capture position itself: everything but Black's rights agrees -/
example : (abs (after kingCapturePos kingCaptureMove)).board
      = (Spec.apply (abs kingCapturePos) (absMove kingCaptureMove)).board ∧
    (abs (after kingCapturePos kingCaptureMove)).turn
      = (Spec.apply (abs kingCapturePos) (absMove kingCaptureMove)).turn :=
  let h := makeMove_abs_partial inv_kingCapturePos generated_kingCapture makeMove_kingCapture
  ⟨h.1, h.2.1⟩

/-- **C02 (second half).** On a well-formed position, for a generated move that does not capture the
    enemy king, the position `makeMove` returns abstracts to exactly the position the rules define.

    The statement without `hk` (`Inv p → Generated p m → makeMove p m = .ok (p', b) →
    abs p' = Spec.apply (abs p) (absMove m)`) is false: `makeMove_abs_kingCapture_counterexample`. -/
theorem makeMove_abs (hi : Inv p) (hg : Generated p m) (hk : m.to ≠ (p.side (!whiteTurn p)).king)
    (h : makeMove p m = .ok (p', b)) : abs p' = Spec.apply (abs p) (absMove m) := by
  obtain ⟨h3, h4, h5, h6⟩ := makeMove_abs_castling hi hg hk h
  exact pos_ext (makeMove_abs_board hi hg h) (makeMove_abs_turn hi hg h) h3 h4 h5 h6 (makeMove_abs_ep hi hg h)

/-- non-vacuity: 1.e4 from the initial position -/
example : abs (after startPosition e2e4) = Spec.apply (abs startPosition) (absMove e2e4) :=
  makeMove_abs inv_startPosition generated_e2e4 (by decide +kernel) makeMove_e2e4

example : (Spec.apply (abs startPosition) (absMove e2e4)).at 28 = some ⟨.white, .pawn⟩ ∧
    (Spec.apply (abs startPosition) (absMove e2e4)).at 12 = none ∧
    (abs (after startPosition e2e4)).at 28 = some ⟨.white, .pawn⟩ ∧
    (abs (after startPosition e2e4)).at 12 = none := by decide +kernel

/-- **Finding.** The hypothesis `hk` of `makeMove_abs` cannot be dropped: on the well-formed position
    `kingCapturePos` (White Ke1 Qe7, Black Ke8 Rh8, Black may still castle king side, White to move) the
    generated move Qe7xe8 is accepted by `makeMove`, and the resulting position keeps Black's king-side
    right while the rules remove it. -/
theorem makeMove_abs_kingCapture_counterexample :
    ∃ (p : Position) (m : Move) (p' : Position) (b : Bool),
      Inv p ∧ Generated p m ∧ makeMove p m = .ok (p', b) ∧ abs p' ≠ Spec.apply (abs p) (absMove m) := by
  refine ⟨kingCapturePos, kingCaptureMove, _, _, inv_kingCapturePos, generated_kingCapture,
    makeMove_kingCapture, fun heq => ?_⟩
  have h := kingCapture_bk
  rw [heq, h.2] at h
  exact absurd h.1 (by decide)

end Magog.Props.C02Abs
