import Magog.Lemmas.GoArith
import Magog.Props.C02

/-! C02 - castling rights spent by a move: the four corner tests of Go's `Position.MakeMove` (the statements between the
    mover update and the capture handling), translated as a function of the flags byte, the move's squares and the
    six context values.

    Tie theorem: `Magog.Gen.Fn.MakeMove_corners` is printed by the Go→Lean translator `harness/cmd/go2lean` from the
    current Go source on every run (T0); `corners_tie` equates it with the model's `mmCorners` for all arguments. Five
    seeded changes of earlier rounds (`C01-promotion-capture-keeps-castling-right`, `C02-corner-*`) edit exactly these
    statements. -/

namespace Magog.Props.C02Tie
open Magog Magog.Lemmas.GoArith Magog.Gen.Fn

theorem getFile_nat (s : Nat) (h : s < 256) : Gen.Fn.square_getFile (s : Int) = (Model.fileOf s : Int) := by
  have : ∀ s : Fin 256, Gen.Fn.square_getFile (s.val : Int) = (Model.fileOf s.val : Int) := by decide +kernel
  exact this ⟨s, h⟩
theorem getRank_nat (s : Nat) (h : s < 128) : Gen.Fn.square_getRank (s : Int) = (Model.rankOf s : Int) := by
  have : ∀ s : Fin 128, Gen.Fn.square_getRank (s.val : Int) = (Model.rankOf s.val : Int) := by decide +kernel
  exact this ⟨s, h⟩
theorem band_clear (x m : Nat) (hm : m < 256) : band (x : Int) (255 - (m : Int)) = (Model.clearBits x m : Int) := by
  have h255 : ∀ m : Fin 256, 255 - m.val = 255 ^^^ m.val := by decide +kernel
  have e : (255 - (m : Int)) = ((255 - m : Nat) : Int) := by omega
  unfold band Model.clearBits
  rw [e]
  simp only [Int.toNat_natCast, Int.ofNat_eq_natCast]
  rw [h255 ⟨m, hm⟩]

theorem corners_tie (flags : Nat) (m : Model.Move) (curRank enRank curK curQ enK enQ : Nat)
    (hf : m.frm < 128) (ht : m.to < 128) (h1 : curK < 256) (h2 : curQ < 256) (h3 : enK < 256) (h4 : enQ < 256) :
    Gen.Fn.MakeMove_corners flags curRank curQ curK enRank enQ enK m.frm m.to
      = (Model.mmCorners flags m curRank enRank curK curQ enK enQ : Int) := by
  unfold Gen.Fn.MakeMove_corners Model.mmCorners
  rw [getFile_nat m.frm (by omega), getFile_nat m.to (by omega), getRank_nat m.frm hf, getRank_nat m.to ht]
  simp only [band_clear _ _ h1, band_clear _ _ h2, band_clear _ _ h3, band_clear _ _ h4, Gen.A, Gen.H]
  have k : ∀ a b : Nat, (((a : Int) == (b : Int)) = (a == b)) := by
    intro a b; rw [Bool.eq_iff_iff]; simp only [beq_iff_eq]; omega
  have k0 : ∀ a : Nat, (((a : Int) == 0) = (a == 0)) := by intro a; exact k a 0
  have k7 : ∀ a : Nat, (((a : Int) == 7) = (a == 7)) := by intro a; exact k a 7
  simp only [k, k0, k7]
  rcases Bool.eq_false_or_eq_true (Model.fileOf m.frm == 0 && Model.rankOf m.frm == curRank) with ha | ha <;>
  rcases Bool.eq_false_or_eq_true (Model.fileOf m.frm == 7 && Model.rankOf m.frm == curRank) with hb | hb <;>
  rcases Bool.eq_false_or_eq_true (Model.fileOf m.to == 0 && Model.rankOf m.to == enRank) with hc | hc <;>
  rcases Bool.eq_false_or_eq_true (Model.fileOf m.to == 7 && Model.rankOf m.to == enRank) with hd | hd <;>
  simp only [ha, hb, hc, hd, Bool.false_eq_true, ↓reduceIte]

/-- Rh1xh8 with all four rights: both king-side rights go -/
example : Gen.Fn.MakeMove_corners 31 0 4 2 112 16 8 7 119 = 21 := by decide

end Magog.Props.C02Tie
