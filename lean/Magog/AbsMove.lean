import Magog.Abs

/-! Abstraction of an engine move to a specification move (core-only, next to `Magog/Abs.lean`). -/

namespace Magog
open Model

/-- the promotion field of an engine move (`0` = none, else the colourless kind bit) -/
def decodePromo (k : Nat) : Option Spec.Kind :=
  if k == 0 then none
  else if k == Model.Knight then some .knight
  else if k == Model.Bishop then some .bishop
  else if k == Model.Rook then some .rook
  else if k == Model.Queen then some .queen
  else none

/-- the specification move an engine move denotes (the engine's `ep` field is derived data) -/
def absMove (m : Model.Move) : Spec.Move := ⟨to64 m.frm, to64 m.to, decodePromo m.promo⟩

end Magog

