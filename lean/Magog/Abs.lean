import Magog.Model.Position
import Magog.Spec.Chess

/-! Abstraction from the engine model's position to the specification's position. -/

namespace Magog
open Model

def to88 (i : Nat) : Nat := (i / 8) * 16 + i % 8
def to64 (s : Nat) : Nat := (s >>> 4) * 8 + (s &&& 7)

def decodeKind (k : Nat) : Option Spec.Kind :=
  if k == Model.Pawn then some .pawn else if k == Model.Knight then some .knight
  else if k == Model.Bishop then some .bishop else if k == Model.Rook then some .rook
  else if k == Model.Queen then some .queen else if k == Model.King then some .king else none

def decodePiece (pc : Nat) : Option Spec.Man :=
  match decodeKind (pc &&& Model.Colorless) with
  | none => none
  | some k =>
    if pc &&& Model.WhiteBit != 0 then some ⟨.white, k⟩
    else if pc &&& Model.BlackBit != 0 then some ⟨.black, k⟩
    else none

def absBoard (b : Array Nat) : Array (Option Spec.Man) :=
  Array.ofFn (n := 64) fun i => decodePiece (b.getD (to88 i.val) 0)

def abs (p : Model.Position) : Spec.Pos :=
  { board := absBoard p.board,
    turn := if whiteTurn p then .white else .black,
    wk := p.flags &&& FWK != 0, wq := p.flags &&& FWQ != 0,
    bk := p.flags &&& FBK != 0, bq := p.flags &&& FBQ != 0,
    ep := if isValid p.ep then some (to64 p.ep) else none }

end Magog
