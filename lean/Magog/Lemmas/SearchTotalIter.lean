import Magog.Lemmas.SearchTotal

/-! Totality of the iterative-deepening driver (`deepenLoop`, `iterDeep`): property C18, search part, abstract
    form. Continues `SearchTotal.lean`. -/

namespace Magog.SearchTotal
open Magog Magog.Model

variable {env : Env} {G : Position → Prop} {μ : Position → Nat}

/-- a non-empty prefix of row 0 of a triangular table with at least one row is a non-empty line -/
theorem rowPrefix_ne_nil {s : SS} {D len : Nat} (hr : RowsTri s.rows D) (hD : 1 ≤ D) (hl : 1 ≤ len) :
    rowPrefix s 0 len ≠ [] := by
  have h0 : 0 < s.rows.size := by rw [hr.1]; exact hD
  have e : s.rows[0]? = some s.rows[0] := Array.getElem?_eq_getElem h0
  have hz := hr.2 0 _ e
  rw [rowPrefix_of_some e]
  intro hnil
  have := congrArg List.length hnil
  simp only [List.length_take, Array.length_toList, List.length_nil] at this
  omega

theorem printInfoAfterDepth_total {s : SS} (h : s.cand ≠ []) (score : Int) (depth : Nat) :
    printInfoAfterDepth s score depth = .ok { s with out := .infoDepth depth score s.nodes s.cand :: s.out } := by
  unfold printInfoAfterDepth
  rw [if_neg (by intro h0; exact h (List.isEmpty_iff.1 h0))]
  rfl

/-- the root has moves under every killer table of the allocated size, if it has moves under one table -/
theorem gen_ne_nil {p : Position} {kt0 kt : Killers} {ms0 ms : List RMove} (h0 : generateMoves kt0 p = .ok ms0)
    (hne : ms0 ≠ []) (h : generateMoves kt p = .ok ms) : ms ≠ [] := by
  have e := (Lemmas.KillerIndep.generateMoves_movs_indep kt0 kt p ms0 ms h0 h).1
  intro hnil
  subst hnil
  simp only [List.map_nil, List.map_eq_nil_iff] at e
  exact hne e

/-- the loop over iterations `cur, cur + 1, …` never panics and ends with a non-empty stored line -/
theorem deepenLoop_total (H : SearchOps env G μ) (hsort : SortSound env) (hlog : env.logInterval ≠ 0)
    {D qfuel maxDepth : Nat} (hq : Gen.maxQuiescenceDepth < qfuel) {p : Position} (hp : G p)
    (hD : max 1 maxDepth + Gen.maxQuiescenceDepth + 1 < D)
    (hst : max 1 maxDepth + Gen.maxQuiescenceDepth < env.stackCap)
    {kt0 : Killers} {ms0 : List RMove} (hg0 : generateMoves kt0 p = .ok ms0) (hne0 : ms0 ≠ []) :
    ∀ (n cur : Nat) (best : Int) (done len0 : Nat) (s : SS), 1 ≤ cur → 1 ≤ len0 → RowsTri s.rows D →
      s.killers.size = Gen.killerMovesMaxPly → s.cand ≠ [] →
      ∃ best' done' s', deepenLoop env qfuel p maxDepth n cur best done len0 s = .ok (best', done', s') ∧
        s'.cand ≠ [] := by
  intro n
  induction n with
  | zero =>
    intro cur best done len0 s _ _ _ _ hc
    exact ⟨best, done, s, rfl, hc⟩
  | succ n ih =>
    intro cur best done len0 s hcur hlen hr hk hc
    rw [deepenLoop_succ_eq]
    split
    · exact ⟨best, done, s, rfl, hc⟩
    rename_i hle
    obtain ⟨score, one, len, s1, hsab, hr1, hk1, hc1, ms, hms, _, hlen1⟩ :=
      startAlphaBeta_total H hsort hlog hq (p := p) cur len0 s hp hcur (by omega) (by omega) hr hk
    have hlen1' : 1 ≤ len := hlen1 (gen_ne_nil hg0 hne0 hms) hlen
    rw [hsab, ok_bind]
    dsimp only
    have hcand : s1.consult.cand ≠ [] := by
      show s1.cand ≠ []
      rw [hc1]; exact hc
    split
    · exact ⟨_, _, _, rfl, hcand⟩
    split
    · exact ⟨_, _, _, rfl, hcand⟩
    have hcb : (copyBestLine s1.consult len).cand ≠ [] :=
      rowPrefix_ne_nil (s := s1.consult) hr1 (by omega) hlen1'
    rw [printInfoAfterDepth_total hcb, ok_bind]
    split
    · exact ⟨_, _, _, rfl, hcb⟩
    split
    · exact ⟨_, _, _, rfl, hcb⟩
    exact ih (cur + 1) score cur len _ (by omega) hlen1' hr1 hk1 hcb

/-- C18 main theorem, abstract form: iterative deepening never panics, for every oracle -/
theorem iterDeep_total (H : SearchOps env G μ) (hsort : SortSound env) (hlog : env.logInterval ≠ 0)
    {p : Position} (hp : G p) {kt : Killers} (hk : kt.size = Gen.killerMovesMaxPly)
    {rows : Array (Array Move)} {D : Nat} (hrows : RowsTri rows D) {maxDepth qfuel : Nat}
    (hD : max 1 maxDepth + Gen.maxQuiescenceDepth + 1 < D)
    (hst : max 1 maxDepth + Gen.maxQuiescenceDepth < env.stackCap)
    (hq : Gen.maxQuiescenceDepth < qfuel) (len0 : Nat) :
    ∃ s, iterDeep env qfuel p maxDepth kt rows len0 = .ok s := by
  rw [iterDeep_eq]
  obtain ⟨score, one, len, s1, hsab, hr1, hk1, _, ms, hms, hnil, _⟩ :=
    startAlphaBeta_total H hsort hlog hq (p := p) 1 len0 (initSS rows kt) hp (Nat.le_refl _) (by omega) (by omega)
      hrows hk
  rw [hsab, ok_bind]
  dsimp only
  split
  · exact ⟨_, rfl⟩
  rename_i hne
  have hcb : (copyBestLine s1 len).cand ≠ [] := fun h0 => hne (List.isEmpty_iff.2 h0)
  have hlen : 1 ≤ len := by
    rcases Nat.eq_zero_or_pos len with h0 | h0
    · subst h0
      exact absurd (rowPrefix_zero s1 0) hcb
    · exact h0
  have hms' : ms ≠ [] := fun h0 => by have := hnil h0; omega
  have hdeep : ∃ y, deepenFrom env qfuel p maxDepth score one len (copyBestLine s1 len).consult = .ok y ∧
      y.2.2.cand ≠ [] := by
    unfold deepenFrom
    split
    · obtain ⟨b, d, s2, h2, hc2⟩ := deepenLoop_total H hsort hlog hq hp hD hst hms hms' maxDepth 2 score 1 len
        (copyBestLine s1 len).consult (by omega) hlen hr1 hk1 hcb
      exact ⟨_, h2, hc2⟩
    · exact ⟨_, rfl, hcb⟩
  obtain ⟨y, hy, hcy⟩ := hdeep
  rw [hy, ok_bind]
  cases hcc : y.2.2.cand with
  | nil => exact absurd hcc hcy
  | cons m tl => exact ⟨_, announce_eq hcc y.1 y.2.1⟩

/-! ### non-vacuity and the real constants -/

/-- the table `NewSearch` allocates has the triangular shape -/
example : RowsTri (newRows Gen.pvRows.toNat) Gen.pvRows.toNat := rowsTri_newRows _

/-- the deepest nominal search plus the quiescence bound fits into the PV table … -/
example : max 1 Gen.MaxSearchDepth + Gen.maxQuiescenceDepth + 1 < Gen.pvRows.toNat := by decide

/-- … and into the position stack -/
example : max 1 Gen.MaxSearchDepth + Gen.maxQuiescenceDepth < Gen.plyBufferCapacity := by decide

/-- the default environment uses exactly these capacities -/
example (env : Env) (h : env.stackCap = Gen.plyBufferCapacity) :
    max 1 Gen.MaxSearchDepth + Gen.maxQuiescenceDepth < env.stackCap := by rw [h]; decide

end Magog.SearchTotal
