import Magog.Lemmas.MakeMoveInv
import Magog.Lemmas.GenPure
import Magog.Lemmas.GenExamples

/-! Termination measure of the quiescence search: `mu p = 2·pawns + officers` (both sides) is bounded by
    `Gen.maxQuiescenceDepth` on a well-formed position, never increases under `makeMove`, and strictly
    decreases under every move of the tactical generator (a capture removes a man, a promotion turns a
    pawn of weight 2 into an officer of weight 1).

    Structure: (i) length effect of each `makeMove` stage, read off the stage text (no invariant needed);
    (ii) `makeMove` decomposed into its stages; (iii) what the tactical generator emits (`TacFact`);
    (iv) the enemy king is never the target (via `makeMove_spec`: the result is well-formed);
    (v) the theorems. -/

namespace Magog.TotalMeasure
open Magog Magog.Model Magog.MM Magog.Count Magog.Atk Magog.Geo

/-- 2·(pawns of both sides) + (knights, bishops, rooks, queens of both sides) -/
def mu (p : Position) : Nat :=
  2 * (p.whitePawns.length + p.blackPawns.length) + (p.whitePieces.length + p.blackPieces.length)

/-- one side's share of `mu` -/
def sideW (s : Side) : Nat := 2 * s.pawns.length + s.pieces.length

theorem mu_side (p : Position) (w : Bool) : mu p = sideW (p.side w) + sideW (p.side (!w)) := by
  cases w <;> simp only [mu, sideW, Position.side, Bool.not_false, Bool.not_true, if_true, Bool.false_eq_true,
    if_false] <;> omega

theorem mu_mkPos (p : Position) (w : Bool) (B : Array Nat) (cur en : Side) (f e : Nat) :
    mu (mkPos p w B cur en f e) = sideW cur + sideW en := by
  cases w <;> simp only [mu, sideW, mkPos, if_true, Bool.false_eq_true, if_false] <;> omega

theorem mu_le {p : Position} (hI : Inv p) : mu p ≤ Gen.maxQuiescenceDepth := by
  have h1 := hI.wpLen
  have h2 := hI.bpLen
  have h3 := hI.wLen
  have h4 := hI.bLen
  have e : Gen.maxQuiescenceDepth = 2 * (pawnCap + pieceCap) := by decide
  rw [e]
  unfold mu
  omega

/-! ### (i) the stages and the list lengths -/

theorem kill_len {l l' : List Nat} {a : Nat} {what : String} (h : kill l a what = .ok l') :
    l'.length + 1 = l.length := by
  unfold kill at h
  split at h
  · rename_i i hi
    obtain ⟨hil, _⟩ := List.idxOf?_eq_some_iff.mp hi
    simp only [pure_eq_ok, Except.ok.injEq] at h
    subst h
    simp only [List.length_dropLast, List.length_set]
    omega
  · rw [throw_eq_error] at h; cases h

/-- `mmMover` never lengthens the weighted lists -/
theorem mover_len {board : Array Nat} {flags : Nat} {cur : Side} {m : Move} {cc cr ck cq : Nat}
    {B1 : Array Nat} {f1 : Nat} {cur1 : Side}
    (h : mmMover board flags cur m cc cr ck cq = .ok (B1, f1, cur1)) : sideW cur1 ≤ sideW cur := by
  unfold mmMover at h
  simp only [bind_ok] at h
  obtain ⟨fp, _, h⟩ := h
  split at h
  · split at h
    · simp only [pure_eq_ok, Except.ok.injEq, Prod.mk.injEq] at h
      obtain ⟨_, _, rfl⟩ := h
      simp only [sideW, replaceFirst_length]
      omega
    · split at h
      · rename_i i hi
        obtain ⟨hil, _⟩ := List.idxOf?_eq_some_iff.mp hi
        simp only [bind_ok] at h
        obtain ⟨pcs, hpcs, h⟩ := h
        simp only [pure_eq_ok, Except.ok.injEq, Prod.mk.injEq] at h
        obtain ⟨_, _, rfl⟩ := h
        unfold appendCap at hpcs
        split at hpcs
        · simp only [pure_eq_ok, Except.ok.injEq] at hpcs
          subst hpcs
          simp only [sideW, List.length_dropLast, List.length_set, List.length_append, List.length_singleton]
          omega
        · rw [throw_eq_error] at hpcs; cases hpcs
      · simp only [pure_eq_ok, Except.ok.injEq, Prod.mk.injEq] at h
        obtain ⟨_, _, rfl⟩ := h
        exact Nat.le_refl _
  · split at h
    · split at h
      · split at h
        · simp only [bind_ok] at h
          obtain ⟨b1, _, b2, _, h⟩ := h
          simp only [pure_eq_ok, Except.ok.injEq, Prod.mk.injEq] at h
          obtain ⟨_, _, rfl⟩ := h
          simp only [sideW, replaceFirst_length]
          omega
        · split at h
          · simp only [bind_ok] at h
            obtain ⟨b1, _, b2, _, h⟩ := h
            simp only [pure_eq_ok, Except.ok.injEq, Prod.mk.injEq] at h
            obtain ⟨_, _, rfl⟩ := h
            simp only [sideW, replaceFirst_length]
            omega
          · simp only [pure_eq_ok, Except.ok.injEq, Prod.mk.injEq] at h
            obtain ⟨_, _, rfl⟩ := h
            exact Nat.le_refl _
      · simp only [pure_eq_ok, Except.ok.injEq, Prod.mk.injEq] at h
        obtain ⟨_, _, rfl⟩ := h
        exact Nat.le_refl _
    · simp only [pure_eq_ok, Except.ok.injEq, Prod.mk.injEq] at h
      obtain ⟨_, _, rfl⟩ := h
      simp only [sideW, replaceFirst_length]
      omega

/-- a pawn move: the board is untouched by `mmMover`; a promotion trades a pawn (2) for an officer (1) -/
theorem mover_pawn {board : Array Nat} {flags : Nat} {cur : Side} {m : Move} {cc cr ck cq : Nat}
    {B1 : Array Nat} {f1 : Nat} {cur1 : Side}
    (h : mmMover board flags cur m cc cr ck cq = .ok (B1, f1, cur1))
    (hfp : board[m.frm]? = some (Pawn ||| cc)) (hmem : m.frm ∈ cur.pawns) :
    B1 = board ∧ cur1.king = cur.king ∧ (m.promo ≠ 0 → sideW cur1 + 1 = sideW cur) ∧
      (m.to ∈ cur1.pawns ∨ m.to ∈ cur1.pieces) := by
  unfold mmMover at h
  simp only [bget_of_some hfp, ok_bind, beq_self_eq_true, if_true] at h
  obtain ⟨i, hi⟩ := idxOf?_of_mem hmem
  obtain ⟨hil, _⟩ := List.idxOf?_eq_some_iff.mp hi
  split at h
  · rename_i h0
    simp only [pure_eq_ok, Except.ok.injEq, Prod.mk.injEq] at h
    obtain ⟨rfl, _, rfl⟩ := h
    refine ⟨rfl, rfl, fun hp => absurd (by simpa using h0) hp, .inl ?_⟩
    show m.to ∈ replaceFirst cur.pawns m.frm m.to
    unfold replaceFirst
    rw [hi]
    exact List.mem_set hil _
  · simp only [hi, bind_ok] at h
    obtain ⟨pcs, hpcs, h⟩ := h
    simp only [pure_eq_ok, Except.ok.injEq, Prod.mk.injEq] at h
    obtain ⟨rfl, _, rfl⟩ := h
    unfold appendCap at hpcs
    split at hpcs
    · simp only [pure_eq_ok, Except.ok.injEq] at hpcs
      subst hpcs
      refine ⟨rfl, rfl, fun _ => ?_, .inr (by simp)⟩
      simp only [sideW, List.length_dropLast, List.length_set, List.length_append, List.length_singleton]
      omega
    · rw [throw_eq_error] at hpcs; cases hpcs

/-- the only board cells `mmMover` can change (the castling rook's squares) are on files a, d, f, h -/
theorem castle_cell_ne {s cr : Nat} (hcr : cr = Gen.Rank1 ∨ cr = Gen.Rank8)
    (hs : fileOf s = Gen.C ∨ fileOf s = Gen.G ∨ fileOf s = Gen.E) :
    s ≠ (Gen.A + cr) % 256 ∧ s ≠ (Gen.D + cr) % 256 ∧ s ≠ (Gen.H + cr) % 256 ∧ s ≠ (Gen.F + cr) % 256 := by
  refine ⟨?_, ?_, ?_, ?_⟩ <;>
  · rintro rfl
    rcases hcr with rfl | rfl <;> revert hs <;> decide

theorem getElem?_set2_ne {B : Array Nat} {a b u v s : Nat} (h1 : s ≠ a) (h2 : s ≠ b) :
    ((B.setIfInBounds a u).setIfInBounds b v)[s]? = B[s]? := by
  rw [Array.getElem?_setIfInBounds_ne (Ne.symm h2), Array.getElem?_setIfInBounds_ne (Ne.symm h1)]

/-- `mmMover` leaves the cells `m.frm` and `m.to` as they are -/
theorem mover_board {board : Array Nat} {flags : Nat} {cur : Side} {m : Move} {cc cr ck cq : Nat}
    {B1 : Array Nat} {f1 : Nat} {cur1 : Side} (hcr : cr = Gen.Rank1 ∨ cr = Gen.Rank8)
    (h : mmMover board flags cur m cc cr ck cq = .ok (B1, f1, cur1)) :
    B1[m.to]? = board[m.to]? ∧ B1[m.frm]? = board[m.frm]? := by
  unfold mmMover at h
  simp only [bind_ok] at h
  obtain ⟨fp, _, h⟩ := h
  split at h
  · split at h
    · simp only [pure_eq_ok, Except.ok.injEq, Prod.mk.injEq] at h
      obtain ⟨rfl, _, _⟩ := h
      exact ⟨rfl, rfl⟩
    · split at h
      · simp only [bind_ok] at h
        obtain ⟨pcs, _, h⟩ := h
        simp only [pure_eq_ok, Except.ok.injEq, Prod.mk.injEq] at h
        obtain ⟨rfl, _, _⟩ := h
        exact ⟨rfl, rfl⟩
      · simp only [pure_eq_ok, Except.ok.injEq, Prod.mk.injEq] at h
        obtain ⟨rfl, _, _⟩ := h
        exact ⟨rfl, rfl⟩
  · split at h
    · split at h
      · rename_i hE
        have hE' : fileOf m.frm = Gen.E := by simpa using hE
        split at h
        · rename_i hC
          have hC' : fileOf m.to = Gen.C := by simpa using hC
          simp only [bind_ok] at h
          obtain ⟨b1, hb1, b2, hb2, h⟩ := h
          simp only [pure_eq_ok, Except.ok.injEq, Prod.mk.injEq] at h
          obtain ⟨rfl, _, _⟩ := h
          rw [bset_ok_iff] at hb1 hb2
          rw [hb2.2, hb1.2]
          obtain ⟨t1, t2, _, _⟩ := castle_cell_ne (s := m.to) hcr (.inl hC')
          obtain ⟨s1, s2, _, _⟩ := castle_cell_ne (s := m.frm) hcr (.inr (.inr hE'))
          exact ⟨getElem?_set2_ne t1 t2, getElem?_set2_ne s1 s2⟩
        · split at h
          · rename_i hG
            have hG' : fileOf m.to = Gen.G := by simpa using hG
            simp only [bind_ok] at h
            obtain ⟨b1, hb1, b2, hb2, h⟩ := h
            simp only [pure_eq_ok, Except.ok.injEq, Prod.mk.injEq] at h
            obtain ⟨rfl, _, _⟩ := h
            rw [bset_ok_iff] at hb1 hb2
            rw [hb2.2, hb1.2]
            obtain ⟨_, _, t1, t2⟩ := castle_cell_ne (s := m.to) hcr (.inr (.inl hG'))
            obtain ⟨_, _, s1, s2⟩ := castle_cell_ne (s := m.frm) hcr (.inr (.inr hE'))
            exact ⟨getElem?_set2_ne t1 t2, getElem?_set2_ne s1 s2⟩
          · simp only [pure_eq_ok, Except.ok.injEq, Prod.mk.injEq] at h
            obtain ⟨rfl, _, _⟩ := h
            exact ⟨rfl, rfl⟩
      · simp only [pure_eq_ok, Except.ok.injEq, Prod.mk.injEq] at h
        obtain ⟨rfl, _, _⟩ := h
        exact ⟨rfl, rfl⟩
    · simp only [pure_eq_ok, Except.ok.injEq, Prod.mk.injEq] at h
      obtain ⟨rfl, _, _⟩ := h
      exact ⟨rfl, rfl⟩

/-- after `mmMover` the destination is one of the mover's squares (officer or king moving) -/
theorem mover_to_mem {board : Array Nat} {flags : Nat} {cur : Side} {m : Move} {cc cr ck cq : Nat}
    {B1 : Array Nat} {f1 : Nat} {cur1 : Side} {v : Nat}
    (h : mmMover board flags cur m cc cr ck cq = .ok (B1, f1, cur1))
    (hv : board[m.frm]? = some v) (hnp : v ≠ Pawn ||| cc)
    (hfrm : (m.frm ∈ cur.pieces ∧ m.frm ≠ cur.king) ∨ m.frm = cur.king) :
    m.to ∈ cur1.pieces ∨ m.to = cur1.king := by
  unfold mmMover at h
  have e1 : (v == Pawn ||| cc) = false := by simpa using hnp
  simp only [bget_of_some hv, ok_bind, e1, Bool.false_eq_true, if_false] at h
  rcases hfrm with ⟨hq, hk⟩ | hk
  · have e2 : (m.frm == cur.king) = false := by simpa using hk
    simp only [e2, Bool.false_eq_true, if_false, pure_eq_ok, Except.ok.injEq, Prod.mk.injEq] at h
    obtain ⟨_, _, rfl⟩ := h
    obtain ⟨i, hi⟩ := idxOf?_of_mem hq
    obtain ⟨hil, _⟩ := List.idxOf?_eq_some_iff.mp hi
    refine .inl ?_
    show m.to ∈ replaceFirst cur.pieces m.frm m.to
    unfold replaceFirst
    rw [hi]
    exact List.mem_set hil _
  · have e2 : (m.frm == cur.king) = true := by simpa using hk
    simp only [e2, if_true] at h
    refine .inr ?_
    split at h
    · split at h
      · simp only [bind_ok] at h
        obtain ⟨b1, _, b2, _, h⟩ := h
        simp only [pure_eq_ok, Except.ok.injEq, Prod.mk.injEq] at h
        obtain ⟨_, _, rfl⟩ := h
        rfl
      · split at h
        · simp only [bind_ok] at h
          obtain ⟨b1, _, b2, _, h⟩ := h
          simp only [pure_eq_ok, Except.ok.injEq, Prod.mk.injEq] at h
          obtain ⟨_, _, rfl⟩ := h
          rfl
        · simp only [pure_eq_ok, Except.ok.injEq, Prod.mk.injEq] at h
          obtain ⟨_, _, rfl⟩ := h
          rfl
    · simp only [pure_eq_ok, Except.ok.injEq, Prod.mk.injEq] at h
      obtain ⟨_, _, rfl⟩ := h
      rfl

/-- `mmCapture`: never lengthens, keeps the king square, and books a man standing on the destination
    unless it is the enemy king -/
theorem capture_len {B : Array Nat} {en en1 : Side} {m : Move} {ec : Nat}
    (h : mmCapture B en m ec = .ok en1) :
    sideW en1 ≤ sideW en ∧ en1.king = en.king ∧
      (∀ x, B[m.to]? = some x → x ≠ 0 → x ≠ King ||| ec → sideW en1 + 1 ≤ sideW en) := by
  unfold mmCapture at h
  simp only [bind_ok] at h
  obtain ⟨t, ht, h⟩ := h
  rw [bget_ok_iff] at ht
  split at h
  · rename_i h0
    split at h
    · rename_i hk
      split at h
      · simp only [bind_ok] at h
        obtain ⟨l, hl, h⟩ := h
        simp only [pure_eq_ok, Except.ok.injEq] at h
        subst h
        have := kill_len hl
        simp only [sideW]
        exact ⟨by omega, trivial, fun _ _ _ _ => by omega⟩
      · simp only [bind_ok] at h
        obtain ⟨l, hl, h⟩ := h
        simp only [pure_eq_ok, Except.ok.injEq] at h
        subst h
        have := kill_len hl
        simp only [sideW]
        exact ⟨by omega, trivial, fun _ _ _ _ => by omega⟩
    · rename_i hk
      simp only [pure_eq_ok, Except.ok.injEq] at h
      subst h
      refine ⟨Nat.le_refl _, rfl, fun x hx _ hxk => ?_⟩
      rw [ht] at hx
      cases hx
      exact absurd (by simpa using hk) hxk
  · rename_i h0
    simp only [pure_eq_ok, Except.ok.injEq] at h
    subst h
    refine ⟨Nat.le_refl _, rfl, fun x hx hx0 _ => ?_⟩
    rw [ht] at hx
    cases hx
    exact absurd (by simpa using h0) hx0

/-- `mmBoard`: never lengthens, keeps the king square, and removes a pawn on an en-passant capture -/
theorem board_len {B : Array Nat} {en en2 : Side} {B2 : Array Nat} {m : Move} {ep cc : Nat}
    (h : mmBoard B en m ep cc = .ok (B2, en2)) :
    sideW en2 ≤ sideW en ∧ en2.king = en.king ∧
      (m.promo = 0 → ep = m.to → B[m.frm]? = some (Pawn ||| cc) → sideW en2 + 2 = sideW en) := by
  unfold mmBoard at h
  split at h
  · simp only [bind_ok] at h
    obtain ⟨fp, hfp, b1, _, h⟩ := h
    rw [bget_ok_iff] at hfp
    split at h
    · simp only [bind_ok] at h
      obtain ⟨l, hl, b2, _, b3, _, h⟩ := h
      simp only [pure_eq_ok, Except.ok.injEq, Prod.mk.injEq] at h
      obtain ⟨_, rfl⟩ := h
      have := kill_len hl
      simp only [sideW]
      exact ⟨by omega, trivial, fun _ _ _ => by omega⟩
    · rename_i hcond
      simp only [bind_ok] at h
      obtain ⟨b2, _, h⟩ := h
      simp only [pure_eq_ok, Except.ok.injEq, Prod.mk.injEq] at h
      obtain ⟨_, rfl⟩ := h
      refine ⟨Nat.le_refl _, rfl, fun _ he hp => ?_⟩
      rw [hfp] at hp
      cases hp
      exact absurd (by simp [he]) hcond
  · rename_i hp
    simp only [bind_ok] at h
    obtain ⟨b1, _, b2, _, h⟩ := h
    simp only [pure_eq_ok, Except.ok.injEq, Prod.mk.injEq] at h
    obtain ⟨_, rfl⟩ := h
    exact ⟨Nat.le_refl _, rfl, fun h0 => absurd (by simpa using h0) hp⟩

/-! ### (ii) `makeMove` decomposed -/

theorem makeMove_stages {p q : Position} {m : Move} {b : Bool} (h : makeMove p m = .ok (q, b)) :
    ∃ (B1 : Array Nat) (f1 : Nat) (cur1 en1 : Side) (B2 : Array Nat) (en2 : Side),
      mmMover p.board p.flags (p.side (whiteTurn p)) m (colorBit (whiteTurn p)) (homeRank (whiteTurn p))
        (flagK (whiteTurn p)) (flagQ (whiteTurn p)) = .ok (B1, f1, cur1) ∧
      mmCapture B1 (p.side (!whiteTurn p)) m (colorBit (!whiteTurn p)) = .ok en1 ∧
      mmBoard B1 en1 m p.ep (colorBit (whiteTurn p)) = .ok (B2, en2) ∧
      q = mkPos p (whiteTurn p) B2 cur1 en2 (newFlags (whiteTurn p) f1 m) m.ep := by
  cases h1 : mmMover p.board p.flags (p.side (whiteTurn p)) m (colorBit (whiteTurn p)) (homeRank (whiteTurn p))
      (flagK (whiteTurn p)) (flagQ (whiteTurn p)) with
  | error e =>
    exfalso
    unfold makeMove at h
    cases hwt : whiteTurn p <;>
    · simp only [hwt, colorBit, homeRank, flagK, flagQ, Bool.false_eq_true, if_false, if_true] at h1
      simp only [hwt, Bool.false_eq_true, if_false, if_true, h1, error_bind] at h
      cases h
  | ok r1 =>
    obtain ⟨B1, f1, cur1⟩ := r1
    cases h2 : mmCapture B1 (p.side (!whiteTurn p)) m (colorBit (!whiteTurn p)) with
    | error e =>
      exfalso
      unfold makeMove at h
      cases hwt : whiteTurn p <;>
      · simp only [hwt, colorBit, homeRank, flagK, flagQ, Bool.false_eq_true, if_false, if_true, Bool.not_false,
          Bool.not_true] at h1 h2
        simp only [hwt, Bool.false_eq_true, if_false, if_true, Bool.not_false, Bool.not_true, h1, ok_bind, h2,
          error_bind] at h
        cases h
    | ok en1 =>
      cases h3 : mmBoard B1 en1 m p.ep (colorBit (whiteTurn p)) with
      | error e =>
        exfalso
        unfold makeMove at h
        cases hwt : whiteTurn p <;>
        · simp only [hwt, colorBit, homeRank, flagK, flagQ, Bool.false_eq_true, if_false, if_true, Bool.not_false,
            Bool.not_true] at h1 h2 h3
          simp only [hwt, Bool.false_eq_true, if_false, if_true, Bool.not_false, Bool.not_true, h1, ok_bind, h2, h3,
            error_bind] at h
          cases h
      | ok r3 =>
        obtain ⟨B2, en2⟩ := r3
        cases h4 : isUnderCheck B2 en2 cur1.king with
        | error e =>
          exfalso
          unfold makeMove at h
          cases hwt : whiteTurn p <;>
          · simp only [hwt, colorBit, homeRank, flagK, flagQ, Bool.false_eq_true, if_false, if_true, Bool.not_false,
              Bool.not_true] at h1 h2 h3
            simp only [hwt, Bool.false_eq_true, if_false, if_true, Bool.not_false, Bool.not_true, h1, ok_bind, h2, h3,
              h4, error_bind] at h
            cases h
        | ok chk =>
          have := makeMove_eq (p := p) (m := m) rfl h1 h2 h3 h4
          rw [this] at h
          simp only [Except.ok.injEq, Prod.mk.injEq] at h
          exact ⟨B1, f1, cur1, en1, B2, en2, rfl, h2, h3, h.1.symm⟩

/-- no move lengthens the lists -/
theorem mu_mono' {p q : Position} {m : Move} {b : Bool} (hm : makeMove p m = .ok (q, b)) : mu q ≤ mu p := by
  obtain ⟨B1, f1, cur1, en1, B2, en2, h1, h2, h3, rfl⟩ := makeMove_stages hm
  rw [mu_mkPos, mu_side p (whiteTurn p)]
  have := mover_len h1
  have := (capture_len h2).1
  have := (board_len h3).1
  omega

/-! ### (iii) what the tactical generator emits -/

/-- a move is "tactical-shaped": it starts on a square of the mover and either captures on `to`, or is a
    pawn move to the en-passant square, or is a promotion -/
def TacFact (p : Position) (m : Move) : Prop :=
  (m.frm ∈ p.ctx.cur.pawns ∧
    ((∃ x, p.board[m.to]? = some x ∧ x &&& p.ctx.enBit ≠ 0) ∨ (m.promo = 0 ∧ m.to = p.ep) ∨ m.promo ≠ 0)) ∨
  ((m.frm ∈ p.ctx.cur.pieces ∨ m.frm = p.ctx.cur.king) ∧ ∃ x, p.board[m.to]? = some x ∧ x &&& p.ctx.enBit ≠ 0)

theorem pawnPushTac_mem {p : Position} {c : Ctx} {frm : Nat} {a : List RMove} {rm : RMove}
    (h : pawnPushTac p c frm = .ok a) (hrm : rm ∈ a) : rm.mov.frm = frm ∧ rm.mov.promo ≠ 0 := by
  simp only [pawnPushTac, bind_ok, pure_eq_ok, Except.ok.injEq] at h
  obtain ⟨y, _, rfl⟩ := h
  split at hrm
  · simp only [promoRMoves, List.mem_cons, List.not_mem_nil, or_false] at hrm
    rcases hrm with rfl | rfl | rfl | rfl
    · exact ⟨rfl, (by decide : Queen ≠ 0)⟩
    · exact ⟨rfl, (by decide : Rook ≠ 0)⟩
    · exact ⟨rfl, (by decide : Bishop ≠ 0)⟩
    · exact ⟨rfl, (by decide : Knight ≠ 0)⟩
  · cases hrm

theorem pawnTac_mem {p : Position} {c : Ctx} {frm : Nat} {a : List RMove} {rm : RMove}
    (h : pawnGenTactical p c frm = .ok a) (hrm : rm ∈ a) :
    rm.mov.frm = frm ∧ ((∃ x, p.board[rm.mov.to]? = some x ∧ x &&& c.enBit ≠ 0) ∨
      (rm.mov.promo = 0 ∧ rm.mov.to = p.ep) ∨ rm.mov.promo ≠ 0) := by
  rw [pawnGenTactical_eq] at h
  simp only [bind_ok, pure_eq_ok, Except.ok.injEq] at h
  obtain ⟨a1, h1, a2, h2, a3, h3, rfl⟩ := h
  have ep_case : rm.mov.to = p.ep → (rm.mov.promo = 0 ∧ rm.mov.to = p.ep) ∨ rm.mov.promo ≠ 0 := by
    intro he
    by_cases h0 : rm.mov.promo = 0
    · exact .inl ⟨h0, he⟩
    · exact .inr h0
  rcases List.mem_append.mp hrm with hrm | hrm
  · rcases List.mem_append.mp hrm with hrm | hrm
    · obtain ⟨e1, _, _, _, e5⟩ := GenRaw.pawnCapQ_mem h1 (List.mem_map_of_mem hrm)
      refine ⟨e1, ?_⟩
      rcases e5 with e5 | e5
      · exact .inl e5
      · exact .inr (ep_case e5)
    · obtain ⟨e1, _, _, _, e5⟩ := GenRaw.pawnCapK_mem h2 (List.mem_map_of_mem hrm)
      refine ⟨e1, ?_⟩
      rcases e5 with e5 | e5
      · exact .inl e5
      · exact .inr (ep_case e5.1)
  · obtain ⟨e1, e2⟩ := pawnPushTac_mem h3 hrm
    exact ⟨e1, .inr (.inr e2)⟩

theorem knightTac_mem {p : Position} {c : Ctx} {frm : Nat} {a : List RMove} {rm : RMove}
    (h : knightGenTactical p c frm = .ok a) (hrm : rm ∈ a) :
    rm.mov.frm = frm ∧ ∃ x, p.board[rm.mov.to]? = some x ∧ x &&& c.enBit ≠ 0 := by
  obtain ⟨d, hd, b, hb, hrb⟩ := GenRaw.flatMapM'_mem h hrm
  simp only [bind_ok] at hb
  obtain ⟨ok, hok, hb⟩ := hb
  cases ok
  · simp only [Bool.false_eq_true, if_false, pure_eq_ok, Except.ok.injEq] at hb
    subst hb; cases hrb
  · simp only [if_true, bind_ok, pure_eq_ok, Except.ok.injEq] at hb
    obtain ⟨x, hx, mv, hmv, rfl⟩ := hb
    simp only [List.mem_cons, List.not_mem_nil, or_false] at hrb
    subst hrb
    cases hv : isValid (addb frm d)
    · rw [hv] at hok; simp [pure_eq_ok] at hok
    · rw [hv, andM_true, hx] at hok
      simp only [ok_bind, pure_eq_ok, Except.ok.injEq, bne_iff_ne, ne_eq] at hok
      rw [(captureRM_shape hmv).1]
      exact ⟨rfl, x, bget_ok_iff.mp hx, hok⟩

theorem slideTac_mem {board : Array Nat} {c : Ctx} {frm dir : Nat} :
    ∀ (fuel sq : Nat) {a : List RMove} {rm : RMove}, slideDirTactical board c frm dir fuel sq = .ok a → rm ∈ a →
      rm.mov.frm = frm ∧ ∃ x, board[rm.mov.to]? = some x ∧ x &&& c.enBit ≠ 0 := by
  intro fuel
  induction fuel with
  | zero =>
    intro sq a rm h _
    simp only [slideDirTactical, throw_eq_error] at h
    cases h
  | succ fuel ih =>
    intro sq a rm h hrm
    unfold slideDirTactical at h
    split at h
    · simp only [pure_eq_ok, Except.ok.injEq] at h
      subst h; cases hrm
    · simp only [bind_ok] at h
      obtain ⟨x, hx, h⟩ := h
      split at h
      · simp only [pure_eq_ok, Except.ok.injEq] at h
        subst h; cases hrm
      · split at h
        · rename_i hen
          simp only [bind_ok, pure_eq_ok, Except.ok.injEq] at h
          obtain ⟨v, _, mv, hmv, rfl⟩ := h
          simp only [List.mem_cons, List.not_mem_nil, or_false] at hrm
          subst hrm
          rw [(captureRM_shape hmv).1]
          exact ⟨rfl, x, bget_ok_iff.mp hx, by simpa using hen⟩
        · exact ih _ h hrm

theorem pieceTac_mem {p : Position} {c : Ctx} {frm : Nat} {a : List RMove} {rm : RMove}
    (h : pieceGenTactical p c frm = .ok a) (hrm : rm ∈ a) :
    rm.mov.frm = frm ∧ ∃ x, p.board[rm.mov.to]? = some x ∧ x &&& c.enBit ≠ 0 := by
  unfold pieceGenTactical at h
  simp only [bind_ok] at h
  obtain ⟨pc, _, h⟩ := h
  have slide : ∀ dirs, flatMapM' (fun d => slideDirTactical p.board c frm d 8 (addb frm d)) dirs = .ok a →
      rm.mov.frm = frm ∧ ∃ x, p.board[rm.mov.to]? = some x ∧ x &&& c.enBit ≠ 0 := by
    intro dirs hs
    obtain ⟨d, _, b, hb, hrb⟩ := GenRaw.flatMapM'_mem hs hrm
    exact slideTac_mem _ _ hb hrb
  split at h
  · exact knightTac_mem h hrm
  · split at h
    · exact slide _ h
    · split at h
      · exact slide _ h
      · split at h
        · exact slide _ h
        · rw [throw_eq_error] at h; cases h

theorem kingTac_mem {p : Position} {c : Ctx} {a : List RMove} {rm : RMove}
    (h : kingGenTactical p c = .ok a) (hrm : rm ∈ a) :
    rm.mov.frm = c.cur.king ∧ ∃ x, p.board[rm.mov.to]? = some x ∧ x &&& c.enBit ≠ 0 := by
  obtain ⟨d, hd, b, hb, hrb⟩ := GenRaw.flatMapM'_mem h hrm
  simp only [bind_ok] at hb
  obtain ⟨ok, hok, hb⟩ := hb
  cases ok
  · simp only [Bool.false_eq_true, if_false, pure_eq_ok, Except.ok.injEq] at hb
    subst hb; cases hrb
  · simp only [if_true, bind_ok, pure_eq_ok, Except.ok.injEq] at hb
    obtain ⟨x, hx, mv, hmv, rfl⟩ := hb
    simp only [List.mem_cons, List.not_mem_nil, or_false] at hrb
    subst hrb
    cases hv : isValid (addb c.cur.king d)
    · rw [hv] at hok; simp [pure_eq_ok] at hok
    · rw [hv, andM_true, hx] at hok
      simp only [ok_bind] at hok
      cases hcb : (x &&& c.enBit != 0)
      · rw [hcb] at hok; simp [pure_eq_ok] at hok
      · rw [(captureRM_shape hmv).1]
        exact ⟨rfl, x, bget_ok_iff.mp hx, by simpa using hcb⟩

theorem genPseudoTactical_mem {p : Position} {ts : List RMove} {rm : RMove}
    (h : genPseudoTactical p = .ok ts) (hrm : rm ∈ ts) : TacFact p rm.mov := by
  simp only [genPseudoTactical, bind_ok, pure_eq_ok, Except.ok.injEq] at h
  obtain ⟨a, ha, b, hb, k, hk, rfl⟩ := h
  rcases List.mem_append.mp hrm with hrm | hrm
  · rcases List.mem_append.mp hrm with hrm | hrm
    · obtain ⟨frm, hfrm, l, hl, hrl⟩ := GenRaw.flatMapM'_mem ha hrm
      obtain ⟨e1, e2⟩ := pawnTac_mem hl hrl
      exact .inl ⟨e1 ▸ hfrm, e2⟩
    · obtain ⟨frm, hfrm, l, hl, hrl⟩ := GenRaw.flatMapM'_mem hb hrm
      obtain ⟨e1, e2⟩ := pieceTac_mem hl hrl
      exact .inr ⟨.inl (e1 ▸ hfrm), e2⟩
  · obtain ⟨e1, e2⟩ := kingTac_mem hk hrm
    exact .inr ⟨.inr e1, e2⟩

/-! ### every tactical move is a generated move -/

theorem cellsOk_of_inv {p : Position} (hI : Inv p) : CellsOk p := by
  intro x hx
  obtain ⟨i, hi, rfl⟩ := List.getElem_of_mem hx
  have hi' : i < p.board.size := by simpa using hi
  have hsz := hI.board.size
  have hget : p.board[i]? = some p.board.toList[i] := by
    rw [Array.getElem_toList]
    exact Array.getElem?_eq_getElem hi'
  cases hv : isValid i
  · have := hI.offBoard i (by omega) hv
    rw [hget] at this
    rw [Option.some.inj this]
    decide
  · obtain ⟨v, h1, h2⟩ := hI.board.codes i (by omega) hv
    rw [hget] at h1
    rw [Option.some.inj h1]
    have : ∀ v ∈ 0 :: pieceCodes, CellOk v := by decide
    exact this v (List.mem_cons.mpr h2)

theorem tactical_sub {p : Position} {ts : List RMove} {rm : RMove} (hI : Inv p)
    (ht : generateTacticalMoves p = .ok ts) (hrm : rm ∈ ts) : TacFact p rm.mov ∧ Generated p rm.mov := by
  simp only [generateTacticalMoves, bind_ok] at ht
  obtain ⟨tps, htps, ht⟩ := ht
  obtain ⟨_, rfl⟩ := legalFilter_ok ht
  have hrm' : rm ∈ tps := (List.mem_filter.mp hrm).1
  refine ⟨genPseudoTactical_mem htps hrm', ?_⟩
  obtain ⟨fs, hfs, _⟩ := GenPure.genPseudo_genList hI (kt := Killers.empty) (by simp [Killers.empty])
  have hrel := genPseudo_rel (cellsOk_of_inv hI) htps hfs
  unfold TacRel at hrel
  have : rm.mov ∈ tps.map (·.mov) := List.mem_map_of_mem hrm'
  rw [hrel] at this
  obtain ⟨rm2, h2, e2⟩ := List.mem_map.mp this
  exact ⟨Killers.empty, fs, hfs, List.mem_map.mpr ⟨rm2, (List.mem_filter.mp h2).1, e2⟩⟩

/-! ### (iv) the enemy king is never the target -/

theorem homeRank_cases (w : Bool) : homeRank w = Gen.Rank1 ∨ homeRank w = Gen.Rank8 := by
  cases w
  · exact .inr rfl
  · exact .inl rfl

/-- `makeMove_spec` says the result of a generated move is well-formed; had the move landed on the enemy
    king, the destination would afterwards be both a square of the mover and the enemy king square -/
theorem target_not_king {p q : Position} {m : Move} {b : Bool} {x : Nat} (hI : Inv p) (hS : OppSafe p)
    (hG : Generated p m) (hm : makeMove p m = .ok (q, b))
    (hfrm : m.frm ∈ (p.side (whiteTurn p)).pawns ∨ m.frm ∈ (p.side (whiteTurn p)).pieces ∨
      m.frm = (p.side (whiteTurn p)).king)
    (hx : p.board[m.to]? = some x) : x ≠ kingOf (!whiteTurn p) := by
  rintro rfl
  obtain ⟨p', b', h', hIq, _⟩ := makeMove_spec hI hS hG
  rw [hm] at h'
  simp only [Except.ok.injEq, Prod.mk.injEq] at h'
  obtain ⟨rfl, _⟩ := h'
  obtain ⟨B1, f1, cur1, en1, B2, en2, h1, h2, h3, rfl⟩ := makeMove_stages hm
  have hcur := hI.sideInv (whiteTurn p)
  have hto : m.to ∈ sq88 :=
    mem_sq88.mpr (InvFen.valid_of_ne_zero hI.board.size hI.offBoard hx (kingOf_ne_zero _))
  have hk : m.to = (p.side (!whiteTurn p)).king := king_unique hI hto hx
  have hcur1 := (hIq.sideInv (whiteTurn p)).ok
  have hen2 := (hIq.sideInv (!whiteTurn p)).ok
  rw [mkPos_side_cur, mkPos_board] at hcur1
  rw [mkPos_side_en, mkPos_board] at hen2
  have hek : en2.king = m.to := by
    rw [(board_len h3).2.1, (capture_len h2).2.1, hk]
  have hcell := hen2.king_cell.2
  rw [hek] at hcell
  have hmem : m.to ∈ cur1.pawns ∨ m.to ∈ cur1.pieces ∨ m.to = cur1.king := by
    rcases hfrm with hf | hf | hf
    · have hv := (hcur.ok.pawn_cell hf).2
      rw [← pawn_code] at hv
      rcases (mover_pawn h1 hv hf).2.2.2 with h | h
      · exact .inl h
      · exact .inr (.inl h)
    · obtain ⟨_, v, hvo, hv⟩ := hcur.ok.piece_cell hf
      have hnp : v ≠ Pawn ||| colorBit (whiteTurn p) := by
        rw [pawn_code]; exact fun e => pawnOf_not_officer _ _ (e ▸ hvo)
      have hnk : m.frm ≠ (p.side (whiteTurn p)).king := by
        intro e
        have := hcur.ok.king_cell.2
        rw [← e, hv] at this
        exact kingOf_not_officer _ _ ((Option.some.inj this) ▸ hvo)
      exact .inr (mover_to_mem h1 hv hnp (.inl ⟨hf, hnk⟩))
    · have hv := hcur.ok.king_cell.2
      rw [← hf] at hv
      have hnp : kingOf (whiteTurn p) ≠ Pawn ||| colorBit (whiteTurn p) := by
        rw [pawn_code]; exact fun e => pawnOf_ne_kingOf _ _ e.symm
      exact .inr (mover_to_mem h1 hv hnp (.inr hf))
  rcases hmem with h | h | h
  · have := (hcur1.pawn_cell h).2
    rw [hcell] at this
    exact pawnOf_ne_kingOf _ _ (Option.some.inj this).symm
  · obtain ⟨_, v, hvo, hv⟩ := hcur1.piece_cell h
    rw [hcell] at hv
    exact kingOf_not_officer _ _ ((Option.some.inj hv) ▸ hvo)
  · have := hcur1.king_cell.2
    rw [← h, hcell] at this
    exact kingOf_ne_not _ (Option.some.inj this).symm

/-! ### (v) the theorems -/

/-- a capture removes a man, a promotion turns a pawn (weight 2) into an officer (weight 1) -/
theorem tactical_decreases {p q : Position} {ts : List RMove} {rm : RMove} (hI : Inv p) (hS : OppSafe p)
    (ht : generateTacticalMoves p = .ok ts) (hrm : rm ∈ ts) (hm : makeMove p rm.mov = .ok (q, true)) :
    mu q < mu p := by
  obtain ⟨hfact, hG⟩ := tactical_sub hI ht hrm
  obtain ⟨c1, _, _, _, c5, _⟩ := ctx_fields (p := p) rfl
  unfold TacFact at hfact
  rw [c1, c5] at hfact
  obtain ⟨B1, f1, cur1, en1, B2, en2, h1, h2, h3, rfl⟩ := makeMove_stages hm
  rw [mu_mkPos, mu_side p (whiteTurn p)]
  have l1 := mover_len h1
  obtain ⟨l2, _, s2⟩ := capture_len h2
  obtain ⟨l3, _, s3⟩ := board_len h3
  have capture : ∀ x, p.board[rm.mov.to]? = some x → x &&& colorBit (!whiteTurn p) ≠ 0 →
      (rm.mov.frm ∈ (p.side (whiteTurn p)).pawns ∨ rm.mov.frm ∈ (p.side (whiteTurn p)).pieces ∨
        rm.mov.frm = (p.side (whiteTurn p)).king) →
      sideW cur1 + sideW en2 < sideW (p.side (whiteTurn p)) + sideW (p.side (!whiteTurn p)) := by
    intro x hx hen hfrm
    have hx0 : x ≠ 0 := fun e => by subst e; simp at hen
    have hnk := target_not_king hI hS hG hm hfrm hx
    rw [← king_code] at hnk
    have hb := (mover_board (homeRank_cases _) h1).1
    have := s2 x (hb.trans hx) hx0 hnk
    omega
  rcases hfact with ⟨hf, hcase⟩ | ⟨hf, x, hx, hen⟩
  · rcases hcase with ⟨x, hx, hen⟩ | ⟨h0, hep⟩ | hp
    · exact capture x hx hen (.inl hf)
    · have hv := ((hI.sideInv (whiteTurn p)).ok.pawn_cell hf).2
      rw [← pawn_code] at hv
      obtain ⟨rfl, _, _, _⟩ := mover_pawn h1 hv hf
      have := s3 h0 hep.symm hv
      omega
    · have hv := ((hI.sideInv (whiteTurn p)).ok.pawn_cell hf).2
      rw [← pawn_code] at hv
      have := (mover_pawn h1 hv hf).2.2.1 hp
      omega
  · rcases hf with hf | hf
    · exact capture x hx hen (.inr (.inl hf))
    · exact capture x hx hen (.inr (.inr hf))

set_option linter.unusedVariables false in
/-- no legal move increases it (in fact no move at all: the hypotheses are not used, see `mu_mono'`) -/
theorem mu_mono {p q : Position} {m : Move} {b : Bool} (hI : Inv p) (hS : OppSafe p) (hG : Generated p m)
    (hm : makeMove p m = .ok (q, b)) : mu q ≤ mu p :=
  mu_mono' hm

/-! ### non-vacuity -/

theorem exists_of_okVal_map {α β} {x : M α} {f : α → β} {b : β} (h : okVal (x.map f) = some b) :
    ∃ a, x = .ok a ∧ f a = b := by
  cases x with
  | error e => cases h
  | ok a => exact ⟨a, rfl, by simpa [okVal, Except.map] using h⟩

/-- the hypotheses of `tactical_decreases` hold for the first tactical move `m` of `P` -/
theorem witness_ok {P : Position} {m : Move} (hI : Inv P) (hS : OppSafe P)
    (h1 : okVal ((generateTacticalMoves P).map (fun l => (l.map (·.mov)).head?)) = some (some m))
    (h2 : okVal ((makeMove P m).map (·.2)) = some true) :
    ∃ ts rm q, generateTacticalMoves P = .ok ts ∧ rm ∈ ts ∧ makeMove P rm.mov = .ok (q, true) ∧ mu q < mu P := by
  obtain ⟨ts, hts, hhead⟩ := exists_of_okVal_map h1
  obtain ⟨⟨q, b⟩, hq, hb⟩ := exists_of_okVal_map h2
  cases ts with
  | nil => simp at hhead
  | cons rm rest =>
    simp only [List.map_cons, List.head?_cons, Option.some.injEq] at hhead
    simp only at hb
    subst hb
    rw [← hhead] at hq
    exact ⟨rm :: rest, rm, q, hts, List.mem_cons_self, hq, tactical_decreases hI hS hts List.mem_cons_self hq⟩

theorem oppSafe_c06Witness : OppSafe c06Witness := okVal_eq_some (by decide +kernel)
theorem oppSafe_c06PromoWitness : OppSafe c06PromoWitness := okVal_eq_some (by decide +kernel)

/-- en passant a5xb6 on `c06Witness` (1.e4 e5 2.Nf3 Nc6 3.Bc4 Bc5 4.a4 a6 5.a5 b5): a legal tactical move, and
    the measure drops -/
example : ∃ ts rm q, generateTacticalMoves c06Witness = .ok ts ∧ rm ∈ ts ∧
    makeMove c06Witness rm.mov = .ok (q, true) ∧ mu q < mu c06Witness :=
  witness_ok (m := ⟨Gen.A5, Gen.B6, 0, InvalidSq⟩) GenExamples.inv_c06Witness oppSafe_c06Witness
    (by decide +kernel) (by decide +kernel)

/-- the capturing promotion a7xb8=Q on `c06PromoWitness` -/
example : ∃ ts rm q, generateTacticalMoves c06PromoWitness = .ok ts ∧ rm ∈ ts ∧
    makeMove c06PromoWitness rm.mov = .ok (q, true) ∧ mu q < mu c06PromoWitness :=
  witness_ok (m := ⟨Gen.A7, Gen.B8, Queen, InvalidSq⟩) GenExamples.inv_c06PromoWitness oppSafe_c06PromoWitness
    (by decide +kernel) (by decide +kernel)

example : mu c06Witness = 46 ∧ mu c06Witness ≤ Gen.maxQuiescenceDepth ∧ mu startPosition = 46 := by decide +kernel

end Magog.TotalMeasure
