import Magog.Lemmas.MMSpecial
import Magog.Lemmas.GenRaw

/-! Finite geometry of the generators (kernel-decided over all 64 squares): where pawn moves land,
    that every capturing move is an attack in the sense of the attack table, castling squares. -/

namespace Magog.GenGeo
open Magog Magog.Model Magog.Atk Magog.Geo Magog.Count Magog.MM

def advOf (w : Bool) : Nat := if w then Gen.DirN else Gen.DirS
def startRank (w : Bool) : Nat := if w then Gen.Rank2 else Gen.Rank7
def pawnFlag (w : Bool) : Nat := if w then Gen.WPawnAttacks else Gen.BPawnAttacks
/-- rank of the en-passant square when `w` is to move -/
def epRank (w : Bool) : Nat := if w then Gen.Rank6 else Gen.Rank3

theorem onBoard_mem {s : Nat} : onBoard s = true ↔ s ∈ sq88 := by rw [onBoard_iff, mem_sq88]

/-! ### pawn pushes -/

def pushCheck (w : Bool) (frm : Nat) : Bool :=
  let to1 := addb frm (advOf w)
  let to2 := addb to1 (advOf w)
  rankOf frm == Gen.Rank1 || rankOf frm == Gen.Rank8 ||
  (onBoard to1 && rankOf to1 != homeRank w && to1 != frm &&
   (if w then to1 - Gen.UnitRank == frm else to1 + Gen.UnitRank == frm) &&
   (rankOf frm != startRank w ||
     (onBoard to2 && rankOf to2 != Gen.Rank1 && rankOf to2 != Gen.Rank8 && rankOf to2 != epRank w &&
      rankOf to1 == epRank (!w) && to1 != to2 &&
      (if w then to1 + Gen.UnitRank == to2 else to1 - Gen.UnitRank == to2))))

set_option maxRecDepth 100000 in
theorem pushCheck_all : (sq88.all fun frm => bools.all fun w => pushCheck w frm) = true := by decide +kernel

/-- single and double pushes -/
theorem push_geo {w : Bool} {frm : Nat} (hf : frm ∈ sq88) (h1 : rankOf frm ≠ Gen.Rank1) (h8 : rankOf frm ≠ Gen.Rank8) :
    addb frm (advOf w) ∈ sq88 ∧ rankOf (addb frm (advOf w)) ≠ homeRank w ∧
    addb frm (advOf w) ≠ frm ∧
    (if w then addb frm (advOf w) - Gen.UnitRank = frm else addb frm (advOf w) + Gen.UnitRank = frm) ∧
    (rankOf frm = startRank w →
      addb (addb frm (advOf w)) (advOf w) ∈ sq88 ∧
      rankOf (addb (addb frm (advOf w)) (advOf w)) ≠ Gen.Rank1 ∧
      rankOf (addb (addb frm (advOf w)) (advOf w)) ≠ Gen.Rank8 ∧
      rankOf (addb (addb frm (advOf w)) (advOf w)) ≠ epRank w ∧
      rankOf (addb frm (advOf w)) = epRank (!w) ∧
      addb frm (advOf w) ≠ addb (addb frm (advOf w)) (advOf w) ∧
      (if w then addb frm (advOf w) + Gen.UnitRank = addb (addb frm (advOf w)) (advOf w)
       else addb frm (advOf w) - Gen.UnitRank = addb (addb frm (advOf w)) (advOf w))) := by
  have h := pushCheck_all
  simp only [List.all_eq_true] at h
  have h := h frm hf w (mem_bools w)
  simp only [pushCheck, Bool.or_eq_true, beq_iff_eq, Bool.and_eq_true, bne_iff_ne, ne_eq, onBoard_mem] at h
  rcases h with (h | h) | h
  · exact absurd h h1
  · exact absurd h h8
  · obtain ⟨⟨⟨⟨a1, a2⟩, a3⟩, a4⟩, a5⟩ := h
    refine ⟨a1, a2, a3, ?_, fun hs => ?_⟩
    · cases w
      · simpa using a4
      · simpa using a4
    · rcases a5 with a5 | a5
      · exact absurd hs a5
      · obtain ⟨⟨⟨⟨⟨⟨b1, b2⟩, b3⟩, b4⟩, b5⟩, b6⟩, b7⟩ := a5
        refine ⟨b1, b2, b3, b4, b5, b6, ?_⟩
        cases w
        · simpa using b7
        · simpa using b7

/-! ### pawn captures -/

def capCheck (w : Bool) (frm δ : Nat) : Bool :=
  let to := addb (addb frm (advOf w)) δ
  rankOf frm == Gen.Rank1 || rankOf frm == Gen.Rank8 || !onBoard to ||
  (rankOf to != homeRank w && attackAt frm to &&& pawnFlag w != 0 &&
   (rankOf to != epRank w ||
     (fileOf to + rankOf frm) % 256 == (if w then to - Gen.UnitRank else to + Gen.UnitRank)))

set_option maxRecDepth 100000 in
theorem capCheck_all : (sq88.all fun frm => bools.all fun w => [0xFF, 1].all fun δ => capCheck w frm δ) = true := by
  decide +kernel

/-- pawn captures (`δ` = 255 queen side, 1 king side) -/
theorem cap_geo {w : Bool} {frm δ : Nat} (hf : frm ∈ sq88) (h1 : rankOf frm ≠ Gen.Rank1) (h8 : rankOf frm ≠ Gen.Rank8)
    (hδ : δ = 0xFF ∨ δ = 1) (ht : addb (addb frm (advOf w)) δ ∈ sq88) :
    rankOf (addb (addb frm (advOf w)) δ) ≠ homeRank w ∧
    attackAt frm (addb (addb frm (advOf w)) δ) &&& pawnFlag w ≠ 0 ∧
    (rankOf (addb (addb frm (advOf w)) δ) = epRank w →
      (fileOf (addb (addb frm (advOf w)) δ) + rankOf frm) % 256 =
        (if w then addb (addb frm (advOf w)) δ - Gen.UnitRank else addb (addb frm (advOf w)) δ + Gen.UnitRank)) := by
  have h := capCheck_all
  simp only [List.all_eq_true] at h
  have h := h frm hf w (mem_bools w) δ (by rcases hδ with rfl | rfl <;> simp)
  simp only [capCheck, Bool.or_eq_true, beq_iff_eq, Bool.and_eq_true, bne_iff_ne, ne_eq, Bool.not_eq_true',
    ← Bool.not_eq_true, onBoard_mem] at h
  rcases h with ((h | h) | h) | h
  · exact absurd h h1
  · exact absurd h h8
  · exact absurd ht h
  · obtain ⟨⟨a1, a2⟩, a3⟩ := h
    refine ⟨a1, a2, fun hr => ?_⟩
    rcases a3 with a3 | a3
    · exact absurd hr a3
    · exact a3

/-- the queen-side capture square of a pawn on the board is never byte 136 (`InvalidSq`) -/
theorem capQ_ne_invalid {w : Bool} {frm : Nat} (hf : frm ∈ sq88) : addb (addb frm (advOf w)) 0xFF ≠ InvalidSq := by
  have h : (sq88.all fun frm => bools.all fun w => addb (addb frm (advOf w)) 0xFF != InvalidSq) = true := by
    decide +kernel
  simp only [List.all_eq_true, bne_iff_ne, ne_eq] at h
  exact h frm hf w (mem_bools w)

/-! ### knight and king steps -/

set_option maxRecDepth 100000 in
theorem knightCheck_all : (sq88.all fun frm => knightDirs.all fun d =>
    !onBoard (addb frm d) || hasBit frm (addb frm d) Gen.KnightAttacks) = true := by decide +kernel

theorem knight_geo {frm d : Nat} (hf : frm ∈ sq88) (hd : d ∈ knightDirs) (ht : addb frm d ∈ sq88) :
    hasBit frm (addb frm d) Gen.KnightAttacks = true := by
  have h := knightCheck_all
  simp only [List.all_eq_true, Bool.or_eq_true, Bool.not_eq_true', ← Bool.not_eq_true, onBoard_mem] at h
  rcases h frm hf d hd with h | h
  · exact absurd ht h
  · exact h

set_option maxRecDepth 100000 in
theorem kingCheck_all : (sq88.all fun frm => kingDirs.all fun d =>
    !onBoard (addb frm d) || (attackAt frm (addb frm d) &&& Gen.KingAttacks != 0)) = true := by decide +kernel

theorem king_geo {frm d : Nat} (hf : frm ∈ sq88) (hd : d ∈ kingDirs) (ht : addb frm d ∈ sq88) :
    attackAt frm (addb frm d) &&& Gen.KingAttacks ≠ 0 := by
  have h := kingCheck_all
  simp only [List.all_eq_true, Bool.or_eq_true, Bool.not_eq_true', ← Bool.not_eq_true, onBoard_mem, bne_iff_ne,
    ne_eq] at h
  rcases h frm hf d hd with h | h
  · exact absurd ht h
  · exact h

/-! ### slider rays -/

/-- the attack-table bit a slider direction needs -/
def dirBit (d : Nat) : Nat := if d ∈ rookDirs then Gen.RookAttacks else Gen.BishopAttacks

/-- every on-board square of the ray from `frm` in direction `d` has the direction-table entry `d`
    and the attack bits of that direction -/
def rayOk (frm d : Nat) : Nat → Nat → Bool
  | 0, _ => true
  | n + 1, sq =>
    if !isValid sq then true
    else decide (sq < 128) && dirAt frm sq == d && hasBit frm sq (dirBit d) && hasBit frm sq Gen.QueenAttacks &&
      rayOk frm d n (addb sq d)

set_option maxRecDepth 100000 in
theorem rayOk_all : (sq88.all fun frm => kingDirs.all fun d => rayOk frm d 8 (addb frm d)) = true := by
  decide +kernel

theorem rayOk_walk {frm d t : Nat} (ht : isValid t = true) :
    ∀ (fuel sq : Nat) (l : List Nat), rayOk frm d fuel sq = true → walkList d t fuel sq = some l →
      (∀ s ∈ l, isValid s = true) →
      dirAt frm t = d ∧ hasBit frm t (dirBit d) = true ∧ hasBit frm t Gen.QueenAttacks = true ∧ ∀ s ∈ l, s < 128 := by
  intro fuel
  induction fuel with
  | zero => intro sq l _ h; simp [walkList] at h
  | succ n ih =>
    intro sq l hr hw hl
    simp only [walkList] at hw
    by_cases hst : sq = t
    · subst hst
      simp only [beq_self_eq_true, if_true, Option.some.injEq] at hw
      subst hw
      simp only [rayOk, ht, Bool.not_true, Bool.false_eq_true, if_false, Bool.and_eq_true, decide_eq_true_eq,
        beq_iff_eq] at hr
      exact ⟨hr.1.1.1.2, hr.1.1.2, hr.1.2, fun s hs => by cases hs⟩
    · have : (sq == t) = false := by simpa using hst
      simp only [this, Bool.false_eq_true, if_false, Option.map_eq_some_iff] at hw
      obtain ⟨l', hl', rfl⟩ := hw
      have hv : isValid sq = true := hl sq List.mem_cons_self
      simp only [rayOk, hv, Bool.not_true, Bool.false_eq_true, if_false, Bool.and_eq_true, decide_eq_true_eq,
        beq_iff_eq] at hr
      obtain ⟨e1, e2, e3, e4⟩ := ih _ _ hr.2 hl' (fun s hs => hl s (List.mem_cons_of_mem _ hs))
      refine ⟨e1, e2, e3, fun s hs => ?_⟩
      rcases List.mem_cons.mp hs with rfl | hs
      · exact hr.1.1.1.1
      · exact e4 s hs

theorem slide_geo {frm d t : Nat} {l : List Nat} (hf : frm ∈ sq88) (hd : d ∈ kingDirs) (ht : isValid t = true)
    (hw : walkList d t 8 (addb frm d) = some l) (hl : ∀ s ∈ l, isValid s = true) :
    dirAt frm t = d ∧ hasBit frm t (dirBit d) = true ∧ hasBit frm t Gen.QueenAttacks = true ∧ ∀ s ∈ l, s < 128 := by
  have h := rayOk_all
  simp only [List.all_eq_true] at h
  exact rayOk_walk ht _ _ _ (h frm hf d hd) hw hl

/-! ### castling squares as the generator computes them -/

theorem castle_arith (w : Bool) :
    toByte (add8 (int8 (kingHome w)) 2) = kingToK w ∧ toByte (add8 (int8 (kingHome w)) (-2)) = kingToQ w ∧
    (add8 (int8 (kingHome w)) 1).toNat = rookToK w ∧ (add8 (int8 (kingHome w)) 2).toNat = kingToK w ∧
    (add8 (int8 (kingHome w)) (-1)).toNat = rookToQ w ∧ (add8 (int8 (kingHome w)) (-2)).toNat = kingToQ w := by
  cases w <;> decide

end Magog.GenGeo
