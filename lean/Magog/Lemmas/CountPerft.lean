import Magog.Lemmas.CountGen

/-! C06, part 4: perft against the model-level path counts. -/

namespace Magog.Count
open Magog Magog.Model

theorem sum_const_one {α} {f : α → M Nat} {l : List α} {n : Nat} (h : sumM' f l = .ok n)
    (hel : ∀ x ∈ l, ∀ a, f x = .ok a → a = 1) : n = l.length := by
  induction l generalizing n with
  | nil =>
    simp only [sumM', pure_eq_ok, Except.ok.injEq] at h
    subst h; rfl
  | cons x xs ih =>
    simp only [sumM', bind_ok, pure_eq_ok, Except.ok.injEq] at h
    obtain ⟨a, ha, b, hb, rfl⟩ := h
    have h1 := hel x List.mem_cons_self a ha
    have h2 := ih hb (fun y hy => hel y (List.mem_cons_of_mem _ hy))
    simp only [List.length_cons]; omega

/-- `G` is closed under the legal successors the full generator produces -/
def ClosedUnderMoves (kt : Killers) (G : Position → Prop) : Prop :=
  ∀ p ms rm q, G p → generateMoves kt p = .ok ms → rm ∈ ms → makeMove p rm.mov = .ok (q, true) → G q

/-- `P` holds on every position reached from `p` by exactly `d` generated legal moves (the positions
    on which perft at depth `d + 1` calls its leaf counter) -/
def LeavesOk (kt : Killers) (P : Position → Prop) : Nat → Position → Prop
  | 0, p => P p
  | d + 1, p => ∀ ms rm q, generateMoves kt p = .ok ms → rm ∈ ms → makeMove p rm.mov = .ok (q, true) →
      LeavesOk kt P d q

theorem leavesOk_of_closed {kt : Killers} {G P : Position → Prop} (hG : ∀ p, G p → P p)
    (hstep : ClosedUnderMoves kt G) : ∀ (d : Nat) (p : Position), G p → LeavesOk kt P d p := by
  intro d
  induction d with
  | zero => intro p hp; exact hG p hp
  | succ d ih =>
    intro p hp ms rm q hms hrm hq
    exact ih q (hstep p ms rm q hp hms hrm hq)

/-- every generated move passes MakeMove's king-safety verdict -/
theorem generateMoves_legal {kt : Killers} {p : Position} {ms : List RMove} {rm : RMove} {r : Position × Bool}
    (hms : generateMoves kt p = .ok ms) (hrm : rm ∈ ms) (hr : makeMove p rm.mov = .ok r) : r.2 = true := by
  simp only [generateMoves, bind_ok] at hms
  obtain ⟨ps, _, hf⟩ := hms
  obtain ⟨_, rfl⟩ := legalFilter_ok hf
  have h := (List.mem_filter.mp hrm).2
  have e : isLegal p rm.mov = .ok r.2 := by simp only [isLegal, hr, ok_bind, pure_eq_ok]
  rw [legalB_of_ok e] at h
  exact h

theorem perft_paths {kt : Killers} {cap : Nat} :
    ∀ (d idx : Nat) (p : Position) (n n' : Nat), LeavesOk kt CountOk d p →
      perft kt cap (d + 1) idx p = .ok n → pathsM kt (d + 1) p = .ok n' → n = n' := by
  intro d
  induction d with
  | zero =>
    intro idx p n n' hc h1 h2
    simp only [pathsM, bind_ok] at h2
    obtain ⟨ms, hms, h2⟩ := h2
    simp only [perft] at h1
    simp only [LeavesOk] at hc
    have e1 := countMoves_length hc.size hc.ep hc.pawns hc.capture hc.king hc.castle hms h1
    have e2 := sum_const_one h2 (by
      intro rm _ a ha
      simp only [bind_ok, pure_eq_ok, Except.ok.injEq] at ha
      obtain ⟨_, _, rfl⟩ := ha; rfl)
    omega
  | succ d ih =>
    intro idx p n n' hp h1 h2
    rw [pathsM] at h2
    simp only [bind_ok] at h2
    obtain ⟨ms, hms, h2⟩ := h2
    simp only [perft, bind_ok] at h1
    obtain ⟨ms', hms', h1⟩ := h1
    rw [hms] at hms'; cases hms'
    refine sum_sum_eq h1 h2 ?_
    intro rm hrm a b ha hb
    split at ha
    · simp [throw_eq_error] at ha
    · simp only [bind_ok] at ha hb
      obtain ⟨r, hr, ha⟩ := ha
      obtain ⟨r', hr', hb⟩ := hb
      rw [hr] at hr'; cases hr'
      split at ha
      · simp [throw_eq_error] at ha
      · rename_i hleg
        have hleg' : r.2 = true := by simpa using hleg
        have hr2 : makeMove p rm.mov = .ok (r.1, true) := by rw [hr, ← hleg']
        exact ih _ _ _ _ (hp ms rm r.1 hms hrm hr2) ha hb

theorem perftTactical_paths {kt : Killers} {cap : Nat} :
    ∀ (d idx : Nat) (p : Position) (n n' : Nat), LeavesOk kt TCountOk d p →
      perftTactical kt cap (d + 1) idx p = .ok n → tpathsM kt d p = .ok n' → n = n' := by
  intro d
  induction d with
  | zero =>
    intro idx p n n' hc h1 h2
    simp only [perftTactical, tpathsM, bind_ok, pure_eq_ok, Except.ok.injEq] at h1 h2
    obtain ⟨ts, hts, rfl⟩ := h2
    simp only [LeavesOk] at hc
    exact countTactical_length hc.size hc.ep hc.pawns hc.capture hc.king h1 hts
  | succ d ih =>
    intro idx p n n' hp h1 h2
    simp only [tpathsM, perftTactical, bind_ok] at h1 h2
    obtain ⟨ms, hms, h2⟩ := h2
    obtain ⟨ms', hms', h1⟩ := h1
    rw [hms] at hms'; cases hms'
    refine sum_sum_eq h1 h2 ?_
    intro rm hrm a b ha hb
    split at ha
    · simp [throw_eq_error] at ha
    · simp only [bind_ok] at ha hb
      obtain ⟨r, hr, ha⟩ := ha
      obtain ⟨r', hr', hb⟩ := hb
      rw [hr] at hr'; cases hr'
      split at ha
      · simp [throw_eq_error] at ha
      · rename_i hleg
        have hleg' : r.2 = true := by simpa using hleg
        have hr2 : makeMove p rm.mov = .ok (r.1, true) := by rw [hr, ← hleg']
        exact ih _ _ _ _ (hp ms rm r.1 hms hrm hr2) ha hb

/-- depth 0 of `perftTactical` is the same leaf count as depth 1 -/
theorem perftTactical_zero {kt : Killers} {cap idx : Nat} {p : Position} :
    perftTactical kt cap 0 idx p = perftTactical kt cap 1 idx p := by
  simp only [perftTactical]

/-- the two ways of counting tactical leaves (tactical generator / tactical-flagged moves of the
    full generator) agree along the whole tree -/
theorem tpaths_filter {kt : Killers} :
    ∀ (d : Nat) (p : Position) (n n' : Nat), LeavesOk kt CellsOk d p → tpathsM kt d p = .ok n →
      tpathsF kt d p = .ok n' → n = n' := by
  intro d
  induction d with
  | zero =>
    intro p n n' hp h1 h2
    simp only [tpathsM, tpathsF, bind_ok, pure_eq_ok, Except.ok.injEq] at h1 h2
    obtain ⟨ts, hts, rfl⟩ := h1
    obtain ⟨ms, hms, rfl⟩ := h2
    simp only [LeavesOk] at hp
    have h := generate_tactical_rel hp hms hts
    unfold TacRel at h
    have := congrArg List.length h
    simpa using this
  | succ d ih =>
    intro p n n' hp h1 h2
    simp only [tpathsM, tpathsF, bind_ok] at h1 h2
    obtain ⟨ms, hms, h1⟩ := h1
    obtain ⟨ms', hms', h2⟩ := h2
    rw [hms] at hms'; cases hms'
    refine sum_sum_eq h1 h2 ?_
    intro rm hrm a b ha hb
    simp only [bind_ok] at ha hb
    obtain ⟨r, hr, ha⟩ := ha
    obtain ⟨r', hr', hb⟩ := hb
    rw [hr] at hr'; cases hr'
    have hleg := generateMoves_legal hms hrm hr
    have hr2 : makeMove p rm.mov = .ok (r.1, true) := by rw [hr, ← hleg]
    exact ih _ _ _ (hp ms rm r.1 hms hrm hr2) ha hb

end Magog.Count
