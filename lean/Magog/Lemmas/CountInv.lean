import Magog.Lemmas.LegalMoves
import Magog.Props.C06

/-! The side conditions of the C06 counting theorems (`Count.CellsOk`, `BoardSize`, `EpRankOk`, `PawnsOk`,
    `CaptureOk`, `KingsOk` / `KingStepSafe`, `CastleSafe`) all follow from the shared invariant `Inv`
    together with `OppSafe` ("the side not to move is not in check"; needed for "the kings are not
    adjacent" and for `CastleSafe`). -/

set_option autoImplicit false

namespace Magog.CountInv
open Magog Magog.Model Magog.Atk Magog.Geo Magog.Count Magog.MM Magog.LegalMoves

variable {p : Position}

theorem cellOk_codes : ∀ v ∈ 0 :: pieceCodes, CellOk v := by decide

theorem cellsOk_of_inv (hI : Inv p) : CellsOk p := by
  intro x hx
  obtain ⟨i, hi, rfl⟩ := List.mem_iff_getElem.1 hx
  have hi' : i < p.board.size := by simpa using hi
  have hi128 : i < 128 := by rw [← hI.board.size]; exact hi'
  have hget : p.board[i]? = some (p.board.toList[i]) := by
    rw [Array.getElem?_eq_getElem hi']; simp
  cases hv : isValid i
  · have := hI.offBoard i hi128 hv
    rw [hget] at this
    rw [Option.some.inj this]
    exact cellOk_codes 0 (by simp)
  · obtain ⟨v, h1, h2⟩ := hI.board.codes i hi128 hv
    rw [hget] at h1
    rw [Option.some.inj h1]
    exact cellOk_codes v (List.mem_cons.2 h2)

theorem boardSize_of_inv (hI : Inv p) : BoardSize p := hI.board.size

theorem epRankOk_of_inv (hI : Inv p) : EpRankOk p := by
  rcases hI.ep with h | h
  · exact .inl h
  · refine .inr ⟨h.2.1, ?_⟩
    have := h.2.2.2
    split at this
    · rename_i hw; rw [if_pos hw]; exact this.1
    · rename_i hw; rw [if_neg hw]; exact this.1

theorem pawnsOk_of_inv (hI : Inv p) : PawnsOk p := by
  obtain ⟨c1, _, _, c4, _⟩ := ctx_fields (p := p) rfl
  intro f hf
  rw [c1] at hf
  rw [c4, pawn_code]
  exact ((hI.sideInv _).ok.pawn_cell hf).2

theorem captureOk_of_inv (hI : Inv p) : CaptureOk p := by
  obtain ⟨_, c2, _, _, c5, _⟩ := ctx_fields (p := p) rfl
  rw [CaptureOk, c2, c5]
  refine ⟨(hI.sideInv _).ndPieces, fun a ha => ?_⟩
  obtain ⟨_, v, hv, hcell⟩ := (hI.sideInv _).ok.piece_cell ha
  rw [hcell, king_code, pawn_code]
  refine ⟨fun e => officer_ne_zero hv (Option.some.inj e), fun e => ?_, fun e => ?_⟩
  · rw [Option.some.inj e] at hv; exact kingOf_not_officer _ _ hv
  · rw [Option.some.inj e] at hv; exact pawnOf_not_officer _ _ hv

theorem kingsOk_of_inv (hI : Inv p) (hS : OppSafe p) : KingsOk p := by
  obtain ⟨c1, c2, _, c4, _⟩ := ctx_fields (p := p) rfl
  have hcur := (hI.sideInv (whiteTurn p)).ok
  have hen := (hI.sideInv (!whiteTurn p)).ok
  have hsafe := safe_of_oppSafe hI rfl hS
  obtain ⟨hk88, hkc⟩ := hcur.king_cell
  rw [KingsOk, c1, c2, c4, king_code]
  refine ⟨hkc, fun hm => ?_, fun e => ?_, fun d hd e => ?_⟩
  · obtain ⟨_, v, hv, hcell⟩ := hen.piece_cell hm
    rw [hkc] at hcell
    rw [← Option.some.inj hcell] at hv
    exact kingOf_not_officer _ _ hv
  · have := hen.king_cell.2
    rw [← e, hkc] at this
    exact kingOf_ne_not _ (Option.some.inj this)
  · have h88 : addb (p.side (whiteTurn p)).king d ∈ sq88 := e ▸ hen.king_cell.1
    have h0 := hsafe.king
    rw [← e] at h0
    exact GenGeo.king_geo hk88 hd h88 h0

theorem tcountOk_of_inv (hI : Inv p) (hS : OppSafe p) : TCountOk p :=
  ⟨boardSize_of_inv hI, epRankOk_of_inv hI, pawnsOk_of_inv hI, captureOk_of_inv hI,
   kingStepSafe_of_kingsOk (kingsOk_of_inv hI hS)⟩

/-- all side conditions of `countMoves_eq_length` hold on a well-formed position with the opponent not in
    check -/
theorem countOk_of_inv (hI : Inv p) (hS : OppSafe p) : CountOk p :=
  { toTCountOk := tcountOk_of_inv hI hS, castle := castleSafe_of_inv hI hS }

end Magog.CountInv
