import Magog.Model.Mirror
import Magog.Lemmas.Count
import Magog.Lemmas.Geometry

/-! C15 helpers, part 1: the value-or-panic view `okVal` of the model monad, and the elementary
    facts about `mirrorSq`, `mirrorPiece`, `mirrorBoard`, `mirrorFlags`. -/

namespace Magog.Mir
open Magog Magog.Model Magog.Count Magog.Geo

/-! ### `okVal`: a computation up to the panic payload -/

@[simp] theorem okVal_ok {α} (a : α) : okVal (Except.ok a : M α) = some a := rfl
@[simp] theorem okVal_error {α} (e : Panic) : okVal (Except.error e : M α) = none := rfl
@[simp] theorem okVal_pure {α} (a : α) : okVal (pure a : M α) = some a := rfl
@[simp] theorem okVal_throw {α} (e : Panic) : okVal (throw e : M α) = none := rfl

@[simp] theorem okVal_bind {α β} (x : M α) (f : α → M β) :
    okVal (x >>= f) = (okVal x).bind fun a => okVal (f a) := by
  cases x <;> rfl

@[simp] theorem okVal_map {α β} (f : α → β) (x : M α) : okVal (f <$> x) = (okVal x).map f := by
  cases x <;> rfl

theorem okVal_ite {α} (c : Prop) [Decidable c] (x y : M α) :
    okVal (if c then x else y) = if c then okVal x else okVal y := by
  split <;> rfl

@[simp] theorem okVal_andM (a : Bool) (b : M Bool) :
    okVal (andM a b) = if a then okVal b else some false := by
  cases a <;> rfl

@[simp] theorem okVal_bget (b : Array Nat) (i : Nat) : okVal (bget b i) = b[i]? := by
  unfold bget
  by_cases h : i < b.size
  · simp [h]
  · simp [h]

@[simp] theorem okVal_bset (b : Array Nat) (i v : Nat) :
    okVal (bset b i v) = if i < b.size then some (b.setIfInBounds i v) else none := by
  unfold bset
  by_cases h : i < b.size <;> simp [h]

/-- equal up to the panic payload, and one of them does not panic: equal -/
theorem eq_of_okVal {α} {x y : M α} (h : okVal x = okVal y) (hy : ∃ v, y = .ok v) : x = y := by
  obtain ⟨v, rfl⟩ := hy
  exact okVal_eq_some h

theorem okVal_eq_iff {α} {x y : M α} : okVal x = okVal y ↔ ∀ v, x = .ok v ↔ y = .ok v := by
  cases x with
  | error e => cases y with
    | error e' => simp
    | ok b => simp only [okVal_error, okVal_ok, reduceCtorEq, false_iff]; intro h; exact h b rfl
  | ok a => cases y with
    | error e' => simp only [okVal_error, okVal_ok, reduceCtorEq, false_iff]; intro h; exact absurd ((h a).1 rfl) (by simp)
    | ok b =>
      simp only [okVal_ok, Option.some.injEq, Except.ok.injEq]
      exact ⟨fun h v => by rw [h], fun h => ((h a).1 rfl).symm⟩

/-! ### squares -/

theorem mirrorSq_mirrorSq (s : Nat) : mirrorSq (mirrorSq s) = s := by
  simp [mirrorSq, Nat.xor_assoc]

theorem mirrorSq_inj {a b : Nat} : mirrorSq a = mirrorSq b ↔ a = b :=
  ⟨fun h => by rw [← mirrorSq_mirrorSq a, h, mirrorSq_mirrorSq], fun h => h ▸ rfl⟩

theorem mirrorSq_lt_128 {s : Nat} (h : s < 128) : mirrorSq s < 128 :=
  Nat.xor_lt_two_pow (n := 7) h (by decide)

theorem mirrorSq_lt_128_iff {s : Nat} : mirrorSq s < 128 ↔ s < 128 :=
  ⟨fun h => by rw [← mirrorSq_mirrorSq s]; exact mirrorSq_lt_128 h, mirrorSq_lt_128⟩

theorem mirrorSq_lt_256 {s : Nat} (h : s < 256) : mirrorSq s < 256 :=
  Nat.xor_lt_two_pow (n := 8) h (by decide)

theorem isValid_mirrorSq (s : Nat) : isValid (mirrorSq s) = isValid s := by
  simp only [isValid, mirrorSq, InvalidSq, Gen.InvalidSquare, Nat.and_xor_distrib_right]
  simp

theorem fileOf_mirrorSq (s : Nat) : fileOf (mirrorSq s) = fileOf s := by
  simp only [fileOf, mirrorSq, Nat.and_xor_distrib_right]
  simp

theorem rankOf_mirrorSq (s : Nat) : rankOf (mirrorSq s) = rankOf s ^^^ 0x70 := by
  simp only [rankOf, mirrorSq, Nat.and_xor_distrib_right]
  simp

theorem mirrorSq_mem_sq88 {s : Nat} : mirrorSq s ∈ sq88 ↔ s ∈ sq88 := by
  simp only [mem_sq88, mirrorSq_lt_128_iff, isValid_mirrorSq]

theorem mirrorEp_mirrorEp (e : Nat) : mirrorEp (mirrorEp e) = e := by
  unfold mirrorEp
  by_cases h : isValid e = true
  · simp [h, isValid_mirrorSq, mirrorSq_mirrorSq]
  · simp [h]

/-! ### pieces (bytes) -/

theorem piece_fin : ∀ x < 256,
    mirrorPiece x < 256 ∧ mirrorPiece (mirrorPiece x) = x ∧
    mirrorPiece x &&& Colorless = x &&& Colorless ∧
    (mirrorPiece x &&& WhiteBit != 0) = (x &&& BlackBit != 0) ∧
    (mirrorPiece x &&& BlackBit != 0) = (x &&& WhiteBit != 0) ∧
    (mirrorPiece x == 0) = (x == 0) := by decide +kernel

theorem mirrorPiece_lt {x : Nat} (h : x < 256) : mirrorPiece x < 256 := (piece_fin x h).1
theorem mirrorPiece_invol {x : Nat} (h : x < 256) : mirrorPiece (mirrorPiece x) = x := (piece_fin x h).2.1
theorem mirrorPiece_kind {x : Nat} (h : x < 256) : mirrorPiece x &&& Colorless = x &&& Colorless :=
  (piece_fin x h).2.2.1
theorem mirrorPiece_white {x : Nat} (h : x < 256) :
    (mirrorPiece x &&& WhiteBit != 0) = (x &&& BlackBit != 0) := (piece_fin x h).2.2.2.1
theorem mirrorPiece_black {x : Nat} (h : x < 256) :
    (mirrorPiece x &&& BlackBit != 0) = (x &&& WhiteBit != 0) := (piece_fin x h).2.2.2.2.1
theorem mirrorPiece_eq_zero {x : Nat} (h : x < 256) : (mirrorPiece x == 0) = (x == 0) :=
  (piece_fin x h).2.2.2.2.2

theorem mirrorPiece_zero : mirrorPiece 0 = 0 := by decide

theorem mirrorPiece_inj {x y : Nat} (hx : x < 256) (hy : y < 256) : mirrorPiece x = mirrorPiece y ↔ x = y :=
  ⟨fun h => by rw [← mirrorPiece_invol hx, h, mirrorPiece_invol hy], fun h => h ▸ rfl⟩

/-- a byte compared with a constant byte: mirror both -/
theorem mirrorPiece_beq {x c : Nat} (hx : x < 256) (hc : c < 256) :
    (mirrorPiece x == mirrorPiece c) = (x == c) := by
  rw [Bool.eq_iff_iff]; simp [mirrorPiece_inj hx hc]

/-! ### the board -/

@[simp] theorem size_mirrorBoard (b : Array Nat) : (mirrorBoard b).size = 128 := by
  simp [mirrorBoard]

theorem getElem?_mirrorBoard_lt (b : Array Nat) {j : Nat} (hj : j < 128) :
    (mirrorBoard b)[j]? = some (mirrorPiece (b.getD (mirrorSq j) 0)) := by
  simp [mirrorBoard, hj]

/-- slot `mirrorSq i` of the mirrored board is the mirrored slot `i` -/
theorem getElem?_mirrorBoard {b : Array Nat} (hb : b.size = 128) (i : Nat) :
    (mirrorBoard b)[mirrorSq i]? = b[i]?.map mirrorPiece := by
  by_cases hi : i < 128
  · rw [getElem?_mirrorBoard_lt b (mirrorSq_lt_128 hi), mirrorSq_mirrorSq]
    have : i < b.size := hb ▸ hi
    simp [Array.getD_eq_getD_getElem?, this]
  · have h1 : ¬ mirrorSq i < 128 := fun h => hi (mirrorSq_lt_128_iff.1 h)
    rw [Array.getElem?_eq_none (by simp; omega), Array.getElem?_eq_none (by omega)]
    rfl

theorem mirrorBoard_set {b : Array Nat} (hb : b.size = 128) (i v : Nat) :
    mirrorBoard (b.setIfInBounds i v) = (mirrorBoard b).setIfInBounds (mirrorSq i) (mirrorPiece v) := by
  apply Array.ext_getElem?
  intro j
  by_cases hj : j < 128
  · rw [getElem?_mirrorBoard_lt _ hj, Array.getElem?_setIfInBounds, getElem?_mirrorBoard_lt _ hj]
    simp only [size_mirrorBoard]
    by_cases hij : mirrorSq i = j
    · subst hij
      have hi : i < 128 := mirrorSq_lt_128_iff.1 hj
      simp [mirrorSq_mirrorSq, Array.getD_eq_getD_getElem?, hb, hi, hj]
    · have : i ≠ mirrorSq j := fun h => hij (by rw [h, mirrorSq_mirrorSq])
      simp [hij, Array.getD_eq_getD_getElem?, this]
  · rw [Array.getElem?_eq_none (by simp; omega), Array.getElem?_eq_none (by simp; omega)]

end Magog.Mir
