import Magog.Model.Uci

/-! String-level facts about `doPosition` (the Go library functions `strings.Index`, `TrimSpace`, `Split` on
    a command of the shape `<head> moves m1 m2 … mk`): the command is cut at the word `moves`, the head goes
    to `parsePosition`, the move strings come back one by one. Used by C07. -/

namespace Magog.PosCmd
open Magog Magog.Model

/-! ### white space -/

/-- an ASCII byte that is not white space -/
def CleanByte (c : Nat) : Prop := c < 128 ∧ asciiSpace c = false

/-- every multi-byte white-space sequence starts with a byte ≥ 128 -/
def HighHeads (seqs : List Bytes) : Prop := ∀ q ∈ seqs, ∃ h t, q = h :: t ∧ 128 ≤ h

def highHeadsB (seqs : List Bytes) : Bool := seqs.all fun q => match q with | h :: _ => decide (128 ≤ h) | [] => false

theorem highHeads_of_B {seqs : List Bytes} (h : highHeadsB seqs = true) : HighHeads seqs := by
  intro q hq
  have := List.all_eq_true.mp h q hq
  match q, this with
  | h :: t, this => exact ⟨h, t, rfl, by simpa using this⟩

theorem highHeads_uni : HighHeads uniSpaceSeqs := highHeads_of_B (by decide)
theorem highHeads_rev : HighHeads (uniSpaceSeqs.map List.reverse) := highHeads_of_B (by decide)

theorem spaceLen_clean {seqs : List Bytes} (hh : HighHeads seqs) {c : Nat} (r : Bytes) (hc : CleanByte c) :
    spaceLen seqs (c :: r) = 0 := by
  unfold spaceLen
  simp only [hc.2, Bool.false_eq_true, if_false]
  have : seqs.find? (fun q => q.isPrefixOf (c :: r)) = none := by
    rw [List.find?_eq_none]
    intro q hq
    obtain ⟨h, t, rfl, hge⟩ := hh q hq
    have : (h == c) = false := by
      rw [beq_eq_false_iff_ne]; have := hc.1; omega
    simp [List.isPrefixOf, this]
  rw [this]

theorem trimFront_clean {seqs : List Bytes} (hh : HighHeads seqs) (fuel : Nat) {c : Nat} (r : Bytes) (hc : CleanByte c) :
    trimFront seqs fuel (c :: r) = c :: r := by
  cases fuel with
  | zero => rfl
  | succ n => simp [trimFront, spaceLen_clean hh r hc]

theorem trimFront_sp (seqs : List Bytes) (fuel : Nat) (r : Bytes) :
    trimFront seqs (fuel + 1) (32 :: r) = trimFront seqs fuel r := by
  have : spaceLen seqs (32 :: r) = 1 := by simp [spaceLen, asciiSpace]
  simp [trimFront, this]

theorem trimLeft_clean {c : Nat} (r : Bytes) (hc : CleanByte c) : trimLeft (c :: r) = c :: r :=
  trimFront_clean highHeads_uni _ r hc

theorem trimLeft_sp (s : Bytes) : trimLeft (32 :: s) = trimLeft s := by
  unfold trimLeft
  exact trimFront_sp _ _ _

theorem trimRight_clean (l : Bytes) {d : Nat} (hd : CleanByte d) : trimRight (l ++ [d]) = l ++ [d] := by
  unfold trimRight
  rw [List.reverse_append, List.reverse_singleton, List.singleton_append, trimFront_clean highHeads_rev _ _ hd]
  simp

theorem trimRight_sp (s : Bytes) : trimRight (s ++ [32]) = trimRight s := by
  unfold trimRight
  rw [List.reverse_append, List.reverse_singleton, List.singleton_append, List.length_append, List.length_singleton,
    trimFront_sp]

/-- the string starts and ends with an ASCII byte that is not white space -/
def Ends (s : Bytes) : Prop := (∃ c r, s = c :: r ∧ CleanByte c) ∧ (∃ l d, s = l ++ [d] ∧ CleanByte d)

/-- Boolean checker for `Ends` (for concrete strings) -/
def endsB (s : Bytes) : Bool :=
  match s.head?, s.getLast? with
  | some c, some d => decide (c < 128) && !asciiSpace c && decide (d < 128) && !asciiSpace d
  | _, _ => false

theorem ends_of_B {s : Bytes} (h : endsB s = true) : Ends s := by
  unfold endsB at h
  split at h
  · rename_i c d hc hd
    simp only [Bool.and_eq_true, decide_eq_true_eq, Bool.not_eq_true'] at h
    obtain ⟨⟨⟨h1, h2⟩, h3⟩, h4⟩ := h
    constructor
    · match s, hc with
      | x :: r, hc =>
        simp only [List.head?_cons, Option.some.injEq] at hc
        subst hc
        exact ⟨x, r, rfl, h1, h2⟩
    · have hne : s ≠ [] := by intro e; subst e; simp at hd
      rw [List.getLast?_eq_some_getLast hne, Option.some.injEq] at hd
      exact ⟨s.dropLast, d, by rw [← hd, List.dropLast_concat_getLast hne], h3, h4⟩
  · cases h

theorem Ends.trim {s : Bytes} (h : Ends s) : trimSpace s = s := by
  obtain ⟨⟨c, r, h1, hc⟩, ⟨l, d, h2, hd⟩⟩ := h
  unfold trimSpace
  rw [h1, trimLeft_clean r hc, ← h1, h2, trimRight_clean l hd]

theorem Ends.trim_sp_left {s : Bytes} (h : Ends s) : trimSpace (32 :: s) = s := by
  have := h.trim
  unfold trimSpace at this ⊢
  rw [trimLeft_sp, this]

theorem Ends.trim_sp_right {s : Bytes} (h : Ends s) : trimSpace (s ++ [32]) = s := by
  obtain ⟨⟨c, r, h1, hc⟩, ⟨l, d, h2, hd⟩⟩ := h
  unfold trimSpace
  rw [h1, List.cons_append, trimLeft_clean _ hc, ← List.cons_append, ← h1, trimRight_sp, h2, trimRight_clean l hd]

theorem Ends.append {a b : Bytes} (x : Bytes) (ha : Ends a) (hb : Ends b) : Ends (a ++ x ++ b) := by
  obtain ⟨⟨c, r, h1, hc⟩, _⟩ := ha
  obtain ⟨_, ⟨l, d, h2, hd⟩⟩ := hb
  refine ⟨⟨c, r ++ x ++ b, by rw [h1]; simp, hc⟩, ⟨a ++ x ++ l, d, by rw [h2]; simp, hd⟩⟩

/-! ### `strings.Index` -/

theorem indexOf_skip {h : Nat} {t : Bytes} : ∀ (l rest : Bytes), h ∉ l →
    indexOf (h :: t) (l ++ rest) = (indexOf (h :: t) rest).map (· + l.length)
  | [], rest, _ => by simp
  | c :: l, rest, hn => by
    have hc : (h == c) = false := by
      rw [beq_eq_false_iff_ne]; intro e; exact hn (e ▸ List.mem_cons_self)
    have ih := indexOf_skip (h := h) (t := t) l rest (fun hm => hn (List.mem_cons_of_mem _ hm))
    rw [List.cons_append, indexOf]
    simp only [List.isPrefixOf, hc, Bool.false_and, Bool.false_eq_true, if_false, ih, Option.map_map]
    cases indexOf (h :: t) rest with
    | none => rfl
    | some v => simp only [Option.map_some, Function.comp, List.length_cons, Option.some.injEq]; omega

theorem isPrefixOf_append (a b : Bytes) : a.isPrefixOf (a ++ b) = true := by
  induction a with
  | nil => simp [List.isPrefixOf]
  | cons x xs ih => simp [ih]

theorem indexOf_here (h : Nat) (t rest : Bytes) : indexOf (h :: t) ((h :: t) ++ rest) = some 0 := by
  rw [List.cons_append, indexOf, ← List.cons_append, isPrefixOf_append]
  rfl

/-! ### `strings.Join` / `strings.Split` on blanks -/

/-- `strings.Join(ts, " ")` -/
def joinSp : List Bytes → Bytes
  | [] => []
  | [t] => t
  | t :: t' :: ts => t ++ 32 :: joinSp (t' :: ts)

theorem splitOn_cons_field (sep : Nat) : ∀ (t rest : Bytes), sep ∉ t →
    splitOn sep (t ++ sep :: rest) = t :: splitOn sep rest
  | [], rest, _ => by simp [splitOn]
  | c :: t, rest, hn => by
    have hc : (c == sep) = false := by
      rw [beq_eq_false_iff_ne]; intro e; exact hn (e ▸ List.mem_cons_self)
    have ih := splitOn_cons_field sep t rest (fun hm => hn (List.mem_cons_of_mem _ hm))
    rw [List.cons_append, splitOn]
    simp only [hc, Bool.false_eq_true, if_false, ih]

theorem splitOn_single (sep : Nat) : ∀ (t : Bytes), sep ∉ t → splitOn sep t = [t]
  | [], _ => rfl
  | c :: t, hn => by
    have hc : (c == sep) = false := by
      rw [beq_eq_false_iff_ne]; intro e; exact hn (e ▸ List.mem_cons_self)
    have ih := splitOn_single sep t (fun hm => hn (List.mem_cons_of_mem _ hm))
    rw [splitOn]
    simp only [hc, Bool.false_eq_true, if_false, ih]

theorem splitOn_joinSp : ∀ (ts : List Bytes), ts ≠ [] → (∀ t ∈ ts, 32 ∉ t) → splitOn 32 (joinSp ts) = ts
  | [], h, _ => absurd rfl h
  | [t], _, hc => splitOn_single 32 t (hc t List.mem_cons_self)
  | t :: t' :: ts, _, hc => by
    rw [joinSp, splitOn_cons_field 32 t _ (hc t List.mem_cons_self),
      splitOn_joinSp (t' :: ts) (by simp) (fun x hx => hc x (List.mem_cons_of_mem _ hx))]

/-- a word of a command: not empty, ASCII, no white space -/
def Word (t : Bytes) : Prop := t ≠ [] ∧ ∀ c ∈ t, CleanByte c

theorem cleanByte_ne_sp {c : Nat} (h : CleanByte c) : c ≠ 32 := by
  intro e; subst e; exact absurd h.2 (by decide)

theorem Word.no_sp {t : Bytes} (h : Word t) : 32 ∉ t := fun hm => cleanByte_ne_sp (h.2 32 hm) rfl

theorem Word.ends {t : Bytes} (h : Word t) : Ends t := by
  obtain ⟨hne, hc⟩ := h
  constructor
  · match t, hne with
    | c :: r, _ => exact ⟨c, r, rfl, hc c List.mem_cons_self⟩
  · refine ⟨t.dropLast, t.getLast hne, (List.dropLast_concat_getLast hne).symm, hc _ (List.getLast_mem hne)⟩

theorem joinSp_ends : ∀ (ts : List Bytes), ts ≠ [] → (∀ t ∈ ts, Word t) → Ends (joinSp ts)
  | [], h, _ => absurd rfl h
  | [t], _, hw => (hw t List.mem_cons_self).ends
  | t :: t' :: ts, _, hw => by
    have h1 := (hw t List.mem_cons_self).ends
    have h2 := joinSp_ends (t' :: ts) (by simp) (fun x hx => hw x (List.mem_cons_of_mem _ hx))
    have := Ends.append [32] h1 h2
    rw [joinSp]
    simpa using this

/-! ### `doPosition` on `<head> moves m1 … mk` -/

/-- the argument of the `position` command: a head, the word `moves`, the move words -/
def posCmd (head : Bytes) (texts : List Bytes) : Bytes :=
  (head ++ [32]) ++ (Gen.uMoves_bytes ++ (32 :: joinSp texts))

/-- the input line `position startpos moves t1 … tk` -/
def startposLine (texts : List Bytes) : Bytes :=
  Gen.uPosition_bytes ++ 32 :: posCmd Gen.uStartpos_bytes texts

/-- the input line `position fen <f> moves t1 … tk` -/
def fenLine (f : Bytes) (texts : List Bytes) : Bytes :=
  Gen.uPosition_bytes ++ 32 :: posCmd (Gen.uFen_bytes ++ 32 :: f) texts

theorem positionHead_moves {ops : EngineOps} (hts : ops.str.trimSpace = trimSpace) (st : UciState)
    (head : Bytes) (texts : List Bytes) (hm : 109 ∉ head) (hends : Ends head) (hne : texts ≠ [])
    (hw : ∀ t ∈ texts, Word t) :
    positionHead ops st (posCmd head texts) = (do
      let r ← parsePosition ops st head
      match r.2 with
      | some e => pure (.rejected r.1 e)
      | none => pure (.moves r.1 texts)) := by
  have hidx : indexOf Gen.uMoves_bytes (posCmd head texts) = some (head.length + 1) := by
    unfold posCmd
    simp only [Gen.uMoves_bytes]
    rw [indexOf_skip (head ++ [32]) _ (by simp [hm]), indexOf_here]
    simp
  have hlen : head.length + 1 ≤ (posCmd head texts).length := by
    unfold posCmd; simp only [List.length_append, List.length_cons, List.length_nil]; omega
  have hlen2 : head.length + 1 + Gen.uMoves_bytes.length ≤ (posCmd head texts).length := by
    unfold posCmd; simp only [List.length_append, List.length_cons, List.length_nil]; omega
  have htake : (posCmd head texts).take (head.length + 1) = head ++ [32] := by
    unfold posCmd
    rw [List.take_append_of_le_length (by simp), List.take_of_length_le (by simp)]
  have hdrop : (posCmd head texts).drop (head.length + 1 + Gen.uMoves_bytes.length) = 32 :: joinSp texts := by
    unfold posCmd
    rw [← List.append_assoc]
    rw [List.drop_append_of_le_length (by simp only [List.length_append, List.length_cons, List.length_nil]; omega),
      List.drop_of_length_le (by simp only [List.length_append, List.length_cons, List.length_nil]; omega)]
    rfl
  have hbody := joinSp_ends texts hne hw
  unfold positionHead
  simp only [hidx, sliceTo, hlen, if_true, sliceFrom, hlen2, htake, hdrop, hts, hends.trim_sp_right,
    hbody.trim_sp_left, splitOn_joinSp texts hne (fun t ht => (hw t ht).no_sp), pure_bind]
  cases parsePosition ops st head with
  | error e => rfl
  | ok r => obtain ⟨a, _ | e⟩ := r <;> rfl

theorem doPosition_moves {ops : EngineOps} (hts : ops.str.trimSpace = trimSpace) (st : UciState)
    (head : Bytes) (texts : List Bytes) (hm : 109 ∉ head) (hends : Ends head) (hne : texts ≠ [])
    (hw : ∀ t ∈ texts, Word t) :
    doPosition ops st (posCmd head texts) = (do
      let r ← parsePosition ops st head
      match r.2 with
      | some e => pure (r.1, [.invalidFen e])
      | none => applyMoves ops r.1 texts) := by
  unfold doPosition
  rw [positionHead_moves hts st head texts hm hends hne hw]
  cases parsePosition ops st head with
  | error e => rfl
  | ok r => obtain ⟨a, _ | e⟩ := r <;> rfl

/-- `startpos` -/
theorem parsePosition_startpos (ops : EngineOps) (st : UciState) :
    parsePosition ops st Gen.uStartpos_bytes = .ok ({ st with pos := some ops.startPos }, none) := by
  unfold parsePosition
  rw [if_pos (by decide)]
  rfl

/-- `fen <text>` hands `<text>` to the FEN loader -/
theorem parsePosition_fen {ops : EngineOps} (hts : ops.str.trimSpace = trimSpace) (st : UciState) (f : Bytes)
    (hends : Ends f) :
    parsePosition ops st (Gen.uFen_bytes ++ 32 :: f) = (do
      match (← parseFen f) with
      | .error e => pure (st, some e)
      | .ok p => pure ({ st with pos := some p }, none)) := by
  have h1 : hasPrefix (Gen.uFen_bytes ++ 32 :: f) Gen.uStartpos_bytes = false := by
    simp [hasPrefix, Gen.uFen_bytes, Gen.uStartpos_bytes, List.isPrefixOf]
  have h2 : hasPrefix (Gen.uFen_bytes ++ 32 :: f) (Gen.uFen_bytes ++ [32]) = true := by
    have : Gen.uFen_bytes ++ 32 :: f = (Gen.uFen_bytes ++ [32]) ++ f := by simp
    rw [this]
    exact isPrefixOf_append _ _
  have h3 : trimPrefix (Gen.uFen_bytes ++ 32 :: f) Gen.uFen_bytes = 32 :: f := by
    unfold trimPrefix
    rw [show hasPrefix (Gen.uFen_bytes ++ 32 :: f) Gen.uFen_bytes = true from isPrefixOf_append _ _, if_pos rfl,
      List.drop_left]
  unfold parsePosition
  simp only [h1, h2, h3, Bool.false_eq_true, if_false, if_true, hts, hends.trim_sp_left]
  cases parseFen f with
  | error e => rfl
  | ok r => cases r <;> rfl

theorem word_startpos : Word Gen.uStartpos_bytes := by
  refine ⟨by decide, ?_⟩
  have : ∀ c ∈ Gen.uStartpos_bytes, c < 128 ∧ asciiSpace c = false := by decide
  exact this

theorem ends_fenHead {f : Bytes} (hends : Ends f) : Ends (Gen.uFen_bytes ++ 32 :: f) := by
  have hw : Word Gen.uFen_bytes := ⟨by decide, by
    have : ∀ c ∈ Gen.uFen_bytes, c < 128 ∧ asciiSpace c = false := by decide
    exact this⟩
  have := Ends.append [32] hw.ends hends
  simpa using this

theorem ends_posCmd {head : Bytes} {texts : List Bytes} (hh : Ends head) (hne : texts ≠ [])
    (hw : ∀ t ∈ texts, Word t) : Ends (posCmd head texts) := by
  have := Ends.append (32 :: Gen.uMoves_bytes ++ [32]) hh (joinSp_ends texts hne hw)
  unfold posCmd
  simpa using this

/-- a whole input line `position <cmd>` reaches `doPosition` with `<cmd>` -/
theorem uciStep_position {ops : EngineOps} (hts : ops.str.trimSpace = trimSpace) (st : UciState) (cmd : Bytes)
    (hends : Ends cmd) : uciStep ops st (Gen.uPosition_bytes ++ 32 :: cmd) = doPosition ops st cmd := by
  have hne : ∀ k : Bytes, k.head? ≠ some 112 → ((Gen.uPosition_bytes ++ 32 :: cmd) == k) = false := by
    intro k hk
    rw [beq_eq_false_iff_ne]
    intro e
    apply hk
    rw [← e]
    rfl
  have hpre : hasPrefix (Gen.uPosition_bytes ++ 32 :: cmd) Gen.uPosition_bytes = true := isPrefixOf_append _ _
  have htrim : trimPrefix (Gen.uPosition_bytes ++ 32 :: cmd) Gen.uPosition_bytes = 32 :: cmd := by
    unfold trimPrefix
    rw [hpre, if_pos rfl, List.drop_left]
  unfold uciStep
  rw [hne Gen.uIsReady_bytes (by decide), hne kwEval (by decide), hne kwQuit (by decide)]
  simp only [Bool.false_eq_true, if_false, hpre, if_true, htrim, hts, hends.trim_sp_left]

end Magog.PosCmd
