import Magog.Lemmas.GenGeometry
import Magog.Lemmas.Inv
import Magog.Lemmas.KillerIndep
import Magog.Lemmas.CountTac
import Magog.Lemmas.CountPromo

/-! The pseudo-legal generator as a pure list (for property C01).

For a well-formed position (`Inv`) every generator of `genPseudo` runs without panic and its result,
viewed as a list of `(move, tactical flag)` pairs (`view`; rankings are dropped), is a pure list function
of the board (`genList`). This gives "generation never panics" directly and reduces soundness,
completeness and duplicate-freeness to statements about pure lists (`Lemmas/GenPseudo.lean`). -/

set_option linter.unusedSimpArgs false

namespace Magog.GenPure
open Magog Magog.Model Magog.Geo Magog.Atk Magog.GenGeoO Magog.Count

/-- a generated move without its ranking -/
def view (rm : RMove) : Move × Bool := (rm.mov, rm.tactical)

/-- total board read (only used at indices < 128 = board size) -/
def cell (board : Array Nat) (s : Nat) : Nat := board.getD s 0

def colorBit (w : Bool) : Nat := if w then WhiteBit else BlackBit

def kinds : List Nat := [Pawn, Knight, Bishop, Rook, Queen, King]

/-! ### board cells -/

theorem cell_of_some {board : Array Nat} {s v : Nat} (h : board[s]? = some v) : cell board s = v :=
  getD_of_some h

theorem some_cell {board : Array Nat} {s : Nat} (hs : s < board.size) : board[s]? = some (cell board s) := by
  simp [cell, Array.getD_eq_getD_getElem?, hs]

theorem bget_cell {board : Array Nat} {s : Nat} (hs : s < board.size) : bget board s = .ok (cell board s) :=
  bget_of_some (some_cell hs)

theorem cell_code {board : Array Nat} (hb : BoardOk board) {s : Nat} (hs : s ∈ sq88) :
    cell board s = 0 ∨ cell board s ∈ pieceCodes := by
  obtain ⟨h1, h2⟩ := mem_sq88.1 hs
  obtain ⟨v, hv, hc⟩ := hb.codes s h1 h2
  rw [cell_of_some hv]; exact hc

theorem lt_size {board : Array Nat} (hb : BoardOk board) {s : Nat} (hs : s ∈ sq88) : s < board.size := by
  rw [hb.size]; exact (mem_sq88.1 hs).1

/-- what the colour / kind bit tests of the generator mean for a well-formed cell -/
theorem code_facts {v : Nat} (hv : v = 0 ∨ v ∈ pieceCodes) (w : Bool) :
    ((v &&& Colorless != 0) = (decodePiece v).isSome) ∧
    ((v &&& colorBit w != 0) = (match decodePiece v with | some m => m.color == colorOf w | none => false)) ∧
    (v = 0 ∨ v &&& Colorless ∈ kinds) ∧ ((v == 0) = (decodePiece v).isNone) := by
  have : ∀ v ∈ 0 :: pieceCodes, ∀ w : Bool,
    ((v &&& Colorless != 0) = (decodePiece v).isSome) ∧
    ((v &&& colorBit w != 0) = (match decodePiece v with | some m => m.color == colorOf w | none => false)) ∧
    (v = 0 ∨ v &&& Colorless ∈ kinds) ∧ ((v == 0) = (decodePiece v).isNone) := by decide
  exact this v (List.mem_cons.2 hv) w

/-- a cell without either colour bit is empty -/
theorem code_empty {v : Nat} (hv : v = 0 ∨ v ∈ pieceCodes) (w : Bool)
    (h1 : v &&& colorBit w = 0) (h2 : v &&& colorBit (!w) = 0) : v = 0 := by
  have : ∀ v ∈ 0 :: pieceCodes, ∀ w : Bool, v &&& colorBit w = 0 → v &&& colorBit (!w) = 0 → v = 0 := by decide
  exact this v (List.mem_cons.2 hv) w h1 h2

/-- a cell holds at most one colour bit -/
theorem code_excl {v : Nat} (hv : v = 0 ∨ v ∈ pieceCodes) (w : Bool)
    (h1 : v &&& colorBit w ≠ 0) : v &&& colorBit (!w) = 0 := by
  have : ∀ v ∈ 0 :: pieceCodes, ∀ w : Bool, v &&& colorBit w ≠ 0 → v &&& colorBit (!w) = 0 := by decide
  exact this v (List.mem_cons.2 hv) w h1

theorem pieceToScore_ok {k : Nat} (hk : k ∈ kinds) : ∃ s, pieceToScore k = .ok s := by
  simp only [kinds, List.mem_cons, List.not_mem_nil, or_false] at hk
  rcases hk with rfl | rfl | rfl | rfl | rfl | rfl <;> exact ⟨_, rfl⟩

/-! ### the environment of one generator run -/

structure Env (p : Position) (c : Ctx) (w : Bool) (kt : Killers) : Prop where
  board : BoardOk p.board
  off : ∀ i : Nat, i < 128 → isValid i = false → p.board[i]? = some 0
  cur : SideOk p.board c.cur w
  en : SideOk p.board c.en (!w)
  curBit : c.curBit = colorBit w
  enBit : c.enBit = colorBit (!w)
  adv : c.adv = advOf w
  startRank : c.startRank = startRankOf w
  promoRank : c.promoRank = promoRankOf w
  kt : kt.size = Gen.killerMovesMaxPly
  noBack : ∀ s ∈ c.cur.pawns, notBack s = true
  castleQ : c.qOk = true → c.cur.king = kingHome w ∧ cell p.board (kingHome w - 4) = (if w then Gen.WRook else Gen.BRook)
  castleK : c.kOk = true → c.cur.king = kingHome w ∧ cell p.board (kingHome w + 3) = (if w then Gen.WRook else Gen.BRook)
  ep : p.ep = InvalidSq ∨ (p.ep ∈ sq88 ∧ cell p.board p.ep = 0)
  pawnsNodup : c.cur.pawns.Nodup
  piecesNodup : c.cur.pieces.Nodup

/-! ### moves -/

def plainMv (board : Array Nat) (frm to : Nat) : Move × Bool :=
  (⟨frm, to, 0, InvalidSq⟩, cell board to &&& Colorless != 0)

theorem moveOrCapture_view {kt : Killers} (hk : kt.size = Gen.killerMovesMaxPly) (ply : Int) (frm to : Nat)
    {att x : Nat} (ha : att ∈ kinds) (hx : x = 0 ∨ x ∈ kinds) :
    ∃ rm, moveOrCapture kt ply frm to att x = .ok rm ∧ view rm = (⟨frm, to, 0, InvalidSq⟩, x != 0) := by
  unfold moveOrCapture
  by_cases h0 : x = 0
  · subst h0
    obtain ⟨rm, hrm⟩ := Magog.Lemmas.KillerIndep.quiet_total hk ply ⟨frm, to, 0, InvalidSq⟩
    refine ⟨rm, by simpa using hrm, ?_⟩
    obtain ⟨h1, h2⟩ := quiet_shape hrm
    simp [view, h1, h2]
  · have hx' : x ∈ kinds := by rcases hx with h | h; exact absurd h h0; exact h
    obtain ⟨s1, hs1⟩ := pieceToScore_ok hx'
    obtain ⟨s2, hs2⟩ := pieceToScore_ok ha
    have : (x == 0) = false := by simpa using h0
    refine ⟨⟨⟨frm, to, 0, InvalidSq⟩, s1 - s2 + Gen.rankingBonusTactical, true⟩,
      by simp only [this, Bool.false_eq_true, if_false, captureRM, hs1, hs2, ok_bind, pure_eq_ok], ?_⟩
    simp [view, h0]

/-- generic: a `flatMapM'` loop whose body is pointwise a pure list -/
theorem flatMapM'_view {α} {f : α → M (List RMove)} {g : α → List (Move × Bool)} (l : List α)
    (h : ∀ x ∈ l, ∃ a, f x = .ok a ∧ a.map view = g x) :
    ∃ r, flatMapM' f l = .ok r ∧ r.map view = l.flatMap g := by
  induction l with
  | nil => exact ⟨[], rfl, rfl⟩
  | cons x xs ih =>
    obtain ⟨a, ha, hav⟩ := h x List.mem_cons_self
    obtain ⟨r, hr, hrv⟩ := ih (fun y hy => h y (List.mem_cons_of_mem _ hy))
    refine ⟨a ++ r, by simp only [flatMapM', ha, hr, ok_bind, pure_eq_ok], ?_⟩
    simp [hav, hrv]

/-! ### single-step pieces (knight, king) -/

/-- targets one step away: on the board, not occupied by an own man, and passing `extra` -/
def stepList (board : Array Nat) (curBit frm : Nat) (dirs : List Nat) (extra : Nat → Bool) : List (Move × Bool) :=
  ((stepSqs frm dirs).filter fun to => cell board to &&& curBit == 0 && extra to).map (plainMv board frm)

theorem flatMap_step (frm : Nat) (P : Nat → Bool) (g : Nat → Move × Bool) (dirs : List Nat) :
    dirs.flatMap (fun d => if isValid (addb frm d) && P (addb frm d) then [g (addb frm d)] else [])
      = ((stepSqs frm dirs).filter P).map g := by
  induction dirs with
  | nil => rfl
  | cons d ds ih =>
    simp only [List.flatMap_cons, ih, stepSqs, List.map_cons, List.filter_cons]
    cases hv : isValid (addb frm d) <;> cases hp : P (addb frm d) <;> simp [hp]

theorem cell_kind {board : Array Nat} (hb : BoardOk board) {s : Nat} (hs : s ∈ sq88) :
    cell board s &&& Colorless = 0 ∨ cell board s &&& Colorless ∈ kinds := by
  rcases (code_facts (cell_code hb hs) true).2.2.1 with h | h
  · left; rw [h]; rfl
  · exact .inr h

theorem knightGen_view {p : Position} {c : Ctx} {w : Bool} {kt : Killers} (env : Env p c w kt) {frm : Nat}
    (hf : frm ∈ sq88) (hfk : cell p.board frm &&& Colorless ∈ kinds) :
    ∃ a, knightGen p c kt frm = .ok a ∧
      a.map view = stepList p.board c.curBit frm knightDirs (fun _ => true) := by
  unfold knightGen stepList
  rw [← flatMap_step frm]
  apply flatMapM'_view
  intro d _
  cases hv : isValid (addb frm d)
  · exact ⟨[], by simp only [hv, andM_false, ok_bind, Bool.false_eq_true, if_false, pure_eq_ok], by simp [hv]⟩
  · have hm := addb_mem hv
    have hlt := lt_size env.board hm
    have hfl := lt_size env.board hf
    cases hc : (cell p.board (addb frm d) &&& c.curBit == 0)
    · exact ⟨[], by simp only [hv, andM_true, bget_cell hlt, ok_bind, pure_eq_ok, hc, Bool.false_eq_true, if_false],
        by simp [hv, hc]⟩
    · obtain ⟨rm, hrm, hrv⟩ := moveOrCapture_view env.kt p.ply frm (addb frm d) hfk (cell_kind env.board hm)
      exact ⟨[rm], by simp only [hv, andM_true, bget_cell hlt, bget_cell hfl, ok_bind, pure_eq_ok, hc, if_true, hrm],
        by simp [hv, hc, hrv, plainMv]⟩

/-- "not attacked by the side not to move", at a 0x88 square -/
def safeSq (board : Array Nat) (w : Bool) (s : Nat) : Bool :=
  !Spec.attacked (absBoard board) (colorOf (!w)) (to64 s)

theorem notAttacked_eq {p : Position} {c : Ctx} {w : Bool} {kt : Killers} (env : Env p c w kt) {s : Nat}
    (hs : s ∈ sq88) : notAttacked p c s = .ok (safeSq p.board w s) := by
  simp only [notAttacked, isUnderCheck_eq env.board env.en hs, ok_bind, pure_eq_ok, safeSq]

def kingList (board : Array Nat) (c : Ctx) (w : Bool) : List (Move × Bool) :=
  stepList board c.curBit c.cur.king kingDirs (safeSq board w)

theorem king_mem {p : Position} {c : Ctx} {w : Bool} {kt : Killers} (env : Env p c w kt) :
    c.cur.king ∈ sq88 ∧ cell p.board c.cur.king = kingOf w := by
  obtain ⟨h1, h2, h3⟩ := (env.cur.king c.cur.king).1 rfl
  exact ⟨mem_sq88.2 ⟨h1, h2⟩, cell_of_some h3⟩

theorem kingGen_view {p : Position} {c : Ctx} {w : Bool} {kt : Killers} (env : Env p c w kt) :
    ∃ a, kingGen p c kt = .ok a ∧ a.map view = kingList p.board c w := by
  obtain ⟨hf, hfc⟩ := king_mem env
  have hfk : cell p.board c.cur.king &&& Colorless ∈ kinds := by rw [hfc]; cases w <;> decide
  unfold kingGen kingList stepList
  rw [← flatMap_step c.cur.king]
  apply flatMapM'_view
  intro d _
  cases hv : isValid (addb c.cur.king d)
  · exact ⟨[], by simp only [hv, andM_false, ok_bind, Bool.false_eq_true, if_false, pure_eq_ok], by simp⟩
  · have hm := addb_mem hv
    have hlt := lt_size env.board hm
    have hfl := lt_size env.board hf
    cases hc : (cell p.board (addb c.cur.king d) &&& c.curBit == 0)
    · exact ⟨[], by simp only [hv, andM_true, andM_false, bget_cell hlt, ok_bind, pure_eq_ok, hc,
        Bool.false_eq_true, if_false], by simp [hc]⟩
    · cases hs : safeSq p.board w (addb c.cur.king d)
      · refine ⟨[], ?_, by simp [hc, hs]⟩
        have := isUnderCheck_eq env.board env.en hm
        simp only [safeSq, Bool.not_eq_false'] at hs
        simp only [hv, andM_true, bget_cell hlt, ok_bind, pure_eq_ok, hc, this, hs, Bool.not_true,
          Bool.false_eq_true, if_false]
      · obtain ⟨rm, hrm, hrv⟩ := moveOrCapture_view env.kt p.ply c.cur.king (addb c.cur.king d) hfk
          (cell_kind env.board hm)
        refine ⟨[rm], ?_, by simp [hc, hs, hrv, plainMv]⟩
        have := isUnderCheck_eq env.board env.en hm
        simp only [safeSq, Bool.not_eq_true'] at hs
        simp only [hv, andM_true, bget_cell hlt, bget_cell hfl, ok_bind, pure_eq_ok, hc, this, hs, Bool.not_false,
          if_true, hrm]

/-! ### sliding pieces -/

/-- walk along a ray: stop before an own man, include and stop at an enemy man -/
def rayTargets (board : Array Nat) (curBit enBit : Nat) : List Nat → List Nat
  | [] => []
  | t :: ts =>
    if cell board t &&& curBit != 0 then [] else
    if cell board t &&& enBit != 0 then [t] else t :: rayTargets board curBit enBit ts

theorem slideDir_view {p : Position} {c : Ctx} {w : Bool} {kt : Killers} (env : Env p c w kt)
    (ply : Int) (frm : Nat) {att : Nat} (ha : att ∈ kinds) (dir : Nat) :
    ∀ (fuel sq : Nat) (l : List Nat), ray dir fuel sq = some l → (∀ s ∈ l, s ∈ sq88) →
      ∃ a, slideDir p.board c kt ply frm att dir fuel sq = .ok a ∧
        a.map view = (rayTargets p.board c.curBit c.enBit l).map (plainMv p.board frm) := by
  intro fuel
  induction fuel with
  | zero => intro sq l h; simp [ray] at h
  | succ n ih =>
    intro sq l h hl
    simp only [ray] at h
    cases hv : isValid sq
    · simp only [hv, Bool.not_false, if_true, Option.some.injEq] at h
      subst h
      exact ⟨[], by simp only [slideDir, hv, Bool.not_false, if_true, pure_eq_ok], rfl⟩
    · simp only [hv, Bool.not_true, Bool.false_eq_true, if_false, Option.map_eq_some_iff] at h
      obtain ⟨l', hl', rfl⟩ := h
      have hm : sq ∈ sq88 := hl sq List.mem_cons_self
      have hlt := lt_size env.board hm
      cases hc : (cell p.board sq &&& c.curBit != 0)
      · obtain ⟨rm, hrm, hrv⟩ := moveOrCapture_view env.kt ply frm sq ha (cell_kind env.board hm)
        cases he : (cell p.board sq &&& c.enBit != 0)
        · obtain ⟨a, ha', hav⟩ := ih (addb sq dir) l' hl' (fun s hs => hl s (List.mem_cons_of_mem _ hs))
          refine ⟨rm :: a, ?_, ?_⟩
          · simp only [slideDir, hv, Bool.not_true, Bool.false_eq_true, if_false, bget_cell hlt, ok_bind, hc,
              hrm, he, ha', pure_eq_ok]
          · simp [rayTargets, hc, he, hav, hrv, plainMv]
        · refine ⟨[rm], ?_, ?_⟩
          · simp only [slideDir, hv, Bool.not_true, Bool.false_eq_true, if_false, bget_cell hlt, ok_bind, hc,
              hrm, he, if_true, pure_eq_ok]
          · simp [rayTargets, hc, he, hrv, plainMv]
      · exact ⟨[], by simp only [slideDir, hv, Bool.not_true, Bool.false_eq_true, if_false, bget_cell hlt,
          ok_bind, hc, if_true, pure_eq_ok], by simp [rayTargets, hc]⟩

def slideList (board : Array Nat) (c : Ctx) (frm : Nat) (dirs : List Nat) : List (Move × Bool) :=
  dirs.flatMap fun d => (rayTargets board c.curBit c.enBit (rayOf frm d)).map (plainMv board frm)

theorem slideGen_view {p : Position} {c : Ctx} {w : Bool} {kt : Killers} (env : Env p c w kt) {frm : Nat}
    (hf : frm ∈ sq88) (hfk : cell p.board frm &&& Colorless ∈ kinds) {dirs : List Nat}
    (hd : ∀ d ∈ dirs, d ∈ kingDirs) :
    ∃ a, slideGen p c kt frm dirs = .ok a ∧ a.map view = slideList p.board c frm dirs := by
  unfold slideGen slideList
  simp only [bget_cell (lt_size env.board hf), ok_bind]
  apply flatMapM'_view
  intro d hdd
  exact slideDir_view env p.ply frm hfk d 8 (addb frm d) (rayOf frm d) (ray_some hf (hd d hdd))
    (fun s hs => rayOf_valid hf (hd d hdd) hs)

/-! ### the piece list (knights, bishops, rooks, queens) -/

def officerList (board : Array Nat) (c : Ctx) (frm : Nat) : List (Move × Bool) :=
  let pc := cell board frm
  if pc == Gen.WKnight || pc == Gen.BKnight then stepList board c.curBit frm knightDirs (fun _ => true)
  else if pc == Gen.WBishop || pc == Gen.BBishop then slideList board c frm bishopDirs
  else if pc == Gen.WRook || pc == Gen.BRook then slideList board c frm rookDirs
  else slideList board c frm kingDirs

theorem officer_cases {w : Bool} {pc : Nat} (h : pc ∈ officersOf w) :
    (pc == Gen.WKnight || pc == Gen.BKnight) = true ∨
    ((pc == Gen.WKnight || pc == Gen.BKnight) = false ∧ (pc == Gen.WBishop || pc == Gen.BBishop) = true) ∨
    ((pc == Gen.WKnight || pc == Gen.BKnight) = false ∧ (pc == Gen.WBishop || pc == Gen.BBishop) = false ∧
      (pc == Gen.WRook || pc == Gen.BRook) = true) ∨
    ((pc == Gen.WKnight || pc == Gen.BKnight) = false ∧ (pc == Gen.WBishop || pc == Gen.BBishop) = false ∧
      (pc == Gen.WRook || pc == Gen.BRook) = false ∧ (pc == Gen.WQueen || pc == Gen.BQueen) = true) := by
  revert pc
  cases w <;> decide

theorem officer_mem {p : Position} {c : Ctx} {w : Bool} {kt : Killers} (env : Env p c w kt) {frm : Nat}
    (hf : frm ∈ c.cur.pieces) : frm ∈ sq88 ∧ cell p.board frm ∈ officersOf w := by
  obtain ⟨h1, h2, pc, hpc, h3⟩ := (env.cur.pieces frm).1 hf
  exact ⟨mem_sq88.2 ⟨h1, h2⟩, by rw [cell_of_some h3]; exact hpc⟩

theorem officer_kind {w : Bool} {pc : Nat} (h : pc ∈ officersOf w) : pc &&& Colorless ∈ kinds := by
  revert pc
  cases w <;> decide

theorem pieceGen_view {p : Position} {c : Ctx} {w : Bool} {kt : Killers} (env : Env p c w kt) {frm : Nat}
    (hf : frm ∈ c.cur.pieces) :
    ∃ a, pieceGen p c kt frm = .ok a ∧ a.map view = officerList p.board c frm := by
  obtain ⟨hm, hoff⟩ := officer_mem env hf
  have hk := officer_kind hoff
  unfold pieceGen officerList
  simp only [bget_cell (lt_size env.board hm), ok_bind]
  rcases officer_cases hoff with h | ⟨h1, h2⟩ | ⟨h1, h2, h3⟩ | ⟨h1, h2, h3, h4⟩
  · simp only [h, if_true]
    exact knightGen_view env hm hk
  · simp only [h1, h2, Bool.false_eq_true, if_false, if_true]
    exact slideGen_view env hm hk (fun d hd => bishopDirs_sub hd)
  · simp only [h1, h2, h3, Bool.false_eq_true, if_false, if_true]
    exact slideGen_view env hm hk (fun d hd => rookDirs_sub hd)
  · simp only [h1, h2, h3, h4, Bool.false_eq_true, if_false, if_true]
    exact slideGen_view env hm hk (fun d hd => hd)

/-! ### pawns -/

def promoList (frm to : Nat) : List (Move × Bool) :=
  [(⟨frm, to, Queen, InvalidSq⟩, true), (⟨frm, to, Rook, InvalidSq⟩, true),
   (⟨frm, to, Bishop, InvalidSq⟩, true), (⟨frm, to, Knight, InvalidSq⟩, true)]

/-- a pawn move to `to`: four promotions on the promotion rank, the plain move otherwise -/
def pawnTo (promoRank frm to : Nat) (tac : Bool) : List (Move × Bool) :=
  if rankOf to == promoRank then promoList frm to else [(⟨frm, to, 0, InvalidSq⟩, tac)]

/-- capture (or en-passant capture) towards `to` -/
def capList (board : Array Nat) (c : Ctx) (ep frm to : Nat) : List (Move × Bool) :=
  if (isValid to && cell board to &&& c.enBit != 0) || to == ep then pawnTo c.promoRank frm to true else []

def pushList (board : Array Nat) (c : Ctx) (frm : Nat) : List (Move × Bool) :=
  let to1 := addb frm c.adv
  let to2 := addb to1 c.adv
  if cell board to1 == 0 then
    pawnTo c.promoRank frm to1 false ++
      (if rankOf frm == c.startRank && cell board to2 == 0 then [(⟨frm, to2, 0, to1⟩, false)] else [])
  else []

def pawnList (board : Array Nat) (c : Ctx) (ep frm : Nat) : List (Move × Bool) :=
  capList board c ep frm (addb (addb frm c.adv) 0xFF) ++ capList board c ep frm (addb (addb frm c.adv) 1) ++
    pushList board c frm

theorem pawnCaptures_view (frm to pr : Nat) {cap : Nat} (hc : cap ∈ kinds) :
    ∃ a, pawnCaptures frm to pr cap = .ok a ∧ a.map view = pawnTo pr frm to true := by
  obtain ⟨sc, hsc⟩ := pieceToScore_ok hc
  unfold pawnCaptures pawnTo
  simp only [hsc, ok_bind]
  cases hr : (rankOf to == pr)
  · simp only [Bool.false_eq_true, if_false, pure_eq_ok]
    exact ⟨_, rfl, by simp [view]⟩
  · simp only [if_true, pure_eq_ok]
    exact ⟨_, rfl, by simp [view, promoRMoves, promoList]⟩

theorem pawn_mem {p : Position} {c : Ctx} {w : Bool} {kt : Killers} (env : Env p c w kt) {frm : Nat}
    (hf : frm ∈ c.cur.pawns) : frm ∈ sq88 ∧ cell p.board frm = pawnOf w ∧ PawnGeo w frm := by
  obtain ⟨h1, h2, h3⟩ := (env.cur.pawns frm).1 hf
  exact ⟨mem_sq88.2 ⟨h1, h2⟩, cell_of_some h3, pawnGeo w (mem_sq88.2 ⟨h1, h2⟩) (env.noBack frm hf)⟩

/-- an enemy-occupied cell on the board has a kind -/
theorem enemy_kind {p : Position} {c : Ctx} {w : Bool} {kt : Killers} (env : Env p c w kt) {s : Nat}
    (hs : s ∈ sq88) (h : (cell p.board s &&& c.enBit != 0) = true) : cell p.board s &&& Colorless ∈ kinds := by
  rcases (code_facts (cell_code env.board hs) true).2.2.1 with h0 | h0
  · rw [h0] at h; simp at h
  · exact h0

theorem pawnKind : Pawn ∈ kinds := by decide

theorem pawnCapQ_view {p : Position} {c : Ctx} {w : Bool} {kt : Killers} (env : Env p c w kt) {frm : Nat}
    (_hf : frm ∈ c.cur.pawns) :
    ∃ a, pawnCapQ p c frm = .ok a ∧ a.map view = capList p.board c p.ep frm (addb (addb frm c.adv) 0xFF) := by
  unfold pawnCapQ capList
  cases hv : isValid (addb (addb frm c.adv) 0xFF)
  · simp only [hv, andM_false, ok_bind, Bool.false_eq_true, if_false, Bool.false_and, Bool.false_or]
    cases he : (addb (addb frm c.adv) 0xFF == p.ep)
    · simp only [he, Bool.false_eq_true, if_false, pure_eq_ok]
      exact ⟨[], rfl, rfl⟩
    · simp only [he, if_true]
      exact pawnCaptures_view _ _ _ pawnKind
  · have hm := addb_mem hv
    have hlt := lt_size env.board hm
    simp only [hv, andM_true, bget_cell hlt, ok_bind, pure_eq_ok, Bool.true_and]
    cases hh : (cell p.board (addb (addb frm c.adv) 0xFF) &&& c.enBit != 0)
    · simp only [hh, Bool.false_eq_true, if_false, Bool.false_or]
      cases he : (addb (addb frm c.adv) 0xFF == p.ep)
      · simp only [he, Bool.false_eq_true, if_false, pure_eq_ok]
        exact ⟨[], rfl, rfl⟩
      · simp only [he, if_true]
        exact pawnCaptures_view _ _ _ pawnKind
    · simp only [hh, if_true, Bool.true_or]
      exact pawnCaptures_view _ _ _ (enemy_kind env hm hh)

theorem pawnCapK_view {p : Position} {c : Ctx} {w : Bool} {kt : Killers} (env : Env p c w kt) {frm : Nat}
    (hf : frm ∈ c.cur.pawns) :
    ∃ a, pawnCapK p c frm = .ok a ∧ a.map view = capList p.board c p.ep frm (addb (addb frm c.adv) 1) := by
  obtain ⟨_, _, hg⟩ := pawn_mem env hf
  have hlt : addb (addb frm c.adv) 1 < p.board.size := by
    rw [env.adv, env.board.size]; exact hg.toK_lt
  unfold pawnCapK capList
  simp only [bget_cell hlt, ok_bind]
  cases hv : isValid (addb (addb frm c.adv) 1)
  · have h0 : cell p.board (addb (addb frm c.adv) 1) = 0 :=
      cell_of_some (env.off _ (by rw [← env.board.size]; exact hlt) hv)
    simp only [hv, h0, Nat.zero_and, bne_self_eq_false, Bool.false_eq_true, if_false, Bool.false_and,
      Bool.false_or]
    cases he : (addb (addb frm c.adv) 1 == p.ep)
    · simp only [he, Bool.false_eq_true, if_false, pure_eq_ok]
      exact ⟨[], rfl, rfl⟩
    · simp only [he, if_true]
      exact pawnCaptures_view _ _ _ pawnKind
  · have hm := addb_mem hv
    simp only [hv, Bool.true_and]
    cases hh : (cell p.board (addb (addb frm c.adv) 1) &&& c.enBit != 0)
    · simp only [hh, Bool.false_eq_true, if_false, Bool.false_or]
      cases he : (addb (addb frm c.adv) 1 == p.ep)
      · simp only [he, Bool.false_eq_true, if_false, pure_eq_ok]
        exact ⟨[], rfl, rfl⟩
      · simp only [he, if_true]
        exact pawnCaptures_view _ _ _ pawnKind
    · simp only [hh, if_true, Bool.true_or]
      exact pawnCaptures_view _ _ _ (enemy_kind env hm hh)

theorem pawnPushes_view {kt : Killers} (hk : kt.size = Gen.killerMovesMaxPly) (ply : Int) (frm to pr : Nat) :
    ∃ a, pawnPushes kt ply frm to pr = .ok a ∧ a.map view = pawnTo pr frm to false := by
  unfold pawnPushes pawnTo
  cases hr : (rankOf to == pr)
  · obtain ⟨rm, hrm⟩ := Magog.Lemmas.KillerIndep.quiet_total hk ply ⟨frm, to, 0, InvalidSq⟩
    obtain ⟨h1, h2⟩ := quiet_shape hrm
    simp only [Bool.false_eq_true, if_false, hrm, ok_bind, pure_eq_ok]
    exact ⟨[rm], rfl, by simp [view, h1, h2]⟩
  · simp only [if_true, pure_eq_ok]
    exact ⟨_, rfl, by simp [view, promoRMoves, promoList]⟩

theorem pawnPushGen_view {p : Position} {c : Ctx} {w : Bool} {kt : Killers} (env : Env p c w kt) {frm : Nat}
    (hf : frm ∈ c.cur.pawns) :
    ∃ a, pawnPushGen p c kt frm = .ok a ∧ a.map view = pushList p.board c frm := by
  obtain ⟨_, _, hg⟩ := pawn_mem env hf
  have hlt1 : addb frm c.adv < p.board.size := by rw [env.adv]; exact lt_size env.board hg.to1_mem
  unfold pawnPushGen pushList
  simp only [bget_cell hlt1, ok_bind]
  cases hy : (cell p.board (addb frm c.adv) == 0)
  · simp only [hy, Bool.false_eq_true, if_false, pure_eq_ok]
    exact ⟨[], rfl, rfl⟩
  · obtain ⟨single, hs, hsv⟩ := pawnPushes_view env.kt p.ply frm (addb frm c.adv) c.promoRank
    simp only [hy, if_true, hs, ok_bind]
    cases hr : (rankOf frm == c.startRank)
    · simp only [hr, andM_false, ok_bind, Bool.false_eq_true, if_false, pure_eq_ok, Bool.false_and]
      exact ⟨single, rfl, by simp [hsv]⟩
    · have hlt2 : addb (addb frm c.adv) c.adv < p.board.size := by
        rw [env.adv]
        exact lt_size env.board (hg.to2_mem (by rw [← env.startRank]; simpa using hr))
      simp only [hr, andM_true, bget_cell hlt2, ok_bind, pure_eq_ok, Bool.true_and]
      cases hz : (cell p.board (addb (addb frm c.adv) c.adv) == 0)
      · simp only [hz, Bool.false_eq_true, if_false]
        exact ⟨single, rfl, by simp [hsv]⟩
      · simp only [hz, if_true]
        exact ⟨_, rfl, by simp [hsv, view]⟩

theorem pawnGen_view {p : Position} {c : Ctx} {w : Bool} {kt : Killers} (env : Env p c w kt) {frm : Nat}
    (hf : frm ∈ c.cur.pawns) :
    ∃ a, pawnGen p c kt frm = .ok a ∧ a.map view = pawnList p.board c p.ep frm := by
  obtain ⟨a, ha, hav⟩ := pawnCapQ_view env hf
  obtain ⟨b, hb, hbv⟩ := pawnCapK_view env hf
  obtain ⟨d, hd, hdv⟩ := pawnPushGen_view env hf
  exact ⟨a ++ b ++ d, by simp only [pawnGen_eq, ha, hb, hd, ok_bind, pure_eq_ok],
    by simp only [List.map_append, hav, hbv, hdv, pawnList]⟩

/-! ### castling -/

theorem andM_ok (a b : Bool) : andM a (Except.ok b) = .ok (a && b) := by cases a <;> rfl

theorem bgetI_nat (board : Array Nat) (n : Nat) : bgetI board (n : Int) = bget board n := by
  unfold bgetI
  rw [if_neg (by omega)]
  simp

theorem castle_bytes (w : Bool) :
    toByte (add8 (int8 (kingHome w)) (-1)) = kingHome w - 1 ∧
    toByte (add8 (int8 (kingHome w)) (-2)) = kingHome w - 2 ∧
    toByte (add8 (int8 (kingHome w)) 1) = kingHome w + 1 ∧
    toByte (add8 (int8 (kingHome w)) 2) = kingHome w + 2 := by
  cases w <;> decide

def castleQCond (board : Array Nat) (w : Bool) (k : Nat) : Bool :=
  cell board (k - 1) == 0 && (cell board (k - 2) == 0 && (cell board (k - 3) == 0 &&
    (safeSq board w k && (safeSq board w (k - 1) && safeSq board w (k - 2)))))

def castleKCond (board : Array Nat) (w : Bool) (k : Nat) : Bool :=
  cell board (k + 1) == 0 && (cell board (k + 2) == 0 &&
    (safeSq board w k && (safeSq board w (k + 1) && safeSq board w (k + 2))))

def castleList (board : Array Nat) (c : Ctx) (w : Bool) : List (Move × Bool) :=
  (if c.qOk && castleQCond board w c.cur.king then [(⟨c.cur.king, c.cur.king - 2, 0, InvalidSq⟩, false)] else []) ++
  (if c.kOk && castleKCond board w c.cur.king then [(⟨c.cur.king, c.cur.king + 2, 0, InvalidSq⟩, false)] else [])

theorem castleQOk_eq {p : Position} {c : Ctx} {w : Bool} {kt : Killers} (env : Env p c w kt)
    (hk : c.cur.king = kingHome w) : castleQOk p c = .ok (castleQCond p.board w c.cur.king) := by
  obtain ⟨i1, i2, i3, _, _⟩ := castle_idx w
  obtain ⟨b1, b2, _, _⟩ := castle_bytes w
  obtain ⟨m0, m1, m2, m3, _⟩ := castle_sq w
  rw [i1] at b1
  rw [i2] at b2
  simp only [castleQOk, castleQCond, hk, i1, i2, i3, b1, b2, bgetI_nat, bget_cell (lt_size env.board m1),
    bget_cell (lt_size env.board m2), bget_cell (lt_size env.board m3), notAttacked_eq env m0,
    notAttacked_eq env m1, notAttacked_eq env m2, ok_bind, andM_ok]

theorem castleKOk_eq {p : Position} {c : Ctx} {w : Bool} {kt : Killers} (env : Env p c w kt)
    (hk : c.cur.king = kingHome w) : castleKOk p c = .ok (castleKCond p.board w c.cur.king) := by
  obtain ⟨_, _, _, i1, i2⟩ := castle_idx w
  obtain ⟨_, _, b1, b2⟩ := castle_bytes w
  obtain ⟨m0, _, _, _, m1, m2, _⟩ := castle_sq w
  rw [i1] at b1
  rw [i2] at b2
  simp only [castleKOk, castleKCond, hk, i1, i2, b1, b2, bgetI_nat, bget_cell (lt_size env.board m1),
    bget_cell (lt_size env.board m2), notAttacked_eq env m0,
    notAttacked_eq env m1, notAttacked_eq env m2, ok_bind, andM_ok]

def castleQPart (p : Position) (c : Ctx) (kt : Killers) : M (List RMove) :=
  if c.qOk then do
    let ok ← castleQOk p c
    if ok then do
      let mv ← quiet kt p.ply ⟨c.cur.king, toByte (add8 (int8 c.cur.king) (-2)), 0, InvalidSq⟩
      pure [mv]
    else pure []
  else pure []

def castleKPart (p : Position) (c : Ctx) (kt : Killers) : M (List RMove) :=
  if c.kOk then do
    let ok ← castleKOk p c
    if ok then do
      let mv ← quiet kt p.ply ⟨c.cur.king, toByte (add8 (int8 c.cur.king) 2), 0, InvalidSq⟩
      pure [mv]
    else pure []
  else pure []

theorem castleGen_eq (p : Position) (c : Ctx) (kt : Killers) : castleGen p c kt = (do
    let q ← castleQPart p c kt
    let k ← castleKPart p c kt
    pure (q ++ k)) := by
  unfold castleGen castleQPart castleKPart
  simp only [bind_assoc, pure_bind]
  repeat' first | rfl | split | (simp only [bind_assoc, pure_bind]) | (apply bind_congr; intro _)

theorem castleGen_view {p : Position} {c : Ctx} {w : Bool} {kt : Killers} (env : Env p c w kt) :
    ∃ a, castleGen p c kt = .ok a ∧ a.map view = castleList p.board c w := by
  have hQ : ∃ a, castleQPart p c kt = .ok a ∧
      a.map view = (if c.qOk && castleQCond p.board w c.cur.king
        then [(⟨c.cur.king, c.cur.king - 2, 0, InvalidSq⟩, false)] else []) := by
    unfold castleQPart
    cases hq : c.qOk
    · exact ⟨[], by simp only [Bool.false_eq_true, if_false, pure_eq_ok], by simp⟩
    · obtain ⟨hk, _⟩ := env.castleQ hq
      simp only [if_true, castleQOk_eq env hk, ok_bind, Bool.true_and]
      cases hc : castleQCond p.board w c.cur.king
      · simp only [Bool.false_eq_true, if_false, pure_eq_ok]
        exact ⟨[], rfl, rfl⟩
      · obtain ⟨rm, hrm⟩ := Magog.Lemmas.KillerIndep.quiet_total env.kt p.ply
          ⟨c.cur.king, toByte (add8 (int8 c.cur.king) (-2)), 0, InvalidSq⟩
        obtain ⟨h1, h2⟩ := quiet_shape hrm
        simp only [if_true, hrm, ok_bind, pure_eq_ok]
        refine ⟨[rm], rfl, ?_⟩
        simp only [List.map_cons, List.map_nil, view, h1, h2, hk, (castle_bytes w).2.1]
  have hK : ∃ a, castleKPart p c kt = .ok a ∧
      a.map view = (if c.kOk && castleKCond p.board w c.cur.king
        then [(⟨c.cur.king, c.cur.king + 2, 0, InvalidSq⟩, false)] else []) := by
    unfold castleKPart
    cases hq : c.kOk
    · exact ⟨[], by simp only [Bool.false_eq_true, if_false, pure_eq_ok], by simp⟩
    · obtain ⟨hk, _⟩ := env.castleK hq
      simp only [if_true, castleKOk_eq env hk, ok_bind, Bool.true_and]
      cases hc : castleKCond p.board w c.cur.king
      · simp only [Bool.false_eq_true, if_false, pure_eq_ok]
        exact ⟨[], rfl, rfl⟩
      · obtain ⟨rm, hrm⟩ := Magog.Lemmas.KillerIndep.quiet_total env.kt p.ply
          ⟨c.cur.king, toByte (add8 (int8 c.cur.king) 2), 0, InvalidSq⟩
        obtain ⟨h1, h2⟩ := quiet_shape hrm
        simp only [if_true, hrm, ok_bind, pure_eq_ok]
        refine ⟨[rm], rfl, ?_⟩
        simp only [List.map_cons, List.map_nil, view, h1, h2, hk, (castle_bytes w).2.2.2]
  obtain ⟨a, ha, hav⟩ := hQ
  obtain ⟨b, hb, hbv⟩ := hK
  refine ⟨a ++ b, ?_, by simp only [List.map_append, hav, hbv, castleList]⟩
  simp only [castleGen_eq, ha, hb, ok_bind, pure_eq_ok]

/-! ### the whole generator -/

/-- the pseudo-legal move list as a pure function of the position: `(move, tactical flag)` pairs in
    generation order (pawns, pieces, king steps, castling) -/
def genList (p : Position) : List (Move × Bool) :=
  let c := p.ctx
  let w := whiteTurn p
  c.cur.pawns.flatMap (pawnList p.board c p.ep) ++ c.cur.pieces.flatMap (officerList p.board c) ++
    kingList p.board c w ++ castleList p.board c w

theorem genPseudo_view {p : Position} {w : Bool} {kt : Killers} (env : Env p p.ctx w kt) :
    ∃ ms, genPseudo kt p = .ok ms ∧
      ms.map view = p.ctx.cur.pawns.flatMap (pawnList p.board p.ctx p.ep) ++
        p.ctx.cur.pieces.flatMap (officerList p.board p.ctx) ++ kingList p.board p.ctx w ++
        castleList p.board p.ctx w := by
  obtain ⟨a, ha, hav⟩ := flatMapM'_view (f := pawnGen p p.ctx kt) p.ctx.cur.pawns (fun x hx => pawnGen_view env hx)
  obtain ⟨b, hb, hbv⟩ := flatMapM'_view (f := pieceGen p p.ctx kt) p.ctx.cur.pieces
    (fun x hx => pieceGen_view env hx)
  obtain ⟨k, hk, hkv⟩ := kingGen_view env
  obtain ⟨cs, hcs, hcsv⟩ := castleGen_view env
  exact ⟨a ++ b ++ k ++ cs, by simp only [genPseudo, ha, hb, hk, hcs, ok_bind, pure_eq_ok],
    by simp only [List.map_append, hav, hbv, hkv, hcsv]⟩

theorem env_of_inv {p : Position} (inv : Inv p) {kt : Killers} (hk : kt.size = Gen.killerMovesMaxPly) :
    Env p p.ctx (whiteTurn p) kt := by
  have hsz := inv.board.size
  have hcur : SideOk p.board p.ctx.cur (whiteTurn p) := by
    rw [ctx_cur]; cases whiteTurn p
    · exact inv.black
    · exact inv.white
  have hen : SideOk p.board p.ctx.en (!whiteTurn p) := by
    rw [ctx_en]; cases whiteTurn p
    · exact inv.white
    · exact inv.black
  have hcc := inv.castling
  simp only [castlingConsistent, Bool.and_eq_true, Bool.not_eq_true', Bool.and_eq_false_iff, Bool.or_eq_false_iff,
    bne_eq_false_iff_eq, bne_iff_ne, ne_eq, Decidable.not_not] at hcc
  obtain ⟨⟨⟨cWK, cWQ⟩, cBK⟩, cBQ⟩ := hcc
  have some_of_getD : ∀ s v, s < 128 → p.board.getD s 0 = v → p.board[s]? = some v := by
    intro s v hs h
    rw [← h]; exact some_cell (by rw [hsz]; exact hs)
  refine ⟨inv.board, inv.offBoard, hcur, hen, ?_, ?_, ?_, ?_, ?_, hk, ?_, ?_, ?_, ?_, ?_, ?_⟩
  · rw [ctx_curBit]; cases whiteTurn p <;> rfl
  · rw [ctx_enBit]; cases whiteTurn p <;> rfl
  · unfold Position.ctx; cases whiteTurn p <;> rfl
  · unfold Position.ctx; cases whiteTurn p <;> rfl
  · unfold Position.ctx; cases whiteTurn p <;> rfl
  · intro s hs
    obtain ⟨_, _, h3⟩ := (hcur.pawns s).1 hs
    have := inv.noBackPawn s (by
      cases hw : whiteTurn p <;> rw [hw] at h3
      · exact .inr h3
      · exact .inl h3)
    simp only [notBack, Bool.and_eq_true, bne_iff_ne, ne_eq]
    exact this
  · intro hq
    cases hw : whiteTurn p
    · have hq' : p.flags &&& FBQ ≠ 0 := by
        simpa [Position.ctx, hw] using hq
      rcases cBQ with h | h
      · exact absurd h hq'
      · have hking := some_of_getD Gen.E8 _ (by decide) h.1
        have := (inv.black.king Gen.E8).2 ⟨by decide, by decide, hking⟩
        refine ⟨?_, h.2⟩
        rw [ctx_cur, hw]; exact this.symm
    · have hq' : p.flags &&& FWQ ≠ 0 := by
        simpa [Position.ctx, hw] using hq
      rcases cWQ with h | h
      · exact absurd h hq'
      · have hking := some_of_getD Gen.E1 _ (by decide) h.1
        have := (inv.white.king Gen.E1).2 ⟨by decide, by decide, hking⟩
        refine ⟨?_, h.2⟩
        rw [ctx_cur, hw]; exact this.symm
  · intro hq
    cases hw : whiteTurn p
    · have hq' : p.flags &&& FBK ≠ 0 := by
        simpa [Position.ctx, hw] using hq
      rcases cBK with h | h
      · exact absurd h hq'
      · have hking := some_of_getD Gen.E8 _ (by decide) h.1
        have := (inv.black.king Gen.E8).2 ⟨by decide, by decide, hking⟩
        refine ⟨?_, h.2⟩
        rw [ctx_cur, hw]; exact this.symm
    · have hq' : p.flags &&& FWK ≠ 0 := by
        simpa [Position.ctx, hw] using hq
      rcases cWK with h | h
      · exact absurd h hq'
      · have hking := some_of_getD Gen.E1 _ (by decide) h.1
        have := (inv.white.king Gen.E1).2 ⟨by decide, by decide, hking⟩
        refine ⟨?_, h.2⟩
        rw [ctx_cur, hw]; exact this.symm
  · rcases inv.ep with h | ⟨h1, h2, h3, _⟩
    · exact .inl h
    · exact .inr ⟨mem_sq88.2 ⟨h1, h2⟩, cell_of_some h3⟩
  · rw [ctx_cur]; cases whiteTurn p
    · exact inv.bpNodup
    · exact inv.wpNodup
  · rw [ctx_cur]; cases whiteTurn p
    · exact inv.bpcNodup
    · exact inv.wpcNodup

/-- Generation never panics on a well-formed position, and the generated list (without rankings) is
    `genList p`. -/
theorem genPseudo_genList {p : Position} (inv : Inv p) {kt : Killers} (hk : kt.size = Gen.killerMovesMaxPly) :
    ∃ ms, genPseudo kt p = .ok ms ∧ ms.map view = genList p :=
  genPseudo_view (env_of_inv inv hk)

end Magog.GenPure
