import Magog.Lemmas.KingStep

/-! Castling never leaves the king in check (specification level only).

If the movement rules allow a castling move (`Spec.pseudo`: right still held, squares between king and
rook empty, the king's square, the square it crosses and its destination not attacked on the CURRENT
board), then after the move the king is not attacked on the NEW board. Geometry: the new board differs
from the old one in four squares (king origin `e` and rook origin `h` emptied, rook destination `f` and
king destination `g` filled with own men). An enemy man attacks `g` on the new board only if it did on the
old board, unless its line to `g` runs through an emptied square — and a line to `g` through `e` also runs
through `f` (now occupied), while no line to `g` runs through `h` (kernel-checked over the 64 squares). -/

set_option autoImplicit false

namespace Magog.CastleSpec
open Magog Magog.KingStep

/-- the finite geometry facts about the four squares of one castling move -/
structure Quad (e f g h : Nat) : Prop where
  e_lt : e < 64
  f_lt : f < 64
  g_lt : g < 64
  h_lt : h < 64
  ef : e ≠ f
  eg : e ≠ g
  eh : e ≠ h
  fg : f ≠ g
  fh : f ≠ h
  gh : g ≠ h
  through_e : ∀ a < 64, (Spec.between a g).contains e = true → (Spec.between a g).contains f = true
  not_h : ∀ a < 64, (Spec.between a g).contains h = false

set_option maxRecDepth 100000 in
theorem quad_wK : Quad 4 5 6 7 :=
  ⟨by decide, by decide, by decide, by decide, by decide, by decide, by decide, by decide, by decide, by decide,
   by decide +kernel, by decide +kernel⟩

set_option maxRecDepth 100000 in
theorem quad_wQ : Quad 4 3 2 0 :=
  ⟨by decide, by decide, by decide, by decide, by decide, by decide, by decide, by decide, by decide, by decide,
   by decide +kernel, by decide +kernel⟩

set_option maxRecDepth 100000 in
theorem quad_bK : Quad 60 61 62 63 :=
  ⟨by decide, by decide, by decide, by decide, by decide, by decide, by decide, by decide, by decide, by decide,
   by decide +kernel, by decide +kernel⟩

set_option maxRecDepth 100000 in
theorem quad_bQ : Quad 60 59 58 56 :=
  ⟨by decide, by decide, by decide, by decide, by decide, by decide, by decide, by decide, by decide, by decide,
   by decide +kernel, by decide +kernel⟩

theorem manAttacks_of_clear {B B' : Array (Option Spec.Man)} {man : Spec.Man} {a t : Nat}
    (h : Spec.clear B a t = true → Spec.clear B' a t = true)
    (hm : Spec.manAttacks B man a t = true) : Spec.manAttacks B' man a t = true := by
  obtain ⟨c, k⟩ := man
  cases k <;> simp only [Spec.manAttacks, Bool.and_eq_true] at hm ⊢ <;> first
    | exact hm
    | exact ⟨hm.1, h hm.2⟩

theorem other_ne (c : Spec.Color) : c.other ≠ c := by cases c <;> decide

/-- the board after castling: king `e → g`, rook `h → f` -/
def castled (B : Array (Option Spec.Man)) (c : Spec.Color) (e f g h : Nat) : Array (Option Spec.Man) :=
  (((B.setIfInBounds e none).setIfInBounds g (some ⟨c, .king⟩)).setIfInBounds h none).setIfInBounds f
    (some ⟨c, .rook⟩)

theorem castled_getD {B : Array (Option Spec.Man)} (hsz : B.size = 64) (c : Spec.Color) {e f g h : Nat}
    (q : Quad e f g h) (s : Nat) :
    (castled B c e f g h).getD s none =
      if f = s then some ⟨c, .rook⟩ else if h = s then none else if g = s then some ⟨c, .king⟩
      else if e = s then none else B.getD s none := by
  unfold castled
  rw [getD_set _ _ _ _ (by simp only [Array.size_setIfInBounds, hsz]; exact q.f_lt),
    getD_set _ _ _ _ (by simp only [Array.size_setIfInBounds, hsz]; exact q.h_lt),
    getD_set _ _ _ _ (by simp only [Array.size_setIfInBounds, hsz]; exact q.g_lt),
    getD_set _ _ _ _ (by rw [hsz]; exact q.e_lt)]

/-- the geometric core: the destination stays unattacked -/
theorem attacked_castled {B : Array (Option Spec.Man)} (hsz : B.size = 64) {c : Spec.Color} {e f g h : Nat}
    (q : Quad e f g h) (hf : B.getD f none = none) (hg : B.getD g none = none)
    (hatt : Spec.attacked B c.other g = false) :
    Spec.attacked (castled B c e f g h) c.other g = false := by
  rw [Bool.eq_false_iff]
  intro hA
  simp only [Spec.attacked, Spec.allSq, List.any_eq_true] at hA
  obtain ⟨a, ha, hA⟩ := hA
  have ha64 := List.mem_range.1 ha
  rw [castled_getD hsz c q] at hA
  by_cases h1 : f = a
  · simp [h1] at hA
    exact other_ne c hA.1.symm
  rw [if_neg h1] at hA
  by_cases h2 : h = a
  · simp [h2] at hA
  rw [if_neg h2] at hA
  by_cases h3 : g = a
  · simp [h3] at hA
    exact other_ne c hA.1.symm
  rw [if_neg h3] at hA
  by_cases h4 : e = a
  · simp [h4] at hA
  rw [if_neg h4] at hA
  cases hman : B.getD a none with
  | none => simp [hman] at hA
  | some man =>
    simp only [hman, Bool.and_eq_true] at hA
    have hold : Spec.manAttacks B man a g = true := by
      refine manAttacks_of_clear ?_ hA.2
      intro hc
      simp only [Spec.clear, List.all_eq_true] at hc ⊢
      intro s hs
      have hs' := hc s hs
      rw [castled_getD hsz c q] at hs'
      by_cases k1 : f = s
      · subst k1; rw [hf]; rfl
      rw [if_neg k1] at hs'
      by_cases k2 : h = s
      · have := q.not_h a ha64
        rw [k2] at this
        simp only [List.contains_eq_mem, decide_eq_false_iff_not] at this
        exact absurd hs this
      rw [if_neg k2] at hs'
      by_cases k3 : g = s
      · rw [← k3, hg]; rfl
      rw [if_neg k3] at hs'
      by_cases k4 : e = s
      · have hfm := q.through_e a ha64 (by rw [k4]; simpa using hs)
        have hfm' : f ∈ Spec.between a g := by simpa using hfm
        have := hc f hfm'
        rw [castled_getD hsz c q, if_pos rfl] at this
        cases this
      rw [if_neg k4] at hs'
      exact hs'
    have : Spec.attacked B c.other g = true := by
      simp only [Spec.attacked, Spec.allSq, List.any_eq_true]
      exact ⟨a, ha, by simp only [hman, hA.1, hold, Bool.and_self]⟩
    rw [hatt] at this
    cases this

/-- after castling the king of colour `c` stands on `g` and is not attacked -/
theorem inCheck_castled {B : Array (Option Spec.Man)} (hsz : B.size = 64) {c : Spec.Color} {e f g h : Nat}
    (q : Quad e f g h) (huniq : ∀ s < 64, B.getD s none = some ⟨c, .king⟩ → s = e)
    (hf : B.getD f none = none) (hg : B.getD g none = none)
    (hatt : Spec.attacked B c.other g = false) :
    Spec.inCheck (castled B c e f g h) c = false := by
  have hks : Spec.kingSq (castled B c e f g h) c = some g := by
    apply Atk.find?_unique
    · exact List.mem_range.2 q.g_lt
    · rw [castled_getD hsz c q, if_neg q.fg, if_neg (Ne.symm q.gh), if_pos rfl]; simp
    · intro y hy hpy
      rw [castled_getD hsz c q] at hpy
      by_cases k1 : f = y
      · rw [if_pos k1] at hpy; simp at hpy
      rw [if_neg k1] at hpy
      by_cases k2 : h = y
      · rw [if_pos k2] at hpy; simp at hpy
      rw [if_neg k2] at hpy
      by_cases k3 : g = y
      · exact k3.symm
      rw [if_neg k3] at hpy
      by_cases k4 : e = y
      · rw [if_pos k4] at hpy; simp at hpy
      rw [if_neg k4, beq_iff_eq] at hpy
      exact absurd (huniq y (List.mem_range.1 hy) hpy).symm k4
  rw [Spec.inCheck, hks]
  exact attacked_castled hsz q hf hg hatt

/-- the board `Spec.apply` produces for a king-side castling move -/
theorem apply_castleK {P : Spec.Pos} {m : Spec.Move} {r : Nat}
    (hat : P.at m.frm = some ⟨P.turn, .king⟩) (hfrm : m.frm = Spec.mkSq 4 r) (hto : m.to = Spec.mkSq 6 r)
    (hpr : m.promo = none) :
    (Spec.apply P m).board = castled P.board P.turn (Spec.mkSq 4 r) (Spec.mkSq 5 r) (Spec.mkSq 6 r) (Spec.mkSq 7 r) := by
  have h1 : Spec.fileOf (Spec.mkSq 4 r) = 4 := by simp only [Spec.fileOf, Spec.mkSq]; omega
  have h2 : Spec.fileOf (Spec.mkSq 6 r) = 6 := by simp only [Spec.fileOf, Spec.mkSq]; omega
  have h3 : Spec.rankOf (Spec.mkSq 4 r) = r := by simp only [Spec.rankOf, Spec.mkSq]; omega
  have hat' := hat
  rw [hfrm] at hat'
  have hc : Spec.isCastle P m = true := by
    simp only [Spec.isCastle, hfrm, hat', hto, h1, h2]; decide
  have he : Spec.isEnPassant P m = false := by simp only [Spec.isEnPassant, hat]
  simp only [Spec.apply, hat, hc, he, hpr, if_true, Bool.false_eq_true, if_false]
  rw [hto, h2, hfrm, h3]
  simp only [beq_self_eq_true, if_true, castled]

theorem apply_castleQ {P : Spec.Pos} {m : Spec.Move} {r : Nat}
    (hat : P.at m.frm = some ⟨P.turn, .king⟩) (hfrm : m.frm = Spec.mkSq 4 r) (hto : m.to = Spec.mkSq 2 r)
    (hpr : m.promo = none) :
    (Spec.apply P m).board = castled P.board P.turn (Spec.mkSq 4 r) (Spec.mkSq 3 r) (Spec.mkSq 2 r) (Spec.mkSq 0 r) := by
  have h1 : Spec.fileOf (Spec.mkSq 4 r) = 4 := by simp only [Spec.fileOf, Spec.mkSq]; omega
  have h2 : Spec.fileOf (Spec.mkSq 2 r) = 2 := by simp only [Spec.fileOf, Spec.mkSq]; omega
  have h3 : Spec.rankOf (Spec.mkSq 4 r) = r := by simp only [Spec.rankOf, Spec.mkSq]; omega
  have hat' := hat
  rw [hfrm] at hat'
  have hc : Spec.isCastle P m = true := by
    simp only [Spec.isCastle, hfrm, hat', hto, h1, h2]; decide
  have he : Spec.isEnPassant P m = false := by simp only [Spec.isEnPassant, hat]
  simp only [Spec.apply, hat, hc, he, hpr, if_true, Bool.false_eq_true, if_false]
  rw [hto, h2, hfrm, h3]
  simp only [castled]
  rfl

theorem quadK (c : Spec.Color) : Quad (Spec.mkSq 4 (Spec.homeRank c)) (Spec.mkSq 5 (Spec.homeRank c))
    (Spec.mkSq 6 (Spec.homeRank c)) (Spec.mkSq 7 (Spec.homeRank c)) := by
  cases c
  · exact quad_wK
  · exact quad_bK

theorem quadQ (c : Spec.Color) : Quad (Spec.mkSq 4 (Spec.homeRank c)) (Spec.mkSq 3 (Spec.homeRank c))
    (Spec.mkSq 2 (Spec.homeRank c)) (Spec.mkSq 0 (Spec.homeRank c)) := by
  cases c
  · exact quad_wQ
  · exact quad_bQ

/-- **Castling is safe.** A castling move allowed by the movement rules does not leave the mover in
    check. (`huniq`: the mover has one king.) -/
theorem castle_not_inCheck {P : Spec.Pos} {m : Spec.Move} (hsz : P.board.size = 64)
    (hat : P.at m.frm = some ⟨P.turn, .king⟩)
    (huniq : ∀ s < 64, P.at s = some ⟨P.turn, .king⟩ → s = m.frm)
    (hp : Spec.pseudo P m = true) (hc : Spec.isCastle P m = true) :
    Spec.inCheck (Spec.apply P m).board P.turn = false := by
  have hp' := hp
  unfold Spec.pseudo at hp'
  simp only [hat, Bool.and_eq_true, Bool.or_eq_true, beq_iff_eq, Bool.not_eq_true'] at hp'
  obtain ⟨_, hpr, hcl⟩ := hp'
  simp only [Spec.isCastle, hat, beq_iff_eq] at hc
  rcases hcl with (hcl | hcl) | hcl
  · -- a king step is not a castling move
    simp only [Spec.manAttacks, Bool.and_eq_true, decide_eq_true_eq] at hcl
    omega
  · obtain ⟨⟨⟨⟨⟨⟨⟨⟨_, hfrm⟩, hto⟩, _⟩, hf⟩, hg⟩, _⟩, _⟩, hatt⟩ := hcl
    rw [apply_castleK hat hfrm hto hpr]
    refine inCheck_castled hsz (quadK _) (fun s hs h => ?_) ?_ ?_ hatt
    · rw [← hfrm]; exact huniq s hs h
    · simpa [Spec.Pos.at] using hf
    · simpa [Spec.Pos.at] using hg
  · obtain ⟨⟨⟨⟨⟨⟨⟨⟨⟨_, hfrm⟩, hto⟩, _⟩, hf⟩, hg⟩, _⟩, _⟩, _⟩, hatt⟩ := hcl
    rw [apply_castleQ hat hfrm hto hpr]
    refine inCheck_castled hsz (quadQ _) (fun s hs h => ?_) ?_ ?_ hatt
    · rw [← hfrm]; exact huniq s hs h
    · simpa [Spec.Pos.at] using hf
    · simpa [Spec.Pos.at] using hg

end Magog.CastleSpec
