import Magog.Lemmas.MakeMoveInv
import Magog.Lemmas.MMPly
import Magog.Lemmas.MakeMoveAbsWitness
import Magog.Model.Notation
import Magog.Model.Uci
import Magog.Spec.MoveText
import Magog.Lemmas.PositionCmd

/-! Replaying a game: helper lemmas for C07 (`position … moves m1 … mk`) and C02 (spec level).

* `no_king_capture` — with the opponent not in check no generated move lands on the enemy king's square
  (the hypothesis `makeMove_abs` needs for the castling rights).
* `uci_fix` — the en-passant target `applyUciMove` reconstructs from the text form of a generated move is
  the generator's own.
* `LegalLink` — the link between the rules' `Spec.legal` and the engine's generator + `makeMove` verdict
  (hypothesis, discharged by `isLegal_spec` / `C01_legal_exact`).
  It is proved in `Magog/Lemmas/LegalLinkProof.lean` (`legalLink`).
* `step_spec`, `play_spec`, `play_spec_prefix` — one move / a list of moves of the specification replayed by
  the model; `replay_fold`, `applyMoves_replay` — the text forms of a game replayed by `applyUciMove` / by the
  `doPosition` loop; `moveString_generated` — the printer gives `Spec.moveText`; `playM_ply` — ply counter. -/

namespace Magog.Replay
open Magog Magog.Model Magog.Atk Magog.Geo Magog.Count Magog.GenRaw Magog.GenGeo Magog.MM

/-! ### no generated move captures the king when the opponent is not in check -/

theorem no_king_capture {p : Position} {m : Move} (hI : Inv p) (hS : OppSafe p) (hG : MM.Generated p m) :
    m.to ≠ (p.side (!whiteTurn p)).king := by
  intro hto
  obtain ⟨kt, ms, hgen, hmem⟩ := hG
  obtain ⟨w, hw⟩ : ∃ w, whiteTurn p = w := ⟨_, rfl⟩
  rw [hw] at hto
  obtain ⟨c1, c2, c3, c4, c5, c6, c7, c8, c9⟩ := ctx_fields hw
  have hsafe := safe_of_oppSafe hI hw hS
  have hcur := hI.sideInv w
  have hen := hI.sideInv (!w)
  have hK := hen.ok.king_cell
  have hkz : kingOf (!w) ≠ 0 := kingOf_ne_zero _
  -- the destination cell is not empty
  have notEmpty : p.board[m.to]? ≠ some 0 := by
    rw [hto, hK.2]
    intro e
    exact hkz (Option.some.inj e)
  have hto88 : m.to ∈ sq88 := hto ▸ hK.1
  rcases genPseudo_mem hgen hmem with ⟨frm, hfrm, hpawn⟩ | ⟨frm, hfrm, a, ha, hma⟩ | ⟨a, ha, hma⟩ | hcq | hck
  · -- pawn moves
    rw [c1] at hfrm
    obtain ⟨hf88, hv⟩ := hcur.ok.pawn_cell hfrm
    have hranks := hI.noBackPawn frm (by cases w <;> simp_all [pawnOf])
    have capture : ∀ δ, (δ = 0xFF ∨ δ = 1) → m.to = addb (addb frm (advOf w)) δ → False := by
      intro δ hδ e2
      obtain ⟨_, g2, _⟩ := cap_geo (w := w) hf88 hranks.1 hranks.2 hδ (e2 ▸ hto88)
      have h0 := hsafe.pawns frm hfrm
      rw [← hto, e2] at h0
      exact g2 h0
    rcases hpawn with ⟨a, ha, hma⟩ | ⟨a, ha, hma⟩ | ⟨a, ha, hma⟩
    · obtain ⟨_, e2, _⟩ := pawnCapQ_mem ha hma
      rw [c3] at e2
      exact capture 0xFF (.inl rfl) e2
    · obtain ⟨_, e2, _⟩ := pawnCapK_mem ha hma
      rw [c3] at e2
      exact capture 1 (.inr rfl) e2
    · rcases pawnPush_mem ha hma with ⟨_, _, _, _, e5⟩ | ⟨e1, _, _, e4⟩
      · exact notEmpty e5
      · subst e1
        exact notEmpty e4
  · -- officers
    rw [c1] at hfrm
    obtain ⟨hf88, pc, hoff, hv⟩ := hcur.ok.piece_cell hfrm
    obtain ⟨pc2, hpc, hcases⟩ := pieceGen_mem ha hma
    rw [hv] at hpc
    obtain rfl : pc = pc2 := Option.some.inj hpc
    have slide : ∀ dirs, (((pc = Gen.WBishop ∨ pc = Gen.BBishop) ∧ dirs = bishopDirs) ∨
          ((pc = Gen.WRook ∨ pc = Gen.BRook) ∧ dirs = rookDirs) ∨ ((pc = Gen.WQueen ∨ pc = Gen.BQueen) ∧ dirs = kingDirs)) →
        (∃ d ∈ dirs, SlideFact p.board p.ctx frm d 8 (addb frm d) m) → False := by
      intro dirs hdirs ⟨d, hd, t, l, e1, e2, ⟨x, hx, hcb⟩, e4, e5⟩
      obtain ⟨hdk, hb1, hb2⟩ := slider_bits hdirs hd
      have hl : ∀ s ∈ l, isValid s = true := fun s hs => (e5 s hs).1
      obtain ⟨q1, q2, q3, q4⟩ := slide_geo hf88 hdk e2 e4 hl
      have htk : t = (p.side (!w)).king := by rw [← hto, e1]
      have ht88 : t ∈ sq88 := htk ▸ hK.1
      have h0 := hsafe.pieces frm hfrm
      rw [← htk] at h0
      have hbit : attackAt frm t &&& (pc &&& Colorless) ≠ 0 := by
        rcases hb2 with h | h
        · rw [h]; simpa [hasBit] using q2
        · rw [h]; simpa [hasBit] using q3
      have h1 := slider_hits (B := p.board) hf88 ht88 hv hbit hb1 q1 e4 (fun s hs => by
        obtain ⟨sv, y, hy, y1, y2⟩ := e5 s hs
        rw [c4] at y1
        rw [c5] at y2
        have := path_empty hI (q4 s hs) sv hy y1 y2
        subst this
        exact ⟨by rw [hI.board.size]; exact q4 s hs, hy⟩)
      rw [h1] at h0
      cases h0
    rcases hcases with ⟨hk, d, hd, e1, e2, x, hx, hcb⟩ | ⟨hk, hsl⟩ | ⟨hk, hsl⟩ | ⟨hk, hsl⟩
    · have htk : addb frm d = (p.side (!w)).king := by rw [← hto, e1]
      have ht88 : addb frm d ∈ sq88 := htk ▸ hK.1
      have h0 := hsafe.pieces frm hfrm
      rw [← htk, knight_attacks hf88 ht88 hv (knight_bits hk), knight_geo hf88 hd ht88] at h0
      cases h0
    · exact slide bishopDirs (.inl ⟨hk, rfl⟩) hsl
    · exact slide rookDirs (.inr (.inl ⟨hk, rfl⟩)) hsl
    · exact slide kingDirs (.inr (.inr ⟨hk, rfl⟩)) hsl
  · -- king steps
    obtain ⟨d, hd, e1, e2, x, hx, hcb⟩ := kingGen_mem ha hma
    rw [c1] at e1 e2 hx
    have hkc := hcur.ok.king_cell
    have htk : addb (p.side w).king d = (p.side (!w)).king := by rw [← hto, e1]
    have ht88 : addb (p.side w).king d ∈ sq88 := htk ▸ hK.1
    have h0 := hsafe.king
    rw [← htk] at h0
    exact king_geo hkc.1 hd ht88 h0
  · -- queen-side castling
    obtain ⟨e1, e2, e3⟩ := hcq
    rw [c6] at e2
    have hflag : p.flags &&& flagQ w ≠ 0 := by simpa using e2
    have hold := (castlingConsistent_iff hI.board.size).mp hI.castling
    obtain ⟨hk, _⟩ := (hold w).2 hflag
    have hking : (p.side w).king = kingHome w := (king_unique hI (castle_squares w).1 hk).symm
    obtain ⟨a1, a2, a3, a4, a5, a6⟩ := castle_arith w
    obtain ⟨_, q2, _, q4⟩ := castleQOk_true e3
    rw [c1, hking] at q2 q4
    rw [a6] at q4
    have hm : m.to = kingToQ w := by
      rw [e1, castleQTo, c1, hking, a2]
    exact notEmpty (hm ▸ q4)
  · -- king-side castling
    obtain ⟨e1, e2, e3⟩ := hck
    rw [c7] at e2
    have hflag : p.flags &&& flagK w ≠ 0 := by simpa using e2
    have hold := (castlingConsistent_iff hI.board.size).mp hI.castling
    obtain ⟨hk, _⟩ := (hold w).1 hflag
    have hking : (p.side w).king = kingHome w := (king_unique hI (castle_squares w).1 hk).symm
    obtain ⟨a1, a2, a3, a4, a5, a6⟩ := castle_arith w
    obtain ⟨_, q2, _, q4⟩ := castleKOk_true e3
    rw [c1, hking] at q2 q4
    rw [a4] at q4
    have hm : m.to = kingToK w := by
      rw [e1, castleKTo, c1, hking, a1]
    exact notEmpty (hm ▸ q4)

/-! ### the en-passant target `applyUciMove` reconstructs -/

/-- what the text form of a move carries: origin, destination, promotion piece; no en-passant mark
    (this is what `parseMoveString` returns) -/
def uciForm (m : Move) : Move := ⟨m.frm, m.to, m.promo, InvalidSq⟩

/-- the test of `ApplyUciMove`: a pawn (of either colour) moving from rank 7 to rank 5 or from rank 2 to rank 4 -/
def needsEp (pc frm to : Nat) : Bool :=
  pc &&& Colorless == Pawn &&
    ((rankOf frm == Gen.Rank7 && rankOf to == Gen.Rank5) || (rankOf frm == Gen.Rank2 && rankOf to == Gen.Rank4))

/-- the move `ApplyUciMove` hands to `MakeMove`, given the cell `pc` on the origin square -/
def fixEp (pc : Nat) (m : Move) : Move :=
  if needsEp pc m.frm m.to then { m with ep := ((m.frm + m.to) % 256) / 2 } else m

theorem applyUciMove_unfold (p : Position) (m : Move) :
    applyUciMove p m = (do
      let pc ← bget p.board m.frm
      let r ← makeMove p (fixEp pc m)
      if r.2 then pure r.1 else throw (.explicit "Applying uci move resulted in illegal position")) := rfl

/-- single pushes and captures never look like a double push -/
def stepCheck (w : Bool) (frm : Nat) : Bool :=
  [0, 255, 1].all fun d =>
    let to := addb (addb frm (MMAbs.advOf w)) d
    !(to ∈ sq88) || !((rankOf frm == Gen.Rank7 && rankOf to == Gen.Rank5) || (rankOf frm == Gen.Rank2 && rankOf to == Gen.Rank4))

theorem stepCheck_all : (sq88.all fun frm => bools.all fun w => stepCheck w frm) = true := by decide +kernel

/-- a double push from the mover's start rank is exactly the 2→4 (white) / 7→5 (black) pattern and the skipped
    square is the midpoint -/
def dblCheck (w : Bool) (frm : Nat) : Bool :=
  let mid := addb frm (MMAbs.advOf w)
  let to := addb mid (MMAbs.advOf w)
  rankOf frm != MMAbs.startRankOf w ||
    (((rankOf frm == Gen.Rank7 && rankOf to == Gen.Rank5) || (rankOf frm == Gen.Rank2 && rankOf to == Gen.Rank4)) &&
      ((frm + to) % 256) / 2 == mid)

theorem dblCheck_all : (sq88.all fun frm => bools.all fun w => dblCheck w frm) = true := by decide +kernel

theorem code_colorless : ∀ w : Bool, (pawnOf w &&& Colorless == Pawn) = true ∧ (kingOf w &&& Colorless == Pawn) = false ∧
    ∀ c ∈ officersOf w, (c &&& Colorless == Pawn) = false := by decide

theorem step_no_ep {w : Bool} {frm d : Nat} (hf : frm ∈ sq88) (hd : d = 0 ∨ d = 255 ∨ d = 1)
    (ht : addb (addb frm (MMAbs.advOf w)) d ∈ sq88) (pc : Nat) :
    needsEp pc frm (addb (addb frm (MMAbs.advOf w)) d) = false := by
  have h := stepCheck_all
  simp only [List.all_eq_true] at h
  have h := h frm hf w (mem_bools w)
  simp only [stepCheck, List.all_eq_true] at h
  have h := h d (by rcases hd with rfl | rfl | rfl <;> simp)
  simp only [Bool.or_eq_true, Bool.not_eq_true', decide_eq_false_iff_not] at h
  rcases h with h | h
  · exact absurd ht h
  · unfold needsEp
    rw [h, Bool.and_false]

theorem addb_zero {a : Nat} (h : a ∈ sq88) : addb a 0 = a := by
  have := (mem_sq88.mp h).1
  unfold addb
  omega

/-- **the reconstruction is exact**: for every generated move, what `ApplyUciMove` rebuilds from the text
    form (origin, destination, promotion piece) is the generated move itself, en-passant mark included -/
theorem uci_fix {p : Position} {m : Move} (hI : Inv p) (hG : MM.Generated p m) :
    ∃ pc, p.board[m.frm]? = some pc ∧ fixEp pc (uciForm m) = m := by
  have hcase := MMAbs.generated_cases hI hG
  have eta : ∀ {e : Nat}, m.ep = e → (⟨m.frm, m.to, m.promo, e⟩ : Move) = m := by
    intro e he; subst he; rfl
  have noFix : ∀ pc, needsEp pc m.frm m.to = false → m.ep = InvalidSq → fixEp pc (uciForm m) = m := by
    intro pc h he
    unfold fixEp uciForm
    simp only [h, Bool.false_eq_true, if_false]
    exact eta he
  cases hcase with
  | push hfrm hpawn hto hto88 hempty hep hpromo =>
    refine ⟨_, hpawn, noFix _ ?_ hep⟩
    have : m.to = addb (addb m.frm (MMAbs.advOf (whiteTurn p))) 0 := by
      rw [addb_zero (hto ▸ hto88)]; exact hto
    rw [this]
    exact step_no_ep hfrm (.inl rfl) (this ▸ hto88) _
  | dbl hfrm hpawn hrank hto hto88 hempty hep hpromo =>
    refine ⟨_, hpawn, ?_⟩
    have h := dblCheck_all
    simp only [List.all_eq_true] at h
    have h := h m.frm hfrm (whiteTurn p) (mem_bools _)
    simp only [dblCheck, Bool.or_eq_true, bne_iff_ne, ne_eq, Bool.and_eq_true, beq_iff_eq] at h
    rcases h with h | ⟨h1, h2⟩
    · exact absurd hrank h
    · rw [← hto] at h1 h2
      have hn : needsEp (pawnOf (whiteTurn p)) m.frm m.to = true := by
        unfold needsEp
        rw [(code_colorless _).1, Bool.true_and]
        simpa using h1
      unfold fixEp uciForm
      simp only [hn, if_true]
      rw [h2]
      exact eta hep
  | capture hfrm hpawn d hd hto hto88 x hx hen hep hpromo =>
    refine ⟨_, hpawn, noFix _ ?_ hep⟩
    rw [hto]
    exact step_no_ep hfrm (.inr hd) (hto ▸ hto88) _
  | enpassant hfrm hpawn d hd hto hepsq hepok hep hpromo =>
    refine ⟨_, hpawn, noFix _ ?_ hep⟩
    have hto88 : m.to ∈ sq88 := hepsq ▸ mem_sq88.mpr ⟨hepok.1, hepok.2.1⟩
    rw [hto]
    exact step_no_ep hfrm (.inr hd) (hto ▸ hto88) _
  | officer hfrm c hc hpc hto88 x hx hown hep hpromo =>
    refine ⟨c, hpc, noFix _ ?_ hep⟩
    unfold needsEp
    rw [(code_colorless _).2.2 c hc, Bool.false_and]
  | king hk d hd hto hto88 x hx hown hep hpromo =>
    refine ⟨_, hk ▸ (MMAbs.king_sq hI _).2, noFix _ ?_ hep⟩
    unfold needsEp
    rw [(code_colorless _).2.1, Bool.false_and]
  | castleK hk hflag hhome hto hempty hep hpromo =>
    refine ⟨_, hk ▸ (MMAbs.king_sq hI _).2, noFix _ ?_ hep⟩
    unfold needsEp
    rw [(code_colorless _).2.1, Bool.false_and]
  | castleQ hk hflag hhome hto hempty hep hpromo =>
    refine ⟨_, hk ▸ (MMAbs.king_sq hI _).2, noFix _ ?_ hep⟩
    unfold needsEp
    rw [(code_colorless _).2.1, Bool.false_and]

/-- `ApplyUciMove` on the text form of a generated move is `MakeMove` on the generated move (plus the
    legality panic) -/
theorem applyUci_generated {p : Position} {m : Move} (hI : Inv p) (hG : MM.Generated p m) :
    applyUciMove p (uciForm m) = (do
      let r ← makeMove p m
      if r.2 then pure r.1 else throw (.explicit "Applying uci move resulted in illegal position")) := by
  obtain ⟨pc, hpc, hfix⟩ := uci_fix hI hG
  rw [applyUciMove_unfold]
  have : (uciForm m).frm = m.frm := rfl
  rw [this, bget_of_some hpc, ok_bind, hfix]

/-! ### replaying a game of generated, accepted moves -/

theorem step_inv {p p' : Position} {m : Move} (hI : Inv p) (hS : OppSafe p) (hG : MM.Generated p m)
    (h : makeMove p m = .ok (p', true)) : Inv p' ∧ OppSafe p' := by
  obtain ⟨q, c, h1, h2, h3⟩ := makeMove_spec hI hS hG
  rw [h] at h1
  simp only [Except.ok.injEq, Prod.mk.injEq] at h1
  obtain ⟨rfl, rfl⟩ := h1
  exact ⟨h2, h3.mp rfl⟩

theorem applyUci_accepted {p p' : Position} {m : Move} (hI : Inv p) (hG : MM.Generated p m)
    (h : makeMove p m = .ok (p', true)) : applyUciMove p (uciForm m) = .ok p' := by
  rw [applyUci_generated hI hG, h]
  rfl

theorem playM_cons_ok {p p' : Position} {m : Move} {b : Bool} (ms : List Move) (h : makeMove p m = .ok (p', b)) :
    playM p (m :: ms) = playM p' ms := by
  simp only [playM, h, ok_bind]

/-- a game of generated, accepted moves plays without panic and ends well-formed -/
theorem playM_ok {p : Position} (hI : Inv p) (hS : OppSafe p) : ∀ {ms : List Move}, GameOk p ms →
    ∃ q, playM p ms = .ok q ∧ Inv q ∧ OppSafe q := by
  intro ms hg
  obtain ⟨q, hq, h⟩ := history hI hS hg ms.length (Nat.le_refl _)
  rw [List.take_length] at hq
  exact ⟨q, hq, h⟩

/-- folding `ApplyUciMove` over the text forms replays the game -/
theorem replay_fold : ∀ {ms : List Move} {p : Position}, Inv p → OppSafe p → GameOk p ms →
    (ms.map uciForm).foldlM applyUciMove p = playM p ms := by
  intro ms
  induction ms with
  | nil => intro p _ _ _; rfl
  | cons m ms ih =>
    intro p hI hS hg
    obtain ⟨hgen, p', hmm, hrest⟩ := hg
    obtain ⟨hI', hS'⟩ := step_inv hI hS hgen hmm
    rw [List.map_cons, List.foldlM_cons, applyUci_accepted hI hgen hmm, playM_cons_ok ms hmm]
    exact ih hI' hS' hrest

/-- element-wise relation between two lists of equal length -/
def Rel₂ {α β} (R : α → β → Prop) : List α → List β → Prop
  | [], [] => True
  | a :: as, b :: bs => R a b ∧ Rel₂ R as bs
  | _, _ => False

/-- the move loop of `doPosition` (`applyMoves` of the interpreter model) on strings that parse to the text
    forms of a game of generated, accepted moves -/
theorem applyMoves_replay {ops : EngineOps} (hap : ops.applyMove = applyUciMove) :
    ∀ {ms : List Move} {texts : List Bytes} {p : Position} (st : UciState), st.pos = some p →
      Inv p → OppSafe p → GameOk p ms →
      Rel₂ (fun m s => parseMoveString ops.str.lower s = some (uciForm m)) ms texts →
      ∃ q, playM p ms = .ok q ∧ Inv q ∧ OppSafe q ∧
        applyMoves ops st texts = .ok (({ st with pos := some q } : UciState).clearKillers, []) := by
  intro ms
  induction ms with
  | nil =>
    intro texts p st hp hI hS _ hf
    cases texts with
    | cons _ _ => exact absurd hf (by simp [Rel₂])
    | nil => ?_
    refine ⟨p, rfl, hI, hS, ?_⟩
    have : ({ st with pos := some p } : UciState) = st := by cases st; simp_all
    rw [this]
    rfl
  | cons m ms ih =>
    intro texts p st hp hI hS hg hf
    obtain ⟨hgen, p', hmm, hrest⟩ := hg
    obtain ⟨hI', hS'⟩ := step_inv hI hS hgen hmm
    cases texts with
    | nil => exact absurd hf (by simp [Rel₂])
    | cons s rest =>
      obtain ⟨hhead, htail⟩ := hf
      obtain ⟨q, hq, hIq, hSq, hrun⟩ := ih ({ st with pos := some p' }) rfl hI' hS' hrest htail
      refine ⟨q, by rw [playM_cons_ok ms hmm]; exact hq, hIq, hSq, ?_⟩
      rw [applyMoves, hhead]
      simp only [hp, hap, applyUci_accepted hI hgen hmm, ok_bind]
      exact hrun

/-! ### shape of a generated move (what the printer needs) -/

theorem generated_shape {p : Position} {m : Move} (hI : Inv p) (hG : MM.Generated p m) :
    m.frm ∈ sq88 ∧ m.to ∈ sq88 ∧ MMAbs.PromoOk m.promo := by
  have hcase := MMAbs.generated_cases hI hG
  obtain ⟨fp, tp, hc⟩ := MMAbs.gen_common hI hcase
  refine ⟨hc.frm88, hc.to88, ?_⟩
  cases hcase with
  | push _ _ _ _ _ _ hpromo => exact hpromo
  | dbl _ _ _ _ _ _ _ hpromo => exact .inl hpromo
  | capture _ _ _ _ _ _ _ _ _ _ hpromo => exact hpromo
  | enpassant _ _ _ _ _ _ _ _ hpromo => exact .inl hpromo
  | officer _ _ _ _ _ _ _ _ _ hpromo => exact .inl hpromo
  | king _ _ _ _ _ _ _ _ _ hpromo => exact .inl hpromo
  | castleK _ _ _ _ _ _ hpromo => exact .inl hpromo
  | castleQ _ _ _ _ _ _ hpromo => exact .inl hpromo

/-- every move of a game of generated, accepted moves has on-board squares and a promotion field in {0,Q,R,B,N} -/
theorem gameOk_shape : ∀ {ms : List Move} {p : Position}, Inv p → OppSafe p → GameOk p ms →
    ∀ m ∈ ms, m.frm ∈ sq88 ∧ m.to ∈ sq88 ∧ MMAbs.PromoOk m.promo := by
  intro ms
  induction ms with
  | nil => intro p _ _ _ m hm; cases hm
  | cons m ms ih =>
    intro p hI hS hg x hx
    obtain ⟨hgen, p', hmm, hrest⟩ := hg
    obtain ⟨hI', hS'⟩ := step_inv hI hS hgen hmm
    rcases List.mem_cons.mp hx with rfl | hx
    · exact generated_shape hI hgen
    · exact ih hI' hS' hrest x hx

theorem Rel₂.imp_mem {α β} {R S : α → β → Prop} : ∀ {as : List α} {bs : List β},
    (∀ a ∈ as, ∀ b, R a b → S a b) → Rel₂ R as bs → Rel₂ S as bs
  | [], [], _, _ => trivial
  | [], _ :: _, _, h => h.elim
  | _ :: _, [], _, h => h.elim
  | a :: _, b :: _, himp, h =>
    ⟨himp a List.mem_cons_self b h.1, Rel₂.imp_mem (fun x hx => himp x (List.mem_cons_of_mem _ hx)) h.2⟩

theorem Rel₂.map_right {α β} {R : α → β → Prop} (f : α → β) : ∀ {as : List α},
    (∀ a ∈ as, R a (f a)) → Rel₂ R as (as.map f)
  | [], _ => trivial
  | a :: _, h => ⟨h a List.mem_cons_self, Rel₂.map_right f (fun x hx => h x (List.mem_cons_of_mem _ hx))⟩

/-- the printed name of an on-board 0x88 square is the coordinate name of the square it denotes -/
theorem sqString_text : ∀ a ∈ sq88, sqString a = Spec.sqText (to64 a) := by decide +kernel

/-- **the printer agrees with the notation of the rules**: a generated move is printed without panic, as the
    coordinate notation of the move of the rules it denotes -/
theorem moveString_generated {p : Position} {m : Move} (hI : Inv p) (hG : MM.Generated p m) :
    moveString m = .ok (Spec.moveText (absMove m)) := by
  obtain ⟨hf, ht, hp⟩ := generated_shape hI hG
  unfold moveString Spec.moveText absMove
  simp only [sqString_text _ hf, sqString_text _ ht]
  rcases hp with h | h | h | h | h <;> rw [h] <;> rfl

theorem cleanByte_of_range {c : Nat} (h1 : 32 < c) (h2 : c < 128) : PosCmd.CleanByte c := by
  refine ⟨h2, ?_⟩
  have : c ≠ 9 ∧ c ≠ 10 ∧ c ≠ 11 ∧ c ≠ 12 ∧ c ≠ 13 ∧ c ≠ 32 := by omega
  simp [asciiSpace, this]

/-- the text of a move between two squares of the board is one blank-free ASCII word -/
theorem moveText_word {sm : Spec.Move} (hf : sm.frm < 64) (ht : sm.to < 64) : PosCmd.Word (Spec.moveText sm) := by
  obtain ⟨frm, to, promo⟩ := sm
  have hf : @LT.lt Nat _ frm 64 := hf
  have ht : @LT.lt Nat _ to 64 := ht
  refine ⟨by simp [Spec.moveText, Spec.sqText], ?_⟩
  intro c hc
  simp only [Spec.moveText, Spec.sqText, Spec.fileOf, Spec.rankOf, List.mem_append, List.mem_cons, List.not_mem_nil,
    or_false] at hc
  rcases hc with ((rfl | rfl) | (rfl | rfl)) | hc
  · exact cleanByte_of_range (by omega) (by omega)
  · exact cleanByte_of_range (by omega) (by omega)
  · exact cleanByte_of_range (by omega) (by omega)
  · exact cleanByte_of_range (by omega) (by omega)
  · have : c = 110 ∨ c = 98 ∨ c = 114 ∨ c = 113 := by
      unfold Spec.promoText at hc
      split at hc <;> simp_all
    rcases this with rfl | rfl | rfl | rfl <;> exact cleanByte_of_range (by omega) (by omega)

theorem generated_word {p : Position} {m : Move} (hI : Inv p) (hG : MM.Generated p m) :
    PosCmd.Word (Spec.moveText (absMove m)) := by
  obtain ⟨hf, ht, _⟩ := generated_shape hI hG
  exact moveText_word (to64_lt hf) (to64_lt ht)

/-- the model's start position denotes the initial position of the rules -/
theorem abs_startPosition : abs startPosition = Spec.startPos :=
  MMAbs.pos_ext (by decide +kernel) (by decide +kernel) (by decide +kernel) (by decide +kernel) (by decide +kernel)
    (by decide +kernel) (by decide +kernel)

/-! ### the ply counter along a game -/

theorem playM_ply : ∀ {ms : List Move} {p q : Position}, playM p ms = .ok q → 0 ≤ p.ply →
    p.ply + ms.length < 32768 → q.ply = p.ply + ms.length := by
  intro ms
  induction ms with
  | nil =>
    intro p q h _ _
    simp only [playM, pure_eq_ok, Except.ok.injEq] at h
    subst h
    simp
  | cons m ms ih =>
    intro p q h h0 hlt
    simp only [playM, bind_ok] at h
    obtain ⟨⟨p', b⟩, hmm, hrest⟩ := h
    have hply : p'.ply = wrap16 (p.ply + 1) := (makeMove_ply_aux hmm).1
    simp only [List.length_cons] at hlt ⊢
    have hw : p'.ply = p.ply + 1 := by
      rw [hply]; unfold wrap16; omega
    have := ih (p := p') hrest (by omega) (by omega)
    rw [this, hw]
    omega

/-! ### the link to the rules -/

/-- `makeMove` commutes with the abstraction (C02Abs.makeMove_abs, restated on the lemma level) -/
theorem makeMove_abs_of {p p' : Position} {m : Move} {b : Bool} (hi : Inv p) (hg : MM.Generated p m)
    (hk : m.to ≠ (p.side (!whiteTurn p)).king) (h : makeMove p m = .ok (p', b)) :
    abs p' = Spec.apply (abs p) (absMove m) := by
  have hcase := MMAbs.generated_cases hi hg
  obtain ⟨fp, tp, hc⟩ := MMAbs.gen_common hi hcase
  obtain ⟨h3, h4, h5, h6⟩ := MMAbs.abs_castling_eq hi hc h hk
  exact MMAbs.pos_ext (MMAbs.abs_board_eq hi hcase hc h) (MMAbs.abs_turn_flip hi hc h) h3 h4 h5 h6
    (MMAbs.abs_ep_eq hi hcase hc h)

/-- **Hypothesis linking the rules to the engine's legality filter** (to be discharged by `isLegal_spec` /
    `C01_legal_exact`): on a well-formed position with the side not to move not in check, every move the rules
    call legal is denoted by a generated engine move that `makeMove` accepts (verdict `true`). -/
def LegalLink : Prop :=
  ∀ p : Position, Inv p → OppSafe p → ∀ sm : Spec.Move, Spec.legal (abs p) sm = true →
    ∃ m, MM.Generated p m ∧ absMove m = sm ∧ ∃ p', makeMove p m = .ok (p', true)

/-- one legal move of the rules, played by the engine -/
theorem step_spec (hL : LegalLink) {p : Position} {sm : Spec.Move} (hI : Inv p) (hS : OppSafe p)
    (hleg : Spec.legal (abs p) sm = true) :
    ∃ m p', MM.Generated p m ∧ absMove m = sm ∧ makeMove p m = .ok (p', true) ∧ Inv p' ∧ OppSafe p' ∧
      abs p' = Spec.apply (abs p) sm ∧ p'.ply = wrap16 (p.ply + 1) := by
  obtain ⟨m, hgen, habs, p', hmm⟩ := hL p hI hS sm hleg
  obtain ⟨hI', hS'⟩ := step_inv hI hS hgen hmm
  refine ⟨m, p', hgen, habs, hmm, hI', hS', ?_, (makeMove_ply_aux hmm).1⟩
  rw [← habs]
  exact makeMove_abs_of hI hgen (no_king_capture hI hS hgen) hmm

/-- a list of legal moves of the rules, played by the engine -/
theorem play_spec (hL : LegalLink) : ∀ (sms : List Spec.Move) {p : Position} {P' : Spec.Pos}, Inv p → OppSafe p →
    Spec.play (abs p) sms = some P' →
    ∃ ms p', ms.map absMove = sms ∧ GameOk p ms ∧ playM p ms = .ok p' ∧ Inv p' ∧ OppSafe p' ∧ abs p' = P' := by
  intro sms
  induction sms with
  | nil =>
    intro p P' hI hS h
    simp only [Spec.play, Option.some.injEq] at h
    exact ⟨[], p, rfl, trivial, rfl, hI, hS, h⟩
  | cons sm sms ih =>
    intro p P' hI hS h
    simp only [Spec.play] at h
    split at h
    · rename_i hleg
      obtain ⟨m, p1, hgen, habs, hmm, hI1, hS1, hab1, _⟩ := step_spec hL hI hS hleg
      rw [← hab1] at h
      obtain ⟨ms, p', hmap, hgame, hplay, hI', hS', hab'⟩ := ih hI1 hS1 h
      refine ⟨m :: ms, p', ?_, ⟨hgen, p1, hmm, hgame⟩, ?_, hI', hS', hab'⟩
      · rw [List.map_cons, habs, hmap]
      · rw [playM_cons_ok ms hmm]; exact hplay
    · cases h

/-- the same, with the position after every prefix -/
theorem play_spec_prefix (hL : LegalLink) : ∀ (sms : List Spec.Move) {p : Position} {P' : Spec.Pos}, Inv p → OppSafe p →
    Spec.play (abs p) sms = some P' →
    ∃ ms, ms.map absMove = sms ∧ GameOk p ms ∧
      ∀ k, k ≤ sms.length → ∃ q, playM p (ms.take k) = .ok q ∧ Inv q ∧ OppSafe q ∧
        Spec.play (abs p) (sms.take k) = some (abs q) := by
  intro sms
  induction sms with
  | nil =>
    intro p P' hI hS _
    refine ⟨[], rfl, trivial, fun k _ => ⟨p, by simp [playM, pure_eq_ok], hI, hS, by simp [Spec.play]⟩⟩
  | cons sm sms ih =>
    intro p P' hI hS h
    simp only [Spec.play] at h
    split at h
    · rename_i hleg
      obtain ⟨m, p1, hgen, habs, hmm, hI1, hS1, hab1, _⟩ := step_spec hL hI hS hleg
      rw [← hab1] at h
      obtain ⟨ms, hmap, hgame, hpre⟩ := ih hI1 hS1 h
      refine ⟨m :: ms, by rw [List.map_cons, habs, hmap], ⟨hgen, p1, hmm, hgame⟩, ?_⟩
      intro k hk
      cases k with
      | zero => exact ⟨p, by simp [playM, pure_eq_ok], hI, hS, by simp [Spec.play]⟩
      | succ k =>
        obtain ⟨q, hq, hIq, hSq, hsp⟩ := hpre k (by simpa using hk)
        refine ⟨q, ?_, hIq, hSq, ?_⟩
        · rw [List.take_succ_cons, playM_cons_ok _ hmm]; exact hq
        · rw [List.take_succ_cons]
          simp only [Spec.play, hleg, if_true]
          rw [← hab1]; exact hsp
    · cases h

end Magog.Replay
