import Magog.Lemmas.Inv
import Magog.Lemmas.CountGen

/-! What `genPseudo` can generate (`generated_cases`): a case analysis by move class with the facts
    each class provides, under the position invariant `Inv`. Used by the refinement proof
    `makeMove_abs` (C02, second half). -/

namespace Magog.MMAbs
open Magog Magog.Model Magog.Atk Magog.Geo Magog.Count

/-- `m` is one of the pseudo-legal moves the engine's generator emits in `p` -/
def Generated (p : Position) (m : Move) : Prop :=
  ∃ kt ms, genPseudo kt p = .ok ms ∧ m ∈ ms.map (·.mov)

def advOf (w : Bool) : Nat := if w then Gen.DirN else Gen.DirS
def startRankOf (w : Bool) : Nat := if w then Gen.Rank2 else Gen.Rank7
def promoRankOf (w : Bool) : Nat := if w then Gen.Rank8 else Gen.Rank1
def bitOf (w : Bool) : Nat := if w then WhiteBit else BlackBit
def homeRankOf (w : Bool) : Nat := if w then Gen.Rank1 else Gen.Rank8
def kFlagOf (w : Bool) : Nat := if w then FWK else FBK
def qFlagOf (w : Bool) : Nat := if w then FWQ else FBQ

theorem ctx_adv (p : Position) : p.ctx.adv = advOf (whiteTurn p) := by
  unfold Position.ctx advOf; split <;> simp [*]
theorem ctx_startRank (p : Position) : p.ctx.startRank = startRankOf (whiteTurn p) := by
  unfold Position.ctx startRankOf; split <;> simp [*]
theorem ctx_promoRank (p : Position) : p.ctx.promoRank = promoRankOf (whiteTurn p) := by
  unfold Position.ctx promoRankOf; split <;> simp [*]
theorem ctx_curBit' (p : Position) : p.ctx.curBit = bitOf (whiteTurn p) := by
  unfold Position.ctx bitOf; split <;> simp [*]
theorem ctx_enBit' (p : Position) : p.ctx.enBit = bitOf (!whiteTurn p) := by
  unfold Position.ctx bitOf; split <;> simp [*]
theorem ctx_kOk (p : Position) : p.ctx.kOk = (p.flags &&& kFlagOf (whiteTurn p) != 0) := by
  unfold Position.ctx kFlagOf; split <;> simp [*]
theorem ctx_qOk (p : Position) : p.ctx.qOk = (p.flags &&& qFlagOf (whiteTurn p) != 0) := by
  unfold Position.ctx qFlagOf; split <;> simp [*]

theorem inv_side {p : Position} (hi : Inv p) (w : Bool) : SideOk p.board (p.side w) w := by
  cases w
  · exact hi.black
  · exact hi.white

/-- home squares of king and rooks (0x88) -/
def kingHome88 (w : Bool) : Nat := if w then Gen.E1 else Gen.E8
def rookK88 (w : Bool) : Nat := if w then Gen.H1 else Gen.H8
def rookQ88 (w : Bool) : Nat := if w then Gen.A1 else Gen.A8
def rookOf (w : Bool) : Nat := if w then Gen.WRook else Gen.BRook

/-- the promotion field of a generated move -/
def PromoOk (k : Nat) : Prop := k = 0 ∨ k = Queen ∨ k = Rook ∨ k = Bishop ∨ k = Knight

/-- The classes of generated moves, with the facts the generator and the invariant provide. -/
inductive GenCase (p : Position) (m : Move) : Prop
  | push (hfrm : m.frm ∈ sq88) (hpawn : p.board[m.frm]? = some (pawnOf (whiteTurn p)))
      (hto : m.to = addb m.frm (advOf (whiteTurn p))) (hto88 : m.to ∈ sq88)
      (hempty : p.board[m.to]? = some 0) (hep : m.ep = InvalidSq) (hpromo : PromoOk m.promo)
  | dbl (hfrm : m.frm ∈ sq88) (hpawn : p.board[m.frm]? = some (pawnOf (whiteTurn p)))
      (hrank : rankOf m.frm = startRankOf (whiteTurn p))
      (hto : m.to = addb (addb m.frm (advOf (whiteTurn p))) (advOf (whiteTurn p))) (hto88 : m.to ∈ sq88)
      (hempty : p.board[m.to]? = some 0) (hep : m.ep = addb m.frm (advOf (whiteTurn p)))
      (hpromo : m.promo = 0)
  | capture (hfrm : m.frm ∈ sq88) (hpawn : p.board[m.frm]? = some (pawnOf (whiteTurn p)))
      (d : Nat) (hd : d = 255 ∨ d = 1) (hto : m.to = addb (addb m.frm (advOf (whiteTurn p))) d)
      (hto88 : m.to ∈ sq88) (x : Nat) (hx : p.board[m.to]? = some x) (hen : x &&& bitOf (!whiteTurn p) ≠ 0)
      (hep : m.ep = InvalidSq) (hpromo : PromoOk m.promo)
  | enpassant (hfrm : m.frm ∈ sq88) (hpawn : p.board[m.frm]? = some (pawnOf (whiteTurn p)))
      (d : Nat) (hd : d = 255 ∨ d = 1) (hto : m.to = addb (addb m.frm (advOf (whiteTurn p))) d)
      (hepsq : m.to = p.ep) (hepok : FenSpec.EpOk p) (hep : m.ep = InvalidSq) (hpromo : m.promo = 0)
  | officer (hfrm : m.frm ∈ sq88) (c : Nat) (hc : c ∈ officersOf (whiteTurn p))
      (hpc : p.board[m.frm]? = some c) (hto88 : m.to ∈ sq88) (x : Nat) (hx : p.board[m.to]? = some x)
      (hown : x &&& bitOf (whiteTurn p) = 0) (hep : m.ep = InvalidSq) (hpromo : m.promo = 0)
  | king (hk : m.frm = (p.side (whiteTurn p)).king) (d : Nat) (hd : d ∈ kingDirs)
      (hto : m.to = addb m.frm d) (hto88 : m.to ∈ sq88) (x : Nat) (hx : p.board[m.to]? = some x)
      (hown : x &&& bitOf (whiteTurn p) = 0) (hep : m.ep = InvalidSq) (hpromo : m.promo = 0)
  | castleK (hk : m.frm = (p.side (whiteTurn p)).king) (hflag : p.flags &&& kFlagOf (whiteTurn p) ≠ 0)
      (hhome : m.frm = kingHome88 (whiteTurn p)) (hto : m.to = (if whiteTurn p then Gen.G1 else Gen.G8))
      (hempty : p.board[m.to]? = some 0) (hep : m.ep = InvalidSq) (hpromo : m.promo = 0)
  | castleQ (hk : m.frm = (p.side (whiteTurn p)).king) (hflag : p.flags &&& qFlagOf (whiteTurn p) ≠ 0)
      (hhome : m.frm = kingHome88 (whiteTurn p)) (hto : m.to = (if whiteTurn p then Gen.C1 else Gen.C8))
      (hempty : p.board[m.to]? = some 0) (hep : m.ep = InvalidSq) (hpromo : m.promo = 0)

/-! ### generic loop lemmas -/

theorem flatMapM'_mem {α β} {f : α → M (List β)} {l : List α} {r : List β}
    (h : flatMapM' f l = .ok r) {y : β} (hy : y ∈ r) : ∃ x ∈ l, ∃ a, f x = .ok a ∧ y ∈ a := by
  induction l generalizing r with
  | nil =>
    simp only [flatMapM', pure_eq_ok, Except.ok.injEq] at h
    subst h; cases hy
  | cons x xs ih =>
    simp only [flatMapM', bind_ok, pure_eq_ok, Except.ok.injEq] at h
    obtain ⟨a, ha, b, hb, rfl⟩ := h
    rcases List.mem_append.mp hy with hy | hy
    · exact ⟨x, List.mem_cons_self, a, ha, hy⟩
    · obtain ⟨x', hx', a', ha', hy'⟩ := ih hb hy
      exact ⟨x', List.mem_cons_of_mem _ hx', a', ha', hy'⟩

theorem andM_ok_true {a : Bool} {b : M Bool} (h : andM a b = .ok true) : a = true ∧ b = .ok true := by
  cases a
  · simp at h
  · exact ⟨rfl, h⟩

/-! ### pawns -/

theorem pawnMovs_mem' {frm to pr : Nat} {m : Move} (h : m ∈ pawnMovs frm to pr) :
    m.frm = frm ∧ m.to = to ∧ m.ep = InvalidSq ∧ PromoOk m.promo ∧ (m.promo ≠ 0 → rankOf to = pr) := by
  unfold pawnMovs at h
  split at h
  · rename_i hr
    have hr' : rankOf to = pr := by simpa using hr
    simp only [List.mem_cons, List.not_mem_nil, or_false] at h
    rcases h with rfl | rfl | rfl | rfl <;> simp [PromoOk, hr']
  · simp only [List.mem_cons, List.not_mem_nil, or_false] at h
    subst h
    simp [PromoOk]

theorem pawnCapQ_cases {p : Position} {c : Ctx} {frm : Nat} {a : List RMove} {rm : RMove}
    (h : pawnCapQ p c frm = .ok a) (hrm : rm ∈ a) :
    rm.mov ∈ pawnMovs frm (addb (addb frm c.adv) 255) c.promoRank ∧
    ((isValid (addb (addb frm c.adv) 255) = true ∧
        ∃ x, p.board[addb (addb frm c.adv) 255]? = some x ∧ x &&& c.enBit ≠ 0) ∨
      addb (addb frm c.adv) 255 = p.ep) := by
  unfold pawnCapQ at h
  dsimp only at h
  simp only [bind_ok] at h
  obtain ⟨hit, hhit, h⟩ := h
  cases hit
  · simp only [Bool.false_eq_true, if_false] at h
    split at h
    · rename_i hq
      refine ⟨?_, .inr (by simpa using hq)⟩
      rw [← pawnCaptures_movs h]
      exact List.mem_map.mpr ⟨rm, hrm, rfl⟩
    · simp only [pure_eq_ok, Except.ok.injEq] at h
      subst h; cases hrm
  · simp only [if_true, bind_ok] at h
    obtain ⟨x, hx, h⟩ := h
    obtain ⟨hv, hh⟩ := andM_ok_true hhit
    simp only [bind_ok, pure_eq_ok, Except.ok.injEq] at hh
    obtain ⟨x', hx', hne⟩ := hh
    rw [hx] at hx'; cases hx'
    refine ⟨?_, .inl ⟨hv, x, bget_ok_iff.mp hx, by simpa using hne⟩⟩
    rw [← pawnCaptures_movs h]
    exact List.mem_map.mpr ⟨rm, hrm, rfl⟩

theorem pawnCapK_cases {p : Position} {c : Ctx} {frm : Nat} {a : List RMove} {rm : RMove}
    (h : pawnCapK p c frm = .ok a) (hrm : rm ∈ a) :
    rm.mov ∈ pawnMovs frm (addb (addb frm c.adv) 1) c.promoRank ∧
    ∃ x, p.board[addb (addb frm c.adv) 1]? = some x ∧
      (x &&& c.enBit ≠ 0 ∨ addb (addb frm c.adv) 1 = p.ep) := by
  unfold pawnCapK at h
  dsimp only at h
  simp only [bind_ok] at h
  obtain ⟨x, hx, h⟩ := h
  split at h
  · rename_i hne
    refine ⟨?_, x, bget_ok_iff.mp hx, .inl (by simpa using hne)⟩
    rw [← pawnCaptures_movs h]
    exact List.mem_map.mpr ⟨rm, hrm, rfl⟩
  · split at h
    · rename_i hq
      refine ⟨?_, x, bget_ok_iff.mp hx, .inr (by simpa using hq)⟩
      rw [← pawnCaptures_movs h]
      exact List.mem_map.mpr ⟨rm, hrm, rfl⟩
    · simp only [pure_eq_ok, Except.ok.injEq] at h
      subst h; cases hrm

theorem pawnPushGen_cases {p : Position} {c : Ctx} {kt : Killers} {frm : Nat} {a : List RMove} {rm : RMove}
    (h : pawnPushGen p c kt frm = .ok a) (hrm : rm ∈ a) :
    p.board[addb frm c.adv]? = some 0 ∧
    (rm.mov ∈ pawnMovs frm (addb frm c.adv) c.promoRank ∨
      (rm.mov = ⟨frm, addb (addb frm c.adv) c.adv, 0, addb frm c.adv⟩ ∧ rankOf frm = c.startRank ∧
        p.board[addb (addb frm c.adv) c.adv]? = some 0)) := by
  unfold pawnPushGen at h
  dsimp only at h
  simp only [bind_ok] at h
  obtain ⟨y, hy, h⟩ := h
  split at h
  · rename_i h0
    have h0' : y = 0 := by simpa using h0
    subst h0'
    refine ⟨bget_ok_iff.mp hy, ?_⟩
    simp only [bind_ok, pure_eq_ok, Except.ok.injEq] at h
    obtain ⟨single, hs, dbl, hdbl, rfl⟩ := h
    have hsingle : ∀ rm ∈ single, rm.mov ∈ pawnMovs frm (addb frm c.adv) c.promoRank := by
      intro r hr
      rw [← pawnPushes_movs hs]
      exact List.mem_map.mpr ⟨r, hr, rfl⟩
    cases dbl
    · simp only [Bool.false_eq_true, if_false] at hrm
      exact .inl (hsingle rm hrm)
    · simp only [if_true] at hrm
      rcases List.mem_append.mp hrm with hrm | hrm
      · exact .inl (hsingle rm hrm)
      · simp only [List.mem_cons, List.not_mem_nil, or_false] at hrm
        subst hrm
        obtain ⟨hr, hh⟩ := andM_ok_true hdbl
        simp only [bind_ok, Except.ok.injEq] at hh
        obtain ⟨z, hz, hz0⟩ := hh
        have hz0' : z = 0 := by simpa using hz0
        subst hz0'
        exact .inr ⟨rfl, by simpa using hr, bget_ok_iff.mp hz⟩
  · simp only [pure_eq_ok, Except.ok.injEq] at h
    subst h; cases hrm

/-! ### officers and king steps -/

/-- a non-pawn, non-castling move from `frm`: plain move to a valid square not holding an own man -/
def StepOk (p : Position) (c : Ctx) (frm : Nat) (m : Move) : Prop :=
  m.frm = frm ∧ m.promo = 0 ∧ m.ep = InvalidSq ∧ isValid m.to = true ∧
    ∃ x, p.board[m.to]? = some x ∧ x &&& c.curBit = 0

theorem knightGen_mem {p : Position} {c : Ctx} {kt : Killers} {frm : Nat} {a : List RMove} {rm : RMove}
    (h : knightGen p c kt frm = .ok a) (hrm : rm ∈ a) : StepOk p c frm rm.mov := by
  unfold knightGen at h
  obtain ⟨d, _, l, hl, hrl⟩ := flatMapM'_mem h hrm
  dsimp only at hl
  simp only [bind_ok] at hl
  obtain ⟨ok, hok, hl⟩ := hl
  cases ok
  · simp only [Bool.false_eq_true, if_false, pure_eq_ok, Except.ok.injEq] at hl
    subst hl; cases hrl
  · simp only [if_true, bind_ok, pure_eq_ok, Except.ok.injEq] at hl
    obtain ⟨x, hx, pc, _, mv, hmv, rfl⟩ := hl
    simp only [List.mem_cons, List.not_mem_nil, or_false] at hrl
    subst hrl
    obtain ⟨hv, hh⟩ := andM_ok_true hok
    simp only [bind_ok, pure_eq_ok, Except.ok.injEq] at hh
    obtain ⟨x', hx', h0⟩ := hh
    rw [hx] at hx'; cases hx'
    rw [moveOrCapture_mov hmv]
    exact ⟨rfl, rfl, rfl, hv, x, bget_ok_iff.mp hx, by simpa using h0⟩

theorem slideDir_mem {p : Position} {c : Ctx} {kt : Killers} {frm att dir : Nat} :
    ∀ (fuel to : Nat) (a : List RMove), slideDir p.board c kt p.ply frm att dir fuel to = .ok a →
      ∀ rm ∈ a, StepOk p c frm rm.mov := by
  intro fuel
  induction fuel with
  | zero => intro to a ha; simp [slideDir, throw_eq_error] at ha
  | succ fuel ih =>
    intro to a ha
    unfold slideDir at ha
    cases hv : isValid to
    · simp only [hv, Bool.not_false, if_true, pure_eq_ok, Except.ok.injEq] at ha
      subst ha; intro rm hrm; cases hrm
    · cases hx : bget p.board to with
      | error e => simp [hv, hx] at ha
      | ok x =>
        simp only [hv, hx, Bool.not_true, Bool.false_eq_true, if_false, ok_bind, pure_eq_ok] at ha
        cases hcb : (x &&& c.curBit != 0)
        · simp only [hcb, Bool.false_eq_true, if_false, bind_ok] at ha
          obtain ⟨mv, hmv, ha⟩ := ha
          have h1 : StepOk p c frm mv.mov := by
            rw [moveOrCapture_mov hmv]
            exact ⟨rfl, rfl, rfl, hv, x, bget_ok_iff.mp hx, by simpa using hcb⟩
          cases he : (x &&& c.enBit != 0)
          · simp only [he, Bool.false_eq_true, if_false, bind_ok, Except.ok.injEq] at ha
            obtain ⟨rest, hrest, rfl⟩ := ha
            intro rm hrm
            rcases List.mem_cons.mp hrm with rfl | hrm
            · exact h1
            · exact ih _ _ hrest rm hrm
          · simp only [he, if_true, Except.ok.injEq] at ha
            subst ha
            intro rm hrm
            simp only [List.mem_cons, List.not_mem_nil, or_false] at hrm
            subst hrm; exact h1
        · simp only [hcb, if_true, Except.ok.injEq] at ha
          subst ha; intro rm hrm; cases hrm

theorem slideGen_mem {p : Position} {c : Ctx} {kt : Killers} {frm : Nat} {dirs : List Nat} {a : List RMove}
    {rm : RMove} (h : slideGen p c kt frm dirs = .ok a) (hrm : rm ∈ a) : StepOk p c frm rm.mov := by
  simp only [slideGen, bind_ok] at h
  obtain ⟨pc, _, h⟩ := h
  obtain ⟨d, _, l, hl, hrl⟩ := flatMapM'_mem h hrm
  exact slideDir_mem _ _ _ hl rm hrl

theorem pieceGen_mem {p : Position} {c : Ctx} {kt : Killers} {frm : Nat} {a : List RMove} {rm : RMove}
    (h : pieceGen p c kt frm = .ok a) (hrm : rm ∈ a) : StepOk p c frm rm.mov := by
  simp only [pieceGen, bind_ok] at h
  obtain ⟨pc, _, h⟩ := h
  split at h
  · exact knightGen_mem h hrm
  · split at h
    · exact slideGen_mem h hrm
    · split at h
      · exact slideGen_mem h hrm
      · split at h
        · exact slideGen_mem h hrm
        · simp [throw_eq_error] at h

theorem kingGen_mem {p : Position} {c : Ctx} {kt : Killers} {a : List RMove} {rm : RMove}
    (h : kingGen p c kt = .ok a) (hrm : rm ∈ a) :
    StepOk p c c.cur.king rm.mov ∧ ∃ d ∈ kingDirs, rm.mov.to = addb c.cur.king d := by
  unfold kingGen at h
  obtain ⟨d, hd, l, hl, hrl⟩ := flatMapM'_mem h hrm
  dsimp only at hl
  simp only [bind_ok] at hl
  obtain ⟨ok, hok, hl⟩ := hl
  cases ok
  · simp only [Bool.false_eq_true, if_false, pure_eq_ok, Except.ok.injEq] at hl
    subst hl; cases hrl
  · simp only [if_true, bind_ok, pure_eq_ok, Except.ok.injEq] at hl
    obtain ⟨x, hx, pc, _, mv, hmv, rfl⟩ := hl
    simp only [List.mem_cons, List.not_mem_nil, or_false] at hrl
    subst hrl
    obtain ⟨hv, hh⟩ := andM_ok_true hok
    simp only [bind_ok] at hh
    obtain ⟨x', hx', hh⟩ := hh
    rw [hx] at hx'; cases hx'
    obtain ⟨h0, _⟩ := andM_ok_true hh
    rw [moveOrCapture_mov hmv]
    exact ⟨⟨rfl, rfl, rfl, hv, x, bget_ok_iff.mp hx, by simpa using h0⟩, d, hd, rfl⟩

/-! ### finite facts about pawn targets -/

theorem push_valid : ∀ f ∈ sq88, ∀ w : Bool, addb f (advOf w) < 128 → addb f (advOf w) ∈ sq88 := by
  decide

theorem dbl_valid : ∀ f ∈ sq88, ∀ w : Bool, addb (addb f (advOf w)) (advOf w) < 128 →
    addb (addb f (advOf w)) (advOf w) ∈ sq88 := by
  decide

theorem capQ_ne_invalid : ∀ f ∈ sq88, ∀ w : Bool, addb (addb f (advOf w)) 255 ≠ InvalidSq := by
  decide

theorem ep_rank {p : Position} (h : FenSpec.EpOk p) : rankOf p.ep ≠ promoRankOf (whiteTurn p) := by
  obtain ⟨_, _, _, h4⟩ := h
  unfold promoRankOf
  cases hw : whiteTurn p
  · simp only [hw, Bool.false_eq_true, if_false] at h4 ⊢
    rw [h4.1]; decide
  · simp only [hw, if_true] at h4 ⊢
    rw [h4.1]; decide

theorem lt_of_some {b : Array Nat} {i v : Nat} (h : b[i]? = some v) : i < b.size :=
  (Array.getElem?_eq_some_iff.mp h).1

/-! ### castling: what a set flag guarantees, and the emptiness of the king's target -/

theorem some_of_getD {b : Array Nat} {s v : Nat} (hs : s < b.size) (h : b.getD s 0 = v) : b[s]? = some v := by
  rw [Array.getD_eq_getD_getElem?, Array.getElem?_eq_getElem hs] at h
  rw [Array.getElem?_eq_getElem hs]
  simpa using h

theorem castle_K {p : Position} (hi : Inv p) (w : Bool) (hflag : p.flags &&& kFlagOf w ≠ 0) :
    p.board[kingHome88 w]? = some (kingOf w) ∧ p.board[rookK88 w]? = some (rookOf w) := by
  have hc := hi.castling
  have hsz := hi.board.size
  simp only [castlingConsistent, Bool.and_eq_true, Bool.not_eq_true', Bool.and_eq_false_iff,
    Bool.or_eq_false_iff, bne_eq_false_iff_eq] at hc
  obtain ⟨⟨⟨h1, _⟩, h3⟩, _⟩ := hc
  cases w
  · simp only [kFlagOf, Bool.false_eq_true, if_false] at hflag
    rcases h3 with h | ⟨ha, hb⟩
    · exact absurd h hflag
    · exact ⟨some_of_getD (by rw [hsz]; decide) ha, some_of_getD (by rw [hsz]; decide) hb⟩
  · simp only [kFlagOf, if_true] at hflag
    rcases h1 with h | ⟨ha, hb⟩
    · exact absurd h hflag
    · exact ⟨some_of_getD (by rw [hsz]; decide) ha, some_of_getD (by rw [hsz]; decide) hb⟩

theorem castle_Q {p : Position} (hi : Inv p) (w : Bool) (hflag : p.flags &&& qFlagOf w ≠ 0) :
    p.board[kingHome88 w]? = some (kingOf w) ∧ p.board[rookQ88 w]? = some (rookOf w) := by
  have hc := hi.castling
  have hsz := hi.board.size
  simp only [castlingConsistent, Bool.and_eq_true, Bool.not_eq_true', Bool.and_eq_false_iff,
    Bool.or_eq_false_iff, bne_eq_false_iff_eq] at hc
  obtain ⟨⟨⟨_, h2⟩, _⟩, h4⟩ := hc
  cases w
  · simp only [qFlagOf, Bool.false_eq_true, if_false] at hflag
    rcases h4 with h | ⟨ha, hb⟩
    · exact absurd h hflag
    · exact ⟨some_of_getD (by rw [hsz]; decide) ha, some_of_getD (by rw [hsz]; decide) hb⟩
  · simp only [qFlagOf, if_true] at hflag
    rcases h2 with h | ⟨ha, hb⟩
    · exact absurd h hflag
    · exact ⟨some_of_getD (by rw [hsz]; decide) ha, some_of_getD (by rw [hsz]; decide) hb⟩

/-- a king standing on its home square is the side's recorded king -/
theorem king_home {p : Position} (hi : Inv p) (w : Bool) (h : p.board[kingHome88 w]? = some (kingOf w)) :
    (p.side w).king = kingHome88 w := by
  have h88 : kingHome88 w < 128 ∧ isValid (kingHome88 w) = true := by cases w <;> decide
  exact (((inv_side hi w).king (kingHome88 w)).mpr ⟨h88.1, h88.2, h⟩).symm

theorem castleKOk_empty {p : Position} {c : Ctx} (h : castleKOk p c = .ok true) :
    bgetI p.board (add8 (int8 c.cur.king) 2) = .ok 0 := by
  simp only [castleKOk, bind_ok] at h
  obtain ⟨a, _, h⟩ := h
  obtain ⟨_, h⟩ := andM_ok_true h
  simp only [bind_ok] at h
  obtain ⟨b, hb, h⟩ := h
  obtain ⟨hb0, _⟩ := andM_ok_true h
  have : b = 0 := by simpa using hb0
  rw [hb, this]

theorem castleQOk_empty {p : Position} {c : Ctx} (h : castleQOk p c = .ok true) :
    bgetI p.board (add8 (int8 c.cur.king) (-2)) = .ok 0 := by
  simp only [castleQOk, bind_ok] at h
  obtain ⟨a, _, h⟩ := h
  obtain ⟨_, h⟩ := andM_ok_true h
  simp only [bind_ok] at h
  obtain ⟨b, hb, h⟩ := h
  obtain ⟨hb0, _⟩ := andM_ok_true h
  have : b = 0 := by simpa using hb0
  rw [hb, this]

theorem bgetI_nat (b : Array Nat) (n : Nat) : bgetI b (n : Int) = bget b n := by
  have : ¬ ((n : Int) < 0) := by omega
  simp [bgetI, this]

theorem castleK_target : ∀ w : Bool, add8 (int8 (kingHome88 w)) 2 = ((if w then Gen.G1 else Gen.G8 : Nat) : Int) ∧
    toByte (add8 (int8 (kingHome88 w)) 2) = (if w then Gen.G1 else Gen.G8) := by decide
theorem castleQ_target : ∀ w : Bool, add8 (int8 (kingHome88 w)) (-2) = ((if w then Gen.C1 else Gen.C8 : Nat) : Int) ∧
    toByte (add8 (int8 (kingHome88 w)) (-2)) = (if w then Gen.C1 else Gen.C8) := by decide

/-! ### assembly -/

theorem pawn_case {p : Position} (hi : Inv p) {kt : Killers} {f : Nat} {l : List RMove} {rm : RMove}
    (hf : f ∈ (p.side (whiteTurn p)).pawns) (hl : pawnGen p p.ctx kt f = .ok l) (hrm : rm ∈ l) :
    GenCase p rm.mov := by
  obtain ⟨hf1, hf2, hfb⟩ := ((inv_side hi (whiteTurn p)).pawns f).mp hf
  have hf88 : f ∈ sq88 := mem_sq88.mpr ⟨hf1, hf2⟩
  have hsz := hi.board.size
  rw [pawnGen_eq] at hl
  simp only [bind_ok, pure_eq_ok, Except.ok.injEq] at hl
  obtain ⟨a, ha, b, hb, d, hd, rfl⟩ := hl
  -- an en-passant capture, once the target is known to be the (valid) en-passant square
  have hepcase : ∀ dd, dd = 255 ∨ dd = 1 → rm.mov ∈ pawnMovs f (addb (addb f (advOf (whiteTurn p))) dd)
      (promoRankOf (whiteTurn p)) → addb (addb f (advOf (whiteTurn p))) dd = p.ep → FenSpec.EpOk p →
      GenCase p rm.mov := by
    intro dd hdd hmv heq hok
    obtain ⟨h1, h2, h3, _, h5⟩ := pawnMovs_mem' hmv
    refine .enpassant (h1 ▸ hf88) (h1 ▸ hfb) dd hdd (by rw [h2, h1]) (by rw [h2, heq]) hok h3 ?_
    rcases Nat.eq_zero_or_pos rm.mov.promo with h0 | h0
    · exact h0
    · exfalso
      have := h5 (by omega)
      rw [heq] at this
      exact ep_rank hok this
  have hcapcase : ∀ dd, dd = 255 ∨ dd = 1 → rm.mov ∈ pawnMovs f (addb (addb f (advOf (whiteTurn p))) dd)
      (promoRankOf (whiteTurn p)) → ∀ x, p.board[addb (addb f (advOf (whiteTurn p))) dd]? = some x →
      x &&& bitOf (!whiteTurn p) ≠ 0 → GenCase p rm.mov := by
    intro dd hdd hmv x hx hne
    obtain ⟨h1, h2, h3, h4, _⟩ := pawnMovs_mem' hmv
    have hlt : addb (addb f (advOf (whiteTurn p))) dd < 128 := hsz ▸ lt_of_some hx
    have hval : isValid (addb (addb f (advOf (whiteTurn p))) dd) = true := by
      cases hv : isValid (addb (addb f (advOf (whiteTurn p))) dd)
      · have := hi.offBoard _ hlt hv
        rw [hx] at this
        cases this
        simp at hne
      · rfl
    exact .capture (h1 ▸ hf88) (h1 ▸ hfb) dd hdd (by rw [h2, h1]) (h2 ▸ mem_sq88.mpr ⟨hlt, hval⟩) x
      (h2 ▸ hx) hne h3 h4
  rcases List.mem_append.mp hrm with hrm | hrm
  · rcases List.mem_append.mp hrm with hrm | hrm
    · -- queen-side capture
      obtain ⟨hmv, hc⟩ := pawnCapQ_cases ha hrm
      rw [ctx_adv, ctx_promoRank] at hmv
      rw [ctx_adv, ctx_enBit'] at hc
      rcases hc with ⟨_, x, hx, hne⟩ | heq
      · exact hcapcase 255 (.inl rfl) hmv x hx hne
      · rcases hi.ep with hinv | hok
        · exact absurd (heq.trans hinv) (capQ_ne_invalid f hf88 _)
        · exact hepcase 255 (.inl rfl) hmv heq hok
    · -- king-side capture
      obtain ⟨hmv, x, hx, hc⟩ := pawnCapK_cases hb hrm
      rw [ctx_adv, ctx_promoRank] at hmv
      rw [ctx_adv] at hx
      rw [ctx_adv, ctx_enBit'] at hc
      rcases hc with hne | heq
      · exact hcapcase 1 (.inr rfl) hmv x hx hne
      · rcases hi.ep with hinv | hok
        · have hlt : addb (addb f (advOf (whiteTurn p))) 1 < 128 := hsz ▸ lt_of_some hx
          rw [heq, hinv] at hlt
          exact absurd hlt (by decide)
        · exact hepcase 1 (.inr rfl) hmv heq hok
  · -- pushes
    obtain ⟨he1, hc⟩ := pawnPushGen_cases hd hrm
    rw [ctx_adv] at he1
    rw [ctx_adv, ctx_promoRank, ctx_startRank] at hc
    have hlt1 : addb f (advOf (whiteTurn p)) < 128 := hsz ▸ lt_of_some he1
    rcases hc with hmv | ⟨hmv, hr, he2⟩
    · obtain ⟨h1, h2, h3, h4, _⟩ := pawnMovs_mem' hmv
      exact .push (h1 ▸ hf88) (h1 ▸ hfb) (by rw [h2, h1]) (h2 ▸ push_valid f hf88 _ hlt1) (h2 ▸ he1) h3 h4
    · have hlt2 : addb (addb f (advOf (whiteTurn p))) (advOf (whiteTurn p)) < 128 := hsz ▸ lt_of_some he2
      rw [hmv]
      exact .dbl hf88 hfb hr rfl (dbl_valid f hf88 _ hlt2) he2 rfl rfl

theorem step_to88 {p : Position} (hi : Inv p) {c : Ctx} {frm : Nat} {m : Move} (h : StepOk p c frm m) :
    m.to ∈ sq88 := by
  obtain ⟨_, _, _, hv, x, hx, _⟩ := h
  exact mem_sq88.mpr ⟨hi.board.size ▸ lt_of_some hx, hv⟩

/-- **What the generator can emit**: every generated move falls into one of the eight classes. -/
theorem generated_cases {p : Position} {m : Move} (hi : Inv p) (hg : Generated p m) : GenCase p m := by
  obtain ⟨kt, ms, hgen, hm⟩ := hg
  obtain ⟨rm, hrm, rfl⟩ := List.mem_map.mp hm
  simp only [genPseudo, bind_ok, pure_eq_ok, Except.ok.injEq] at hgen
  obtain ⟨a, ha, b, hb, k, hk, cs, hcs, rfl⟩ := hgen
  rw [ctx_cur] at ha hb
  rcases List.mem_append.mp hrm with hrm | hrm
  · rcases List.mem_append.mp hrm with hrm | hrm
    · rcases List.mem_append.mp hrm with hrm | hrm
      · -- pawns
        obtain ⟨f, hf, l, hl, hrl⟩ := flatMapM'_mem ha hrm
        exact pawn_case hi hf hl hrl
      · -- officers
        obtain ⟨f, hf, l, hl, hrl⟩ := flatMapM'_mem hb hrm
        obtain ⟨hf1, hf2, c, hc, hfb⟩ := ((inv_side hi (whiteTurn p)).pieces f).mp hf
        have hs := pieceGen_mem hl hrl
        have ht := step_to88 hi hs
        obtain ⟨h1, h2, h3, _, x, hx, hown⟩ := hs
        rw [ctx_curBit'] at hown
        exact .officer (h1 ▸ mem_sq88.mpr ⟨hf1, hf2⟩) c hc (h1 ▸ hfb) ht x hx hown h3 h2
    · -- king steps
      obtain ⟨hs, d, hd, hto⟩ := kingGen_mem hk hrm
      have ht := step_to88 hi hs
      obtain ⟨h1, h2, h3, _, x, hx, hown⟩ := hs
      rw [ctx_curBit'] at hown
      rw [ctx_cur] at h1 hto
      exact .king h1 d hd (by rw [hto, h1]) ht x hx hown h3 h2
  · -- castling
    rw [castleGen_eq] at hcs
    simp only [bind_ok, pure_eq_ok, Except.ok.injEq] at hcs
    obtain ⟨q, hq, kk, hkk, rfl⟩ := hcs
    rcases List.mem_append.mp hrm with h | h
    · rcases castleQPart_shape hq with ⟨rfl, _⟩ | ⟨mv, rfl, hmv, _, hfl, hok⟩
      · cases h
      · simp only [List.mem_cons, List.not_mem_nil, or_false] at h
        subst h
        rw [ctx_qOk] at hfl
        have hfl' : p.flags &&& qFlagOf (whiteTurn p) ≠ 0 := by simpa using hfl
        have hkh := king_home hi _ (castle_Q hi _ hfl').1
        have hemp := castleQOk_empty hok
        rw [ctx_cur, hkh, (castleQ_target _).1, bgetI_nat] at hemp
        rw [hmv]
        refine .castleQ (by rw [ctx_cur]) hfl' (by rw [ctx_cur]; exact hkh) ?_ ?_ rfl rfl
        · show castleQTo p.ctx = _
          rw [castleQTo, ctx_cur, hkh, (castleQ_target _).2]
        · show p.board[castleQTo p.ctx]? = some 0
          rw [castleQTo, ctx_cur, hkh, (castleQ_target _).2]
          exact bget_ok_iff.mp hemp
    · rcases castleKPart_shape hkk with ⟨rfl, _⟩ | ⟨mv, rfl, hmv, _, hfl, hok⟩
      · cases h
      · simp only [List.mem_cons, List.not_mem_nil, or_false] at h
        subst h
        rw [ctx_kOk] at hfl
        have hfl' : p.flags &&& kFlagOf (whiteTurn p) ≠ 0 := by simpa using hfl
        have hkh := king_home hi _ (castle_K hi _ hfl').1
        have hemp := castleKOk_empty hok
        rw [ctx_cur, hkh, (castleK_target _).1, bgetI_nat] at hemp
        rw [hmv]
        refine .castleK (by rw [ctx_cur]) hfl' (by rw [ctx_cur]; exact hkh) ?_ ?_ rfl rfl
        · show castleKTo p.ctx = _
          rw [castleKTo, ctx_cur, hkh, (castleK_target _).2]
        · show p.board[castleKTo p.ctx]? = some 0
          rw [castleKTo, ctx_cur, hkh, (castleK_target _).2]
          exact bget_ok_iff.mp hemp

end Magog.MMAbs
