import Magog.Generated.Funcs
import Magog.Model.Time
import Magog.Model.MoveGen
import Magog.Model.Fen
import Magog.Model.Search

/-! Helper lemmas for the *tie theorems* (`Props/*Tie.lean`): the definitions in `Magog.Gen.Fn` are printed by the
    Go→Lean translator `harness/cmd/go2lean` from the current Go source on every run; the tie theorems equate them
    with the hand-written model, for all arguments. -/

namespace Magog.Lemmas.GoArith
open Magog Magog.Gen.Fn

theorem wrapS64_id {x : Int} (h1 : -9223372036854775808 ≤ x) (h2 : x < 9223372036854775808) : wrapS 64 x = x := by
  unfold wrapS; omega

theorem wrapS16_id {x : Int} (h1 : -32768 ≤ x) (h2 : x < 32768) : wrapS 16 x = x := by
  unfold wrapS; omega

theorem wrapS8_id {x : Int} (h1 : -128 ≤ x) (h2 : x < 128) : wrapS 8 x = x := by
  unfold wrapS; omega

theorem wrapS64_tdiv {x c : Int} (h1 : -9223372036854775808 < x) (h2 : x < 9223372036854775808) :
    wrapS 64 (Int.tdiv x c) = Int.tdiv x c := by
  have := Int.natAbs_tdiv_le_natAbs x c
  apply wrapS64_id <;> omega

theorem wrapS64_eq_wrap64 (x : Int) : wrapS 64 x = Model.wrap64 x := by
  unfold wrapS Model.wrap64; omega

theorem min_eq (a b : Int) : Gen.Fn.min a b = Min.min a b := by
  unfold Gen.Fn.min; simp only [decide_eq_true_eq]; split <;> omega

theorem max_eq (a b : Int) : Gen.Fn.max a b = Max.max a b := by
  unfold Gen.Fn.max; simp only [decide_eq_true_eq]; split <;> omega

theorem abs_eq {a : Int} (h1 : -9223372036854775808 < a) (h2 : a < 9223372036854775808) :
    Gen.Fn.abs a = (a.natAbs : Int) := by
  unfold Gen.Fn.abs; simp only [decide_eq_true_eq]
  split
  · rw [wrapS64_id (by omega) (by omega)]; omega
  · omega

/-- a translated partial function and a model function agree: same value, or both panic -/
def OkEq {α : Type} (a : Except String α) (b : Model.M α) : Prop :=
  match a, b with
  | .ok x, .ok y => x = y
  | .error _, .error _ => True
  | _, _ => False

end Magog.Lemmas.GoArith
