import Magog.Lemmas.TotalMM
import Magog.Lemmas.GenPure
import Magog.Lemmas.CountKing
import Magog.Lemmas.CountGen

/-! The move COUNTERS (`countMoves`, `countMoves (flipTurn p)`, `countTacticalMoves`) never panic on
    well-formed positions.

    Every board read of the counters is in range (finite 0x88 geometry, kernel-decided), every slider ray
    leaves the board within the fuel, the castling tests are only evaluated with the king at home, and every
    `isLegal` call is on a move for which `makeMove` is total: a simple move (`Total.MoveOk`, file `TotalMM`)
    or an en-passant capture (`MM.ep_result`). The en-passant field enters only through `EpFacts`, which is
    established in the three situations that occur: no en-passant square, a consistent one (`EpOk`), and
    the "wrong-coloured" one of `flipTurn p`. -/

namespace Magog.Total
open Magog Magog.Model Magog.Atk Magog.Geo Magog.MM Magog.Count

/-! ### monad plumbing -/

theorem sumM'_total {α} {f : α → M Nat} :
    ∀ {l : List α}, (∀ x ∈ l, ∃ n, f x = .ok n) → ∃ n, sumM' f l = .ok n := by
  intro l
  induction l with
  | nil => intro _; exact ⟨0, rfl⟩
  | cons x xs ih =>
    intro h
    obtain ⟨a, ha⟩ := h x List.mem_cons_self
    obtain ⟨b, hb⟩ := ih (fun y hy => h y (List.mem_cons_of_mem _ hy))
    exact ⟨a + b, by simp only [sumM', ha, hb, ok_bind, pure_eq_ok]⟩

theorem map_total {α β} {x : M α} (f : α → β) (h : ∃ a, x = .ok a) :
    ∃ b, (do let a ← x; pure (f a) : M β) = .ok b := by
  obtain ⟨a, ha⟩ := h
  exact ⟨f a, by rw [ha]; rfl⟩

theorem countPawnMoves_total {q : Position} {frm to pr : Nat}
    (h : ∃ b, isLegal q ⟨frm, to, 0, InvalidSq⟩ = .ok b) : ∃ n, countPawnMoves q frm to pr = .ok n := by
  obtain ⟨b, hb⟩ := h
  cases b
  · exact ⟨0, by simp only [countPawnMoves, hb, ok_bind, Bool.not_false, if_true, pure_eq_ok]⟩
  · exact ⟨if rankOf to == pr then 4 else 1, by
      simp only [countPawnMoves, hb, ok_bind, Bool.not_true, Bool.false_eq_true, if_false, pure_eq_ok]⟩

theorem isLegal_of_makeMove {q : Position} {m : Move} (h : ∃ r, makeMove q m = .ok r) :
    ∃ b, isLegal q m = .ok b := by
  obtain ⟨r, hr⟩ := h
  exact ⟨r.2, by simp only [isLegal, hr, ok_bind, pure_eq_ok]⟩

/-! ### colour-generic constants and the context record -/

def advOf (w : Bool) : Nat := if w then Gen.DirN else Gen.DirS
def startRankOf (w : Bool) : Nat := if w then Gen.Rank2 else Gen.Rank7
/-- rank of the en-passant square when `w` is to move -/
def epRankOf (w : Bool) : Nat := if w then Gen.Rank6 else Gen.Rank3
/-- the square a pawn of colour `w` stands on before a single push to `s` -/
def behind (w : Bool) (s : Nat) : Nat := if w then s - Gen.UnitRank else s + Gen.UnitRank

/-- what the counters read from `GetCurrentContext` (the promotion rank is irrelevant for totality) -/
structure CEnv (q : Position) (w : Bool) (c : Ctx) : Prop where
  inv : InvNoEp q
  turn : whiteTurn q = w
  cur : c.cur = q.side w
  en : c.en = q.side (!w)
  adv : c.adv = advOf w
  curBit : c.curBit = colorBit w
  enBit : c.enBit = colorBit (!w)
  startRank : c.startRank = startRankOf w

theorem cenv_ctx {q : Position} (hI : InvNoEp q) : CEnv q (whiteTurn q) q.ctx := by
  refine ⟨hI, rfl, ?_, ?_, ?_, ?_, ?_, ?_⟩ <;> unfold Position.ctx <;> cases whiteTurn q <;> rfl

/-- a cell without the enemy's colour bit set is no enemy man; conversely: -/
theorem enemy_bit_man {w : Bool} {t : Nat} (hc : t = 0 ∨ t ∈ pieceCodes) (h : t &&& colorBit (!w) ≠ 0) :
    Man (!w) t := by
  have : ∀ w : Bool, ∀ t ∈ 0 :: pieceCodes, t &&& colorBit (!w) ≠ 0 → Man (!w) t := by decide
  exact this w t (List.mem_cons.mpr hc) h

theorem cell_lt {q : Position} (hI : InvNoEp q) {s : Nat} (hs : s < 128) : ∃ x, q.board[s]? = some x := by
  have hsz := hI.boardInv.ok.size
  exact ⟨q.board[s], Array.getElem?_eq_getElem (by omega)⟩

/-- a board cell inside the array: off-board it is 0, on board 0 or a piece code -/
theorem cell_cases {q : Position} (hI : InvNoEp q) {s x : Nat} (hs : s < 128) (hx : q.board[s]? = some x) :
    (s ∈ sq88 ∧ (x = 0 ∨ x ∈ pieceCodes)) ∨ (s ∉ sq88 ∧ x = 0) := by
  by_cases hv : isValid s = true
  · obtain ⟨v, hv', hc⟩ := hI.boardInv.ok.codes s hs hv
    rw [hx] at hv'; cases hv'
    exact .inl ⟨mem_sq88.mpr ⟨hs, hv⟩, hc⟩
  · have := hI.boardInv.offBoard s hs (by simpa using hv)
    rw [hx] at this; cases this
    exact .inr ⟨fun h => hv (mem_sq88.mp h).2, rfl⟩

theorem valid_byte_mem {s : Nat} (h : s < 256) (hv : isValid s = true) : s ∈ sq88 :=
  mem_sq88.mpr ⟨GenGeoO.valid_lt128 h hv, hv⟩

/-! ### moves of officers and the king -/

/-- the `MoveOk` record of a non-pawn move to a cell that is empty or holds an enemy man -/
theorem officer_moveOk {q : Position} {w : Bool} {frm to v t : Nat} (hf : frm ∈ sq88) (hto : to ∈ sq88)
    (hv : q.board[frm]? = some v) (hman : Man w v) (hnp : v ≠ pawnOf w) (ht : q.board[to]? = some t)
    (htgt : t = 0 ∨ Man (!w) t)
    (hnc : v = kingOf w → ¬ (fileOf frm = Gen.E ∧ (fileOf to = Gen.C ∨ fileOf to = Gen.G))) :
    MoveOk q w ⟨frm, to, 0, InvalidSq⟩ v t :=
  ⟨hf, hto, hv, hman, ht, htgt, fun e => absurd e hnp, fun _ => rfl, fun e => absurd e hnp, hnc⟩

/-- one step of `knightCount` / `kingCount` (and of their tactical versions): `test` is the colour-bit
    condition on the target cell -/
theorem step_total {q : Position} {w : Bool} (hI : InvNoEp q) (hw : whiteTurn q = w) {frm v d : Nat}
    (hf : frm ∈ sq88) (hv : q.board[frm]? = some v) (hman : Man w v) (hnp : v ≠ pawnOf w)
    (hnc : v = kingOf w → ¬ (fileOf frm = Gen.E ∧ (fileOf (addb frm d) = Gen.C ∨ fileOf (addb frm d) = Gen.G)))
    (test : Nat → Bool) (htest : ∀ x, (x = 0 ∨ x ∈ pieceCodes) → test x = true → x = 0 ∨ Man (!w) x) :
    ∃ n, (do
      let ok ← andM (isValid (addb frm d)) (do let x ← bget q.board (addb frm d); pure (test x))
      if ok then do
        let l ← isLegal q ⟨frm, addb frm d, 0, InvalidSq⟩
        pure (b2n l)
      else pure 0 : M Nat) = .ok n := by
  cases hval : isValid (addb frm d)
  · exact ⟨0, by simp only [andM_false, ok_bind, Bool.false_eq_true, if_false, pure_eq_ok]⟩
  · have hto := GenGeoO.addb_mem hval
    obtain ⟨x, hx, hc⟩ := cell_of_valid hI.boardInv.ok hto
    cases htx : test x
    · exact ⟨0, by simp only [andM_true, bget_eq, hx, ok_bind, pure_eq_ok, htx, Bool.false_eq_true, if_false]⟩
    · obtain ⟨l, hl⟩ := isLegal_total_of_moveOk hI hw
        (officer_moveOk hf hto hv hman hnp hx (htest x hc htx) hnc)
      exact ⟨b2n l, by simp only [andM_true, bget_eq, hx, ok_bind, pure_eq_ok, htx, if_true, hl]⟩

theorem own_test {w : Bool} {c : Ctx} (hc : c.curBit = colorBit w) :
    ∀ x, (x = 0 ∨ x ∈ pieceCodes) → (x &&& c.curBit == 0) = true → x = 0 ∨ Man (!w) x := by
  intro x hx h
  rw [hc] at h
  exact not_own_cases hx (by simpa using h)

theorem enemy_test {w : Bool} {c : Ctx} (hc : c.enBit = colorBit (!w)) :
    ∀ x, (x = 0 ∨ x ∈ pieceCodes) → (x &&& c.enBit != 0) = true → x = 0 ∨ Man (!w) x := by
  intro x hx h
  rw [hc] at h
  exact .inr (enemy_bit_man hx (by simpa using h))

theorem officer_facts {w : Bool} {v : Nat} (h : v ∈ officersOf w) : Man w v ∧ v ≠ pawnOf w ∧ v ≠ kingOf w :=
  ⟨.inr (.inl h), fun e => pawnOf_not_officer w w (e ▸ h), fun e => kingOf_not_officer w w (e ▸ h)⟩

theorem knightCount_total {q : Position} {w : Bool} {c : Ctx} (E : CEnv q w c) {frm v : Nat} (hf : frm ∈ sq88)
    (hv : q.board[frm]? = some v) (ho : v ∈ officersOf w) : ∃ n, knightCount q c frm = .ok n := by
  obtain ⟨hman, hnp, hnk⟩ := officer_facts ho
  unfold knightCount
  exact sumM'_total fun d _ =>
    step_total E.inv E.turn hf hv hman hnp (fun e => absurd e hnk) _ (own_test E.curBit)

theorem knightCountTactical_total {q : Position} {w : Bool} {c : Ctx} (E : CEnv q w c) {frm v : Nat}
    (hf : frm ∈ sq88) (hv : q.board[frm]? = some v) (ho : v ∈ officersOf w) :
    ∃ n, knightCountTactical q c frm = .ok n := by
  obtain ⟨hman, hnp, hnk⟩ := officer_facts ho
  unfold knightCountTactical
  exact sumM'_total fun d _ =>
    step_total E.inv E.turn hf hv hman hnp (fun e => absurd e hnk) _ (enemy_test E.enBit)

theorem king_facts {q : Position} {w : Bool} {c : Ctx} (E : CEnv q w c) :
    c.cur.king ∈ sq88 ∧ q.board[c.cur.king]? = some (kingOf w) := by
  rw [E.cur]; exact (E.inv.sideInv w).ok.king_cell

theorem kingCount_total {q : Position} {w : Bool} {c : Ctx} (E : CEnv q w c) : ∃ n, kingCount q c = .ok n := by
  obtain ⟨hf, hv⟩ := king_facts E
  unfold kingCount
  exact sumM'_total fun d hd =>
    step_total E.inv E.turn hf hv (.inr (.inr rfl)) (fun e => pawnOf_ne_kingOf w w e.symm)
      (fun _ ⟨hE, hCG⟩ => by
        have := king_step_not_castle c.cur.king hd hE
        rcases hCG with h | h
        · exact this.1 h
        · exact this.2 h) _ (own_test E.curBit)

theorem kingCountTactical_total {q : Position} {w : Bool} {c : Ctx} (E : CEnv q w c) :
    ∃ n, kingCountTactical q c = .ok n := by
  obtain ⟨hf, hv⟩ := king_facts E
  unfold kingCountTactical
  exact sumM'_total fun d hd =>
    step_total E.inv E.turn hf hv (.inr (.inr rfl)) (fun e => pawnOf_ne_kingOf w w e.symm)
      (fun _ ⟨hE, hCG⟩ => by
        have := king_step_not_castle c.cur.king hd hE
        rcases hCG with h | h
        · exact this.1 h
        · exact this.2 h) _ (enemy_test E.enBit)

/-! ### sliders -/

/-- the ray from `sq` in direction `d` leaves the board within `fuel` steps -/
def rayFuel (d : Nat) : Nat → Nat → Bool
  | 0, _ => false
  | n + 1, sq => !isValid sq || rayFuel d n (addb sq d)

set_option maxRecDepth 100000 in
theorem rayFuel_all : (sq88.all fun frm => kingDirs.all fun d => rayFuel d 8 (addb frm d)) = true := by
  decide +kernel

theorem rayFuel_of_mem {frm d : Nat} (hf : frm ∈ sq88) (hd : d ∈ kingDirs) : rayFuel d 8 (addb frm d) = true := by
  have h := rayFuel_all
  simp only [List.all_eq_true] at h
  exact h frm hf d hd

theorem slideDirCount_total {q : Position} {w : Bool} {c : Ctx} (E : CEnv q w c) {frm v d : Nat} (hf : frm ∈ sq88)
    (hv : q.board[frm]? = some v) (ho : v ∈ officersOf w) :
    ∀ (fuel sq : Nat), sq < 256 → rayFuel d fuel sq = true → ∃ n, slideDirCount q c frm d fuel sq = .ok n := by
  obtain ⟨hman, hnp, hnk⟩ := officer_facts ho
  intro fuel
  induction fuel with
  | zero => intro sq _ h; simp [rayFuel] at h
  | succ k ih =>
    intro sq hsq hr
    cases hval : isValid sq
    · exact ⟨0, by simp only [slideDirCount, hval, Bool.not_false, if_true, pure_eq_ok]⟩
    · simp only [rayFuel, hval, Bool.not_true, Bool.false_or] at hr
      have hto := valid_byte_mem hsq hval
      obtain ⟨x, hx, hc⟩ := cell_of_valid E.inv.boardInv.ok hto
      by_cases hown : x &&& c.curBit = 0
      · obtain ⟨l, hl⟩ := isLegal_total_of_moveOk E.inv E.turn
          (officer_moveOk hf hto hv hman hnp hx (own_test E.curBit x hc (by simpa using hown))
            (fun e => absurd e hnk))
        have hown' : (x &&& c.curBit != 0) = false := by simpa using hown
        cases hen : (x &&& c.enBit != 0)
        · obtain ⟨r, hr'⟩ := ih (addb sq d) (GenGeoO.addb_lt sq d) hr
          exact ⟨b2n l + r, by
            simp only [slideDirCount, hval, Bool.not_true, Bool.false_eq_true, if_false, bget_eq, hx, ok_bind, hown',
              hl, hen, hr', pure_eq_ok]⟩
        · exact ⟨b2n l, by
            simp only [slideDirCount, hval, Bool.not_true, Bool.false_eq_true, if_false, bget_eq, hx, ok_bind, hown',
              hl, hen, if_true, pure_eq_ok]⟩
      · have hown' : (x &&& c.curBit != 0) = true := by simpa using hown
        exact ⟨0, by
          simp only [slideDirCount, hval, Bool.not_true, Bool.false_eq_true, if_false, bget_eq, hx, ok_bind, hown',
            if_true, pure_eq_ok]⟩

theorem slideDirCountTactical_total {q : Position} {w : Bool} {c : Ctx} (E : CEnv q w c) {frm v d : Nat}
    (hf : frm ∈ sq88) (hv : q.board[frm]? = some v) (ho : v ∈ officersOf w) :
    ∀ (fuel sq : Nat), sq < 256 → rayFuel d fuel sq = true →
      ∃ n, slideDirCountTactical q c frm d fuel sq = .ok n := by
  obtain ⟨hman, hnp, hnk⟩ := officer_facts ho
  intro fuel
  induction fuel with
  | zero => intro sq _ h; simp [rayFuel] at h
  | succ k ih =>
    intro sq hsq hr
    cases hval : isValid sq
    · exact ⟨0, by simp only [slideDirCountTactical, hval, Bool.not_false, if_true, pure_eq_ok]⟩
    · simp only [rayFuel, hval, Bool.not_true, Bool.false_or] at hr
      have hto := valid_byte_mem hsq hval
      obtain ⟨x, hx, hc⟩ := cell_of_valid E.inv.boardInv.ok hto
      by_cases hown : x &&& c.curBit = 0
      · have hown' : (x &&& c.curBit != 0) = false := by simpa using hown
        cases hen : (x &&& c.enBit != 0)
        · obtain ⟨r, hr'⟩ := ih (addb sq d) (GenGeoO.addb_lt sq d) hr
          exact ⟨r, by
            simp only [slideDirCountTactical, hval, Bool.not_true, Bool.false_eq_true, if_false, bget_eq, hx, ok_bind,
              hown', hen, hr']⟩
        · obtain ⟨l, hl⟩ := isLegal_total_of_moveOk E.inv E.turn
            (officer_moveOk hf hto hv hman hnp hx (enemy_test E.enBit x hc hen) (fun e => absurd e hnk))
          exact ⟨b2n l, by
            simp only [slideDirCountTactical, hval, Bool.not_true, Bool.false_eq_true, if_false, bget_eq, hx, ok_bind,
              hown', hl, hen, if_true, pure_eq_ok]⟩
      · have hown' : (x &&& c.curBit != 0) = true := by simpa using hown
        exact ⟨0, by
          simp only [slideDirCountTactical, hval, Bool.not_true, Bool.false_eq_true, if_false, bget_eq, hx, ok_bind,
            hown', if_true, pure_eq_ok]⟩

theorem not_officer_switch {w : Bool} {pc : Nat} (h : pc ∈ officersOf w)
    (h1 : ¬ (pc == Gen.WKnight || pc == Gen.BKnight) = true) (h2 : ¬ (pc == Gen.WBishop || pc == Gen.BBishop) = true)
    (h3 : ¬ (pc == Gen.WRook || pc == Gen.BRook) = true) (h4 : ¬ (pc == Gen.WQueen || pc == Gen.BQueen) = true) :
    False := by
  rcases GenPure.officer_cases h with h | h | h | h
  · exact h1 h
  · exact h2 h.2
  · exact h3 h.2.2
  · exact h4 h.2.2.2

theorem pieceCount_total {q : Position} {w : Bool} {c : Ctx} (E : CEnv q w c) {frm : Nat}
    (hfm : frm ∈ c.cur.pieces) : ∃ n, pieceCount q c frm = .ok n := by
  rw [E.cur] at hfm
  obtain ⟨hf, v, ho, hv⟩ := (E.inv.sideInv w).ok.piece_cell hfm
  have hs : ∀ dirs : List Nat, (∀ d ∈ dirs, d ∈ kingDirs) →
      ∃ n, sumM' (fun d => slideDirCount q c frm d 8 (addb frm d)) dirs = .ok n := fun dirs hd =>
    sumM'_total fun d hdm =>
      slideDirCount_total E hf hv ho 8 (addb frm d) (GenGeoO.addb_lt frm d) (rayFuel_of_mem hf (hd d hdm))
  simp only [pieceCount, bget_eq, hv, ok_bind]
  split
  · exact knightCount_total E hf hv ho
  · split
    · exact hs _ fun d => GenGeoO.bishopDirs_sub
    · split
      · exact hs _ fun d => GenGeoO.rookDirs_sub
      · split
        · exact hs _ fun d h => h
        · rename_i h1 h2 h3 h4
          exact (not_officer_switch ho h1 h2 h3 h4).elim

theorem pieceCountTactical_total {q : Position} {w : Bool} {c : Ctx} (E : CEnv q w c) {frm : Nat}
    (hfm : frm ∈ c.cur.pieces) : ∃ n, pieceCountTactical q c frm = .ok n := by
  rw [E.cur] at hfm
  obtain ⟨hf, v, ho, hv⟩ := (E.inv.sideInv w).ok.piece_cell hfm
  have hs : ∀ dirs : List Nat, (∀ d ∈ dirs, d ∈ kingDirs) →
      ∃ n, sumM' (fun d => slideDirCountTactical q c frm d 8 (addb frm d)) dirs = .ok n := fun dirs hd =>
    sumM'_total fun d hdm =>
      slideDirCountTactical_total E hf hv ho 8 (addb frm d) (GenGeoO.addb_lt frm d) (rayFuel_of_mem hf (hd d hdm))
  simp only [pieceCountTactical, bget_eq, hv, ok_bind]
  split
  · exact knightCountTactical_total E hf hv ho
  · split
    · exact hs _ fun d => GenGeoO.bishopDirs_sub
    · split
      · exact hs _ fun d => GenGeoO.rookDirs_sub
      · split
        · exact hs _ fun d h => h
        · rename_i h1 h2 h3 h4
          exact (not_officer_switch ho h1 h2 h3 h4).elim

/-! ### castling tests -/

theorem killers_empty_size : Killers.empty.size = Gen.killerMovesMaxPly := by
  simp [Killers.empty]

theorem castleCnt_total {q : Position} (hI : InvNoEp q) :
    (∃ n, castleQCnt q q.ctx = .ok n) ∧ (∃ n, castleKCnt q q.ctx = .ok n) := by
  have env := GenPure.env_of_inv hI killers_empty_size
  have eQ : castleQCnt q q.ctx = castleQCnt { q with ep := InvalidSq } (Position.ctx { q with ep := InvalidSq }) := rfl
  have eK : castleKCnt q q.ctx = castleKCnt { q with ep := InvalidSq } (Position.ctx { q with ep := InvalidSq }) := rfl
  rw [eQ, eK]
  constructor
  · unfold castleQCnt
    cases h : (Position.ctx { q with ep := InvalidSq }).qOk
    · exact ⟨0, by simp only [Bool.false_eq_true, if_false, pure_eq_ok]⟩
    · rw [if_pos rfl]
      exact map_total _ ⟨_, GenPure.castleQOk_eq env (env.castleQ h).1⟩
  · unfold castleKCnt
    cases h : (Position.ctx { q with ep := InvalidSq }).kOk
    · exact ⟨0, by simp only [Bool.false_eq_true, if_false, pure_eq_ok]⟩
    · rw [if_pos rfl]
      exact map_total _ ⟨_, GenPure.castleKOk_eq env (env.castleK h).1⟩

/-! ### pawn geometry (kernel-decided over the 64 squares and both colours) -/

def pawnChk (w : Bool) (frm : Nat) : Bool :=
  let to1 := addb frm (advOf w)
  let toQ := addb to1 0xFF
  let toK := addb to1 1
  let to2 := addb to1 (advOf w)
  rankOf frm == Gen.Rank1 || rankOf frm == Gen.Rank8 ||
  (onBoard to1 && decide (toK < 128) && toK != InvalidSq && toQ != InvalidSq && behind w to1 == frm &&
   (rankOf frm != startRankOf w ||
     (onBoard to2 && rankOf to2 != epRankOf w && rankOf to2 != epRankOf (!w))) &&
   [toQ, toK].all fun to => !onBoard to ||
     ((rankOf to != epRankOf w || (fileOf to + rankOf frm) % 256 == behind w to) &&
      (rankOf to != epRankOf (!w) || rankOf frm == startRankOf w)))

set_option maxRecDepth 100000 in
theorem pawnChk_all : (sq88.all fun frm => bools.all fun w => pawnChk w frm) = true := by decide +kernel

/-- the facts of `pawnChk`, as propositions -/
structure PawnFacts (w : Bool) (frm : Nat) : Prop where
  to1 : addb frm (advOf w) ∈ sq88
  toK_lt : addb (addb frm (advOf w)) 1 < 128
  toK_ne : addb (addb frm (advOf w)) 1 ≠ InvalidSq
  toQ_ne : addb (addb frm (advOf w)) 0xFF ≠ InvalidSq
  from1 : behind w (addb frm (advOf w)) = frm
  to2 : rankOf frm = startRankOf w → addb (addb frm (advOf w)) (advOf w) ∈ sq88 ∧
    rankOf (addb (addb frm (advOf w)) (advOf w)) ≠ epRankOf w ∧
    rankOf (addb (addb frm (advOf w)) (advOf w)) ≠ epRankOf (!w)
  cap : ∀ δ, δ = 0xFF ∨ δ = 1 → addb (addb frm (advOf w)) δ ∈ sq88 →
    (rankOf (addb (addb frm (advOf w)) δ) = epRankOf w →
      (fileOf (addb (addb frm (advOf w)) δ) + rankOf frm) % 256 = behind w (addb (addb frm (advOf w)) δ)) ∧
    (rankOf (addb (addb frm (advOf w)) δ) = epRankOf (!w) → rankOf frm = startRankOf w)

theorem onBoard_mem {s : Nat} : onBoard s = true ↔ s ∈ sq88 := by rw [onBoard_iff, mem_sq88]

theorem pawnFacts (w : Bool) {frm : Nat} (hf : frm ∈ sq88) (h1 : rankOf frm ≠ Gen.Rank1)
    (h8 : rankOf frm ≠ Gen.Rank8) : PawnFacts w frm := by
  have h := pawnChk_all
  simp only [List.all_eq_true] at h
  have h := h frm hf w (mem_bools w)
  simp only [pawnChk, Bool.or_eq_true, beq_iff_eq, Bool.and_eq_true, bne_iff_ne, ne_eq, decide_eq_true_eq,
    List.all_eq_true, List.mem_cons, List.not_mem_nil, or_false, Bool.not_eq_true', ← Bool.not_eq_true,
    onBoard_mem] at h
  rcases h with (h | h) | h
  · exact absurd h h1
  · exact absurd h h8
  · obtain ⟨⟨⟨⟨⟨⟨a1, a2⟩, a3⟩, a4⟩, a5⟩, a6⟩, a7⟩ := h
    refine ⟨a1, a2, a3, a4, a5, fun hs => ?_, fun δ hδ hm => ?_⟩
    · rcases a6 with a6 | a6
      · exact absurd hs a6
      · exact ⟨a6.1.1, a6.1.2, a6.2⟩
    · have := a7 (addb (addb frm (advOf w)) δ) (by rcases hδ with rfl | rfl <;> simp)
      rcases this with this | this
      · exact absurd hm this
      · refine ⟨fun hr => ?_, fun hr => ?_⟩
        · rcases this.1 with t | t
          · exact absurd hr t
          · exact t
        · rcases this.2 with t | t
          · exact absurd hr t
          · exact t

/-- a pawn of the side to move: on the board, not on a back rank -/
theorem pawn_facts {q : Position} {w : Bool} (hI : InvNoEp q) {frm : Nat} (hfm : frm ∈ (q.side w).pawns) :
    frm ∈ sq88 ∧ q.board[frm]? = some (pawnOf w) ∧ PawnFacts w frm := by
  obtain ⟨hf, hv⟩ := (hI.sideInv w).ok.pawn_cell hfm
  have := hI.boardInv.noBackPawn frm (by
    cases w
    · exact .inr hv
    · exact .inl hv)
  exact ⟨hf, hv, pawnFacts w hf this.1 this.2⟩

/-! ### what the pawn counters need to know about the en-passant field -/

/-- `strict = true` is the test of `pawnCount` (`to == ep && rank(from) != startRank`), `strict = false`
    the one of `pawnCountTactical` (`to == ep`) -/
structure EpFacts (q : Position) (w : Bool) (strict : Bool) : Prop where
  cell : ∀ x, q.board[q.ep]? = some x → x = 0
  push1 : ∀ frm ∈ (q.side w).pawns, addb frm (advOf w) ≠ q.ep
  push2 : ∀ frm ∈ (q.side w).pawns, rankOf frm = startRankOf w → addb (addb frm (advOf w)) (advOf w) ≠ q.ep
  cap : ∀ frm ∈ (q.side w).pawns, ∀ δ, (δ = 0xFF ∨ δ = 1) → addb (addb frm (advOf w)) δ = q.ep →
    (strict = true → rankOf frm ≠ startRankOf w) → ∃ r, makeMove q ⟨frm, q.ep, 0, InvalidSq⟩ = .ok r

/-- (i) no en-passant square -/
theorem epFacts_none {q : Position} {w : Bool} (hI : InvNoEp q) (h : q.ep = InvalidSq) (strict : Bool) :
    EpFacts q w strict := by
  have hnv : InvalidSq ∉ sq88 := by decide
  refine ⟨fun x hx => ?_, fun frm hfm e => ?_, fun frm hfm hr e => ?_, fun frm hfm δ hδ e _ => ?_⟩
  · rw [h] at hx
    have hsz := hI.boardInv.ok.size
    rw [Array.getElem?_eq_none (by rw [hsz]; decide)] at hx
    cases hx
  · obtain ⟨_, _, pf⟩ := pawn_facts hI hfm
    exact hnv (h ▸ e ▸ pf.to1)
  · obtain ⟨_, _, pf⟩ := pawn_facts hI hfm
    exact hnv (h ▸ e ▸ (pf.to2 hr).1)
  · obtain ⟨_, _, pf⟩ := pawn_facts hI hfm
    rw [h] at e
    rcases hδ with rfl | rfl
    · exact absurd e pf.toQ_ne
    · exact absurd e pf.toK_ne

theorem epVictim_eq (q : Position) (w : Bool) : epVictim q w = behind w q.ep := rfl

/-- (ii) a consistent en-passant square: capture-shaped candidates are en-passant captures -/
theorem epFacts_ok {q : Position} {w : Bool} (hI : Inv q) (hw : whiteTurn q = w) (h : FenSpec.EpOk q)
    (strict : Bool) : EpFacts q w strict := by
  have hN := invNoEp_of_inv hI
  obtain ⟨e1, e2, e3, _, _, e6⟩ := epOk_facts hw h
  have hep : q.ep ∈ sq88 := mem_sq88.mpr ⟨e1, e2⟩
  have hrank : rankOf q.ep = epRankOf w := by
    obtain ⟨_, _, _, h4⟩ := h
    rw [hw] at h4
    cases w
    · simp only [Bool.false_eq_true, if_false] at h4; exact h4.1
    · simp only [if_true] at h4; exact h4.1
  refine ⟨fun x hx => ?_, fun frm hfm e => ?_, fun frm hfm hr e => ?_, fun frm hfm δ hδ e _ => ?_⟩
  · rw [e3] at hx; cases hx; rfl
  · obtain ⟨_, hv, pf⟩ := pawn_facts hN hfm
    have := pf.from1
    rw [e, ← epVictim_eq] at this
    rw [this, hv] at e6
    exact pawnOf_ne_not w (Option.some.inj e6)
  · obtain ⟨_, _, pf⟩ := pawn_facts hN hfm
    exact (pf.to2 hr).2.1 (e ▸ hrank)
  · obtain ⟨_, _, pf⟩ := pawn_facts hN hfm
    have hc := (pf.cap δ hδ (e ▸ hep)).1 (e ▸ hrank)
    rw [e] at hc
    obtain ⟨p', b, hmm, _⟩ := ep_result (m := ⟨frm, q.ep, 0, InvalidSq⟩) hI hw hfm rfl h hc rfl rfl
    exact ⟨_, hmm⟩

/-- (iii) the "wrong-coloured" en-passant square of `flipTurn p`: never tried by `pawnCount` -/
theorem epFacts_flip {p : Position} {w : Bool} (hI : Inv p) (hw : whiteTurn (flipTurn p) = w)
    (h : FenSpec.EpOk p) : EpFacts (flipTurn p) w true := by
  have hN := invNoEp_flip hI
  have hw' : whiteTurn p = !w := by
    rw [whiteTurn_flip hI.flags] at hw
    rw [← hw, Bool.not_not]
  obtain ⟨e1, e2, e3, h4⟩ := h
  have hep : (flipTurn p).ep ∈ sq88 := mem_sq88.mpr ⟨e1, e2⟩
  have hfacts : rankOf p.ep = epRankOf (!w) ∧ p.board[behind w p.ep]? = some 0 := by
    rw [hw'] at h4
    cases w
    · simp only [Bool.not_false, if_true] at h4; exact ⟨h4.1, h4.2.2⟩
    · simp only [Bool.not_true, Bool.false_eq_true, if_false] at h4; exact ⟨h4.1, h4.2.2⟩
  refine ⟨fun x hx => ?_, fun frm hfm e => ?_, fun frm hfm hr e => ?_, fun frm hfm δ hδ e hs => ?_⟩
  · have e3' : (flipTurn p).board[(flipTurn p).ep]? = some 0 := e3
    rw [e3'] at hx; cases hx; rfl
  · obtain ⟨_, hv, pf⟩ := pawn_facts hN hfm
    have e' : addb frm (advOf w) = p.ep := e
    have := pf.from1
    rw [e'] at this
    have hv' : p.board[frm]? = some (pawnOf w) := hv
    rw [← this, hfacts.2] at hv'
    exact pawnOf_ne_zero w (Option.some.inj hv').symm
  · obtain ⟨_, _, pf⟩ := pawn_facts hN hfm
    have e' : addb (addb frm (advOf w)) (advOf w) = p.ep := e
    exact (pf.to2 hr).2.2 (e' ▸ hfacts.1)
  · obtain ⟨_, _, pf⟩ := pawn_facts hN hfm
    have e' : addb (addb frm (advOf w)) δ = p.ep := e
    have hep' : p.ep ∈ sq88 := hep
    exact absurd ((pf.cap δ hδ (e' ▸ hep')).2 (e' ▸ hfacts.1)) (hs rfl)

/-! ### the pawn counters -/

theorem pawn_moveOk {q : Position} {w : Bool} (hI : InvNoEp q) {frm to t : Nat} (hfm : frm ∈ (q.side w).pawns)
    (hto : to ∈ sq88) (ht : q.board[to]? = some t) (htgt : t = 0 ∨ Man (!w) t) (hne : to ≠ q.ep) (e : Nat) :
    MoveOk q w ⟨frm, to, 0, e⟩ (pawnOf w) t := by
  obtain ⟨hf, hv, _⟩ := pawn_facts hI hfm
  exact ⟨hf, hto, hv, .inl rfl, ht, htgt, fun _ => .inl rfl, fun _ => rfl, fun _ => hne,
    fun e => absurd e (pawnOf_ne_kingOf w w)⟩

/-- a capture-shaped pawn candidate whose condition (`cell & enemy != 0 || (to == ep && g)`) holds -/
theorem pawnCap_legal {q : Position} {w strict : Bool} {c : Ctx} (E : CEnv q w c) (F : EpFacts q w strict)
    {frm δ x : Nat} {g : Bool} (hfm : frm ∈ (q.side w).pawns) (hδ : δ = 0xFF ∨ δ = 1)
    (hg : g = true → strict = true → rankOf frm ≠ startRankOf w)
    (hlt : addb (addb frm (advOf w)) δ < 128) (hx : q.board[addb (addb frm (advOf w)) δ]? = some x)
    (hcond : (x &&& c.enBit != 0 || (addb (addb frm (advOf w)) δ == q.ep && g)) = true) (pr : Nat) :
    ∃ n, countPawnMoves q frm (addb (addb frm (advOf w)) δ) pr = .ok n := by
  apply countPawnMoves_total
  by_cases hen : x &&& c.enBit = 0
  · have : (x &&& c.enBit != 0) = false := by simpa using hen
    simp only [this, Bool.false_or, Bool.and_eq_true, beq_iff_eq] at hcond
    rw [hcond.1]
    exact isLegal_of_makeMove (F.cap frm hfm δ hδ hcond.1 (hg hcond.2))
  · rw [E.enBit] at hen
    rcases cell_cases E.inv hlt hx with ⟨hto, hc⟩ | ⟨_, h0⟩
    · have hman := enemy_bit_man hc hen
      refine isLegal_total_of_moveOk E.inv E.turn (pawn_moveOk E.inv hfm hto hx (.inr hman) (fun e => ?_) _)
      rw [e] at hx
      exact man_ne_zero hman (F.cell x hx)
    · subst h0
      exact absurd (Nat.zero_and _) hen

theorem pawnCntQG_total {q : Position} {w strict : Bool} {c : Ctx} (E : CEnv q w c) (F : EpFacts q w strict)
    {frm : Nat} {g : Bool} (hfm : frm ∈ (q.side w).pawns)
    (hg : g = true → strict = true → rankOf frm ≠ startRankOf w) : ∃ n, pawnCntQG g q c frm = .ok n := by
  unfold pawnCntQG
  dsimp only
  rw [E.adv]
  cases hval : isValid (addb (addb frm (advOf w)) 0xFF)
  · exact ⟨0, by simp only [andM_false, ok_bind, Bool.false_eq_true, if_false, pure_eq_ok]⟩
  · have hto := GenGeoO.addb_mem hval
    have hlt := (mem_sq88.mp hto).1
    obtain ⟨x, hx⟩ := cell_lt E.inv hlt
    simp only [andM_true, bget_eq, hx, ok_bind, pure_eq_ok]
    split
    · rename_i hcond
      exact pawnCap_legal E F hfm (.inl rfl) hg hlt hx hcond _
    · exact ⟨0, rfl⟩

theorem pawnCntKG_total {q : Position} {w strict : Bool} {c : Ctx} (E : CEnv q w c) (F : EpFacts q w strict)
    {frm : Nat} {g : Bool} (hfm : frm ∈ (q.side w).pawns)
    (hg : g = true → strict = true → rankOf frm ≠ startRankOf w) : ∃ n, pawnCntKG g q c frm = .ok n := by
  obtain ⟨_, _, pf⟩ := pawn_facts E.inv hfm
  unfold pawnCntKG
  rw [E.adv]
  obtain ⟨x, hx⟩ := cell_lt E.inv pf.toK_lt
  simp only [bget_eq, hx, ok_bind, pure_eq_ok]
  split
  · rename_i hcond
    exact pawnCap_legal E F hfm (.inr rfl) hg pf.toK_lt hx hcond _
  · exact ⟨0, rfl⟩

theorem push_legal {q : Position} {w : Bool} {c : Ctx} (E : CEnv q w c) {frm to : Nat}
    (hfm : frm ∈ (q.side w).pawns) (hto : to ∈ sq88) (h0 : q.board[to]? = some 0) (hne : to ≠ q.ep) (e : Nat) :
    ∃ b, isLegal q ⟨frm, to, 0, e⟩ = .ok b :=
  isLegal_total_of_moveOk E.inv E.turn (pawn_moveOk E.inv hfm hto h0 (.inl rfl) hne e)

theorem pawnCntPush_total {q : Position} {w strict : Bool} {c : Ctx} (E : CEnv q w c) (F : EpFacts q w strict)
    {frm : Nat} (hfm : frm ∈ (q.side w).pawns) : ∃ n, pawnCntPush q c frm = .ok n := by
  obtain ⟨_, _, pf⟩ := pawn_facts E.inv hfm
  unfold pawnCntPush
  rw [E.adv, E.startRank]
  obtain ⟨y, hy, _⟩ := cell_of_valid E.inv.boardInv.ok pf.to1
  simp only [bget_eq, hy, ok_bind]
  by_cases hy0 : y = 0
  · subst hy0
    obtain ⟨n1, hn1⟩ := countPawnMoves_total (pr := c.promoRank)
      (push_legal E hfm pf.to1 hy (F.push1 frm hfm) InvalidSq)
    simp only [beq_self_eq_true, if_true, hn1, ok_bind]
    by_cases hr : rankOf frm = startRankOf w
    · obtain ⟨h2, _, _⟩ := pf.to2 hr
      obtain ⟨z, hz, _⟩ := cell_of_valid E.inv.boardInv.ok h2
      simp only [hr, beq_self_eq_true, andM_true, hz, ok_bind, pure_eq_ok]
      by_cases hz0 : z = 0
      · subst hz0
        obtain ⟨b, hb⟩ := push_legal E hfm h2 hz (F.push2 frm hfm hr) (addb frm (advOf w))
        exact ⟨n1 + b2n b, by simp only [beq_self_eq_true, if_true, hb, ok_bind]⟩
      · have : (z == 0) = false := by simpa using hz0
        exact ⟨n1, by simp only [this, Bool.false_eq_true, if_false]⟩
    · have : (rankOf frm == startRankOf w) = false := by simpa using hr
      exact ⟨n1, by simp only [this, andM_false, ok_bind, Bool.false_eq_true, if_false, pure_eq_ok]⟩
  · have : (y == 0) = false := by simpa using hy0
    exact ⟨0, by simp only [this, Bool.false_eq_true, if_false, pure_eq_ok]⟩

theorem pawnTCntPush_total {q : Position} {w strict : Bool} {c : Ctx} (E : CEnv q w c) (F : EpFacts q w strict)
    {frm : Nat} (hfm : frm ∈ (q.side w).pawns) : ∃ n, pawnTCntPush q c frm = .ok n := by
  obtain ⟨_, _, pf⟩ := pawn_facts E.inv hfm
  unfold pawnTCntPush
  rw [E.adv]
  obtain ⟨y, hy, _⟩ := cell_of_valid E.inv.boardInv.ok pf.to1
  simp only [bget_eq, hy, ok_bind]
  split
  · rename_i hcond
    simp only [Bool.and_eq_true, beq_iff_eq] at hcond
    obtain ⟨hy0, _⟩ := hcond
    subst hy0
    exact countPawnMoves_total (push_legal E hfm pf.to1 hy (F.push1 frm hfm) InvalidSq)
  · exact ⟨0, rfl⟩

theorem bind3_total {a b d : M Nat} (ha : ∃ n, a = .ok n) (hb : ∃ n, b = .ok n) (hd : ∃ n, d = .ok n) :
    ∃ n, (do let x ← a; let y ← b; let z ← d; pure (x + y + z) : M Nat) = .ok n := by
  obtain ⟨x, rfl⟩ := ha
  obtain ⟨y, rfl⟩ := hb
  obtain ⟨z, rfl⟩ := hd
  exact ⟨x + y + z, rfl⟩

theorem pawnCount_total {q : Position} {w : Bool} {c : Ctx} (E : CEnv q w c) (F : EpFacts q w true) {frm : Nat}
    (hfm : frm ∈ c.cur.pawns) : ∃ n, pawnCount q c frm = .ok n := by
  rw [E.cur] at hfm
  have hg : (rankOf frm != c.startRank) = true → true = true → rankOf frm ≠ startRankOf w := fun h _ => by
    rw [E.startRank] at h
    simpa using h
  rw [pawnCount_eq]
  exact bind3_total (pawnCntQG_total E F hfm hg) (pawnCntKG_total E F hfm hg) (pawnCntPush_total E F hfm)

theorem pawnCountTactical_total {q : Position} {w : Bool} {c : Ctx} (E : CEnv q w c) (F : EpFacts q w false)
    {frm : Nat} (hfm : frm ∈ c.cur.pawns) : ∃ n, pawnCountTactical q c frm = .ok n := by
  rw [E.cur] at hfm
  have hg : true = true → false = true → rankOf frm ≠ startRankOf w := fun _ h => by cases h
  rw [pawnCountTactical_eq]
  exact bind3_total (pawnCntQG_total E F hfm hg) (pawnCntKG_total E F hfm hg) (pawnTCntPush_total E F hfm)

/-! ### the counters -/

/-- `countMoves` is total on a position that is well-formed up to its en-passant field, given the
    en-passant facts for the test of `pawnCount` -/
theorem countMoves_total_core {q : Position} (hI : InvNoEp q) (F : EpFacts q (whiteTurn q) true) :
    ∃ n, countMoves q = .ok n := by
  have E := cenv_ctx hI
  obtain ⟨a, ha⟩ := sumM'_total (l := q.ctx.cur.pawns) fun frm hf => pawnCount_total E F hf
  obtain ⟨b, hb⟩ := sumM'_total (l := q.ctx.cur.pieces) fun frm hf => pieceCount_total E hf
  obtain ⟨k, hk⟩ := kingCount_total E
  obtain ⟨⟨cq, hq⟩, ⟨ck, hck⟩⟩ := castleCnt_total hI
  exact ⟨a + b + k + cq + ck, by simp only [countMoves_eq, ha, hb, hk, hq, hck, ok_bind, pure_eq_ok]⟩

/-- `countTacticalMoves` likewise, given the en-passant facts for the test of `pawnCountTactical` -/
theorem countTacticalMoves_total_core {q : Position} (hI : InvNoEp q) (F : EpFacts q (whiteTurn q) false) :
    ∃ n, countTacticalMoves q = .ok n := by
  have E := cenv_ctx hI
  obtain ⟨a, ha⟩ := sumM'_total (l := q.ctx.cur.pawns) fun frm hf => pawnCountTactical_total E F hf
  obtain ⟨b, hb⟩ := sumM'_total (l := q.ctx.cur.pieces) fun frm hf => pieceCountTactical_total E hf
  obtain ⟨k, hk⟩ := kingCountTactical_total E
  exact ⟨a + b + k, by simp only [countTacticalMoves, ha, hb, hk, ok_bind, pure_eq_ok]⟩

theorem epFacts_of_inv {q : Position} (hI : Inv q) (strict : Bool) : EpFacts q (whiteTurn q) strict := by
  rcases hI.ep with h | h
  · exact epFacts_none (invNoEp_of_inv hI) h strict
  · exact epFacts_ok hI rfl h strict

/-- `countMoves` never panics on a well-formed position -/
theorem countMoves_total {p : Position} (hI : Inv p) : ∃ n, countMoves p = .ok n :=
  countMoves_total_core (invNoEp_of_inv hI) (epFacts_of_inv hI true)

/-- `countMoves (flipTurn p)` (the opponent's mobility in `lazyEvaluate`) never panics on a well-formed
    position: the side not to move of `flipTurn p` may be in check (its king may be "captured"), and the
    en-passant square of `flipTurn p` has the wrong colour -/
theorem countMoves_flip_total {p : Position} (hI : Inv p) : ∃ n, countMoves (flipTurn p) = .ok n := by
  refine countMoves_total_core (invNoEp_flip hI) ?_
  rcases hI.ep with h | h
  · exact epFacts_none (invNoEp_flip hI) h true
  · exact epFacts_flip hI rfl h

/-- `countTacticalMoves` never panics on a well-formed position -/
theorem countTacticalMoves_total {p : Position} (hI : Inv p) : ∃ n, countTacticalMoves p = .ok n :=
  countTacticalMoves_total_core (invNoEp_of_inv hI) (epFacts_of_inv hI false)

/-! ### non-vacuity -/

example : ∃ n, countMoves startPosition = .ok n := countMoves_total inv_startPosition
example : ∃ n, countMoves (flipTurn startPosition) = .ok n := countMoves_flip_total inv_startPosition
example : ∃ n, countTacticalMoves startPosition = .ok n := countTacticalMoves_total inv_startPosition

/-- the position after 1.e4: Black to move, en-passant square e3 (a literal; every fact about it is
    kernel-checked) -/
def epWitness : Position :=
  { startPosition with
    board := (startPosition.board.setIfInBounds Gen.E2 0).setIfInBounds Gen.E4 Gen.WPawn
    whitePawns := replaceFirst startPosition.whitePawns Gen.E2 Gen.E4
    flags := startPosition.flags ^^^ FWhiteTurn
    ep := Gen.E3 }

theorem inv_epWitness : Inv epWitness := inv_of_invB (by decide +kernel)

/-- the en-passant cases (ii) and (iii) are inhabited: `epWitness` has a consistent en-passant square,
    which in `flipTurn epWitness` (White to move again) has the wrong colour -/
example : epWitness.ep ≠ InvalidSq ∧ FenSpec.EpOk epWitness ∧ ¬ FenSpec.EpOk (flipTurn epWitness) := by
  unfold FenSpec.EpOk; decide +kernel

example : ∃ n, countMoves epWitness = .ok n := countMoves_total inv_epWitness
example : ∃ n, countMoves (flipTurn epWitness) = .ok n := countMoves_flip_total inv_epWitness
example : ∃ n, countTacticalMoves epWitness = .ok n := countTacticalMoves_total inv_epWitness

/-- White Ke1 Qe7, Black Ke8, BLACK to move and in check: well-formed; in `flipTurn kingCapWitness` the
    counted move Qe7xe8 captures the king -/
def kingCapWitness : Position :=
  { board := (((Array.replicate 128 0).setIfInBounds Gen.E1 Gen.WKing).setIfInBounds Gen.E7 Gen.WQueen).setIfInBounds
      Gen.E8 Gen.BKing,
    blackPieces := [], whitePieces := [Gen.E7], blackPawns := [], whitePawns := [],
    blackKing := Gen.E8, whiteKing := Gen.E1, flags := 0, ep := InvalidSq, ply := 1 }

theorem inv_kingCapWitness : Inv kingCapWitness := inv_of_invB (by decide +kernel)

/-- `MoveOk` allows the capture of the enemy king -/
example : MoveOk (flipTurn kingCapWitness) true ⟨Gen.E7, Gen.E8, 0, InvalidSq⟩ Gen.WQueen Gen.BKing :=
  ⟨by decide, by decide, by decide +kernel, by decide, by decide +kernel, .inr (by decide),
    fun h => absurd h (by decide), fun _ => rfl, fun h => absurd h (by decide), fun h => absurd h (by decide)⟩

example : ∃ n, countMoves (flipTurn kingCapWitness) = .ok n := countMoves_flip_total inv_kingCapWitness

end Magog.Total
