import Magog.Lemmas.MateValue
import Magog.Lemmas.AlphaBetaWitness
import Magog.Lemmas.KillerIndep

/-! Concrete witnesses for the non-vacuity examples of C05 (kernel-evaluated runs of the model). -/

namespace Magog.Lemmas.MateValue
open Magog Magog.Model Magog.Spec.Minimax Magog.Spec.MateM Magog.Lemmas.AlphaBeta Magog.Lemmas.EvalBound

theorem killerIndep' : KillerIndep :=
  fun kt kt' p ms ms' h h' => Magog.Lemmas.KillerIndep.killerIndep kt kt' p ms ms' h h'

/-! #### the start position: well-formed, evaluated to 0 -/

set_option maxRecDepth 100000 in
theorem start_eval : evaluate demoBlend startPosition 0 = .ok 0 := okIs_eq (by decide +kernel)

theorem demoBlend_bounded : BlendBounded demoBlend pstMaxAbs := blendBounded_mid pstMaxAbs

/-! #### the mated root (fool's mate) as a one-point closed set satisfying all hypotheses of the mate theorems -/

theorem fm_gen : generateMoves Killers.empty foolsMate = .ok [] := by
  obtain ⟨ms, hms, hnil⟩ := map_ok (okIs_eq fm_moves)
  rw [hms, List.map_eq_nil_iff.mp hnil]

theorem fm_tact : generateTacticalMoves foolsMate = .ok [] := by
  obtain ⟨ms, hms, hnil⟩ := map_ok (okIs_eq fm_tactical)
  rw [hms, List.map_eq_nil_iff.mp hnil]

set_option maxRecDepth 100000 in
theorem fm_count : countMoves foolsMate = .ok 0 := okIs_eq (by decide +kernel)

theorem fm_evalBoundOn : EvalBoundOn demoBlend FM := by
  intro p hp d x hx
  unfold FM at hp; subst hp
  refine .inl ⟨fm_mate, ?_⟩
  unfold evaluate lazyEvaluate at hx
  simp only [fm_mate, bind_ok, Except.ok.injEq, exists_eq_left', if_true, pure_ok] at hx
  exact hx.symm

theorem fm_genLink : GenLink FM where
  gen := fun p hp => by unfold FM at hp; subst hp; exact ⟨[], fm_gen⟩
  count := fun p ms n hp hms hn => by
    unfold FM at hp; subst hp
    rw [fm_gen] at hms; rw [fm_count] at hn
    cases hms; cases hn; rfl
  tact := fun p ms ts hp hms hts => by
    unfold FM at hp; subst hp
    rw [fm_gen] at hms; rw [fm_tact] at hts
    cases hms; cases hts; rfl

theorem fm_chk : ∀ p, FM p → ∃ c, isCurrentKingUnderCheck p = .ok c := by
  intro p hp; unfold FM at hp; subst hp; exact ⟨true, fm_check⟩

theorem fm_V : V demoBlend 3 2 foolsMate 0 = .ok Gen.LostScore := fm_rootV

theorem fm_loses0 : losesInM 0 foolsMate = .ok true := by
  rw [losesInM, matedM_of_moves fm_gen]
  exact fm_check

/-! #### a mate in one: Kb6, Pc7 against Ka8, white to move (c8=Q# or c8=R#) -/

def m1Pos : Position := ofFen "k7/2P5/1K6/8/8/8/8/8 w - - 0 1"

set_option maxRecDepth 100000 in
theorem m1_inv : Inv m1Pos := inv_of_invB (by decide +kernel)
set_option maxRecDepth 100000 in
theorem m1_wins1 : winsInM 1 m1Pos = .ok true := okIs_eq (by decide +kernel)
theorem m1_wins0 : winsInM 0 m1Pos = .ok false := by rw [winsInM]; rfl
-- one full-width ply, then quiescence: the value is "mates in 1" at depth 0
set_option maxRecDepth 100000 in
theorem m1_V : V demoBlend 2 1 m1Pos 0 = .ok 99999 := okIs_eq (by decide +kernel)

end Magog.Lemmas.MateValue
