import Magog.Lemmas.CountPromo

/-! C06: `KingStepSafe` discharged from structural conditions on the two kings (`KingsOk`):
    a king step onto a square that is attacked in the current position is never legal, because
    every attack on the target persists after the move (monotonicity of `isUnderCheck`). -/

namespace Magog.Count
open Magog Magog.Model

/-- The mover's king stands on its recorded square, that square is not in the enemy piece list, and
    the enemy king is neither on it nor adjacent to it. (Adjacent kings are the one situation in which
    the engine's pre-test and `isLegal` really disagree: after K×k the cell on the "enemy king square"
    has the mover's colour and `isUnderCheck` picks the wrong pawn-attack table.) -/
def KingsOk (p : Position) : Prop :=
  p.board[p.ctx.cur.king]? = some (King ||| p.ctx.curBit) ∧
  p.ctx.cur.king ∉ p.ctx.en.pieces ∧
  p.ctx.cur.king ≠ p.ctx.en.king ∧
  ∀ d ∈ kingDirs, addb p.ctx.cur.king d ≠ p.ctx.en.king

instance (p : Position) : Decidable (KingsOk p) := by unfold KingsOk; infer_instance

/-! ### `anyM'` and `isUnderCheck` verdicts -/

theorem anyM'_false {α} {f : α → M Bool} {l : List α} (h : anyM' f l = .ok false) :
    ∀ x ∈ l, f x = .ok false := by
  induction l with
  | nil => intro x hx; cases hx
  | cons y ys ih =>
    simp only [anyM', bind_ok] at h
    obtain ⟨b, hb, h⟩ := h
    cases b
    · simp only [Bool.false_eq_true, if_false] at h
      intro x hx
      rcases List.mem_cons.mp hx with rfl | hx
      · exact hb
      · exact ih h x hx
    · simp [pure_eq_ok] at h

theorem anyM'_true {α} {f : α → M Bool} {l : List α} (h : anyM' f l = .ok true) :
    ∃ x ∈ l, f x = .ok true := by
  induction l with
  | nil => simp [anyM', pure_eq_ok] at h
  | cons y ys ih =>
    simp only [anyM', bind_ok] at h
    obtain ⟨b, hb, h⟩ := h
    cases b
    · simp only [Bool.false_eq_true, if_false] at h
      obtain ⟨x, hx, hfx⟩ := ih h
      exact ⟨x, List.mem_cons_of_mem _ hx, hfx⟩
    · exact ⟨y, List.mem_cons_self, hb⟩

def pawnFlagOf (kpc : Nat) : Nat := if kpc &&& BlackBit == 0 then Gen.WPawnAttacks else Gen.BPawnAttacks

theorem isUnderCheck_false {B : Array Nat} {en : Side} {dest : Nat} (h : isUnderCheck B en dest = .ok false) :
    ∃ kpc, bget B en.king = .ok kpc ∧
      (∀ x ∈ en.pawns, pawnAttacks (pawnFlagOf kpc) dest x = .ok false) ∧
      (∀ a ∈ en.pieces, pieceAttacks B dest a = .ok false) ∧
      ∃ t, tget attackTable "attackTable" (moveIndex en.king dest) = .ok t ∧ t &&& Gen.KingAttacks = 0 := by
  simp only [isUnderCheck, bind_ok] at h
  obtain ⟨kpc, hk, bp, hbp, h⟩ := h
  cases bp
  · simp only [Bool.false_eq_true, if_false, bind_ok] at h
    obtain ⟨bq, hbq, h⟩ := h
    cases bq
    · simp only [Bool.false_eq_true, if_false, bind_ok, pure_eq_ok, Except.ok.injEq] at h
      obtain ⟨t, ht, h⟩ := h
      exact ⟨kpc, hk, anyM'_false hbp, anyM'_false hbq, t, ht, by simpa using h⟩
    · simp [pure_eq_ok] at h
  · simp [pure_eq_ok] at h

theorem isUnderCheck_true {B : Array Nat} {en : Side} {dest : Nat} (h : isUnderCheck B en dest = .ok true) :
    ∃ kpc, bget B en.king = .ok kpc ∧
      ((∃ x ∈ en.pawns, pawnAttacks (pawnFlagOf kpc) dest x = .ok true) ∨
       (∃ a ∈ en.pieces, pieceAttacks B dest a = .ok true) ∨
       ∃ t, tget attackTable "attackTable" (moveIndex en.king dest) = .ok t ∧ t &&& Gen.KingAttacks ≠ 0) := by
  simp only [isUnderCheck, bind_ok] at h
  obtain ⟨kpc, hk, bp, hbp, h⟩ := h
  refine ⟨kpc, hk, ?_⟩
  cases bp
  · simp only [Bool.false_eq_true, if_false, bind_ok] at h
    obtain ⟨bq, hbq, h⟩ := h
    cases bq
    · simp only [Bool.false_eq_true, if_false, bind_ok, pure_eq_ok, Except.ok.injEq] at h
      obtain ⟨t, ht, h⟩ := h
      exact .inr (.inr ⟨t, ht, by simpa using h⟩)
    · exact .inr (.inl (anyM'_true hbq))
  · exact .inl (anyM'_true hbp)

/-! ### a square does not attack itself -/

theorem moveIndex_self (a : Nat) : moveIndex a a = (Gen.lastValidSquare : Int) := by
  unfold moveIndex; omega

theorem attackTable_self : tget attackTable "attackTable" (Gen.lastValidSquare : Int) = .ok 0 := by
  apply okVal_eq_some
  decide +kernel

theorem pawnAttacks_self (flag a : Nat) : pawnAttacks flag a a = .ok false := by
  simp only [pawnAttacks, moveIndex_self, attackTable_self, ok_bind, pure_eq_ok, Nat.zero_and]
  rfl

theorem pieceAttacks_self_ne_true (B : Array Nat) (a : Nat) : pieceAttacks B a a ≠ .ok true := by
  intro h
  simp only [pieceAttacks, moveIndex_self, attackTable_self, bind_ok, ok_bind, Nat.zero_and,
    beq_self_eq_true, if_true, pure_eq_ok] at h
  obtain ⟨_, _, h⟩ := h
  cases h

/-! ### the capture bookkeeping keeps every other attacker -/

theorem kill_mem {l l' : List Nat} {sq x : Nat} {what : String} (hx : x ∈ l) (hne : x ≠ sq)
    (h : kill l sq what = .ok l') : x ∈ l' := by
  unfold kill at h
  split at h
  · rename_i i hi
    simp only [pure_eq_ok, Except.ok.injEq] at h
    subst h
    obtain ⟨hil, hli, _⟩ := List.idxOf?_eq_some_iff.mp hi
    obtain ⟨j, hj, hjx⟩ := List.mem_iff_getElem.mp hx
    have hji : j ≠ i := by
      intro hh; subst hh; rw [hli] at hjx; exact hne hjx.symm
    have hlast : l.getLastD 0 = l[l.length - 1]'(by omega) := by
      rw [List.getLastD_eq_getLast?, List.getLast?_eq_getElem?, List.getElem?_eq_getElem (by omega)]
      rfl
    by_cases hjl : j < l.length - 1
    · refine List.mem_iff_getElem.mpr ⟨j, by simpa using hjl, ?_⟩
      rw [List.getElem_dropLast, List.getElem_set]
      rw [if_neg (fun hh => hji hh.symm)]
      exact hjx
    · have hj' : j = l.length - 1 := by omega
      have hil' : i < l.length - 1 := by omega
      refine List.mem_iff_getElem.mpr ⟨i, by simpa using hil', ?_⟩
      rw [List.getElem_dropLast, List.getElem_set]
      rw [if_pos rfl, hlast]
      subst hj'
      exact hjx
  · simp [throw_eq_error] at h

theorem mmCapture_mem {board : Array Nat} {en en' : Side} {m : Move} {ec : Nat}
    (h : mmCapture board en m ec = .ok en') :
    en'.king = en.king ∧ (∀ x ∈ en.pawns, x ≠ m.to → x ∈ en'.pawns) ∧
      (∀ x ∈ en.pieces, x ≠ m.to → x ∈ en'.pieces) := by
  unfold mmCapture at h
  simp only [bind_ok] at h
  obtain ⟨tg, _, h⟩ := h
  split at h
  · split at h
    · split at h
      · simp only [bind_ok, pure_eq_ok, Except.ok.injEq] at h
        obtain ⟨pw, hk, rfl⟩ := h
        exact ⟨rfl, fun x hx hne => kill_mem hx hne hk, fun x hx _ => hx⟩
      · simp only [bind_ok, pure_eq_ok, Except.ok.injEq] at h
        obtain ⟨pc, hk, rfl⟩ := h
        exact ⟨rfl, fun x hx _ => hx, fun x hx hne => kill_mem hx hne hk⟩
    · simp only [pure_eq_ok, Except.ok.injEq] at h
      subst h; exact ⟨rfl, fun x hx _ => hx, fun x hx _ => hx⟩
  · simp only [pure_eq_ok, Except.ok.injEq] at h
    subst h; exact ⟨rfl, fun x hx _ => hx, fun x hx _ => hx⟩

/-! ### the stages of MakeMove for a king step -/

theorem fileOf_mod (x : Nat) : fileOf x = fileOf (x % 256) := by
  unfold fileOf
  have h1 : x &&& 0x0F = (x &&& 0x0F) % 2^8 := by
    rw [Nat.mod_eq_of_lt]
    exact Nat.lt_of_le_of_lt Nat.and_le_right (by decide)
  rw [h1, Nat.and_mod_two_pow]

set_option maxRecDepth 100000 in
theorem king_step_not_castle_fin : ∀ k < 256, ∀ d ∈ kingDirs, fileOf k = Gen.E →
    fileOf (addb k d) ≠ Gen.C ∧ fileOf (addb k d) ≠ Gen.G := by decide +kernel

/-- a one-square king step from the e-file never lands on the c- or g-file (so MakeMove's castling
    rook shuffle is not triggered by it) -/
theorem king_step_not_castle (k : Nat) {d : Nat} (hd : d ∈ kingDirs) (hk : fileOf k = Gen.E) :
    fileOf (addb k d) ≠ Gen.C ∧ fileOf (addb k d) ≠ Gen.G := by
  have hadd : addb k d = addb (k % 256) d := by unfold addb; omega
  rw [fileOf_mod] at hk
  rw [hadd]
  exact king_step_not_castle_fin (k % 256) (Nat.mod_lt _ (by decide)) d hd hk

theorem mmMover_king {board : Array Nat} {flags : Nat} {cur : Side} {to cc cr ck cq fp : Nat}
    {b' : Array Nat} {f' : Nat} {cur' : Side}
    (hfp : board[cur.king]? = some fp) (hne : fp ≠ Pawn ||| cc)
    (hnc : fileOf cur.king = Gen.E → fileOf to ≠ Gen.C ∧ fileOf to ≠ Gen.G)
    (h : mmMover board flags cur ⟨cur.king, to, 0, InvalidSq⟩ cc cr ck cq = .ok (b', f', cur')) :
    b' = board ∧ cur'.king = to := by
  unfold mmMover at h
  rw [bget_eq] at h
  simp only [hfp, ok_bind] at h
  have h1 : (fp == Pawn ||| cc) = false := by simpa using hne
  simp only [h1, Bool.false_eq_true, if_false, beq_self_eq_true, if_true] at h
  split at h
  · rename_i hE
    have hE' : fileOf cur.king = Gen.E := by simpa using hE
    obtain ⟨hC, hG⟩ := hnc hE'
    have hC' : (fileOf to == Gen.C) = false := by simpa using hC
    have hG' : (fileOf to == Gen.G) = false := by simpa using hG
    simp only [hC', hG', Bool.false_eq_true, if_false, pure_eq_ok, Except.ok.injEq, Prod.mk.injEq] at h
    obtain ⟨rfl, _, rfl⟩ := h
    exact ⟨rfl, rfl⟩
  · simp only [pure_eq_ok, Except.ok.injEq, Prod.mk.injEq] at h
    obtain ⟨rfl, _, rfl⟩ := h
    exact ⟨rfl, rfl⟩

theorem mmBoard_plain {board : Array Nat} {en en' : Side} {f t e ep cc fp : Nat} {B : Array Nat}
    (hfp : board[f]? = some fp) (hne : fp ≠ Pawn ||| cc)
    (h : mmBoard board en ⟨f, t, 0, e⟩ ep cc = .ok (B, en')) :
    en' = en ∧ B = (board.setIfInBounds t fp).setIfInBounds f 0 := by
  unfold mmBoard at h
  have h1 : (fp == Pawn ||| cc) = false := by simpa using hne
  simp only [beq_self_eq_true, if_true, bget_eq, hfp, ok_bind, bind_ok, h1, Bool.and_false,
    Bool.false_eq_true, if_false, pure_eq_ok, Except.ok.injEq, Prod.mk.injEq, bset_ok_iff] at h
  obtain ⟨b1, ⟨_, rfl⟩, b2, ⟨_, rfl⟩, rfl, rfl⟩ := h
  exact ⟨rfl, rfl⟩

/-! ### monotonicity of the attack test in emptiness -/

theorem sliderWalk_mono {B B' : Array Nat} (dir dest : Nat)
    (hemp : ∀ i : Nat, i ≠ dest → B[i]? = some 0 → B'[i]? = some 0) :
    ∀ fuel sq, sliderWalk B dir dest fuel sq = .ok true → sliderWalk B' dir dest fuel sq = .ok true := by
  intro fuel
  induction fuel with
  | zero => intro sq h; simp [sliderWalk, throw_eq_error] at h
  | succ fuel ih =>
    intro sq h
    unfold sliderWalk at h ⊢
    split
    · rfl
    · rename_i hsq
      rw [if_neg hsq] at h
      rw [bget_eq] at h ⊢
      cases hb : B[sq]? with
      | none => simp [hb] at h
      | some c =>
        simp only [hb, ok_bind] at h
        by_cases hc : c = 0
        · subst hc
          have := hemp sq (by simpa using hsq) hb
          simp only [this, ok_bind, bne_self_eq_false, Bool.false_eq_true, if_false] at h ⊢
          exact ih _ h
        · have : (c != 0) = true := by simpa using hc
          simp [this, pure_eq_ok] at h

theorem pieceAttacks_mono {B B' : Array Nat} (dest a : Nat)
    (hemp : ∀ i : Nat, i ≠ dest → B[i]? = some 0 → B'[i]? = some 0) (ha : B[a]? = B'[a]?)
    (h : pieceAttacks B dest a = .ok true) : pieceAttacks B' dest a = .ok true := by
  unfold pieceAttacks at h ⊢
  rw [bget_eq] at h ⊢
  rw [← ha]
  cases hb : B[a]? with
  | none => simp [hb] at h
  | some pc =>
    simp only [hb, ok_bind, bind_ok] at h ⊢
    obtain ⟨t, ht, h⟩ := h
    refine ⟨t, ht, ?_⟩
    split
    · rename_i h0; rw [if_pos h0] at h; exact h
    · rename_i h0; rw [if_neg h0] at h
      split
      · rfl
      · rename_i h1; rw [if_neg h1] at h
        simp only [bind_ok] at h ⊢
        obtain ⟨dir, hdir, h⟩ := h
        exact ⟨dir, hdir, sliderWalk_mono dir dest hemp _ _ h⟩

/-! ### the result -/

/-- **A king step onto a square attacked in the current position is not legal** (so the generators'
    pre-test never removes a move the counters count), under `KingsOk`. -/
theorem kingStepSafe_of_kingsOk {p : Position} (h : KingsOk p) : KingStepSafe p := by
  obtain ⟨hkc, hnp, hnk, hadj⟩ := h
  intro d hd hpre hleg
  simp only [isLegal, bind_ok, pure_eq_ok, Except.ok.injEq] at hleg
  obtain ⟨⟨q, b⟩, hmm, hb1⟩ := hleg
  simp only at hb1
  subst hb1
  obtain ⟨bd, fl, cur, en, B, en', chk, hm, hc, hb, hu, hbb⟩ := makeMove_ok hmm
  have hne : King ||| p.ctx.curBit ≠ Pawn ||| p.ctx.curBit := by rw [ctx_curBit]; split <;> decide
  obtain ⟨rfl, hking⟩ := mmMover_king hkc hne (fun hE => king_step_not_castle _ hd hE) hm
  obtain ⟨hek, hpw, hpc⟩ := mmCapture_mem hc
  obtain ⟨rfl, rfl⟩ := mmBoard_plain hkc hne hb
  have hchk : chk = false := by
    cases chk
    · rfl
    · exact absurd hbb (by decide)
  subst hchk
  rw [hking] at hu
  obtain ⟨kpc', hk', hp', hq', t', ht', hz'⟩ := isUnderCheck_false hu
  obtain ⟨kpc, hk, hcases⟩ := isUnderCheck_true hpre
  have hto : addb p.ctx.cur.king d ≠ p.ctx.en.king := hadj d hd
  -- board cells away from the two touched squares are unchanged
  have hB : ∀ i : Nat, i ≠ p.ctx.cur.king → i ≠ addb p.ctx.cur.king d →
      ((p.board.setIfInBounds (addb p.ctx.cur.king d) (King ||| p.ctx.curBit)).setIfInBounds
        p.ctx.cur.king 0)[i]? = p.board[i]? := by
    intro i h1 h2
    simp only [Array.getElem?_setIfInBounds, Array.size_setIfInBounds]
    rw [if_neg (fun hh => h1 hh.symm), if_neg (fun hh => h2 hh.symm)]
  have hkk : kpc' = kpc := by
    rw [bget_ok_iff] at hk hk'
    rw [hek, hB _ (fun hh => hnk hh.symm) (fun hh => hto hh.symm), hk] at hk'
    cases hk'; rfl
  subst hkk
  rcases hcases with ⟨x, hx, hax⟩ | ⟨a, ha, haa⟩ | ⟨t, ht, hz⟩
  · have hne' : x ≠ addb p.ctx.cur.king d := by
      intro hh; subst hh; rw [pawnAttacks_self] at hax; cases hax
    have := hp' x (hpw x hx hne')
    rw [hax] at this; cases this
  · have hne' : a ≠ addb p.ctx.cur.king d := by
      intro hh; subst hh; exact pieceAttacks_self_ne_true _ _ haa
    have hak : a ≠ p.ctx.cur.king := fun hh => hnp (hh ▸ ha)
    have hfalse := hq' a (hpc a ha hne')
    have htrue := pieceAttacks_mono (B := p.board) (addb p.ctx.cur.king d) a ?_ (hB a hak hne').symm haa
    · rw [htrue] at hfalse; cases hfalse
    · intro i hi h0
      by_cases hik : i = p.ctx.cur.king
      · subst hik
        have hlt : p.ctx.cur.king < p.board.size := (Array.getElem?_eq_some_iff.mp hkc).1
        simp [hlt]
      · rw [hB i hik hi]; exact h0
  · rw [hek, ht] at ht'
    cases ht'
    exact hz hz'

end Magog.Count
