import Magog.Lemmas.MMGen
import Magog.Lemmas.CountPromo

/-! The stages of `makeMove` as far as the abstraction sees them: the new board (as a chain of
    `setIfInBounds` on the old one), the new flags, the new en-passant square. -/

namespace Magog.MMAbs
open Magog Magog.Model Magog.Atk Magog.Geo Magog.Count

/-- board, flags and en-passant square of the position `makeMove` returns -/
theorem makeMove_fields {p : Position} {m : Move} {p' : Position} {b : Bool}
    (h : makeMove p m = .ok (p', b)) :
    ∃ board1 flags1 cur1 en1 board2 en2,
      mmMover p.board p.flags (p.side (whiteTurn p)) m (bitOf (whiteTurn p)) (homeRankOf (whiteTurn p))
        (kFlagOf (whiteTurn p)) (qFlagOf (whiteTurn p)) = .ok (board1, flags1, cur1) ∧
      mmCapture board1 (p.side (!whiteTurn p)) m (bitOf (!whiteTurn p)) = .ok en1 ∧
      mmBoard board1 en1 m p.ep (bitOf (whiteTurn p)) = .ok (board2, en2) ∧
      p'.board = board2 ∧
      p'.flags = mmCorners flags1 m (homeRankOf (whiteTurn p)) (homeRankOf (!whiteTurn p))
        (kFlagOf (whiteTurn p)) (qFlagOf (whiteTurn p)) (kFlagOf (!whiteTurn p)) (qFlagOf (!whiteTurn p))
          ^^^ FWhiteTurn ∧
      p'.ep = m.ep := by
  unfold makeMove at h
  simp only [bind_ok, pure_eq_ok, Except.ok.injEq, Prod.mk.injEq] at h
  obtain ⟨⟨board1, flags1, cur1⟩, h1, en1, h2, ⟨board2, en2⟩, h3, chk, _, h5, _⟩ := h
  refine ⟨board1, flags1, cur1, en1, board2, en2, ?_⟩
  cases hw : whiteTurn p
  · simp only [hw, Bool.false_eq_true, if_false, Bool.not_false] at h1 h2 h3 h5
    subst h5
    exact ⟨h1, h2, h3, rfl, rfl, rfl⟩
  · simp only [hw, if_true, Bool.not_true] at h1 h2 h3 h5
    subst h5
    exact ⟨h1, h2, h3, rfl, rfl, rfl⟩

/-- board and flags after the mover stage -/
theorem mmMover_spec {board : Array Nat} {flags : Nat} {cur : Side} {m : Move} {cc cr ck cq : Nat}
    {b' : Array Nat} {f' : Nat} {cur' : Side} {fp : Nat}
    (hfp : board[m.frm]? = some fp)
    (h : mmMover board flags cur m cc cr ck cq = .ok (b', f', cur')) :
    (fp = Pawn ||| cc → b' = board ∧ f' = flags) ∧
    (fp ≠ Pawn ||| cc → m.frm ≠ cur.king → b' = board ∧ f' = flags) ∧
    (fp ≠ Pawn ||| cc → m.frm = cur.king → f' = clearBits flags (ck ||| cq) ∧
       b' = if fileOf m.frm = Gen.E ∧ fileOf m.to = Gen.C then
              (board.setIfInBounds ((Gen.A + cr) % 256) 0).setIfInBounds ((Gen.D + cr) % 256) (Rook ||| cc)
            else if fileOf m.frm = Gen.E ∧ fileOf m.to = Gen.G then
              (board.setIfInBounds ((Gen.H + cr) % 256) 0).setIfInBounds ((Gen.F + cr) % 256) (Rook ||| cc)
            else board) := by
  unfold mmMover at h
  rw [bget_eq, hfp] at h
  simp only [ok_bind] at h
  by_cases hp : fp = Pawn ||| cc
  · refine ⟨fun _ => ?_, fun hne => absurd hp hne, fun hne => absurd hp hne⟩
    have hp' : (fp == Pawn ||| cc) = true := by simpa using hp
    simp only [hp', if_true] at h
    split at h
    · simp only [pure_eq_ok, Except.ok.injEq, Prod.mk.injEq] at h
      exact ⟨h.1.symm, h.2.1.symm⟩
    · split at h
      · simp only [bind_ok, pure_eq_ok, Except.ok.injEq, Prod.mk.injEq] at h
        obtain ⟨_, _, h1, h2, _⟩ := h
        exact ⟨h1.symm, h2.symm⟩
      · simp only [pure_eq_ok, Except.ok.injEq, Prod.mk.injEq] at h
        exact ⟨h.1.symm, h.2.1.symm⟩
  · have hp' : (fp == Pawn ||| cc) = false := by simpa using hp
    simp only [hp', Bool.false_eq_true, if_false] at h
    refine ⟨fun he => absurd he hp, fun _ hk => ?_, fun _ hk => ?_⟩
    · have hk' : (m.frm == cur.king) = false := by simpa using hk
      simp only [hk', Bool.false_eq_true, if_false, pure_eq_ok, Except.ok.injEq, Prod.mk.injEq] at h
      exact ⟨h.1.symm, h.2.1.symm⟩
    · have hk' : (m.frm == cur.king) = true := by simpa using hk
      simp only [hk', if_true] at h
      by_cases hE : fileOf m.frm = Gen.E
      · have hE' : (fileOf m.frm == Gen.E) = true := by simpa using hE
        simp only [hE', if_true] at h
        by_cases hC : fileOf m.to = Gen.C
        · have hC' : (fileOf m.to == Gen.C) = true := by simpa using hC
          simp only [hC', if_true, bind_ok, pure_eq_ok, Except.ok.injEq, Prod.mk.injEq, bset_ok_iff] at h
          obtain ⟨b1, ⟨_, rfl⟩, b2, ⟨_, rfl⟩, rfl, rfl, _⟩ := h
          refine ⟨rfl, ?_⟩
          rw [if_pos ⟨hE, hC⟩]
        · have hC' : (fileOf m.to == Gen.C) = false := by simpa using hC
          simp only [hC', Bool.false_eq_true, if_false] at h
          by_cases hG : fileOf m.to = Gen.G
          · have hG' : (fileOf m.to == Gen.G) = true := by simpa using hG
            simp only [hG', if_true, bind_ok, pure_eq_ok, Except.ok.injEq, Prod.mk.injEq, bset_ok_iff] at h
            obtain ⟨b1, ⟨_, rfl⟩, b2, ⟨_, rfl⟩, rfl, rfl, _⟩ := h
            refine ⟨rfl, ?_⟩
            rw [if_neg (fun hh => hC hh.2), if_pos ⟨hE, hG⟩]
          · have hG' : (fileOf m.to == Gen.G) = false := by simpa using hG
            simp only [hG', Bool.false_eq_true, if_false, pure_eq_ok, Except.ok.injEq, Prod.mk.injEq] at h
            obtain ⟨rfl, rfl, _⟩ := h
            refine ⟨rfl, ?_⟩
            rw [if_neg (fun hh => hC hh.2), if_neg (fun hh => hG hh.2)]
      · have hE' : (fileOf m.frm == Gen.E) = false := by simpa using hE
        simp only [hE', Bool.false_eq_true, if_false, pure_eq_ok, Except.ok.injEq, Prod.mk.injEq] at h
        obtain ⟨rfl, rfl, _⟩ := h
        refine ⟨rfl, ?_⟩
        rw [if_neg (fun hh => hE hh.1), if_neg (fun hh => hE hh.1)]

/-- the board after the board stage -/
theorem mmBoard_spec {board : Array Nat} {en en' : Side} {m : Move} {ep cc fp : Nat} {B : Array Nat}
    (hfp : board[m.frm]? = some fp) (h : mmBoard board en m ep cc = .ok (B, en')) :
    B = if m.promo = 0 then
          if ep = m.to ∧ fp = Pawn ||| cc then
            ((board.setIfInBounds m.to fp).setIfInBounds ((fileOf m.to + rankOf m.frm) % 256) 0).setIfInBounds
              m.frm 0
          else (board.setIfInBounds m.to fp).setIfInBounds m.frm 0
        else (board.setIfInBounds m.to (m.promo ||| cc)).setIfInBounds m.frm 0 := by
  unfold mmBoard at h
  by_cases hp : m.promo = 0
  · have hp' : (m.promo == 0) = true := by simpa using hp
    simp only [hp', if_true, bget_eq, hfp, ok_bind, bind_ok, bset_ok_iff] at h
    obtain ⟨b1, ⟨_, rfl⟩, h⟩ := h
    rw [if_pos hp]
    by_cases hc : ep = m.to ∧ fp = Pawn ||| cc
    · have hc' : (ep == m.to && fp == (Pawn ||| cc)) = true := by simpa using hc
      simp only [hc', if_true, bind_ok, pure_eq_ok, Except.ok.injEq, Prod.mk.injEq, bset_ok_iff] at h
      obtain ⟨_, _, b2, ⟨_, rfl⟩, b3, ⟨_, rfl⟩, rfl, _⟩ := h
      rw [if_pos hc]
    · have hc' : (ep == m.to && fp == (Pawn ||| cc)) = false := by
        rw [Bool.eq_false_iff]; simpa using hc
      simp only [hc', Bool.false_eq_true, if_false, bind_ok, pure_eq_ok, Except.ok.injEq, Prod.mk.injEq,
        bset_ok_iff] at h
      obtain ⟨b2, ⟨_, rfl⟩, rfl, _⟩ := h
      rw [if_neg hc]
  · have hp' : (m.promo == 0) = false := by simpa using hp
    simp only [hp', Bool.false_eq_true, if_false, bind_ok, pure_eq_ok, Except.ok.injEq, Prod.mk.injEq,
      bset_ok_iff] at h
    obtain ⟨b1, ⟨_, rfl⟩, b2, ⟨_, rfl⟩, rfl, _⟩ := h
    rw [if_neg hp]

end Magog.MMAbs
