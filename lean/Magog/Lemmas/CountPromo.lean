import Magog.Lemmas.Count

/-! C06, key lemma: the king-safety verdict of `makeMove` for a pawn move does not depend on the
    promotion piece (`promo_legal_uniform`), via a congruence lemma for `isUnderCheck`. -/

namespace Magog.Count
open Magog Magog.Model

/-! ### board access -/

theorem bget_eq (b : Array Nat) (i : Nat) :
    bget b i = match b[i]? with | some x => .ok x | none => .error (.index "board" i) := by
  unfold bget
  by_cases h : i < b.size
  · simp [h, pure_eq_ok]
  · simp [h, throw_eq_error]

theorem bset_ok_iff {b b' : Array Nat} {i v : Nat} :
    bset b i v = .ok b' ↔ i < b.size ∧ b' = b.setIfInBounds i v := by
  unfold bset
  by_cases h : i < b.size
  · simp [h, pure_eq_ok, eq_comm]
  · simp [h, throw_eq_error]

/-! ### congruence of the attack test -/

theorem anyM'_congr {α} {f g : α → M Bool} {l : List α} (h : ∀ x ∈ l, f x = g x) :
    anyM' f l = anyM' g l := by
  induction l with
  | nil => rfl
  | cons x xs ih =>
    simp only [anyM']
    rw [h x List.mem_cons_self, ih (fun y hy => h y (List.mem_cons_of_mem _ hy))]

theorem sliderWalk_congr {B B' : Array Nat} (hsize : B.size = B'.size)
    (hemp : ∀ i : Nat, B[i]? = some 0 ↔ B'[i]? = some 0) (dir dest : Nat) :
    ∀ fuel sq, sliderWalk B dir dest fuel sq = sliderWalk B' dir dest fuel sq := by
  intro fuel
  induction fuel with
  | zero => intro sq; rfl
  | succ fuel ih =>
    intro sq
    unfold sliderWalk
    split
    · rfl
    · rw [bget_eq, bget_eq, ih]
      by_cases h : sq < B.size
      · have h' : sq < B'.size := hsize ▸ h
        have e := hemp sq
        simp only [Array.getElem?_eq_getElem h, Array.getElem?_eq_getElem h', Option.some.injEq] at e ⊢
        simp only [ok_bind]
        by_cases h0 : B[sq] = 0
        · simp [h0, e.mp h0]
        · have h0' : B'[sq] ≠ 0 := fun hh => h0 (e.mpr hh)
          simp [h0, h0']
      · have h' : ¬ sq < B'.size := hsize ▸ h
        simp [Array.getElem?_eq_none (Nat.le_of_not_lt h), Array.getElem?_eq_none (Nat.le_of_not_lt h')]

theorem pieceAttacks_congr {B B' : Array Nat} (hsize : B.size = B'.size)
    (hemp : ∀ i : Nat, B[i]? = some 0 ↔ B'[i]? = some 0) (dest a : Nat) (ha : B[a]? = B'[a]?) :
    pieceAttacks B dest a = pieceAttacks B' dest a := by
  unfold pieceAttacks
  rw [bget_eq, bget_eq, ha]
  simp only [sliderWalk_congr hsize hemp]

/-- `isUnderCheck` sees the board only through (a) emptiness of squares, (b) the cells of the
    attacker list, (c) the colour bit of the cell on the attackers' king square. -/
theorem isUnderCheck_congr {B B' : Array Nat} (en : Side) (dest : Nat) (hsize : B.size = B'.size)
    (hemp : ∀ i : Nat, B[i]? = some 0 ↔ B'[i]? = some 0)
    (hp : ∀ a ∈ en.pieces, B[a]? = B'[a]?)
    (hk : (B[en.king]?).map (· &&& BlackBit) = (B'[en.king]?).map (· &&& BlackBit)) :
    isUnderCheck B en dest = isUnderCheck B' en dest := by
  unfold isUnderCheck
  rw [anyM'_congr (fun a ha => pieceAttacks_congr hsize hemp dest a (hp a ha))]
  rw [bget_eq, bget_eq]
  cases h : B[en.king]? with
  | none =>
    rw [h] at hk
    cases h' : B'[en.king]? with
    | none => rfl
    | some y => rw [h'] at hk; simp at hk
  | some x =>
    rw [h] at hk
    cases h' : B'[en.king]? with
    | none => rw [h'] at hk; simp at hk
    | some y =>
      rw [h'] at hk
      simp only [Option.map_some, Option.some.injEq] at hk
      simp only [ok_bind, hk]

/-! ### the context record against MakeMove's own case split -/

theorem ctx_curBit (p : Position) : p.ctx.curBit = (if whiteTurn p then WhiteBit else BlackBit) := by
  unfold Position.ctx; split <;> rfl
theorem ctx_enBit (p : Position) : p.ctx.enBit = (if whiteTurn p then BlackBit else WhiteBit) := by
  unfold Position.ctx; split <;> rfl
theorem ctx_cur (p : Position) : p.ctx.cur = p.side (whiteTurn p) := by
  unfold Position.ctx; split <;> simp [*]
theorem ctx_en (p : Position) : p.ctx.en = p.side (!whiteTurn p) := by
  unfold Position.ctx; split <;> simp [*]

/-- the stages of `makeMove`, named through `p.ctx` -/
theorem makeMove_ok {p : Position} {m : Move} {q : Position} {b : Bool} (h : makeMove p m = .ok (q, b)) :
    ∃ board flags cur en board' en' chk,
      mmMover p.board p.flags p.ctx.cur m p.ctx.curBit (if whiteTurn p then Gen.Rank1 else Gen.Rank8)
        (if whiteTurn p then FWK else FBK) (if whiteTurn p then FWQ else FBQ) = .ok (board, flags, cur) ∧
      mmCapture board p.ctx.en m p.ctx.enBit = .ok en ∧
      mmBoard board en m p.ep p.ctx.curBit = .ok (board', en') ∧
      isUnderCheck board' en' cur.king = .ok chk ∧ b = !chk := by
  unfold makeMove at h
  simp only [bind_ok, pure_eq_ok, Except.ok.injEq, Prod.mk.injEq] at h
  obtain ⟨⟨board, flags, cur⟩, h1, en, h2, ⟨board', en'⟩, h3, chk, h4, _, h5⟩ := h
  rw [ctx_cur, ctx_en, ctx_curBit, ctx_enBit]
  exact ⟨board, flags, cur, en, board', en', chk, h1, h2, h3, h4, h5.symm⟩

/-! ### the stages for a pawn move -/

theorem mmMover_pawn {board : Array Nat} {flags : Nat} {cur : Side} {m : Move} {cc cr ck cq : Nat}
    {b' : Array Nat} {f' : Nat} {cur' : Side}
    (hp : board[m.frm]? = some (Pawn ||| cc))
    (h : mmMover board flags cur m cc cr ck cq = .ok (b', f', cur')) :
    b' = board ∧ cur'.king = cur.king := by
  unfold mmMover at h
  rw [bget_eq, hp] at h
  simp only [ok_bind, beq_self_eq_true, if_true] at h
  split at h
  · simp only [pure_eq_ok, Except.ok.injEq, Prod.mk.injEq] at h
    obtain ⟨rfl, _, rfl⟩ := h
    exact ⟨rfl, rfl⟩
  · split at h
    · simp only [bind_ok, pure_eq_ok, Except.ok.injEq, Prod.mk.injEq] at h
      obtain ⟨_, _, rfl, _, rfl⟩ := h
      exact ⟨rfl, rfl⟩
    · simp only [pure_eq_ok, Except.ok.injEq, Prod.mk.injEq] at h
      obtain ⟨rfl, _, rfl⟩ := h
      exact ⟨rfl, rfl⟩

theorem nodup_getElem_inj {l : List Nat} (hnd : l.Nodup) {i j : Nat} (hi : i < l.length) (hj : j < l.length)
    (h : l[i] = l[j]) : i = j := by
  have hp := List.pairwise_iff_getElem.mp hnd
  rcases Nat.lt_trichotomy i j with hlt | heq | hgt
  · exact absurd h (hp i j hi hj hlt)
  · exact heq
  · exact absurd h.symm (hp j i hj hi hgt)

/-- swap-remove of the first occurrence from a duplicate-free list removes the value -/
theorem kill_not_mem {l l' : List Nat} {sq : Nat} {what : String} (hnd : l.Nodup)
    (h : kill l sq what = .ok l') : sq ∉ l' := by
  unfold kill at h
  split at h
  · rename_i i hi
    simp only [pure_eq_ok, Except.ok.injEq] at h
    subst h
    obtain ⟨hil, hli, _⟩ := List.idxOf?_eq_some_iff.mp hi
    intro hmem
    obtain ⟨j, hj, hjs⟩ := List.mem_iff_getElem.mp hmem
    have hj' : j < l.length - 1 := by simpa using hj
    rw [List.getElem_dropLast, List.getElem_set] at hjs
    split at hjs
    · rename_i hij
      subst hij
      have hne : l ≠ [] := by intro hh; subst hh; simp at hil
      have hlast : l.getLastD 0 = l[l.length - 1]'(by omega) := by
        rw [List.getLastD_eq_getLast?, List.getLast?_eq_getElem?, List.getElem?_eq_getElem (by omega)]
        rfl
      rw [hlast, ← hli] at hjs
      have := nodup_getElem_inj hnd (by omega) hil hjs
      omega
    · rename_i hij
      rw [← hli] at hjs
      have := nodup_getElem_inj hnd (by omega) hil hjs
      omega
  · simp [throw_eq_error] at h

/-- after the capture bookkeeping the destination square is not in the enemy piece list -/
theorem mmCapture_not_mem {board : Array Nat} {en en' : Side} {m : Move} {ec : Nat}
    (hnd : en.pieces.Nodup)
    (hcell : ∀ a ∈ en.pieces, board[a]? ≠ some 0 ∧ board[a]? ≠ some (King ||| ec) ∧
      board[a]? ≠ some (Pawn ||| ec))
    (h : mmCapture board en m ec = .ok en') : m.to ∉ en'.pieces ∧ en'.king = en.king := by
  unfold mmCapture at h
  rw [bget_eq] at h
  cases ht : board[m.to]? with
  | none => simp [ht] at h
  | some target =>
    simp only [ht, ok_bind] at h
    by_cases h0 : target = 0
    · subst h0
      simp only [bne_self_eq_false, Bool.false_eq_true, if_false, pure_eq_ok, Except.ok.injEq] at h
      subst h
      exact ⟨fun hm => (hcell _ hm).1 ht, rfl⟩
    · have h0' : (target != 0) = true := by simpa using h0
      simp only [h0', if_true] at h
      by_cases hk : target = (King ||| ec)
      · subst hk
        simp only [bne_self_eq_false, Bool.false_eq_true, if_false, pure_eq_ok, Except.ok.injEq] at h
        subst h
        exact ⟨fun hm => (hcell _ hm).2.1 ht, rfl⟩
      · have hk' : (target != (King ||| ec)) = true := by simpa using hk
        simp only [hk', if_true] at h
        by_cases hpw : target = (Pawn ||| ec)
        · subst hpw
          simp only [beq_self_eq_true, if_true, bind_ok, pure_eq_ok, Except.ok.injEq] at h
          obtain ⟨pw, _, rfl⟩ := h
          exact ⟨fun hm => (hcell _ hm).2.2 ht, rfl⟩
        · have hpw' : (target == (Pawn ||| ec)) = false := by simpa using hpw
          simp only [hpw', Bool.false_eq_true, if_false, bind_ok, pure_eq_ok, Except.ok.injEq] at h
          obtain ⟨pcs, hkill, rfl⟩ := h
          exact ⟨kill_not_mem hnd hkill, rfl⟩

/-- `mmCapture` looks at the move only through its destination -/
theorem mmCapture_promo (board : Array Nat) (en : Side) (f t k e ec : Nat) :
    mmCapture board en ⟨f, t, k, e⟩ ec = mmCapture board en ⟨f, t, 0, e⟩ ec := rfl

theorem mmBoard_promo0 {board : Array Nat} {en en' : Side} {f t e ep cc : Nat} {B : Array Nat}
    (hp : board[f]? = some (Pawn ||| cc)) (hep : t ≠ ep)
    (h : mmBoard board en ⟨f, t, 0, e⟩ ep cc = .ok (B, en')) :
    en' = en ∧ t < board.size ∧ f < board.size ∧
      B = (board.setIfInBounds t (Pawn ||| cc)).setIfInBounds f 0 := by
  unfold mmBoard at h
  have hne : (ep == t) = false := by simpa using fun hh : ep = t => hep hh.symm
  simp only [beq_self_eq_true, if_true, bget_eq, hp, ok_bind, bind_ok, hne, Bool.false_and,
    Bool.false_eq_true, if_false, pure_eq_ok, Except.ok.injEq, Prod.mk.injEq, bset_ok_iff] at h
  obtain ⟨b1, ⟨ht, rfl⟩, b2, ⟨hf, rfl⟩, rfl, rfl⟩ := h
  refine ⟨rfl, ht, ?_, rfl⟩
  simpa using hf

theorem mmBoard_promoK {board : Array Nat} {en en' : Side} {f t k e ep cc : Nat} {B : Array Nat}
    (hk : k ≠ 0) (h : mmBoard board en ⟨f, t, k, e⟩ ep cc = .ok (B, en')) :
    en' = en ∧ B = (board.setIfInBounds t (k ||| cc)).setIfInBounds f 0 := by
  unfold mmBoard at h
  have hne : (k == 0) = false := by simpa using hk
  simp only [hne, Bool.false_eq_true, if_false, bind_ok, pure_eq_ok, Except.ok.injEq, Prod.mk.injEq,
    bset_ok_iff] at h
  obtain ⟨b1, ⟨_, rfl⟩, b2, ⟨_, rfl⟩, rfl, rfl⟩ := h
  exact ⟨rfl, rfl⟩

theorem or_ne_zero_of_right {a b : Nat} (hb : b ≠ 0) : a ||| b ≠ 0 := by
  intro h
  exact hb (Nat.or_eq_zero_iff.mp h).2

/-- **The king-safety verdict of `makeMove` for a pawn move does not depend on the promotion piece.**
    Side conditions: the mover on `f` is a pawn of the side to move; the destination is not the
    en-passant square (otherwise only the `promo = 0` variant removes the passed pawn);
    `CaptureOk p` (the destination is not in the enemy piece list after the capture bookkeeping);
    the promotion code does not carry the black colour bit (only matters when the destination is
    the enemy king's square, whose cell's colour bit selects the pawn-attack table). -/
theorem promo_legal_uniform {p : Position} {f t k e : Nat} {q0 q1 : Position} {b0 b1 : Bool}
    (hcap : CaptureOk p) (hpawn : p.board[f]? = some (Pawn ||| p.ctx.curBit)) (hep : t ≠ p.ep)
    (hkb : k &&& BlackBit = 0)
    (h0 : makeMove p ⟨f, t, 0, e⟩ = .ok (q0, b0)) (h1 : makeMove p ⟨f, t, k, e⟩ = .ok (q1, b1)) :
    b0 = b1 := by
  by_cases hk : k = 0
  · subst hk; rw [h0] at h1; cases h1; rfl
  obtain ⟨bd0, fl0, cur0, en0, B0, en0', chk0, hm0, hc0, hb0, hu0, rfl⟩ := makeMove_ok h0
  obtain ⟨bd1, fl1, cur1, en1, B1, en1', chk1, hm1, hc1, hb1, hu1, rfl⟩ := makeMove_ok h1
  obtain ⟨rfl, hking0⟩ := mmMover_pawn hpawn hm0
  obtain ⟨rfl, hking1⟩ := mmMover_pawn hpawn hm1
  rw [mmCapture_promo] at hc1
  rw [hc0] at hc1; cases hc1
  obtain ⟨hnot, _⟩ := mmCapture_not_mem hcap.1 hcap.2 hc0
  obtain ⟨rfl, htl, hfl, rfl⟩ := mmBoard_promo0 hpawn hep hb0
  obtain ⟨rfl, rfl⟩ := mmBoard_promoK hk hb1
  have hcc : p.ctx.curBit ≠ 0 := by
    rw [ctx_curBit]; split <;> decide
  have hcb : (Pawn ||| p.ctx.curBit) &&& BlackBit = (k ||| p.ctx.curBit) &&& BlackBit := by
    rw [Nat.and_or_distrib_right, Nat.and_or_distrib_right, hkb]
    rfl
  have hcong := isUnderCheck_congr (B := (p.board.setIfInBounds t (Pawn ||| p.ctx.curBit)).setIfInBounds f 0)
    (B' := (p.board.setIfInBounds t (k ||| p.ctx.curBit)).setIfInBounds f 0) en1' cur0.king
    (by simp) ?_ ?_ ?_
  · have hkk : cur0.king = cur1.king := by rw [hking0, hking1]
    rw [hkk] at hcong hu0
    rw [hcong, hu1] at hu0
    cases hu0; rfl
  · intro i
    simp only [Array.getElem?_setIfInBounds, Array.size_setIfInBounds]
    split
    · rfl
    · split
      · simp [or_ne_zero_of_right hcc]
      · rfl
  · intro a ha
    have hat : t ≠ a := fun hh => hnot (hh ▸ ha)
    simp only [Array.getElem?_setIfInBounds, Array.size_setIfInBounds, hat, if_false]
  · simp only [Array.getElem?_setIfInBounds, Array.size_setIfInBounds]
    split
    · rfl
    · split
      · simp [hcb]
      · rfl

end Magog.Count
