import Magog.Lemmas.FenWriteText
import Magog.Lemmas.FenInvariant

/-! C08 round trip, placement: the loader ACCEPTS rank strings made of run lengths and piece letters,
    as long as the piece lists have room for the men they denote. -/

set_option linter.unusedSimpArgs false

namespace Magog.FenWrite
open Magog Magog.Model Magog.FenSpec Magog.FenLemmas

/-- number of entries of `l` that are one of `codes` -/
def cnt (codes : List Nat) (l : List Nat) : Nat := l.countP (fun v => codes.contains v)

theorem cnt_cons (codes : List Nat) (v : Nat) (l : List Nat) :
    cnt codes (v :: l) = cnt codes l + if codes.contains v then 1 else 0 := by
  simp [cnt, List.countP_cons]

theorem cnt_append (codes : List Nat) (l l' : List Nat) : cnt codes (l ++ l') = cnt codes l + cnt codes l' := by
  simp [cnt, List.countP_append]

theorem cnt_replicate_zero (codes : List Nat) (h : (0 : Nat) ∉ codes) (n : Nat) : cnt codes (List.replicate n 0) = 0 := by
  simp only [cnt, List.countP_eq_zero, List.mem_replicate, List.contains_iff_mem]
  rintro a ⟨_, rfl⟩
  exact h

/-- the lists of `p` have room for the men among the codes `l` still to be placed -/
def Room (p : Position) (l : List Nat) : Prop :=
  p.whitePawns.length + cnt [Gen.WPawn] l ≤ pawnCap ∧
  p.whitePawns.length + p.whitePieces.length + cnt (Gen.WPawn :: whitePieceCodes) l ≤ pieceCap ∧
  p.blackPawns.length + cnt [Gen.BPawn] l ≤ pawnCap ∧
  p.blackPawns.length + p.blackPieces.length + cnt (Gen.BPawn :: blackPieceCodes) l ≤ pieceCap

theorem Room_zeros {p : Position} {n : Nat} {l : List Nat} (h : Room p (List.replicate n 0 ++ l)) : Room p l := by
  unfold Room at h ⊢
  simp only [cnt_append] at h
  rw [cnt_replicate_zero _ (by decide), cnt_replicate_zero _ (by decide), cnt_replicate_zero _ (by decide),
    cnt_replicate_zero _ (by decide)] at h
  omega

/-- placing a man that is still accounted for: the loader's `hasRoomFor` test passes, and the rest is
    still accounted for -/
theorem Room_place {p : Position} {v : Nat} {l : List Nat} (sq : Nat) (hv : v ∈ codes12) (h : Room p (v :: l)) :
    hasRoomFor p v = true ∧ Room (placePure p sq v) l := by
  unfold Room at h ⊢
  simp only [cnt_cons] at h
  simp only [codes12, List.mem_cons, List.not_mem_nil, or_false] at hv
  rcases hv with rfl | rfl | rfl | rfl | rfl | rfl | rfl | rfl | rfl | rfl | rfl | rfl
  all_goals
    simp [whitePieceCodes, blackPieceCodes, pawnCap, pieceCap, Gen.pawnCap, Gen.pieceCap, Gen.WPawn, Gen.WKnight, Gen.WBishop,
      Gen.WRook, Gen.WQueen, Gen.WKing, Gen.BPawn, Gen.BKnight, Gen.BBishop, Gen.BRook, Gen.BQueen, Gen.BKing] at h
    simp [hasRoomFor, placePure, Position.side, WhiteBit, Colorless, King, Pawn, Gen.WhitePieceBit, Gen.ColorlessPiece,
      whitePieceCodes, blackPieceCodes, pawnCap, pieceCap, Gen.pawnCap, Gen.pieceCap,
      Gen.King, Gen.Pawn, Gen.WPawn, Gen.WKnight, Gen.WBishop, Gen.WRook, Gen.WQueen, Gen.WKing,
      Gen.BPawn, Gen.BKnight, Gen.BBishop, Gen.BRook, Gen.BQueen, Gen.BKing]
    omega

theorem placePure_size (p : Position) (sq v : Nat) : (placePure p sq v).board.size = p.board.size := by
  simp [placePure]

/-- a rank string of run lengths and piece letters -/
def RankText (cs : Bytes) : Prop := ∀ c ∈ cs, (49 ≤ c ∧ c ≤ 56) ∨ charToPiece c ∈ codes12

/-- no pawn among the denoted codes -/
def NoPawn (l : List Nat) : Prop := ∀ v ∈ l, v ≠ Gen.WPawn ∧ v ≠ Gen.BPawn

theorem fenRank_accept (k : Nat) (hk : k < 8) : ∀ (cs : Bytes) (f : Nat) (p : Position) (rest : List Nat),
    p.board.size = 128 → f + (expandRank cs).length ≤ 8 → RankText cs →
    ((k = 0 ∨ k = 7) → NoPawn (expandRank cs)) → Room p (expandRank cs ++ rest) →
    ∃ p', fenRank (k * 16) cs f p = .ok (.ok (p', f + (expandRank cs).length)) ∧ Room p' rest ∧
      p'.board.size = 128 := by
  intro cs
  induction cs with
  | nil =>
    intro f p rest hs _ _ _ hr
    exact ⟨p, by simp [fenRank, expandRank, pure, Except.pure], by simpa [expandRank] using hr, hs⟩
  | cons c cs ih =>
    intro f p rest hs hlen htext hback hroom
    have htext' : RankText cs := fun c' hc' => htext c' (List.mem_cons_of_mem _ hc')
    rw [fenRank]
    by_cases hd : (49 ≤ c && c ≤ 56) = true
    · have hd' := hd
      simp only [Bool.and_eq_true, decide_eq_true_eq] at hd'
      have hex : expandRank (c :: cs) = List.replicate (c - 48) 0 ++ expandRank cs := by
        rw [expandRank, if_pos hd]
      rw [hex] at hlen hback hroom
      simp only [List.length_append, List.length_replicate] at hlen
      rw [if_pos hd]
      have e1 : (f + (c - 48)) % 256 = f + (c - 48) := by omega
      simp only [e1]
      rw [if_neg (show ¬ f + (c - 48) > Gen.H + 1 by simp only [Gen.H]; omega)]
      rw [List.append_assoc] at hroom
      obtain ⟨p', h1, h2, h3⟩ := ih (f + (c - 48)) p rest hs (by omega) htext'
        (fun hk' v hv => hback hk' v (List.mem_append_right _ hv)) (Room_zeros hroom)
      refine ⟨p', ?_, h2, h3⟩
      rw [h1, hex]
      simp only [List.length_append, List.length_replicate]
      rw [Nat.add_assoc]
    · have hc : charToPiece c ∈ codes12 := by
        rcases htext c (by simp) with h | h
        · exact absurd (by simpa using h) hd
        · exact h
      have hex : expandRank (c :: cs) = charToPiece c :: expandRank cs := by
        rw [expandRank, if_neg hd]
      rw [hex] at hlen hback hroom
      simp only [List.length_cons] at hlen
      rw [if_neg hd]
      rw [if_neg (show ¬ f > Gen.H by simp only [Gen.H]; omega)]
      have hne : (charToPiece c == 0) = false := by
        have : charToPiece c ≠ 0 := by
          intro e; rw [e] at hc; revert hc; decide
        simpa using this
      dsimp only
      rw [hne]
      simp only [Bool.false_eq_true, if_false]
      have hbk : (charToPiece c &&& Colorless == Pawn && (k * 16 == Gen.Rank1 || k * 16 == Gen.Rank8)) = false := by
        rw [Bool.and_eq_false_iff]
        by_cases hk' : k = 0 ∨ k = 7
        · left
          have := hback hk' (charToPiece c) (by simp)
          cases hp : (charToPiece c &&& Colorless == Pawn) with
          | false => rfl
          | true =>
            have := (pawn_code _ hc).1 hp
            omega
        · right
          simp only [Gen.Rank1, Gen.Rank8, Bool.or_eq_false_iff, beq_eq_false_iff_ne]
          omega
      rw [hbk]
      simp only [Bool.false_eq_true, if_false]
      rw [List.cons_append] at hroom
      obtain ⟨hroom1, hroom2⟩ := Room_place ((k * 16 + f) % 256) hc hroom
      rw [hroom1]
      simp only [Bool.not_true, Bool.false_eq_true, if_false]
      rw [fenPlace_ok p _ _ hc hs (by omega) hroom1]
      simp only [bind, Except.bind]
      have e1 : (f + 1) % 256 = f + 1 := by omega
      rw [e1]
      obtain ⟨p', h1, h2, h3⟩ := ih (f + 1) _ rest (by rw [placePure_size]; exact hs) (by omega) htext'
        (fun hk' v hv => hback hk' v (List.mem_cons_of_mem _ hv)) hroom2
      refine ⟨p', ?_, h2, h3⟩
      rw [h1, hex]
      simp only [List.length_cons]
      have : f + 1 + (expandRank cs).length = f + ((expandRank cs).length + 1) := by omega
      rw [this]

/-- the placement field is accepted: `rows` are the rank strings still to be scanned (the first one
    being rank `7 - idx`), each denoting exactly eight squares, pawn-free on ranks 1 and 8, and the
    lists have room for all denoted men -/
theorem fenRanks_accept : ∀ (rows : List Bytes) (idx : Nat) (p : Position), idx + rows.length = 8 →
    p.board.size = 128 →
    (∀ row ∈ rows, RankText row ∧ (expandRank row).length = 8) →
    (∀ (m : Nat) (row : Bytes), rows[m]? = some row → (idx + m = 7 ∨ idx + m = 0) → NoPawn (expandRank row)) →
    Room p (rows.map expandRank).flatten →
    ∃ p', fenRanks rows idx p = .ok (.ok p') := by
  intro rows
  induction rows with
  | nil => intro idx p _ _ _ _ _; exact ⟨p, rfl⟩
  | cons row rows ih =>
    intro idx p hlen hs hrows hback hroom
    simp only [List.length_cons] at hlen
    simp only [List.map_cons, List.flatten_cons] at hroom
    obtain ⟨ht, h8⟩ := hrows row (by simp)
    obtain ⟨p', h1, h2, h3⟩ := fenRank_accept (7 - idx) (by omega) row 0 p _ hs (by omega) ht
      (fun hk' => hback 0 row (by simp) (by omega)) hroom
    rw [fenRanks, h1]
    simp only [bind, Except.bind, h8, Gen.H]
    rw [if_neg (by simp)]
    exact ih (idx + 1) p' (by omega) h3 (fun r hr => hrows r (List.mem_cons_of_mem _ hr))
      (fun m r hr hm => hback (m + 1) r (by simpa using hr) (by omega)) h2

end Magog.FenWrite
