import Magog.Lemmas.MMFlags

/-! The stages of `makeMove` (`mmMover`, `mmCapture`, `mmBoard`) for a simple move (one man goes from
    `frm` to `to`, possibly capturing, possibly promoting): they succeed and transform each side's lists
    according to `ListSpec`. -/

namespace Magog.MM
open Magog Magog.Model Magog.Atk Magog.Geo Magog.Count

theorem not_man_facts {c : Bool} {v : Nat} (h : ¬ Man c v) :
    v ≠ pawnOf c ∧ v ∉ officersOf c ∧ v ≠ kingOf c :=
  ⟨fun e => h (.inl e), fun e => h (.inr (.inl e)), fun e => h (.inr (.inr e))⟩

/-- `mmMover` for a simple (non-castling) move of a man of the side to move -/
theorem mover_simple {B : Array Nat} {flags : Nat} {cur : Side} {m : Move} {w : Bool} {v t : Nat}
    (hs : SideInv B cur w) (hf : m.frm ∈ sq88)
    (hv : B[m.frm]? = some v) (hman : Man w v) (htv : B[m.to]? = some t) (hnot : ¬ Man w t)
    (hpromo : v = pawnOf w → m.promo = 0 ∨ m.promo ∈ promoKinds)
    (hnp : v ≠ pawnOf w → m.promo = 0)
    (hnc : v = kingOf w → ¬ (fileOf m.frm = Gen.E ∧ (fileOf m.to = Gen.C ∨ fileOf m.to = Gen.G))) :
    ∃ cur', mmMover B flags cur m (colorBit w) (homeRank w) (flagK w) (flagQ w)
        = .ok (B, (if v = kingOf w then clearBits flags (flagK w ||| flagQ w) else flags), cur') ∧
      ListSpec cur cur' w m.frm m.to (if m.promo = 0 then v else m.promo ||| colorBit w) := by
  obtain ⟨htp, htq, htk⟩ := hs.ok.not_mem_of_not_man htv hnot
  have hne : m.frm ≠ m.to := by
    intro e; rw [e, htv] at hv; cases hv; exact hnot hman
  obtain ⟨mp, mq, mk⟩ := hs.ok.mem_of_man hf hv
  have d1 := pawnOf_not_officer w w
  have d2 := pawnOf_ne_kingOf w w
  have d3 := kingOf_not_officer w w
  rcases hman with hvp | hvo | hvk
  · -- pawn
    subst hvp
    have hfp := mp rfl
    have hfq : m.frm ∉ cur.pieces := fun hm => by
      obtain ⟨o, ho, e⟩ := (hs.ok.piece_cell hm).2
      rw [hv] at e; cases e; exact d1 ho
    have hfk : m.frm ≠ cur.king := fun hm => by
      have e := hs.ok.king_cell.2
      rw [← hm, hv] at e; exact d2 (Option.some.inj e)
    rcases hpromo rfl with h0 | hk
    · refine ⟨{ cur with pawns := replaceFirst cur.pawns m.frm m.to }, ?_, ?_⟩
      · simp only [mmMover, bget_eq, hv, ok_bind, pawn_code, beq_self_eq_true, if_true, h0, pure_eq_ok, d2, if_false]
      · have hm := replaceFirst_mem (b := m.to) hfp hs.ndPawns
        rw [if_pos h0]
        refine ⟨fun s => ?_, fun s => ?_, fun s => ?_, ?_, hs.ndPieces, ?_, ?_⟩
        · dsimp only; have := hm s; grind
        · dsimp only; grind
        · dsimp only; grind
        · exact replaceFirst_nodup hfp hs.ndPawns htp
        · dsimp only; rw [replaceFirst_length]; exact hs.lenPawns
        · dsimp only; rw [replaceFirst_length]; exact hs.len
    · have hk0 := promoKinds_ne_zero hk
      have hoff := promo_code_mem w hk
      obtain ⟨i, hi⟩ := idxOf?_of_mem hfp
      obtain ⟨hm, hnd, hlen⟩ := swapRemove_spec hi hs.ndPawns
      have hcap : cur.pieces.length < pieceCap := by
        have := hs.len
        omega
      refine ⟨{ cur with pawns := swapRemove cur.pawns i, pieces := cur.pieces ++ [m.to] }, ?_, ?_⟩
      · have hk0' : (m.promo == 0) = false := by simpa using hk0
        simp only [mmMover, bget_eq, hv, ok_bind, pawn_code, beq_self_eq_true, if_true, hk0', Bool.false_eq_true,
          if_false, hi, appendCap, hcap, pure_eq_ok, d2]
        rfl
      · rw [if_neg hk0]
        have e1 : m.promo ||| colorBit w ≠ pawnOf w := fun e => d1 (e ▸ hoff)
        have e2 : m.promo ||| colorBit w ≠ kingOf w := fun e => d3 (e ▸ hoff)
        refine ⟨fun s => ?_, fun s => ?_, fun s => ?_, hnd, ?_, ?_, ?_⟩
        · dsimp only; have := hm s; grind
        · dsimp only; rw [List.mem_append, List.mem_singleton]; grind
        · dsimp only; grind
        · dsimp only
          rw [List.nodup_append]
          refine ⟨hs.ndPieces, by simp, fun a ha b hb => ?_⟩
          rw [List.mem_singleton] at hb
          subst hb
          exact fun e => htq (e ▸ ha)
        · dsimp only; have := hs.lenPawns; omega
        · dsimp only; rw [List.length_append, List.length_singleton]; have := hs.len; omega
  · -- officer
    have hfq := mq hvo
    have hvp : v ≠ pawnOf w := fun e => d1 (e ▸ hvo)
    have hvk : v ≠ kingOf w := fun e => d3 (e ▸ hvo)
    have hfp : m.frm ∉ cur.pawns := fun hm => by
      have e := (hs.ok.pawn_cell hm).2
      rw [hv] at e; cases e; exact hvp rfl
    have hfk : m.frm ≠ cur.king := fun hm => by
      have e := hs.ok.king_cell.2
      rw [← hm, hv] at e; cases e; exact hvk rfl
    have h0 := hnp hvp
    refine ⟨{ cur with pieces := replaceFirst cur.pieces m.frm m.to }, ?_, ?_⟩
    · have e1 : (v == pawnOf w) = false := by simpa using hvp
      have e2 : (m.frm == cur.king) = false := by simpa using hfk
      simp only [mmMover, bget_eq, hv, ok_bind, pawn_code, e1, e2, Bool.false_eq_true, if_false, pure_eq_ok, hvk]
    · have hm := replaceFirst_mem (b := m.to) hfq hs.ndPieces
      rw [if_pos h0]
      refine ⟨fun s => ?_, fun s => ?_, fun s => ?_, hs.ndPawns, ?_, hs.lenPawns, ?_⟩
      · dsimp only; grind
      · dsimp only; have := hm s; grind
      · dsimp only; grind
      · exact replaceFirst_nodup hfq hs.ndPieces htq
      · dsimp only; rw [replaceFirst_length]; exact hs.len
  · -- king
    subst hvk
    have hfk := mk rfl
    have hvp : kingOf w ≠ pawnOf w := fun e => d2 e.symm
    have hfp : m.frm ∉ cur.pawns := fun hm => by
      have e := (hs.ok.pawn_cell hm).2
      rw [hv] at e; exact hvp (Option.some.inj e)
    have hfq : m.frm ∉ cur.pieces := fun hm => by
      obtain ⟨o, ho, e⟩ := (hs.ok.piece_cell hm).2
      rw [hv] at e; cases e; exact d3 ho
    have h0 := hnp hvp
    have hshape := hnc rfl
    refine ⟨{ cur with king := m.to }, ?_, ?_⟩
    · have e1 : (kingOf w == pawnOf w) = false := by simpa using hvp
      have e2 : (m.frm == cur.king) = true := by simpa using hfk
      simp only [mmMover, bget_eq, hv, ok_bind, pawn_code, e1, e2, Bool.false_eq_true, if_false, if_true, pure_eq_ok]
      by_cases hE : fileOf m.frm = Gen.E
      · have hC : (fileOf m.to == Gen.C) = false := by
          simpa using fun e => hshape ⟨hE, .inl e⟩
        have hG : (fileOf m.to == Gen.G) = false := by
          simpa using fun e => hshape ⟨hE, .inr e⟩
        simp only [hE, beq_self_eq_true, if_true, hC, hG, Bool.false_eq_true, if_false]
      · have hE' : (fileOf m.frm == Gen.E) = false := by simpa using hE
        simp only [hE', Bool.false_eq_true, if_false]
    · rw [if_pos h0]
      refine ⟨fun s => ?_, fun s => ?_, fun s => ?_, hs.ndPawns, hs.ndPieces, hs.lenPawns, hs.len⟩
      · dsimp only; grind
      · dsimp only; grind
      · dsimp only; grind

/-- `mmCapture` for a simple move: the captured man (if any) leaves its list -/
theorem victim_simple {B : Array Nat} {en : Side} {m : Move} {w : Bool} {v t v' : Nat}
    (hs : SideInv B en (!w)) (hto : m.to ∈ sq88)
    (hv : B[m.frm]? = some v) (hman : Man w v) (htv : B[m.to]? = some t)
    (ht : t = 0 ∨ t = pawnOf (!w) ∨ t ∈ officersOf (!w)) (hv' : Man w v') :
    ∃ en', mmCapture B en m (colorBit (!w)) = .ok en' ∧ ListSpec en en' (!w) m.frm m.to v' := by
  have hnv : ¬ Man (!w) v := fun h => man_not_other h (by simpa using hman)
  have hnv' : ¬ Man (!w) v' := fun h => man_not_other h (by simpa using hv')
  obtain ⟨hfp, hfq, hfk⟩ := hs.ok.not_mem_of_not_man hv hnv
  obtain ⟨n1, n2, n3⟩ := not_man_facts hnv'
  obtain ⟨mp, mq, _⟩ := hs.ok.mem_of_man hto htv
  have d1 := pawnOf_not_officer (!w) (!w)
  have d2 := pawnOf_ne_kingOf (!w) (!w)
  have d3 := kingOf_not_officer (!w) (!w)
  rcases ht with h0 | hp | ho
  · subst h0
    have hnt : ¬ Man (!w) 0 := fun h => man_ne_zero h rfl
    obtain ⟨htp, htq, htk⟩ := hs.ok.not_mem_of_not_man htv hnt
    refine ⟨en, ?_, ?_⟩
    · simp only [mmCapture, bget_eq, htv, ok_bind, bne_self_eq_false, Bool.false_eq_true, if_false, pure_eq_ok]
    · refine ⟨fun s => ?_, fun s => ?_, fun s => ?_, hs.ndPawns, hs.ndPieces, hs.lenPawns, hs.len⟩ <;> grind
  · subst hp
    have htp := mp rfl
    have htq : m.to ∉ en.pieces := fun hm => by
      obtain ⟨o, ho, e⟩ := (hs.ok.piece_cell hm).2
      rw [htv] at e; cases e; exact d1 ho
    have htk : m.to ≠ en.king := fun hm => by
      have e := hs.ok.king_cell.2
      rw [← hm, htv] at e; exact d2 (Option.some.inj e)
    obtain ⟨l', hk, hm, hnd, hlen⟩ := kill_spec "enemyPawns" htp hs.ndPawns
    refine ⟨{ en with pawns := l' }, ?_, ?_⟩
    · have e0 : (pawnOf (!w) != 0) = true := by simpa using pawnOf_ne_zero (!w)
      have e1 : (pawnOf (!w) != kingOf (!w)) = true := by simpa using d2
      simp only [mmCapture, bget_eq, htv, ok_bind, e0, if_true, king_code, e1, pawn_code, beq_self_eq_true, hk,
        pure_eq_ok]
    · refine ⟨fun s => ?_, fun s => ?_, fun s => ?_, hnd, hs.ndPieces, ?_, ?_⟩
      · dsimp only; have := hm s; grind
      · dsimp only; grind
      · dsimp only; grind
      · dsimp only; have := hs.lenPawns; omega
      · dsimp only; have := hs.len; omega
  · have htq := mq ho
    have htp' : t ≠ pawnOf (!w) := fun e => d1 (e ▸ ho)
    have htk' : t ≠ kingOf (!w) := fun e => d3 (e ▸ ho)
    have htp : m.to ∉ en.pawns := fun hm => by
      have e := (hs.ok.pawn_cell hm).2
      rw [htv] at e; cases e; exact htp' rfl
    have htk : m.to ≠ en.king := fun hm => by
      have e := hs.ok.king_cell.2
      rw [← hm, htv] at e; cases e; exact htk' rfl
    obtain ⟨l', hk, hm, hnd, hlen⟩ := kill_spec "enemyPieces" htq hs.ndPieces
    refine ⟨{ en with pieces := l' }, ?_, ?_⟩
    · have e0 : (t != 0) = true := by simpa using officer_ne_zero ho
      have e1 : (t != kingOf (!w)) = true := by simpa using htk'
      have e2 : (t == pawnOf (!w)) = false := by simpa using htp'
      simp only [mmCapture, bget_eq, htv, ok_bind, e0, if_true, king_code, e1, pawn_code, e2, Bool.false_eq_true,
        if_false, hk, pure_eq_ok]
    · refine ⟨fun s => ?_, fun s => ?_, fun s => ?_, hs.ndPawns, hnd, hs.lenPawns, ?_⟩
      · dsimp only; grind
      · dsimp only; have := hm s; grind
      · dsimp only; grind
      · dsimp only; have := hs.len; omega

/-- a rook (or any officer) of the side steps to an empty / enemy square: the list update -/
theorem listSpec_officer {B : Array Nat} {cur : Side} {w : Bool} {frm to v t : Nat}
    (hs : SideInv B cur w) (hf : frm ∈ sq88) (hv : B[frm]? = some v) (hvo : v ∈ officersOf w)
    (htv : B[to]? = some t) (hnot : ¬ Man w t) :
    ListSpec cur { cur with pieces := replaceFirst cur.pieces frm to } w frm to v := by
  obtain ⟨htp, htq, htk⟩ := hs.ok.not_mem_of_not_man htv hnot
  obtain ⟨_, mq, _⟩ := hs.ok.mem_of_man hf hv
  have d1 := pawnOf_not_officer w w
  have d3 := kingOf_not_officer w w
  have hfq := mq hvo
  have hvp : v ≠ pawnOf w := fun e => d1 (e ▸ hvo)
  have hvk : v ≠ kingOf w := fun e => d3 (e ▸ hvo)
  have hfp : frm ∉ cur.pawns := fun hm => by
    have e := (hs.ok.pawn_cell hm).2
    rw [hv] at e; exact hvp (Option.some.inj e)
  have hfk : frm ≠ cur.king := fun hm => by
    have e := hs.ok.king_cell.2
    rw [← hm, hv] at e; exact hvk (Option.some.inj e)
  have hm := replaceFirst_mem (b := to) hfq hs.ndPieces
  refine ⟨fun s => ?_, fun s => ?_, fun s => ?_, hs.ndPawns, ?_, hs.lenPawns, ?_⟩
  · dsimp only; grind
  · dsimp only; have := hm s; grind
  · dsimp only; grind
  · exact replaceFirst_nodup hfq hs.ndPieces htq
  · dsimp only; rw [replaceFirst_length]; exact hs.len

/-- the king of the side steps to an empty / enemy square: the list update -/
theorem listSpec_king {B : Array Nat} {cur : Side} {w : Bool} {frm to t : Nat}
    (hs : SideInv B cur w) (hf : frm ∈ sq88) (hv : B[frm]? = some (kingOf w))
    (htv : B[to]? = some t) (hnot : ¬ Man w t) :
    ListSpec cur { cur with king := to } w frm to (kingOf w) := by
  obtain ⟨htp, htq, htk⟩ := hs.ok.not_mem_of_not_man htv hnot
  obtain ⟨_, _, mk⟩ := hs.ok.mem_of_man hf hv
  have d2 := pawnOf_ne_kingOf w w
  have d3 := kingOf_not_officer w w
  have hfk := mk rfl
  have hfp : frm ∉ cur.pawns := fun hm => by
    have e := (hs.ok.pawn_cell hm).2
    rw [hv] at e; exact d2 (Option.some.inj e).symm
  have hfq : frm ∉ cur.pieces := fun hm => by
    obtain ⟨o, ho, e⟩ := (hs.ok.piece_cell hm).2
    rw [hv] at e; exact d3 ((Option.some.inj e) ▸ ho)
  refine ⟨fun s => ?_, fun s => ?_, fun s => ?_, hs.ndPawns, hs.ndPieces, hs.lenPawns, hs.len⟩
  · dsimp only; grind
  · dsimp only; grind
  · dsimp only; grind

/-- a man of the other colour moves between two squares not holding this side's men -/
theorem listSpec_quiet {B : Array Nat} {en : Side} {w : Bool} {frm to v v' : Nat}
    (hs : SideInv B en (!w)) (hv : B[frm]? = some v) (hman : Man w v) (htv : B[to]? = some 0)
    (hv' : Man w v') : ListSpec en en (!w) frm to v' := by
  have hnv : ¬ Man (!w) v := fun h => man_not_other h (by simpa using hman)
  have hnv' : ¬ Man (!w) v' := fun h => man_not_other h (by simpa using hv')
  obtain ⟨hfp, hfq, hfk⟩ := hs.ok.not_mem_of_not_man hv hnv
  obtain ⟨n1, n2, n3⟩ := not_man_facts hnv'
  have hnt : ¬ Man (!w) 0 := fun h => man_ne_zero h rfl
  obtain ⟨htp, htq, htk⟩ := hs.ok.not_mem_of_not_man htv hnt
  refine ⟨fun s => ?_, fun s => ?_, fun s => ?_, hs.ndPawns, hs.ndPieces, hs.lenPawns, hs.len⟩ <;> grind

/-- `mmBoard` without promotion and without en-passant removal -/
theorem board_plain {B : Array Nat} {en : Side} {m : Move} {ep cc fp : Nat} (hsz : B.size = 128)
    (hf : m.frm < 128) (ht : m.to < 128) (h0 : m.promo = 0) (hfp : B[m.frm]? = some fp)
    (hnep : ¬ (ep = m.to ∧ fp = Pawn ||| cc)) :
    mmBoard B en m ep cc = .ok ((B.setIfInBounds m.to fp).setIfInBounds m.frm 0, en) := by
  have hcond : (ep == m.to && fp == Pawn ||| cc) = false := by
    cases h1 : (ep == m.to) <;> cases h2 : (fp == Pawn ||| cc) <;> simp_all
  simp only [mmBoard, h0, beq_self_eq_true, if_true, bget_eq, hfp, ok_bind, bset, hsz, ht, hf,
    Array.size_setIfInBounds, pure_eq_ok, hcond, Bool.false_eq_true, if_false]

/-- `mmBoard` for a promotion -/
theorem board_promo {B : Array Nat} {en : Side} {m : Move} {ep cc : Nat} (hsz : B.size = 128)
    (hf : m.frm < 128) (ht : m.to < 128) (hk : m.promo ≠ 0) :
    mmBoard B en m ep cc = .ok ((B.setIfInBounds m.to (m.promo ||| cc)).setIfInBounds m.frm 0, en) := by
  have hk' : (m.promo == 0) = false := by simpa using hk
  simp only [mmBoard, hk', Bool.false_eq_true, if_false, bset, hsz, ht, hf, Array.size_setIfInBounds, if_true,
    ok_bind, pure_eq_ok]

end Magog.MM
