import Magog.Spec.FenInv

/-! Helper lemmas for property C08 (FEN loading is total and sound). -/

set_option linter.unusedSimpArgs false

namespace Magog.FenLemmas
open Magog Magog.Model Magog.FenSpec

/-! ### small facts -/

theorem getD_set (b : Array Nat) (sq v i : Nat) (h : sq < b.size) :
    (b.setIfInBounds sq v).getD i 0 = if i = sq then v else b.getD i 0 := by
  simp only [Array.getD_eq_getD_getElem?, Array.getElem?_setIfInBounds]
  by_cases hi : i = sq
  · subst hi; simp [h]
  · have : ¬ sq = i := fun e => hi e.symm
    simp [hi, this]

/-- the twelve piece codes -/
def codes12 : List Nat :=
  [Gen.WPawn, Gen.WKnight, Gen.WBishop, Gen.WRook, Gen.WQueen, Gen.WKing,
   Gen.BPawn, Gen.BKnight, Gen.BBishop, Gen.BRook, Gen.BQueen, Gen.BKing]

theorem charToPiece_codes (c : Nat) : charToPiece c = 0 ∨ charToPiece c ∈ codes12 := by
  unfold charToPiece
  repeat' split
  all_goals simp [codes12]

/-- the loader's placement step as a pure function -/
def placePure (p : Position) (sq pc : Nat) : Position :=
  { p with
    board := p.board.setIfInBounds sq pc
    blackKing := if pc = Gen.BKing then sq else p.blackKing
    whiteKing := if pc = Gen.WKing then sq else p.whiteKing
    whitePawns := if pc = Gen.WPawn then p.whitePawns ++ [sq] else p.whitePawns
    blackPawns := if pc = Gen.BPawn then p.blackPawns ++ [sq] else p.blackPawns
    whitePieces := if pc ∈ whitePieceCodes then p.whitePieces ++ [sq] else p.whitePieces
    blackPieces := if pc ∈ blackPieceCodes then p.blackPieces ++ [sq] else p.blackPieces }

theorem fenPlace_ok (p : Position) (sq pc : Nat) (hc : pc ∈ codes12) (hs : p.board.size = 128)
    (hsq : sq < 128) (hr : hasRoomFor p pc = true) : fenPlace p sq pc = .ok (placePure p sq pc) := by
  simp only [codes12, List.mem_cons, List.not_mem_nil, or_false] at hc
  rcases hc with rfl | rfl | rfl | rfl | rfl | rfl | rfl | rfl | rfl | rfl | rfl | rfl
  all_goals
    simp [hasRoomFor, Position.side, WhiteBit, Colorless, King, Pawn, Gen.WhitePieceBit, Gen.ColorlessPiece,
      Gen.King, Gen.Pawn, Gen.WPawn, Gen.WKnight, Gen.WBishop, Gen.WRook, Gen.WQueen, Gen.WKing,
      Gen.BPawn, Gen.BKnight, Gen.BBishop, Gen.BRook, Gen.BQueen, Gen.BKing] at hr
    simp [fenPlace, bset, hs, hsq, placePure, appendCap, WhiteBit, Gen.WhitePieceBit, whitePieceCodes, blackPieceCodes,
      Gen.WPawn, Gen.WKnight, Gen.WBishop, Gen.WRook, Gen.WQueen, Gen.WKing,
      Gen.BPawn, Gen.BKnight, Gen.BBishop, Gen.BRook, Gen.BQueen, Gen.BKing, bind, Except.bind, pure, Except.pure]
    try rw [if_pos (by omega)]

theorem room_spec (p : Position) (pc : Nat) (hc : pc ∈ codes12) (hr : hasRoomFor p pc = true) :
    (pc = Gen.WPawn → p.whitePawns.length < pawnCap ∧ p.whitePawns.length + p.whitePieces.length < pieceCap) ∧
    (pc ∈ whitePieceCodes → p.whitePawns.length + p.whitePieces.length < pieceCap) ∧
    (pc = Gen.BPawn → p.blackPawns.length < pawnCap ∧ p.blackPawns.length + p.blackPieces.length < pieceCap) ∧
    (pc ∈ blackPieceCodes → p.blackPawns.length + p.blackPieces.length < pieceCap) := by
  simp only [codes12, List.mem_cons, List.not_mem_nil, or_false] at hc
  rcases hc with rfl | rfl | rfl | rfl | rfl | rfl | rfl | rfl | rfl | rfl | rfl | rfl
  all_goals
    simp [hasRoomFor, Position.side, WhiteBit, Colorless, King, Pawn, Gen.WhitePieceBit, Gen.ColorlessPiece,
      Gen.King, Gen.Pawn, Gen.WPawn, Gen.WKnight, Gen.WBishop, Gen.WRook, Gen.WQueen, Gen.WKing,
      Gen.BPawn, Gen.BKnight, Gen.BBishop, Gen.BRook, Gen.BQueen, Gen.BKing] at hr
    simp [whitePieceCodes, blackPieceCodes, Gen.WPawn, Gen.WKnight, Gen.WBishop, Gen.WRook, Gen.WQueen, Gen.WKing,
      Gen.BPawn, Gen.BKnight, Gen.BBishop, Gen.BRook, Gen.BQueen, Gen.BKing, hr]

theorem pawn_code (pc : Nat) (hc : pc ∈ codes12) :
    (pc &&& Colorless == Pawn) = true ↔ (pc = Gen.WPawn ∨ pc = Gen.BPawn) := by
  simp only [codes12, List.mem_cons, List.not_mem_nil, or_false] at hc
  rcases hc with rfl | rfl | rfl | rfl | rfl | rfl | rfl | rfl | rfl | rfl | rfl | rfl <;> decide

/-- Invariant of the placement scan. `K` = number of the rank being filled plus one (ranks `≥ K` are
    complete), `f` = file counter: every non-empty slot lies in the already scanned region. -/
structure PInv (K f : Nat) (p : Position) : Prop where
  size : p.board.size = 128
  region : ∀ i, p.board.getD i 0 ≠ 0 → i < 128 ∧ i % 16 < 8 ∧ (K ≤ i / 16 ∨ (i / 16 + 1 = K ∧ i % 16 < f))
  codes : ∀ i, p.board.getD i 0 = 0 ∨ p.board.getD i 0 ∈ codes12
  wp : ∀ i, i ∈ p.whitePawns ↔ p.board.getD i 0 = Gen.WPawn
  bp : ∀ i, i ∈ p.blackPawns ↔ p.board.getD i 0 = Gen.BPawn
  wpc : ∀ i, i ∈ p.whitePieces ↔ p.board.getD i 0 ∈ whitePieceCodes
  bpc : ∀ i, i ∈ p.blackPieces ↔ p.board.getD i 0 ∈ blackPieceCodes
  wpN : p.whitePawns.Nodup
  bpN : p.blackPawns.Nodup
  wpcN : p.whitePieces.Nodup
  bpcN : p.blackPieces.Nodup
  wpLen : p.whitePawns.length ≤ pawnCap
  bpLen : p.blackPawns.length ≤ pawnCap
  wLen : p.whitePawns.length + p.whitePieces.length ≤ pieceCap
  bLen : p.blackPawns.length + p.blackPieces.length ≤ pieceCap
  wk : (∃ i, p.board.getD i 0 = Gen.WKing) → p.board.getD p.whiteKing 0 = Gen.WKing
  bk : (∃ i, p.board.getD i 0 = Gen.BKing) → p.board.getD p.blackKing 0 = Gen.BKing
  backPawn : ∀ i, (p.board.getD i 0 = Gen.WPawn ∨ p.board.getD i 0 = Gen.BPawn) → i / 16 ≠ 0 ∧ i / 16 ≠ 7

theorem PInv.mono {K f f' p} (h : PInv K f p) (hf : f ≤ f') : PInv K f' p :=
  { h with region := fun i hi => by have := h.region i hi; omega }

theorem PInv.nextRank {K p} (h : PInv K 8 p) (hK : 1 ≤ K) : PInv (K - 1) 0 p :=
  { h with region := fun i hi => by have := h.region i hi; omega }

theorem PInv_empty : PInv 8 0 emptyPosition := by
  have hb : ∀ i, emptyPosition.board.getD i 0 = 0 := by
    intro i
    simp only [emptyPosition, Array.getD_eq_getD_getElem?, Array.getElem?_replicate]
    split <;> rfl
  constructor
  all_goals first
    | (simp [emptyPosition]; done)
    | (simp [hb, codes12, whitePieceCodes, blackPieceCodes, Gen.WPawn, Gen.WKnight, Gen.WBishop, Gen.WRook,
        Gen.WQueen, Gen.WKing, Gen.BPawn, Gen.BKnight, Gen.BBishop, Gen.BRook, Gen.BQueen, Gen.BKing]; done)
    | (simp [hb, codes12, whitePieceCodes, blackPieceCodes, Gen.WPawn, Gen.WKnight, Gen.WBishop, Gen.WRook,
        Gen.WQueen, Gen.WKing, Gen.BPawn, Gen.BKnight, Gen.BBishop, Gen.BRook, Gen.BQueen, Gen.BKing]; simp [emptyPosition])

end Magog.FenLemmas
