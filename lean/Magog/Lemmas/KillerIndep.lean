import Magog.Model.MoveGen
import Magog.Model.Start
import Magog.Props.C18
import Batteries.Data.List.Basic

/-! Killer-table independence of move generation.

The killer table (`Killers`) is read only by `probeKiller` (through `quiet`), and the value read ends up
only in the `ranking` field of the generated `RMove`. Hence *which* moves are generated (and their order
and `tactical` flags) does not depend on the table, and neither does whether generation panics, as long
as the table has its allocated size (`killerSlot_total`).

Method: a relation `MR T R x y` between two model computations saying "if `x` succeeds with `a` then
(1) under the side condition `T` also `y` succeeds, and (2) any successful result `b` of `y` is
`R`-related to `a`". It is closed under `pure`, `bind`, `if`, `flatMapM'`, `filterM'` (for a predicate
that looks only at `.mov`), so one pass over the generators gives both independence and totality. -/

namespace Magog.Lemmas.KillerIndep
open Magog Magog.Model

/-- two ranked moves that differ at most in their ranking -/
def RSim (a b : RMove) : Prop := a.mov = b.mov ∧ a.tactical = b.tactical

/-- two move lists with the same moves in the same order with the same tactical flags
    (equivalent to `List.Forall₂ RSim`, see `LSim_iff_forall₂`) -/
def LSim (l l' : List RMove) : Prop :=
  l.map (·.mov) = l'.map (·.mov) ∧ l.map (·.tactical) = l'.map (·.tactical)

theorem RSim.refl (a : RMove) : RSim a a := ⟨rfl, rfl⟩

theorem LSim.refl (l : List RMove) : LSim l l := ⟨rfl, rfl⟩

theorem LSim.nil : LSim [] [] := ⟨rfl, rfl⟩

theorem LSim.cons {a b : RMove} {l l' : List RMove} (h : RSim a b) (hl : LSim l l') :
    LSim (a :: l) (b :: l') := by
  simp only [LSim, List.map_cons, h.1, h.2, hl.1, hl.2, and_self]

theorem LSim.single {a b : RMove} (h : RSim a b) : LSim [a] [b] := LSim.cons h LSim.nil

theorem LSim.append {l₁ l₁' l₂ l₂' : List RMove} (h₁ : LSim l₁ l₁') (h₂ : LSim l₂ l₂') :
    LSim (l₁ ++ l₂) (l₁' ++ l₂') := by
  simp only [LSim, List.map_append, h₁.1, h₁.2, h₂.1, h₂.2, and_self]

theorem LSim_iff_forall₂ (l l' : List RMove) : LSim l l' ↔ List.Forall₂ RSim l l' := by
  constructor
  · intro h
    induction l generalizing l' with
    | nil =>
      cases l' with
      | nil => exact .nil
      | cons b l' => simp [LSim] at h
    | cons a l ih =>
      cases l' with
      | nil => simp [LSim] at h
      | cons b l' =>
        simp only [LSim, List.map_cons, List.cons.injEq] at h
        exact .cons ⟨h.1.1, h.2.1⟩ (ih l' ⟨h.1.2, h.2.2⟩)
  · intro h
    induction h with
    | nil => exact LSim.nil
    | cons h _ ih => exact LSim.cons h ih

/-! ### the relation on computations -/

/-- if `x` succeeds then (under `T`) so does `y`, and successful results are `R`-related -/
def MR (T : Prop) {α : Type} (R : α → α → Prop) (x y : M α) : Prop :=
  ∀ a, x = .ok a → (T → ∃ b, y = .ok b) ∧ (∀ b, y = .ok b → R a b)

section MR
variable {T : Prop} {α β : Type} {R : α → α → Prop} {S : β → β → Prop}

theorem MR.pure {a b : α} (h : R a b) : MR T R (pure a) (pure b) := by
  intro a' ha
  cases ha
  refine ⟨fun _ => ⟨b, rfl⟩, ?_⟩
  intro b' hb
  cases hb
  exact h

theorem MR.refl (hR : ∀ a, R a a) (x : M α) : MR T R x x := by
  intro a ha
  refine ⟨fun _ => ⟨a, ha⟩, ?_⟩
  intro b hb
  rw [ha] at hb
  cases hb
  exact hR a

theorem MR.throw (e : Panic) (y : M α) : MR T R (throw e) y := by
  intro a ha
  cases ha

theorem MR.bind {x y : M α} {f g : α → M β} (hx : MR T R x y)
    (hf : ∀ a b, R a b → MR T S (f a) (g b)) : MR T S (x >>= f) (y >>= g) := by
  intro c hc
  cases hxa : x with
  | error e => simp [hxa, Bind.bind, Except.bind] at hc
  | ok a =>
    simp only [hxa, Bind.bind, Except.bind] at hc
    obtain ⟨hx1, hx2⟩ := hx a hxa
    constructor
    · intro hT
      obtain ⟨b, hb⟩ := hx1 hT
      obtain ⟨d, hd⟩ := (hf a b (hx2 b hb) c hc).1 hT
      exact ⟨d, by simp only [hb, Bind.bind, Except.bind, hd]⟩
    · intro d hd
      cases hyb : y with
      | error e => simp [hyb, Bind.bind, Except.bind] at hd
      | ok b =>
        simp only [hyb, Bind.bind, Except.bind] at hd
        exact (hf a b (hx2 b hyb) c hc).2 d hd

/-- a common (table-independent) first step -/
theorem MR.bind_same {x : M α} {f g : α → M β} (hf : ∀ a, MR T S (f a) (g a)) :
    MR T S (x >>= f) (x >>= g) :=
  MR.bind (R := Eq) (MR.refl (fun _ => rfl) x) (fun a _ h => h ▸ hf a)

theorem MR.ite {c : Prop} [Decidable c] {a a' b b' : M α} (h1 : c → MR T R a b)
    (h2 : ¬c → MR T R a' b') : MR T R (if c then a else a') (if c then b else b') := by
  by_cases h : c
  · simp only [h, if_true]; exact h1 h
  · simp only [h, if_false]; exact h2 h

end MR

theorem MR.flatMapM' {T : Prop} {α : Type} {f g : α → M (List RMove)}
    (h : ∀ x, MR T LSim (f x) (g x)) (l : List α) :
    MR T LSim (Model.flatMapM' f l) (Model.flatMapM' g l) := by
  induction l with
  | nil => exact MR.pure LSim.nil
  | cons x xs ih =>
    simp only [Model.flatMapM']
    exact MR.bind (h x) fun a b hab => MR.bind ih fun c d hcd => MR.pure (LSim.append hab hcd)

/-- filtering with a predicate that looks only at `.mov` -/
theorem MR.filterM' {T : Prop} (f : Move → M Bool) (l l' : List RMove) (h : LSim l l') :
    MR T LSim (Model.filterM' (fun rm => f rm.mov) l) (Model.filterM' (fun rm => f rm.mov) l') := by
  induction l generalizing l' with
  | nil =>
    cases l' with
    | nil => exact MR.pure LSim.nil
    | cons b l' => simp [LSim] at h
  | cons a l ih =>
    cases l' with
    | nil => simp [LSim] at h
    | cons b l' =>
      simp only [LSim, List.map_cons, List.cons.injEq] at h
      have hl : LSim l l' := ⟨h.1.2, h.2.2⟩
      have hab : RSim a b := ⟨h.1.1, h.2.1⟩
      simp only [Model.filterM']
      rw [hab.1]
      refine MR.bind_same fun t => MR.bind (ih l' hl) fun r r' hr => MR.pure ?_
      cases t
      · simpa using hr
      · simpa using LSim.cons hab hr

/-! ### the generators -/

section Gen
variable (kt kt' : Killers)

/-- the side condition for totality: the second table has its allocated size -/
local notation "Full" => (Array.size kt' = Gen.killerMovesMaxPly)

theorem quiet_ok {kt : Killers} {ply : Int} {m : Move} {a : RMove} (h : quiet kt ply m = .ok a) :
    a.mov = m ∧ a.tactical = false := by
  unfold quiet at h
  cases hp : probeKiller kt m ply with
  | error e => simp [hp, Bind.bind, Except.bind] at h
  | ok r =>
    simp only [hp, Bind.bind, Except.bind, Pure.pure, Except.pure, Except.ok.injEq] at h
    subst h
    exact ⟨rfl, rfl⟩

theorem quiet_total {kt : Killers} (hk : kt.size = Gen.killerMovesMaxPly) (ply : Int) (m : Move) :
    ∃ a, quiet kt ply m = .ok a := by
  obtain ⟨k, hk⟩ := Props.C18.killerSlot_total kt hk ply
  unfold quiet probeKiller
  simp only [hk, Bind.bind, Except.bind]
  by_cases h1 : (m == k.1) = true
  · simp only [h1, if_true, Pure.pure, Except.pure]; exact ⟨_, rfl⟩
  · by_cases h2 : (m == k.2) = true
    · simp only [h1, h2, if_true, Pure.pure, Except.pure]; exact ⟨_, rfl⟩
    · simp only [h1, h2, Pure.pure, Except.pure]; exact ⟨_, rfl⟩

theorem quiet_MR (ply : Int) (m : Move) : MR Full RSim (quiet kt ply m) (quiet kt' ply m) := by
  intro a ha
  refine ⟨fun hT => quiet_total hT ply m, ?_⟩
  intro b hb
  have h1 := quiet_ok ha
  have h2 := quiet_ok hb
  exact ⟨h1.1.trans h2.1.symm, h1.2.trans h2.2.symm⟩

/-! A small structural prover: peel matching `bind`/`if`/`pure` layers off both computations. The `do`
    elaborator duplicates continuations into `if` branches (join points), so the unfolded generators are
    trees; the steps below walk both trees in lockstep. -/

theorem LSim.ite {c : Prop} [Decidable c] {a a' b b' : List RMove} (h1 : c → LSim a b)
    (h2 : ¬c → LSim a' b') : LSim (if c then a else a') (if c then b else b') := by
  by_cases h : c
  · simp only [h, if_true]; exact h1 h
  · simp only [h, if_false]; exact h2 h

/-- close a goal `LSim _ _` / `RSim _ _` from hypotheses about the parts -/
macro "mr_leaf" : tactic => `(tactic|
  repeat (first
    | assumption
    | with_reducible exact LSim.refl _
    | with_reducible exact RSim.refl _
    | with_reducible apply LSim.cons
    | with_reducible apply LSim.append
    | (with_reducible apply LSim.ite) <;> intro _))

/-- table-dependent first steps (extended below as the lemmas become available) -/
syntax "mr_bind" : tactic
macro_rules | `(tactic| mr_bind) => `(tactic| (with_reducible apply MR.bind (quiet_MR _ _ _ _)); intro _ _ _)

macro "mr_step" : tactic => `(tactic| first
  | with_reducible exact MR.throw _ _
  | with_reducible exact MR.refl LSim.refl _
  | with_reducible exact MR.refl RSim.refl _
  | (with_reducible apply MR.pure; mr_leaf; done)
  | (with_reducible apply MR.ite) <;> intro _
  | mr_bind
  | (with_reducible apply MR.bind_same; intro _)
  | (with_reducible apply MR.flatMapM'; intro _))

theorem moveOrCapture_MR (ply : Int) (frm to attacker attacked : Nat) :
    MR Full RSim (moveOrCapture kt ply frm to attacker attacked)
      (moveOrCapture kt' ply frm to attacker attacked) := by
  unfold moveOrCapture
  exact MR.ite (fun _ => quiet_MR kt kt' ply _) (fun _ => MR.refl RSim.refl _)

macro_rules
  | `(tactic| mr_bind) =>
    `(tactic| (with_reducible apply MR.bind (moveOrCapture_MR _ _ _ _ _ _ _)); intro _ _ _)

theorem pawnPushes_MR (ply : Int) (frm to promoRank : Nat) :
    MR Full LSim (pawnPushes kt ply frm to promoRank) (pawnPushes kt' ply frm to promoRank) := by
  unfold pawnPushes
  repeat' mr_step

macro_rules
  | `(tactic| mr_bind) =>
    `(tactic| (with_reducible apply MR.bind (pawnPushes_MR _ _ _ _ _ _)); intro _ _ _)

theorem pawnGen_MR (p : Position) (c : Ctx) (frm : Nat) :
    MR Full LSim (pawnGen p c kt frm) (pawnGen p c kt' frm) := by
  unfold pawnGen
  simp only [pure_bind]
  repeat' mr_step

theorem knightGen_MR (p : Position) (c : Ctx) (frm : Nat) :
    MR Full LSim (knightGen p c kt frm) (knightGen p c kt' frm) := by
  unfold knightGen
  repeat' mr_step

theorem slideDir_MR (board : Array Nat) (c : Ctx) (ply : Int) (frm attacker dir fuel to : Nat) :
    MR Full LSim (slideDir board c kt ply frm attacker dir fuel to)
      (slideDir board c kt' ply frm attacker dir fuel to) := by
  induction fuel generalizing to with
  | zero =>
    simp only [slideDir]
    exact MR.throw _ _
  | succ fuel ih =>
    simp only [slideDir]
    repeat' (first | mr_step | (apply MR.bind (ih _); intro _ _ _))

theorem slideGen_MR (p : Position) (c : Ctx) (frm : Nat) (dirs : List Nat) :
    MR Full LSim (slideGen p c kt frm dirs) (slideGen p c kt' frm dirs) := by
  unfold slideGen
  exact MR.bind_same fun a => MR.flatMapM' (fun d => slideDir_MR kt kt' _ _ _ _ _ _ _ _) _

theorem pieceGen_MR (p : Position) (c : Ctx) (frm : Nat) :
    MR Full LSim (pieceGen p c kt frm) (pieceGen p c kt' frm) := by
  unfold pieceGen
  refine MR.bind_same fun pc => ?_
  refine MR.ite (fun _ => knightGen_MR kt kt' p c frm) (fun _ => ?_)
  refine MR.ite (fun _ => slideGen_MR kt kt' p c frm _) (fun _ => ?_)
  refine MR.ite (fun _ => slideGen_MR kt kt' p c frm _) (fun _ => ?_)
  refine MR.ite (fun _ => slideGen_MR kt kt' p c frm _) (fun _ => ?_)
  exact MR.throw _ _

theorem kingGen_MR (p : Position) (c : Ctx) :
    MR Full LSim (kingGen p c kt) (kingGen p c kt') := by
  unfold kingGen
  repeat' mr_step

theorem castleGen_MR (p : Position) (c : Ctx) :
    MR Full LSim (castleGen p c kt) (castleGen p c kt') := by
  unfold castleGen
  simp only [pure_bind]
  repeat' mr_step

theorem genPseudo_MR (p : Position) : MR Full LSim (genPseudo kt p) (genPseudo kt' p) := by
  unfold genPseudo
  dsimp only
  refine MR.bind (MR.flatMapM' (pawnGen_MR kt kt' p _) _) fun a a' ha => ?_
  refine MR.bind (MR.flatMapM' (pieceGen_MR kt kt' p _) _) fun b b' hb => ?_
  refine MR.bind (kingGen_MR kt kt' p _) fun k k' hk => ?_
  refine MR.bind (castleGen_MR kt kt' p _) fun cs cs' hcs => ?_
  exact MR.pure (LSim.append (LSim.append (LSim.append ha hb) hk) hcs)

theorem generateMoves_MR (p : Position) : MR Full LSim (generateMoves kt p) (generateMoves kt' p) := by
  unfold generateMoves
  exact MR.bind (genPseudo_MR kt kt' p) fun ms ms' h => MR.filterM' (isLegal p) ms ms' h

end Gen

/-! ### headline statements -/

/-- Pseudo-legal generation yields the same moves in the same order with the same tactical flags for any
    two killer tables; only rankings may differ. -/
theorem genPseudo_movs_indep (kt kt' : Killers) (p : Position) (ms ms' : List RMove) :
    genPseudo kt p = .ok ms → genPseudo kt' p = .ok ms' →
    ms.map (·.mov) = ms'.map (·.mov) ∧ ms.map (·.tactical) = ms'.map (·.tactical) :=
  fun h h' => (genPseudo_MR kt kt' p ms h).2 ms' h'

/-- The same for legal generation (the legality filter `isLegal p rm.mov` looks only at `.mov`). -/
theorem generateMoves_movs_indep (kt kt' : Killers) (p : Position) (ms ms' : List RMove) :
    generateMoves kt p = .ok ms → generateMoves kt' p = .ok ms' →
    ms.map (·.mov) = ms'.map (·.mov) ∧ ms.map (·.tactical) = ms'.map (·.tactical) :=
  fun h h' => (generateMoves_MR kt kt' p ms h).2 ms' h'

/-- The killer table never influences which moves are generated. -/
def KillerIndep : Prop :=
  ∀ kt kt' p ms ms', generateMoves kt p = .ok ms → generateMoves kt' p = .ok ms' →
    ms.map (·.mov) = ms'.map (·.mov)

theorem killerIndep : KillerIndep :=
  fun kt kt' p ms ms' h h' => (generateMoves_movs_indep kt kt' p ms ms' h h').1

/-- Whether generation panics does not depend on the table contents once the table has its allocated
    size. (Only the size of the *second* table is actually used: see `generateMoves_ok_indep'`.) -/
theorem generateMoves_ok_indep' (kt kt' : Killers) (hk' : kt'.size = Gen.killerMovesMaxPly) (p : Position) :
    (∃ ms, generateMoves kt p = .ok ms) → (∃ ms', generateMoves kt' p = .ok ms') :=
  fun ⟨ms, h⟩ => (generateMoves_MR kt kt' p ms h).1 hk'

set_option linter.unusedVariables false in
/-- Totality w.r.t. the table, as specified (with both size hypotheses; `hk` is not needed). -/
theorem generateMoves_ok_indep (kt kt' : Killers) (hk : kt.size = Gen.killerMovesMaxPly)
    (hk' : kt'.size = Gen.killerMovesMaxPly) (p : Position) :
    (∃ ms, generateMoves kt p = .ok ms) → (∃ ms', generateMoves kt' p = .ok ms') :=
  generateMoves_ok_indep' kt kt' hk' p

/-- the same for the pseudo-legal generator -/
theorem genPseudo_ok_indep (kt kt' : Killers) (hk' : kt'.size = Gen.killerMovesMaxPly) (p : Position) :
    (∃ ms, genPseudo kt p = .ok ms) → (∃ ms', genPseudo kt' p = .ok ms') :=
  fun ⟨ms, h⟩ => (genPseudo_MR kt kt' p ms h).1 hk'

/-! ### non-vacuity: the start position with the empty table and with a table holding Ng1-f3 as first
    killer of the start ply. Both generations succeed (kernel evaluation), the theorems apply, and the
    rankings really do differ (so "only rankings may differ" is not vacuous either). -/

/-- `Killers.empty` with Ng1-f3 stored as first killer at the start position's ply -/
def exampleKillers : Killers :=
  Killers.empty.setIfInBounds (killerIdx startPosition.ply)
    (⟨0x06, 0x25, 0, Gen.InvalidSquare⟩, Move.zero)

theorem exampleKillers_size : exampleKillers.size = Gen.killerMovesMaxPly := by
  simp [exampleKillers, Killers.empty]

/-- number of moves and sum of rankings of a successful generation -/
def okView (x : M (List RMove)) : Option (Nat × Int) :=
  match x with
  | .ok l => some (l.length, (l.map (·.ranking)).sum)
  | .error _ => none

theorem okView_some {x : M (List RMove)} {n : Nat} {r : Int} (h : okView x = some (n, r)) :
    ∃ l, x = .ok l ∧ l.length = n ∧ (l.map (·.ranking)).sum = r := by
  cases x with
  | error e => simp [okView] at h
  | ok l =>
    simp only [okView, Option.some.injEq, Prod.mk.injEq] at h
    exact ⟨l, rfl, h.1, h.2⟩

set_option maxRecDepth 100000 in
theorem start_empty_view : okView (generateMoves Killers.empty startPosition) = some (20, 0) := by
  decide +kernel

set_option maxRecDepth 100000 in
theorem start_example_view : okView (generateMoves exampleKillers startPosition) = some (20, 8000) := by
  decide +kernel

/-- `generateMoves_movs_indep` / `killerIndep` instantiated: same 20 moves, different rankings -/
example : ∃ ms ms', generateMoves Killers.empty startPosition = .ok ms ∧
    generateMoves exampleKillers startPosition = .ok ms' ∧ ms.length = 20 ∧
    ms.map (·.mov) = ms'.map (·.mov) ∧ ms.map (·.tactical) = ms'.map (·.tactical) ∧
    ms.map (·.ranking) ≠ ms'.map (·.ranking) := by
  obtain ⟨ms, h, hl, hr⟩ := okView_some start_empty_view
  obtain ⟨ms', h', _, hr'⟩ := okView_some start_example_view
  have hi := generateMoves_movs_indep _ _ _ ms ms' h h'
  refine ⟨ms, ms', h, h', hl, hi.1, hi.2, ?_⟩
  intro he
  rw [he, hr'] at hr
  exact absurd hr (by decide)

example : ∀ ms ms', generateMoves Killers.empty startPosition = .ok ms →
    generateMoves exampleKillers startPosition = .ok ms' → ms.map (·.mov) = ms'.map (·.mov) :=
  killerIndep _ _ _

/-- `generateMoves_ok_indep` instantiated: success with the empty table (kernel-evaluated) transfers to
    the modified table without evaluating it -/
example : ∃ ms', generateMoves exampleKillers startPosition = .ok ms' :=
  generateMoves_ok_indep Killers.empty exampleKillers Props.C18.killers_empty_size exampleKillers_size
    startPosition (let ⟨ms, h, _⟩ := okView_some start_empty_view; ⟨ms, h⟩)

/-- `genPseudo_movs_indep` instantiated (pseudo-legal generation on the start position succeeds since
    legal generation does) -/
example : ∃ ms ms', genPseudo Killers.empty startPosition = .ok ms ∧
    genPseudo exampleKillers startPosition = .ok ms' ∧
    ms.map (·.mov) = ms'.map (·.mov) ∧ ms.map (·.tactical) = ms'.map (·.tactical) := by
  have ok : ∀ kt, (∃ l, generateMoves kt startPosition = .ok l) → ∃ ms, genPseudo kt startPosition = .ok ms := by
    intro kt ⟨l, hl⟩
    unfold generateMoves at hl
    cases hg : genPseudo kt startPosition with
    | error e => simp [hg, Bind.bind, Except.bind] at hl
    | ok ms => exact ⟨ms, rfl⟩
  obtain ⟨ms, h⟩ := ok _ (let ⟨ms, h, _⟩ := okView_some start_empty_view; ⟨ms, h⟩)
  obtain ⟨ms', h'⟩ := ok _ (let ⟨ms, h, _⟩ := okView_some start_example_view; ⟨ms, h⟩)
  exact ⟨ms, ms', h, h', genPseudo_movs_indep _ _ _ ms ms' h h'⟩

end Magog.Lemmas.KillerIndep

