import Magog.Lemmas.CountNoPanic
import Magog.Props.C09
import Magog.Model.Eval

/-! Specification-level corollaries of C01 + C06: mate / stalemate detection, `countMoves`, the tactical
    generator, and perft, all against `Spec.legalMoves`. -/

set_option autoImplicit false

namespace Magog.LegalCount
open Magog Magog.Model Magog.Atk Magog.Geo Magog.Count Magog.MM Magog.GenPure Magog.GenPseudo
open Magog.LegalMoves Magog.CountInv Magog.CountNoPanic

variable {p : Position}

/-! ### no legal move ↔ the generator returns the empty list -/

theorem generate_nil_iff {kt : Killers} (hI : Inv p) (hS : OppSafe p) (hk : kt.size = Gen.killerMovesMaxPly) :
    generateMoves kt p = .ok [] ↔ (Spec.legalMoves (abs p)).isEmpty = true := by
  constructor
  · intro h
    have := legal_perm hI hS h
    rw [List.map_nil] at this
    rw [← this.isEmpty_eq]; rfl
  · intro h
    obtain ⟨ms, hms⟩ := generateMoves_ok (kt := kt) hI hS hk
    have hp := legal_perm hI hS hms
    rw [List.isEmpty_iff] at h
    rw [h] at hp
    have := hp.eq_nil
    rw [List.map_eq_nil_iff] at this
    rw [hms, this]

/-! ### `countMoves` -/

theorem countMoves_spec (hI : Inv p) (hS : OppSafe p) :
    countMoves p = .ok (Spec.legalMoves (abs p)).length := by
  obtain ⟨n, hn⟩ := countMoves_ok hI hS
  obtain ⟨ms, hms⟩ := generateMoves_ok (kt := Killers.empty) hI hS Props.C18.killers_empty_size
  have c := countOk_of_inv hI hS
  have h1 := countMoves_length c.size c.ep c.pawns c.capture c.king c.castle hms hn
  have h2 := (legal_perm hI hS hms).length_eq
  rw [List.length_map] at h2
  rw [hn, h1, h2]

/-! ### check, mate, stalemate -/

theorem inCheck_spec (hI : Inv p) :
    isCurrentKingUnderCheck p = .ok (Spec.inCheck (abs p).board (abs p).turn) :=
  Props.C09.C09_inCheck p hI.board hI.white hI.black

theorem isCheckMate_spec (hI : Inv p) (hS : OppSafe p) : isCheckMate p = .ok (Spec.isMated (abs p)) := by
  unfold isCheckMate Spec.isMated
  rw [inCheck_spec hI, ok_bind]
  cases Spec.inCheck (abs p).board (abs p).turn
  · simp only [andM_false, Bool.and_false]
  · simp only [andM_true, countMoves_spec hI hS, ok_bind, pure_eq_ok, Bool.and_true]
    generalize Spec.legalMoves (abs p) = l
    cases l <;> rfl

theorem terminalNodeScore_spec (hI : Inv p) (d : Int) :
    terminalNodeScore p d =
      .ok (if Spec.inCheck (abs p).board (abs p).turn then Gen.LostScore + d else (Gen.DrawScore : Int)) := by
  unfold terminalNodeScore
  rw [inCheck_spec hI, ok_bind, pure_eq_ok]

/-! ### the tactical generator -/

theorem tactical_flag {kt : Killers} {ps : List RMove} (hI : Inv p) (h : genPseudo kt p = .ok ps) :
    ∀ rm ∈ ps, rm.tactical = Spec.isTactical (abs p) (absMove rm.mov) := by
  intro rm hrm
  have hm := mem_view hrm
  rw [genPseudo_view_eq hI h] at hm
  exact ((genList_spec (env_of_inv hI Props.C18.killers_empty_size)).1 _ hm).2.1

theorem tactical_perm {ts : List RMove} (hI : Inv p) (hS : OppSafe p) (ht : generateTacticalMoves p = .ok ts) :
    (ts.map fun rm => absMove rm.mov).Perm
      ((Spec.legalMoves (abs p)).filter (Spec.isTactical (abs p))) := by
  obtain ⟨ms, hms⟩ := generateMoves_ok (kt := Killers.empty) hI hS Props.C18.killers_empty_size
  obtain ⟨ps, hps, hfil⟩ := generateMoves_inv hI hS hms
  have hrel : ts.map (·.mov) = (ms.filter (·.tactical)).map (·.mov) :=
    generate_tactical_rel (cellsOk_of_inv hI) hms ht
  have hflag : ∀ rm ∈ ms, rm.tactical = Spec.isTactical (abs p) (absMove rm.mov) := fun rm hrm =>
    tactical_flag hI hps rm (by rw [hfil] at hrm; exact (List.mem_filter.1 hrm).1)
  have e1 : (ts.map fun rm => absMove rm.mov) = (ts.map (·.mov)).map absMove := by
    rw [List.map_map]; simp only [Function.comp_def]
  have e2 : ((ms.filter (·.tactical)).map (·.mov)).map absMove =
      (ms.map fun rm => absMove rm.mov).filter (Spec.isTactical (abs p)) := by
    have hc : ms.filter (·.tactical) = ms.filter (fun rm => Spec.isTactical (abs p) (absMove rm.mov)) :=
      List.filter_congr hflag
    have h3 : (ms.filter (fun rm => Spec.isTactical (abs p) (absMove rm.mov))).map (fun rm => absMove rm.mov) =
        (ms.map fun rm => absMove rm.mov).filter (Spec.isTactical (abs p)) := by
      rw [List.filter_map]
      simp only [Function.comp_def]
    calc ((ms.filter (·.tactical)).map (·.mov)).map absMove
        = (ms.filter (·.tactical)).map (fun rm => absMove rm.mov) := by
          rw [List.map_map]; simp only [Function.comp_def]
      _ = (ms.filter (fun rm => Spec.isTactical (abs p) (absMove rm.mov))).map (fun rm => absMove rm.mov) :=
          congrArg _ hc
      _ = _ := h3
  rw [e1, hrel, e2]
  exact (legal_perm hI hS hms).filter _

theorem countTactical_spec (hI : Inv p) (hS : OppSafe p) :
    countTacticalMoves p = .ok ((Spec.legalMoves (abs p)).filter (Spec.isTactical (abs p))).length := by
  obtain ⟨n, hn⟩ := countTactical_ok hI hS
  obtain ⟨ts, hts⟩ := generateTacticalMoves_ok hI hS
  have c := tcountOk_of_inv hI hS
  have h1 := countTactical_length c.size c.ep c.pawns c.capture c.king hn hts
  have h2 := (tactical_perm hI hS hts).length_eq
  rw [List.length_map] at h2
  rw [hn, h1, h2]

/-! ### perft -/

theorem sumM'_eq_sum {α} {f : α → M Nat} {g : α → Nat} {l : List α} {n : Nat} (h : sumM' f l = .ok n)
    (hel : ∀ x ∈ l, ∀ k, f x = .ok k → k = g x) : n = (l.map g).sum := by
  induction l generalizing n with
  | nil =>
    simp only [sumM', pure_eq_ok, Except.ok.injEq] at h
    subst h; rfl
  | cons x xs ih =>
    simp only [sumM', bind_ok, pure_eq_ok, Except.ok.injEq] at h
    obtain ⟨a, ha, b, hb, rfl⟩ := h
    rw [List.map_cons, List.sum_cons, ← hel x List.mem_cons_self a ha,
      ← ih hb (fun y hy => hel y (List.mem_cons_of_mem _ hy))]

theorem paths_one (P : Spec.Pos) : Spec.paths P 1 = (Spec.legalMoves P).length := by
  simp only [Spec.paths]
  induction Spec.legalMoves P with
  | nil => rfl
  | cons a l ih => simp only [List.map_cons, List.sum_cons, ih, List.length_cons]; omega

/-- the common step of the perft-like recursions: a sum over the generated legal moves of a quantity that
    depends on the successor position only through its abstraction -/
theorem sum_over_legal {kt : Killers} {ms : List RMove} (hI : Inv p) (hS : OppSafe p)
    (hms : generateMoves kt p = .ok ms) {f : RMove → M Nat} {g : Spec.Pos → Nat} {n : Nat}
    (h : sumM' f ms = .ok n)
    (hel : ∀ rm ∈ ms, ∀ k, f rm = .ok k →
      ∃ q, makeMove p rm.mov = .ok (q, true) ∧ (Inv q → OppSafe q → k = g (abs q))) :
    n = ((Spec.legalMoves (abs p)).map fun sm => g (Spec.apply (abs p) sm)).sum := by
  obtain ⟨ps, hps, hfil⟩ := generateMoves_inv hI hS hms
  have h1 := sumM'_eq_sum (g := fun rm => g (Spec.apply (abs p) (absMove rm.mov))) h (by
    intro rm hrm k hk
    obtain ⟨q, hq, hkq⟩ := hel rm hrm k hk
    have hG : Generated p rm.mov := generated_of_mem hps (by rw [hfil] at hrm; exact (List.mem_filter.1 hrm).1)
    obtain ⟨hIq, hSq⟩ := Props.C02.makeMove_inv hI hS hG hq
    rw [hkq hIq hSq, makeMove_abs' hI hS hG hq])
  have h2 : (ms.map fun rm => g (Spec.apply (abs p) (absMove rm.mov))) =
      (ms.map fun rm => absMove rm.mov).map fun sm => g (Spec.apply (abs p) sm) := by
    rw [List.map_map]; simp only [Function.comp_def]
  rw [h1, h2]
  exact ((legal_perm hI hS hms).map _).sum_nat

theorem perft_succ_spec {kt : Killers} {cap : Nat} :
    ∀ (d idx : Nat) (p : Position) (n : Nat), Inv p → OppSafe p →
      perft kt cap (d + 1) idx p = .ok n → n = Spec.paths (abs p) (d + 1) := by
  intro d
  induction d with
  | zero =>
    intro idx p n hI hS h
    simp only [perft] at h
    rw [countMoves_spec hI hS] at h
    rw [paths_one]
    exact (Except.ok.inj h).symm
  | succ d ih =>
    intro idx p n hI hS h
    simp only [perft, bind_ok] at h
    obtain ⟨ms, hms, h⟩ := h
    rw [Spec.paths]
    refine sum_over_legal (g := fun Q => Spec.paths Q (d + 1)) hI hS hms h ?_
    intro rm _ k hk
    split at hk
    · simp [throw_eq_error] at hk
    · simp only [bind_ok] at hk
      obtain ⟨⟨q, b⟩, hq, hk⟩ := hk
      cases b
      · simp [throw_eq_error] at hk
      · simp only [Bool.not_true, Bool.false_eq_true, if_false] at hk
        exact ⟨q, hq, fun hIq hSq => ih _ q k hIq hSq hk⟩

theorem perft_spec {kt : Killers} {cap d idx n : Nat} (hI : Inv p) (hS : OppSafe p)
    (h : perft kt cap d idx p = .ok n) : n = Spec.paths (abs p) d := by
  cases d with
  | zero =>
    simp only [perft, pure_eq_ok, Except.ok.injEq] at h
    rw [← h]; rfl
  | succ d => exact perft_succ_spec d idx p n hI hS h

theorem perftTactical_succ_spec {kt : Killers} {cap : Nat} :
    ∀ (d idx : Nat) (p : Position) (n : Nat), Inv p → OppSafe p →
      perftTactical kt cap (d + 1) idx p = .ok n → n = Spec.tacticalPaths (abs p) d := by
  intro d
  induction d with
  | zero =>
    intro idx p n hI hS h
    simp only [perftTactical] at h
    rw [countTactical_spec hI hS] at h
    exact (Except.ok.inj h).symm
  | succ d ih =>
    intro idx p n hI hS h
    simp only [perftTactical, bind_ok] at h
    obtain ⟨ms, hms, h⟩ := h
    rw [Spec.tacticalPaths]
    refine sum_over_legal (g := fun Q => Spec.tacticalPaths Q d) hI hS hms h ?_
    intro rm _ k hk
    split at hk
    · simp [throw_eq_error] at hk
    · simp only [bind_ok] at hk
      obtain ⟨⟨q, b⟩, hq, hk⟩ := hk
      cases b
      · simp [throw_eq_error] at hk
      · simp only [Bool.not_true, Bool.false_eq_true, if_false] at hk
        exact ⟨q, hq, fun hIq hSq => ih _ q k hIq hSq hk⟩

theorem perftTactical_spec {kt : Killers} {cap d idx n : Nat} (hI : Inv p) (hS : OppSafe p)
    (h : perftTactical kt cap d idx p = .ok n) : n = Spec.tacticalPaths (abs p) (d - 1) := by
  cases d with
  | zero =>
    rw [perftTactical_zero] at h
    exact perftTactical_succ_spec 0 idx p n hI hS h
  | succ d => exact perftTactical_succ_spec d idx p n hI hS h

/-- the generator-tree count `pathsM` of C06 is the rules' path count -/
theorem pathsM_spec {kt : Killers} :
    ∀ (d : Nat) (p : Position) (n : Nat), Inv p → OppSafe p → pathsM kt d p = .ok n → n = Spec.paths (abs p) d := by
  intro d
  induction d with
  | zero =>
    intro p n _ _ h
    simp only [pathsM, pure_eq_ok, Except.ok.injEq] at h
    rw [← h]; rfl
  | succ d ih =>
    intro p n hI hS h
    simp only [pathsM, bind_ok] at h
    obtain ⟨ms, hms, h⟩ := h
    rw [Spec.paths]
    refine sum_over_legal (g := fun Q => Spec.paths Q d) hI hS hms h ?_
    intro rm hrm k hk
    simp only [bind_ok] at hk
    obtain ⟨⟨q, b⟩, hq, hk⟩ := hk
    have hb : b = true := generateMoves_legal hms hrm hq
    subst hb
    exact ⟨q, hq, fun hIq hSq => ih q k hIq hSq hk⟩

end Magog.LegalCount
