import Magog.Lemmas.GenGeo
import Magog.Lemmas.CountKing

/-! `makeMove` on a generated move of a well-formed position with the opponent not in check:
    it succeeds, the result is well-formed, and the returned verdict is "the mover is not in check"
    (`makeMove_spec`). The proof classifies the generated move (`genPseudo_mem`), turns each class into
    the facts the stage lemmas need, and dispatches to `simple_result` / `ep_result` / `castle?_result`. -/

namespace Magog.MM
open Magog Magog.Model Magog.Atk Magog.Geo Magog.Count Magog.GenRaw Magog.GenGeo

/-! ### the generator context, colour-generic -/

theorem ctx_fields {p : Position} {w : Bool} (hw : whiteTurn p = w) :
    p.ctx.cur = p.side w ∧ p.ctx.en = p.side (!w) ∧ p.ctx.adv = advOf w ∧ p.ctx.curBit = colorBit w ∧
    p.ctx.enBit = colorBit (!w) ∧ p.ctx.qOk = (p.flags &&& flagQ w != 0) ∧ p.ctx.kOk = (p.flags &&& flagK w != 0) ∧
    p.ctx.startRank = GenGeo.startRank w ∧ p.ctx.promoRank = homeRank (!w) := by
  subst hw
  unfold Position.ctx
  cases h : whiteTurn p <;> simp [advOf, colorBit, flagQ, flagK, GenGeo.startRank, homeRank]

/-! ### what `OppSafe` says -/

structure Safe (p : Position) (w : Bool) : Prop where
  pawns : ∀ a ∈ (p.side w).pawns, attackAt a (p.side (!w)).king &&& pawnFlag w = 0
  pieces : ∀ a ∈ (p.side w).pieces, pieceAttacks p.board (p.side (!w)).king a = .ok false
  king : attackAt (p.side w).king (p.side (!w)).king &&& Gen.KingAttacks = 0

theorem pawnFlagOf_king (w : Bool) : pawnFlagOf (kingOf w) = pawnFlag w := by cases w <;> decide

theorem safe_of_oppSafe {p : Position} {w : Bool} (hI : Inv p) (hw : whiteTurn p = w) (hS : OppSafe p) : Safe p w := by
  unfold OppSafe at hS
  rw [hw] at hS
  obtain ⟨kpc, hk, hp, hq, t, ht, hz⟩ := isUnderCheck_false hS
  have hcur := (hI.sideInv w).ok
  have hen := (hI.sideInv (!w)).ok
  have hK := hen.king_cell.1
  have hkc := hcur.king_cell
  rw [bget_ok_iff, hkc.2] at hk
  have hk' : kpc = kingOf w := (Option.some.inj hk).symm
  subst hk'
  refine ⟨fun a ha => ?_, hq, ?_⟩
  · have h := hp a ha
    have ha88 := (hcur.pawn_cell ha).1
    simp only [pawnAttacks, tget_attack ha88 hK, ok_bind, pure_eq_ok, Except.ok.injEq, pawnFlagOf_king,
      bne_eq_false_iff_eq] at h
    exact h
  · rw [tget_attack hkc.1 hK] at ht
    cases ht
    exact hz

/-! ### no generated move captures the king -/

theorem king_unique {p : Position} {c : Bool} (hI : Inv p) {s : Nat} (hs : s ∈ sq88)
    (h : p.board[s]? = some (kingOf c)) : s = (p.side c).king :=
  ((hI.sideInv c).ok.mem_of_man hs h).2.2 rfl

theorem has_bit_man {w : Bool} {x : Nat} (hc : x = 0 ∨ x ∈ pieceCodes) (h : x &&& colorBit w ≠ 0) : Man w x := by
  have : ∀ w : Bool, ∀ x ∈ 0 :: pieceCodes, x &&& colorBit w ≠ 0 → Man w x := by decide
  exact this w x (List.mem_cons.mpr hc) h

theorem knight_bits {pc : Nat} (h : pc = Gen.WKnight ∨ pc = Gen.BKnight) : pc &&& Colorless = Gen.Knight := by
  rcases h with rfl | rfl <;> decide

/-- the attack test for a slider whose ray to `t` is empty -/
theorem slider_hits {B : Array Nat} {frm t d pc : Nat} {l : List Nat} (hf : frm ∈ sq88) (ht : t ∈ sq88)
    (hpc : B[frm]? = some pc) (hbit : attackAt frm t &&& (pc &&& Colorless) ≠ 0)
    (hnk : (pc &&& Colorless) &&& Knight = 0) (hdir : dirAt frm t = d)
    (hw : walkList d t 8 (addb frm d) = some l) (hl : ∀ s ∈ l, s < B.size ∧ B[s]? = some 0) :
    pieceAttacks B t frm = .ok true := by
  have hwalk := sliderWalk_eq B d t 8 (addb frm d) l hw (fun s hs => (hl s hs).1)
  have hall : (l.all fun s => B.getD s 0 == 0) = true := by
    rw [List.all_eq_true]
    intro s hs
    simp [getD_of_some (hl s hs).2]
  have hb' : (attackAt frm t &&& (pc &&& Colorless) == 0) = false := by simpa using hbit
  have hn' : ((pc &&& Colorless) &&& Knight != 0) = false := by simp [hnk]
  simp only [pieceAttacks, bget_of_some hpc, tget_attack hf ht, tget_direction hf ht, ok_bind, hb', hn',
    Bool.false_eq_true, if_false, hdir, hwalk, hall]

theorem slider_bits {pc d : Nat} {dirs : List Nat}
    (h : ((pc = Gen.WBishop ∨ pc = Gen.BBishop) ∧ dirs = bishopDirs) ∨ ((pc = Gen.WRook ∨ pc = Gen.BRook) ∧ dirs = rookDirs) ∨
      ((pc = Gen.WQueen ∨ pc = Gen.BQueen) ∧ dirs = kingDirs)) (hd : d ∈ dirs) :
    d ∈ kingDirs ∧ (pc &&& Colorless) &&& Knight = 0 ∧
      (pc &&& Colorless = dirBit d ∨ pc &&& Colorless = Gen.QueenAttacks) := by
  rcases h with ⟨hp, rfl⟩ | ⟨hp, rfl⟩ | ⟨hp, rfl⟩
  · have : ∀ d ∈ bishopDirs, d ∈ kingDirs ∧ dirBit d = Gen.BishopAttacks := by decide
    obtain ⟨h1, h2⟩ := this d hd
    rw [h2]
    rcases hp with rfl | rfl <;> exact ⟨h1, by decide, .inl (by decide)⟩
  · have : ∀ d ∈ rookDirs, d ∈ kingDirs ∧ dirBit d = Gen.RookAttacks := by decide
    obtain ⟨h1, h2⟩ := this d hd
    rw [h2]
    rcases hp with rfl | rfl <;> exact ⟨h1, by decide, .inl (by decide)⟩
  · rcases hp with rfl | rfl <;> exact ⟨hd, by decide, .inr (by decide)⟩

/-! ### building `SimpleMove` -/

theorem target_cases {p : Position} {w : Bool} (hI : Inv p) {to x : Nat} (hto : to ∈ sq88)
    (hx : p.board[to]? = some x) (hcb : x &&& colorBit w = 0) (hnk : x ≠ kingOf (!w)) :
    x = 0 ∨ x = pawnOf (!w) ∨ x ∈ officersOf (!w) := by
  obtain ⟨v, hv, hc⟩ := cell_of_valid hI.board hto
  rw [hx] at hv
  cases hv
  rcases not_own_cases hc hcb with h | h | h | h
  · exact .inl h
  · exact .inr (.inl h)
  · exact .inr (.inr h)
  · exact absurd h hnk

theorem sq88_of_cell {p : Position} (hI : Inv p) {s x : Nat} (hv : isValid s = true) (hx : p.board[s]? = some x) :
    s ∈ sq88 := by
  have := (Array.getElem?_eq_some_iff.mp hx).1
  rw [hI.board.size] at this
  exact mem_sq88.mpr ⟨this, hv⟩

/-- a non-pawn man steps or slides to a valid square not holding an own man or the enemy king -/
theorem simple_of_step {p : Position} {w : Bool} {m : Move} {frm to v x : Nat} (hI : Inv p)
    (hfrm : frm ∈ sq88) (hv : p.board[frm]? = some v) (hman : Man w v) (hnp : v ≠ pawnOf w)
    (hm : m = ⟨frm, to, 0, InvalidSq⟩) (hto : isValid to = true) (hx : p.board[to]? = some x)
    (hcb : x &&& colorBit w = 0) (hnk : x ≠ kingOf (!w))
    (hnc : v = kingOf w → ¬ (fileOf frm = Gen.E ∧ (fileOf to = Gen.C ∨ fileOf to = Gen.G))) :
    SimpleMove p w m v x := by
  subst hm
  have hto88 := sq88_of_cell hI hto hx
  exact
    { frm := hfrm, to := hto88, hv := hv, man := hman, ht := hx, tgt := target_cases hI hto88 hx hcb hnk
      promo := fun e => absurd e hnp, pawnRank := fun e => absurd e hnp, notEp := fun e => absurd e hnp
      nonPawn := fun _ => rfl, notCastle := hnc }

theorem officer_man {w : Bool} {v : Nat} (h : v ∈ officersOf w) : Man w v ∧ v ≠ pawnOf w ∧ v ≠ kingOf w :=
  ⟨.inr (.inl h), fun e => pawnOf_not_officer w w (e ▸ h), fun e => kingOf_not_officer w w (e ▸ h)⟩

/-- the path cells of a slider move are empty -/
theorem path_empty {p : Position} {w : Bool} (hI : Inv p) {s y : Nat} (hs : s < 128) (hv : isValid s = true)
    (hy : p.board[s]? = some y) (h1 : y &&& colorBit w = 0) (h2 : y &&& colorBit (!w) = 0) : y = 0 := by
  obtain ⟨v, hv', hc⟩ := hI.board.codes s hs hv
  rw [hy] at hv'
  cases hv'
  rcases not_own_cases hc h1 with h | h
  · exact h
  · exact absurd h2 (by simpa using own_bit h)

/-! ### the main theorem -/

theorem makeMove_spec {p : Position} {m : Move} (hI : Inv p) (hS : OppSafe p) (hG : Generated p m) :
    ∃ p' b, makeMove p m = .ok (p', b) ∧ Inv p' ∧ (b = true ↔ OppSafe p') := by
  obtain ⟨kt, ms, hgen, hmem⟩ := hG
  obtain ⟨w, hw⟩ : ∃ w, whiteTurn p = w := ⟨_, rfl⟩
  obtain ⟨c1, c2, c3, c4, c5, c6, c7, c8, c9⟩ := ctx_fields hw
  have hsafe := safe_of_oppSafe hI hw hS
  have hcur := hI.sideInv w
  have hen := hI.sideInv (!w)
  have hK := hen.ok.king_cell
  have noEp : ∀ (B' : Array Nat) (cur' en' : Side) (f' : Nat) (v' : Nat), m.ep = InvalidSq →
      Upd2 p.board B' m.frm m.to v' → whiteTurn (mkPos p w B' cur' en' f' m.ep) = (!w) →
      m.ep = InvalidSq ∨ FenSpec.EpOk (mkPos p w B' cur' en' f' m.ep) := fun _ _ _ _ _ h _ _ => .inl h
  rcases genPseudo_mem hgen hmem with ⟨frm, hfrm, hpawn⟩ | ⟨frm, hfrm, a, ha, hma⟩ | ⟨a, ha, hma⟩ | hcq | hck
  · -- pawn moves
    rw [c1] at hfrm
    obtain ⟨hf88, hv⟩ := hcur.ok.pawn_cell hfrm
    have hranks := hI.noBackPawn frm (by cases w <;> simp_all [pawnOf])
    have hman : Man w (pawnOf w) := .inl rfl
    -- captures (both sides) share this
    have capture : ∀ δ, (δ = 0xFF ∨ δ = 1) → m.frm = frm → m.to = addb (addb frm (advOf w)) δ → m.ep = InvalidSq →
        PromoShape (homeRank (!w)) m.to m.promo →
        ((∃ x, p.board[m.to]? = some x ∧ x &&& colorBit (!w) ≠ 0) ∨ (m.to = p.ep ∧ m.to ≠ InvalidSq)) →
        ∃ p' b, makeMove p m = .ok (p', b) ∧ Inv p' ∧ (b = true ↔ OppSafe p') := by
      intro δ hδ e1 e2 e3 e4 e5
      rcases e5 with ⟨x, hx, hxb⟩ | ⟨hep, hne⟩
      · have hx0 : x ≠ 0 := fun e => by subst e; simp at hxb
        have hto88 : m.to ∈ sq88 := mem_sq88.mpr (InvFen.valid_of_ne_zero hI.board.size hI.offBoard hx hx0)
        obtain ⟨v, hv', hc⟩ := cell_of_valid hI.board hto88
        rw [hx] at hv'; cases hv'
        have hxman := has_bit_man hc hxb
        obtain ⟨g1, g2, _⟩ := cap_geo (w := w) hf88 hranks.1 hranks.2 hδ (e2 ▸ hto88)
        have hnk : x ≠ kingOf (!w) := by
          intro e
          subst e
          have := king_unique hI hto88 hx
          have h0 := hsafe.pawns frm hfrm
          rw [← this, e2] at h0
          exact g2 h0
        have htgt : x = 0 ∨ x = pawnOf (!w) ∨ x ∈ officersOf (!w) := by
          rcases hxman with h | h | h
          · exact .inr (.inl h)
          · exact .inr (.inr h)
          · exact absurd h hnk
        have hs : SimpleMove p w m (pawnOf w) x :=
          { frm := e1 ▸ hf88, to := hto88, hv := e1 ▸ hv, man := hman, ht := hx, tgt := htgt
            promo := fun _ => e4, pawnRank := fun _ => e2 ▸ g1
            notEp := fun _ hh => by
              rcases hI.ep with h | h
              · rw [h] at hh
                have := (mem_sq88.mp hto88).1
                rw [hh] at this
                exact absurd this (by decide)
              · rw [hh, h.2.2.1] at hx
                exact hx0 (Option.some.inj hx).symm
            nonPawn := fun h => absurd rfl h
            notCastle := fun h => absurd h (pawnOf_ne_kingOf w w) }
        exact simple_result hI hw hs (fun B' cur' en' f' hU ht => noEp B' cur' en' f' _ e3 hU ht)
      · rcases hI.ep with h | h
        · exact absurd (hep.trans h) hne
        · have hto88 : m.to ∈ sq88 := mem_sq88.mpr ⟨hep ▸ h.1, hep ▸ h.2.1⟩
          obtain ⟨g1, _, g3⟩ := cap_geo (w := w) hf88 hranks.1 hranks.2 hδ (e2 ▸ hto88)
          have hrank : rankOf m.to = epRank w := by
            have := h.2.2.2
            rw [hw] at this
            rw [hep]
            cases w
            · simp only [Bool.false_eq_true, if_false] at this; exact this.1
            · simp only [if_true] at this; exact this.1
          have hkill := g3 (e2 ▸ hrank)
          rw [← e2] at hkill
          have hp0 : m.promo = 0 := by
            unfold PromoShape at e4
            rw [if_neg] at e4
            · exact e4
            · rw [hrank]; cases w <;> decide
          refine ep_result hI hw (e1 ▸ hfrm) hep h ?_ hp0 e3
          rw [e1, hkill, epVictim, hep]
    rcases hpawn with ⟨a, ha, hma⟩ | ⟨a, ha, hma⟩ | ⟨a, ha, hma⟩
    · obtain ⟨e1, e2, e3, e4, e5⟩ := pawnCapQ_mem ha hma
      rw [c3] at e2
      rw [c9] at e4
      rw [c5] at e5
      refine capture 0xFF (.inl rfl) e1 e2 e3 e4 ?_
      rcases e5 with h | h
      · exact .inl h
      · exact .inr ⟨h, e2 ▸ capQ_ne_invalid hf88⟩
    · obtain ⟨e1, e2, e3, e4, e5⟩ := pawnCapK_mem ha hma
      rw [c3] at e2
      rw [c9] at e4
      rw [c5] at e5
      refine capture 1 (.inr rfl) e1 e2 e3 e4 ?_
      rcases e5 with h | ⟨h, hlt⟩
      · exact .inl h
      · refine .inr ⟨h, fun e => ?_⟩
        rw [e, hI.board.size] at hlt
        exact absurd hlt (by decide)
    · obtain ⟨g1, g2, g3, g4, g5⟩ := push_geo (w := w) hf88 hranks.1 hranks.2
      have notEpPush : addb frm (advOf w) ≠ p.ep := by
        intro hh
        rcases hI.ep with h | h
        · have := (mem_sq88.mp g1).1
          rw [hh, h] at this
          exact absurd this (by decide)
        · have hv6 := (epOk_facts hw h).2.2.2.2.2
          have : epVictim p w = frm := by
            unfold epVictim
            rw [← hh]
            cases w
            · simpa using g4
            · simpa using g4
          rw [this, hv] at hv6
          exact pawnOf_ne_not w (Option.some.inj hv6)
      rcases pawnPush_mem ha hma with ⟨e1, e2, e3, e4, e5⟩ | ⟨e1, e2, e3, e4⟩
      · rw [c3] at e2
        rw [c9] at e4
        have hs : SimpleMove p w m (pawnOf w) 0 :=
          { frm := e1 ▸ hf88, to := e2 ▸ g1, hv := e1 ▸ hv, man := hman, ht := e5, tgt := .inl rfl
            promo := fun _ => e4, pawnRank := fun _ => e2 ▸ g2
            notEp := fun _ => e2 ▸ notEpPush
            nonPawn := fun h => absurd rfl h
            notCastle := fun h => absurd h (pawnOf_ne_kingOf w w) }
        exact simple_result hI hw hs (fun B' cur' en' f' hU ht => noEp B' cur' en' f' _ e3 hU ht)
      · rw [c3] at e1 e3 e4
        rw [c8] at e2
        obtain ⟨d1, d2, d3, d4, d5, d6, d7⟩ := g5 e2
        subst e1
        have hs : SimpleMove p w ⟨frm, addb (addb frm (advOf w)) (advOf w), 0, addb frm (advOf w)⟩ (pawnOf w) 0 :=
          { frm := hf88, to := d1, hv := hv, man := hman, ht := e4, tgt := .inl rfl
            promo := fun _ => by
              have : rankOf (addb (addb frm (advOf w)) (advOf w)) ≠ homeRank (!w) := by
                cases w
                · exact d2
                · exact d3
              simp only [this, if_false]
            pawnRank := fun _ => by
              cases w
              · exact d3
              · exact d2
            notEp := fun _ hh => by
              rcases hI.ep with h | h
              · have := (mem_sq88.mp d1).1
                simp only [] at hh
                rw [hh, h] at this
                exact absurd this (by decide)
              · have hr := h.2.2.2
                rw [hw] at hr
                simp only [] at hh
                rw [hh] at d4
                cases w
                · simp only [Bool.false_eq_true, if_false] at hr; exact d4 hr.1
                · simp only [if_true] at hr; exact d4 hr.1
            nonPawn := fun h => absurd rfl h
            notCastle := fun h => absurd h (pawnOf_ne_kingOf w w) }
        refine simple_result hI hw hs (fun B' cur' en' f' hU ht => .inr ?_)
        simp only [if_true] at hU
        obtain ⟨t1, t2⟩ := mem_sq88.mp g1
        have b0 : B'[addb frm (advOf w)]? = some 0 := by
          rw [hU.2, if_neg g3, if_neg d6]; exact e3
        have bf : B'[frm]? = some 0 := by rw [hU.2, if_pos rfl]
        have bt : B'[addb (addb frm (advOf w)) (advOf w)]? = some (pawnOf w) := by
          rw [hU.2, if_neg (fun e => hs.frm |> fun _ => by
            have := hs.hv; have h2 := hs.ht; simp only [] at this h2; rw [e, this] at h2
            exact pawnOf_ne_zero w (Option.some.inj h2)), if_pos rfl]
        refine ⟨by rw [mkPos_ep]; exact t1, by rw [mkPos_ep]; exact t2, by rw [mkPos_ep, mkPos_board]; exact b0, ?_⟩
        rw [ht, mkPos_ep, mkPos_board]
        cases w
        · simp only [Bool.not_false, if_true]
          simp only [Bool.false_eq_true, if_false] at g4 d7
          refine ⟨d5, ?_, ?_⟩
          · rw [d7]; exact bt
          · rw [g4]; exact bf
        · simp only [Bool.not_true, Bool.false_eq_true, if_false]
          simp only [if_true] at g4 d7
          refine ⟨d5, ?_, ?_⟩
          · rw [d7]; exact bt
          · rw [g4]; exact bf
  · -- officers
    rw [c1] at hfrm
    obtain ⟨hf88, pc, hoff, hv⟩ := hcur.ok.piece_cell hfrm
    obtain ⟨pc2, hpc, hcases⟩ := pieceGen_mem ha hma
    rw [hv] at hpc
    obtain rfl : pc = pc2 := Option.some.inj hpc
    obtain ⟨hman, hnp, hnkk⟩ := officer_man hoff
    have slide : ∀ dirs, (((pc = Gen.WBishop ∨ pc = Gen.BBishop) ∧ dirs = bishopDirs) ∨
          ((pc = Gen.WRook ∨ pc = Gen.BRook) ∧ dirs = rookDirs) ∨ ((pc = Gen.WQueen ∨ pc = Gen.BQueen) ∧ dirs = kingDirs)) →
        (∃ d ∈ dirs, SlideFact p.board p.ctx frm d 8 (addb frm d) m) →
        ∃ p' b, makeMove p m = .ok (p', b) ∧ Inv p' ∧ (b = true ↔ OppSafe p') := by
      intro dirs hdirs ⟨d, hd, t, l, e1, e2, ⟨x, hx, hcb⟩, e4, e5⟩
      rw [c4] at hcb
      obtain ⟨hdk, hb1, hb2⟩ := slider_bits hdirs hd
      have hl : ∀ s ∈ l, isValid s = true := fun s hs => (e5 s hs).1
      obtain ⟨q1, q2, q3, q4⟩ := slide_geo hf88 hdk e2 e4 hl
      have ht88 := sq88_of_cell hI e2 hx
      have hnk : x ≠ kingOf (!w) := by
        intro e
        subst e
        have hkk := king_unique hI ht88 hx
        have h0 := hsafe.pieces frm hfrm
        rw [← hkk] at h0
        have hbit : attackAt frm t &&& (pc &&& Colorless) ≠ 0 := by
          rcases hb2 with h | h
          · rw [h]; simpa [hasBit] using q2
          · rw [h]; simpa [hasBit] using q3
        have h1 := slider_hits (B := p.board) hf88 ht88 hv hbit hb1 q1 e4 (fun s hs => by
          obtain ⟨sv, y, hy, y1, y2⟩ := e5 s hs
          rw [c4] at y1
          rw [c5] at y2
          have := path_empty hI (q4 s hs) sv hy y1 y2
          subst this
          exact ⟨by rw [hI.board.size]; exact q4 s hs, hy⟩)
        rw [h1] at h0
        cases h0
      have hs := simple_of_step hI hf88 hv hman hnp e1 e2 hx hcb hnk (fun e => absurd e hnkk)
      exact simple_result hI hw hs (fun B' cur' en' f' hU ht => noEp B' cur' en' f' _ (by rw [e1]) hU ht)
    rcases hcases with ⟨hk, d, hd, e1, e2, x, hx, hcb⟩ | ⟨hk, hsl⟩ | ⟨hk, hsl⟩ | ⟨hk, hsl⟩
    · rw [c4] at hcb
      have ht88 := sq88_of_cell hI e2 hx
      have hnk : x ≠ kingOf (!w) := by
        intro e
        subst e
        have hkk := king_unique hI ht88 hx
        have h0 := hsafe.pieces frm hfrm
        rw [← hkk, knight_attacks hf88 ht88 hv (knight_bits hk), knight_geo hf88 hd ht88] at h0
        cases h0
      have hs := simple_of_step hI hf88 hv hman hnp e1 e2 hx hcb hnk (fun e => absurd e hnkk)
      exact simple_result hI hw hs (fun B' cur' en' f' hU ht => noEp B' cur' en' f' _ (by rw [e1]) hU ht)
    · exact slide bishopDirs (.inl ⟨hk, rfl⟩) hsl
    · exact slide rookDirs (.inr (.inl ⟨hk, rfl⟩)) hsl
    · exact slide kingDirs (.inr (.inr ⟨hk, rfl⟩)) hsl
  · -- king steps
    obtain ⟨d, hd, e1, e2, x, hx, hcb⟩ := kingGen_mem ha hma
    rw [c1] at e1 e2 hx
    rw [c4] at hcb
    have hkc := hcur.ok.king_cell
    have ht88 := sq88_of_cell hI e2 hx
    have hnk : x ≠ kingOf (!w) := by
      intro e
      subst e
      have hkk := king_unique hI ht88 hx
      have h0 := hsafe.king
      rw [← hkk] at h0
      exact king_geo hkc.1 hd ht88 h0
    have hs := simple_of_step hI hkc.1 hkc.2 (kingOf_man w) (fun e => pawnOf_ne_kingOf w w e.symm) e1 e2 hx hcb hnk
      (fun _ ⟨hE, hCG⟩ => by
        have := king_step_not_castle (p.side w).king hd hE
        rcases hCG with h | h
        · exact this.1 h
        · exact this.2 h)
    exact simple_result hI hw hs (fun B' cur' en' f' hU ht => noEp B' cur' en' f' _ (by rw [e1]) hU ht)
  · -- queen-side castling
    obtain ⟨e1, e2, e3⟩ := hcq
    rw [c6] at e2
    have hflag : p.flags &&& flagQ w ≠ 0 := by simpa using e2
    have hold := (castlingConsistent_iff hI.board.size).mp hI.castling
    obtain ⟨hk, _⟩ := (hold w).2 hflag
    have hking : (p.side w).king = kingHome w := (king_unique hI (castle_squares w).1 hk).symm
    obtain ⟨a1, a2, a3, a4, a5, a6⟩ := castle_arith w
    obtain ⟨_, q2, _, q4⟩ := castleQOk_true e3
    rw [c1, hking] at q2 q4
    rw [a5] at q2
    rw [a6] at q4
    have hm : m = ⟨kingHome w, kingToQ w, 0, InvalidSq⟩ := by
      rw [e1, castleQTo, c1, hking, a2]
    rw [hm]
    exact castleQ_result hI hw hflag q2 q4 rfl
  · -- king-side castling
    obtain ⟨e1, e2, e3⟩ := hck
    rw [c7] at e2
    have hflag : p.flags &&& flagK w ≠ 0 := by simpa using e2
    have hold := (castlingConsistent_iff hI.board.size).mp hI.castling
    obtain ⟨hk, _⟩ := (hold w).1 hflag
    have hking : (p.side w).king = kingHome w := (king_unique hI (castle_squares w).1 hk).symm
    obtain ⟨a1, a2, a3, a4, a5, a6⟩ := castle_arith w
    obtain ⟨_, q2, _, q4⟩ := castleKOk_true e3
    rw [c1, hking] at q2 q4
    rw [a3] at q2
    rw [a4] at q4
    have hm : m = ⟨kingHome w, kingToK w, 0, InvalidSq⟩ := by
      rw [e1, castleKTo, c1, hking, a1]
    rw [hm]
    exact castleK_result hI hw hflag q2 q4 rfl

/-! ### games -/

theorem gameOk_of_B {kt : Killers} : ∀ {p : Position} {ms : List Move}, gameOkB kt p ms = true → GameOk p ms := by
  intro p ms
  induction ms generalizing p with
  | nil => intro _; trivial
  | cons m ms ih =>
    intro h
    unfold gameOkB at h
    split at h
    · rename_i l p' hg hmm
      simp only [Bool.and_eq_true, List.contains_iff_mem] at h
      exact ⟨⟨kt, l, hg, h.1⟩, p', hmm, ih h.2⟩
    · cases h

theorem history {p : Position} (hI : Inv p) (hS : OppSafe p) : ∀ {ms : List Move}, GameOk p ms →
    ∀ k, k ≤ ms.length → ∃ q, playM p (ms.take k) = .ok q ∧ Inv q ∧ OppSafe q := by
  intro ms
  induction ms generalizing p with
  | nil =>
    intro _ k hk
    have : k = 0 := by simpa using hk
    subst this
    exact ⟨p, rfl, hI, hS⟩
  | cons m ms ih =>
    intro hg k hk
    obtain ⟨hgen, p', hmm, hrest⟩ := hg
    cases k with
    | zero => exact ⟨p, rfl, hI, hS⟩
    | succ k =>
      obtain ⟨p'', b, h1, h2, h3⟩ := makeMove_spec hI hS hgen
      rw [hmm] at h1
      simp only [Except.ok.injEq, Prod.mk.injEq] at h1
      obtain ⟨rfl, rfl⟩ := h1
      obtain ⟨q, hq, hIq, hSq⟩ := ih h2 (h3.mp rfl) hrest k (by simpa using hk)
      refine ⟨q, ?_, hIq, hSq⟩
      simp only [List.take_succ_cons, playM, hmm, ok_bind]
      exact hq

end Magog.MM
