import Magog.Lemmas.MirrorTables
import Magog.Lemmas.Attack

/-! C15 helpers, part 3: the well-formedness `MirrorOk` under which the colour flip is a symmetry of
    the evaluation, list-loop lemmas up to the panic payload, and the symmetry of the context record. -/

namespace Magog.Mir
open Magog Magog.Model Magog.Count Magog.Geo Magog.Atk

/-! ### list loops -/

theorem sumM'_map {α β} (f : β → M Nat) (g : α → β) (l : List α) :
    sumM' f (l.map g) = sumM' (fun x => f (g x)) l := by
  induction l with
  | nil => rfl
  | cons x xs ih => simp only [List.map_cons, sumM', ih]

theorem sumMI_map {α β} (f : β → M Int) (g : α → β) (l : List α) :
    sumMI f (l.map g) = sumMI (fun x => f (g x)) l := by
  induction l with
  | nil => rfl
  | cons x xs ih => simp only [List.map_cons, sumMI, ih]

theorem anyM'_map {α β} (f : β → M Bool) (g : α → β) (l : List α) :
    anyM' f (l.map g) = anyM' (fun x => f (g x)) l := by
  induction l with
  | nil => rfl
  | cons x xs ih => simp only [List.map_cons, anyM', ih]

theorem okVal_sumM'_congr {α} {f g : α → M Nat} {l : List α} (h : ∀ x ∈ l, okVal (f x) = okVal (g x)) :
    okVal (sumM' f l) = okVal (sumM' g l) := by
  induction l with
  | nil => rfl
  | cons x xs ih =>
    simp only [sumM', okVal_bind, h x List.mem_cons_self,
      ih (fun y hy => h y (List.mem_cons_of_mem _ hy))]

theorem okVal_sumMI_congr {α} {f g : α → M Int} {l : List α} (h : ∀ x ∈ l, okVal (f x) = okVal (g x)) :
    okVal (sumMI f l) = okVal (sumMI g l) := by
  induction l with
  | nil => rfl
  | cons x xs ih =>
    simp only [sumMI, okVal_bind, h x List.mem_cons_self,
      ih (fun y hy => h y (List.mem_cons_of_mem _ hy))]

theorem okVal_anyM'_congr {α} {f g : α → M Bool} {l : List α} (h : ∀ x ∈ l, okVal (f x) = okVal (g x)) :
    okVal (anyM' f l) = okVal (anyM' g l) := by
  induction l with
  | nil => rfl
  | cons x xs ih =>
    simp only [anyM', okVal_bind, h x List.mem_cons_self]
    refine Option.bind_congr fun b _ => ?_
    cases b
    · simpa using ih (fun y hy => h y (List.mem_cons_of_mem _ hy))
    · rfl

/-- a sum of possibly panicking terms, up to the panic payload, does not depend on the order -/
theorem okVal_sumM'_perm {α} (f : α → M Nat) {l₁ l₂ : List α} (h : l₁.Perm l₂) :
    okVal (sumM' f l₁) = okVal (sumM' f l₂) := by
  induction h with
  | nil => rfl
  | cons x _ ih => simp only [sumM', okVal_bind, ih]
  | swap x y l =>
    simp only [sumM', okVal_bind, okVal_pure]
    cases okVal (f x) <;> cases okVal (f y) <;> cases okVal (sumM' f l) <;> simp <;> omega
  | trans _ _ ih1 ih2 => rw [ih1, ih2]

theorem sumMI_isSome {α} {f : α → M Int} {l : List α} (h : ∀ x ∈ l, (okVal (f x)).isSome) :
    (okVal (sumMI f l)).isSome := by
  induction l with
  | nil => rfl
  | cons x xs ih =>
    have h1 := h x List.mem_cons_self
    have h2 := ih (fun y hy => h y (List.mem_cons_of_mem _ hy))
    simp only [sumMI, okVal_bind, okVal_pure]
    cases hx : okVal (f x) with
    | none => simp [hx] at h1
    | some a => cases hr : okVal (sumMI f xs) with
      | none => simp [hr] at h2
      | some r => simp

theorem sumM'_isSome {α} {f : α → M Nat} {l : List α} (h : ∀ x ∈ l, (okVal (f x)).isSome) :
    (okVal (sumM' f l)).isSome := by
  induction l with
  | nil => rfl
  | cons x xs ih =>
    have h1 := h x List.mem_cons_self
    have h2 := ih (fun y hy => h y (List.mem_cons_of_mem _ hy))
    simp only [sumM', okVal_bind, okVal_pure]
    cases hx : okVal (f x) with
    | none => simp [hx] at h1
    | some a => cases hr : okVal (sumM' f xs) with
      | none => simp [hr] at h2
      | some r => simp

theorem isOk_of_isSome {α} {x : M α} (h : (okVal x).isSome) : ∃ v, x = .ok v := by
  cases x with
  | ok v => exact ⟨v, rfl⟩
  | error e => simp at h

/-! ### well-formedness -/

/-- exactly one of the two colour bits -/
def oneColour (x : Nat) : Bool := (x &&& WhiteBit != 0) != (x &&& BlackBit != 0)

/-- the men a side's lists name stand where the lists say (one direction of `Atk.SideOk`),
    and no officer is listed twice -/
structure SideHolds (b : Array Nat) (sd : Side) (w : Bool) : Prop where
  pawns : ∀ s ∈ sd.pawns, s ∈ sq88 ∧ b[s]? = some (pawnOf w)
  pieces : ∀ s ∈ sd.pieces, s ∈ sq88 ∧ ∃ c ∈ officersOf w, b[s]? = some c
  king : sd.king ∈ sq88 ∧ b[sd.king]? = some (kingOf w)
  nodup : sd.pieces.Nodup

/-- The explicit well-formedness under which the colour flip is a symmetry of the evaluation.
    It does not mention the side to move (so it also holds for the turn-flipped position), legality,
    completeness of the lists, the off-board slots, or the pawn ranks. -/
structure MirrorOk (p : Position) : Prop where
  size : p.board.size = 128
  bytes : ∀ (i x : Nat), p.board[i]? = some x → x < 256
  white : SideHolds p.board (p.side true) true
  black : SideHolds p.board (p.side false) false
  flags : p.flags < 256
  wCastle : p.flags &&& (FWK ||| FWQ) ≠ 0 → p.whiteKing = Gen.E1
  bCastle : p.flags &&& (FBK ||| FBQ) ≠ 0 → p.blackKing = Gen.E8
  epByte : p.ep < 256
  epValid : p.ep < 128 → isValid p.ep = true

theorem MirrorOk.side {p : Position} (h : MirrorOk p) (w : Bool) : SideHolds p.board (p.side w) w := by
  cases w
  · exact h.black
  · exact h.white

/-! ### flags and the context record -/

theorem flags_fin : ∀ f < 256,
    mirrorFlags f < 256 ∧ mirrorFlags (mirrorFlags f) = f ∧
    (mirrorFlags f &&& FWhiteTurn != 0) = !(f &&& FWhiteTurn != 0) ∧
    (mirrorFlags f &&& FWK != 0) = (f &&& FBK != 0) ∧ (mirrorFlags f &&& FWQ != 0) = (f &&& FBQ != 0) ∧
    (mirrorFlags f &&& FBK != 0) = (f &&& FWK != 0) ∧ (mirrorFlags f &&& FBQ != 0) = (f &&& FWQ != 0) ∧
    mirrorFlags (f ^^^ FWhiteTurn) = mirrorFlags f ^^^ FWhiteTurn ∧
    mirrorFlags (clearBits f FWK) = clearBits (mirrorFlags f) FBK ∧
    mirrorFlags (clearBits f FWQ) = clearBits (mirrorFlags f) FBQ ∧
    mirrorFlags (clearBits f FBK) = clearBits (mirrorFlags f) FWK ∧
    mirrorFlags (clearBits f FBQ) = clearBits (mirrorFlags f) FWQ ∧
    mirrorFlags (clearBits f (FWK ||| FWQ)) = clearBits (mirrorFlags f) (FBK ||| FBQ) ∧
    mirrorFlags (clearBits f (FBK ||| FBQ)) = clearBits (mirrorFlags f) (FWK ||| FWQ) ∧
    clearBits f FWK < 256 ∧ clearBits f FWQ < 256 ∧ clearBits f FBK < 256 ∧ clearBits f FBQ < 256 ∧
    clearBits f (FWK ||| FWQ) < 256 ∧ clearBits f (FBK ||| FBQ) < 256 := by
  decide +kernel

theorem whiteTurn_mirror {p : Position} (h : p.flags < 256) : whiteTurn (mirror p) = !whiteTurn p := by
  simp only [whiteTurn, mirror]
  exact (flags_fin _ h).2.2.1

theorem side_mirror (p : Position) (w : Bool) : (mirror p).side w = mirrorSide (p.side (!w)) := by
  cases w <;> rfl

theorem flipTurn_mirror {p : Position} (h : p.flags < 256) : mirror (flipTurn p) = flipTurn (mirror p) := by
  simp only [mirror, flipTurn]
  rw [(flags_fin _ h).2.2.2.2.2.2.2.1]

theorem MirrorOk.flipTurn {p : Position} (h : MirrorOk p) : MirrorOk (flipTurn p) := by
  have hb : (Model.flipTurn p).board = p.board := rfl
  have hf : (Model.flipTurn p).flags = p.flags ^^^ FWhiteTurn := rfl
  have e1 : ∀ f < 256, f ^^^ FWhiteTurn < 256 ∧ (f ^^^ FWhiteTurn) &&& (FWK ||| FWQ) = f &&& (FWK ||| FWQ) ∧
      (f ^^^ FWhiteTurn) &&& (FBK ||| FBQ) = f &&& (FBK ||| FBQ) := by decide +kernel
  obtain ⟨e2, e3, e4⟩ := e1 _ h.flags
  refine ⟨h.size, h.bytes, h.white, h.black, ?_, ?_, ?_, h.epByte, h.epValid⟩
  · rw [hf]; exact e2
  · rw [hf, e3]; exact h.wCastle
  · rw [hf, e4]; exact h.bCastle

end Magog.Mir
